import MalVerif.Py.TieGraph
import MalVerif.Props.C09
/-!
# C09 for the *translated* Python — the attack graph stays structurally consistent

The theorems of `MalVerif/Props/C09.lean` are about the hand-written state machine `MalVerif.AGS`.  Here they
are restated for the functions of `MalVerif/Py/Gen/{Graph,Attacker}.lean`, which `translators/py2lean.py`
generates from `maltoolbox/attackgraph/{attackgraph,attacker}.py`, and proved through the tie theorems of
`MalVerif/Py/TieGraph.lean` / `TieNode.lean`.  The invariant on a heap `s` is `Consistent (absS s nf af)`
(`nf` / `af`: allocation counters, which bound the references in use).
-/
namespace MalVerif.PropsGen.C09
open MalVerif.Py MalVerif.Py.Gen MalVerif.Py.Tie MalVerif.AGS MalVerif.AGraph

/-- the structural invariant, stated on the heap -/
abbrev Inv (s : H) (nf af : Nat) : Prop := Consistent (absS s nf af)

/-- the empty graph is consistent -/
theorem init_consistent : Inv {} 0 0 :=
  Consistent.of_frame (s := {}) ⟨rfl, rfl, rfl, rfl, rfl, rfl, rfl, rfl, rfl⟩ (fun _ => rfl) (fun _ => rfl)
    (fun _ => rfl) (fun _ => rfl) (fun _ => rfl) rfl init_consistent'

theorem init_namesExact : NamesExact (absS {} 0 0) := by
  intro k r
  show dget [] k = some r ↔ (r ∈ ([] : List Nat) ∧ _)
  simp [dget_nil]

/-! ### `add_node` -/

/-- `add_node` of a node object without edges / attackers (what the constructor gives), allocated at the next
free reference -/
theorem add_node_consistent (s s' : H) (node : NRef) (nid : Option Int) (af : Nat)
    (hc : Consistent (absS s node af))
    (hdet : (s.n node).children = [] ∧ (s.n node).parents = [] ∧ (s.n node).compromised_by = [])
    (h : graph_add_node s node nid = .ok s') : Consistent (absS s' (node + 1) af) :=
  MalVerif.C09.addNode_consistent_partial (o := absN (s.n node)) hc hdet.1 hdet.2.1 hdet.2.2
    (add_node_tie s s' node nid af h)

/-- an id in use is rejected with `ValueError` -/
theorem add_node_rejects_duplicate_id (s : H) (node : NRef) (k : Int) (r : NRef)
    (h : graph_get_node_by_id s k = some r) : graph_add_node s node (some k) = .error .valueError := by
  rw [TG.graph_add_node_eq]
  split
  · rfl
  · have : dictIn s._id_to_node (TG.anKey s (some k)) = true := by
      rw [TG.dictIn_eq_dget]
      show (dget s._id_to_node k).isSome = true
      rw [← TG.dictGet_eq_dget]
      exact (congrArg Option.isSome h :)
    rw [if_pos this]

/-- `add_node` raises nothing but that `ValueError` -/
theorem add_node_raises_only_valueError (s : H) (node : NRef) (nid : Option Int) (e : PyErr)
    (h : graph_add_node s node nid = .error e) : e = .valueError :=
  (add_node_error s node nid 0 e h).1

/-- with a generated id `add_node` never fails in a consistent graph (`node`: the next free reference, i.e. an
object that is not part of the graph) -/
theorem add_node_auto_id_ok (s : H) (node : NRef) (af : Nat) (hc : Consistent (absS s node af)) :
    ∃ s', graph_add_node s node none = .ok s' := by
  cases hres : graph_add_node s node none with
  | ok s' => exact ⟨s', rfl⟩
  | error e =>
    obtain ⟨s', hs'⟩ := MalVerif.C09.addNode_auto_id_ok (absS s node af) (absN (s.n node)) hc
    rcases (add_node_error s node none af e hres).2 with hp | he
    · rw [nodeIsPart_fresh s node af hc] at hp; cases hp
    · rw [he] at hs'; cases hs'

/-- (b653290) a node object that is already part of the graph — it is in the node list and has its id — is
rejected with `ValueError`, whatever `node_id` is passed: it cannot be listed twice or get a second id -/
theorem add_node_rejects_member (s : H) (node : NRef) (nid : Option Int) (nf af : Nat)
    (hc : Consistent (absS s nf af)) (hm : node ∈ s.nodes) (hid : (s.n node).id.isSome) :
    graph_add_node s node nid = .error .valueError :=
  add_node_rejects_part s node nid (nodeIsPart_member s node nf af hc hm hid)

/-- … stated without the invariant: the guard is `node.id is not None and _id_to_node.get(node.id) is node` -/
theorem add_node_rejects_indexed (s : H) (node : NRef) (nid : Option Int) (k : Int)
    (hid : (s.n node).id = some k) (hidx : graph_get_node_by_id s k = some node) :
    graph_add_node s node nid = .error .valueError :=
  add_node_rejects_part s node nid ((TG.nodeIsPart_iff s node).2 ⟨k, hid, hidx⟩)

/-- a freshly constructed node object (`id` is `None`) passes that guard: it is rejected iff the id is in use -/
theorem add_node_fresh_raises_iff (s : H) (node : NRef) (nid : Option Int) (hid : (s.n node).id = none) :
    (∃ e, graph_add_node s node nid = .error e) ↔
      (graph_get_node_by_id s (nid.getD s.next_node_id)).isSome = true := by
  rw [TG.graph_add_node_eq, if_neg (by rw [TG.nodeIsPart_of_id_none s node hid]; decide), TG.dictIn_eq_dget,
    TG.anKey_eq]
  show _ ↔ (dictGet s._id_to_node _).isSome = true
  rw [TG.dictGet_eq_dget]
  split
  · next h => exact ⟨fun _ => h, fun _ => ⟨_, rfl⟩⟩
  · next h => exact ⟨fun ⟨_, h'⟩ => (by cases h'), fun h' => absurd h' h⟩

/-- the same node object twice: the second `add_node` is rejected and (an exception carries no heap) the graph
stays as the first call left it -/
theorem add_node_twice_rejected (s s' : H) (node : NRef) (nid nid' : Option Int)
    (h : graph_add_node s node nid = .ok s') : graph_add_node s' node nid' = .error .valueError := by
  rw [TG.graph_add_node_eq] at h
  split at h
  · cases h
  split at h
  · cases h
  · injection h with h
    subst h
    refine add_node_rejects_indexed _ node nid' (TG.anKey s nid) ?_ ?_
    · show (if node = node then _ else _ : PyNode).id = _
      rw [if_pos rfl]
    · show dictGet (dictSet s._id_to_node (optIntGet ((TG.anSt s node (TG.anKey s nid)).n node).id) node) _ = _
      have : optIntGet ((TG.anSt s node (TG.anKey s nid)).n node).id = TG.anKey s nid := by
        show optIntGet (if node = node then _ else _ : PyNode).id = _
        rw [if_pos rfl]; rfl
      rw [this, TG.dictSet_eq_dset, TG.dictGet_eq_dget, dget_dset, if_pos rfl]

/-- the name index stays exact if the new full name is unused -/
theorem add_node_namesExact (s s' : H) (node : NRef) (nid : Option Int) (af : Nat)
    (hc : Consistent (absS s node af)) (hx : NamesExact (absS s node af))
    (hfresh : graph_get_node_by_full_name s
      (fullName { absN (s.n node) with id := nid.getD s.next_node_id }) = none)
    (h : graph_add_node s node nid = .ok s') : NamesExact (absS s' (node + 1) af) :=
  MalVerif.C09.addNode_namesExact (o := absN (s.n node)) hc hx
    (by rw [← get_node_by_full_name_tie]; exact hfresh) (add_node_tie s s' node nid af h)

/-! ### `remove_node` -/

theorem remove_node_consistent (s s' : H) (r : NRef) (nf af : Nat) (hc : Consistent (absS s nf af))
    (hr : r ∈ s.nodes) (h : graph_remove_node s r = .ok s') : Consistent (absS s' nf af) := by
  rw [remove_node_tie s s' r nf af h]
  exact MalVerif.C09.removeNode_consistent _ r hc hr

theorem remove_node_namesExact (s s' : H) (r : NRef) (nf af : Nat) (hc : Consistent (absS s nf af))
    (hx : NamesExact (absS s nf af)) (hr : r ∈ s.nodes) (h : graph_remove_node s r = .ok s') :
    NamesExact (absS s' nf af) := by
  rw [remove_node_tie s s' r nf af h]
  exact removeNode_namesExact _ r hc hx hr

/-- in a consistent graph with an exact name index `remove_node` of a node of the graph (whose `id` is set)
returns normally -/
theorem remove_node_terminates_normally (s : H) (r : NRef) (nf af : Nat) (hc : Consistent (absS s nf af))
    (hx : NamesExact (absS s nf af)) (hr : r ∈ s.nodes) (hid : (s.n r).id.isSome) :
    ∃ s', graph_remove_node s r = .ok s' := remove_node_ok s r nf af hc hx hr hid

/-- a removed node leaves no trace: it is in no node list, child / parent list, attacker list or index -/
theorem remove_node_leaves_no_trace (s s' : H) (r : NRef) (nf af : Nat) (hc : Consistent (absS s nf af))
    (hr : r ∈ s.nodes) (h : graph_remove_node s r = .ok s') :
    r ∉ s'.nodes ∧
    (∀ p ∈ s'.nodes, r ∉ (s'.n p).children ∧ r ∉ (s'.n p).parents) ∧
    (∀ a ∈ s'.attackers, r ∉ (s'.a a).reached_attack_steps ∧ r ∉ (s'.a a).entry_points) ∧
    (∀ k, graph_get_node_by_id s' k ≠ some r) ∧
    (∀ k, graph_get_node_by_full_name s' k ≠ some r) ∧
    graph_get_node_by_id s' (optIntGet (s.n r).id) = none ∧
    graph_get_node_by_full_name s' (fullName (absN (s.n r))) = none := by
  have t := remove_node_tie s s' r nf af h
  have hc' : Consistent (absS s' nf af) := remove_node_consistent s s' r nf af hc hr h
  obtain ⟨h1, h2, h3, h4, h5⟩ := MalVerif.C09.removeNode_leaves_no_trace (absS s nf af) r hc hr
  rw [← t] at h1 h2 h3 h4 h5
  refine ⟨h1, h2, h3, ?_, ?_, ?_, ?_⟩
  · intro k hk
    rw [get_node_by_id_tie s' k nf af] at hk
    exact h1 ((hc'.idx.id_exact k r).1 hk).1
  · intro k hk
    rw [get_node_by_full_name_tie s' k nf af] at hk
    exact h1 (hc'.idx.name_sound k r hk).1
  · rw [get_node_by_id_tie s' _ nf af]; exact h4
  · rw [get_node_by_full_name_tie s' _ nf af]; exact h5

/-- the other nodes and all attackers stay, in order -/
theorem remove_node_keeps_rest (s s' : H) (r : NRef) (nf af : Nat) (hc : Consistent (absS s nf af))
    (hr : r ∈ s.nodes) (h : graph_remove_node s r = .ok s') :
    s'.nodes = s.nodes.filter (· ≠ r) ∧ s'.attackers = s.attackers := by
  have t := remove_node_tie s s' r nf af h
  have := MalVerif.C09.removeNode_keeps_rest (absS s nf af) r hc hr
  rw [← t] at this
  exact this

/-! ### attackers -/

theorem add_attacker_consistent (s s' : H) (a : ARef) (aid : Option Int) (entry reached : List Int) (nf : Nat)
    (hc : Consistent (absS s nf a))
    (hfresh : (s.a a).entry_points = [] ∧ (s.a a).reached_attack_steps = [])
    (h : graph_add_attacker s a aid entry reached = .ok s') : Consistent (absS s' nf (a + 1)) :=
  MalVerif.C09.addAttacker_consistent hc (add_attacker_tie s s' a aid entry reached nf hfresh h)

/-- what makes `add_attacker` raise — read off the heap the call STARTS with: the attacker object is already part
of the graph (b653290), the id to assign is in use, or some id of `reached_attack_steps` / `entry_points` names
no node of the graph -/
def AddAttackerRejects (s : H) (a : ARef) (aid : Option Int) (entry reached : List Int) : Prop :=
  (∃ k, (s.a a).id = some k ∧ graph_get_attacker_by_id s k = some a) ∨
  (graph_get_attacker_by_id s (aid.getD s.next_attacker_id)).isSome = true ∨
  (∃ i ∈ reached, graph_get_node_by_id s i = none) ∨ (∃ i ∈ entry, graph_get_node_by_id s i = none)

theorem addAttackerRejects_iff (s : H) (a : ARef) (aid : Option Int) (entry reached : List Int) :
    AddAttackerRejects s a aid entry reached ↔ aaRejects s a aid entry reached := by
  unfold AddAttackerRejects aaRejects
  rw [TG.attIsPart_iff, TG.dictIn_eq_dget, TG.aaKey_eq]
  show _ ∨ (dictGet s._id_to_attacker _).isSome = true ∨ _ ↔ _
  rw [TG.dictGet_eq_dget]
  rfl

/-- (b507c7f) `add_attacker` is atomic: the translated function raises iff `AddAttackerRejects` holds of the
INITIAL heap — every `raise` is decided before the first write (the id check and the lookups of ALL node ids only
read the graph), so a rejected call cannot have compromised a node or given the attacker an id; and when the
condition does not hold the call returns.  (With `Except`, a raising call has no heap to return: what this
theorem adds is that raising does not depend on anything the call itself has written.) -/
theorem add_attacker_atomic (s : H) (a : ARef) (aid : Option Int) (entry reached : List Int) :
    ((∃ err, graph_add_attacker s a aid entry reached = .error err) ↔ AddAttackerRejects s a aid entry reached) ∧
    (¬ AddAttackerRejects s a aid entry reached → ∃ s', graph_add_attacker s a aid entry reached = .ok s') := by
  rw [addAttackerRejects_iff]
  refine ⟨add_attacker_raises_iff s a aid entry reached, fun hn => ?_⟩
  cases h : graph_add_attacker s a aid entry reached with
  | ok s' => exact ⟨s', rfl⟩
  | error err => exact absurd ((add_attacker_raises_iff s a aid entry reached).1 ⟨err, h⟩) hn

/-- which exception a rejected `add_attacker` raises: `ValueError` (already part of the graph / id in use) is
decided before any node id is looked at, `AttackGraphException` otherwise -/
theorem add_attacker_error_kind (s : H) (a : ARef) (aid : Option Int) (entry reached : List Int) (err : PyErr)
    (h : graph_add_attacker s a aid entry reached = .error err) :
    err = .valueError ∨ (err = .attackGraphException ∧
      ((∃ i ∈ reached, graph_get_node_by_id s i = none) ∨ (∃ i ∈ entry, graph_get_node_by_id s i = none))) := by
  rcases Tie.add_attacker_error_kind s a aid entry reached err h with ⟨he, _⟩ | ⟨he, _, _, hu⟩
  · exact Or.inl he
  · exact Or.inr ⟨he, hu⟩

/-- (b653290) an attacker object that is already part of the graph — it is in the attacker list and has its id —
is rejected with `ValueError`, whatever id / node ids are passed -/
theorem add_attacker_rejects_member (s : H) (a : ARef) (aid : Option Int) (entry reached : List Int) (nf af : Nat)
    (hc : Consistent (absS s nf af)) (hm : a ∈ s.attackers) (hid : (s.a a).id.isSome) :
    graph_add_attacker s a aid entry reached = .error .valueError :=
  add_attacker_rejects_part s a aid entry reached (attIsPart_member s a nf af hc hm hid)

/-- a freshly constructed attacker object (`id` is `None`) passes that guard -/
theorem add_attacker_fresh_raises_iff (s : H) (a : ARef) (aid : Option Int) (entry reached : List Int)
    (hid : (s.a a).id = none) :
    (∃ err, graph_add_attacker s a aid entry reached = .error err) ↔
      ((graph_get_attacker_by_id s (aid.getD s.next_attacker_id)).isSome = true ∨
       (∃ i ∈ reached, graph_get_node_by_id s i = none) ∨ (∃ i ∈ entry, graph_get_node_by_id s i = none)) := by
  rw [(add_attacker_atomic s a aid entry reached).1]
  unfold AddAttackerRejects
  constructor
  · rintro (⟨k, hk, _⟩ | h)
    · rw [hid] at hk; cases hk
    · exact h
  · exact Or.inr

/-- in a consistent graph, `add_attacker` of a freshly constructed attacker (allocated at the next free
reference) either is rejected — by a condition on the graph as it is — or returns a consistent graph in which
the attacker is registered under the id asked for -/
theorem add_attacker_rejected_or_consistent (s : H) (a : ARef) (aid : Option Int) (entry reached : List Int)
    (nf : Nat) (hc : Consistent (absS s nf a))
    (hfresh : (s.a a).entry_points = [] ∧ (s.a a).reached_attack_steps = []) :
    (AddAttackerRejects s a aid entry reached ∧ ∃ err, graph_add_attacker s a aid entry reached = .error err) ∨
    (∃ s', graph_add_attacker s a aid entry reached = .ok s' ∧ Consistent (absS s' nf (a + 1)) ∧
      a ∈ s'.attackers ∧ graph_get_attacker_by_id s' (aid.getD s.next_attacker_id) = some a) := by
  cases h : graph_add_attacker s a aid entry reached with
  | error err => exact Or.inl ⟨((add_attacker_atomic s a aid entry reached).1).1 ⟨err, h⟩, err, rfl⟩
  | ok s' =>
    refine Or.inr ⟨s', rfl, add_attacker_consistent s s' a aid entry reached nf hc hfresh h, ?_⟩
    rw [TG.graph_add_attacker_eq] at h
    split at h
    · cases h
    split at h
    · cases h
    cases hr : TG.aaResolve s reached with
    | none => rw [hr] at h; cases h
    | some rn =>
      cases he : TG.aaResolve s entry with
      | none => rw [hr, he] at h; cases h
      | some en =>
        rw [hr, he] at h
        injection h with h
        subst h
        have hidk : ∀ t : H, (t.a a).id = some (TG.aaKey s aid) →
            ((List.foldl (TG.aaPush a) (List.foldl (TG.aaComp a) t rn) en).a a).id = some (TG.aaKey s aid) := by
          intro t ht
          refine foldl_inv (fun u : H => (u.a a).id = some (TG.aaKey s aid)) _ _ _ (fun u n _ hu => ?_) ?_
          · show (if a = a then _ else _ : PyAttacker).id = _
            rw [if_pos rfl]; exact hu
          · refine foldl_inv (fun u : H => (u.a a).id = some (TG.aaKey s aid)) _ _ _ (fun u n _ hu => ?_) ht
            rw [show TG.aaComp a u n = attacker_compromise u a n from rfl, TG.compromise_aid]; exact hu
        have hk := hidk (TG.aaS1 s a (TG.aaKey s aid)) (by
          show (if a = a then _ else _ : PyAttacker).id = _
          rw [if_pos rfl])
        refine ⟨List.mem_append_right _ (List.mem_singleton.2 rfl), ?_⟩
        show dictGet (dictSet _ (optIntGet _) a) _ = some a
        rw [hk, ← TG.aaKey_eq, TG.dictSet_eq_dset, TG.dictGet_eq_dget]
        show dget (dset _ (TG.aaKey s aid) a) (TG.aaKey s aid) = some a
        rw [dget_dset, if_pos rfl]

theorem remove_attacker_consistent (s s' : H) (a : ARef) (nf af : Nat) (hc : Consistent (absS s nf af))
    (ha : a ∈ s.attackers) (h : graph_remove_attacker s a = .ok s') : Consistent (absS s' nf af) := by
  rw [remove_attacker_tie s s' a nf af h]
  exact MalVerif.C09.removeAttacker_consistent _ a hc ha

theorem remove_attacker_terminates_normally (s : H) (a : ARef) (nf af : Nat) (hc : Consistent (absS s nf af))
    (ha : a ∈ s.attackers) (hid : (s.a a).id.isSome) : ∃ s', graph_remove_attacker s a = .ok s' :=
  remove_attacker_ok s a nf af hc ha hid

theorem compromise_consistent (s : H) (a : ARef) (n : NRef) (nf af : Nat) (hc : Consistent (absS s nf af))
    (ha : a ∈ s.attackers) (hn : n ∈ s.nodes) : Consistent (absS (attacker_compromise s a n) nf af) := by
  rw [compromise_tie s a n nf af]
  exact MalVerif.C09.compromise_consistent _ a n hc ha hn

theorem undo_consistent (s s' : H) (a : ARef) (n : NRef) (nf af : Nat) (hc : Consistent (absS s nf af))
    (ha : a ∈ s.attackers) (hn : n ∈ s.nodes) (h : attacker_undo_compromise s a n = .ok s') :
    Consistent (absS s' nf af) := by
  rw [undo_tie s s' a n nf af h]
  exact MalVerif.C09.undo_consistent _ a n hc ha hn

/-- in a consistent graph `undo_compromise` returns normally -/
theorem undo_terminates_normally (s : H) (a : ARef) (n : NRef) (nf af : Nat) (hc : Consistent (absS s nf af))
    (ha : a ∈ s.attackers) (hn : n ∈ s.nodes) : ∃ s', attacker_undo_compromise s a n = .ok s' :=
  undo_ok s a n (fun h => (hc.comp.mirror a ha n hn).2 h)

/-! ### lookups -/

/-- `get_node_by_id` returns exactly the nodes of the graph with that id: nothing stale, nothing missing -/
theorem lookup_exact (s : H) (nf af : Nat) (hc : Consistent (absS s nf af)) :
    ∀ k r, graph_get_node_by_id s k = some r ↔ (r ∈ s.nodes ∧ (s.n r).id.getD 0 = k) := by
  intro k r
  rw [get_node_by_id_tie s k nf af]
  exact (MalVerif.C09.lookup_exact _ hc).1 k r

theorem lookup_attacker_exact (s : H) (nf af : Nat) (hc : Consistent (absS s nf af)) :
    ∀ k a, graph_get_attacker_by_id s k = some a ↔ (a ∈ s.attackers ∧ (s.a a).id.getD 0 = k) := by
  intro k a
  rw [get_attacker_by_id_tie s k nf af]
  exact (MalVerif.C09.lookup_exact _ hc).2 k a

/-- `get_node_by_full_name` never returns a stale or wrongly named node -/
theorem lookup_name_sound (s : H) (nf af : Nat) (hc : Consistent (absS s nf af)) (k : String) (r : NRef)
    (hk : graph_get_node_by_full_name s k = some r) : r ∈ s.nodes ∧ fullName (absN (s.n r)) = k := by
  rw [get_node_by_full_name_tie s k nf af] at hk
  exact MalVerif.C09.lookup_name_sound _ hc k r hk

/-! ### the hypotheses are satisfiable by a non-trivial heap -/

/-- two nodes are added to the empty graph (ids 0 and 1 are generated), the first one is removed again: every
call returns normally, the heaps are consistent, and the removed node is gone from list and index -/
example : ∃ s1 s2 s3, graph_add_node {} 0 none = .ok s1 ∧ graph_add_node s1 1 none = .ok s2 ∧
    graph_remove_node s2 0 = .ok s3 ∧ Consistent (absS s2 2 0) ∧ NamesExact (absS s2 2 0) ∧ s2.nodes = [0, 1] ∧
    graph_get_node_by_id s2 0 = some 0 ∧
    Consistent (absS s3 2 0) ∧ s3.nodes = [1] ∧ graph_get_node_by_id s3 0 = none ∧
    graph_add_node s2 2 (some 1) = .error .valueError := by
  have e1 : graph_add_node {} 0 none = .ok (TG.anSt {} 0 0) := rfl
  have e2 : graph_add_node (TG.anSt {} 0 0) 1 none = .ok (TG.anSt (TG.anSt {} 0 0) 1 1) := rfl
  have c1 := add_node_consistent _ _ 0 none 0 init_consistent ⟨rfl, rfl, rfl⟩ e1
  have x1 := add_node_namesExact _ _ 0 none 0 init_consistent init_namesExact rfl e1
  have c2 := add_node_consistent _ _ 1 none 0 c1 ⟨rfl, rfl, rfl⟩ e2
  have x2 := add_node_namesExact _ _ 1 none 0 c1 x1 rfl e2
  have hm : 0 ∈ (TG.anSt (TG.anSt {} 0 0) 1 1).nodes := by decide
  obtain ⟨s3, e3⟩ := remove_node_terminates_normally _ 0 2 0 c2 x2 hm rfl
  refine ⟨_, _, s3, e1, e2, e3, c2, x2, rfl, rfl, remove_node_consistent _ _ 0 2 0 c2 hm e3, ?_, ?_,
    add_node_rejects_duplicate_id _ 2 1 1 rfl⟩
  · rw [(remove_node_keeps_rest _ _ 0 2 0 c2 hm e3).1]; rfl
  · exact (remove_node_leaves_no_trace _ _ 0 2 0 c2 hm e3).2.2.2.2.2.1

/-- the repaired guards and the atomic `add_attacker` on a concrete heap: two nodes (ids 0, 1); adding node object
0 again is rejected (with and without an explicit id); an attacker whose reached steps are `[0, 5]` — 0 exists, 5
does not — is rejected with `AttackGraphException` (`AddAttackerRejects` holds of the heap); with `[0]` / `[1]` it is
added, the heap is consistent, and adding the same attacker object again is rejected -/
example : ∃ s2 s3, graph_add_node (TG.anSt {} 0 0) 1 none = .ok s2 ∧
    graph_add_node s2 0 none = .error .valueError ∧ graph_add_node s2 0 (some 7) = .error .valueError ∧
    graph_add_attacker s2 0 none [] [0, 5] = .error .attackGraphException ∧
    graph_add_attacker s2 0 none [1, 5] [0] = .error .attackGraphException ∧
    AddAttackerRejects s2 0 none [] [0, 5] ∧ ¬ AddAttackerRejects s2 0 none [1] [0] ∧
    graph_add_attacker s2 0 none [1] [0] = .ok s3 ∧ Consistent (absS s3 2 1) ∧
    (s3.n 0).compromised_by = [0] ∧ (s3.a 0).entry_points = [1] ∧
    graph_add_attacker s3 0 none [] [] = .error .valueError ∧
    graph_add_attacker s3 0 (some 4) [] [] = .error .valueError := by
  have e1 : graph_add_node {} 0 none = .ok (TG.anSt {} 0 0) := rfl
  have e2 : graph_add_node (TG.anSt {} 0 0) 1 none = .ok (TG.anSt (TG.anSt {} 0 0) 1 1) := rfl
  have c1 := add_node_consistent _ _ 0 none 0 init_consistent ⟨rfl, rfl, rfl⟩ e1
  have c2 := add_node_consistent _ _ 1 none 0 c1 ⟨rfl, rfl, rfl⟩ e2
  have hm : (0 : NRef) ∈ (TG.anSt (TG.anSt {} 0 0) 1 1).nodes := by decide
  have hnr : ¬ AddAttackerRejects (TG.anSt (TG.anSt {} 0 0) 1 1) 0 none [1] [0] := by
    rintro (⟨k, hk, _⟩ | h | ⟨i, hi, h⟩ | ⟨i, hi, h⟩)
    · cases hk
    · cases h
    · rw [List.mem_singleton.1 hi] at h; cases h
    · rw [List.mem_singleton.1 hi] at h; cases h
  obtain ⟨s3, e3⟩ := (add_attacker_atomic _ 0 none [1] [0]).2 hnr
  have c3 := add_attacker_consistent _ s3 0 none [1] [0] 2 c2 ⟨rfl, rfl⟩ e3
  have e3' : graph_add_attacker (TG.anSt (TG.anSt {} 0 0) 1 1) 0 none [1] [0] =
      .ok (TG.aaApply (TG.anSt (TG.anSt {} 0 0) 1 1) 0 0 [0] [1]) := by
    rw [TG.graph_add_attacker_eq]; rfl
  have hs3 : s3 = TG.aaApply (TG.anSt (TG.anSt {} 0 0) 1 1) 0 0 [0] [1] := by
    rw [e3'] at e3; injection e3 with e3; exact e3.symm
  have hma : (0 : ARef) ∈ s3.attackers := by rw [hs3]; decide
  have hid : (s3.a 0).id.isSome = true := by rw [hs3]; rfl
  refine ⟨_, s3, e2, add_node_rejects_member _ 0 none 2 0 c2 hm rfl, add_node_rejects_member _ 0 (some 7) 2 0 c2 hm rfl,
    ?_, ?_, Or.inr (Or.inr (Or.inl ⟨5, by decide, rfl⟩)), hnr, e3, c3, ?_, ?_,
    add_attacker_rejects_member s3 0 none [] [] 2 1 c3 hma hid,
    add_attacker_rejects_member s3 0 (some 4) [] [] 2 1 c3 hma hid⟩
  · rw [TG.graph_add_attacker_eq]; rfl
  · rw [TG.graph_add_attacker_eq]; rfl
  · rw [hs3]; rfl
  · rw [hs3]; rfl

end MalVerif.PropsGen.C09
