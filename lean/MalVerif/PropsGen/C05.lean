import MalVerif.Py.TieModelStep
import MalVerif.Props.C05
/-!
# C05 for the *translated* Python — the instance model equals the abstract reference model after any history

The theorems of `MalVerif/Props/C05.lean` are about the hand-written state machine `MalVerif.MS`.  Here they are
restated for the functions of `MalVerif/Py/GenModel/*.lean`, which `translators/py2lean_model.py` generates from
`maltoolbox/model.py` on every run, and proved through the tie theorems of `MalVerif/Py/TieModel*.lean`.

Reading guide.  `s : H` is the Python heap (`MalVerif/Py/PreludeModel.lean`), `abs s : MS.St` the state of the
reference model, `Inv s` the coherence invariant of `Spec/ModelInv.lean` on it.  `env : ModelEnv` holds the two
parameters of the translation: the value equality of python_jsonschema_objects instances and the unrolling bound of
`while` loops.  `EqId env` ("pjs `==` relates no two different objects") is the hypothesis the hand model made
silently; `eq_on_live_is_identity` shows that it costs nothing between the assets of one model, and
`remove_attacker_twin_counterexample` / `remove_asset_twin_counterexample` show what the Python does without it.

"An operation that raises leaves the observable state unchanged": in the `Except` monad a `throw` drops the
heap, so this cannot be *stated* for a translated function.  What is proved instead: each translated mutator
raises exactly when the reference model rejects (`*_refines`: one equation covers both outcomes and the error
class), and under the invariant the rejecting condition is a test on the *initial* heap (`*_raises_iff`), i.e. the
`raise` statements that can be reached are those in front of the first heap write.  That the real interpreter has
written nothing at that point is covered by the correspondence check (`harness/props/c05.py`) only.
-/
namespace MalVerif.PropsGen.C05
open MalVerif MalVerif.PyM MalVerif.PyM.Gen MalVerif.PyM.Tie

/-- the coherence invariant, stated on the heap -/
abbrev Inv (s : H) : Prop := MS.Inv (abs s)

/-! ### every translated operation refines the reference model -/

/-- `Model.add_asset` on a newly constructed asset `o`: the reference model's `addAsset` after the guards of the
pjs constructor; in particular it raises (`ValueError`) exactly when the reference model rejects -/
theorem add_asset_refines (s : H) (env : ModelEnv) (hI : Inv s) (hfuel : s.asset_names.length + 1 ≤ env.whileFuel)
    (o : PyAsset) (id : Option Int) (dup : Bool) :
    absR (model_add_asset (newAssetObj s o) env s.afresh id dup) =
      addAssetCore (abs s) o.type o.name o.defenses (o.extras.getD "{}") id dup :=
  add_asset_tie s env hI.assets.fresh_not_mem hfuel o id dup

/-- `Model.add_association` (with `_validate_association`) on a newly constructed association `o` -/
theorem add_association_refines {env : ModelEnv} (hE : EqId env) (s : H) (hI : Inv s) (o : PyAssoc) :
    absR (model_add_association (newAssocObj s o) env s.lfresh) =
      addAssocCore (abs s) { cls := o.cls, lf := o.lf, rf := o.rf, left := o.left, right := o.right } :=
  add_association_tie hE s hI o

theorem remove_association_refines {env : ModelEnv} (hE : EqId env) (s : H) (hI : Inv s) (l : LRef) :
    absR (model_remove_association s env l) = MS.removeAssociation (abs s) l :=
  remove_association_tie hE s hI l

theorem remove_asset_from_association_refines {env : ModelEnv} (hE : EqId env) (s : H) (hI : Inv s)
    (a : ARef) (l : LRef) :
    absR (model_remove_asset_from_association s env a l) = MS.removeAssetFromAssociation (abs s) a l :=
  rafa_tie hE s hI a l

theorem remove_asset_refines {env : ModelEnv} (hE : EqId env) (s : H) (hI : Inv s) (a : ARef) :
    absR (model_remove_asset s env a) = MS.removeAsset (abs s) a :=
  remove_asset_tie hE (rafaTie hE) s hI a

/-- `Model.add_attacker` on a new `AttackerAttachment(name=…)` never raises -/
theorem add_attacker_refines (s : H) (env : ModelEnv) (nm : Option String) (id : Option Int) :
    abs (model_add_attacker (newAttObj s { name := nm }) env s.tfresh id) = MS.addAttacker (abs s) nm id :=
  add_attacker_tie s env { name := nm } rfl id

/-- `Model.remove_attacker` refines the reference model **when no other attacker of the model is equal by value**
(`NoTwin`): `AttackerAttachment` is a dataclass with `eq=True`, `list.remove` removes the first *equal* element -/
theorem remove_attacker_refines_partial (s : H) (env : ModelEnv) (t : TRef) (hTwin : NoTwin env s t) :
    absR (model_remove_attacker s env t) = MS.removeAttacker (abs s) t :=
  remove_attacker_tie_partial s env t hTwin

theorem add_entry_point_refines {env : ModelEnv} (hE : EqId env) (s : H) (hI : Inv s) (hO : EpOKAll s)
    (t : TRef) (ht : t ∈ s.attackers) (a : ARef) (step : String) :
    abs (attachment_add_entry_point s env t a step) = MS.addEntryPoint (abs s) t a step :=
  add_entry_point_tie hE s hI hO t ht a step

/-- `remove_entry_point` never raises -/
theorem remove_entry_point_refines {env : ModelEnv} (hE : EqId env) (s : H) (hI : Inv s) (hO : EpOKAll s)
    (t : TRef) (ht : t ∈ s.attackers) (a : ARef) (step : String) :
    absR (attachment_remove_entry_point s env t a step) = .ok (MS.removeEntryPoint (abs s) t a step) :=
  remove_entry_point_tie hE s hI hO t ht a step

/-! ### lookups -/

theorem get_asset_by_id_exact (s : H) (env : ModelEnv) (hI : Inv s) (i : Int) (a : ARef) :
    model_get_asset_by_id s env i = some a ↔ (a ∈ s.assets ∧ attrInt (s.a a).id = i) := by
  rw [get_asset_by_id_tie]; exact MalVerif.C05.getAssetById_iff (abs s) hI i a

theorem get_asset_by_name_exact (s : H) (env : ModelEnv) (hI : Inv s) (n : String) (a : ARef) :
    model_get_asset_by_name s env n = some a ↔ (a ∈ s.assets ∧ attrStr (s.a a).name = n) := by
  rw [get_asset_by_name_tie]; exact MalVerif.C05.getAssetByName_iff (abs s) hI n a

theorem get_asset_by_id_none (s : H) (env : ModelEnv) (i : Int) :
    model_get_asset_by_id s env i = none ↔ ∀ a ∈ s.assets, attrInt (s.a a).id ≠ i := by
  rw [get_asset_by_id_tie]; exact MalVerif.C05.getAssetById_none_iff (abs s) i

/-- attacker ids need not be unique: the first attacker of the model with the id is returned -/
theorem get_attacker_by_id_first (s : H) (env : ModelEnv) (hid : ∀ t ∈ s.attackers, (s.t t).id.isSome) (i : Int)
    (t : TRef) :
    model_get_attacker_by_id s env i = some t ↔ attrInt (s.t t).id = i ∧
      ∃ pre post, s.attackers = pre ++ t :: post ∧ ∀ u ∈ pre, attrInt (s.t u).id ≠ i := by
  rw [get_attacker_by_id_tie s env i hid]; exact MalVerif.C05.getAttackerById_iff (abs s) i t

/-- `association_exists_between_assets` never raises and is the reference model's test -/
theorem association_exists_exact (s : H) (env : ModelEnv) (cls : String) (a b : ARef) :
    model_association_exists_between_assets s env cls a b = .ok (MS.assocExists (abs s) cls a b) :=
  exists_tie s env cls a b

/-- `_validate_association` of an association that is not yet in its group of `_type_to_association` accepts
exactly when every check of the reference model (`assocCheck`: members are assets of the model, no two members of
a field share a name, no (left id, right id) pair is linked already by an association of the class) passes -/
theorem validate_association_exact {env : ModelEnv} (hE : EqId env) (s : H) (l : LRef)
    (hfresh : l ∉ MS.ttaGet s._type_to_association (s.l l).cls) :
    model__validate_association s env l = .ok () ↔ assocCheck (abs s) (absAssoc (s.l l)) = none :=
  validate_ok_iff hE s l hfresh

/-- `AttackerAttachment.get_entry_point_tuple`: the first tuple of the attacker whose asset is `a` -/
theorem get_entry_point_tuple_exact {env : ModelEnv} (hE : EqId env) (s : H) (t : TRef) (a : ARef) :
    (attachment_get_entry_point_tuple s env t a).map (epVal s) = ((abs s).tobj t).entry.find? (·.1 = a) :=
  at_get_entry_point_tuple_tie hE s t a

/-- `get_association_field_names`: the two keys of `_properties`, in order -/
theorem field_names_exact (s : H) (env : ModelEnv) (l : LRef) :
    model_get_association_field_names s env l = ((s.l l).lf, (s.l l).rf) := rfl

/-! ### the neighbours reported for (asset, field) are exactly the assets linked through that field -/

/-- `get_associated_assets_by_field_name` never raises; what it returns contains `y` exactly when some
association of the model links `a` to `y` through field `f`, in either direction, self-links included -/
theorem neighbours_iff {env : ModelEnv} (hE : EqId env) (s : H) (hI : Inv s) (a : ARef) (ha : a ∈ s.assets)
    (f : String) :
    ∃ ys, model_get_associated_assets_by_field_name s env a f = .ok ys ∧
      ∀ y, y ∈ ys ↔ ∃ l ∈ s.associations,
        (a ∈ (s.l l).left ∧ (s.l l).rf = f ∧ y ∈ (s.l l).right) ∨
        (a ∈ (s.l l).right ∧ (s.l l).lf = f ∧ y ∈ (s.l l).left) :=
  ⟨_, neighbours_tie hE s a f, fun y => MalVerif.C05.neighbours_iff (abs s) hI a ha f y⟩

/-- an asset lists an association exactly when that association lists the asset -/
theorem listed_iff_member (s : H) (hI : Inv s) (a : ARef) (ha : a ∈ s.assets) (l : LRef) :
    l ∈ (s.a a).associations ↔ l ∈ s.associations ∧ (a ∈ (s.l l).left ∨ a ∈ (s.l l).right) :=
  MalVerif.C05.listed_iff_member (abs s) hI a ha l

/-- ids and names of live assets are unique and are exactly the reserved ones -/
theorem ids_names_unique (s : H) (hI : Inv s) :
    (∀ a ∈ s.assets, ∀ b ∈ s.assets, attrInt (s.a a).id = attrInt (s.a b).id → a = b) ∧
    (∀ a ∈ s.assets, ∀ b ∈ s.assets, attrStr (s.a a).name = attrStr (s.a b).name → a = b) ∧
    (∀ i, i ∈ s.asset_ids ↔ ∃ a ∈ s.assets, attrInt (s.a a).id = i) ∧
    (∀ n, n ∈ s.asset_names ↔ ∃ a ∈ s.assets, attrStr (s.a a).name = n) :=
  MalVerif.C05.ids_names_unique (abs s) hI

/-! ### pjs value equality between the assets of one model is identity -/

/-- any equality that only relates objects with the same `id` (as `as_dict() == as_dict()` does) is the identity
on the assets of a coherent model: the hypothesis `EqId` costs nothing there -/
theorem eq_on_live_is_identity (s : H) (hI : Inv s) (eqv : ARef → ARef → Bool)
    (hsound : ∀ a b, eqv a b = true → attrInt (s.a a).id = attrInt (s.a b).id)
    (a b : ARef) (ha : a ∈ s.assets) (hb : b ∈ s.assets) (h : eqv a b = true) : a = b :=
  hI.assets.ids_inj a ha b hb (hsound a b h)

/-! ### an explicitly requested id is honoured -/

/-- any integer — 0 and negative ones included — that no asset of the model has becomes the id of the new asset -/
theorem explicit_id_honoured (s s' : H) (env : ModelEnv) (hI : Inv s) (hfuel : s.asset_names.length + 1 ≤ env.whileFuel)
    (o : PyAsset) (i : Int) (dup : Bool)
    (hok : model_add_asset (newAssetObj s o) env s.afresh (some i) dup = .ok s') :
    s.afresh ∈ s'.assets ∧ (s'.a s.afresh).id = some i ∧ i ∈ s'.asset_ids := by
  have hf := add_asset_ok_form (newAssetObj s o) s' env s.afresh (some i) dup
    (show s.afresh ∉ (newAssetObj s o).assets from hI.assets.fresh_not_mem)
    (show (newAssetObj s o).asset_names.length + 1 ≤ env.whileFuel from hfuel) hok
  subst hf
  refine ⟨?_, ?_, ?_⟩
  · show s.afresh ∈ s.assets ++ [s.afresh]; simp
  · simp [addAssetH]
  · show i ∈ pySetAdd s.asset_ids i
    unfold pySetAdd
    split
    · next h => exact List.contains_iff_mem.1 h
    · simp

/-- … and it is accepted whenever no asset of the model has that id and the name is free or duplicates are allowed -/
theorem explicit_id_accepted (s : H) (env : ModelEnv) (hI : Inv s) (hfuel : s.asset_names.length + 1 ≤ env.whileFuel)
    (o : PyAsset) (i : Int) (hid : ∀ a ∈ s.assets, attrInt (s.a a).id ≠ i) :
    ∃ s', model_add_asset (newAssetObj s o) env s.afresh (some i) true = .ok s' := by
  have h := add_asset_refines s env hI hfuel o (some i) true
  unfold addAssetCore at h
  have h1 : (abs s).assetIds.contains ((some i).getD (abs s).nextId) = false := by
    cases hc : (abs s).assetIds.contains ((some i).getD (abs s).nextId) with
    | false => rfl
    | true =>
      obtain ⟨a, ha, e⟩ := (hI.assets.ids_exact i).1 (List.contains_iff_mem.1 hc)
      exact absurd e (hid a ha)
  have h2 : MS.dupRejected (abs s) o.name true = false := by
    unfold MS.dupRejected; cases o.name <;> simp
  rw [h1, h2] at h
  cases hr : model_add_asset (newAssetObj s o) env s.afresh (some i) true with
  | ok s' => exact ⟨s', rfl⟩
  | error e => rw [hr] at h; cases h

/-! ### which `raise` can be reached: the rejecting conditions are tests on the initial heap -/

theorem absR_error_iff {r : Except PyErr H} {m : Except MS.Err MS.St} (h : absR r = m) :
    (∃ e, r = .error e) ↔ ∃ e, m = .error e := by
  cases r with
  | ok s =>
    rw [absR_ok] at h; rw [← h]
    exact ⟨fun ⟨e, he⟩ => (by cases he), fun ⟨e, he⟩ => (by cases he)⟩
  | error e => rw [absR_error] at h; rw [← h]; exact ⟨fun _ => ⟨_, rfl⟩, fun _ => ⟨_, rfl⟩⟩

/-- `add_asset` raises exactly when the id is in use or the name is taken and duplicates are not allowed —
both tested before the first write -/
theorem add_asset_raises_iff (s : H) (env : ModelEnv) (hI : Inv s) (hfuel : s.asset_names.length + 1 ≤ env.whileFuel)
    (o : PyAsset) (id : Option Int) (dup : Bool) :
    (∃ e, model_add_asset (newAssetObj s o) env s.afresh id dup = .error e) ↔
      (id.getD s.next_id ∈ s.asset_ids ∨ ∃ n, o.name = some n ∧ n ∈ s.asset_names ∧ dup = false) := by
  rw [absR_error_iff (add_asset_refines s env hI hfuel o id dup)]
  unfold addAssetCore
  by_cases c1 : (abs s).assetIds.contains (id.getD (abs s).nextId) = true
  · rw [if_pos c1]
    exact ⟨fun _ => Or.inl (List.contains_iff_mem.1 c1), fun _ => ⟨_, rfl⟩⟩
  · rw [if_neg c1]
    have n1 : ¬ id.getD s.next_id ∈ s.asset_ids := fun hm => c1 (List.contains_iff_mem.2 hm)
    by_cases c2 : MS.dupRejected (abs s) o.name dup = true
    · rw [if_pos c2]
      refine ⟨fun _ => Or.inr ?_, fun _ => ⟨_, rfl⟩⟩
      unfold MS.dupRejected at c2
      cases hn : o.name with
      | none => rw [hn] at c2; cases c2
      | some n =>
        rw [hn] at c2
        simp only [Bool.and_eq_true, Bool.not_eq_true'] at c2
        exact ⟨n, rfl, List.contains_iff_mem.1 c2.1, c2.2⟩
    · rw [if_neg c2]
      constructor
      · rintro ⟨e, he⟩; cases he
      · rintro (h | ⟨n, hn, hm, hd⟩)
        · exact absurd h n1
        · exfalso; apply c2
          unfold MS.dupRejected; rw [hn]
          simp only [Bool.and_eq_true, Bool.not_eq_true']
          exact ⟨List.contains_iff_mem.2 hm, hd⟩

/-- `remove_asset` raises exactly for an asset that is not part of the model (its first statement): the loops
over associations and attackers cannot raise half-way -/
theorem remove_asset_raises_iff {env : ModelEnv} (hE : EqId env) (s : H) (hI : Inv s) (a : ARef) :
    (∃ e, model_remove_asset s env a = .error e) ↔ a ∉ s.assets := by
  rw [absR_error_iff (remove_asset_refines hE s hI a)]
  exact MalVerif.C05.removeAsset_error_iff (abs s) a hI

theorem remove_association_raises_iff {env : ModelEnv} (hE : EqId env) (s : H) (hI : Inv s) (l : LRef) :
    (∃ e, model_remove_association s env l = .error e) ↔ l ∉ s.associations := by
  rw [absR_error_iff (remove_association_refines hE s hI l), MS.removeAssociation_eq]
  by_cases hl : l ∈ (abs s).associations
  · rw [if_pos hl]; exact ⟨fun ⟨e, he⟩ => (by cases he), fun h => absurd hl h⟩
  · rw [if_neg hl]; exact ⟨fun _ => hl, fun _ => ⟨_, rfl⟩⟩

/-- `remove_asset_from_association` raises exactly when the asset or the association is not part of the model
or the asset is in neither field (`found` stays `False`: nothing has been written then) -/
theorem remove_asset_from_association_raises_iff {env : ModelEnv} (hE : EqId env) (s : H) (hI : Inv s)
    (a : ARef) (l : LRef) :
    (∃ e, model_remove_asset_from_association s env a l = .error e) ↔
      (a ∉ s.assets ∨ l ∉ s.associations ∨ (a ∉ (s.l l).left ∧ a ∉ (s.l l).right)) := by
  rw [absR_error_iff (remove_asset_from_association_refines hE s hI a l)]
  constructor
  · rintro ⟨e, he⟩
    by_cases ha : a ∈ s.assets
    · by_cases hl : l ∈ s.associations
      · by_cases hm : a ∈ (s.l l).left ∨ a ∈ (s.l l).right
        · obtain ⟨s', hs'⟩ := MS.rafa_succeeds (s := abs s) ha hl hm
          rw [hs'] at he; cases he
        · exact Or.inr (Or.inr ⟨fun h => hm (Or.inl h), fun h => hm (Or.inr h)⟩)
      · exact Or.inr (Or.inl hl)
    · exact Or.inl ha
  · intro h
    cases hr : MS.removeAssetFromAssociation (abs s) a l with
    | error e => exact ⟨e, rfl⟩
    | ok s' =>
      obtain ⟨ha, hl, hm, _⟩ := MS.rafa_ok hI.links hr
      rcases h with h | h | h
      · exact absurd ha h
      · exact absurd hl h
      · exact absurd hm (fun hm => hm.elim h.1 h.2)

/-- `add_association` raises exactly when `_validate_association` does, which writes nothing -/
theorem add_association_raises_iff {env : ModelEnv} (hE : EqId env) (s : H) (hI : Inv s) (o : PyAssoc) :
    (∃ e, model_add_association (newAssocObj s o) env s.lfresh = .error e) ↔
      ∃ e, addAssocCore (abs s) { cls := o.cls, lf := o.lf, rf := o.rf, left := o.left, right := o.right } = .error e :=
  absR_error_iff (add_association_refines hE s hI o)

/-! ### a removed asset or association leaves no trace -/

theorem remove_asset_leaves_no_trace {env : ModelEnv} (hE : EqId env) (s s' : H) (hI : Inv s) (a : ARef)
    (hok : model_remove_asset s env a = .ok s') :
    a ∉ s'.assets ∧
    (∀ l ∈ s'.associations, a ∉ (s'.l l).left ∧ a ∉ (s'.l l).right) ∧
    (∀ t ∈ s'.attackers, ∀ r ∈ (s'.t t).entry_points, (s'.e r).asset ≠ a) ∧
    attrInt (s.a a).id ∉ s'.asset_ids ∧ attrStr (s.a a).name ∉ s'.asset_names := by
  have h := remove_asset_refines hE s hI a
  rw [hok, absR_ok] at h
  obtain ⟨h1, h2, h3, h4, h5⟩ := MalVerif.C05.remove_asset_leaves_no_trace hI h.symm
  refine ⟨h1, h2, ?_, h4, h5⟩
  intro t ht r hr
  exact h3 t ht (epVal s' r) (List.mem_map.2 ⟨r, hr, rfl⟩)

/-- the id and the name of the removed asset are free again: an asset with the same id and name is accepted
even when duplicate names are not allowed -/
theorem removed_id_and_name_reusable {env : ModelEnv} (hE : EqId env) (s s' : H) (hI : Inv s) (a : ARef)
    (hok : model_remove_asset s env a = .ok s') (hfuel : s'.asset_names.length + 1 ≤ env.whileFuel) (o : PyAsset)
    (hname : o.name = some (attrStr (s.a a).name)) :
    ∃ s'', model_add_asset (newAssetObj s' o) env s'.afresh (some (attrInt (s.a a).id)) false = .ok s'' := by
  have hI' : Inv s' := by
    have h := remove_asset_refines hE s hI a
    rw [hok, absR_ok] at h
    exact MalVerif.C05.removeAsset_inv hI h.symm
  obtain ⟨_, _, _, h4, h5⟩ := remove_asset_leaves_no_trace hE s s' hI a hok
  cases hr : model_add_asset (newAssetObj s' o) env s'.afresh (some (attrInt (s.a a).id)) false with
  | ok s'' => exact ⟨s'', rfl⟩
  | error e =>
    exfalso
    have := (add_asset_raises_iff s' env hI' hfuel o (some (attrInt (s.a a).id)) false).1 ⟨e, hr⟩
    rcases this with h | ⟨n, hn, hm, _⟩
    · exact h4 h
    · rw [hname] at hn; cases hn; exact h5 hm

theorem remove_association_leaves_no_trace {env : ModelEnv} (hE : EqId env) (s s' : H) (hI : Inv s) (l : LRef)
    (hok : model_remove_association s env l = .ok s') :
    l ∉ s'.associations ∧ (∀ e ∈ s'._type_to_association, l ∉ e.2) ∧
    (∀ a ∈ s'.assets, l ∉ (s'.a a).associations) := by
  have h := remove_association_refines hE s hI l
  rw [hok, absR_ok] at h
  obtain ⟨h1, h2, _, h4⟩ := MalVerif.C05.remove_association_leaves_no_trace hI h.symm
  exact ⟨h1, h2, h4⟩

theorem remove_asset_from_association_leaves_no_trace {env : ModelEnv} (hE : EqId env) (s s' : H) (hI : Inv s)
    (a : ARef) (l : LRef) (hok : model_remove_asset_from_association s env a l = .ok s') :
    l ∉ (s'.a a).associations ∧ (l ∈ s'.associations → a ∉ (s'.l l).left ∧ a ∉ (s'.l l).right) := by
  have h := remove_asset_from_association_refines hE s hI a l
  rw [hok, absR_ok] at h
  exact MalVerif.C05.remove_asset_from_association_leaves_no_trace hI h.symm

/-! ### after any history the observable state is that of the reference model, and it is coherent -/

/-- one operation performed with the translated functions is one step of the reference model -/
theorem step_refines (L : Lang) (hL : FieldsDistinct L) {env : ModelEnv} (hE : EqId env) (s : H) (hI : Inv s)
    (hO : EpOKAll s) (op : MS.Op) (hA : Adm env s op) :
    abs (stepGen L env s op) = MS.applyOp L (abs s) op ∧ Inv (stepGen L env s op) ∧ EpOKAll (stepGen L env s op) := by
  have h := step_sim L hL hE s hI hO op hA
  refine ⟨h, ?_, step_epOKAll L env s hI hO op hA⟩
  show MS.Inv (abs _); rw [h]; exact MS.applyOp_inv' L (abs s) op hI

/-- from the empty model, any history of translated operations yields a heap whose abstraction is the state the
reference model reaches by the same history (started in `abs {}`: no assets, associations, attackers, all counters
0 — `init_lists`), and that state satisfies the coherence invariant -/
theorem reachable_inv (L : Lang) (hL : FieldsDistinct L) {env : ModelEnv} (hE : EqId env) (ops : List MS.Op)
    (hA : AdmAll L env {} ops) :
    abs (ops.foldl (stepGen L env) {}) = ops.foldl (MS.applyOp L) (abs {}) ∧ Inv (ops.foldl (stepGen L env) {}) := by
  have h := run_sim L hL hE ops {} init_inv epOKAll_empty hA
  exact ⟨h.1, h.2.1⟩

/-- the empty heap is the empty model -/
theorem init_lists :
    (abs {}).assets = [] ∧ (abs {}).associations = [] ∧ (abs {}).attackers = [] ∧ (abs {}).assetIds = [] ∧
    (abs {}).assetNames = [] ∧ (abs {}).typeToAssoc = [] ∧ (abs {}).nextId = 0 ∧ (abs {}).afresh = 0 ∧
    (abs {}).lfresh = 0 ∧ (abs {}).tfresh = 0 := abs_empty_lists

/-- an operation that raises leaves the heap of the history as it was -/
theorem raising_step_keeps_heap (L : Lang) (env : ModelEnv) (s : H) (a : ARef) (e : PyErr)
    (h : model_remove_asset s env a = .error e) : stepGen L env s (.removeAsset a) = s := by
  rw [stepGen_removeAsset, h]; rfl

/-! ### `AttackerAttachment` and re-used ids: what happens without the hypotheses -/

/-- two attackers with the same id, name and (no) entry points -/
def twinHeap : H :=
  { t := fun _ => { id := some 3, name := some "x" }, tfresh := 2, attackers := [0, 1] }

def idEnv : ModelEnv := { eqA := fun _ _ => false, eqL := fun _ _ => false, whileFuel := 8 }

theorem idEnv_eqId : EqId idEnv := ⟨fun _ _ h => (by cases h), fun _ _ h => (by cases h)⟩

/-- `remove_attacker(B)` with a twin `A` in front removes `A`: afterwards the model holds `B` (the reference
model: `A`).  The hypothesis `NoTwin` of `remove_attacker_refines_partial` is needed. -/
theorem remove_attacker_twin_counterexample :
    (∃ s', model_remove_attacker twinHeap idEnv 1 = .ok s' ∧ s'.attackers = [1]) ∧
    (∃ m, MS.removeAttacker (abs twinHeap) 1 = .ok m ∧ m.attackers = [0]) ∧
    ¬ NoTwin idEnv twinHeap 1 := by
  refine ⟨⟨_, rfl, by decide⟩, ⟨_, rfl, by decide⟩, ?_⟩
  intro h
  have := h 0 (by decide) (by decide)
  cases this

/-- asset object 0 has been removed from the model; asset object 1, added later with the same id and name, is
equal to it by value -/
def reusedHeap : H :=
  { a := fun _ => { id := some 5, name := some "h", type := "Host", extras := some "{}" }, afresh := 2
    assets := [1], asset_ids := [5], asset_names := ["h"], next_id := 6 }

def valueEnv : ModelEnv := { eqA := fun _ _ => true, eqL := fun _ _ => false, whileFuel := 8 }

/-- `remove_asset(old)` for an object that is no longer part of the model, but is equal by value to a live one,
does not raise `LookupError`: it removes the live twin (the reference model rejects).  This is the case `EqId`
excludes; the correspondence check does not generate it either (`usable_dead_assets` in `harness/mhist.py`). -/
theorem remove_asset_twin_counterexample :
    (∃ s', model_remove_asset reusedHeap valueEnv 0 = .ok s' ∧ s'.assets = [] ∧ s'.asset_ids = []) ∧
    MS.removeAsset (abs reusedHeap) 0 = .error .lookupError ∧ ¬ EqId valueEnv := by
  refine ⟨⟨_, rfl, by decide, by decide⟩, rfl, ?_⟩
  intro h
  have := h.asset 0 1 rfl
  cases this

/-! ### the hypotheses are satisfiable by non-trivial heaps -/

example : EqId idEnv := idEnv_eqId
theorem demo_fieldsDistinct : FieldsDistinct MS.Demo.lang := by unfold FieldsDistinct; decide

/-- a short history: two assets (explicit id 0 and a negative id), a link, an attacker with an entry point,
removal of the first asset -/
def demoOps : List MS.Op := [
  .addAsset "Host" (some "h") [] true "{}" (some 0) true,
  .addAsset "Net" none [] true "{}" (some (-3)) true,
  .addAssociation "Link_Host_Net" [0] [1],
  .addAttacker none none,
  .addEntryPoint 0 0 "access",
  .removeAsset 0]

/-- the history is admissible (`Adm`: loop bound, no value twins of removed attackers) … -/
theorem demo_admissible : AdmAll MS.Demo.lang idEnv {} demoOps := by
  refine ⟨?_, ?_, trivial, trivial, trivial, trivial, trivial⟩ <;> (show _ ≤ _; decide)

/-- … so `reachable_inv` applies to it: the heap it ends in is coherent … -/
example : Inv (demoOps.foldl (stepGen MS.Demo.lang idEnv) {}) :=
  (reachable_inv MS.Demo.lang demo_fieldsDistinct idEnv_eqId demoOps demo_admissible).2

/-- … and is what one expects: the explicit ids 0 and -3 were honoured, the removed asset left no trace -/
example :
    let s := demoOps.foldl (stepGen MS.Demo.lang idEnv) {}
    s.assets = [1] ∧ s.associations = [] ∧ s.attackers = [0] ∧ s.asset_ids = [-3] ∧ (s.a 1).id = some (-3) ∧
    (s.t 0).entry_points = [] ∧ s._type_to_association = [] := by
  decide

/-- before the removal: the link and the entry point are there -/
example :
    let s := (demoOps.take 5).foldl (stepGen MS.Demo.lang idEnv) {}
    s.assets = [0, 1] ∧ s.associations = [0] ∧ (s.a 0).id = some 0 ∧ (s.a 0).associations = [0] ∧
    (s.t 0).entry_points = [0] ∧ (s.e 0).asset = 0 ∧ (s.e 0).steps = ["access"] ∧ EpOKAll s := by
  refine ⟨by decide, by decide, by decide, by decide, by decide, by decide, by decide, ?_⟩
  exact (run_sim MS.Demo.lang demo_fieldsDistinct idEnv_eqId (demoOps.take 5) {} init_inv epOKAll_empty
    ⟨by show _ ≤ _; decide, by show _ ≤ _; decide, trivial, trivial, trivial, trivial⟩).2.2

/-- on that heap: the net's neighbours through `hosts` are the host, the host's through `nets` the net; the
attacker has no value twin (`NoTwin`), so `remove_attacker_refines_partial` applies -/
example :
    let s := (demoOps.take 5).foldl (stepGen MS.Demo.lang idEnv) {}
    model_get_associated_assets_by_field_name s idEnv 1 "hosts" = .ok [0] ∧
    model_get_associated_assets_by_field_name s idEnv 0 "nets" = .ok [1] ∧
    model_get_asset_by_id s idEnv (-3) = some 1 ∧ model_get_asset_by_name s idEnv "h" = some 0 ∧
    NoTwin idEnv s 0 := by
  refine ⟨rfl, rfl, by decide, by decide, ?_⟩
  intro u hu _
  have : u ∈ [0] := hu
  simpa using this

end MalVerif.PropsGen.C05
