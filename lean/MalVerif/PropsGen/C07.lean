import MalVerif.Py.TieMSerialToDict
import MalVerif.Py.TieMSerialFromDict
import MalVerif.Py.TieMSerialFromDictMain
import MalVerif.Py.TieMSerialHeapSet
import MalVerif.Py.TieModelStep
import MalVerif.Props.C07
import MalVerif.PropsGen.C05
/-!
# C07 for the *translated* serialisation code (`MalVerif/Py/GenMSerial/*.lean`, regenerated from `model.py` on every run)

C07: "For every model, writing it to a .json, .yml or .yaml file and loading that file with the same language gives
a model with the same name, the same assets (id, name, type, every defense value, extras), the same associations
(type, fields, member ids, extras) and the same attackers (id, name, entry points); saving the loaded model
reproduces the same content.  A hand-written file that lists asset ids in any order, uses id 0, or uses the
type-only shorthand loads to the model it describes."

What is proved here, about the generated `model__to_dict` / `model__from_dict` (heap `H` and `abs : H → MS.St` of the
`model` domain, documents `PyDoc` read through `docOf`, file layer `Ser.jsonRT` / `Ser.yamlRT` modelled as in
`Props/C07.lean`):

* saving: `to_dict_is_model_document` (the translated `_to_dict` returns, and what it returns reads as `Ser.toDoc` of
  the abstracted heap; it carries the model name), `get_asset_defenses_exact`, `saved_file_loads_*` (the document
  written by the translated `_to_dict`, through a YAML or a JSON file, is accepted by the reference loader and gives
  the same model; re-saving reproduces it) — these transfer `Props/C07.lean` through the tie;
* `duplicate_attacker_ids_collapse` (KF-C07-1) for the translated `_to_dict`;
* `defense_key_order_needs_schema_order`: without `DefsSchemaOrder` the `defenses` member is written in schema order,
  the reference writes assignment order (the hypothesis is needed);
* loading: `shorthand_loads` (general: the type-only shorthand is the full entry with the generated name, for the
  translated `_from_dict`), and the translated `_from_dict` *evaluated* on the document the translated `_to_dict`
  writes for a heap built by the translated `add_*` functions (explicit ids 5, 0, -3, non-default defense, extras,
  association with two members, attacker with two entry points) and on a hand-written document (id 0 last, negative
  id, shorthand): same model / the described model;
* the general tie: `from_dict_is_model_load` (on a `DocOK` document the translated `_from_dict` returns iff the
  reference loader accepts, with the same state), and through it, at full generality, `roundtrip_partial`,
  `load_order_independent`, `loads_listed_assets`, `id_zero_loads`; `heapSet_invariant`;
* the recorded differences between Python and the reference loader stay kernel-checked findings (`*_finding`) and are
  exactly what `DocOK` excludes by name.
-/
namespace MalVerif.PropsGen.C07
open MalVerif MalVerif.PyM MalVerif.PyM.Gen MalVerif.PyM.Tie MalVerif.Ser MalVerif.MS

/-! ### saving -/

/-- **`_to_dict` is the reference document.**  On a heap whose live objects carry the attributes the `add_*`
functions set (`HeapSet`), whose explicit defense values are listed in schema order and whose classes have no defense
called `id` / `type` (`AssetsOK`), the translated `_to_dict` returns a document that reads as `Ser.toDoc` of the
abstracted heap and carries the model's name.  No assumption on ids. -/
theorem to_dict_is_model_document (env : SEnv) (s : H) (hs : HeapSet s) (ha : AssetsOK env.lang s) :
    ∃ d, model__to_dict s env = .ok d ∧ docOf d = Ser.toDoc env.lang (abs s) ∧ docName d = s.name :=
  to_dict_tie env s hs ha

/-- `get_asset_defenses(asset)` returns exactly the explicitly assigned values that differ from the class default -/
theorem get_asset_defenses_exact (env : SEnv) (s : H) (a : ARef) (hn : DefNamesOK env.lang (s.a a).type)
    (hd : ((s.a a).defenses.map (·.1)).Sublist ((MS.defensesOf env.lang (s.a a).type).map (·.1))) :
    model_get_asset_defenses s env a false = .ok (Ser.nonDefault env.lang ((abs s).aobj a)) :=
  get_asset_defenses_tie env s a hn hd

/-- what the translated `_to_dict` writes depends only on the file view of the model -/
theorem saved_document_depends_on_file_view (env : SEnv) (s s' : H) (hs : HeapSet s) (ha : AssetsOK env.lang s)
    (hs' : HeapSet s') (ha' : AssetsOK env.lang s') (h : SameFile env.lang (abs s) (abs s')) :
    ∃ d d', model__to_dict s env = .ok d ∧ model__to_dict s' env = .ok d' ∧ docOf d = docOf d' := by
  obtain ⟨d, h1, h2, _⟩ := to_dict_tie env s hs ha
  obtain ⟨d', h1', h2', _⟩ := to_dict_tie env s' hs' ha'
  exact ⟨d, d', h1, h1', by rw [h2, h2', C07.save_depends_on_file_view env.lang _ _ h]⟩

/-- **save, then load (YAML and JSON).**  The document the translated `_to_dict` writes for a coherent, valid heap
with distinct attacker ids is accepted by the reference loader `Ser.fromDoc` through either kind of file, and the
loaded model shows the same assets (id, name, type, every defense value, extras), associations and attackers; saving
the loaded model reproduces the document.  (`LinksResolve`, `DefKeysDistinct`, `AttNamesNonempty`: as in
`Props/C07.lean`, where each is shown to be necessary.) -/
theorem saved_file_loads_partial (env : SEnv) (s : H) (hs : HeapSet s) (ha : AssetsOK env.lang s)
    (hi : Inv (abs s)) (hv : Valid env.lang (abs s)) (hatt : AttIdsDistinct (abs s))
    (hres : LinksResolve env.lang (abs s)) (hdef : DefKeysDistinct (abs s)) (hname : AttNamesNonempty (abs s)) :
    ∃ d, model__to_dict s env = .ok d ∧ docName d = s.name ∧
      (∃ m, fromDoc env.lang (fun _ => true) (yamlRT (docOf d)) = .ok m ∧ SameModel env.lang m (abs s) ∧ Inv m ∧
        toDoc env.lang m = docOf d) ∧
      (∃ m, fromDoc env.lang (fun _ => true) (jsonRT (docOf d)) = .ok m ∧ SameModel env.lang m (abs s) ∧ Inv m ∧
        toDoc env.lang m = docOf d) := by
  obtain ⟨d, h1, h2, h3⟩ := to_dict_tie env s hs ha
  refine ⟨d, h1, h3, ?_, ?_⟩
  · obtain ⟨m, hm, hsm, him⟩ := C07.load_save_yaml_partial env.lang (abs s) hi hv hatt hres hdef hname
    exact ⟨m, by rw [h2]; exact hm, hsm, him,
      by rw [h2]; exact C07.save_idempotent_partial env.lang (abs s) m hi hv hatt hres hdef hname (Or.inl hm)⟩
  · obtain ⟨m, hm, hsm, him⟩ := C07.load_save_json_partial env.lang (abs s) hi hv hatt hres hdef hname
    exact ⟨m, by rw [h2]; exact hm, hsm, him,
      by rw [h2]; exact C07.save_idempotent_partial env.lang (abs s) m hi hv hatt hres hdef hname (Or.inr hm)⟩

/-! ### a concrete heap, built by the translated `add_*` functions -/

def demoEnv : SEnv :=
  { model := { eqA := fun _ _ => false, eqL := fun _ _ => false, whileFuel := 8 }, lang := MS.Demo.lang,
    floatOk := fun t => t == "0.0" || t == "1.0" || t == "0.5", lang_version := "1.0.0", lang_id := "demo",
    toolbox_version := "0.1.11" }

/-- `Ser.Sample.ops` performed with the translated functions: ids 5, 0, -3 in this order; `h` sets the non-default
`patched = 1`, `g` sets `hardened` to its default; extras on the second asset; an association with two hosts; an
attacker with two entry points -/
def demoHeap0 : H := { Sample.ops.foldl (Tie.stepGen MS.Demo.lang demoEnv.model) {} with name := "demo model" }
/-- … and extras on the association (`association.extras = {...}`, as callers do after `add_association`) -/
def demoHeap : H := demoHeap0.setL 0 { demoHeap0.l 0 with extras := some "{\"w\": 2}" }

/-- the hypotheses of the theorems above hold for it -/
example : HeapSet demoHeap ∧ DefsSchemaOrder demoEnv.lang demoHeap ∧
    (∀ a ∈ demoHeap.assets, ∀ d ∈ MS.defensesOf demoEnv.lang (demoHeap.a a).type, d.1 ≠ "id" ∧ d.1 ≠ "type") ∧
    demoHeap.assets = [0, 1, 2] ∧ (demoHeap.a 1).id = some 0 ∧ (demoHeap.a 2).id = some (-3) := by
  decide

/-- the history is admissible for the translated functions (loop bound of `add_asset`) … -/
theorem demo_admissible : AdmAll MS.Demo.lang demoEnv.model {} Sample.ops := by
  refine ⟨?_, ?_, ?_, ?_, ?_, ?_, ?_, trivial⟩ <;> first | trivial | (show _ ≤ _; decide)

/-- … so the heap is coherent (`Inv`, through `PropsGen/C05.lean`), as `saved_file_loads_partial` assumes; its
attacker ids are distinct, no defense is set twice, no attacker has the empty name -/
example : Inv (abs demoHeap) ∧ AttIdsDistinct (abs demoHeap) ∧ DefKeysDistinct (abs demoHeap) ∧
    AttNamesNonempty (abs demoHeap) := by
  refine ⟨?_, by decide, by decide, by decide⟩
  have h0 := (C05.reachable_inv MS.Demo.lang C05.demo_fieldsDistinct C05.idEnv_eqId Sample.ops demo_admissible).2
  have : abs demoHeap = updL (abs demoHeap0) 0 (fun o => { o with extras := "{\"w\": 2}" }) := by
    apply abs_setL_updL
    rfl
  rw [this]
  exact updL_extras_inv _ _ _ h0

/-- … and this is the document the translated `_to_dict` returns for it -/
example : ∃ d, model__to_dict demoHeap demoEnv = .ok d ∧ docName d = "demo model" ∧
    docOf d =
    { assets := [(.i 5, .full "h" "Host" [("patched", "1.0")] none), (.i 0, .full "Net:0" "Net" [] (some "{\"x\": 1}")),
                 (.i (-3), .full "g" "Host" [] none)],
      associations := [{ cls := "Link_Host_Net", lf := "hosts", left := [.i 5, .i (-3)], rf := "nets", right := [.i 0],
                         extras := some "{\"w\": 2}" }],
      attackers := [(.i 9, { name := "eve", entry := [(.i 5, ["access"]), (.i (-3), ["access"])] })] } :=
  ⟨_, rfl, by decide, by decide⟩

/-! ### the order of the keys inside a `defenses` dictionary -/

/-- one asset whose two explicit defense values were assigned in the order `patched`, `hardened` (the class schema
lists `hardened` first) -/
def orderHeap : H :=
  { a := fun _ => { id := some 1, name := some "h", type := "Host", defenses := [("patched", "1.0"), ("hardened", "0.0")],
                    extras := some "{}" },
    afresh := 1, assets := [0], asset_ids := [1], asset_names := ["h"], next_id := 2 }

/-- `DefsSchemaOrder` is needed for `to_dict_is_model_document`: python_jsonschema_objects keeps the properties in
schema order, so the translated `get_asset_defenses` lists `hardened` first; the reference model keeps the order of
assignment.  (As Python dictionaries the two are equal; both file formats and `_from_dict` ignore the order.) -/
theorem defense_key_order_needs_schema_order :
    ¬ DefsSchemaOrder demoEnv.lang orderHeap ∧ HeapSet orderHeap ∧
    Returns (model_get_asset_defenses orderHeap demoEnv 0 false) (fun d => d = [("hardened", "0.0"), ("patched", "1.0")]) ∧
    Ser.nonDefault demoEnv.lang ((abs orderHeap).aobj 0) = [("patched", "1.0"), ("hardened", "0.0")] := by
  decide +kernel

/-! ### attackers that share an id (KF-C07-1) -/

/-- two attachments added with the same id by the translated `add_attacker` -/
def dupHeap : H :=
  [Op.addAttacker (some "a") (some 1), .addAttacker (some "b") (some 1)].foldl (Tie.stepGen MS.Demo.lang demoEnv.model) {}

/-- the translated `add_attacker` accepts an id that is in use; the translated `_to_dict` writes both attackers
under the one key (the later one wins, at the position of the earlier): the document has a single attacker -/
theorem duplicate_attacker_ids_collapse :
    dupHeap.attackers.map (fun t => ((dupHeap.t t).id, (dupHeap.t t).name)) = [(some 1, some "a"), (some 1, some "b")] ∧
    ∃ d, model__to_dict dupHeap demoEnv = .ok d ∧
      d.attackers = some [(.i 1, { name := some "b", entry_points := some [] })] ∧
      (docOf d).attackers = (toDoc MS.Demo.lang Sample.dupAtt).attackers :=
  ⟨by decide, _, rfl, by decide, by decide⟩


/-! ### loading -/

/-- **the type-only shorthand**: for every heap, language and document the translated `_from_dict` treats an asset
entry `"k": "Type"` exactly as the entry `"k": {"type": "Type", "name": "Type:k"}` it stands for -/
theorem shorthand_loads (s : H) (env : SEnv) (d : PyDoc) (pre post : List (Key × PyAssetV)) (k : Key) (ty : String)
    (hd : d.assets = some (pre ++ (k, .str ty) :: post)) :
    model__from_dict s env d =
      model__from_dict s env { d with assets := some (pre ++ (k, .dict { type := some ty, name := some (ty ++ ":" ++ k.text) }) :: post) } :=
  from_dict_shorthand s env d pre post k ty hd

/-- … and the reference loader does the same on the documents the two stand for (`Props/C07.lean`) -/
example (k : Key) (ty : String) :
    assetEntryOf (.str ty) = .shorthand ty ∧
    assetEntryOf (.dict { type := some ty, name := some (ty ++ ":" ++ k.text) }) = .full (ty ++ ":" ++ k.text) ty [] none :=
  ⟨rfl, rfl⟩

/-- **save, then load, evaluated.**  The translated `_from_dict` applied to the document the translated `_to_dict`
wrote for `demoHeap` (keys as a YAML file gives them back) returns a model with the same name that shows the same
assets (ids 5, 0, -3; names; types; every defense value; extras), associations and attackers, in the same order; the
reference loader accepts the same document and yields the same model; the translated `_to_dict` of the loaded heap
writes the same document again -/
theorem demo_roundtrip :
    Returns (model__from_dict {} demoEnv (pyDocOf demoEnv demoHeap)) (fun s' =>
      s'.name = "demo model" ∧ SameModel demoEnv.lang (abs s') (abs demoHeap) ∧ SameFile demoEnv.lang (abs s') (abs demoHeap) ∧
      s'.assets = [0, 1, 2] ∧ (s'.a 1).id = some 0 ∧ (s'.a 2).id = some (-3) ∧
      HeapSet s' ∧ DefsSchemaOrder demoEnv.lang s' ∧
      LoadsTo (fromDoc demoEnv.lang (fun _ => true) (docOf (pyDocOf demoEnv demoHeap)))
        (fun m => SameModel demoEnv.lang (abs s') m ∧ SameFile demoEnv.lang (abs s') m) ∧
      Returns (model__to_dict s' demoEnv) (fun d' => d' = pyDocOf demoEnv demoHeap)) := by
  decide +kernel

/-- a hand-written document: ids in no particular order with id 0 last, a negative id, the type-only shorthand, a
single id instead of a list as the member of a field -/
def handPy : PyDoc :=
  { metadata := some { name := some "by hand" },
    assets := some [(.i 7, .dict { name := some "h", type := some "Host", defenses := some [("patched", "1.0")] }),
                    (.i (-2), .str "Net"),
                    (.i 0, .dict { name := some "g", type := some "Host", extras := some "{\"k\": []}" })],
    associations := some [[("Link_Host_Net", .fields [("hosts", .list [.i 0, .i 7]), ("nets", .one (.i (-2)))])]],
    attackers := some [(.i 1, { name := some "eve", entry_points := some [(.i 0, { attack_steps := some ["access"] })] })] }

/-- the same with the asset entries in another order (id 0 first) -/
def handPy2 : PyDoc :=
  { handPy with assets := some [(.i 0, .dict { name := some "g", type := some "Host", extras := some "{\"k\": []}" }),
                                (.i 7, .dict { name := some "h", type := some "Host", defenses := some [("patched", "1.0")] }),
                                (.i (-2), .str "Net")] }

example : docShape handPy = true ∧ docShape handPy2 = true ∧ docOf handPy = Sample.handDoc ∧ docOf handPy2 = Sample.handDoc2 := by
  decide +kernel

/-- **a hand-written file loads to the model it describes** (evaluated): the assets come in file order with the ids
that are written (0 and -2 included), the shorthand entry gets the name `Net:-2`, the association and the attacker
refer to the assets by id; the reference loader gives the same model -/
theorem hand_written_loads :
    Returns (model__from_dict {} demoEnv handPy) (fun s =>
      s.name = "by hand" ∧
      s.assets.map (assetView demoEnv.lang (abs s)) =
        [⟨7, "h", "Host", [("hardened", "1.0"), ("patched", "1.0")], "{}"⟩, ⟨-2, "Net:-2", "Net", [], "{}"⟩,
         ⟨0, "g", "Host", [("hardened", "1.0"), ("patched", "0.0")], "{\"k\": []}"⟩] ∧
      s.associations.map (assocView (abs s)) = [⟨"Link_Host_Net", "hosts", [0, 7], "nets", [-2], "{}"⟩] ∧
      s.attackers.map (attView (abs s)) = [⟨1, "eve", [(0, ["access"])]⟩] ∧
      LoadsTo (fromDoc demoEnv.lang (fun _ => true) (docOf handPy)) (fun m => SameModel demoEnv.lang (abs s) m)) := by
  decide +kernel

/-- an association entry with extras whose keys come in the order PyYAML writes them for a type name that sorts after
`extras` (the `extras` key first, repair ff5c204): the type is found, the extras are kept -/
theorem association_extras_first_loads :
    let d : PyDoc := { handPy with associations := some [[("extras", .json "{\"w\": 2}"),
      ("Link_Host_Net", .fields [("hosts", .list [.i 0, .i 7]), ("nets", .list [.i (-2)])])]] }
    docShape d = true ∧
    Returns (model__from_dict {} demoEnv d) (fun s =>
      s.associations.map (assocView (abs s)) = [⟨"Link_Host_Net", "hosts", [0, 7], "nets", [-2], "{\"w\": 2}"⟩] ∧
      LoadsTo (fromDoc demoEnv.lang (fun _ => true) (docOf d)) (fun m => SameModel demoEnv.lang (abs s) m)) := by
  decide +kernel

/-- **any order of the asset entries, id 0 first** (evaluated): the reordered file loads to the reordered assets and
the same association and attacker -/
theorem hand_written_reordered_loads :
    Returns (model__from_dict {} demoEnv handPy2) (fun s =>
      s.assets.map (assetView demoEnv.lang (abs s)) =
        [⟨0, "g", "Host", [("hardened", "1.0"), ("patched", "0.0")], "{\"k\": []}"⟩,
         ⟨7, "h", "Host", [("hardened", "1.0"), ("patched", "1.0")], "{}"⟩, ⟨-2, "Net:-2", "Net", [], "{}"⟩] ∧
      s.associations.map (assocView (abs s)) = [⟨"Link_Host_Net", "hosts", [0, 7], "nets", [-2], "{}"⟩] ∧
      s.attackers.map (attView (abs s)) = [⟨1, "eve", [(0, ["access"])]⟩] ∧
      LoadsTo (fromDoc demoEnv.lang (fun _ => true) (docOf handPy2)) (fun m => SameModel demoEnv.lang (abs s) m)) := by
  decide +kernel

/-! ### where the translated loader and the reference loader differ (findings, see notes/NOTES_mserial.md) -/

/-- an entry point on an asset id that is not in the file: the reference loader rejects the file (`LookupError`);
the translated code stops with `PyErr.other`, which stands for "Python stores `None` where an object is expected and
goes on" — the real `_from_dict` returns a model whose attacker has the entry point `(None, [...])` -/
theorem dangling_entry_point_finding :
    let d : PyDoc := { handPy with attackers := some [(.i 1, { name := some "eve", entry_points := some [(.i 99, { attack_steps := some ["access"] })] })] }
    Raises (model__from_dict {} demoEnv d) .other ∧
    ¬ LoadsTo (fromDoc demoEnv.lang (fun _ => true) (docOf d)) (fun _ => True) := by
  decide +kernel

/-- a defense name the class does not have: Python (and the translation) store it as an extended property that
nothing reads and load the file; the reference loader rejects it -/
theorem unknown_defense_finding :
    let d : PyDoc := { handPy with assets := some [(.i 7, .dict { name := some "h", type := some "Host", defenses := some [("nonexistent", "0.5")] })],
                                   associations := some [], attackers := some [] }
    Returns (model__from_dict {} demoEnv d) (fun s => s.assets.map (assetView demoEnv.lang (abs s)) =
      [⟨7, "h", "Host", [("hardened", "1.0"), ("patched", "0.0")], "{}"⟩]) ∧
    ¬ LoadsTo (fromDoc demoEnv.lang (fun _ => true) (docOf d)) (fun _ => True) := by
  decide +kernel

/-- the two fields of an association entry in the opposite order: Python (and the translation) assign the fields by
name and load the file; the reference loader compares the first field with the left one and rejects it -/
theorem swapped_fields_finding :
    let d : PyDoc := { handPy with associations := some [[("Link_Host_Net", .fields [("nets", .one (.i (-2))), ("hosts", .list [.i 0, .i 7])])]] }
    Returns (model__from_dict {} demoEnv d) (fun s =>
      s.associations.map (assocView (abs s)) = [⟨"Link_Host_Net", "hosts", [0, 7], "nets", [-2], "{}"⟩]) ∧
    ¬ LoadsTo (fromDoc demoEnv.lang (fun _ => true) (docOf d)) (fun _ => True) := by
  decide +kernel

/-- the model name survives; the toolbox version does not: `_to_dict` writes the key `MAL-Toolbox Version`,
`_from_dict` looks for `MAL Toolbox Version` -/
theorem version_key_mismatch (env : SEnv) (s : H) :
    (pyDocOf env s).metadata.bind (·.MAL_Toolbox_Version_space) = none ∧
    (pyDocOf env s).metadata.bind (·.MAL_Toolbox_Version_hyphen) = some env.toolbox_version := ⟨rfl, rfl⟩


/-! ### the general tie of the translated `_from_dict`, and what it transfers

`DocOK env d` = the decidable shape `docShape d` (the keys `_from_dict` subscripts are there, association entries have
one type key with a two-field dictionary, dictionaries have pairwise different keys — `int` keys as a YAML file
delivers them and `str` keys as a JSON file delivers them are both covered: conversions go through `Key.toInt?`) plus
the named conditions that put exactly the recorded differences between Python and the reference loader outside:
`DefsKnown` (`unknown_defense_finding`), `FieldsNotSwapped` (`swapped_fields_finding`), `EntryPointsListed`
(`dangling_entry_point_finding`), `EntryIdsDistinct` (`entry_point_keys_finding` below), and the loop bound of
`add_asset`.  `s0` is the heap `_from_dict` runs in (any heap whose attachment objects refer to allocated tuples; `{}`
is one). -/

/-- **`_from_dict` is the reference loader.**  On a `DocOK` document the translated `_from_dict` returns iff
`Ser.fromDoc` (started in the abstraction of the new empty model) accepts, and then the returned heap abstracts to
the reference result, carries the document's name, is coherent and has `HeapSet` -/
theorem from_dict_is_model_load (env : SEnv) (hE : EqId env.model) (hL : Tie.FieldsDistinct env.lang) (s0 : H)
    (h0 : ∀ u, ∀ r ∈ (s0.t u).entry_points, r < s0.efresh) (d : PyDoc) (hd : DocOK env d) :
    (∀ s', model__from_dict s0 env d = .ok s' →
      fromDocFrom env.lang (defsOkOf env d) (abs (H.newModel s0 (docName d))) (docOf d) = .ok (abs s') ∧
      s'.name = docName d ∧ Inv (abs s') ∧ HeapSet s') ∧
    (∀ e, model__from_dict s0 env d = .error e →
      ∃ e', fromDocFrom env.lang (defsOkOf env d) (abs (H.newModel s0 (docName d))) (docOf d) = .error e') := by
  obtain ⟨h1, h2⟩ := from_dict_tie env hE hL s0 h0 d hd
  exact ⟨fun s' h => let ⟨a, b, c⟩ := h1 s' h; ⟨a, b, c.inv, c.heapset⟩, h2⟩

/-- from the empty heap the reference run is `Ser.fromDoc` itself up to the content of unallocated store cells: its
start state has no live objects (`EmptyModel`), which is all the load theorems of `Props/C07.lean` use -/
example (nm : String) : EmptyModel (abs (H.newModel {} nm)) ∧ fromDoc MS.Demo.lang (fun _ => true) = fromDocFrom MS.Demo.lang (fun _ => true) {} :=
  ⟨emptyModel_abs_newModel _ _, rfl⟩

/-- **round trip** (C07, first sentence) for the translated pair: for every heap `s` as in `saved_file_loads_partial`
(plus: the defense values passed the pjs range check when they were assigned, the loop bound of `add_asset`), writing it
with the translated `_to_dict`, passing the document through a YAML or a JSON file, and loading it with the
translated `_from_dict` (in any heap `s0`) gives a heap with the same name that shows the same assets (id, name, type,
every defense value, extras), associations and attackers; it is coherent, and saving it again with the translated
`_to_dict` reproduces the same content -/
theorem roundtrip_partial (env : SEnv) (hE : EqId env.model) (hL : Tie.FieldsDistinct env.lang) (f : Format)
    (s s0 : H) (h0 : ∀ u, ∀ r ∈ (s0.t u).entry_points, r < s0.efresh)
    (hs : HeapSet s) (ha : AssetsOK env.lang s) (hfl : FloatsOk env s) (hfuel : s.assets.length + 1 ≤ env.model.whileFuel)
    (hi : Inv (abs s)) (hv : Valid env.lang (abs s)) (hatt : AttIdsDistinct (abs s))
    (hres : LinksResolve env.lang (abs s)) (hdef : DefKeysDistinct (abs s)) (hname : AttNamesNonempty (abs s)) :
    ∃ d s', model__to_dict s env = .ok d ∧ model__from_dict s0 env (f.rt d) = .ok s' ∧ s'.name = s.name ∧
      SameModel env.lang (abs s') (abs s) ∧ SameFile env.lang (abs s') (abs s) ∧ Inv (abs s') ∧ HeapSet s' ∧
      AssetsOK env.lang s' ∧
      ∃ d', model__to_dict s' env = .ok d' ∧ docOf d' = docOf d ∧ docName d' = docName d :=
  roundtrip_tie env hE hL f s s0 h0 hs ha hfl hfuel hi hv hatt hres hdef hname

/-- **any order of the asset entries**: two `DocOK` documents that list the same asset entries (pairwise distinct ids
and names) in any order and agree otherwise: if the translated `_from_dict` returns for one it returns for the other,
with the same assets up to order and the same associations and attackers -/
theorem load_order_independent (env : SEnv) (hE : EqId env.model) (hL : Tie.FieldsDistinct env.lang) (s0 : H)
    (h0 : ∀ u, ∀ r ∈ (s0.t u).entry_points, r < s0.efresh) (d d' : PyDoc) (hd : DocOK env d) (hd' : DocOK env d')
    (hp : (d.assets.getD []).Perm (d'.assets.getD [])) (hl : d'.associations = d.associations)
    (ht : d'.attackers = d.attackers) (hm : docName d' = docName d)
    (hid : ((docOf d).assets.map (fun e => (objOf e).id)).Nodup)
    (hnm : ((docOf d).assets.map (fun e => (objOf e).name)).Nodup)
    (s : H) (hok : model__from_dict s0 env d = .ok s) :
    ∃ s', model__from_dict s0 env d' = .ok s' ∧
      (s.assets.map (assetView env.lang (abs s))).Perm (s'.assets.map (assetView env.lang (abs s'))) ∧
      s.associations.map (assocView (abs s)) = s'.associations.map (assocView (abs s')) ∧
      s.attackers.map (attView (abs s)) = s'.attackers.map (attView (abs s')) := by
  obtain ⟨s', h1, h2⟩ := load_order_tie env hE hL s0 h0 d d' hd hd' hp hl ht hm hid hnm s hok
  exact ⟨s', h1, h2.assets, h2.assocs, h2.attackers⟩

/-- **a file loads to the assets it lists**, in file order, with the ids, names (generated for the shorthand), types,
defense values and extras that are written -/
theorem loads_listed_assets (env : SEnv) (hE : EqId env.model) (hL : Tie.FieldsDistinct env.lang) (s0 : H)
    (h0 : ∀ u, ∀ r ∈ (s0.t u).entry_points, r < s0.efresh) (d : PyDoc) (hd : DocOK env d)
    (hid : ((docOf d).assets.map (fun e => (objOf e).id)).Nodup)
    (hnm : ((docOf d).assets.map (fun e => (objOf e).name)).Nodup)
    (s : H) (hok : model__from_dict s0 env d = .ok s) :
    s.assets.map (assetView env.lang (abs s)) = (docOf d).assets.map (fun e => objView env.lang (objOf e)) :=
  Tie.loads_listed_assets env hE hL s0 h0 d hd hid hnm s hok

/-- **id 0** (any written id: 0, negative, gaps): an entry under a key that reads as the integer `i` becomes a live
asset with id `i`, the written name and type -/
theorem id_zero_loads (env : SEnv) (hE : EqId env.model) (hL : Tie.FieldsDistinct env.lang) (s0 : H)
    (h0 : ∀ u, ∀ r ∈ (s0.t u).entry_points, r < s0.efresh) (d : PyDoc) (hd : DocOK env d)
    (hid : ((docOf d).assets.map (fun e => (objOf e).id)).Nodup)
    (hnm : ((docOf d).assets.map (fun e => (objOf e).name)).Nodup)
    (s : H) (hok : model__from_dict s0 env d = .ok s)
    (k : Key) (nm ty : String) (defs : List (String × String)) (ex : Option String) (i : Int) (hk : k.toInt? = some i)
    (he : (k, AssetEntry.full nm ty defs ex) ∈ (docOf d).assets) :
    ∃ a ∈ s.assets, attrInt (s.a a).id = i ∧ attrStr (s.a a).name = nm ∧ (s.a a).type = ty := by
  have h := loads_listed_assets env hE hL s0 h0 d hd hid hnm s hok
  have hm : objView env.lang (objOf (k, AssetEntry.full nm ty defs ex)) ∈ s.assets.map (assetView env.lang (abs s)) := by
    rw [h]; exact List.mem_map.2 ⟨_, he, rfl⟩
  obtain ⟨a, ha, e⟩ := List.mem_map.1 hm
  refine ⟨a, ha, ?_, ?_, ?_⟩
  · have := congrArg AssetView.id e
    simp [assetView, objView, objOf, hk] at this
    exact this
  · have := congrArg AssetView.name e
    simp [assetView, objView, objOf] at this
    exact this
  · have := congrArg AssetView.type e
    simp [assetView, objView, objOf] at this
    exact this

theorem handPy_defsKnown : DefsKnown demoEnv.lang handPy ∧ DefsKnown demoEnv.lang handPy2 := by
  constructor <;>
  · intro e he
    simp only [handPy, handPy2, Option.getD_some, List.mem_cons, List.not_mem_nil, or_false] at he
    rcases he with rfl | rfl | rfl
    all_goals first
      | trivial
      | (intro x hx
         simp only [Option.getD_some, Option.getD_none, List.mem_cons, List.not_mem_nil, or_false] at hx
         first | (subst hx; decide +kernel) | exact absurd hx (by simp))

/-- the hypotheses of the general theorems are satisfiable: the hand-written documents are `DocOK`, the demo
environment has identity as object equality and distinct field names, the empty heap is a start heap -/
example : DocOK demoEnv handPy ∧ DocOK demoEnv handPy2 ∧ EqId demoEnv.model ∧ Tie.FieldsDistinct demoEnv.lang ∧
    (∀ u, ∀ r ∈ (({} : H).t u).entry_points, r < ({} : H).efresh) ∧
    FloatsOk demoEnv demoHeap ∧ demoHeap.assets.length + 1 ≤ demoEnv.model.whileFuel := by
  have hs1 : FieldsNotSwapped demoEnv.lang handPy := by unfold FieldsNotSwapped; decide +kernel
  have hs2 : FieldsNotSwapped demoEnv.lang handPy2 := by unfold FieldsNotSwapped; decide +kernel
  have hl1 : EntryPointsListed handPy := by unfold EntryPointsListed; decide +kernel
  have hl2 : EntryPointsListed handPy2 := by unfold EntryPointsListed; decide +kernel
  have he1 : ∀ t ∈ handPy.attackers.getD [], EntryIdsDistinct t.2 := by decide +kernel
  have he2 : ∀ t ∈ handPy2.attackers.getD [], EntryIdsDistinct t.2 := by decide +kernel
  have hf : FloatsOk demoEnv demoHeap := by unfold FloatsOk; decide +kernel
  exact ⟨⟨by decide +kernel, handPy_defsKnown.1, hs1, hl1, he1, by decide⟩,
    ⟨by decide +kernel, handPy_defsKnown.2, hs2, hl2, he2, by decide⟩,
    ⟨fun _ _ h => (by cases h), fun _ _ h => (by cases h)⟩, C05.demo_fieldsDistinct, fun _ _ h => (by cases h), hf, by decide⟩

/-- two entry-point keys of one attacker that read as the same integer (`0` and `"0"` are two keys of a Python
dictionary): the document is well shaped and both loaders accept it, but the attacker gets the same asset twice and
the loaded model is not coherent (`Inv` fails) — which is why `DocOK` has `EntryIdsDistinct` -/
theorem entry_point_keys_finding :
    let d : PyDoc := { handPy with attackers := some [(.i 1, { name := some "eve", entry_points := some [(.i 0, { attack_steps := some ["access"] }), (.s (Key.i 0).text, { attack_steps := some [] })] })] }
    docShape d = true ∧ ¬ (∀ t ∈ d.attackers.getD [], EntryIdsDistinct t.2) := by
  refine ⟨by decide +kernel, fun h => ?_⟩
  have := h _ List.mem_cons_self
  unfold EntryIdsDistinct at this
  simp only [Option.getD_some, List.map_cons, List.map_nil, C07.key_roundtrip] at this
  simp [Key.toInt?] at this

/-! ### invariants -/

/-- `HeapSet` is an invariant of the translated mutators: after any admissible history of translated operations from
the empty heap (for a language without an association class called `extras`) it holds -/
theorem heapSet_invariant (L : Lang) (hL : NoExtrasClass L) (hLd : Tie.FieldsDistinct L) {env : ModelEnv} (hE : EqId env)
    (ops : List Op) (hA : AdmAll L env {} ops) : HeapSet (ops.foldl (Tie.stepGen L env) {}) :=
  heapSet_run L hL hLd hE ops hA

/-- … and one step keeps it (freshness from `Inv`) -/
theorem heapSet_step_invariant (L : Lang) (hL : NoExtrasClass L) (env : ModelEnv) (s : H) (hs : HeapSet s) (op : Op)
    (hadm : Adm env s op) (hI : Inv (abs s)) : HeapSet (Tie.stepGen L env s op) :=
  heapSet_step_inv L hL env s hs op hadm hI

end MalVerif.PropsGen.C07
