import MalVerif.Py.TieNode
import MalVerif.Props.C12
/-!
# C12 for the *generated* code — attack-surface queries follow their definition; incremental = recomputed

The theorems of `Props/C12.lean` restated for the functions of `MalVerif/Py/Gen/Query.lean` (translated from
`maltoolbox/attackgraph/query.py` on every run), over the heap `H` directly: no statement mentions the hand-written
model.  The proofs go through the tie theorems of `Py/TieNode.lean` and the model theorems of `Props/C12.lean`.
-/
namespace MalVerif.PropsGen.C12
open MalVerif.Py MalVerif.Py.Gen MalVerif.Py.Tie MalVerif.AGS

/-- **Traversability**: viable, and either an 'or' step or an 'and' step all of whose necessary parents the
attacker has compromised. -/
theorem traversable_iff (s : H) (n : NRef) (a : ARef) :
    is_node_traversable_by_attacker s n a = true ↔
      (s.n n).is_viable = true ∧
      ((s.n n).type = "or" ∨
       ((s.n n).type = "and" ∧ ∀ p ∈ (s.n n).parents, (s.n p).is_necessary = true → a ∈ (s.n p).compromised_by)) := by
  rw [traversable_tie s n a 0 0, MalVerif.C12.traversable_iff]
  show _ ∧ (ntypeOf (s.n n).type = .or ∨ (ntypeOf (s.n n).type = .and ∧ _)) ↔ _
  rw [ntypeOf_or, ntypeOf_and]
  rfl

/-- defenses, existence steps and nodes of an unknown type are never traversable -/
theorem not_traversable_of_type (s : H) (n : NRef) (a : ARef) (h1 : (s.n n).type ≠ "or") (h2 : (s.n n).type ≠ "and") :
    is_node_traversable_by_attacker s n a = false := by
  cases h : is_node_traversable_by_attacker s n a with
  | false => rfl
  | true =>
    rcases ((traversable_iff s n a).1 h).2 with e | ⟨e, _⟩
    · exact absurd e h1
    · exact absurd e h2

/-- **Attack surface** = the traversable children of the reached steps -/
theorem surface_mem (s : H) (a : ARef) (x : NRef) :
    x ∈ get_attack_surface s a ↔
      ∃ r ∈ (s.a a).reached_attack_steps, x ∈ (s.n r).children ∧ is_node_traversable_by_attacker s x a = true := by
  rw [attack_surface_tie s a 0 0, MalVerif.C12.surface_mem, traversable_tie s x a 0 0]
  rfl

/-- … without duplicates -/
theorem surface_nodup (s : H) (a : ARef) : (get_attack_surface s a).Nodup := by
  rw [attack_surface_tie s a 0 0]; exact MalVerif.C12.surface_nodup _ _

theorem update_mem (s : H) (a : ARef) (cur nodes : List NRef) (x : NRef) :
    x ∈ update_attack_surface_add_nodes s a cur nodes ↔
      x ∈ cur ∨ ∃ r ∈ nodes, x ∈ (s.n r).children ∧ is_node_traversable_by_attacker s x a = true := by
  rw [update_attack_surface_tie s a cur nodes 0 0, MalVerif.C12.update_mem, traversable_tie s x a 0 0]
  rfl

theorem update_nodup (s : H) (a : ARef) (cur nodes : List NRef) (h : cur.Nodup) :
    (update_attack_surface_add_nodes s a cur nodes).Nodup := by
  rw [update_attack_surface_tie s a cur nodes 0 0]; exact MalVerif.C12.update_nodup _ _ _ _ h

/-- the abstraction commutes with a batch of compromises -/
theorem absS_foldl_compromise (a : ARef) (N : List NRef) (s : H) (nf af : Nat) :
    absS (N.foldl (fun s n => attacker_compromise s a n) s) nf af =
      N.foldl (fun s n => compromise s a n) (absS s nf af) := by
  induction N generalizing s with
  | nil => rfl
  | cons m rest ih => simp only [List.foldl_cons]; rw [ih, compromise_tie]

/-- **Incremental = recomputed**: compute the surface, let the attacker compromise the nodes `N` one after the
other, update the old surface with `N` — the result has the same members as a fresh computation.  The two
hypotheses are the mirror relation of C11 and the converse child/parent lists of C09 in the start heap. -/
theorem update_after_compromises (s : H) (a : ARef) (N : List NRef)
    (hmir : ∀ b x, x ∈ (s.a b).reached_attack_steps ↔ b ∈ (s.n x).compromised_by)
    (hconv : ∀ p c, c ∈ (s.n p).children ↔ p ∈ (s.n c).parents) :
    let s' := N.foldl (fun s n => attacker_compromise s a n) s
    ∀ x, x ∈ update_attack_surface_add_nodes s' a (get_attack_surface s a) N ↔ x ∈ get_attack_surface s' a := by
  intro s' x
  rw [update_attack_surface_tie s' a _ N 0 0, attack_surface_tie s a 0 0, attack_surface_tie s' a 0 0]
  show x ∈ updateSurface (absS (N.foldl (fun s n => attacker_compromise s a n) s) 0 0) a _ N ↔
    x ∈ surface (absS (N.foldl (fun s n => attacker_compromise s a n) s) 0 0) a
  rw [absS_foldl_compromise]
  exact MalVerif.C12.update_after_compromises (absS s 0 0) a N hmir hconv x

/-! ### defense surface / enabled defenses -/

theorem defense_surface_mem (s : H) (r : NRef) :
    r ∈ get_defense_surface s ↔ r ∈ s.nodes ∧ (s.n r).type = "defense" ∧ "suppress" ∉ (s.n r).tags ∧
      optEq1 (s.n r).defense_status = false := by
  show r ∈ s.nodes.filter (fun node => ((s.n node).type == "defense") && !((s.n node).tags).contains "suppress"
    && !(optEq1 (s.n node).defense_status)) ↔ _
  simp [List.mem_filter, and_assoc]

theorem enabled_defenses_mem (s : H) (r : NRef) :
    r ∈ get_enabled_defenses s ↔ r ∈ s.nodes ∧ (s.n r).type = "defense" ∧ "suppress" ∉ (s.n r).tags ∧
      optEq1 (s.n r).defense_status = true := by
  show r ∈ s.nodes.filter (fun node => ((s.n node).type == "defense") && !((s.n node).tags).contains "suppress"
    && (optEq1 (s.n node).defense_status)) ↔ _
  simp [List.mem_filter, and_assoc]

/-- every non-suppressed defense of the graph is in exactly one of the two -/
theorem defenses_partition (s : H) (r : NRef) (hr : r ∈ s.nodes)
    (ht : (s.n r).type = "defense") (hs : "suppress" ∉ (s.n r).tags) :
    (r ∈ get_defense_surface s ∧ r ∉ get_enabled_defenses s) ∨
      (r ∉ get_defense_surface s ∧ r ∈ get_enabled_defenses s) := by
  rw [defense_surface_mem, enabled_defenses_mem]
  cases hd : optEq1 (s.n r).defense_status <;> simp [hr, ht, hs]

/-! ### `queries_pure`

**Purity.**  `is_node_traversable_by_attacker`, `get_attack_surface`, `update_attack_surface_add_nodes`,
`get_defense_surface` and `get_enabled_defenses` are translated to functions that return a `Bool` / a list and
*not* a heap: the translator emits a heap result for every Python function that assigns to an attribute (or calls
one that does), so the types of the generated functions already say that the queries leave the graph unchanged —
no theorem is needed. -/

/-! ### non-vacuity -/

/-- two 'or' steps `0`, `1` with the common 'and' child `2`, a disabled defense `3`; attacker `0` has reached `0` -/
def demo : H where
  n := fun r => match r with
    | 0 => { type := "or", name := "a", children := [2], compromised_by := [0] }
    | 1 => { type := "or", name := "b", children := [2] }
    | 2 => { type := "and", name := "c", parents := [0, 1] }
    | 3 => { type := "defense", name := "d", defense_status := some { text := "0.0", cls := .zero } }
    | _ => {}
  a := fun r => match r with
    | 0 => { name := "att", entry_points := [0], reached_attack_steps := [0] }
    | _ => {}
  nodes := [0, 1, 2, 3]
  attackers := [0]

example : ∀ b x, x ∈ (demo.a b).reached_attack_steps ↔ b ∈ (demo.n x).compromised_by := by
  intro b x
  rcases b with _ | b <;> rcases x with _ | _ | _ | _ | x <;> simp [demo]
example : ∀ p c, c ∈ (demo.n p).children ↔ p ∈ (demo.n c).parents := by
  intro p c
  rcases p with _ | _ | _ | _ | p <;> rcases c with _ | _ | _ | _ | c <;> simp [demo]

/-- the 'and' step 2 is not in the surface before its second necessary parent is compromised, and is afterwards -/
example : get_attack_surface demo 0 = [] ∧
    get_attack_surface (attacker_compromise demo 0 1) 0 = [2] ∧
    update_attack_surface_add_nodes (attacker_compromise demo 0 1) 0 (get_attack_surface demo 0) [1] = [2] ∧
    get_defense_surface demo = [3] ∧ get_enabled_defenses demo = [] := by
  decide

end MalVerif.PropsGen.C12
