import MalVerif.Py.TieLegacyOld
import MalVerif.Py.TieLegacyScad
import MalVerif.Py.TieLegacyScadAgree
import MalVerif.Props.C18
/-!
# C18 for the *translated* legacy loaders

*A model written in the 0.0.39 file layout, or exported as a securiCAD .sCAD archive, loads to the same assets (ids,
names, types, defense values), the same pairwise links and the same attacker entry points as the equivalent native
model file.*

The functions below are GENERATED from the current `maltoolbox/translators/updater.py`
(`MalVerif/Py/GenLegacy/Updater.lean`); they call the generated `model.py` (`MalVerif/Py/GenModel`).  The document
handed to the loader is the value `json.loads` / `yaml.safe_load` return (`PyLeg.PyJ`); `encOld nested name d` is the
0.0.39 file for the typed document `d` (`AbsLegacy.lean`; `nested`: associations as `{metaconcept, association: {…}}`
or flat), `Legacy.emitOld` the typed 0.0.39 document for a native document (`Model/Legacy.lean`).
`okSt r` is the abstraction (`PyM.abs`) of the model a loader returns, `none` when it raises.

* `old_loader_refines`: the translated `_process_model` on a well-formed 0.0.39 document = the hand-written
  `Legacy.loadOld` (same model, and it raises exactly when `loadOld` rejects);
* `old_loader_agrees_with_native` (the property): on the 0.0.39 file of a native document without extras it returns
  the model the native loader (`Ser.fromDoc`, tied to `Model._from_dict` by the correspondence check of C07) returns
  for that document, and raises exactly when the native loader rejects — `old_loader_same_model` spells this out for
  assets (id, name, type, defense values), links (class, fields, member ids) and attackers (id, name, entry points);
* `old_loader_from_file_json` / `_yaml`, `old_loader_unknown_version`, `old_loader_unknown_extension`: the three
  functions around `_process_model` (file layer, dispatch);
* the hypotheses: `OldWf` (the typed document is a dictionary structure: distinct defense keys per asset, distinct
  field names per association — in the flat layout also different from `metaconcept` / `association` —, distinct
  attacker keys, distinct entry-point keys; and no association lists its two fields in the order opposite to the
  class declaration), `DefsOkOf` (the range-check oracle of the hand model is the per-value check of the factory),
  `EqId` (pjs `==` relates no two different objects), `FieldsDistinct`, the unrolling bound of the renaming loop of
  `add_asset`; `old_loader_swapped_fields_counterexample` shows that `notSwapped` is needed (the Python accepts
  what `loadOld` rejects); `old_loader_unknown_entry_point_unmodelled` marks the one place where a result of the
  translation says nothing about the Python (`(None, steps)` tuples).
* securiCAD: `scad_loader_refines` / `scad_loader_error_class` (translated `load_model_from_scad_archive` = `Legacy.loadScad`,
  outcome by outcome, with the exception class); **`scad_loader_agrees_with_native`** (the property): for every native
  model state `s` the archive can express, the translated loader on `emitScad s` and the native loader on `toDoc s` both
  return a model, with the same assets (`scad_loader_assets_agree`), the same pairwise links (`scad_loader_links_agree`)
  and the same attacker entry points (`scad_loader_entry_points_agree`); `…_reachable` after any history.  The
  agreement lemmas of the hand model are re-proved from any start state without live objects
  (`Py/TieLegacyScadEmit.lean`), which is how the start state `abs (emptyModel path)` of the tie meets the `{}` of
  `Props/C18.lean`; observations are compared through the views (`ScadAgrees`, `Py/TieLegacyScadAgree.lean`).
* The exception CLASS: `old_loader_error_class` (0.0.39: the class map of the `model` domain or one of eight listed,
  witnessed pairs — `old_error_classes`, `old_loader_class_disagreements`) and `scad_loader_error_class` (securiCAD: the
  class map, `return None` = `lookupError`, and the single pair `unmodelled` / `validation`).
* The image conditions: `old_wf_of_saved_model`, `scad_objWf_of_saved_model` (`OldWf`, `DefsOkOf`, `NoExtras`, `ObjWf` hold
  for everything written for a coherent model), `old_loader_agrees_on_saved_model` (0.0.39 with no document hypothesis
  left), `scad_emit_empty_defense_counterexample` (`NoEmptyDefName` is needed).
* Start state: the hand-written loaders are run from the state the empty heap stands for
  (`loadOldFrom … (abs (emptyModel name))`, `fromDocFrom …`), which differs from `({} : MS.St)` only in store cells
  that are never allocated (`init_lists`); `loadOldFrom L ok {} = loadOld L ok`, `fromDocFrom L ok {} = fromDoc L ok` by `rfl`.
-/
namespace MalVerif.PropsGen.C18
open MalVerif MalVerif.PyM MalVerif.PyM.Gen MalVerif.PyM.Tie MalVerif.PyLeg MalVerif.PyLeg.Gen MalVerif.PyLeg.Tie
open MalVerif.Legacy MalVerif.Ser

/-- **the translated 0.0.39 loader is `Legacy.loadOld`.**  On the file of a well-formed typed document the translated
`_process_model` returns a model whose abstraction is the state `loadOld` computes, and raises iff `loadOld` rejects. -/
theorem old_loader_refines {env : ModelEnv} (hE : EqId env) (files : Files) (fac : Factory) (hL : FieldsDistinct fac.L)
    (defsOk : Key → Bool) (nested : Bool) (name : String) (d : OldDoc) (hwf : OldWf fac.L nested d)
    (hdefs : DefsOkOf fac d defsOk) (hfuel : d.assets.length ≤ env.whileFuel) :
    okSt (updater_process_model files env (encOld nested name d) fac) =
      optSt (loadOldFrom fac.L defsOk (abs (emptyModel name)) d) :=
  process_model_tie hE files fac hL defsOk nested name d hwf hdefs hfuel

/-- the start state is the empty model; `loadOldFrom` / `fromDocFrom` from `{}` are `loadOld` / `fromDoc` -/
theorem init_lists (name : String) :
    (abs (emptyModel name)).assets = [] ∧ (abs (emptyModel name)).associations = [] ∧
    (abs (emptyModel name)).attackers = [] ∧ (abs (emptyModel name)).assetIds = [] ∧
    (abs (emptyModel name)).assetNames = [] ∧ (abs (emptyModel name)).typeToAssoc = [] ∧
    (abs (emptyModel name)).nextId = 0 ∧ (abs (emptyModel name)).afresh = 0 ∧ (abs (emptyModel name)).lfresh = 0 ∧
    (abs (emptyModel name)).tfresh = 0 ∧
    (∀ L ok d, loadOldFrom L ok {} d = loadOld L ok d) ∧ (∀ L ok d, PyLeg.fromDocFrom L ok {} d = fromDoc L ok d) :=
  ⟨rfl, rfl, rfl, rfl, rfl, rfl, rfl, rfl, rfl, rfl, fun _ _ _ => rfl, fun _ _ _ => rfl⟩

/-- **C18, 0.0.39 layout.**  For a native document `d` without extras: the translated 0.0.39 loader, on the 0.0.39
file of `d`, returns the model the native loader returns for `d`, and raises exactly when the native loader rejects `d`. -/
theorem old_loader_agrees_with_native {env : ModelEnv} (hE : EqId env) (files : Files) (fac : Factory)
    (hL : FieldsDistinct fac.L) (defsOk : Key → Bool) (nested : Bool) (name : String) (d : ModelDoc) (hx : NoExtras d)
    (hwf : OldWf fac.L nested (emitOld d)) (hdefs : DefsOkOf fac (emitOld d) defsOk)
    (hfuel : d.assets.length ≤ env.whileFuel) :
    okSt (updater_process_model files env (encOld nested name (emitOld d)) fac) =
      optSt (PyLeg.fromDocFrom fac.L defsOk (abs (emptyModel name)) d) := by
  rw [← loadOldFrom_emitOld fac.L defsOk _ d hx]
  exact old_loader_refines hE files fac hL defsOk nested name (emitOld d) hwf hdefs
    (by rw [emitOld_eq]; simpa using hfuel)

/-- … spelled out: whenever one of the two loaders returns a model, so does the other, with the same assets (id, name,
type, value of every defense, extras), the same associations (class, field names, member ids) and the same attackers
(id, name, entry points by asset id and step names), in the same order. -/
theorem old_loader_same_model {env : ModelEnv} (hE : EqId env) (files : Files) (fac : Factory)
    (hL : FieldsDistinct fac.L) (defsOk : Key → Bool) (nested : Bool) (name : String) (d : ModelDoc) (hx : NoExtras d)
    (hwf : OldWf fac.L nested (emitOld d)) (hdefs : DefsOkOf fac (emitOld d) defsOk)
    (hfuel : d.assets.length ≤ env.whileFuel) :
    (∀ s', updater_process_model files env (encOld nested name (emitOld d)) fac = .ok s' →
      ∃ s0, PyLeg.fromDocFrom fac.L defsOk (abs (emptyModel name)) d = .ok s0 ∧ SameModel fac.L (abs s') s0) ∧
    (∀ s0, PyLeg.fromDocFrom fac.L defsOk (abs (emptyModel name)) d = .ok s0 →
      ∃ s', updater_process_model files env (encOld nested name (emitOld d)) fac = .ok s' ∧ SameModel fac.L (abs s') s0) ∧
    ((∃ e, updater_process_model files env (encOld nested name (emitOld d)) fac = .error e) ↔
      (∃ e, PyLeg.fromDocFrom fac.L defsOk (abs (emptyModel name)) d = .error e)) := by
  have h := old_loader_agrees_with_native hE files fac hL defsOk nested name d hx hwf hdefs hfuel
  cases h1 : updater_process_model files env (encOld nested name (emitOld d)) fac with
  | ok s' =>
    cases h2 : PyLeg.fromDocFrom fac.L defsOk (abs (emptyModel name)) d with
    | ok s0 =>
      rw [h1, h2] at h
      have e : abs s' = s0 := by injection h
      subst e
      refine ⟨fun s'' hs => ?_, fun s0 hs0 => ?_, ?_⟩
      · injection hs with hs; subst hs; exact ⟨_, rfl, by constructor <;> rfl⟩
      · injection hs0 with hs0; subst hs0; exact ⟨_, rfl, by constructor <;> rfl⟩
      · constructor <;> (rintro ⟨e, he⟩; cases he)
    | error e0 => rw [h1, h2] at h; cases h
  | error e =>
    cases h2 : PyLeg.fromDocFrom fac.L defsOk (abs (emptyModel name)) d with
    | ok s0 => rw [h1, h2] at h; cases h
    | error e0 =>
      refine ⟨fun s'' hs => (by cases hs), fun s0 hs0 => (by cases hs0), ?_⟩
      exact ⟨fun _ => ⟨e0, rfl⟩, fun _ => ⟨e, rfl⟩⟩

/-- `load_model_from_older_version(filename, factory, '0.0.39')` on a `.json` file whose content is `md`: the
translated `_process_model` on `md` -/
theorem old_loader_from_file_json (files : Files) (env : ModelEnv) (filename : String) (fac : Factory) (md : PyJ)
    (hy1 : filename.endsWith ".yml" = false) (hy2 : filename.endsWith ".yaml" = false)
    (hj : filename.endsWith ".json" = true) (hfile : files.json filename = .ok md) :
    updater_load_model_from_older_version files env filename fac "0.0.39" = updater_process_model files env md fac :=
  older_version_json files env filename fac md hy1 hy2 hj hfile

/-- … on a `.yml` / `.yaml` file -/
theorem old_loader_from_file_yaml (files : Files) (env : ModelEnv) (filename : String) (fac : Factory) (md : PyJ)
    (hy : (filename.endsWith ".yml" || filename.endsWith ".yaml") = true) (hfile : files.yaml filename = .ok md) :
    updater_load_model_from_older_version files env filename fac "0.0.39" = updater_process_model files env md fac :=
  older_version_yaml files env filename fac md hy hfile

/-- any other version string: `ValueError` -/
theorem old_loader_unknown_version (files : Files) (env : ModelEnv) (filename : String) (fac : Factory)
    (version : String) (hv : version ≠ "0.0.39") :
    updater_load_model_from_older_version files env filename fac version = .error (.py .valueError) :=
  older_version_unknown files env filename fac version hv

/-- a file name with another extension: `ValueError` -/
theorem old_loader_unknown_extension (files : Files) (env : ModelEnv) (filename : String) (fac : Factory)
    (hy1 : filename.endsWith ".yml" = false) (hy2 : filename.endsWith ".yaml" = false)
    (hj : filename.endsWith ".json" = false) :
    updater_load_model_from_older_version files env filename fac "0.0.39" = .error (.py .valueError) :=
  older_version_unknown_extension files env filename fac hy1 hy2 hj

/-! ### non-vacuity and the limits, on the sample language of `Props/C18.lean` -/

def demoEnv : ModelEnv := { eqA := fun _ _ => false, eqL := fun _ _ => false, whileFuel := 8 }
def demoFac : Factory := { L := Legacy.Sample.lang, floatOk := fun t => t == "0.0" || t == "1.0" || t == "0.5" }
def demoFiles : Files :=
  { json := fun _ => .error .unmodelled, yaml := fun _ => .error .unmodelled, eom := fun _ => .error .unmodelled }

theorem demoEnv_eqId : EqId demoEnv := ⟨fun _ _ h => (by cases h), fun _ _ h => (by cases h)⟩
theorem demo_fieldsDistinct : FieldsDistinct demoFac.L := by
  intro c hc
  have : c ∈ MS.assocClasses Legacy.Sample.lang := hc
  revert c
  decide

/-- a native document with a non-default defense value, a shorthand entry with a negative id, a link and an attacker
with two steps on one asset -/
def demoDoc : ModelDoc :=
  { assets := [(.i 5, .full "h" "Host" [("patched", "1.0")] none), (.i (-3), .shorthand "Net")],
    associations := [{ cls := "NetCon", lf := "hosts", left := [.i 5], rf := "nets", right := [.i (-3)] }],
    attackers := [(.i 9, { name := "eve", entry := [(.i 5, ["access", "connect"])] })] }

theorem demo_wf (nested : Bool) : OldWf demoFac.L nested (emitOld demoDoc) := by
  refine ⟨by decide, ?_, by decide, by decide⟩
  intro a ha
  have : a = { metaconcept := "NetCon", lf := "hosts", left := [.i 5], rf := "nets", right := [.i (-3)] } := by
    simpa [emitOld, demoDoc] using ha
  subst this
  refine ⟨by decide, fun _ => by decide, ?_⟩
  intro c hc
  have h : (MS.assocClasses Legacy.Sample.lang).find? (·.cls = "NetCon") =
      some ⟨"NetCon", "hosts", "Host", none, "nets", "Net", none⟩ := by decide
  have : c = ⟨"NetCon", "hosts", "Host", none, "nets", "Net", none⟩ := by
    have hc' : (MS.assocClasses Legacy.Sample.lang).find? (·.cls = "NetCon") = some c := hc
    rw [h] at hc'; injection hc' with hc'; exact hc'.symm
  subst this
  decide

/-- the hypotheses of `old_loader_agrees_with_native` hold for it, in both layouts -/
example (nested : Bool) : EqId demoEnv ∧ FieldsDistinct demoFac.L ∧ NoExtras demoDoc ∧
    OldWf demoFac.L nested (emitOld demoDoc) ∧ DefsOkOf demoFac (emitOld demoDoc) (fun _ => true) ∧
    demoDoc.assets.length ≤ demoEnv.whileFuel :=
  ⟨demoEnv_eqId, demo_fieldsDistinct, by decide, demo_wf nested,
   (show ∀ e ∈ (emitOld demoDoc).assets, _ = _ from by decide), by decide⟩

/-- … and the translated loader returns what one expects (nested and flat layout): ids 5 and −3, the shorthand name `Net:-3`, the explicit defense value, the link by ids, the attacker with one tuple -/
example : ∀ nested : Bool,
    loadsWith (updater_process_model demoFiles demoEnv (encOld nested "m" (emitOld demoDoc)) demoFac) (fun s =>
      decide (s.name = "m") &&
      decide ((abs s).assets.map (assetView Legacy.Sample.lang (abs s)) =
          [⟨5, "h", "Host", [("patched", "1.0")], "{}"⟩, ⟨-3, "Net:-3", "Net", [], "{}"⟩]) &&
      decide ((abs s).associations.map (assocView (abs s)) = [⟨"NetCon", "hosts", [5], "nets", [-3], "{}"⟩]) &&
      decide ((abs s).attackers.map (attView (abs s)) = [⟨9, "eve", [(5, ["access", "connect"])]⟩])) = true := by
  intro nested
  cases nested <;> decide +kernel

/-- **`notSwapped` is needed.**  An association entry that lists its two fields in the order opposite to the class
declaration (`nets` before `hosts`) is loaded by the translated code (Python assigns by field NAME), while
`Legacy.loadOld` rejects it (it compares the first field of the entry with the left field of the class). -/
theorem old_loader_swapped_fields_counterexample :
    let d : OldDoc := { assets := [(.i 1, .full "h" "Host" [] ), (.i 2, .shorthand "Net")],
                        associations := [{ metaconcept := "NetCon", lf := "nets", left := [.i 2], rf := "hosts", right := [.i 1] }] }
    (∃ s, updater_process_model demoFiles demoEnv (encOld true "m" d) demoFac = .ok s ∧
      (abs s).associations.map (assocView (abs s)) = [⟨"NetCon", "hosts", [1], "nets", [2], "{}"⟩]) ∧
    loadOld Legacy.Sample.lang (fun _ => true) d = .error .validation ∧
    ¬ (∀ a ∈ d.associations, ∀ c, (MS.assocClasses Legacy.Sample.lang).find? (·.cls = a.metaconcept) = some c →
        ¬ (a.lf = c.rf ∧ a.rf = c.lf)) := by
  refine ⟨?_, rejects_eq (by decide +kernel), ?_⟩
  · have h : loadsWith (updater_process_model demoFiles demoEnv (encOld true "m"
        { assets := [(.i 1, .full "h" "Host" [] ), (.i 2, .shorthand "Net")],
          associations := [{ metaconcept := "NetCon", lf := "nets", left := [.i 2], rf := "hosts", right := [.i 1] }] }) demoFac)
        (fun s => decide ((abs s).associations.map (assocView (abs s)) = [⟨"NetCon", "hosts", [1], "nets", [2], "{}"⟩])) = true := by
      decide +kernel
    obtain ⟨s, hs, hp⟩ := loadsWith_iff.1 h
    exact ⟨s, hs, of_decide_eq_true hp⟩
  · intro h
    exact h _ List.mem_cons_self ⟨"NetCon", "hosts", "Host", none, "nets", "Net", none⟩ (by decide) ⟨rfl, rfl⟩

/-- **outside the model.**  An entry point for an asset id that is not in the file: Python stores the tuple
`(None, steps)` and does not raise; such a tuple has no representation in the heap, the translated code stops with
`unmodelled` (and the hand-written loaders answer `lookupError`).  No theorem above says anything about such files. -/
theorem old_loader_unknown_entry_point_unmodelled :
    let d : OldDoc := { assets := [(.i 1, .full "h" "Host" [])],
                        attackers := [(.i 3, { name := "eve", entry := [(.i 7, ["access"])] })] }
    updater_process_model demoFiles demoEnv (encOld true "m" d) demoFac = .error .unmodelled ∧
    loadOld Legacy.Sample.lang (fun _ => true) d = .error .lookupError := by
  exact ⟨raisesL_eq (by decide +kernel), rejects_eq (by decide +kernel)⟩


/-! ### 0.0.39: the exception class -/

/-- **the translated 0.0.39 loader and `Legacy.loadOld`, with the exception class.**  The translated `_process_model` returns a
model ⇒ `loadOld` computes its abstraction; it raises `e` ⇒ `loadOld` rejects with an error `er` such that `OldErrAgree e er`:
the class `e` stands for (`oldErrAbs`, the class map of the `model` domain: `ValueError ↦ valueError`, `LookupError ↦
lookupError`, pjs `ValidationError ↦ validation`, `DuplicateModelAssociationError`, `ModelAssociationException`; every
class the hand model does not have — `AttributeError`, `KeyError`, … — ↦ `validation`) or one of the EIGHT listed pairs
(`old_error_classes`), each of which is realised (`old_loader_class_disagreements`). -/
theorem old_loader_error_class {env : ModelEnv} (hE : EqId env) (files : Files) (fac : Factory) (hL : FieldsDistinct fac.L)
    (defsOk : Key → Bool) (nested : Bool) (name : String) (d : OldDoc) (hwf : OldWf fac.L nested d)
    (hdefs : DefsOkOf fac d defsOk) (hfuel : d.assets.length ≤ env.whileFuel) :
    match updater_process_model files env (encOld nested name d) fac with
    | .ok s' => loadOldFrom fac.L defsOk (abs (emptyModel name)) d = .ok (abs s')
    | .error e => ∃ er, loadOldFrom fac.L defsOk (abs (emptyModel name)) d = .error er ∧ OldErrAgree e er :=
  process_model_tie_class hE files fac hL defsOk nested name d hwf hdefs hfuel

/-- what `OldErrAgree` allows beyond the class map: exactly eight pairs, none of which is an agreement of classes -/
theorem old_error_classes (e : LErr) (er : MS.Err) :
    (OldErrAgree e er ↔ oldErrAbs e = some er ∨
      (e, er) ∈ [(.unmodelled, .validation), (.unmodelled, .lookupError), (.unmodelled, .valueError),
                 (.py .attributeError, .lookupError), (.py .attributeError, .valueError), (.validation, .valueError),
                 (.py .valueError, .validation), (.py .valueError, .lookupError)]) ∧
    (∀ p ∈ [((.unmodelled : LErr), (.validation : MS.Err)), (.unmodelled, .lookupError), (.unmodelled, .valueError),
           (.py .attributeError, .lookupError), (.py .attributeError, .valueError), (.validation, .valueError),
           (.py .valueError, .validation), (.py .valueError, .lookupError)], oldErrAbs p.1 ≠ some p.2) :=
  ⟨oldErrAgree_iff e er, oldErr_disagreements_genuine⟩

/-- **every one of the eight pairs occurs**, on a well-formed document (inside the hypotheses of `old_loader_error_class`),
on the sample language: single faults — an unknown asset class (`AttributeError` / `lookupError`), a member id that is not a
number (`ValueError` / `validation`), an entry-point id that is not a number (`ValueError` / `lookupError`); the Python
does not raise — a `defenses` key that is not a defense (`unmodelled` / `validation`), an entry point for an unknown asset
(`unmodelled` / `lookupError`); two faults in one entry, the hand model converts the key first — unknown class, bad value,
unknown defense, each under a key that is not a number (… / `valueError`).  `k` is any key with `k.toInt? = none` that is
`keyPlain` (not a text CPython's `int` accepts although `String.toInt?` refuses it: those are `unmodelled`). -/
theorem old_loader_class_disagreements (k : Key) (hk : k.toInt? = none) (hp : PyLeg.keyPlain k = true) :
    (∃ d ok e er, (OldWf clsFac.L true d ∧ DefsOkOf clsFac d ok) ∧
      updater_process_model clsFiles clsEnv (encOld true "m" d) clsFac = .error e ∧
      loadOld Legacy.Sample.lang ok d = .error er ∧ e = .py .attributeError ∧ er = .lookupError) ∧
    (∃ d ok e er, (OldWf clsFac.L true d ∧ DefsOkOf clsFac d ok) ∧
      updater_process_model clsFiles clsEnv (encOld true "m" d) clsFac = .error e ∧
      loadOld Legacy.Sample.lang ok d = .error er ∧ e = .py .valueError ∧ er = .validation) ∧
    (∃ d ok e er, (OldWf clsFac.L true d ∧ DefsOkOf clsFac d ok) ∧
      updater_process_model clsFiles clsEnv (encOld true "m" d) clsFac = .error e ∧
      loadOld Legacy.Sample.lang ok d = .error er ∧ e = .py .valueError ∧ er = .lookupError) ∧
    (∃ d ok e er, (OldWf clsFac.L true d ∧ DefsOkOf clsFac d ok) ∧
      updater_process_model clsFiles clsEnv (encOld true "m" d) clsFac = .error e ∧
      loadOld Legacy.Sample.lang ok d = .error er ∧ e = .unmodelled ∧ er = .validation) ∧
    (∃ d ok e er, (OldWf clsFac.L true d ∧ DefsOkOf clsFac d ok) ∧
      updater_process_model clsFiles clsEnv (encOld true "m" d) clsFac = .error e ∧
      loadOld Legacy.Sample.lang ok d = .error er ∧ e = .unmodelled ∧ er = .lookupError) ∧
    (∃ d ok e er, (OldWf clsFac.L true d ∧ DefsOkOf clsFac d ok) ∧
      updater_process_model clsFiles clsEnv (encOld true "m" d) clsFac = .error e ∧
      loadOld Legacy.Sample.lang ok d = .error er ∧ e = .py .attributeError ∧ er = .valueError) ∧
    (∃ d ok e er, (OldWf clsFac.L true d ∧ DefsOkOf clsFac d ok) ∧
      updater_process_model clsFiles clsEnv (encOld true "m" d) clsFac = .error e ∧
      loadOld Legacy.Sample.lang ok d = .error er ∧ e = .validation ∧ er = .valueError) ∧
    (∃ d ok e er, (OldWf clsFac.L true d ∧ DefsOkOf clsFac d ok) ∧
      updater_process_model clsFiles clsEnv (encOld true "m" d) clsFac = .error e ∧
      loadOld Legacy.Sample.lang ok d = .error er ∧ e = .unmodelled ∧ er = .valueError) := by
  refine ⟨?_, ?_, ?_, ?_, ?_, ?_, ?_, ?_⟩
  · obtain ⟨a, b, c⟩ := old_class_unknown_asset_class; exact ⟨_, _, _, _, a, b, c, rfl, rfl⟩
  · obtain ⟨a, b, c⟩ := old_class_member_not_int k hk hp; exact ⟨_, _, _, _, a, b, c, rfl, rfl⟩
  · obtain ⟨a, b, c⟩ := old_class_entry_point_not_int k hk hp; exact ⟨_, _, _, _, a, b, c, rfl, rfl⟩
  · obtain ⟨a, b, c⟩ := old_class_unknown_defense; exact ⟨_, _, _, _, a, b, c, rfl, rfl⟩
  · obtain ⟨a, b, c⟩ := old_class_unknown_entry_point; exact ⟨_, _, _, _, a, b, c, rfl, rfl⟩
  · obtain ⟨a, b, c⟩ := old_class_unknown_asset_class_bad_key k hk; exact ⟨_, _, _, _, a, b, c, rfl, rfl⟩
  · obtain ⟨a, b, c⟩ := old_class_bad_defense_value_bad_key k hk; exact ⟨_, _, _, _, a, b, c, rfl, rfl⟩
  · obtain ⟨a, b, c⟩ := old_class_unknown_defense_bad_key k hk; exact ⟨_, _, _, _, a, b, c, rfl, rfl⟩

/-! ### securiCAD -/

/-- **the translated securiCAD loader is `Legacy.loadScad`.**  For a parsed archive `d` (`files.eom path`): the translated
`load_model_from_scad_archive` returns a model (not `None`) whose abstraction is the state `loadScad` computes, and
returns `None` or raises exactly when `loadScad` rejects the archive.  `lg` (the language graph's
`get_association_by_fields_and_assets`, translated and tied in the domain `lang`) is a parameter with its
specification `LgSpec` (= `LG.lookupAssoc`) as hypothesis; `ObjWf`: per object, the decapitalised evidence names are
distinct, the range-check oracle is the factory's, no evidence attribute has the empty name unless no defense has. -/
theorem scad_loader_refines (files : Files) {env : ModelEnv} (hE : EqId env) (fac : Factory) (lg : LangGraphView)
    (nodes : List AssocDecl) (defsOk : Int → Bool) (path : String) (d : ScadDoc) (hF : FieldsDistinct fac.L)
    (hd : ClassNamesDistinct fac.L) (hnodes : ∀ a ∈ nodes, a ∈ fac.L.assocs) (hlg : LgSpec fac.L nodes lg)
    (hfile : files.eom path = .ok d) (hwf : ∀ o ∈ d.objects, ObjWf fac defsOk o)
    (hfuel : d.objects.length ≤ env.whileFuel) :
    (match securicad_load_model_from_scad_archive files env path lg fac with
     | .ok (some s') => some (abs s') | _ => none) =
      optSt (loadScadFrom fac.L nodes defsOk (abs (emptyModel path)) d) :=
  scad_loader_sim files hE fac lg nodes defsOk path d hF hd hnodes hlg hfile hwf hfuel

/-- `loadScadFrom` from `{}` is `loadScad` -/
theorem scad_init (L : Lang) (nodes : List AssocDecl) (defsOk : Int → Bool) (d : ScadDoc) :
    loadScadFrom L nodes defsOk {} d = loadScad L nodes defsOk d := rfl

/-- **`ObjWf.noEmpty` is needed**: an evidence attribute with the empty name makes the Python raise `IndexError`
(`name[0]`), while the hand-written `loadScadObject` reads the defense `""` (which a class may have) -/
theorem scad_empty_evidence_name_counterexample :
    scadObjectBody cexEnv cexFac cexObj (none, {}) = .error (.py .other) ∧
    ∃ st, loadScadObject cexLang (fun _ => true) (abs {}) cexObj = .ok st :=
  ⟨cex_python_raises, cex_hand_accepts⟩

/-- the language graph view that answers with `LG.lookupAssoc` -/
def demoLg (L : Lang) (nodes : List AssocDecl) : LangGraphView :=
  ⟨fun f1 f2 t1 t2 => match LG.lookupAssoc L nodes f1 f2 t1 t2 with
    | .ok r => .ok r | .error _ => .error (.py .lookupError)⟩

def demoScadFiles : Files :=
  { json := fun _ => .error .unmodelled, yaml := fun _ => .error .unmodelled,
    eom := fun _ => .ok (emitScad Legacy.Sample.lang Legacy.Sample.st) }

/-- the hypotheses of `scad_loader_refines` hold for the archive written for `Legacy.Sample.st` (ids 5, −3, 0; a link with
two left members and a self-link; an attacker with two steps on one asset) -/
example : EqId demoEnv ∧ FieldsDistinct demoFac.L ∧ ClassNamesDistinct demoFac.L ∧
    (∀ a ∈ Legacy.Sample.lang.assocs, a ∈ demoFac.L.assocs) ∧
    LgSpec demoFac.L Legacy.Sample.lang.assocs (demoLg demoFac.L Legacy.Sample.lang.assocs) ∧
    demoScadFiles.eom "m.sCAD" = .ok (emitScad Legacy.Sample.lang Legacy.Sample.st) ∧
    (∀ o ∈ (emitScad Legacy.Sample.lang Legacy.Sample.st).objects, ObjWf demoFac (fun _ => true) o) ∧
    (emitScad Legacy.Sample.lang Legacy.Sample.st).objects.length ≤ demoEnv.whileFuel := by
  refine ⟨demoEnv_eqId, demo_fieldsDistinct, by decide, fun a ha => ha, fun _ _ _ _ => rfl, rfl, ?_, by decide +kernel⟩
  have h : ∀ o ∈ (emitScad Legacy.Sample.lang Legacy.Sample.st).objects,
      (o.defenses.map (fun d => decap d.1)).Nodup ∧
      (fun _ => true) o.id = o.defenses.all (fun d => demoFac.floatOk d.2) ∧
      (∀ d ∈ o.defenses, d.1 = "" → (MS.defensesOf demoFac.L o.metaConcept).any (·.1 = "") = false) := by
    decide +kernel
  exact fun o ho => ⟨(h o ho).1, (h o ho).2.1, (h o ho).2.2⟩

/-- … and the translated loader returns what one expects: the negative id, the non-default defense value, the link with
two left members as two binary associations, the attacker named `Attacker:9` with one tuple per asset -/
example : loadsWithO (securicad_load_model_from_scad_archive demoScadFiles demoEnv "m.sCAD"
      (demoLg Legacy.Sample.lang Legacy.Sample.lang.assocs) demoFac) (fun s =>
    decide (s.name = "m.sCAD") &&
    decide ((abs s).assets.map (assetView Legacy.Sample.lang (abs s)) =
      [⟨5, "h", "Host", [("patched", "1.0")], "{}"⟩, ⟨-3, "Net:-3", "Net", [], "{}"⟩, ⟨0, "g", "Host", [("patched", "0.0")], "{}"⟩]) &&
    decide ((abs s).associations.map (assocView (abs s)) =
      [⟨"NetCon", "hosts", [5], "nets", [-3], "{}"⟩, ⟨"NetCon", "hosts", [0], "nets", [-3], "{}"⟩,
       ⟨"Peer", "peers", [5], "peerOf", [5], "{}"⟩]) &&
    decide ((abs s).attackers.map (attView (abs s)) = [⟨9, "Attacker:9", [(5, ["access", "connect"]), (0, ["access"])]⟩])) = true := by
  decide +kernel

/-! ### securiCAD: the exception class -/

/-- **the translated securiCAD loader and `Legacy.loadScad`, outcome by outcome.**  The translated loader returns a model
⇒ `loadScad` computes its abstraction; it returns `None` ⇒ `loadScad` answers `lookupError` (unknown asset class, unknown
object id on either side of an association); it raises `e` ⇒ `loadScad` rejects with the class `e` stands for
(`ErrAgree`: `errAbsL e = some er` — `LookupError` ↦ `lookupError`, `ValueError` ↦ `valueError`, pjs `ValidationError` and
the `IndexError` of `name[0]` ↦ `validation`, `DuplicateModelAssociationError` ↦ `duplicateAssociation`,
`ModelAssociationException` ↦ `modelAssociation` — or, the ONE disagreement, `e = unmodelled ∧ er = validation`: an
evidence attribute that is not a defense of the class, which python_jsonschema_objects accepts silently).  Since the
three outcomes are exhaustive this is also the converse: `loadScad` accepts iff a model is returned.  `ObjWf` is asked
only of the objects that are not attackers. -/
theorem scad_loader_error_class (files : Files) {env : ModelEnv} (hE : EqId env) (fac : Factory) (lg : LangGraphView)
    (nodes : List AssocDecl) (defsOk : Int → Bool) (path : String) (d : ScadDoc) (hF : FieldsDistinct fac.L)
    (hd : ClassNamesDistinct fac.L) (hnodes : ∀ a ∈ nodes, a ∈ fac.L.assocs) (hlg : LgSpec fac.L nodes lg)
    (hfile : files.eom path = .ok d) (hwf : ∀ o ∈ d.objects, o.metaConcept ≠ "Attacker" → ObjWf fac defsOk o)
    (hfuel : d.objects.length ≤ env.whileFuel) :
    match securicad_load_model_from_scad_archive files env path lg fac with
    | .ok (some s') => loadScadFrom fac.L nodes defsOk (abs (emptyModel path)) d = .ok (abs s')
    | .ok none => loadScadFrom fac.L nodes defsOk (abs (emptyModel path)) d = .error .lookupError
    | .error e => ∃ er, loadScadFrom fac.L nodes defsOk (abs (emptyModel path)) d = .error er ∧ ErrAgree e er :=
  scad_loader_sim_class files hE fac lg nodes defsOk path d hF hd hnodes hlg hfile hwf hfuel

/-- the class table of `ErrAgree`, spelled out -/
theorem scad_error_classes :
    ErrAgree (.py .lookupError) .lookupError ∧ ErrAgree (.py .valueError) .valueError ∧
    ErrAgree .validation .validation ∧ ErrAgree (.py .other) .validation ∧
    ErrAgree (.py .duplicateModelAssociationError) .duplicateAssociation ∧
    ErrAgree (.py .modelAssociationException) .modelAssociation ∧ ErrAgree .unmodelled .validation ∧
    (∀ er, ErrAgree .unmodelled er → er = .validation) ∧ (∀ er, ¬ ErrAgree .typeError er) ∧
    (∀ e er er', ErrAgree e er → ErrAgree e er' → er = er') := by
  refine ⟨Or.inl rfl, Or.inl rfl, Or.inl rfl, Or.inl rfl, Or.inl rfl, Or.inl rfl, Or.inr ⟨rfl, rfl⟩, ?_, ?_, ?_⟩
  · rintro er (h | ⟨_, h⟩)
    · cases h
    · exact h
  · rintro er (h | ⟨h, _⟩) <;> cases h
  · rintro e er er' (h | ⟨h1, h2⟩) (h' | ⟨h1', h2'⟩)
    · rw [h] at h'; injection h'
    · subst h1'; cases h
    · subst h1; cases h'
    · rw [h2, h2']

/-! ### securiCAD: agreement with the native loader (the property) -/

/-- the archive written for a coherent, valid native model `s` loads with the translated loader: a model is returned
(not `None`, no exception), and it is coherent -/
theorem scad_loader_loads (files : Files) {env : ModelEnv} (hE : EqId env) (fac : Factory) (lg : LangGraphView)
    (nodes : List AssocDecl) (path : String) (s : MS.St)
    (hF : FieldsDistinct fac.L) (hd : ClassNamesDistinct fac.L) (hnodes : ∀ a ∈ nodes, a ∈ fac.L.assocs)
    (hlg : LgSpec fac.L nodes lg)
    (h : MS.Inv s) (hv : MS.Valid fac.L s) (hdk : DefKeysDistinct s)
    (ha : ScadAssetsOk fac.L (fun _ => true) s) (hfl : FloatsOk fac s) (hne : NoEmptyDefName fac.L s)
    (hr : PairsResolve fac.L nodes s) (hfs : NoFirstSteps s) (hdot : StepsNoDot s)
    (hfile : files.eom path = .ok (emitScad fac.L s))
    (hfuel : s.assets.length + s.attackers.length ≤ env.whileFuel) :
    ∃ m, securicad_load_model_from_scad_archive files env path lg fac = .ok (some m) ∧ MS.Inv (abs m) ∧
      loadScadFrom fac.L nodes (fun _ => true) (abs (emptyModel path)) (emitScad fac.L s) = .ok (abs m) := by
  obtain ⟨s', h1, hi, _⟩ := loadScad_emit_from fac.L nodes (fun _ => true) (abs (emptyModel path))
    (emptyModel_abs_newModel {} path) s h hv ha hr hfs hdot
  have hsim := scad_loader_refines files hE fac lg nodes (fun _ => true) path (emitScad fac.L s) hF hd hnodes hlg hfile
    (emitScad_objWf fac (fun _ => true) s hdk ha hfl hne (fun _ _ => rfl))
    (by rw [emitScad_objects_length]; exact hfuel)
  rw [h1] at hsim
  cases hl : securicad_load_model_from_scad_archive files env path lg fac with
  | error e => rw [hl] at hsim; cases hsim
  | ok r =>
    cases r with
    | none => rw [hl] at hsim; cases hsim
    | some m =>
      rw [hl] at hsim
      have e : abs m = s' := by injection hsim
      exact ⟨m, rfl, by rw [e]; exact hi, by rw [e]; exact h1⟩

/-- the hypotheses about the native model `s` and its language under which the securiCAD archive can express it (each is
forced by the format, see `Props/C18.lean`) and the native file loads back (C07) -/
structure ScadExpressible (fac : Factory) (nodes : List AssocDecl) (s : MS.St) : Prop where
  inv : MS.Inv s
  valid : MS.Valid fac.L s
  defKeys : DefKeysDistinct s
  attIds : AttIdsDistinct s
  attNames : AttNamesNonempty s
  assetsOk : ScadAssetsOk fac.L (fun _ => true) s
  floatsOk : FloatsOk fac s
  noEmptyDef : NoEmptyDefName fac.L s
  resolve : PairsResolve fac.L nodes s
  noFirstSteps : NoFirstSteps s
  noDot : StepsNoDot s

/-- the transfer: whatever model the translated loader returns for the archive of `s`, and whatever model the native
loader returns for the native file of `s`, they agree (`ScadAgrees`) -/
theorem scad_loader_agrees (files : Files) {env : ModelEnv} (hE : EqId env) (fac : Factory) (lg : LangGraphView)
    (nodes : List AssocDecl) (path : String) (s : MS.St)
    (hF : FieldsDistinct fac.L) (hd : ClassNamesDistinct fac.L) (hnodes : ∀ a ∈ nodes, a ∈ fac.L.assocs)
    (hlg : LgSpec fac.L nodes lg) (hs : ScadExpressible fac nodes s)
    (hfile : files.eom path = .ok (emitScad fac.L s))
    (hfuel : s.assets.length + s.attackers.length ≤ env.whileFuel)
    (m : H) (hload : securicad_load_model_from_scad_archive files env path lg fac = .ok (some m))
    (sn : MS.St) (hnat : fromDoc fac.L (fun _ => true) (toDoc fac.L s) = .ok sn) :
    ScadAgrees fac.L (abs m) sn := by
  obtain ⟨h, hv, hdk, hatt, hname, ha, hfl, hne, hr, hfs, hdot⟩ := hs
  obtain ⟨s', h1, _, _, h3, h4, h5, h6⟩ := loadScad_emit_from fac.L nodes (fun _ => true) (abs (emptyModel path))
    (emptyModel_abs_newModel {} path) s h hv ha hr hfs hdot
  obtain ⟨m', hm', _, hm2⟩ := scad_loader_loads files hE fac lg nodes path s hF hd hnodes hlg h hv hdk ha hfl hne hr hfs
    hdot hfile hfuel
  rw [hload] at hm'
  have em : m' = m := by injection hm' with e; injection e with e; exact e.symm
  subst em
  rw [h1] at hm2
  have e : s' = abs m' := by injection hm2
  subst e
  obtain ⟨sn', hn1, hn2, _⟩ := C07.load_save_yaml_partial fac.L s h hv hatt (linksResolve_of_distinct hd hv) hdk hname
  have hn1' : fromDoc fac.L (fun _ => true) (toDoc fac.L s) = .ok sn' := hn1
  rw [hnat] at hn1'
  have en : sn = sn' := by injection hn1'
  subst en
  exact scadAgrees_transfer fac.L s (abs m') sn hdk hn2 h3 h4 h5 h6

/-- **C18, securiCAD: the assets.**  The model the translated loader returns for the archive of `s` has the assets of the
model the native loader returns for the native file of `s`, in order: id, name, type, the value of every defense of the
type (explicit or class default); extras cannot be expressed in the archive. -/
theorem scad_loader_assets_agree (files : Files) {env : ModelEnv} (hE : EqId env) (fac : Factory) (lg : LangGraphView)
    (nodes : List AssocDecl) (path : String) (s : MS.St)
    (hF : FieldsDistinct fac.L) (hd : ClassNamesDistinct fac.L) (hnodes : ∀ a ∈ nodes, a ∈ fac.L.assocs)
    (hlg : LgSpec fac.L nodes lg) (hs : ScadExpressible fac nodes s)
    (hfile : files.eom path = .ok (emitScad fac.L s))
    (hfuel : s.assets.length + s.attackers.length ≤ env.whileFuel)
    (m : H) (hload : securicad_load_model_from_scad_archive files env path lg fac = .ok (some m))
    (sn : MS.St) (hnat : fromDoc fac.L (fun _ => true) (toDoc fac.L s) = .ok sn) :
    (abs m).assets.map (assetView fac.L (abs m)) =
      sn.assets.map (fun a => { assetView fac.L sn a with extras := "{}" }) :=
  (scad_loader_agrees files hE fac lg nodes path s hF hd hnodes hlg hs hfile hfuel m hload sn hnat).assets

/-- **C18, securiCAD: the links.**  The associations of the model the translated loader returns are exactly the pairwise
expansion of the links of the natively loaded model, in model order: for every link `l` and every `x ∈ left`, `y ∈ right`
one binary association of the class of `l` with the members `[x]` / `[y]` (by id), and nothing else; no association
occurs twice. -/
theorem scad_loader_links_agree (files : Files) {env : ModelEnv} (hE : EqId env) (fac : Factory) (lg : LangGraphView)
    (nodes : List AssocDecl) (path : String) (s : MS.St)
    (hF : FieldsDistinct fac.L) (hd : ClassNamesDistinct fac.L) (hnodes : ∀ a ∈ nodes, a ∈ fac.L.assocs)
    (hlg : LgSpec fac.L nodes lg) (hs : ScadExpressible fac nodes s)
    (hfile : files.eom path = .ok (emitScad fac.L s))
    (hfuel : s.assets.length + s.attackers.length ≤ env.whileFuel)
    (m : H) (hload : securicad_load_model_from_scad_archive files env path lg fac = .ok (some m))
    (sn : MS.St) (hnat : fromDoc fac.L (fun _ => true) (toDoc fac.L s) = .ok sn) :
    (abs m).associations.map (assocView (abs m)) = pairViews (sn.associations.map (assocView sn)) ∧
    (∀ v, v ∈ (abs m).associations.map (assocView (abs m)) ↔
      ∃ l ∈ sn.associations, ∃ x ∈ (sn.lobj l).left, ∃ y ∈ (sn.lobj l).right,
        v = ⟨(sn.lobj l).cls, (sn.lobj l).lf, [(sn.aobj x).id], (sn.lobj l).rf, [(sn.aobj y).id], "{}"⟩) ∧
    ((abs m).associations.map (assocView (abs m))).Nodup := by
  have hag := scad_loader_agrees files hE fac lg nodes path s hF hd hnodes hlg hs hfile hfuel m hload sn hnat
  refine ⟨hag.links, ?_, ?_⟩
  · intro v
    rw [hag.links, mem_pairViews]
    constructor
    · rintro ⟨w, hw, i, hi, j, hj, rfl⟩
      obtain ⟨l, hl, rfl⟩ := List.mem_map.1 hw
      obtain ⟨x, hx, rfl⟩ := List.mem_map.1 (show i ∈ (sn.lobj l).left.map (fun a => (sn.aobj a).id) from hi)
      obtain ⟨y, hy, rfl⟩ := List.mem_map.1 (show j ∈ (sn.lobj l).right.map (fun a => (sn.aobj a).id) from hj)
      exact ⟨l, hl, x, hx, y, hy, rfl⟩
    · rintro ⟨l, hl, x, hx, y, hy, rfl⟩
      exact ⟨assocView sn l, List.mem_map.2 ⟨l, hl, rfl⟩, _,
        (show (sn.aobj x).id ∈ (sn.lobj l).left.map (fun a => (sn.aobj a).id) from List.mem_map.2 ⟨x, hx, rfl⟩), _,
        (show (sn.aobj y).id ∈ (sn.lobj l).right.map (fun a => (sn.aobj a).id) from List.mem_map.2 ⟨y, hy, rfl⟩), rfl⟩
  · obtain ⟨m', _, _, hm2⟩ := scad_loader_loads files hE fac lg nodes path s hF hd hnodes hlg hs.inv hs.valid hs.defKeys
      hs.assetsOk hs.floatsOk hs.noEmptyDef hs.resolve hs.noFirstSteps hs.noDot hfile hfuel
    obtain ⟨s', h1, _, _, _, h4, _⟩ := loadScad_emit_from fac.L nodes (fun _ => true) (abs (emptyModel path))
      (emptyModel_abs_newModel {} path) s hs.inv hs.valid hs.assetsOk hs.resolve hs.noFirstSteps hs.noDot
    have hpk := C18.link_pairs_distinct fac.L s hs.inv hs.valid
    have h4' : (abs m).associations.map (assocView (abs m)) = (pairsOf s).map Pair.view := by
      obtain ⟨m'', hm'', _, hm2'⟩ := scad_loader_loads files hE fac lg nodes path s hF hd hnodes hlg hs.inv hs.valid
        hs.defKeys hs.assetsOk hs.floatsOk hs.noEmptyDef hs.resolve hs.noFirstSteps hs.noDot hfile hfuel
      rw [hload] at hm''
      have em : m'' = m := by injection hm'' with e; injection e with e; exact e.symm
      subst em
      rw [h1] at hm2'
      have e : s' = abs m'' := by injection hm2'
      rw [← e]; exact h4
    rw [h4']
    apply MS.nodup_of_map (fun v : AssocView => (v.cls, v.left, v.right))
    rw [List.map_map]
    have : ((fun v : AssocView => (v.cls, v.left, v.right)) ∘ Pair.view) =
        (fun k : String × Int × Int => (k.1, [k.2.1], [k.2.2])) ∘ Pair.key := rfl
    rw [this, ← List.map_map]
    apply MS.nodup_map_of_inj _ _ hpk
    intro a _ b _ e
    simp only [Prod.mk.injEq, List.cons.injEq, and_true] at e
    exact Prod.ext e.1 (Prod.ext e.2.1 e.2.2)

/-- **C18, securiCAD: the attacker entry points.**  The attackers come back with their ids (named `Attacker:<id>`: the
archive does not carry attacker names); the set of (attacker id, asset id, attack step) entry points is that of the
natively loaded model; every attacker has ONE tuple per asset (`add_entry_point` merges the steps of an asset). -/
theorem scad_loader_entry_points_agree (files : Files) {env : ModelEnv} (hE : EqId env) (fac : Factory)
    (lg : LangGraphView) (nodes : List AssocDecl) (path : String) (s : MS.St)
    (hF : FieldsDistinct fac.L) (hd : ClassNamesDistinct fac.L) (hnodes : ∀ a ∈ nodes, a ∈ fac.L.assocs)
    (hlg : LgSpec fac.L nodes lg) (hs : ScadExpressible fac nodes s)
    (hfile : files.eom path = .ok (emitScad fac.L s))
    (hfuel : s.assets.length + s.attackers.length ≤ env.whileFuel)
    (m : H) (hload : securicad_load_model_from_scad_archive files env path lg fac = .ok (some m))
    (sn : MS.St) (hnat : fromDoc fac.L (fun _ => true) (toDoc fac.L s) = .ok sn) :
    (abs m).attackers.map (fun t => (((abs m).tobj t).id, ((abs m).tobj t).name)) =
      sn.attackers.map (fun t => ((sn.tobj t).id, "Attacker:" ++ toString (sn.tobj t).id)) ∧
    (∀ tid aid st, EntryRel (abs m) tid aid st ↔ EntryRel sn tid aid st) ∧
    (∀ t ∈ (abs m).attackers, (((abs m).tobj t).entry.map (fun ep => ((abs m).aobj ep.1).id)).Nodup) := by
  have hag := scad_loader_agrees files hE fac lg nodes path s hF hd hnodes hlg hs hfile hfuel m hload sn hnat
  obtain ⟨m', hm', hi, _⟩ := scad_loader_loads files hE fac lg nodes path s hF hd hnodes hlg hs.inv hs.valid hs.defKeys
    hs.assetsOk hs.floatsOk hs.noEmptyDef hs.resolve hs.noFirstSteps hs.noDot hfile hfuel
  rw [hload] at hm'
  have em : m' = m := by injection hm' with e; injection e with e; exact e.symm
  subst em
  exact ⟨hag.attackers, hag.entry_points, fun t ht => entry_ids_nodup hi ht⟩

/-- **C18, securiCAD.**  For every native model state `s` that the archive can express (`ScadExpressible`: coherent,
valid, and the conditions the format forces): the translated `load_model_from_scad_archive` on the archive `emitScad s`
returns a model, the native loader on the native file `toDoc s` returns a model, and the two have the same assets (ids,
names, types, defense values), the same pairwise links and the same attacker entry points. -/
theorem scad_loader_agrees_with_native (files : Files) {env : ModelEnv} (hE : EqId env) (fac : Factory)
    (lg : LangGraphView) (nodes : List AssocDecl) (path : String) (s : MS.St)
    (hF : FieldsDistinct fac.L) (hd : ClassNamesDistinct fac.L) (hnodes : ∀ a ∈ nodes, a ∈ fac.L.assocs)
    (hlg : LgSpec fac.L nodes lg) (hs : ScadExpressible fac nodes s)
    (hfile : files.eom path = .ok (emitScad fac.L s))
    (hfuel : s.assets.length + s.attackers.length ≤ env.whileFuel) :
    ∃ m sn, securicad_load_model_from_scad_archive files env path lg fac = .ok (some m) ∧
      fromDoc fac.L (fun _ => true) (toDoc fac.L s) = .ok sn ∧ MS.Inv (abs m) ∧ ScadAgrees fac.L (abs m) sn := by
  obtain ⟨m, hm, hi, _⟩ := scad_loader_loads files hE fac lg nodes path s hF hd hnodes hlg hs.inv hs.valid hs.defKeys
    hs.assetsOk hs.floatsOk hs.noEmptyDef hs.resolve hs.noFirstSteps hs.noDot hfile hfuel
  obtain ⟨sn, hn1, _, _⟩ := C07.load_save_yaml_partial fac.L s hs.inv hs.valid hs.attIds
    (linksResolve_of_distinct hd hs.valid) hs.defKeys hs.attNames
  exact ⟨m, sn, hm, hn1, hi,
    scad_loader_agrees files hE fac lg nodes path s hF hd hnodes hlg hs hfile hfuel m hm sn hn1⟩

/-- **C18, securiCAD, after any history.**  For the state reached by any sequence of model operations from the empty model
(coherent and valid by C05 / C06; `add_asset` given no defense twice), what remains to be assumed is what the format forces:
distinct attacker ids, `ScadAssetsOk`, values in range, no defense / field / step name the format cannot write, and a
language whose (unordered) field-name pairs identify the declaration. -/
theorem scad_loader_agrees_with_native_reachable (files : Files) {env : ModelEnv} (hE : EqId env) (fac : Factory)
    (lg : LangGraphView) (nodes : List AssocDecl) (path : String) (ops : List MS.Op)
    (hF : FieldsDistinct fac.L) (hd : ClassNamesDistinct fac.L) (hnodes : ∀ a ∈ nodes, a ∈ fac.L.assocs)
    (hfi : FieldsIdentify fac.L nodes) (hlg : LgSpec fac.L nodes lg)
    (hops : ∀ op ∈ ops, OpDefKeysDistinct op) (hatt : AttIdsDistinct (ops.foldl (MS.applyOp fac.L) {}))
    (ha : ScadAssetsOk fac.L (fun _ => true) (ops.foldl (MS.applyOp fac.L) {}))
    (hfl : FloatsOk fac (ops.foldl (MS.applyOp fac.L) {})) (hne : NoEmptyDefName fac.L (ops.foldl (MS.applyOp fac.L) {}))
    (hfs : NoFirstSteps (ops.foldl (MS.applyOp fac.L) {})) (hdot : StepsNoDot (ops.foldl (MS.applyOp fac.L) {}))
    (hfile : files.eom path = .ok (emitScad fac.L (ops.foldl (MS.applyOp fac.L) {})))
    (hfuel : (ops.foldl (MS.applyOp fac.L) {}).assets.length + (ops.foldl (MS.applyOp fac.L) {}).attackers.length
      ≤ env.whileFuel) :
    ∃ m sn, securicad_load_model_from_scad_archive files env path lg fac = .ok (some m) ∧
      fromDoc fac.L (fun _ => true) (toDoc fac.L (ops.foldl (MS.applyOp fac.L) {})) = .ok sn ∧ MS.Inv (abs m) ∧
      ScadAgrees fac.L (abs m) sn :=
  scad_loader_agrees_with_native files hE fac lg nodes path _ hF hd hnodes hlg
    ⟨C05.reachable_inv _ _, C06.reachable_valid _ _, C07.reachable_defKeysDistinct _ _ hops, hatt,
     C07.reachable_attNamesNonempty _ _, ha, hfl, hne,
     C18.pairs_resolve_of_fields _ _ _ hd hfi (C06.reachable_valid _ _) (C05.reachable_inv _ _), hfs, hdot⟩ hfile hfuel

/-! ### securiCAD: non-vacuity, and the hypothesis `NoEmptyDefName` is needed -/

/-- `Legacy.Sample.st` (ids 5, −3, 0; a non-default defense; a link with two left members and a self-link; an attacker with
two steps on one asset and one on another) is expressible -/
theorem demo_scadExpressible : ScadExpressible demoFac Legacy.Sample.lang.assocs Legacy.Sample.st :=
  ⟨C05.reachable_inv _ _, C06.reachable_valid _ _, by decide, by decide, by decide, ⟨by decide, by decide, by decide⟩,
   by decide, by decide,
   C18.pairs_resolve_of_fields _ _ _ (by decide) ⟨by decide, by decide⟩ (C06.reachable_valid _ _) (C05.reachable_inv _ _),
   by decide, by decide⟩

/-- the hypotheses of `scad_loader_agrees_with_native` hold for it, so its conclusion does -/
example : ∃ m sn, securicad_load_model_from_scad_archive demoScadFiles demoEnv "m.sCAD"
      (demoLg Legacy.Sample.lang Legacy.Sample.lang.assocs) demoFac = .ok (some m) ∧
    fromDoc Legacy.Sample.lang (fun _ => true) (toDoc Legacy.Sample.lang Legacy.Sample.st) = .ok sn ∧ MS.Inv (abs m) ∧
    ScadAgrees Legacy.Sample.lang (abs m) sn :=
  scad_loader_agrees_with_native demoScadFiles demoEnv_eqId demoFac (demoLg demoFac.L Legacy.Sample.lang.assocs)
    Legacy.Sample.lang.assocs "m.sCAD" Legacy.Sample.st demo_fieldsDistinct (by decide) (fun _ ha => ha)
    (fun _ _ _ _ => rfl) demo_scadExpressible rfl (by decide +kernel)

/-- the state with one asset of the class `C` (`cexLang`: its only defense is called `""`) that sets this defense -/
def cexSt : MS.St := [MS.Op.addAsset "C" (some "x") [("", "1.0")] true "{}" (some 1) true].foldl (MS.applyOp cexLang) {}
def cexFiles : Files :=
  { json := fun _ => .error .unmodelled, yaml := fun _ => .error .unmodelled, eom := fun _ => .ok (emitScad cexLang cexSt) }

/-- **`NoEmptyDefName` is needed** (so `ObjWf` does NOT follow from `Inv` + `Valid` alone): a coherent, valid model that
satisfies every other hypothesis, whose native file loads, and on whose archive the translated loader raises
`IndexError` (`defense_name[0]` on the evidence attribute `""`). -/
theorem scad_emit_empty_defense_counterexample :
    MS.Inv cexSt ∧ MS.Valid cexLang cexSt ∧ DefKeysDistinct cexSt ∧ AttIdsDistinct cexSt ∧ AttNamesNonempty cexSt ∧
    ScadAssetsOk cexLang (fun _ => true) cexSt ∧ FloatsOk cexFac cexSt ∧ PairsResolve cexLang [] cexSt ∧
    NoFirstSteps cexSt ∧ StepsNoDot cexSt ∧ ¬ NoEmptyDefName cexLang cexSt ∧
    (∃ o ∈ (emitScad cexLang cexSt).objects, ¬ ObjWf cexFac (fun _ => true) o) ∧
    (∃ sn, fromDoc cexLang (fun _ => true) (toDoc cexLang cexSt) = .ok sn) ∧
    securicad_load_model_from_scad_archive cexFiles cexEnv "x.sCAD" (demoLg cexLang []) cexFac = .error (.py .other) := by
  refine ⟨C05.reachable_inv _ _, C06.reachable_valid _ _, by decide, by decide, by decide,
    ⟨by decide, by decide, by decide⟩, by decide, ?_, by decide, by decide, by decide, ?_, ?_,
    raisesO_eq (by decide +kernel)⟩
  · intro l hl
    have he : cexSt.associations = [] := by decide
    rw [he] at hl; exact absurd hl List.not_mem_nil
  · refine ⟨cexObj, by decide, fun h => ?_⟩
    have := h.noEmpty ("", "1.0") (by decide) rfl
    revert this; decide
  · exact (loadsTo_iff _ _).1 (show LoadsTo (fromDoc cexLang (fun _ => true) (toDoc cexLang cexSt)) (fun _ => True) from by
      decide +kernel) |>.imp (fun _ h => h.1)

/-! ### the image conditions hold for everything written for a coherent model -/

/-- **`OldWf` / `DefsOkOf` / `NoExtras` are not extra assumptions on saved models.**  For a coherent, valid state `s` without
extras: the native file of `s` — as `save_to_file` writes it (`toDoc`, int keys) and as `json.load` returns it (`jsonRT`,
string keys: what the harness rewrites) — put into the 0.0.39 layout (`emitOld`, nested or flat) satisfies the
hypotheses of `old_loader_agrees_with_native`. -/
theorem old_wf_of_saved_model (fac : Factory) (nested : Bool) (s : MS.St) (h : MS.Inv s) (hF : FieldsDistinct fac.L)
    (hres : LinksResolve fac.L s) (hdk : DefKeysDistinct s) (hatt : AttIdsDistinct s) (hx : StNoExtras s)
    (hfl : FloatsOk fac s) (hflat : nested = false → FlatFieldsOk s) :
    (NoExtras (toDoc fac.L s) ∧ OldWf fac.L nested (emitOld (toDoc fac.L s)) ∧
      DefsOkOf fac (emitOld (toDoc fac.L s)) (fun _ => true)) ∧
    (NoExtras (jsonRT (toDoc fac.L s)) ∧ OldWf fac.L nested (emitOld (jsonRT (toDoc fac.L s))) ∧
      DefsOkOf fac (emitOld (jsonRT (toDoc fac.L s))) (fun _ => true)) :=
  ⟨⟨(C18.toDoc_noExtras fac.L s h hx).1, emitOld_toDoc_wf fac.L nested s h hF hres hdk hatt hflat,
    (defsOkOf_emitOld_toDoc fac s h hfl).1⟩,
   ⟨(C18.toDoc_noExtras fac.L s h hx).2, emitOld_jsonRT_toDoc_wf fac.L nested s h hF hres hdk hatt hflat,
    (defsOkOf_emitOld_toDoc fac s h hfl).2⟩⟩

/-- **`ObjWf` is not an extra assumption on saved models** beyond `NoEmptyDefName` (needed:
`scad_emit_empty_defense_counterexample`) and the range check: every object of the archive written for `s` is
well-formed.  (`objWf_of_capped`, `TieLegacyWf.lean`, is the general form: any object whose evidence attributes are the
capitalised names of a duplicate-free defense list — also the harness's rendering, which writes every defense.) -/
theorem scad_objWf_of_saved_model (fac : Factory) (s : MS.St) (hdk : DefKeysDistinct s)
    (ha : ScadAssetsOk fac.L (fun _ => true) s) (hfl : FloatsOk fac s) (hne : NoEmptyDefName fac.L s) :
    ∀ o ∈ (emitScad fac.L s).objects, ObjWf fac (fun _ => true) o :=
  emitScad_objWf fac (fun _ => true) s hdk ha hfl hne (fun _ _ => rfl)

/-- **C18, 0.0.39 layout, on saved models.**  For every coherent, valid native model state `s` without extras (hypotheses
of C07 `load_save_json_partial`): the translated 0.0.39 loader on the 0.0.39 rewriting of the native JSON file of `s`
returns a model, the native loader on that file returns a model, and the two show the same assets (id, name, type, every
defense value, extras), associations and attackers (`SameModel`).  No well-formedness assumption on the document is left. -/
theorem old_loader_agrees_on_saved_model {env : ModelEnv} (hE : EqId env) (files : Files) (fac : Factory)
    (hF : FieldsDistinct fac.L) (nested : Bool) (name : String) (s : MS.St) (h : MS.Inv s) (hv : MS.Valid fac.L s)
    (hres : LinksResolve fac.L s) (hdk : DefKeysDistinct s) (hatt : AttIdsDistinct s) (hname : AttNamesNonempty s)
    (hx : StNoExtras s) (hfl : FloatsOk fac s) (hflat : nested = false → FlatFieldsOk s)
    (hfuel : s.assets.length ≤ env.whileFuel) :
    ∃ m sn, updater_process_model files env (encOld nested name (emitOld (jsonRT (toDoc fac.L s)))) fac = .ok m ∧
      fromDoc fac.L (fun _ => true) (jsonRT (toDoc fac.L s)) = .ok sn ∧ SameModel fac.L (abs m) sn := by
  obtain ⟨_, hnx, hwf, hdefs⟩ := old_wf_of_saved_model fac nested s h hF hres hdk hatt hx hfl hflat
  have hlen : (jsonRT (toDoc fac.L s)).assets.length ≤ env.whileFuel := by
    show ((toDoc fac.L s).assets.map _).length ≤ _
    rw [List.length_map, toDoc_assets fac.L s h, List.length_map]; exact hfuel
  have htie := old_loader_agrees_with_native hE files fac hF (fun _ => true) nested name (jsonRT (toDoc fac.L s)) hnx hwf
    hdefs hlen
  obtain ⟨s1, hs1, _, _, hsm1, _⟩ := load_toDoc_from fac.L (abs (emptyModel name)) (emptyModel_abs_newModel {} name) s h hv
    hres hdk hatt hname
  have hs1' : PyLeg.fromDocFrom fac.L (fun _ => true) (abs (emptyModel name)) (jsonRT (toDoc fac.L s)) = .ok s1 := by
    show PyM.fromDocFrom fac.L (fun _ => true) (abs (emptyModel name)) (jsonRT (toDoc fac.L s)) = .ok s1
    rw [fromDocFrom_jsonRT]; exact hs1
  rw [hs1'] at htie
  obtain ⟨sn, hn1, hn2, _⟩ := C07.load_save_json_partial fac.L s h hv hatt hres hdk hname
  cases hm : updater_process_model files env (encOld nested name (emitOld (jsonRT (toDoc fac.L s)))) fac with
  | error e => rw [hm] at htie; cases htie
  | ok m =>
    rw [hm] at htie
    have e : abs m = s1 := by injection htie
    exact ⟨m, sn, rfl, hn1, by rw [e]; exact hsm1.trans hn2.symm⟩

/-- … and on the native YAML file (int keys, `toDoc` as `save_to_file` writes it) -/
theorem old_loader_agrees_on_saved_model_yaml {env : ModelEnv} (hE : EqId env) (files : Files) (fac : Factory)
    (hF : FieldsDistinct fac.L) (nested : Bool) (name : String) (s : MS.St) (h : MS.Inv s) (hv : MS.Valid fac.L s)
    (hres : LinksResolve fac.L s) (hdk : DefKeysDistinct s) (hatt : AttIdsDistinct s) (hname : AttNamesNonempty s)
    (hx : StNoExtras s) (hfl : FloatsOk fac s) (hflat : nested = false → FlatFieldsOk s)
    (hfuel : s.assets.length ≤ env.whileFuel) :
    ∃ m sn, updater_process_model files env (encOld nested name (emitOld (toDoc fac.L s))) fac = .ok m ∧
      fromDoc fac.L (fun _ => true) (toDoc fac.L s) = .ok sn ∧ SameModel fac.L (abs m) sn := by
  obtain ⟨⟨hnx, hwf, hdefs⟩, _⟩ := old_wf_of_saved_model fac nested s h hF hres hdk hatt hx hfl hflat
  have hlen : (toDoc fac.L s).assets.length ≤ env.whileFuel := by
    rw [toDoc_assets fac.L s h, List.length_map]; exact hfuel
  have htie := old_loader_agrees_with_native hE files fac hF (fun _ => true) nested name (toDoc fac.L s) hnx hwf
    hdefs hlen
  obtain ⟨s1, hs1, _, _, hsm1, _⟩ := load_toDoc_from fac.L (abs (emptyModel name)) (emptyModel_abs_newModel {} name) s h hv
    hres hdk hatt hname
  have hs1' : PyLeg.fromDocFrom fac.L (fun _ => true) (abs (emptyModel name)) (toDoc fac.L s) = .ok s1 := hs1
  rw [hs1'] at htie
  obtain ⟨sn, hn1, hn2, _⟩ := C07.load_save_yaml_partial fac.L s h hv hatt hres hdk hname
  cases hm : updater_process_model files env (encOld nested name (emitOld (toDoc fac.L s))) fac with
  | error e => rw [hm] at htie; cases htie
  | ok m =>
    rw [hm] at htie
    have e : abs m = s1 := by injection htie
    exact ⟨m, sn, rfl, hn1, by rw [e]; exact hsm1.trans hn2.symm⟩

end MalVerif.PropsGen.C18
