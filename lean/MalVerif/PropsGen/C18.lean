import MalVerif.Py.TieLegacyOld
import MalVerif.Py.TieLegacyScad
import MalVerif.Props.C18
/-!
# C18 for the *translated* legacy loaders

*A model written in the 0.0.39 file layout, or exported as a securiCAD .sCAD archive, loads to the same assets (ids,
names, types, defense values), the same pairwise links and the same attacker entry points as the equivalent native
model file.*

The functions below are GENERATED from the current `maltoolbox/translators/updater.py`
(`MalVerif/Py/GenLegacy/Updater.lean`); they call the generated `model.py` (`MalVerif/Py/GenModel`).  The document
handed to the loader is the value `json.loads` / `yaml.safe_load` return (`PyLeg.PyJ`); `encOld nested name d` is the
0.0.39 file for the typed document `d` (`AbsLegacy.lean`; `nested`: associations as `{metaconcept, association: {…}}`
or flat), `Legacy.emitOld` the typed 0.0.39 document for a native document (`Model/Legacy.lean`).
`okSt r` is the abstraction (`PyM.abs`) of the model a loader returns, `none` when it raises.

* `old_loader_refines`: the translated `_process_model` on a well-formed 0.0.39 document = the hand-written
  `Legacy.loadOld` (same model, and it raises exactly when `loadOld` rejects);
* `old_loader_agrees_with_native` (the property): on the 0.0.39 file of a native document without extras it returns
  the model the native loader (`Ser.fromDoc`, tied to `Model._from_dict` by the correspondence check of C07) returns
  for that document, and raises exactly when the native loader rejects — `old_loader_same_model` spells this out for
  assets (id, name, type, defense values), links (class, fields, member ids) and attackers (id, name, entry points);
* `old_loader_from_file_json` / `_yaml`, `old_loader_unknown_version`, `old_loader_unknown_extension`: the three
  functions around `_process_model` (file layer, dispatch);
* the hypotheses: `OldWf` (the typed document is a dictionary structure: distinct defense keys per asset, distinct
  field names per association — in the flat layout also different from `metaconcept` / `association` —, distinct
  attacker keys, distinct entry-point keys; and no association lists its two fields in the order opposite to the
  class declaration), `DefsOkOf` (the range-check oracle of the hand model is the per-value check of the factory),
  `EqId` (pjs `==` relates no two different objects), `FieldsDistinct`, the unrolling bound of the renaming loop of
  `add_asset`; `old_loader_swapped_fields_counterexample` shows that `notSwapped` is needed (the Python accepts
  what `loadOld` rejects); `old_loader_unknown_entry_point_unmodelled` marks the one place where a result of the
  translation says nothing about the Python (`(None, steps)` tuples).
* Start state: the hand-written loaders are run from the state the empty heap stands for
  (`loadOldFrom … (abs (emptyModel name))`, `fromDocFrom …`), which differs from `({} : MS.St)` only in store cells
  that are never allocated (`init_lists`); `loadOldFrom L ok {} = loadOld L ok`, `fromDocFrom L ok {} = fromDoc L ok` by `rfl`.
-/
namespace MalVerif.PropsGen.C18
open MalVerif MalVerif.PyM MalVerif.PyM.Gen MalVerif.PyM.Tie MalVerif.PyLeg MalVerif.PyLeg.Gen MalVerif.PyLeg.Tie
open MalVerif.Legacy MalVerif.Ser

/-- **the translated 0.0.39 loader is `Legacy.loadOld`.**  On the file of a well-formed typed document the translated
`_process_model` returns a model whose abstraction is the state `loadOld` computes, and raises iff `loadOld` rejects. -/
theorem old_loader_refines {env : ModelEnv} (hE : EqId env) (files : Files) (fac : Factory) (hL : FieldsDistinct fac.L)
    (defsOk : Key → Bool) (nested : Bool) (name : String) (d : OldDoc) (hwf : OldWf fac.L nested d)
    (hdefs : DefsOkOf fac d defsOk) (hfuel : d.assets.length ≤ env.whileFuel) :
    okSt (updater_process_model files env (encOld nested name d) fac) =
      optSt (loadOldFrom fac.L defsOk (abs (emptyModel name)) d) :=
  process_model_tie hE files fac hL defsOk nested name d hwf hdefs hfuel

/-- the start state is the empty model; `loadOldFrom` / `fromDocFrom` from `{}` are `loadOld` / `fromDoc` -/
theorem init_lists (name : String) :
    (abs (emptyModel name)).assets = [] ∧ (abs (emptyModel name)).associations = [] ∧
    (abs (emptyModel name)).attackers = [] ∧ (abs (emptyModel name)).assetIds = [] ∧
    (abs (emptyModel name)).assetNames = [] ∧ (abs (emptyModel name)).typeToAssoc = [] ∧
    (abs (emptyModel name)).nextId = 0 ∧ (abs (emptyModel name)).afresh = 0 ∧ (abs (emptyModel name)).lfresh = 0 ∧
    (abs (emptyModel name)).tfresh = 0 ∧
    (∀ L ok d, loadOldFrom L ok {} d = loadOld L ok d) ∧ (∀ L ok d, fromDocFrom L ok {} d = fromDoc L ok d) :=
  ⟨rfl, rfl, rfl, rfl, rfl, rfl, rfl, rfl, rfl, rfl, fun _ _ _ => rfl, fun _ _ _ => rfl⟩

/-- **C18, 0.0.39 layout.**  For a native document `d` without extras: the translated 0.0.39 loader, on the 0.0.39
file of `d`, returns the model the native loader returns for `d`, and raises exactly when the native loader rejects `d`. -/
theorem old_loader_agrees_with_native {env : ModelEnv} (hE : EqId env) (files : Files) (fac : Factory)
    (hL : FieldsDistinct fac.L) (defsOk : Key → Bool) (nested : Bool) (name : String) (d : ModelDoc) (hx : NoExtras d)
    (hwf : OldWf fac.L nested (emitOld d)) (hdefs : DefsOkOf fac (emitOld d) defsOk)
    (hfuel : d.assets.length ≤ env.whileFuel) :
    okSt (updater_process_model files env (encOld nested name (emitOld d)) fac) =
      optSt (fromDocFrom fac.L defsOk (abs (emptyModel name)) d) := by
  rw [← loadOldFrom_emitOld fac.L defsOk _ d hx]
  exact old_loader_refines hE files fac hL defsOk nested name (emitOld d) hwf hdefs
    (by rw [emitOld_eq]; simpa using hfuel)

/-- … spelled out: whenever one of the two loaders returns a model, so does the other, with the same assets (id, name,
type, value of every defense, extras), the same associations (class, field names, member ids) and the same attackers
(id, name, entry points by asset id and step names), in the same order. -/
theorem old_loader_same_model {env : ModelEnv} (hE : EqId env) (files : Files) (fac : Factory)
    (hL : FieldsDistinct fac.L) (defsOk : Key → Bool) (nested : Bool) (name : String) (d : ModelDoc) (hx : NoExtras d)
    (hwf : OldWf fac.L nested (emitOld d)) (hdefs : DefsOkOf fac (emitOld d) defsOk)
    (hfuel : d.assets.length ≤ env.whileFuel) :
    (∀ s', updater_process_model files env (encOld nested name (emitOld d)) fac = .ok s' →
      ∃ s0, fromDocFrom fac.L defsOk (abs (emptyModel name)) d = .ok s0 ∧ SameModel fac.L (abs s') s0) ∧
    (∀ s0, fromDocFrom fac.L defsOk (abs (emptyModel name)) d = .ok s0 →
      ∃ s', updater_process_model files env (encOld nested name (emitOld d)) fac = .ok s' ∧ SameModel fac.L (abs s') s0) ∧
    ((∃ e, updater_process_model files env (encOld nested name (emitOld d)) fac = .error e) ↔
      (∃ e, fromDocFrom fac.L defsOk (abs (emptyModel name)) d = .error e)) := by
  have h := old_loader_agrees_with_native hE files fac hL defsOk nested name d hx hwf hdefs hfuel
  cases h1 : updater_process_model files env (encOld nested name (emitOld d)) fac with
  | ok s' =>
    cases h2 : fromDocFrom fac.L defsOk (abs (emptyModel name)) d with
    | ok s0 =>
      rw [h1, h2] at h
      have e : abs s' = s0 := by injection h
      subst e
      refine ⟨fun s'' hs => ?_, fun s0 hs0 => ?_, ?_⟩
      · injection hs with hs; subst hs; exact ⟨_, rfl, by constructor <;> rfl⟩
      · injection hs0 with hs0; subst hs0; exact ⟨_, rfl, by constructor <;> rfl⟩
      · constructor <;> (rintro ⟨e, he⟩; cases he)
    | error e0 => rw [h1, h2] at h; cases h
  | error e =>
    cases h2 : fromDocFrom fac.L defsOk (abs (emptyModel name)) d with
    | ok s0 => rw [h1, h2] at h; cases h
    | error e0 =>
      refine ⟨fun s'' hs => (by cases hs), fun s0 hs0 => (by cases hs0), ?_⟩
      exact ⟨fun _ => ⟨e0, rfl⟩, fun _ => ⟨e, rfl⟩⟩

/-- `load_model_from_older_version(filename, factory, '0.0.39')` on a `.json` file whose content is `md`: the
translated `_process_model` on `md` -/
theorem old_loader_from_file_json (files : Files) (env : ModelEnv) (filename : String) (fac : Factory) (md : PyJ)
    (hy1 : filename.endsWith ".yml" = false) (hy2 : filename.endsWith ".yaml" = false)
    (hj : filename.endsWith ".json" = true) (hfile : files.json filename = .ok md) :
    updater_load_model_from_older_version files env filename fac "0.0.39" = updater_process_model files env md fac :=
  older_version_json files env filename fac md hy1 hy2 hj hfile

/-- … on a `.yml` / `.yaml` file -/
theorem old_loader_from_file_yaml (files : Files) (env : ModelEnv) (filename : String) (fac : Factory) (md : PyJ)
    (hy : (filename.endsWith ".yml" || filename.endsWith ".yaml") = true) (hfile : files.yaml filename = .ok md) :
    updater_load_model_from_older_version files env filename fac "0.0.39" = updater_process_model files env md fac :=
  older_version_yaml files env filename fac md hy hfile

/-- any other version string: `ValueError` -/
theorem old_loader_unknown_version (files : Files) (env : ModelEnv) (filename : String) (fac : Factory)
    (version : String) (hv : version ≠ "0.0.39") :
    updater_load_model_from_older_version files env filename fac version = .error (.py .valueError) :=
  older_version_unknown files env filename fac version hv

/-- a file name with another extension: `ValueError` -/
theorem old_loader_unknown_extension (files : Files) (env : ModelEnv) (filename : String) (fac : Factory)
    (hy1 : filename.endsWith ".yml" = false) (hy2 : filename.endsWith ".yaml" = false)
    (hj : filename.endsWith ".json" = false) :
    updater_load_model_from_older_version files env filename fac "0.0.39" = .error (.py .valueError) :=
  older_version_unknown_extension files env filename fac hy1 hy2 hj

/-! ### non-vacuity and the limits, on the sample language of `Props/C18.lean` -/

def demoEnv : ModelEnv := { eqA := fun _ _ => false, eqL := fun _ _ => false, whileFuel := 8 }
def demoFac : Factory := { L := Legacy.Sample.lang, floatOk := fun t => t == "0.0" || t == "1.0" || t == "0.5" }
def demoFiles : Files :=
  { json := fun _ => .error .unmodelled, yaml := fun _ => .error .unmodelled, eom := fun _ => .error .unmodelled }

theorem demoEnv_eqId : EqId demoEnv := ⟨fun _ _ h => (by cases h), fun _ _ h => (by cases h)⟩
theorem demo_fieldsDistinct : FieldsDistinct demoFac.L := by
  intro c hc
  have : c ∈ MS.assocClasses Legacy.Sample.lang := hc
  revert c
  decide

/-- a native document with a non-default defense value, a shorthand entry with a negative id, a link and an attacker
with two steps on one asset -/
def demoDoc : ModelDoc :=
  { assets := [(.i 5, .full "h" "Host" [("patched", "1.0")] none), (.i (-3), .shorthand "Net")],
    associations := [{ cls := "NetCon", lf := "hosts", left := [.i 5], rf := "nets", right := [.i (-3)] }],
    attackers := [(.i 9, { name := "eve", entry := [(.i 5, ["access", "connect"])] })] }

theorem demo_wf (nested : Bool) : OldWf demoFac.L nested (emitOld demoDoc) := by
  refine ⟨by decide, ?_, by decide, by decide⟩
  intro a ha
  have : a = { metaconcept := "NetCon", lf := "hosts", left := [.i 5], rf := "nets", right := [.i (-3)] } := by
    simpa [emitOld, demoDoc] using ha
  subst this
  refine ⟨by decide, fun _ => by decide, ?_⟩
  intro c hc
  have h : (MS.assocClasses Legacy.Sample.lang).find? (·.cls = "NetCon") =
      some ⟨"NetCon", "hosts", "Host", none, "nets", "Net", none⟩ := by decide
  have : c = ⟨"NetCon", "hosts", "Host", none, "nets", "Net", none⟩ := by
    have hc' : (MS.assocClasses Legacy.Sample.lang).find? (·.cls = "NetCon") = some c := hc
    rw [h] at hc'; injection hc' with hc'; exact hc'.symm
  subst this
  decide

/-- the hypotheses of `old_loader_agrees_with_native` hold for it, in both layouts -/
example (nested : Bool) : EqId demoEnv ∧ FieldsDistinct demoFac.L ∧ NoExtras demoDoc ∧
    OldWf demoFac.L nested (emitOld demoDoc) ∧ DefsOkOf demoFac (emitOld demoDoc) (fun _ => true) ∧
    demoDoc.assets.length ≤ demoEnv.whileFuel :=
  ⟨demoEnv_eqId, demo_fieldsDistinct, by decide, demo_wf nested,
   (show ∀ e ∈ (emitOld demoDoc).assets, _ = _ from by decide), by decide⟩

/-- … and the translated loader returns what one expects (nested and flat layout): ids 5 and −3, the shorthand name `Net:-3`, the explicit defense value, the link by ids, the attacker with one tuple -/
example : ∀ nested : Bool,
    loadsWith (updater_process_model demoFiles demoEnv (encOld nested "m" (emitOld demoDoc)) demoFac) (fun s =>
      decide (s.name = "m") &&
      decide ((abs s).assets.map (assetView Legacy.Sample.lang (abs s)) =
          [⟨5, "h", "Host", [("patched", "1.0")], "{}"⟩, ⟨-3, "Net:-3", "Net", [], "{}"⟩]) &&
      decide ((abs s).associations.map (assocView (abs s)) = [⟨"NetCon", "hosts", [5], "nets", [-3], "{}"⟩]) &&
      decide ((abs s).attackers.map (attView (abs s)) = [⟨9, "eve", [(5, ["access", "connect"])]⟩])) = true := by
  intro nested
  cases nested <;> decide +kernel

/-- **`notSwapped` is needed.**  An association entry that lists its two fields in the order opposite to the class
declaration (`nets` before `hosts`) is loaded by the translated code (Python assigns by field NAME), while
`Legacy.loadOld` rejects it (it compares the first field of the entry with the left field of the class). -/
theorem old_loader_swapped_fields_counterexample :
    let d : OldDoc := { assets := [(.i 1, .full "h" "Host" [] ), (.i 2, .shorthand "Net")],
                        associations := [{ metaconcept := "NetCon", lf := "nets", left := [.i 2], rf := "hosts", right := [.i 1] }] }
    (∃ s, updater_process_model demoFiles demoEnv (encOld true "m" d) demoFac = .ok s ∧
      (abs s).associations.map (assocView (abs s)) = [⟨"NetCon", "hosts", [1], "nets", [2], "{}"⟩]) ∧
    loadOld Legacy.Sample.lang (fun _ => true) d = .error .validation ∧
    ¬ (∀ a ∈ d.associations, ∀ c, (MS.assocClasses Legacy.Sample.lang).find? (·.cls = a.metaconcept) = some c →
        ¬ (a.lf = c.rf ∧ a.rf = c.lf)) := by
  refine ⟨?_, rejects_eq (by decide +kernel), ?_⟩
  · have h : loadsWith (updater_process_model demoFiles demoEnv (encOld true "m"
        { assets := [(.i 1, .full "h" "Host" [] ), (.i 2, .shorthand "Net")],
          associations := [{ metaconcept := "NetCon", lf := "nets", left := [.i 2], rf := "hosts", right := [.i 1] }] }) demoFac)
        (fun s => decide ((abs s).associations.map (assocView (abs s)) = [⟨"NetCon", "hosts", [1], "nets", [2], "{}"⟩])) = true := by
      decide +kernel
    obtain ⟨s, hs, hp⟩ := loadsWith_iff.1 h
    exact ⟨s, hs, of_decide_eq_true hp⟩
  · intro h
    exact h _ List.mem_cons_self ⟨"NetCon", "hosts", "Host", none, "nets", "Net", none⟩ (by decide) ⟨rfl, rfl⟩

/-- **outside the model.**  An entry point for an asset id that is not in the file: Python stores the tuple
`(None, steps)` and does not raise; such a tuple has no representation in the heap, the translated code stops with
`unmodelled` (and the hand-written loaders answer `lookupError`).  No theorem above says anything about such files. -/
theorem old_loader_unknown_entry_point_unmodelled :
    let d : OldDoc := { assets := [(.i 1, .full "h" "Host" [])],
                        attackers := [(.i 3, { name := "eve", entry := [(.i 7, ["access"])] })] }
    updater_process_model demoFiles demoEnv (encOld true "m" d) demoFac = .error .unmodelled ∧
    loadOld Legacy.Sample.lang (fun _ => true) d = .error .lookupError := by
  exact ⟨raisesL_eq (by decide +kernel), rejects_eq (by decide +kernel)⟩


/-! ### securiCAD -/

/-- **the translated securiCAD loader is `Legacy.loadScad`.**  For a parsed archive `d` (`files.eom path`): the translated
`load_model_from_scad_archive` returns a model (not `None`) whose abstraction is the state `loadScad` computes, and
returns `None` or raises exactly when `loadScad` rejects the archive.  `lg` (the language graph's
`get_association_by_fields_and_assets`, translated and tied in the domain `lang`) is a parameter with its
specification `LgSpec` (= `LG.lookupAssoc`) as hypothesis; `ObjWf`: per object, the decapitalised evidence names are
distinct, the range-check oracle is the factory's, no evidence attribute has the empty name unless no defense has. -/
theorem scad_loader_refines (files : Files) {env : ModelEnv} (hE : EqId env) (fac : Factory) (lg : LangGraphView)
    (nodes : List AssocDecl) (defsOk : Int → Bool) (path : String) (d : ScadDoc) (hF : FieldsDistinct fac.L)
    (hd : ClassNamesDistinct fac.L) (hnodes : ∀ a ∈ nodes, a ∈ fac.L.assocs) (hlg : LgSpec fac.L nodes lg)
    (hfile : files.eom path = .ok d) (hwf : ∀ o ∈ d.objects, ObjWf fac defsOk o)
    (hfuel : d.objects.length ≤ env.whileFuel) :
    (match securicad_load_model_from_scad_archive files env path lg fac with
     | .ok (some s') => some (abs s') | _ => none) =
      optSt (loadScadFrom fac.L nodes defsOk (abs (emptyModel path)) d) :=
  scad_loader_sim files hE fac lg nodes defsOk path d hF hd hnodes hlg hfile hwf hfuel

/-- `loadScadFrom` from `{}` is `loadScad` -/
theorem scad_init (L : Lang) (nodes : List AssocDecl) (defsOk : Int → Bool) (d : ScadDoc) :
    loadScadFrom L nodes defsOk {} d = loadScad L nodes defsOk d := rfl

/-- **`ObjWf.noEmpty` is needed**: an evidence attribute with the empty name makes the Python raise `IndexError`
(`name[0]`), while the hand-written `loadScadObject` reads the defense `""` (which a class may have) -/
theorem scad_empty_evidence_name_counterexample :
    scadObjectBody cexEnv cexFac cexObj (none, {}) = .error (.py .other) ∧
    ∃ st, loadScadObject cexLang (fun _ => true) (abs {}) cexObj = .ok st :=
  ⟨cex_python_raises, cex_hand_accepts⟩

/-- the language graph view that answers with `LG.lookupAssoc` -/
def demoLg (L : Lang) (nodes : List AssocDecl) : LangGraphView :=
  ⟨fun f1 f2 t1 t2 => match LG.lookupAssoc L nodes f1 f2 t1 t2 with
    | .ok r => .ok r | .error _ => .error (.py .lookupError)⟩

def demoScadFiles : Files :=
  { json := fun _ => .error .unmodelled, yaml := fun _ => .error .unmodelled,
    eom := fun _ => .ok (emitScad Legacy.Sample.lang Legacy.Sample.st) }

/-- the hypotheses of `scad_loader_refines` hold for the archive written for `Legacy.Sample.st` (ids 5, −3, 0; a link with
two left members and a self-link; an attacker with two steps on one asset) -/
example : EqId demoEnv ∧ FieldsDistinct demoFac.L ∧ ClassNamesDistinct demoFac.L ∧
    (∀ a ∈ Legacy.Sample.lang.assocs, a ∈ demoFac.L.assocs) ∧
    LgSpec demoFac.L Legacy.Sample.lang.assocs (demoLg demoFac.L Legacy.Sample.lang.assocs) ∧
    demoScadFiles.eom "m.sCAD" = .ok (emitScad Legacy.Sample.lang Legacy.Sample.st) ∧
    (∀ o ∈ (emitScad Legacy.Sample.lang Legacy.Sample.st).objects, ObjWf demoFac (fun _ => true) o) ∧
    (emitScad Legacy.Sample.lang Legacy.Sample.st).objects.length ≤ demoEnv.whileFuel := by
  refine ⟨demoEnv_eqId, demo_fieldsDistinct, by decide, fun a ha => ha, fun _ _ _ _ => rfl, rfl, ?_, by decide +kernel⟩
  have h : ∀ o ∈ (emitScad Legacy.Sample.lang Legacy.Sample.st).objects,
      (o.defenses.map (fun d => decap d.1)).Nodup ∧
      (fun _ => true) o.id = o.defenses.all (fun d => demoFac.floatOk d.2) ∧
      (∀ d ∈ o.defenses, d.1 = "" → (MS.defensesOf demoFac.L o.metaConcept).any (·.1 = "") = false) := by
    decide +kernel
  exact fun o ho => ⟨(h o ho).1, (h o ho).2.1, (h o ho).2.2⟩

/-- … and the translated loader returns what one expects: the negative id, the non-default defense value, the link with
two left members as two binary associations, the attacker named `Attacker:9` with one tuple per asset -/
example : loadsWithO (securicad_load_model_from_scad_archive demoScadFiles demoEnv "m.sCAD"
      (demoLg Legacy.Sample.lang Legacy.Sample.lang.assocs) demoFac) (fun s =>
    decide (s.name = "m.sCAD") &&
    decide ((abs s).assets.map (assetView Legacy.Sample.lang (abs s)) =
      [⟨5, "h", "Host", [("patched", "1.0")], "{}"⟩, ⟨-3, "Net:-3", "Net", [], "{}"⟩, ⟨0, "g", "Host", [("patched", "0.0")], "{}"⟩]) &&
    decide ((abs s).associations.map (assocView (abs s)) =
      [⟨"NetCon", "hosts", [5], "nets", [-3], "{}"⟩, ⟨"NetCon", "hosts", [0], "nets", [-3], "{}"⟩,
       ⟨"Peer", "peers", [5], "peerOf", [5], "{}"⟩]) &&
    decide ((abs s).attackers.map (attView (abs s)) = [⟨9, "Attacker:9", [(5, ["access", "connect"]), (0, ["access"])]⟩])) = true := by
  decide +kernel

end MalVerif.PropsGen.C18
