import MalVerif.Py.TieGraph
import MalVerif.Props.C13
import MalVerif.PropsGen.C09
/-!
# C13 for the *translated* Python — pruning removes exactly the unviable / unnecessary `or` / `and` steps

`prune_unviable_and_unnecessary_nodes` of `MalVerif/Py/Gen/Apriori.lean` (generated from `analyzers/apriori.py`)
walks over a snapshot of the node list and calls `remove_node` on every `or` / `and` node that is unviable or
unnecessary.  The theorems of `MalVerif/Props/C13.lean` about the hand model `AGS.prune` are restated for
the generated function and proved through `prune_tie` / `prune_ok` of `MalVerif/Py/TieGraph.lean`.
-/
namespace MalVerif.PropsGen.C13
open MalVerif.Py MalVerif.Py.Gen MalVerif.Py.Tie MalVerif.AGS MalVerif.AGraph

/-- a node object that `prune_unviable_and_unnecessary_nodes` removes -/
def prunableH (o : PyNode) : Bool :=
  decide ((o.type = "or" ∨ o.type = "and") ∧ (o.is_viable = false ∨ o.is_necessary = false))

theorem prunableH_iff (o : PyNode) :
    prunableH o = true ↔ ((o.type = "or" ∨ o.type = "and") ∧ (o.is_viable = false ∨ o.is_necessary = false)) := by
  unfold prunableH; exact decide_eq_true_iff

/-- it is the loop condition of the translated code … -/
theorem prunableH_eq_cond (o : PyNode) : prunableH o = TG.pruneCond o := by
  unfold prunableH TG.pruneCond
  by_cases h1 : o.type = "or" <;> by_cases h2 : o.type = "and" <;>
    cases o.is_viable <;> cases o.is_necessary <;> simp [h1, h2]

/-- … and the `prunable` of the hand model -/
theorem prunableH_eq (o : PyNode) : prunableH o = prunable (absN o) := by
  rw [prunableH_eq_cond, TG.pruneCond_eq]

section
variable (s s' : H) (nf af : Nat) (hc : Consistent (absS s nf af))
  (h : prune_unviable_and_unnecessary_nodes s = .ok s')
include hc h

/-- the node list is filtered, order kept -/
theorem prune_nodes : s'.nodes = s.nodes.filter (fun r => !prunableH (s.n r)) := by
  have := MalVerif.C13.prune_nodes (absS s nf af) hc
  rw [← prune_tie s s' nf af h] at this
  rw [show s'.nodes = (absS s' nf af).nodes from rfl, this]
  apply List.filter_congr
  intro r _
  rw [prunableH_eq]; rfl

/-- nothing prunable is left -/
theorem prune_none_left : ∀ r ∈ s'.nodes, prunableH (s'.n r) = false := by
  intro r hr
  have := MalVerif.C13.prune_none_left (absS s nf af) hc r (by rw [← prune_tie s s' nf af h]; exact hr)
  rw [← prune_tie s s' nf af h] at this
  rw [prunableH_eq]; exact this

/-- the graph is still consistent -/
theorem prune_consistent : Consistent (absS s' nf af) := by
  rw [prune_tie s s' nf af h]
  exact MalVerif.C13.prune_consistent _ hc

/-- edges of the remaining nodes stay inside the remaining graph -/
theorem prune_edges_closed :
    ∀ p ∈ s'.nodes, (∀ c ∈ (s'.n p).children, c ∈ s'.nodes) ∧ (∀ c ∈ (s'.n p).parents, c ∈ s'.nodes) := by
  have := MalVerif.C13.prune_edges_closed (absS s nf af) hc
  rw [← prune_tie s s' nf af h] at this
  exact this

end

theorem prune_namesExact (s s' : H) (nf af : Nat) (hc : Consistent (absS s nf af)) (hx : NamesExact (absS s nf af))
    (h : prune_unviable_and_unnecessary_nodes s = .ok s') : NamesExact (absS s' nf af) := by
  rw [prune_tie s s' nf af h]
  exact MalVerif.C13.prune_namesExact _ hc hx

/-- the labels, types and ids of all node objects are unchanged (no hypothesis needed) -/
theorem prune_labels_kept (s s' : H) (h : prune_unviable_and_unnecessary_nodes s = .ok s') (r : NRef) :
    (s'.n r).is_viable = (s.n r).is_viable ∧ (s'.n r).is_necessary = (s.n r).is_necessary ∧
    (s'.n r).type = (s.n r).type ∧ (s'.n r).id = (s.n r).id :=
  have hf := TG.prune_idFrame s s' h
  ⟨hf.viable r, hf.necessary r, hf.ntype r, hf.nid r⟩

/-- in a consistent graph with an exact name index, all of whose nodes have an `id`, pruning returns normally -/
theorem prune_terminates_normally (s : H) (nf af : Nat) (hc : Consistent (absS s nf af))
    (hx : NamesExact (absS s nf af)) (hid : IdsSet s) :
    ∃ s', prune_unviable_and_unnecessary_nodes s = .ok s' := prune_ok s nf af hc hx hid

/-! ### the hypotheses are satisfiable by a non-trivial heap -/

/-- three node objects: `1` is an unviable `or` step, `2` an unnecessary defense -/
private def store : H :=
  { n := fun r => if r = 1 then { is_viable := false }
                  else if r = 2 then { type := "defense", is_necessary := false } else {} }

/-- `p.children.append(c); c.parents.append(p)` on the heap -/
private def linkH (s : H) (p c : NRef) : H :=
  let s1 := s.setN p { s.n p with children := (s.n p).children ++ [c] }
  s1.setN c { s1.n c with parents := (s1.n c).parents ++ [p] }

private theorem absS_linkH (s : H) (p c : NRef) (nf af : Nat) : absS (linkH s p c) nf af = link (absS s nf af) p c := by
  unfold linkH link
  simp only
  rw [TG.absS_setN _ c _ (fun o => { o with parents := o.parents ++ [p] }) nf af rfl,
    TG.absS_setN s p _ (fun o => { o with children := o.children ++ [c] }) nf af rfl]

/-- the three nodes are added (ids 0, 1, 2), `0 → 1` is linked; pruning returns normally, removes exactly node `1`,
keeps the unnecessary defense `2`, and leaves a consistent graph in which `0` no longer has the child `1` -/
example : ∃ s3 s', graph_add_node (TG.anSt (TG.anSt store 0 0) 1 1) 2 none = .ok s3 ∧
    Consistent (absS (linkH s3 0 1) 3 0) ∧ (linkH s3 0 1).nodes = [0, 1, 2] ∧ ((linkH s3 0 1).n 0).children = [1] ∧
    prune_unviable_and_unnecessary_nodes (linkH s3 0 1) = .ok s' ∧
    s'.nodes = [0, 2] ∧ Consistent (absS s' 3 0) ∧ 1 ∉ (s'.n 0).children ∧
    (s'.n 2).is_necessary = false ∧ prunableH (s'.n 2) = false := by
  have c0 : Consistent (absS store 0 0) :=
    Consistent.of_frame (s := {}) ⟨rfl, rfl, rfl, rfl, rfl, rfl, rfl, rfl, rfl⟩
      (fun x => by show (absN (store.n x)).id = _; unfold store; simp only; split <;> (try split) <;> rfl)
      (fun x => by show fullName (absN (store.n x)) = _; unfold store; simp only; split <;> (try split) <;> rfl)
      (fun x => by show (absN (store.n x)).children = _; unfold store; simp only; split <;> (try split) <;> rfl)
      (fun x => by show (absN (store.n x)).parents = _; unfold store; simp only; split <;> (try split) <;> rfl)
      (fun x => by show (absN (store.n x)).compBy = _; unfold store; simp only; split <;> (try split) <;> rfl)
      rfl init_consistent'
  have x0 : NamesExact (absS store 0 0) := by
    intro k r
    show dget [] k = some r ↔ (r ∈ ([] : List Nat) ∧ _)
    simp [dget_nil]
  have e1 : graph_add_node store 0 none = .ok (TG.anSt store 0 0) := rfl
  have e2 : graph_add_node (TG.anSt store 0 0) 1 none = .ok (TG.anSt (TG.anSt store 0 0) 1 1) := rfl
  have e3 : graph_add_node (TG.anSt (TG.anSt store 0 0) 1 1) 2 none =
      .ok (TG.anSt (TG.anSt (TG.anSt store 0 0) 1 1) 2 2) := rfl
  have c1 := C09.add_node_consistent _ _ 0 none 0 c0 ⟨rfl, rfl, rfl⟩ e1
  have x1 := C09.add_node_namesExact _ _ 0 none 0 c0 x0 rfl e1
  have c2 := C09.add_node_consistent _ _ 1 none 0 c1 ⟨rfl, rfl, rfl⟩ e2
  have x2 := C09.add_node_namesExact _ _ 1 none 0 c1 x1 rfl e2
  have c3 := C09.add_node_consistent _ _ 2 none 0 c2 ⟨rfl, rfl, rfl⟩ e3
  have x3 := C09.add_node_namesExact _ _ 2 none 0 c2 x2 rfl e3
  have cL : Consistent (absS (linkH (TG.anSt (TG.anSt (TG.anSt store 0 0) 1 1) 2 2) 0 1) 3 0) := by
    rw [absS_linkH]; exact MalVerif.C09.link_consistent _ 0 1 c3 (by decide) (by decide)
  have xL : NamesExact (absS (linkH (TG.anSt (TG.anSt (TG.anSt store 0 0) 1 1) 2 2) 0 1) 3 0) := by
    rw [absS_linkH]; exact link_namesExact _ 0 1 x3
  have hid : IdsSet (linkH (TG.anSt (TG.anSt (TG.anSt store 0 0) 1 1) 2 2) 0 1) := by
    refine ⟨fun r hr => ?_, fun a ha => by cases ha⟩
    have : r = 0 ∨ r = 1 ∨ r = 2 := by
      have : r ∈ [0, 1, 2] := hr
      simpa using this
    rcases this with rfl | rfl | rfl <;> rfl
  obtain ⟨s', hp⟩ := prune_terminates_normally _ 3 0 cL xL hid
  have hn : s'.nodes = [0, 2] := by rw [prune_nodes _ s' 3 0 cL hp]; rfl
  have cP := prune_consistent _ s' 3 0 cL hp
  have hk := prune_labels_kept _ s' hp 2
  refine ⟨_, s', e3, cL, rfl, rfl, hp, hn, cP, ?_, hk.2.1.trans rfl, ?_⟩
  · intro hm
    have := (prune_edges_closed _ s' 3 0 cL hp 0 (by rw [hn]; decide)).1 1 hm
    rw [hn] at this
    revert this; decide
  · exact prune_none_left _ s' 3 0 cL hp 2 (by rw [hn]; decide)

end MalVerif.PropsGen.C13
