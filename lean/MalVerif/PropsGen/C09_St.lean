import MalVerif.Py.TieSt
import MalVerif.Py.TieStPartial
import MalVerif.PropsGen.C09
/-
C09 / C11 for the translated code, the part that needs THE HEAP AFTER AN EXCEPTION.

`PropsGen/C09.lean` is about `graph_add_attacker : … → Except PyErr H` and friends: when the Python raises the heap
is dropped, so `add_attacker_atomic` there can only say that *whether* the call raises is decided by the initial
heap — which the code before fix b507c7f satisfies as well.  Here the same Python statements are emitted a second
time in the state-keeping mode (`MalVerif/Py/GenSt`, `translators/py2lean_st.py`): `f_st : … → StM PyErr H H`, where
an exception carries the heap at the moment it propagates, and `run (f_st …) : H × Except PyErr Unit` is the heap
afterwards together with the outcome.  The generated coherence theorems (`GenSt/Coh.lean`) tie the two emissions:
`erase (f_st s a) = f s a`.

  * `*_outcome`, `*_ok_heap`: the state-keeping function raises / returns exactly as the first-mode function, with
    the same final heap when it returns — every theorem of `PropsGen/C09.lean`, `C11.lean`, `C13.lean` about `f`
    transfers (`st_transfers`).
  * `add_attacker_rejected_heap_unchanged`, `add_node_rejected_heap_unchanged`: a rejected call leaves the WHOLE heap
    as it was — graph lists, indexes, counters, every node object and every attacker object, the rejected one
    included (fix b507c7f / b653290).
  * `pre_fix_add_attacker_leaves_stray_attacker_st`: the code before b507c7f (hand-written in the same style, it is
    the translator's output for the reverted hunk) violates it on a concrete graph; the current code does not.
  * `*_partial_state`: `undo_compromise` / `remove_attacker` / `remove_node` raise half-way by design on inconsistent
    input; the state they leave (imported from `Py/TieStPartial.lean`).
-/
namespace MalVerif.PropsGen.C09_St
open MalVerif.Py MalVerif.Py.Gen MalVerif.Py.GenSt MalVerif.Py.Tie MalVerif.Py.TieSt MalVerif.PySt

/-! ### the two emissions agree (all twelve mutators of the core; instances of one lemma) -/

/-- generic transfer: from the generated coherence statement `erase x = y` — the outcome is the same, and a
returned heap is the same heap -/
theorem st_transfers {x : StM PyErr H H} {y : Except PyErr H} (h : erase x = y) :
    (run x).2 = y.map (fun _ => ()) ∧ (∀ s', y = .ok s' → (run x).1 = s') ∧
    (∀ e, y = .error e ↔ (run x).2 = .error e) := by
  refine ⟨run_snd_of_coh h, fun s' hs => run_fst_of_coh h hs, fun e => ?_⟩
  rw [run_snd_of_coh h]
  cases y with
  | ok s' => constructor <;> intro h' <;> cases h'
  | error e' => constructor <;> intro h' <;> cases h' <;> rfl

theorem add_attacker_outcome (s : H) (a : ARef) (aid : Option Int) (entry reached : List Int) :
    (run (graph_add_attacker_st s a aid entry reached)).2 =
      (graph_add_attacker s a aid entry reached).map (fun _ => ()) :=
  (st_transfers (graph_add_attacker_coh s a aid entry reached)).1

theorem add_attacker_ok_heap (s s' : H) (a : ARef) (aid : Option Int) (entry reached : List Int)
    (h : graph_add_attacker s a aid entry reached = .ok s') :
    run (graph_add_attacker_st s a aid entry reached) = (s', .ok ()) := by
  rw [ok_of_erase_ok ((graph_add_attacker_coh s a aid entry reached).trans h)]; rfl

theorem add_node_outcome (s : H) (node : NRef) (nid : Option Int) :
    (run (graph_add_node_st s node nid)).2 = (graph_add_node s node nid).map (fun _ => ()) :=
  (st_transfers (graph_add_node_coh s node nid)).1

theorem add_node_ok_heap (s s' : H) (node : NRef) (nid : Option Int) (h : graph_add_node s node nid = .ok s') :
    run (graph_add_node_st s node nid) = (s', .ok ()) := by
  rw [ok_of_erase_ok ((graph_add_node_coh s node nid).trans h)]; rfl

theorem remove_node_outcome (s : H) (node : NRef) :
    (run (graph_remove_node_st s node)).2 = (graph_remove_node s node).map (fun _ => ()) ∧
    ∀ s', graph_remove_node s node = .ok s' → (run (graph_remove_node_st s node)).1 = s' :=
  ⟨(st_transfers (graph_remove_node_coh s node)).1, (st_transfers (graph_remove_node_coh s node)).2.1⟩

theorem remove_attacker_outcome (s : H) (a : ARef) :
    (run (graph_remove_attacker_st s a)).2 = (graph_remove_attacker s a).map (fun _ => ()) ∧
    ∀ s', graph_remove_attacker s a = .ok s' → (run (graph_remove_attacker_st s a)).1 = s' :=
  ⟨(st_transfers (graph_remove_attacker_coh s a)).1, (st_transfers (graph_remove_attacker_coh s a)).2.1⟩

theorem undo_compromise_outcome (s : H) (a : ARef) (n : NRef) :
    (run (attacker_undo_compromise_st s a n)).2 = (attacker_undo_compromise s a n).map (fun _ => ()) ∧
    ∀ s', attacker_undo_compromise s a n = .ok s' → (run (attacker_undo_compromise_st s a n)).1 = s' :=
  ⟨(st_transfers (attacker_undo_compromise_coh s a n)).1, (st_transfers (attacker_undo_compromise_coh s a n)).2.1⟩

theorem attach_attackers_outcome (s : H) (env : EvalEnv) :
    (run (graph_attach_attackers_st s env)).2 = (graph_attach_attackers s env).map (fun _ => ()) ∧
    ∀ s', graph_attach_attackers s env = .ok s' → (run (graph_attach_attackers_st s env)).1 = s' :=
  ⟨(st_transfers (graph_attach_attackers_coh s env)).1, (st_transfers (graph_attach_attackers_coh s env)).2.1⟩

theorem prune_outcome (s : H) :
    (run (prune_unviable_and_unnecessary_nodes_st s)).2 =
      (prune_unviable_and_unnecessary_nodes s).map (fun _ => ()) ∧
    ∀ s', prune_unviable_and_unnecessary_nodes s = .ok s' →
      (run (prune_unviable_and_unnecessary_nodes_st s)).1 = s' :=
  ⟨(st_transfers (prune_unviable_and_unnecessary_nodes_coh s)).1,
   (st_transfers (prune_unviable_and_unnecessary_nodes_coh s)).2.1⟩

theorem calculate_outcome (s : H) :
    (run (calculate_viability_and_necessity_st s)).2 = (calculate_viability_and_necessity s).map (fun _ => ()) ∧
    ∀ s', calculate_viability_and_necessity s = .ok s' → (run (calculate_viability_and_necessity_st s)).1 = s' :=
  ⟨(st_transfers (calculate_viability_and_necessity_coh s)).1,
   (st_transfers (calculate_viability_and_necessity_coh s)).2.1⟩

/-! ### a rejected `add_attacker` / `add_node` leaves the heap as it was -/

/-- **`add_attacker` is atomic** (fix b507c7f, stated about the translated code): if the call raises — whatever the
reason — the heap afterwards IS the heap before: the attacker object keeps its `id`, `entry_points` and
`reached_attack_steps`, no node lists it in `compromised_by`, `next_attacker_id`, `attackers` and `_id_to_attacker`
are untouched.  No hypothesis on the heap. -/
theorem add_attacker_rejected_heap_unchanged (s : H) (a : ARef) (aid : Option Int) (entry reached : List Int)
    (e : PyErr) (h : (run (graph_add_attacker_st s a aid entry reached)).2 = .error e) :
    (run (graph_add_attacker_st s a aid entry reached)).1 = s :=
  add_attacker_st_run_error s a aid entry reached e h

/-- … and it is rejected exactly under the condition `AddAttackerRejects` on the initial heap (already part of the
graph / id in use / an unknown node id), otherwise it returns: together, *rejected ⇒ nothing happened*,
*accepted ⇒ the heap of the first-mode theorems* -/
theorem add_attacker_atomic_st (s : H) (a : ARef) (aid : Option Int) (entry reached : List Int) :
    (C09.AddAttackerRejects s a aid entry reached →
      ∃ e, run (graph_add_attacker_st s a aid entry reached) = (s, .error e)) ∧
    (¬ C09.AddAttackerRejects s a aid entry reached →
      ∃ s', graph_add_attacker s a aid entry reached = .ok s' ∧
        run (graph_add_attacker_st s a aid entry reached) = (s', .ok ())) := by
  constructor
  · intro hr
    obtain ⟨e, he⟩ := ((C09.add_attacker_atomic s a aid entry reached).1).2 hr
    have h2 := ((st_transfers (graph_add_attacker_coh s a aid entry reached)).2.2 e).1 he
    refine ⟨e, ?_⟩
    have h1 := add_attacker_rejected_heap_unchanged s a aid entry reached e h2
    exact Prod.ext h1 h2
  · intro hn
    obtain ⟨s', hs'⟩ := (C09.add_attacker_atomic s a aid entry reached).2 hn
    exact ⟨s', hs', add_attacker_ok_heap s s' a aid entry reached hs'⟩

/-- the C11 reading: after a rejected `add_attacker` no node of the graph is compromised by the rejected attacker
unless it was before, and the attacker object has not changed -/
theorem add_attacker_rejected_no_compromise (s : H) (a : ARef) (aid : Option Int) (entry reached : List Int)
    (e : PyErr) (h : (run (graph_add_attacker_st s a aid entry reached)).2 = .error e) :
    let s' := (run (graph_add_attacker_st s a aid entry reached)).1
    (∀ n, (s'.n n).compromised_by = (s.n n).compromised_by) ∧ s'.a a = s.a a ∧ s'.attackers = s.attackers ∧
      s'.next_attacker_id = s.next_attacker_id := by
  intro s'
  have : s' = s := add_attacker_rejected_heap_unchanged s a aid entry reached e h
  rw [this]; exact ⟨fun _ => rfl, rfl, rfl, rfl⟩

/-- **`add_node` is atomic**: a rejected call (the node object is already part of the graph, b653290, or the id is
in use) leaves the heap as it was — in particular the node keeps its id and the lookup indexes are untouched -/
theorem add_node_rejected_heap_unchanged (s : H) (node : NRef) (nid : Option Int) (e : PyErr)
    (h : (run (graph_add_node_st s node nid)).2 = .error e) : (run (graph_add_node_st s node nid)).1 = s :=
  add_node_st_run_error s node nid e h

/-! ### the hypotheses are satisfiable, and the theorem is not vacuous: the code before b507c7f violates it -/

/-- `demoGraph`: nodes 0 and 1 with ids 0 and 1, no attacker; the attacker object 0 is new.  `add_attacker` with the
reached steps `[0, 7]` (7 names no node) is rejected by the current code and the heap is unchanged -/
example : ∃ e, run (graph_add_attacker_st demoGraph 0 none [] [0, 7]) = (demoGraph, .error e) :=
  (add_attacker_atomic_st demoGraph 0 none [] [0, 7]).1 (Or.inr (Or.inr (Or.inl ⟨7, by decide, by decide⟩)))

/-- the same call is accepted when all ids name nodes (the second half of `add_attacker_atomic_st` applies) -/
example : ¬ C09.AddAttackerRejects demoGraph 0 none [1] [0] := by
  rintro (⟨k, hk, _⟩ | h | ⟨i, hi, h⟩ | ⟨i, hi, h⟩)
  · cases hk
  · revert h; decide
  · rw [List.mem_singleton.1 hi] at h; revert h; decide
  · rw [List.mem_singleton.1 hi] at h; revert h; decide

/-- **the code before fix b507c7f leaves a stray attacker**: on `demoGraph`, `add_attacker(attacker, reached =
[0, 7])` raises `AttackGraphException` at the unknown id 7 — and afterwards node 0 is compromised by an attacker
that is not part of the graph, the attacker object has been given id 0 and lists node 0 as reached, and
`next_attacker_id` has advanced, although `graph.attackers` is still empty.  The current code, same call: the heap
is `demoGraph`, unchanged (`add_attacker_rejected_heap_unchanged`). -/
theorem pre_fix_add_attacker_leaves_stray_attacker_st :
    let r := run (graph_add_attacker_prefix_st demoGraph 0 none [] [0, 7])
    r.2 = .error .attackGraphException ∧
    r.1.attackers = [] ∧ graph_get_attacker_by_id r.1 0 = none ∧
    (demoGraph.n 0).compromised_by = [] ∧ (r.1.n 0).compromised_by = [0] ∧
    (demoGraph.a 0).id = none ∧ (r.1.a 0).id = some 0 ∧ (r.1.a 0).reached_attack_steps = [0] ∧
    demoGraph.next_attacker_id = 0 ∧ r.1.next_attacker_id = 1 ∧
    (run (graph_add_attacker_st demoGraph 0 none [] [0, 7])).2 = .error .attackGraphException ∧
    (run (graph_add_attacker_st demoGraph 0 none [] [0, 7])).1 = demoGraph := by
  refine ⟨rfl, by decide, by decide, by decide, by decide, by decide, by decide, by decide, by decide, by decide,
    rfl, ?_⟩
  exact add_attacker_rejected_heap_unchanged demoGraph 0 none [] [0, 7] .attackGraphException rfl

/-- the other half of the repaired defect: an id already in use.  Before b507c7f the rejected attacker object had
its `id` overwritten with the id of another attacker -/
theorem pre_fix_add_attacker_changes_id_st :
    ∀ s1, graph_add_attacker demoGraph 0 (some 5) [] [] = .ok s1 →
    let r := run (graph_add_attacker_prefix_st s1 1 (some 5) [] [])
    r.2 = .error .valueError ∧ (s1.a 1).id = none ∧ (r.1.a 1).id = some 5 ∧
    (run (graph_add_attacker_st s1 1 (some 5) [] [])).1 = s1 := by
  intro s1 h
  have hs : s1 = Tie.TG.aaApply demoGraph 0 5 [] [] := by
    have : graph_add_attacker demoGraph 0 (some 5) [] [] = .ok (Tie.TG.aaApply demoGraph 0 5 [] []) := by
      rw [Tie.TG.graph_add_attacker_eq]; rfl
    rw [this] at h; injection h with h; exact h.symm
  subst hs
  refine ⟨rfl, by decide, by decide, ?_⟩
  exact add_attacker_rejected_heap_unchanged _ 1 (some 5) [] [] .valueError rfl

/-! ### the removals raise half-way on inconsistent input: the state they leave

(what the harness's "wild histories" observe; proofs in `Py/TieStPartial.lean`) -/

/-- **`undo_compromise`** raises exactly when the node lists the attacker but the attacker does not list the node,
with `ValueError`, and then the node's side HAS been removed (nothing else changed): the two sides of the relation
of C11 are made to agree — by an exception -/
theorem undo_compromise_partial_state (s s' : H) (a : ARef) (n : NRef) (e : PyErr) :
    run (attacker_undo_compromise_st s a n) = (s', .error e) ↔
      e = .valueError ∧ a ∈ (s.n n).compromised_by ∧ n ∉ (s.a a).reached_attack_steps ∧
      s' = s.setN n { s.n n with compromised_by := (s.n n).compromised_by.erase a } := by
  rw [← undo_compromise_st_partial_state_iff]
  cases attacker_undo_compromise_st s a n with
  | ok s1 => constructor <;> intro h <;> cases h
  | error p =>
    obtain ⟨e1, s1⟩ := p
    constructor
    · intro h; cases h; rfl
    · intro h; cases h; rfl

/-- **`remove_attacker`**: the loop that undoes the attacker's compromises cannot raise (it runs over the attacker's
own list); the call raises exactly when, after that loop (heap `s1`), the attacker is not in `graph.attackers`
(`ValueError`, heap `s1`: every compromise undone, nothing else), or it has no id (`ValueError`) or its id is not a
key of `_id_to_attacker` (`KeyError`) — in the last two cases it has ALREADY been removed from `graph.attackers` -/
theorem remove_attacker_partial_state (s s' : H) (a : ARef) (e : PyErr) :
    run (graph_remove_attacker_st s a) = (s', .error e) ↔
      ∃ s1, (s.a a).reached_attack_steps.foldlM (fun h m => attacker_undo_compromise h a m) s = .ok s1 ∧
        ((a ∉ s1.attackers ∧ e = .valueError ∧ s' = s1) ∨
         (a ∈ s1.attackers ∧ (s1.a a).id = none ∧ e = .valueError ∧
           s' = { s1 with attackers := s1.attackers.erase a }) ∨
         (a ∈ s1.attackers ∧ (s1.a a).id.isSome = true ∧ e = .keyError ∧
           dictIn s1._id_to_attacker (optIntGet (s1.a a).id) = false ∧
           s' = { s1 with attackers := s1.attackers.erase a })) := by
  rw [← remove_attacker_st_partial_state_sharp]
  cases graph_remove_attacker_st s a with
  | ok s1 => constructor <;> intro h <;> cases h
  | error p =>
    obtain ⟨e1, s1⟩ := p
    constructor
    · intro h; cases h; rfl
    · intro h; cases h; rfl

/-- **`remove_node`**: a raise inside the four loops or at `self.nodes.remove(node)` (`ValueError`) leaves the
graph's lists, indexes and counters and every node's id / name as they were (`GFrame`; only `parents` / `children` /
`compromised_by` / attackers' lists were written); the later raises leave the node REMOVED from `graph.nodes` while
(no id: `ValueError`; id not indexed: `KeyError`) `_id_to_node` is untouched, or (full name not indexed: `KeyError`)
`_id_to_node` has lost the id but `_full_name_to_node` still has the name -/
theorem remove_node_partial_state (s s' : H) (n : NRef) (e : PyErr)
    (h : run (graph_remove_node_st s n) = (s', .error e)) :
    (e = .valueError ∧ GFrame s s') ∨
    ∃ s4, GFrame s s4 ∧ n ∈ s.nodes ∧
      (((s.n n).id = none ∧ e = .valueError ∧ s' = { s4 with nodes := s.nodes.erase n }) ∨
       ((s.n n).id.isSome = true ∧ e = .keyError ∧ dictIn s._id_to_node (optIntGet (s.n n).id) = false ∧
          s' = { s4 with nodes := s.nodes.erase n }) ∨
       ((s.n n).id.isSome = true ∧ e = .keyError ∧ dictIn s._id_to_node (optIntGet (s.n n).id) = true ∧
          dictIn s._full_name_to_node (node_full_name s n) = false ∧
          s' = { s4 with nodes := s.nodes.erase n,
                         _id_to_node := s._id_to_node.filter (fun e => !(e.1 == optIntGet (s.n n).id)) })) := by
  apply remove_node_st_partial_state
  cases hx : graph_remove_node_st s n with
  | ok s1 => rw [hx] at h; cases h
  | error p => obtain ⟨e1, s1⟩ := p; rw [hx] at h; cases h; rfl

/-- the half-way states are reachable: on `exH1` (node 0 says it is compromised by attacker 0, who has reached
nothing) `remove_node(node0)` raises in its third loop; the node is still registered but no longer lists the
attacker -/
example :
    (run (graph_remove_node_st exH1 0)).2 = .error .valueError ∧ ((run (graph_remove_node_st exH1 0)).1).nodes = [0] ∧
    (exH1.n 0).compromised_by = [0] ∧ (((run (graph_remove_node_st exH1 0)).1).n 0).compromised_by = [] :=
  ⟨rfl, rfl, rfl, rfl⟩

end MalVerif.PropsGen.C09_St
