import MalVerif.Py.TieLangGraph
import MalVerif.Props.C15
/-!
# C15 for the *translated* Python — subtype queries and association lookup of the language graph

`MalVerif/Py/GenLang/Assets.lean` and `GenLang/Assocs.lean` are generated from
`maltoolbox/language/languagegraph.py` (`LanguageGraphAsset.is_subasset_of`, `get_all_subassets`, `get_all_superassets`,
`LanguageGraphAssociation.contains_fieldname`, `contains_asset`, `get_opposite_fieldname`, `get_opposite_asset`,
`LanguageGraph.get_asset_by_name`, `get_association_by_fields_and_assets`).  The theorems of
`MalVerif/Props/C15.lean` about the hand model (`isSub_iff_rtc_closed`, `supers_iff_rtc`, `lookup_correct`,
`lookup_symmetric`, `lookup_unknown_asset`) are restated for the generated functions and proved through the ties
of `MalVerif/Py/TieLangGraph.lean`.

Reading guide: `s : GH` is the heap of language-graph objects, `RepG s L` / `RepA s L nodes`
(`Py/AbsLangGraph.lean`) say that its asset / association objects are those `_generate_graph` builds for the
language `L` (with the association nodes `nodes`); `gname s r` is the name of the asset object `r`;
`declOf s c` reads the association object `c` as a declaration (field names, names of the two asset objects);
`RTC (Extends L)` is the reflexive-transitive closure of `extends`; `Matches L d f1 f2 t1 t2`: the declaration `d`
answers the query in one of the two orientations (`Proofs/LangGraphLemmas.lean`).  "No `extends` cycle above `t`"
is `L.chainOK (|assets| + 1) t`, for all `t` it is `Acyclic L`, equivalently `∀ t, ¬ TC (Extends L) t t`
(`C15.acyclic_iff_acyclic_rel`).  Every statement is followed by an `example` on the heap
`heapOfLang lgL [runs, hl, ho]` (`Leaf extends Mid extends Base`, `Other extends Base`, `Host`; three associations).
-/
namespace MalVerif.PropsGen.C15
open MalVerif MalVerif.LG MalVerif.LG.Demo MalVerif.Py MalVerif.Py.LSpec MalVerif.Py.GenLang
  MalVerif.Py.TieLangGraph

/-! ### 1. subtype queries -/

/-- **`is_subasset_of` (translated) = reflexive-transitive closure of `extends`.**  For two asset objects of a
represented graph, with no `extends` cycle above the first: the translated function returns (it does not raise
and its `while` loop ends within the unrolling bound), and the answer is `True` iff the second asset's type is
reached from the first's by following `extends`. -/
theorem is_subasset_of_iff_rtc (s : GH) (L : Lang) (hG : RepG s L) (a b : GARef) (ha : a ∈ s.assets)
    (hb : b ∈ s.assets) (hok : L.chainOK (L.assets.length + 1) (gname s a) = true) :
    ∃ v, lgasset_is_subasset_of s a b = .ok v ∧ (v = true ↔ RTC (Extends L) (gname s a) (gname s b)) := by
  refine ⟨_, is_subasset_of_tie hG hok ha hb, ?_⟩
  rw [MalVerif.C15.isSub_iff_rtc_closed L hG.supers_ok _ _ hok]
  obtain ⟨d, hd, _⟩ := repG_decl_of_mem hG ha
  simp [hd]

/-- the same with the relational form of acyclicity: no asset type is its own proper ancestor -/
theorem is_subasset_of_iff_rtc_of_acyclic_rel (s : GH) (L : Lang) (hG : RepG s L)
    (hno : ∀ t, ¬ TC (Extends L) t t) (a b : GARef) (ha : a ∈ s.assets) (hb : b ∈ s.assets) :
    ∃ v, lgasset_is_subasset_of s a b = .ok v ∧ (v = true ↔ RTC (Extends L) (gname s a) (gname s b)) :=
  is_subasset_of_iff_rtc s L hG a b ha hb (MalVerif.C15.acyclic_of_acyclic_rel L hno _)

/-- in particular `is_subasset_of` is reflexive and transitive on the asset objects of an acyclic graph -/
theorem is_subasset_of_refl (s : GH) (L : Lang) (hG : RepG s L) (a : GARef) (ha : a ∈ s.assets)
    (hok : L.chainOK (L.assets.length + 1) (gname s a) = true) :
    lgasset_is_subasset_of s a a = .ok true := by
  obtain ⟨v, hv, hiff⟩ := is_subasset_of_iff_rtc s L hG a a ha ha hok
  rw [hv, hiff.2 .refl]

theorem is_subasset_of_trans (s : GH) (L : Lang) (hG : RepG s L) (hac : Acyclic L) (a b c : GARef)
    (ha : a ∈ s.assets) (hb : b ∈ s.assets) (hc : c ∈ s.assets)
    (h1 : lgasset_is_subasset_of s a b = .ok true) (h2 : lgasset_is_subasset_of s b c = .ok true) :
    lgasset_is_subasset_of s a c = .ok true := by
  obtain ⟨v1, e1, i1⟩ := is_subasset_of_iff_rtc s L hG a b ha hb (hac _)
  obtain ⟨v2, e2, i2⟩ := is_subasset_of_iff_rtc s L hG b c hb hc (hac _)
  obtain ⟨v3, e3, i3⟩ := is_subasset_of_iff_rtc s L hG a c ha hc (hac _)
  rw [e1] at h1; rw [e2] at h2
  cases h1; cases h2
  rw [e3, i3.2 ((i1.1 rfl).trans (i2.1 rfl))]

/-- **`get_all_superassets` (translated) lists exactly the ancestors-or-self.**  It returns asset objects of the
graph, the asset itself first, then its ancestors in `extends` order; the names listed are exactly the `u` with
`t extends* u` — and so an asset object of the graph is listed iff its type is reached from `t`. -/
theorem get_all_superassets_exact (s : GH) (L : Lang) (hG : RepG s L) (a : GARef) (ha : a ∈ s.assets)
    (hok : L.chainOK (L.assets.length + 1) (gname s a) = true) :
    ∃ l, lgasset_get_all_superassets s a = .ok l ∧ l.head? = some a ∧ (∀ x ∈ l, x ∈ s.assets) ∧
      l.map (gname s) = supers L (gname s a) ∧
      (∀ u, u ∈ l.map (gname s) ↔ RTC (Extends L) (gname s a) u) ∧
      (∀ x ∈ s.assets, x ∈ l ↔ RTC (Extends L) (gname s a) (gname s x)) := by
  obtain ⟨l, hl, hmap, hmem⟩ := get_all_superassets_tie hG hok ha
  obtain ⟨d, hd, _⟩ := repG_decl_of_mem hG ha
  have hdecl : (L.findAsset (gname s a)).isSome = true := by rw [hd]; rfl
  have hnames : ∀ u, u ∈ l.map (gname s) ↔ RTC (Extends L) (gname s a) u := by
    intro u
    rw [hmap, MalVerif.C15.supers_iff_rtc L _ u hok]
    exact ⟨fun h => h.2.2, fun h => ⟨hdecl, rtc_declared_right hG.supers_ok h hdecl, h⟩⟩
  refine ⟨l, hl, ?_, hmem, hmap, hnames, ?_⟩
  · cases l with
    | nil =>
      have := (hnames (gname s a)).2 .refl
      cases this
    | cons x l =>
      have hx : gname s x = gname s a := by
        have h1 : (supers L (gname s a)).head? = some (gname s x) := by rw [← hmap]; rfl
        have h2 : (supers L (gname s a)).head? = some (gname s a) := by
          simp [supers, Lang.chain, hd, findAsset_name hd]
        rw [h1] at h2
        exact Option.some.inj h2
      rw [repG_gname_inj hG (hmem x List.mem_cons_self) ha hx]
      rfl
  · intro x hx
    rw [← hnames]
    constructor
    · intro h; exact List.mem_map.2 ⟨x, h, rfl⟩
    · intro h
      obtain ⟨y, hy, hyx⟩ := List.mem_map.1 h
      rw [← repG_gname_inj hG (hmem y hy) hx hyx]
      exact hy

/-- **`get_all_subassets` (translated) lists exactly the descendants-or-self.**  In a represented graph without
`extends` cycle it returns (it does not raise and its `while` loop ends within the unrolling bound) a list of
asset objects of the graph without repetitions, and an asset object of the graph is listed iff its type reaches
the asset's type by following `extends`. -/
theorem get_all_subassets_exact (s : GH) (L : Lang) (hG : RepG s L) (hac : Acyclic L) (a : GARef)
    (ha : a ∈ s.assets) :
    ∃ l, lgasset_get_all_subassets s a = .ok l ∧ l.Nodup ∧ (∀ x ∈ l, x ∈ s.assets) ∧
      (∀ x ∈ s.assets, x ∈ l ↔ RTC (Extends L) (gname s x) (gname s a)) := by
  obtain ⟨l, hl, hnd, hmem, hiff⟩ := get_all_subassets_tie hG hac ha
  refine ⟨l, hl, hnd, hmem, fun x hx => ?_⟩
  rw [hiff x hx, MalVerif.C15.isSub_iff_rtc_closed L hG.supers_ok _ _ (hac _)]
  obtain ⟨d, hd, _⟩ := repG_decl_of_mem hG hx
  simp [hd]

/-- sub assets and super assets are converse: `x` is listed among the sub assets of `a` iff `a` is listed among
the super assets of `x` (both translated functions, on the asset objects of an acyclic represented graph) -/
theorem subassets_superassets_converse (s : GH) (L : Lang) (hG : RepG s L) (hac : Acyclic L) (a x : GARef)
    (ha : a ∈ s.assets) (hx : x ∈ s.assets) :
    ∃ subs sups, lgasset_get_all_subassets s a = .ok subs ∧ lgasset_get_all_superassets s x = .ok sups ∧
      (x ∈ subs ↔ a ∈ sups) := by
  obtain ⟨subs, h1, _, _, i1⟩ := get_all_subassets_exact s L hG hac a ha
  obtain ⟨sups, h2, _, _, _, _, i2⟩ := get_all_superassets_exact s L hG x hx (hac _)
  exact ⟨subs, sups, h1, h2, (i1 x hx).trans (i2 a ha).symm⟩

/-- **`get_asset_by_name` (translated)**: the asset object with that name, `None` iff no such asset type is
declared -/
theorem get_asset_by_name_correct (s : GH) (L : Lang) (hG : RepG s L) (n : String) :
    (∀ r, lg_get_asset_by_name s n = some r ↔ r ∈ s.assets ∧ gname s r = n) ∧
    (lg_get_asset_by_name s n = none ↔ L.findAsset n = none) := by
  obtain ⟨h1, h2⟩ := get_asset_by_name_tie hG n
  refine ⟨h1, ?_⟩
  cases hr : lg_get_asset_by_name s n <;> cases hf : L.findAsset n <;> simp [hr, hf] at h2 ⊢

/-! ### 2. association lookup -/

/-- **`get_association_by_fields_and_assets` (translated) answers correctly in both orientations.**  In a
represented graph without `extends` cycle, if the lookup returns: the answer is `None` iff no association object
matches `(f1, f2, t1, t2)` in either orientation; an association object that is returned is one of the graph's,
matches in one of the two orientations, and is the first such in creation order; and both asset types are
declared. -/
theorem lookup_correct_translated (s : GH) (L : Lang) (nodes : List AssocDecl) (hG : RepG s L)
    (hA : RepA s L nodes) (hac : Acyclic L) (f1 f2 t1 t2 : String) (r : Option GCRef)
    (h : lg_get_association_by_fields_and_assets s f1 f2 t1 t2 = .ok r) :
    (r = none ↔ ∀ c ∈ s.associations, ¬ Matches L (declOf s c) f1 f2 t1 t2) ∧
    (∀ c, r = some c → c ∈ s.associations ∧ Matches L (declOf s c) f1 f2 t1 t2 ∧
      ∃ before after, s.associations = before ++ c :: after ∧
        ∀ c' ∈ before, ¬ Matches L (declOf s c') f1 f2 t1 t2) ∧
    (L.findAsset t1).isSome = true ∧ (L.findAsset t2).isSome = true := by
  rw [lookup_tie_find hG hac (repA_ends hA)] at h
  -- the hand model's lookup over the declarations the association objects stand for
  have hm : lookupAssoc L (s.associations.map (declOf s)) f1 f2 t1 t2 = .ok (r.map (declOf s)) := by
    rw [lookupAssoc_eq]
    split at h
    · cases h
    · rename_i hc
      rw [if_neg hc, List.find?_map]
      cases h
      rfl
  obtain ⟨hnone, hsome, hd1, hd2⟩ := MalVerif.C15.lookup_correct L _ f1 f2 t1 t2 _ hm
  have hr : r = s.associations.find? (fun c => lookupPredB L f1 f2 t1 t2 (declOf s c)) := by
    split at h
    · cases h
    · cases h; rfl
  refine ⟨?_, ?_, hd1, hd2⟩
  · rw [show (r = none ↔ r.map (declOf s) = none) by cases r <;> simp, hnone]
    constructor
    · intro hn c hc; exact hn _ (List.mem_map.2 ⟨c, hc, rfl⟩)
    · intro hn a ha
      obtain ⟨c, hc, rfl⟩ := List.mem_map.1 ha
      exact hn c hc
  · intro c hc
    subst hc
    obtain ⟨hp, before, after, happ, hbef⟩ := List.find?_eq_some_iff_append.1 hr.symm
    refine ⟨by rw [happ]; simp, (hsome _ rfl).2, before, after, happ, ?_⟩
    intro c' hc' hmt
    have := hbef c' hc'
    rw [(lookupPredB_iff L f1 f2 t1 t2 _).2 hmt] at this
    cases this

/-- **swapping the two (field, asset type) pairs gives the very same association object** (or both `None`, or
both `LookupError`) -/
theorem lookup_symmetric_translated (s : GH) (L : Lang) (nodes : List AssocDecl) (hG : RepG s L)
    (hA : RepA s L nodes) (hac : Acyclic L) (f1 f2 t1 t2 : String) :
    lg_get_association_by_fields_and_assets s f2 f1 t2 t1 =
      lg_get_association_by_fields_and_assets s f1 f2 t1 t2 := by
  have h1 := lookup_tie hG hA hac f2 f1 t2 t1
  have h2 := lookup_tie hG hA hac f1 f2 t1 t2
  have hp : pairFound s L nodes f2 f1 t2 t1 = pairFound s L nodes f1 f2 t1 t2 := by
    unfold pairFound
    congr 1
    funext p
    exact Bool.or_comm _ _
  rw [hp, Bool.or_comm] at h1
  exact (congrArg Prod.fst h1).trans (congrArg Prod.fst h2).symm

/-- **unknown asset types raise `LookupError`** — and nothing else makes the lookup raise -/
theorem lookup_unknown_asset_raises (s : GH) (L : Lang) (nodes : List AssocDecl) (hG : RepG s L)
    (hA : RepA s L nodes) (hac : Acyclic L) (f1 f2 t1 t2 : String) :
    (L.findAsset t1 = none ∨ L.findAsset t2 = none →
      lg_get_association_by_fields_and_assets s f1 f2 t1 t2 = .error .lookupError) ∧
    (∀ e, lg_get_association_by_fields_and_assets s f1 f2 t1 t2 = .error e →
      e = .lookupError ∧ (L.findAsset t1 = none ∨ L.findAsset t2 = none)) := by
  have ht := lookup_tie hG hA hac f1 f2 t1 t2
  constructor
  · intro hu
    have hm := MalVerif.C15.lookup_unknown_asset L nodes f1 f2 t1 t2 hu
    split at ht
    · exact congrArg Prod.fst ht
    · have := congrArg Prod.snd ht
      rw [hm] at this
      cases this
  · intro e he
    split at ht
    · rename_i hc
      have := congrArg Prod.fst ht
      rw [he] at this
      cases this
      refine ⟨rfl, ?_⟩
      simpa [Option.isNone_iff_eq_none] using hc
    · have := congrArg Prod.fst ht
      rw [he] at this
      cases this

/-- **the translated lookup and the hand model's `lookupAssoc` over the association nodes agree**: one raises iff
the other does; otherwise they return nothing both, or the association object and the association node at the
same position (which agree on name, field names and asset names) -/
theorem lookup_agrees_with_model (s : GH) (L : Lang) (nodes : List AssocDecl) (hG : RepG s L)
    (hA : RepA s L nodes) (hac : Acyclic L) (f1 f2 t1 t2 : String) :
    (lg_get_association_by_fields_and_assets s f1 f2 t1 t2 = .error .lookupError ∧
      lookupAssoc L nodes f1 f2 t1 t2 = .error .lookup) ∨
    (lg_get_association_by_fields_and_assets s f1 f2 t1 t2 = .ok none ∧
      lookupAssoc L nodes f1 f2 t1 t2 = .ok none) ∨
    (∃ c d, lg_get_association_by_fields_and_assets s f1 f2 t1 t2 = .ok (some c) ∧
      lookupAssoc L nodes f1 f2 t1 t2 = .ok (some d) ∧ (c, d) ∈ s.associations.zip nodes ∧
      AssocAgrees s c d) := by
  have ht := lookup_tie hG hA hac f1 f2 t1 t2
  split at ht
  · exact .inl ⟨congrArg Prod.fst ht, congrArg Prod.snd ht⟩
  · right
    cases hp : pairFound s L nodes f1 f2 t1 t2 with
    | none =>
      rw [hp] at ht
      exact .inl ⟨congrArg Prod.fst ht, congrArg Prod.snd ht⟩
    | some p =>
      rw [hp] at ht
      have hm : p ∈ s.associations.zip nodes := List.mem_of_find?_eq_some hp
      exact .inr ⟨p.1, p.2, congrArg Prod.fst ht, congrArg Prod.snd ht, hm, hA.agrees p hm⟩

/-! ### 3. the two sides of an association -/

/-- `contains_fieldname` (translated): the field name is the left or the right one -/
theorem contains_fieldname_iff (s : GH) (c : GCRef) (f : String) :
    lgassoc_contains_fieldname s c f = true ↔ ((declOf s c).leftField = f ∨ (declOf s c).rightField = f) := by
  rw [contains_fieldname_eq]
  simp [declOf]

/-- **`get_opposite_fieldname` (translated) is correct in both orientations**: given the left field name it
returns the right one, given the right one (and not the left) the left one; it raises iff the name is neither -/
theorem get_opposite_fieldname_correct (s : GH) (c : GCRef) (f : String) :
    ((declOf s c).leftField = f → lgassoc_get_opposite_fieldname s c f = .ok (declOf s c).rightField) ∧
    ((declOf s c).leftField ≠ f → (declOf s c).rightField = f →
      lgassoc_get_opposite_fieldname s c f = .ok (declOf s c).leftField) ∧
    ((∃ e, lgassoc_get_opposite_fieldname s c f = .error e) ↔
      ((declOf s c).leftField ≠ f ∧ (declOf s c).rightField ≠ f)) := by
  rw [get_opposite_fieldname_eq]
  simp only [declOf]
  by_cases h1 : (s.assoc c).left_field.fieldname = f <;> by_cases h2 : (s.assoc c).right_field.fieldname = f <;>
    simp [h1, h2]

/-- **`contains_asset` (translated)**: the asset's type is the left or the right asset type or extends it -/
theorem contains_asset_iff (s : GH) (L : Lang) (nodes : List AssocDecl) (hG : RepG s L) (hA : RepA s L nodes)
    (c : GCRef) (hc : c ∈ s.associations) (x : GARef) (hx : x ∈ s.assets)
    (hok : L.chainOK (L.assets.length + 1) (gname s x) = true) :
    ∃ v, lgassoc_contains_asset s c x = .ok v ∧
      (v = true ↔ (RTC (Extends L) (gname s x) (declOf s c).leftAsset ∨
                    RTC (Extends L) (gname s x) (declOf s c).rightAsset)) := by
  obtain ⟨hl, hr⟩ := repA_ends hA c hc
  obtain ⟨v1, e1, i1⟩ := is_subasset_of_iff_rtc s L hG x _ hx hl hok
  obtain ⟨v2, e2, i2⟩ := is_subasset_of_iff_rtc s L hG x _ hx hr hok
  rw [is_subasset_of_tie hG hok hx hl] at e1
  rw [is_subasset_of_tie hG hok hx hr] at e2
  cases e1; cases e2
  refine ⟨_, contains_asset_tie hG hok hx hl hr, ?_⟩
  rw [Bool.or_eq_true]
  exact or_congr i1 i2

/-- **`get_opposite_asset` (translated) is correct in both orientations**: for an asset whose type is (or
extends) the left asset type it returns the right asset object; otherwise, if the type is (or extends) the right
asset type, the left asset object; `None` iff the asset is on neither side.  It does not raise. -/
theorem get_opposite_asset_correct (s : GH) (L : Lang) (nodes : List AssocDecl) (hG : RepG s L)
    (hA : RepA s L nodes) (c : GCRef) (hc : c ∈ s.associations) (x : GARef) (hx : x ∈ s.assets)
    (hok : L.chainOK (L.assets.length + 1) (gname s x) = true) :
    ∃ o, lgassoc_get_opposite_asset s c x = .ok o ∧
      (RTC (Extends L) (gname s x) (declOf s c).leftAsset → o = some (s.assoc c).right_field.asset) ∧
      (¬ RTC (Extends L) (gname s x) (declOf s c).leftAsset → RTC (Extends L) (gname s x) (declOf s c).rightAsset →
        o = some (s.assoc c).left_field.asset) ∧
      (o = none ↔ (¬ RTC (Extends L) (gname s x) (declOf s c).leftAsset ∧
                    ¬ RTC (Extends L) (gname s x) (declOf s c).rightAsset)) := by
  obtain ⟨hl, hr⟩ := repA_ends hA c hc
  obtain ⟨v1, e1, i1⟩ := is_subasset_of_iff_rtc s L hG x _ hx hl hok
  obtain ⟨v2, e2, i2⟩ := is_subasset_of_iff_rtc s L hG x _ hx hr hok
  rw [is_subasset_of_tie hG hok hx hl] at e1
  rw [is_subasset_of_tie hG hok hx hr] at e2
  cases e1; cases e2
  have j1 : L.isSub (gname s x) (declOf s c).leftAsset = true ↔
      RTC (Extends L) (gname s x) (declOf s c).leftAsset := i1
  have j2 : L.isSub (gname s x) (declOf s c).rightAsset = true ↔
      RTC (Extends L) (gname s x) (declOf s c).rightAsset := i2
  refine ⟨_, get_opposite_asset_tie hG hok hx hl hr, ?_, ?_, ?_⟩
  · intro h; rw [if_pos (j1.2 h)]
  · intro h1 h2
    rw [if_neg (fun h => h1 (j1.1 h)), if_pos (j2.2 h2)]
  · rw [← j1, ← j2]
    cases L.isSub (gname s x) (declOf s c).leftAsset <;>
      cases L.isSub (gname s x) (declOf s c).rightAsset <;> simp

/-! ### 4. non-vacuity: the heap of the language `lgL` with its association nodes `[runs, hl, ho]`

asset objects `0 = Base`, `1 = Mid`, `2 = Leaf`, `3 = Other`, `4 = Host`; association objects `0 = Runs`
(`Host.hosts — Base.apps`), `1 = HL` (`Host.hl — Leaf.leaves`), `2 = HO` (`Host.ho — Other.others`) -/

/-- the hypotheses of all theorems above hold for it -/
example : RepG (heapOfLang lgL [runs, hl, ho]) lgL ∧ RepA (heapOfLang lgL [runs, hl, ho]) lgL [runs, hl, ho] ∧
    Acyclic lgL ∧ (∀ t, ¬ TC (Extends lgL) t t) :=
  ⟨repG_heapOfLang _ (by decide) (by decide), repA_heapOfLang _ (by decide), acyclic_of_check lgL (by decide),
   (MalVerif.C15.acyclic_iff_acyclic_rel lgL).1 (acyclic_of_check lgL (by decide))⟩

/-- `RepG` and `RepA` are decidable field by field: the same, checked directly -/
example : RepG (heapOfLang lgL [runs, hl, ho]) lgL :=
  ⟨by decide, by decide, by decide, by decide, by decide, by decide⟩
example : RepA (heapOfLang lgL [runs, hl, ho]) lgL [runs, hl, ho] :=
  ⟨by decide, by decide, by decide⟩

/-- `is_subasset_of`: depth 2 upwards, not downwards, not between siblings, reflexive -/
example : lgasset_is_subasset_of (heapOfLang lgL [runs, hl, ho]) 2 0 = .ok true ∧
    lgasset_is_subasset_of (heapOfLang lgL [runs, hl, ho]) 0 2 = .ok false ∧
    lgasset_is_subasset_of (heapOfLang lgL [runs, hl, ho]) 2 3 = .ok false ∧
    lgasset_is_subasset_of (heapOfLang lgL [runs, hl, ho]) 4 4 = .ok true := by decide

/-- … as `is_subasset_of_iff_rtc` predicts: `Leaf extends* Base` -/
example : RTC (Extends lgL) "Leaf" "Base" := by
  obtain ⟨v, hv, hiff⟩ := is_subasset_of_iff_rtc (heapOfLang lgL [runs, hl, ho]) lgL
    (repG_heapOfLang _ (by decide) (by decide)) 2 0 (by decide) (by decide) (by decide)
  have : v = true := by
    have h : lgasset_is_subasset_of (heapOfLang lgL [runs, hl, ho]) 2 0 = .ok true := by decide
    rw [h] at hv; cases hv; rfl
  exact hiff.1 this

/-- `get_all_superassets`: the asset first, then its ancestors -/
example : lgasset_get_all_superassets (heapOfLang lgL [runs, hl, ho]) 2 = .ok [2, 1, 0] ∧
    lgasset_get_all_superassets (heapOfLang lgL [runs, hl, ho]) 4 = .ok [4] := by decide

/-- `get_all_subassets`: the asset first; all of `Base`'s descendants, only `Leaf` below `Mid` -/
example : lgasset_get_all_subassets (heapOfLang lgL [runs, hl, ho]) 0 = .ok [0, 1, 3, 2] ∧
    lgasset_get_all_subassets (heapOfLang lgL [runs, hl, ho]) 1 = .ok [1, 2] ∧
    lgasset_get_all_subassets (heapOfLang lgL [runs, hl, ho]) 4 = .ok [4] := by decide

/-- `get_asset_by_name` -/
example : lg_get_asset_by_name (heapOfLang lgL [runs, hl, ho]) "Leaf" = some 2 ∧
    lg_get_asset_by_name (heapOfLang lgL [runs, hl, ho]) "Nope" = none := by decide

/-- lookups: both orientations, through sub assets; a mismatch; an unknown asset type (the same queries as for
the hand model in `Props/C15.lean`) -/
example : lg_get_association_by_fields_and_assets (heapOfLang lgL [runs, hl, ho]) "hosts" "apps" "Host" "Leaf" = .ok (some 0) ∧
    lg_get_association_by_fields_and_assets (heapOfLang lgL [runs, hl, ho]) "apps" "hosts" "Leaf" "Host" = .ok (some 0) ∧
    lg_get_association_by_fields_and_assets (heapOfLang lgL [runs, hl, ho]) "leaves" "hl" "Leaf" "Host" = .ok (some 1) ∧
    lg_get_association_by_fields_and_assets (heapOfLang lgL [runs, hl, ho]) "apps" "hosts" "Host" "Leaf" = .ok none ∧
    lg_get_association_by_fields_and_assets (heapOfLang lgL [runs, hl, ho]) "leaves" "hl" "Other" "Host" = .ok none ∧
    lg_get_association_by_fields_and_assets (heapOfLang lgL [runs, hl, ho]) "apps" "hosts" "Host" "Nope" =
      .error .lookupError := by decide

/-- the two sides of `Runs` (object `0`): seen from a `Leaf` (object `2`, a sub asset of the right side `Base`)
the opposite asset is `Host` (object `4`), seen from `Host` it is `Base` (object `0`); `Leaf` is on neither side
of `HO` (object `2`) -/
example : lgassoc_get_opposite_asset (heapOfLang lgL [runs, hl, ho]) 0 2 = .ok (some 4) ∧
    lgassoc_get_opposite_asset (heapOfLang lgL [runs, hl, ho]) 0 4 = .ok (some 0) ∧
    lgassoc_get_opposite_asset (heapOfLang lgL [runs, hl, ho]) 2 2 = .ok none ∧
    lgassoc_contains_asset (heapOfLang lgL [runs, hl, ho]) 0 2 = .ok true ∧
    lgassoc_contains_asset (heapOfLang lgL [runs, hl, ho]) 2 2 = .ok false := by decide

example : lgassoc_get_opposite_fieldname (heapOfLang lgL [runs, hl, ho]) 0 "hosts" = .ok "apps" ∧
    lgassoc_get_opposite_fieldname (heapOfLang lgL [runs, hl, ho]) 0 "apps" = .ok "hosts" ∧
    lgassoc_get_opposite_fieldname (heapOfLang lgL [runs, hl, ho]) 0 "nope" = .error .other ∧
    lgassoc_contains_fieldname (heapOfLang lgL [runs, hl, ho]) 0 "apps" = true ∧
    lgassoc_contains_fieldname (heapOfLang lgL [runs, hl, ho]) 0 "hl" = false := by decide

/-- **the hypothesis on cycles cannot be dropped**: the graph of `cycL` (`A extends B extends A`, `C extends A`)
is a represented heap, but the walk from `A` towards an asset it does not reach never ends, and neither does the
collection of `A`'s sub assets — the translation reports `nonTermination` where the Python loops forever (the
queries that find their target before running round the cycle still answer).  Here the hand model differs: its
fuel-bounded `isSub "A" "C"` answers `false`. -/
theorem is_subasset_of_needs_acyclic :
    RepG (heapOfLang cycL []) cycL ∧ ¬ Acyclic cycL ∧
    lgasset_is_subasset_of (heapOfLang cycL []) 2 1 = .ok true ∧
    lgasset_is_subasset_of (heapOfLang cycL []) 0 2 = .error .nonTermination ∧ cycL.isSub "A" "C" = false ∧
    lgasset_get_all_superassets (heapOfLang cycL []) 2 = .error .nonTermination ∧
    lgasset_get_all_subassets (heapOfLang cycL []) 0 = .error .nonTermination :=
  ⟨repG_heapOfLang _ (by decide) (by decide),
   fun hac => absurd (hac "C") (by decide), by decide, by decide, by decide, by decide, by decide⟩

end MalVerif.PropsGen.C15
