import MalVerif.Props.C04
import MalVerif.Py.TieVisitorTop
import MalVerif.Py.TieVisitorTtc
import MalVerif.Py.TieVisitorEq
import MalVerif.Py.TieVisitorFile
import MalVerif.Proofs.AssembleInclude
import MalVerif.Proofs.CompileRefl
/-!
# C04 for the *translated* visitor

`Props/C04.lean` is about the hand-written fused parser (`parseExpr`, `parseTtcExpr`, …: parsing and visiting in one).
Here the same statements are made about **translated visitor ∘ tree builder**: `Py/GenVisitor/Visitor.lean` is generated
from `mal_visitor.py` on every run, `Model/Compiler/Tree.lean` builds the parse tree ANTLR builds (checked against
ANTLR by the correspondence).  `visitF c toks wf g (.ctx t up)` is `self.visit(t)` of the translated visitor with
`self.compiler.compile = c`, the parser's token stream `toks`, recursion budget `g`, loop budget `wf`, and `up` the
chain of `parentCtx` of `t`.  Values are rendered by `rExpr`, `rTtc`, `rExprs`, `rVar` (`Py/AbsVisitor.lean`).

* the tie, on every token list: `translated_expr_is_model`, `translated_ttc_is_model`, `translated_reaches_is_model`
  (inside a `reaches` clause the classification of `_resolve_part_ID_type` is the model's `dotAhead`),
  `translated_requires_is_model`, `translated_variable_is_model`;
* compile (print x) = x: `compile_print_expr_nav`, `compile_print_reaches`, `compile_print_ttc`;
* precedence / associativity: `shape_collect_left`, `shape_setops_left`, `dot_binds_tighter`,
  `star_and_type_bind_to_part`, `ttc_left_assoc`, `ttc_precedence`;
* classification: `classify_last`;
* associations: `translated_association_is_model` (`visitAssociation` with `_post_process_multitudes`),
  `translated_associations_is_model`, `compile_print_assoc`;
* the whole-file assembly: `translated_visitMal_is_assemble` (`visitMal` = the model's `assemble`: defines, categories,
  associations, include merging, de-duplication with Python's `==`; raises exactly when an include fails),
  `translated_eq_is_model` (Python's `==` on the values that are de-duplicated = `catEqv` / `assetEqv` / `assocEqv`),
  `translated_dedup_meta_order`, `translated_dedup_number_spelling` (the two repaired divergences, on the translated
  code), `translated_include_flatten`, `translated_include_repeat`;
* steps, assets, categories, whole files (§8): `translated_step_is_model` (`visitStep`), `translated_asset_is_model`
  (`visitAsset`), `translated_declaration_is_model` (`visitCategory`, …), `translated_declarations_are_model`
  (`visitCategory` / `visitAsset` / … for every declaration of a file: the hypothesis `DeclVisits` of
  `translated_visitMal_is_assemble` discharged), `translated_parser_accepts_iff`, **`translated_compile_is_model`**
  (translated visitor ∘ tree builder ∘ lexer = rendered `compileFile`, errors iff errors, for every file system),
  `translated_compile_ok_iff`, **`compile_render_print`** (print a specification, render it, compile it with the
  translated visitor: it comes back), `translated_include_flatten_file`, `translated_include_repeat_file`,
  `lexer_tokens_ok` (the former hypotheses `numOK` / `intOK` hold of every token the lexer produces).
-/
namespace MalVerif.PropsGen.C04
open MalVerif MalVerif.Mal MalVerif.Py.Visitor MalVerif.Py.GenVisitor

/-! ### 1. the tie on every token list -/

/-- **Step expressions outside a reaches clause** (`let`, `<-`).  For every list of tokens (with their positions in the
stream): the tree builder fails exactly when the model parser fails; when it succeeds both consume the same tokens and
the translated `visitExpr` (with `visitParts`, `visitPart`, `_resolve_part_ID_type`, `visitSetop`, `visitType`,
`visitVarsubst`) applied to the tree returns the rendering of the model's expression, for every sufficient budget. -/
theorem translated_expr_is_model (c : V → M V) (all : List Tok) (wf f : Nat) (its : List ITok) :
    (treeExpr f its = none → parseExpr f false (its.map Prod.fst) = none) ∧
    (∀ t irest, treeExpr f its = some (t, irest) →
      ∃ e, parseExpr f false (its.map Prod.fst) = some (e, irest.map Prod.fst) ∧
        ∀ g up, t.depth ≤ g → up.length + t.depth < wf → (∀ p ∈ up, isRule "reaches" p = false) →
          visitF c (tokensV all) wf g (.ctx t up) = .ok (rExpr e)) := by
  refine ⟨expr_none f false its, ?_⟩
  intro t irest h
  obtain ⟨e, hp, _, hv⟩ := expr_tie_nav c all wf f its t irest h
  exact ⟨e, hp, hv⟩

/-- the same read from the model's side: what the model parser returns is what the translated visitor returns -/
theorem expr_of_parse (c : V → M V) (all : List Tok) (wf f : Nat) (its : List ITok) (e : Expr) (rest : List Tok)
    (h : parseExpr f false (its.map Prod.fst) = some (e, rest)) :
    ∃ t irest, treeExpr f its = some (t, irest) ∧ irest.map Prod.fst = rest ∧
      ∀ g up, t.depth ≤ g → up.length + t.depth < wf → (∀ p ∈ up, isRule "reaches" p = false) →
        visitF c (tokensV all) wf g (.ctx t up) = .ok (rExpr e) := by
  cases ht : treeExpr f its with
  | none => rw [(translated_expr_is_model c all wf f its).1 ht] at h; cases h
  | some r =>
    obtain ⟨t, irest⟩ := r
    obtain ⟨e', hp, hv⟩ := (translated_expr_is_model c all wf f its).2 t irest ht
    rw [h] at hp
    simp only [Option.some.injEq, Prod.mk.injEq] at hp
    obtain ⟨rfl, rfl⟩ := hp
    exact ⟨t, irest, rfl, rfl, hv⟩

/-- **TTC expressions.**  `numOK`: the text of every INT / FLOAT token is something Python's `float` accepts (always
so for tokens from the lexer; `float` raises otherwise and the model does not). -/
theorem translated_ttc_is_model (c : V → M V) (toks : List V) (wf f : Nat) (its : List ITok)
    (hnum : ∀ x ∈ its, numOK x.1 = true) :
    (treeTtcExpr f its = none → parseTtcExpr f (its.map Prod.fst) = none) ∧
    (∀ t irest, treeTtcExpr f its = some (t, irest) →
      ∃ e, parseTtcExpr f (its.map Prod.fst) = some (e, irest.map Prod.fst) ∧
        ∀ g up, t.depth ≤ g → visitF c toks wf g (.ctx t up) = .ok (rTtc e)) :=
  ⟨ttcexpr_none f its, fun t irest h => ttcexpr_tie c toks wf f its t irest hnum h⟩

theorem ttc_of_parse (c : V → M V) (toks : List V) (wf f : Nat) (its : List ITok) (hnum : ∀ x ∈ its, numOK x.1 = true)
    (e : TTC) (rest : List Tok) (h : parseTtcExpr f (its.map Prod.fst) = some (e, rest)) :
    ∃ t irest, treeTtcExpr f its = some (t, irest) ∧ irest.map Prod.fst = rest ∧
      ∀ g up, t.depth ≤ g → visitF c toks wf g (.ctx t up) = .ok (rTtc e) := by
  cases ht : treeTtcExpr f its with
  | none => rw [(translated_ttc_is_model c toks wf f its hnum).1 ht] at h; cases h
  | some r =>
    obtain ⟨t, irest⟩ := r
    obtain ⟨e', hp, hv⟩ := (translated_ttc_is_model c toks wf f its hnum).2 t irest ht
    rw [h] at hp
    simp only [Option.some.injEq, Prod.mk.injEq] at hp
    obtain ⟨rfl, rfl⟩ := hp
    exact ⟨t, irest, rfl, rfl, hv⟩

/-- **A reaches clause in its file.**  The tokens of the file are `front ++ arrow :: ts`; the tree builder makes the
children `cs` of the `reaches` context out of a prefix of `ts`, and what follows the clause is the end of the input or
a token that ends a clause (the next step, `let`, `}`).  Then the translated `visitReaches` — which classifies every
name by scanning the parser's token stream from the name to the last token of the clause (`_resolve_part_ID_type`) —
returns the rendering of what the model parser returns, which classifies by `dotAhead`. -/
theorem translated_reaches_is_model (c : V → M V) (all front ts : List Tok) (arrow : Tok)
    (harrow : arrow = Tok.leadsto ∨ arrow = Tok.inherits) (hall : all = front ++ arrow :: ts) (wf f : Nat)
    (cs : List PT) (irest : List ITok) (h : treeExprList f (ts.zipIdx (front.length + 1)) = some (cs, irest))
    (hend : clauseEnd (irest.map Prod.fst) = true) :
    ∃ es, parseExprList f true ts = some (es, irest.map Prod.fst) ∧
      ∀ g up, PT.depthL cs ≤ g → up.length + 1 + PT.depthL cs < wf → StopsOK up (tokensV all) →
        visitF c (tokensV all) wf (g+1) (.ctx (.rule "reaches" (leaf (arrow, front.length) :: cs)) up) =
          .ok (rExprs (arrow == Tok.leadsto) es) := by
  apply reaches_clause_tie c all front ts arrow harrow hall wf f cs irest h
  cases hr : irest.map Prod.fst with
  | nil => exact Or.inl rfl
  | cons t r => rw [hr] at hend; exact Or.inr ⟨t, r, rfl, hend⟩

/-- **A requires clause** (`<-`): every name is a field -/
theorem translated_requires_is_model (c : V → M V) (all : List Tok) (wf f : Nat) (its : List ITok) (cs : List PT)
    (irest : List ITok) (i : Nat) (h : treeExprList f its = some (cs, irest)) :
    ∃ es, parseExprList f false (its.map Prod.fst) = some (es, irest.map Prod.fst) ∧
      ∀ g up, PT.depthL cs ≤ g → up.length + 1 + PT.depthL cs < wf → (∀ p ∈ up, isRule "reaches" p = false) →
        visitF c (tokensV all) wf (g+1) (.ctx (.rule "precondition" (leaf (Tok.requires, i) :: cs)) up) =
          .ok (rExprs true es) :=
  requires_clause_tie c all wf f its cs irest i h

/-- **A variable** (`let v = expr`) -/
theorem translated_variable_is_model (c : V → M V) (all : List Tok) (wf f : Nat) (its : List ITok) (e : PT)
    (irest : List ITok) (i j k : Nat) (v : String) (h : treeExpr f its = some (e, irest)) :
    ∃ ex, parseExpr f false (its.map Prod.fst) = some (ex, irest.map Prod.fst) ∧
      ∀ g up, e.depth ≤ g → up.length + 1 + e.depth < wf → (∀ p ∈ up, isRule "reaches" p = false) →
        visitF c (tokensV all) wf (g+1)
          (.ctx (.rule "variable" [leaf (Tok.kwLet, i), leaf (Tok.id v, j), leaf (Tok.assign, k), e]) up) =
            .ok (rVar (v, ex)) :=
  variable_tie c all wf f its e irest i j k v h

/-! ### 2. compile (print x) = x -/

/-- printing an expression without attack steps (with minimal parentheses) and running the translated visitor on the
tree of the printed tokens gives the expression back -/
theorem compile_print_expr_nav (c : V → M V) (all : List Tok) (wf : Nat) (e : Expr) (he : WFExprNav e) (f k : Nat)
    (rest : List Tok) (hr : headP contExpr rest = false) (hf : 2 * (prExpr 0 false e).length + 1 ≤ f) :
    ∃ t irest, treeExpr f ((prExpr 0 false e ++ rest).zipIdx k) = some (t, irest) ∧ irest.map Prod.fst = rest ∧
      ∀ g up, t.depth ≤ g → up.length + t.depth < wf → (∀ p ∈ up, isRule "reaches" p = false) →
        visitF c (tokensV all) wf g (.ctx t up) = .ok (rExpr e) :=
  expr_of_parse c all wf f _ e rest (by rw [List.zipIdx_map_fst]; exact MalVerif.C04.parse_print_expr_nav e he f rest hr hf)

theorem clauseEnd_contList (rest : List Tok) (h : clauseEnd rest = true) : headP contList rest = false := by
  cases rest with
  | nil => rfl
  | cons t r => cases t <;> simp_all [clauseEnd, endsClause, headP, contList, contExpr, contParts, contPart]

/-- printing a reaches clause (`->` / `+>` and a non-empty list of expressions each of which ends in its attack step
or, more generally, is classified as the compiler classifies: `clsList true false`) in front of the next step / `let` /
`}` / the end of the input, and running the translated `visitReaches` on the tree of the printed tokens inside the
token stream of the file, gives the clause back: the override flag and the expressions -/
theorem compile_print_reaches (c : V → M V) (front rest : List Tok) (arrow : Tok)
    (harrow : arrow = Tok.leadsto ∨ arrow = Tok.inherits) (es : List Expr) (hne : es ≠ [])
    (hc : clsList true false es = true) (hrest : clauseEnd rest = true) (wf f : Nat)
    (hf : 2 * (prExprList es).length + 2 ≤ f) :
    ∃ cs irest, treeExprList f ((prExprList es ++ rest).zipIdx (front.length + 1)) = some (cs, irest) ∧
      irest.map Prod.fst = rest ∧
      ∀ g up, PT.depthL cs ≤ g → up.length + 1 + PT.depthL cs < wf →
        StopsOK up (tokensV (front ++ arrow :: (prExprList es ++ rest))) →
        visitF c (tokensV (front ++ arrow :: (prExprList es ++ rest))) wf (g+1)
          (.ctx (.rule "reaches" (leaf (arrow, front.length) :: cs)) up) = .ok (rExprs (arrow == Tok.leadsto) es) := by
  have hparse : parseExprList f true (prExprList es ++ rest) = some (es, rest) :=
    MalVerif.C04.parse_print_exprlist es hne f true rest (by rw [clauseEnd_dotAhead rest hrest]; exact hc)
      (clauseEnd_contList rest hrest) hf
  cases ht : treeExprList f ((prExprList es ++ rest).zipIdx (front.length + 1)) with
  | none =>
    have := exprlist_none f true _ ht
    rw [List.zipIdx_map_fst, hparse] at this
    cases this
  | some r =>
    obtain ⟨cs, irest⟩ := r
    obtain ⟨es0, hp0, _, _⟩ := exprlist_tie c (tokensV (front ++ arrow :: (prExprList es ++ rest))) wf
      (resolveSpec_tokensV _ wf) f true _ cs irest ht
    rw [List.zipIdx_map_fst, hparse] at hp0
    simp only [Option.some.injEq, Prod.mk.injEq] at hp0
    obtain ⟨rfl, hrest'⟩ := hp0
    obtain ⟨es1, hp1, hv⟩ := translated_reaches_is_model c _ front (prExprList es ++ rest) arrow harrow rfl wf f cs irest ht
      (by rw [← hrest']; exact hrest)
    rw [hparse] at hp1
    simp only [Option.some.injEq, Prod.mk.injEq] at hp1
    obtain ⟨rfl, _⟩ := hp1
    exact ⟨cs, irest, rfl, hrest'.symm, hv⟩

/-- TTC expressions: print and compile.  `numsOK`: every number of the expression is text `float` accepts -/
def numsOK : TTC → Bool
  | .func _ args => args.all floatOK
  | .num v => floatOK v
  | .bin _ l r => numsOK l && numsOK r

theorem numOK_prArgs : ∀ (as : List String), as.all floatOK = true → ∀ x ∈ prArgs as, numOK x = true
  | [], _, x, hx => by simp [prArgs] at hx; subst hx; rfl
  | [a], h, x, hx => by
    simp only [prArgs, List.mem_cons, List.not_mem_nil, or_false] at hx
    rcases hx with rfl | rfl
    · simpa [numOK] using h
    · rfl
  | a :: b :: as, h, x, hx => by
    simp only [prArgs, List.mem_cons] at hx
    simp only [List.all_cons, Bool.and_eq_true] at h
    rcases hx with rfl | rfl | hx
    · simpa [numOK] using h.1
    · rfl
    · exact numOK_prArgs (b :: as) (by simpa using h.2) x hx

theorem numOK_parenT (b : Bool) (ts : List Tok) (h : ∀ x ∈ ts, numOK x = true) : ∀ x ∈ parenT b ts, numOK x = true := by
  intro x hx
  unfold parenT at hx
  split at hx
  · simp only [List.mem_cons, List.mem_append, List.not_mem_nil, or_false] at hx
    rcases hx with rfl | hx | rfl
    · rfl
    · exact h x hx
    · rfl
  · exact h x hx

theorem numOK_prTtc : ∀ (t : TTC) (ctx : Nat) (right : Bool), numsOK t = true → ∀ x ∈ prTtc ctx right t, numOK x = true
  | .func n [], ctx, right, _, x, hx => by simp [prTtc] at hx; subst hx; rfl
  | .func n (a :: as), ctx, right, h, x, hx => by
    simp only [prTtc, List.mem_cons] at hx
    rcases hx with rfl | rfl | hx
    · rfl
    · rfl
    · exact numOK_prArgs (a :: as) (by simpa [numsOK] using h) x hx
  | .num v, ctx, right, h, x, hx => by
    simp only [prTtc, List.mem_cons, List.not_mem_nil, or_false] at hx
    subst hx; simpa [numOK, numsOK] using h
  | .bin op l r, ctx, right, h, x, hx => by
    simp only [numsOK, Bool.and_eq_true] at h
    unfold prTtc at hx
    simp only at hx
    split at hx
    all_goals
      refine numOK_parenT _ _ ?_ x hx
      intro y hy
      simp only [List.mem_append, List.mem_cons] at hy
      rcases hy with hy | rfl | hy
      · exact numOK_prTtc l _ _ h.1 y hy
      · first | rfl | (unfold ttcOp; split <;> (try split) <;> (try split) <;> (try split) <;> rfl)
      · exact numOK_prTtc r _ _ h.2 y hy

/-- printing a TTC expression (the five operators, minimal parentheses) and running the translated `visitTtcexpr` on
the tree of the printed tokens gives it back -/
theorem compile_print_ttc (c : V → M V) (toks : List V) (wf : Nat) (t : TTC) (hw : wfTtc t = true) (hn : numsOK t = true)
    (f k : Nat) (rest : List Tok) (hr : headP contTExpr rest = false) (hrn : ∀ x ∈ rest, numOK x = true)
    (hf : 2 * (prTtc 0 false t).length + 2 ≤ f) :
    ∃ tr irest, treeTtcExpr f ((prTtc 0 false t ++ rest).zipIdx k) = some (tr, irest) ∧ irest.map Prod.fst = rest ∧
      ∀ g up, tr.depth ≤ g → visitF c toks wf g (.ctx tr up) = .ok (rTtc t) := by
  apply ttc_of_parse c toks wf f _ _ t rest
  · rw [List.zipIdx_map_fst]; exact MalVerif.C04.parse_print_ttc t hw f rest hr hf
  · intro x hx
    obtain ⟨i, hi, hget⟩ := List.mem_iff_getElem.mp hx
    have hx1 : x.1 ∈ prTtc 0 false t ++ rest := by
      rw [← hget]; simp only [List.getElem_zipIdx]; exact List.getElem_mem _
    rcases List.mem_append.mp hx1 with h1 | h1
    · exact numOK_prTtc t 0 false hn _ h1
    · exact hrn _ h1

/-! ### 3. precedence and associativity, for the translated visitor -/

/-- the value the translated visitor returns for the tokens `ts` of a complete expression (outside a reaches clause) -/
def TranslatedExprIs (ts : List Tok) (f : Nat) (e : Expr) : Prop :=
  ∀ (c : V → M V) (all : List Tok) (wf k : Nat), ∃ t, treeExpr f (ts.zipIdx k) = some (t, []) ∧
    ∀ g up, t.depth ≤ g → up.length + t.depth < wf → (∀ p ∈ up, isRule "reaches" p = false) →
      visitF c (tokensV all) wf g (.ctx t up) = .ok (rExpr e)

theorem translatedExprIs_of_parse {ts : List Tok} {f : Nat} {e : Expr} (h : parseExpr f false ts = some (e, [])) :
    TranslatedExprIs ts f e := by
  intro c all wf k
  obtain ⟨t, irest, ht, hr, hv⟩ := expr_of_parse c all wf f (ts.zipIdx k) e [] (by rw [List.zipIdx_map_fst]; exact h)
  have : irest = [] := by simpa using hr
  subst this
  exact ⟨t, ht, hv⟩

/-- `a.b.c ↦ collect (collect a b) c` -/
theorem shape_collect_left (a b c : String) :
    TranslatedExprIs [.id a, .dot, .id b, .dot, .id c] 9 (.collect (.collect (.field a) (.field b)) (.field c)) :=
  translatedExprIs_of_parse (MalVerif.C04.shape_collect_left a b c)

/-- the three set operators share one level and associate to the left: `a \/ b - c /\ d ↦ ((a ∪ b) − c) ∩ d`
(the translated `visitExpr` reads the operator of every step of the chain, `ctx.children[2*i-1]`) -/
theorem shape_setops_left (a b c d : String) :
    TranslatedExprIs [.id a, .union, .id b, .minus, .id c, .intersect, .id d] 12
      (.inter (.diff (.union (.field a) (.field b)) (.field c)) (.field d)) :=
  translatedExprIs_of_parse (MalVerif.C04.shape_setops_left a b c d)

/-- `a \/ b.c ↦ a ∪ (b.c)` and `a.b \/ c ↦ (a.b) ∪ c` -/
theorem dot_binds_tighter (a b c : String) :
    TranslatedExprIs [.id a, .union, .id b, .dot, .id c] 9 (.union (.field a) (.collect (.field b) (.field c))) ∧
    TranslatedExprIs [.id a, .dot, .id b, .union, .id c] 9 (.union (.collect (.field a) (.field b)) (.field c)) :=
  ⟨translatedExprIs_of_parse (MalVerif.C04.dot_binds_tighter a b c).1,
   translatedExprIs_of_parse (MalVerif.C04.dot_binds_tighter a b c).2⟩

/-- `a.b*[T] ↦ a.((b*)[T])`; a parenthesis makes the whole chain the operand: `(a.b)*[T]` -/
theorem star_and_type_bind_to_part (a b t : String) :
    TranslatedExprIs [.id a, .dot, .id b, .star, .lsquare, .id t, .rsquare] 12
      (.collect (.field a) (.sub t (.trans (.field b)))) ∧
    TranslatedExprIs [.lparen, .id a, .dot, .id b, .rparen, .star, .lsquare, .id t, .rsquare] 14
      (.sub t (.trans (.collect (.field a) (.field b)))) :=
  ⟨translatedExprIs_of_parse (MalVerif.C04.star_and_type_bind_to_part a b t).1,
   translatedExprIs_of_parse (MalVerif.C04.star_and_type_bind_to_part a b t).2⟩

/-- the value the translated visitor returns for the tokens `ts` of a complete TTC expression -/
def TranslatedTtcIs (ts : List Tok) (f : Nat) (e : TTC) : Prop :=
  ∀ (c : V → M V) (toks : List V) (wf k : Nat), ∃ t, treeTtcExpr f (ts.zipIdx k) = some (t, []) ∧
    ∀ g up, t.depth ≤ g → visitF c toks wf g (.ctx t up) = .ok (rTtc e)

theorem translatedTtcIs_of_parse {ts : List Tok} {f : Nat} {e : TTC} (hn : ∀ x ∈ ts, numOK x = true)
    (h : parseTtcExpr f ts = some (e, [])) : TranslatedTtcIs ts f e := by
  intro c toks wf k
  obtain ⟨t, irest, ht, hr, hv⟩ := ttc_of_parse c toks wf f (ts.zipIdx k)
    (by
      intro x hx
      obtain ⟨i, hi, hget⟩ := List.mem_iff_getElem.mp hx
      apply hn
      rw [← hget]; simp only [List.getElem_zipIdx]; exact List.getElem_mem _)
    e [] (by rw [List.zipIdx_map_fst]; exact h)
  have : irest = [] := by simpa using hr
  subst this
  exact ⟨t, ht, hv⟩

/-- `a * 3 / 4 ↦ (a * 3) / 4`, `a - 3 + 4 ↦ (a - 3) + 4` (the translated `visitTtcterm` / `visitTtcexpr` read the
operator of every step of the chain) -/
theorem ttc_left_assoc (a x y : String) (hx : floatOK x = true) (hy : floatOK y = true) :
    TranslatedTtcIs [.id a, .star, .int x, .divide, .int y] 12
      (.bin "division" (.bin "multiplication" (.func a []) (.num x)) (.num y)) ∧
    TranslatedTtcIs [.id a, .minus, .int x, .plus, .int y] 12
      (.bin "addition" (.bin "subtraction" (.func a []) (.num x)) (.num y)) := by
  have hn1 : ∀ t ∈ [Tok.id a, .star, .int x, .divide, .int y], numOK t = true := by
    intro t ht; simp only [List.mem_cons, List.not_mem_nil, or_false] at ht
    rcases ht with rfl | rfl | rfl | rfl | rfl <;> simp [numOK, hx, hy]
  have hn2 : ∀ t ∈ [Tok.id a, .minus, .int x, .plus, .int y], numOK t = true := by
    intro t ht; simp only [List.mem_cons, List.not_mem_nil, or_false] at ht
    rcases ht with rfl | rfl | rfl | rfl | rfl <;> simp [numOK, hx, hy]
  exact ⟨translatedTtcIs_of_parse hn1 (MalVerif.C04.ttc_left_assoc a x y).1,
         translatedTtcIs_of_parse hn2 (MalVerif.C04.ttc_left_assoc a x y).2⟩

/-- `^` over `* /` over `+ -`: `a + b * c ^ d ↦ a + (b * (c ^ d))` -/
theorem ttc_precedence (a b c d : String) :
    TranslatedTtcIs [.id a, .plus, .id b, .star, .id c, .power, .id d] 16
      (.bin "addition" (.func a []) (.bin "multiplication" (.func b [])
        (.bin "exponentiation" (.func c []) (.func d [])))) :=
  translatedTtcIs_of_parse (by
    intro t ht; simp only [List.mem_cons, List.not_mem_nil, or_false] at ht
    rcases ht with rfl | rfl | rfl | rfl | rfl | rfl | rfl <;> rfl) (MalVerif.C04.ttc_precedence a b c d)

/-! ### 4. classification of names in a reaches clause -/

theorem parseExprList_single (f : Nat) (reach : Bool) (ts : List Tok) (e : Expr) (rest : List Tok)
    (h : parseExpr f reach ts = some (e, rest)) (hr : clauseEnd rest = true) :
    parseExprList (f+1) reach ts = some ([e], rest) := by
  unfold parseExprList
  rw [h]
  cases rest with
  | nil => rfl
  | cons t r => cases t <;> simp_all [clauseEnd, endsClause]

/-- **whatever the labels of `nav . n` were**: in a reaches clause that ends after it, the translated visitor makes
the last name the attack step and all names of `nav` fields -/
theorem classify_last (c : V → M V) (front rest : List Tok) (arrow : Tok)
    (harrow : arrow = Tok.leadsto ∨ arrow = Tok.inherits) (nav : Expr) (n : String) (hrest : clauseEnd rest = true)
    (wf f : Nat) (hf : 2 * (prExpr 0 false (.collect nav (.field n))).length + 1 ≤ f) :
    ∃ cs irest, treeExprList (f+1) ((prExpr 0 false (.collect nav (.field n)) ++ rest).zipIdx (front.length + 1)) =
        some (cs, irest) ∧ irest.map Prod.fst = rest ∧
      ∀ g up, PT.depthL cs ≤ g → up.length + 1 + PT.depthL cs < wf →
        StopsOK up (tokensV (front ++ arrow :: (prExpr 0 false (.collect nav (.field n)) ++ rest))) →
        visitF c (tokensV (front ++ arrow :: (prExpr 0 false (.collect nav (.field n)) ++ rest))) wf (g+1)
          (.ctx (.rule "reaches" (leaf (arrow, front.length) :: cs)) up) =
            .ok (rExprs (arrow == Tok.leadsto) [.collect (relabel true true nav) (.step n)]) ∧
        WFExprNav (relabel true true nav) := by
  have hcont : headP contExpr rest = false := headP_contExpr_of_contList rest (clauseEnd_contList rest hrest)
  obtain ⟨hparse1, hnav⟩ := MalVerif.C04.classify_last nav n f rest (clauseEnd_dotAhead rest hrest) hcont hf
  have hparse := parseExprList_single f true _ _ rest hparse1 hrest
  cases ht : treeExprList (f+1) ((prExpr 0 false (.collect nav (.field n)) ++ rest).zipIdx (front.length + 1)) with
  | none =>
    have := exprlist_none (f+1) true _ ht
    rw [List.zipIdx_map_fst, hparse] at this
    cases this
  | some r =>
    obtain ⟨cs, irest⟩ := r
    obtain ⟨es0, hp0, _, _⟩ := exprlist_tie c (tokensV (front ++ arrow :: (prExpr 0 false (.collect nav (.field n)) ++ rest))) wf
      (resolveSpec_tokensV _ wf) (f+1) true _ cs irest ht
    rw [List.zipIdx_map_fst, hparse] at hp0
    simp only [Option.some.injEq, Prod.mk.injEq] at hp0
    obtain ⟨rfl, hrest'⟩ := hp0
    obtain ⟨es1, hp1, hv⟩ := translated_reaches_is_model c _ front _ arrow harrow rfl wf (f+1) cs irest ht
      (by rw [← hrest']; exact hrest)
    rw [hparse] at hp1
    simp only [Option.some.injEq, Prod.mk.injEq] at hp1
    obtain ⟨rfl, _⟩ := hp1
    exact ⟨cs, irest, rfl, hrest'.symm, fun g up h1 h2 h3 => ⟨hv g up h1 h2 h3, hnav⟩⟩

/-! ### 5. the hypotheses are satisfiable, and the statements speak about something: concrete instances -/

/-- `-> a.b, c` at the end of a file `| s -> a.b, c`: the translated visitor returns overrides = true,
`[collect (field a) (attackStep b), attackStep c]` -/
example : ∃ cs irest,
    treeExprList 20 ((prExprList [.collect (.field "a") (.step "b"), .step "c"] ++ []).zipIdx 3) = some (cs, irest) ∧
    irest.map Prod.fst = [] ∧
    ∀ g up, PT.depthL cs ≤ g → up.length + 1 + PT.depthL cs < 50 →
      StopsOK up (tokensV ([Tok.or_, .id "s"] ++ Tok.leadsto :: (prExprList [.collect (.field "a") (.step "b"), .step "c"] ++ []))) →
      visitF (fun _ => .error .compileError)
        (tokensV ([Tok.or_, .id "s"] ++ Tok.leadsto :: (prExprList [.collect (.field "a") (.step "b"), .step "c"] ++ []))) 50 (g+1)
        (.ctx (.rule "reaches" (leaf (Tok.leadsto, 2) :: cs)) up) =
          .ok (rExprs true [.collect (.field "a") (.step "b"), .step "c"]) :=
  compile_print_reaches _ [Tok.or_, .id "s"] [] Tok.leadsto (Or.inl rfl) _ (by simp) (by decide) rfl 50 20 (by decide)

/-- … and `StopsOK` holds for the empty chain of ancestors -/
example (toks : List V) : StopsOK [] toks := fun _ h => by cases h

/-- a TTC expression with numbers: `numsOK`, `wfTtc` hold and the theorem applies -/
example : numsOK (.bin "addition" (.func "Exponential" ["0.1"]) (.bin "multiplication" (.num "2.0") (.func "Gamma" ["1.5", "15.0"]))) = true ∧
    wfTtc (.bin "addition" (.func "Exponential" ["0.1"]) (.bin "multiplication" (.num "2.0") (.func "Gamma" ["1.5", "15.0"]))) = true := by
  decide

/-- the shape theorems are about trees that exist: the tree of `a.b.c` -/
example : ∃ t, treeExpr 9 ([Tok.id "a", .dot, .id "b", .dot, .id "c"].zipIdx 0) = some (t, []) :=
  (shape_collect_left "a" "b" "c" (fun _ => .error .compileError) [] 100 0).imp fun _ h => h.1

/-! ### 6. associations -/

/-- **An association** `A [f] m <-- L --> m [g] B meta*`.  For every token list: the tree builder fails exactly when
the model parser fails; otherwise they consume the same tokens and the translated `visitAssociation` (with
`visitLinkname`, `visitField`, the `meta` comprehension, the `pop(0)` / `pop()` reading of the multiplicities and
`_post_process_multitudes`) returns the rendering of the model's association, multiplicities normalised as
`parseMult` normalises them.  `intOK`: INT tokens carry ASCII digit strings (what the lexer produces). -/
theorem translated_association_is_model (c : V → M V) (toks : List V) (wf f : Nat) (its : List ITok)
    (hint : ∀ x ∈ its, intOK x.1 = true) :
    (treeAssociation f its = none → parseAssociation f (its.map Prod.fst) = none) ∧
    (∀ t irest, treeAssociation f its = some (t, irest) →
      ∃ a, parseAssociation f (its.map Prod.fst) = some (a, irest.map Prod.fst) ∧
        ∀ g up, t.depth ≤ g → visitF c toks wf g (.ctx t up) = .ok (rAssoc a)) := by
  have h := association_loop c toks wf f its hint
  constructor
  · intro hn; rw [hn] at h; exact h
  · intro t irest hs
    rw [hs] at h
    obtain ⟨a, hp, _, _, hv⟩ := h
    exact ⟨a, hp, hv⟩

/-- **The declaration `associations { … }`**: `visitAssociations` returns `("associations", [every association])` -/
theorem translated_associations_is_model (c : V → M V) (toks : List V) (wf f : Nat) (its : List ITok)
    (hint : ∀ x ∈ its, intOK x.1 = true) :
    (treeAssociationsBody f its = none → parseAssociationsBody f [] (its.map Prod.fst) = none) ∧
    (∀ cs irest, treeAssociationsBody f its = some (cs, irest) →
      ∃ as, parseAssociationsBody f [] (its.map Prod.fst) = some (as, irest.map Prod.fst) ∧
        ∀ g i j up, (assocsNode i j cs).depth ≤ g →
          visitF c toks wf g (.ctx (assocsNode i j cs) up) = .ok (.tuple [.str "associations", .list (as.map rAssoc)])) := by
  have h := associations_tie c toks wf f its hint
  constructor
  · intro hn; rw [hn] at h; exact h
  · intro cs irest hs
    rw [hs] at h
    obtain ⟨as, hp, _, hv⟩ := h
    exact ⟨as, hp, hv⟩

/-- the tokens the printer emits satisfy `intOK` when … they are the printed multiplicities (digit strings of numbers) -/
theorem compile_print_assoc (c : V → M V) (toks : List V) (wf : Nat) (a : CAssoc) (hw : WFAssoc a) (f k : Nat)
    (rest : List Tok) (hr : metaStart rest = false) (hf : a.metaD.length ≤ f)
    (hint : ∀ x ∈ prAssoc a ++ rest, intOK x = true) :
    ∃ t irest, treeAssociation f ((prAssoc a ++ rest).zipIdx k) = some (t, irest) ∧ irest.map Prod.fst = rest ∧
      ∀ g up, t.depth ≤ g → visitF c toks wf g (.ctx t up) = .ok (rAssoc a) := by
  have hparse := MalVerif.C04.parse_print_assoc a hw f rest hr hf
  have hint' : ∀ x ∈ (prAssoc a ++ rest).zipIdx k, intOK x.1 = true := by
    intro x hx
    exact hint x.1 (by have := List.mem_map_of_mem (f := Prod.fst) hx; rwa [List.zipIdx_map_fst] at this)
  have h := translated_association_is_model c toks wf f _ hint'
  rw [List.zipIdx_map_fst, hparse] at h
  cases ht : treeAssociation f ((prAssoc a ++ rest).zipIdx k) with
  | none => exact absurd (h.1 ht) (by simp)
  | some r =>
    obtain ⟨t, irest⟩ := r
    obtain ⟨a', hp, hv⟩ := h.2 t irest ht
    simp only [Option.some.injEq, Prod.mk.injEq] at hp
    obtain ⟨rfl, hrest⟩ := hp
    exact ⟨t, irest, rfl, hrest.symm, hv⟩

/-! ### 7. `visitMal`: the whole-file assembly, includes, de-duplication -/

/-- **Python's `==` on what `visitMal` de-duplicates is the model's relation**: on the renderings of two categories /
assets / associations the prelude's `==` (dictionaries ignore key order, lists element-wise, floats by value) is
`catEqv` / `assetEqv` / `assocEqv` -/
theorem translated_eq_is_model :
    (∀ a b, V.eq (rCategory a) (rCategory b) = catEqv a b) ∧ (∀ a b, V.eq (rAsset a) (rAsset b) = assetEqv a b) ∧
    (∀ a b, V.eq (rAssoc a) (rAssoc b) = assocEqv a b) := ⟨eq_rCategory, eq_rAsset, eq_rAssoc⟩

/-- **`visitMal` is the model's `assemble`.**  `cs` are the children of the `mal` context, `ds` the model's
declarations.  Hypotheses: visiting the child of the i-th `declaration` context returns the rendering of the i-th
model declaration (`DeclVisits`; discharged by `translated_associations_is_model`, `include_tie`, `define_tie` and — not
yet proved — the category tie); `self.compiler.compile` returns the rendering of the model's compilation of the
included file and raises where the model fails (`CompileOK`).  Then the translated `visitMal` returns the rendering of
`assemble inc ds` — defines updated in order, categories / assets / associations appended, every included
specification merged key by key, and finally the first-occurrence de-duplication with Python's `==` — and it raises
exactly when `assemble` fails, i.e. when an include fails. -/
theorem translated_visitMal_is_assemble (c : V → M V) (toks : List V) (wf g : Nat) (inc : String → Option CSpec)
    (hinc : CompileOK (selfAt c toks wf g) inc) (cs up : List PT) (ds : List Decl)
    (hvis : Forall2 (DeclVisits (selfAt c toks wf g))
      ((cs.filter (isRule "declaration")).map (mkCtx (.rule "mal" cs) up)) ds) :
    match assemble inc ds with
    | some s => visitF c toks wf (g+1) (.ctx (.rule "mal" cs) up) = .ok (rSpec s)
    | none => ∃ e, visitF c toks wf (g+1) (.ctx (.rule "mal" cs) up) = .error e := by
  rw [visitF_mal]
  exact visitMal_spec (selfAt c toks wf g) inc hinc eqOK cs up ds hvis

/-- the second loop of `visitMal` on Python values, `unique = []; for item in l: if item not in unique: …` -/
theorem translated_dedup_is_model {α : Type} (r : α → V) (e : α → α → Bool) (h : ∀ a b, V.eq (r a) (r b) = e a b)
    (l : List α) : dedupV [] (l.map r) = (dedupBy e l).map r := by
  have := dedupV_map r e h [] l
  rw [dedupBy_eq_aux]
  simpa using this

/-- **the repaired divergence F1 on the translated code**: two declarations of an asset that differ only in the order
of their meta entries are one asset for the translated `visitMal` (its `item not in unique` uses `==` on dicts) -/
theorem translated_dedup_meta_order :
    let a1 : CAsset := { name := "Ab", category := "Sys", isAbstract := false, superAsset := none,
                         metaD := [("user", "x"), ("developer", "y")], steps := [{ name := "s", type := "or" }] }
    let a2 : CAsset := { a1 with metaD := [("developer", "y"), ("user", "x")] }
    dedupV [] [rAsset a1, rAsset a2] = [rAsset a1] := by
  intro a1 a2
  have := translated_dedup_is_model rAsset assetEqv eq_rAsset [a1, a2]
  rw [MalVerif.C04.dedup_merges_meta_order.1] at this
  exact this

/-- **F2 on the translated code**: `Exponential(1.0)` and `Exponential(1.00)` are the same for `==` -/
theorem translated_dedup_number_spelling :
    let st (n : String) : CStep := { name := "s", type := "or", ttc := some (.func "Exponential" [n]) }
    let a (n : String) : CAsset := { name := "Ab", category := "Sys", isAbstract := false, superAsset := none, steps := [st n] }
    dedupV [] [rAsset (a "1.0"), rAsset (a "1.00"), rAsset (a "1.5")] = [rAsset (a "1.0"), rAsset (a "1.5")] := by
  intro st a
  have := translated_dedup_is_model rAsset assetEqv eq_rAsset [a "1.0", a "1.00", a "1.5"]
  rw [show dedupBy assetEqv [a "1.0", a "1.00", a "1.5"] = [a "1.0", a "1.5"] from by decide] at this
  exact this

/-- **include flattening for the translated code**: what an included file contributed may be de-duplicated first (its
own `visitMal` did) — the outer de-duplication gives the same list … -/
theorem translated_include_flatten {α : Type} (r : α → V) (e : α → α → Bool) (h : ∀ a b, V.eq (r a) (r b) = e a b)
    (a b : List α) : dedupV [] ((dedupBy e a ++ b).map r) = dedupV [] ((a ++ b).map r) := by
  rw [translated_dedup_is_model r e h, translated_dedup_is_model r e h, MalVerif.C04.include_flatten]

/-- … and a file included twice contributes nothing the second time -/
theorem translated_include_repeat {α : Type} (r : α → V) (e : α → α → Bool) (h : ∀ a b, V.eq (r a) (r b) = e a b)
    (a x b : List α) (hrefl : ∀ y ∈ x, e y y = true) :
    dedupV [] ((a ++ x ++ b ++ x).map r) = dedupV [] ((a ++ x ++ b).map r) := by
  rw [translated_dedup_is_model r e h, translated_dedup_is_model r e h, MalVerif.C04.include_repeat e a x b hrefl]

/-- the hypotheses of `translated_visitMal_is_assemble` are satisfiable: a `mal` node with one `include` declaration,
the callback returning the rendering of a specification with one category -/
example : visitF (fun _ => .ok (rSpec { categories := [("Sys", [])] })) [] 0 5
      (.ctx (.rule "mal" [.rule "declaration" [.rule "include" [leaf (.kwInclude, 0), leaf (.str "\"a.mal\"", 1)]]]) []) =
    .ok (rSpec { categories := [("Sys", [])] }) := by
  have h := translated_visitMal_is_assemble (fun _ => .ok (rSpec { categories := [("Sys", [])] })) [] 0 4
    (fun _ => some { categories := [("Sys", [])] }) (fun p => rfl)
    [.rule "declaration" [.rule "include" [leaf (.kwInclude, 0), leaf (.str "\"a.mal\"", 1)]]] [] [.incl "a.mal"]
    (.cons ⟨_, rfl, (include_tie (fun _ => .ok (rSpec { categories := [("Sys", [])] })) [] 0 "\"a.mal\"" 0 1 4 _
      (by decide)).trans rfl⟩ .nil)
  exact h


/-! ### 8. steps, assets, categories — and whole files -/

/-- **A step** `steptype ID tag* cias? ttc? meta* precondition? reaches?` at its place in the token stream of the file
`all` (`AtPos`: `its` is what is left of the indexed stream).  The tree builder fails exactly when the model parser
fails; otherwise they consume the same tokens, and — when the step is followed by the end of the input or a token that
ends a clause (`EndsOK`; inside an asset body always: `}`, `let` or the next step type) — the translated `visitStep`
(name, meta comprehension, `visitSteptype`, tags, `visitCias`, `visitTtc`, `visitPrecondition`, `visitReaches` with the
scan of `_resolve_part_ID_type`) returns the rendering of the model's step. -/
theorem translated_step_is_model (c : V → M V) (all : List Tok) (wf f : Nat) (its : List ITok) (hpos : AtPos all its)
    (hnum : ∀ x ∈ its, numOK x.1 = true) :
    (treeStep f its = none → parseStep f (its.map Prod.fst) = none) ∧
    (∀ t irest, treeStep f its = some (t, irest) →
      ∃ s, parseStep f (its.map Prod.fst) = some (s, irest.map Prod.fst) ∧
        (EndsOK irest → ∀ g up, t.depth ≤ g → up.length + t.depth < wf → (∀ p ∈ up, isRule "reaches" p = false) →
          visitF c (tokensV all) wf g (.ctx t up) = .ok (rStep s))) := by
  refine ⟨step_none f its, fun t irest h => ?_⟩
  obtain ⟨s, hp, -, -, hv⟩ := step_tie c all wf f its t irest hpos hnum h
  exact ⟨s, hp, hv⟩

/-- **The declarations of a file** (`include`, `#define`, `category { asset … }`, `associations { … }`): the tree builder
fails exactly when the model parser fails; otherwise the same tokens are consumed and visiting the child of the i-th
`declaration` context with the translated visitor (`visitInclude`, `visitDefine`, `visitCategory` → `visitAsset` →
`visitStep` / `visitVariable`, `visitAssociations`) gives the rendering of the i-th model declaration — the hypothesis
`DeclVisits` of `translated_visitMal_is_assemble`, now a theorem. -/
theorem translated_declarations_are_model (c : V → M V) (all : List Tok) (wf f : Nat) (its : List ITok)
    (hpos : AtPos all its) (hok : ∀ x ∈ its, tokOK x.1 = true) :
    (treeDeclsRest f its = none → parseDeclsRest f [] (its.map Prod.fst) = none) ∧
    (∀ cs irest, treeDeclsRest f its = some (cs, irest) →
      ∃ ds, parseDeclsRest f [] (its.map Prod.fst) = some (ds, irest.map Prod.fst) ∧
        ∀ g node up, PT.depthL cs ≤ g → up.length + 1 + PT.depthL cs < wf →
          (∀ p ∈ node :: up, isRule "reaches" p = false) →
          Forall2 (DeclVisits (selfAt c (tokensV all) wf g)) (cs.map (mkCtx node up)) ds) := by
  have h := decls_tie c all wf f its [] hpos hok
  constructor
  · intro hn; rw [hn] at h; exact h
  · intro cs irest hs
    rw [hs] at h
    obtain ⟨ds, hp, -, hv⟩ := h
    exact ⟨ds, by simpa using hp, hv⟩

/-- **An asset** `abstract? asset ID (extends ID)? meta* { (step | variable)* }` at its place in the token stream, below
a `category` context of the name `cat` (`visitAsset` reads `ctx.parentCtx.ID()`): the tree builder fails exactly when
the model parser fails; otherwise the same tokens are consumed and the translated `visitAsset` (name = first `ID`,
`isAbstract` = there is an `ABSTRACT` token, `superAsset` = second `ID` if there is one, meta comprehension, the two
comprehensions over `ctx.variable()` / `ctx.step()`) returns the rendering of the model's asset. -/
theorem translated_asset_is_model (c : V → M V) (all : List Tok) (wf f : Nat) (cat : String) (its : List ITok)
    (hpos : AtPos all its) (hok : ∀ x ∈ its, tokOK x.1 = true) :
    (treeAsset f its = none → parseAsset f cat (its.map Prod.fst) = none) ∧
    (∀ t irest, treeAsset f its = some (t, irest) →
      ∃ a, parseAsset f cat (its.map Prod.fst) = some (a, irest.map Prod.fst) ∧
        ∀ g ci cj crest up, t.depth ≤ g → up.length + 1 + t.depth < wf → (∀ p ∈ up, isRule "reaches" p = false) →
          visitF c (tokensV all) wf g (.ctx t (catNode ci cj cat crest :: up)) = .ok (rAsset a)) := by
  have h := asset_tie c all wf f cat its hpos hok
  constructor
  · intro hn; rw [hn] at h; exact h
  · intro t irest hs
    rw [hs] at h
    obtain ⟨a, hp, -, -, hv⟩ := h
    exact ⟨a, hp, hv⟩

/-- **One declaration** — in particular `category ID meta* { asset* }`: the tree builder fails exactly when the model
parser fails; otherwise the same tokens are consumed, the tree is a `declaration` context with one child, and the
translated visitor on the child (`visitCategory`: `("categories", ([{name, meta}], [every asset]))`; `visitInclude`;
`visitDefine`; `visitAssociations`) returns the rendering `rDecl` of the model's declaration. -/
theorem translated_declaration_is_model (c : V → M V) (all : List Tok) (wf f : Nat) (its : List ITok)
    (hpos : AtPos all its) (hok : ∀ x ∈ its, tokOK x.1 = true) :
    (treeDecl f its = none → parseDecl f (its.map Prod.fst) = none) ∧
    (∀ t irest, treeDecl f its = some (t, irest) →
      ∃ d, parseDecl f (its.map Prod.fst) = some (d, irest.map Prod.fst) ∧
        ∃ child, t = .rule "declaration" [child] ∧
          ∀ g up, t.depth ≤ g → up.length + t.depth < wf → (∀ p ∈ up, isRule "reaches" p = false) →
            visitF c (tokensV all) wf g (.ctx child (t :: up)) = .ok (rDecl d)) := by
  have h := decl_tie c all wf f its hpos hok
  constructor
  · intro hn; rw [hn] at h; exact h
  · intro t irest hs
    rw [hs] at h
    obtain ⟨d, hp, -, hv⟩ := h
    exact ⟨d, hp, hv⟩

/-- a category with an abstract asset (one step with tag, CIA, TTC, meta, requires, reaches) and an asset that extends
it (one variable) -/
def demoCategoryToks : List Tok :=
  [.kwCategory, .id "Sys", .id "user", .kwInfo, .colon, .str "\"x\"", .lcurly,
     .kwAbstract, .kwAsset, .id "Ab", .lcurly,
       .or_, .id "s", .at, .id "hidden", .lcurly, .c, .comma, .a, .rcurly, .lsquare, .id "Exponential", .lparen, .float "0.5", .rparen, .rsquare,
         .id "user", .kwInfo, .colon, .str "\"y\"", .requires, .id "f", .leadsto, .id "g", .dot, .id "h", .comma, .id "k",
     .rcurly,
     .kwAsset, .id "Bc", .kwExtends, .id "Ab", .lcurly, .kwLet, .id "v", .assign, .id "f", .union, .id "g", .rcurly,
   .rcurly]

/-- the statements speak about something, and their hypotheses are satisfiable: on `demoCategoryToks` tree builder and
model parser succeed and consume everything, and the translated visitor on the `category` context returns the
rendering of the model's declaration (for every sufficient budget) -/
example : ∃ t child d, treeDecl 30 (indexed demoCategoryToks) = some (t, []) ∧ t = .rule "declaration" [child] ∧
    parseDecl 30 demoCategoryToks = some (d, []) ∧
    ∀ g, t.depth ≤ g → visitF (fun _ => .error .compileError) (tokensV demoCategoryToks) 100 g (.ctx child [t]) = .ok (rDecl d) := by
  have hmap : (indexed demoCategoryToks).map Prod.fst = demoCategoryToks := by rw [Mal.indexed, List.zipIdx_map_fst]
  have h := translated_declaration_is_model (fun _ => .error .compileError) demoCategoryToks 100 30
    (indexed demoCategoryToks) (AtPos.indexed _) (by decide)
  rw [hmap] at h
  have hsome : (parseDecl 30 demoCategoryToks).map (·.2) = some [] := by decide
  have hdepth : (treeDecl 30 (indexed demoCategoryToks)).map (fun r => decide (r.1.depth < 100)) = some true := by decide
  cases ht : treeDecl 30 (indexed demoCategoryToks) with
  | none => rw [h.1 ht] at hsome; cases hsome
  | some r =>
    obtain ⟨t, irest⟩ := r
    obtain ⟨d, hp, child, hc, hv⟩ := h.2 t irest ht
    rw [hp] at hsome
    have hnil : irest = [] := by simpa using hsome
    subst hnil
    rw [ht] at hdepth
    have hd : t.depth < 100 := by simpa using hdepth
    exact ⟨t, child, d, rfl, hc, hp, fun g hg => hv g [] hg (by simpa using hd) (fun _ h => by cases h)⟩

/-- the former hypotheses `numOK` (numeric tokens carry a text `float` accepts) and `intOK` (INT tokens are non-empty
ASCII digit strings) hold of every token the model lexer produces -/
theorem lexer_tokens_ok (src : String) (ts : List Tok) (h : lex src = some ts) :
    ∀ t ∈ ts, numOK t = true ∧ intOK t = true :=
  fun t ht => ⟨tokOK_num (lex_tokOK src ts h t ht), tokOK_int (lex_tokOK src ts h t ht)⟩

/-- the tree builder's start rule consumes a lexed token list completely exactly when the model's `parseMal` accepts it
(`treeMalRest` ↔ `parseMalRest`: same failures, same tokens left) -/
theorem translated_parser_accepts_iff (src : String) (ts : List Tok) (h : lex src = some ts) :
    (∃ t, treeMalRest ts = some (t, [])) ↔ ∃ ds, parseMal ts = some ds :=
  treeMalRest_parseMal ts (lex_tokOK src ts h)

/-- **translated visitor ∘ tree builder ∘ lexer = rendered `compileFile`.**  For every file system `files`, every root
file and every include depth `f`: `compileGen` — `MalCompiler.compile` with the model's lexer and tree builder and the
visitor generated from `mal_visitor.py`, whose `self.compiler.compile` is `compileGen` one level down — returns the
rendering of the specification the model's `compileFile` returns, and raises where `compileFile` has none (missing
file, lexical error, syntax error, trailing input, failing include, include depth exhausted).  No hypothesis. -/
theorem translated_compile_is_model (files : String → Option String) (f : Nat) (name : String) :
    match compileFile files f name with
    | some s => compileGen files f (.str name) = .ok (rSpec s)
    | none => ∃ e, compileGen files f (.str name) = .error e :=
  compileGen_tie files f name

/-- the same as an equivalence: the translated compile succeeds with `v` iff the model compiles to a specification
rendered `v` -/
theorem translated_compile_ok_iff (files : String → Option String) (f : Nat) (name : String) (v : V) :
    compileGen files f (.str name) = .ok v ↔ ∃ s, compileFile files f name = some s ∧ v = rSpec s := by
  have h := compileGen_tie files f name
  cases hc : compileFile files f name with
  | none =>
    rw [hc] at h
    obtain ⟨e, he⟩ := h
    simp [he]
  | some s =>
    rw [hc] at h
    simp only [h, Except.ok.injEq, Option.some.injEq, exists_eq_left']
    exact eq_comm

/-- **compile (render (print s)) = s for the translated code**: the file containing the rendered printed specification
compiles — lexer, tree builder, translated visitor — to the rendering of `s`.  `WFSpec s`: what the compiler can
produce (distinct keys, no two items equal for Python's `==`, …, `Props/C04.lean`); `NamesLexable s`: the names and
literals of `s` are lexable. -/
theorem compile_render_print (files : String → Option String) (f : Nat) (name : String) (s : CSpec)
    (hw : WFSpec s) (hn : NamesLexable s) (hfile : files name = some (render (prSpec s))) :
    compileGen files (f+1) (.str name) = .ok (rSpec s) := by
  have h := compileGen_tie files (f+1) name
  rw [MalVerif.C04.compile_render_print_names files f name s hw hn hfile] at h
  exact h

/-- the hypotheses are satisfiable: the demonstration specification of `Props/C04.lean` (most constructs of the
language) comes back through the translated visitor -/
example : compileGen (fun n => if n = "demo.mal" then some (render (prSpec MalVerif.C04.demoSpec)) else none) 1
    (.str "demo.mal") = .ok (rSpec MalVerif.C04.demoSpec) :=
  compile_render_print _ 0 "demo.mal" _ MalVerif.C04.demoSpec_wf MalVerif.C04.demoSpec_names (by simp)

/-- **include flattening at file level (translated code)**: a file `root` that starts with `include "p"` compiles to
the same result as the file `root'` that has the declarations of `p` in place of the include (`p` itself without
includes) — same specification, and it fails iff the other fails -/
theorem translated_include_flatten_file (files : String → Option String) (f : Nat) (root root' p src src' srcP : String)
    (ds dsP : List Decl) (hroot : files root = some src) (hsrc : parseSource src = some (.incl p :: ds))
    (hp : files p = some srcP) (hsrcP : parseSource srcP = some dsP) (hno : ∀ d ∈ dsP, noIncl d = true)
    (hroot' : files root' = some src') (hsrc' : parseSource src' = some (dsP ++ ds)) (v : V) :
    compileGen files (f+2) (.str root) = .ok v ↔ compileGen files (f+2) (.str root') = .ok v := by
  have hmodel : compileFile files (f+2) root = compileFile files (f+2) root' := by
    rw [compileFile_succ, compileFile_succ, hroot, hroot']
    simp only [Option.bind_some, hsrc, hsrc']
    apply assemble_include_first
    rw [compileFile_succ, hp]
    simp only [Option.bind_some, hsrcP]
    exact assemble_noIncl _ _ dsP hno
  rw [translated_compile_ok_iff, translated_compile_ok_iff, hmodel]

/-- **a repeated include at file level (translated code)**: including `p` once more at the end of the file changes
nothing in `categories`, `assets`, `associations`, and the two compilations fail together.  (The items of the included
specification equal themselves for Python's `==` — `compileFile_refl`: the compiler only builds dictionaries with
distinct keys — so the reflexivity hypothesis of the list-level `translated_include_repeat` is discharged.)  The `defines`
may differ: a key of `p` re-defined in between is set back (`Proofs/AssembleInclude.lean`, example). -/
theorem translated_include_repeat_file (files : String → Option String) (f : Nat) (root root' p src src' : String)
    (sp : CSpec) (ds1 ds2 : List Decl) (hroot : files root = some src)
    (hsrc : parseSource src = some (ds1 ++ .incl p :: ds2))
    (hroot' : files root' = some src') (hsrc' : parseSource src' = some (ds1 ++ .incl p :: ds2 ++ [.incl p]))
    (hp : compileFile files f p = some sp) :
    (∃ s s', compileGen files (f+1) (.str root) = .ok (rSpec s) ∧ compileGen files (f+1) (.str root') = .ok (rSpec s') ∧
      s'.categories = s.categories ∧ s'.assets = s.assets ∧ s'.associations = s.associations) ∨
    ((∃ e, compileGen files (f+1) (.str root) = .error e) ∧ ∃ e, compileGen files (f+1) (.str root') = .error e) := by
  obtain ⟨hreflc, hrefla, hrefls⟩ := compileFile_refl files f p sp hp
  have h1 := compileGen_tie files (f+1) root
  have h2 := compileGen_tie files (f+1) root'
  rw [compileFile_succ, hroot] at h1
  rw [compileFile_succ, hroot'] at h2
  simp only [Option.bind_some, hsrc] at h1
  simp only [Option.bind_some, hsrc'] at h2
  have hm := assemble_include_repeat (compileFile files f) p sp ds1 ds2 hp hreflc hrefla hrefls
  cases ha : assemble (compileFile files f) (ds1 ++ .incl p :: ds2) with
  | none =>
    cases hb : assemble (compileFile files f) (ds1 ++ .incl p :: ds2 ++ [.incl p]) with
    | none => rw [ha] at h1; rw [hb] at h2; exact Or.inr ⟨h1, h2⟩
    | some s' => rw [ha, hb] at hm; exact hm.elim
  | some s =>
    cases hb : assemble (compileFile files f) (ds1 ++ .incl p :: ds2 ++ [.incl p]) with
    | none => rw [ha, hb] at hm; exact hm.elim
    | some s' =>
      rw [ha] at h1; rw [hb] at h2; rw [ha, hb] at hm
      exact Or.inl ⟨s, s', h1, h2, hm⟩

end MalVerif.PropsGen.C04
