import MalVerif.Py.TieModelSt
import MalVerif.Py.TieModelStPartial
import MalVerif.PropsGen.C05
/-
C05 for the translated code, the clause "An operation that raises leaves the observable state unchanged".

`PropsGen/C05.lean` is about `model_add_asset : … → Except PyErr H` etc.: a `throw` drops the heap, so that file can
only prove "raises ⇔ a condition on the initial heap" (`*_raises_iff`).  Here the same Python statements are emitted
a second time in the state-keeping mode (`MalVerif/Py/GenModelSt`, `translators/py2lean_stmodel.py`):
`f_st : … → StM PyErr H H`, an exception carries the heap at the moment it propagates, and
`run (f_st …) : H × Except PyErr Unit` is (heap afterwards, outcome).  Coherence (`GenModelSt/Coh.lean`, generated
and proved by one tactic): `erase (f_st s a) = f s a`, so every theorem of `PropsGen/C05.lean` transfers.

For EVERY translated mutator of `model.py` that can raise: `(run (f_st …)).2 = .error e → (run (f_st …)).1 = s` —
the WHOLE heap (hence `abs` of it, the observable state) is unchanged — with the hypotheses named:

| mutator | hypotheses |
|---|---|
| `add_asset` | `hfuel` (the bound of the modelled `while` loop suffices; no invariant needed) |
| `add_association`, `remove_attacker` | none |
| `remove_entry_point` | none — it never raises |
| `remove_association`, `remove_asset` | `EqId env`, `Inv s` |
| `remove_asset_from_association` | `EqId env`, `Inv s` |
| `add_attacker`, `add_entry_point` | cannot raise (`: H`), nothing to state |

Without `Inv` the removals DO raise half-way (that is what the harness's "wild histories" see): the state they leave
is described in `Py/TieModelStPartial.lean` (`*_partial_state`).
`pre_fix_add_asset_changes_id_st`: the code before fix 4598cf1 violates the `add_asset` statement.
-/
namespace MalVerif.PropsGen.C05_St
open MalVerif MalVerif.PyM MalVerif.PyM.Gen MalVerif.PyM.GenSt MalVerif.PyM.Tie MalVerif.PyM.TieSt MalVerif.PySt
open MalVerif.PropsGen.C05 (Inv idEnv idEnv_eqId)

/-! ### the two emissions agree -/

/-- generic transfer from a coherence statement: same outcome, same heap when it returns -/
theorem st_transfers {x : StM PyErr H H} {y : Except PyErr H} (h : erase x = y) :
    (run x).2 = y.map (fun _ => ()) ∧ (∀ s', y = .ok s' → run x = (s', .ok ())) := by
  refine ⟨run_snd_of_coh h, fun s' hs => ?_⟩
  rw [ok_of_erase_ok (h.trans hs)]; rfl

theorem add_asset_outcome (s : H) (env : ModelEnv) (a : ARef) (id : Option Int) (dup : Bool) :
    (run (model_add_asset_st s env a id dup)).2 = (model_add_asset s env a id dup).map (fun _ => ()) ∧
    ∀ s', model_add_asset s env a id dup = .ok s' → run (model_add_asset_st s env a id dup) = (s', .ok ()) :=
  st_transfers (model_add_asset_coh s env a id dup)

theorem add_association_outcome (s : H) (env : ModelEnv) (l : LRef) :
    (run (model_add_association_st s env l)).2 = (model_add_association s env l).map (fun _ => ()) ∧
    ∀ s', model_add_association s env l = .ok s' → run (model_add_association_st s env l) = (s', .ok ()) :=
  st_transfers (model_add_association_coh s env l)

theorem remove_association_outcome (s : H) (env : ModelEnv) (l : LRef) :
    (run (model_remove_association_st s env l)).2 = (model_remove_association s env l).map (fun _ => ()) ∧
    ∀ s', model_remove_association s env l = .ok s' → run (model_remove_association_st s env l) = (s', .ok ()) :=
  st_transfers (model_remove_association_coh s env l)

theorem remove_asset_from_association_outcome (s : H) (env : ModelEnv) (a : ARef) (l : LRef) :
    (run (model_remove_asset_from_association_st s env a l)).2 =
      (model_remove_asset_from_association s env a l).map (fun _ => ()) ∧
    ∀ s', model_remove_asset_from_association s env a l = .ok s' →
      run (model_remove_asset_from_association_st s env a l) = (s', .ok ()) :=
  st_transfers (model_remove_asset_from_association_coh s env a l)

theorem remove_asset_outcome (s : H) (env : ModelEnv) (a : ARef) :
    (run (model_remove_asset_st s env a)).2 = (model_remove_asset s env a).map (fun _ => ()) ∧
    ∀ s', model_remove_asset s env a = .ok s' → run (model_remove_asset_st s env a) = (s', .ok ()) :=
  st_transfers (model_remove_asset_coh s env a)

theorem remove_attacker_outcome (s : H) (env : ModelEnv) (t : TRef) :
    (run (model_remove_attacker_st s env t)).2 = (model_remove_attacker s env t).map (fun _ => ()) ∧
    ∀ s', model_remove_attacker s env t = .ok s' → run (model_remove_attacker_st s env t) = (s', .ok ()) :=
  st_transfers (model_remove_attacker_coh s env t)

theorem remove_entry_point_outcome (s : H) (env : ModelEnv) (t : TRef) (a : ARef) (step : String) :
    (run (attachment_remove_entry_point_st s env t a step)).2 =
      (attachment_remove_entry_point s env t a step).map (fun _ => ()) ∧
    ∀ s', attachment_remove_entry_point s env t a step = .ok s' →
      run (attachment_remove_entry_point_st s env t a step) = (s', .ok ()) :=
  st_transfers (attachment_remove_entry_point_coh s env t a step)

/-! ### an operation that raises leaves the state unchanged -/

/-- **`add_asset`** (fix 4598cf1): whatever asset object is passed (new, already in the model, with or without a
name) and whatever id is asked for, if the call raises then the heap is the heap before — the asset keeps its id and
name, `asset_ids`, `asset_names`, `next_id`, `assets` are untouched.  `hfuel`: the bound of the translated `while`
loop suffices (it does for `whileFuel ≥ len(asset_names) + 1`). -/
theorem add_asset_rejected_heap_unchanged (s : H) (env : ModelEnv) (a : ARef) (id : Option Int) (dup : Bool)
    (hfuel : s.asset_names.length + 1 ≤ env.whileFuel) (e : PyErr)
    (h : (run (model_add_asset_st s env a id dup)).2 = .error e) :
    (run (model_add_asset_st s env a id dup)).1 = s :=
  add_asset_st_unchanged s env a id dup hfuel h

/-- … hence the observable state (the abstraction to the reference model) is unchanged -/
theorem add_asset_rejected_state_unchanged (s : H) (env : ModelEnv) (a : ARef) (id : Option Int) (dup : Bool)
    (hfuel : s.asset_names.length + 1 ≤ env.whileFuel) (e : PyErr)
    (h : (run (model_add_asset_st s env a id dup)).2 = .error e) :
    abs (run (model_add_asset_st s env a id dup)).1 = abs s := by
  rw [add_asset_rejected_heap_unchanged s env a id dup hfuel e h]

/-- **`add_association`**: all its exceptions are those of `_validate_association`, raised before the first write;
no hypothesis -/
theorem add_association_rejected_heap_unchanged (s : H) (env : ModelEnv) (l : LRef) (e : PyErr)
    (h : (run (model_add_association_st s env l)).2 = .error e) : (run (model_add_association_st s env l)).1 = s :=
  add_association_st_unchanged s env l h

/-- **`remove_attacker`**: the only statement that can raise is `self.attackers.remove(attacker)`, the first one -/
theorem remove_attacker_rejected_heap_unchanged (s : H) (env : ModelEnv) (t : TRef) (e : PyErr)
    (h : (run (model_remove_attacker_st s env t)).2 = .error e) : (run (model_remove_attacker_st s env t)).1 = s :=
  (remove_attacker_st_errIn s env t).run h

/-- **`remove_entry_point`** never raises (both `remove` calls are guarded by the membership they need) -/
theorem remove_entry_point_never_raises (s : H) (env : ModelEnv) (t : TRef) (a : ARef) (step : String) :
    (run (attachment_remove_entry_point_st s env t a step)).2 = .ok () := by
  obtain ⟨s', hs'⟩ := remove_entry_point_st_ok s env t a step
  rw [hs']; rfl

/-- **`remove_association`** in a coherent model: it raises only for an association that is not part of the model,
and then nothing has been written -/
theorem remove_association_rejected_heap_unchanged {env : ModelEnv} (hE : EqId env) (s : H) (hI : Inv s)
    (l : LRef) (e : PyErr) (h : (run (model_remove_association_st s env l)).2 = .error e) :
    (run (model_remove_association_st s env l)).1 = s := by
  refine unchanged_of_errIn (model_remove_association_coh s env l) (remove_association_st_errIn s env l) ?_ h
  intro hg
  have hm : l ∈ s.associations := by
    rw [pyIn_assoc hE] at hg
    simpa using hg
  cases hr : model_remove_association s env l with
  | ok s' => exact ⟨s', rfl⟩
  | error e' => exact absurd hm ((C05.remove_association_raises_iff hE s hI l).1 ⟨e', hr⟩)

/-- **`remove_asset`** in a coherent model: it raises only for an asset that is not part of the model (`LookupError`),
and then nothing has been written; its loops cannot raise half-way -/
theorem remove_asset_rejected_heap_unchanged {env : ModelEnv} (hE : EqId env) (s : H) (hI : Inv s)
    (a : ARef) (e : PyErr) (h : (run (model_remove_asset_st s env a)).2 = .error e) :
    (run (model_remove_asset_st s env a)).1 = s := by
  refine unchanged_of_errIn (model_remove_asset_coh s env a) (remove_asset_st_errIn s env a) ?_ h
  intro hg
  have hm : a ∈ s.assets := by
    rw [pyIn_asset hE] at hg
    simpa using hg
  cases hr : model_remove_asset s env a with
  | ok s' => exact ⟨s', rfl⟩
  | error e' => exact absurd hm ((C05.remove_asset_raises_iff hE s hI a).1 ⟨e', hr⟩)

/-- **`remove_asset_from_association`** in a coherent model, the two guard rejections (`asset` / `association` not
part of the model): nothing has been written.  (Superseded by `remove_asset_from_association_rejected_heap_unchanged` below, which has no side condition; kept
because its proof does not need the loop analysis of `Py/TieModelStPartial.lean`.) -/
theorem remove_asset_from_association_rejected_heap_unchanged_of_guard {env : ModelEnv} (hE : EqId env) (s : H)
    (hI : Inv s) (a : ARef) (l : LRef) (e : PyErr)
    (hfield : a ∈ (s.l l).left ∨ a ∈ (s.l l).right ∨ a ∉ s.assets ∨ l ∉ s.associations)
    (h : (run (model_remove_asset_from_association_st s env a l)).2 = .error e) :
    (run (model_remove_asset_from_association_st s env a l)).1 = s := by
  refine unchanged_of_errIn (model_remove_asset_from_association_coh s env a l)
    (remove_asset_from_association_st_errIn s env a l) ?_ h
  rintro ⟨hg1, hg2⟩
  have hma : a ∈ s.assets := by rw [pyIn_asset hE] at hg1; simpa using hg1
  have hml : l ∈ s.associations := by rw [pyIn_assoc hE] at hg2; simpa using hg2
  cases hr : model_remove_asset_from_association s env a l with
  | ok s' => exact ⟨s', rfl⟩
  | error e' =>
    rcases (C05.remove_asset_from_association_raises_iff hE s hI a l).1 ⟨e', hr⟩ with h1 | h1 | ⟨h1, h2⟩
    · exact absurd hma h1
    · exact absurd hml h1
    · rcases hfield with h3 | h3 | h3 | h3
      · exact absurd h3 h1
      · exact absurd h3 h2
      · exact absurd hma h3
      · exact absurd hml h3

/-- **`remove_asset_from_association`** in a coherent model, every rejection (asset / association not part of the
model, asset in neither field): nothing has been written -/
theorem remove_asset_from_association_rejected_heap_unchanged {env : ModelEnv} (hE : EqId env) (s : H)
    (hI : Inv s) (a : ARef) (l : LRef) (e : PyErr)
    (h : (run (model_remove_asset_from_association_st s env a l)).2 = .error e) :
    (run (model_remove_asset_from_association_st s env a l)).1 = s := by
  rcases ((remove_asset_from_association_st_partial_state s env a l).run h).2.2 with h1 | h1
  · exact h1
  · have h2 : (run (model_remove_association_st s env l)).2 = .error e := by rw [h1]; rfl
    have h3 := remove_association_rejected_heap_unchanged hE s hI l e h2
    rw [h1] at h3
    exact h3

/-! ### without the invariant the removals raise half-way: the state they leave

(what the harness's "wild histories" observe; proofs in `Py/TieModelStPartial.lean`, no hypothesis at all) -/

/-- **`remove_asset`**: whenever it raises, either nothing was written, or the guard had passed and the asset is
STILL listed with its id and name reserved (`assets`, `asset_ids`, `asset_names`, `next_id`, `attackers`, every
attachment and entry-point tuple are as before): only association fields / back-references / `associations` /
`_type_to_association` may have been written -/
theorem remove_asset_partial_state (s : H) (env : ModelEnv) (a : ARef) (e : PyErr)
    (h : (run (model_remove_asset_st s env a)).2 = .error e) :
    let s' := (run (model_remove_asset_st s env a)).1
    s' = s ∨ (pyIn (eqAsset env s) s.assets a = true ∧ s'.assets = s.assets ∧ s'.asset_ids = s.asset_ids ∧
      s'.asset_names = s.asset_names ∧ s'.next_id = s.next_id ∧ s'.attackers = s.attackers ∧ s'.t = s.t ∧
      s'.e = s.e) :=
  (remove_asset_st_partial_state s env a).run h

/-- **`remove_association`**: whenever it raises, either nothing was written, or the guard had passed, only
`associations` lists of asset objects were written, and the model's own two fields are either both as before or the
association is gone from `model.associations` while `_type_to_association` still lists it -/
theorem remove_association_partial_state (s : H) (env : ModelEnv) (l : LRef) (e : PyErr)
    (h : (run (model_remove_association_st s env l)).2 = .error e) :
    let s' := (run (model_remove_association_st s env l)).1
    s' = s ∨ (pyIn (eqAssoc env s) s.associations l = true ∧
      (s'.assets = s.assets ∧ s'.attackers = s.attackers ∧ s'.asset_ids = s.asset_ids ∧
        s'.asset_names = s.asset_names ∧ s'.next_id = s.next_id ∧ s'.l = s.l ∧ s'.t = s.t ∧ s'.e = s.e) ∧
      ((s'.associations = s.associations ∧ s'._type_to_association = s._type_to_association) ∨
       (s'.associations = s.associations.eraseP (fun y => eqAssoc env s y l) ∧
         s'._type_to_association = s._type_to_association))) :=
  (remove_association_st_partial_state s env l).run h

/-- **`remove_asset_from_association`**: whenever it raises, the model's bookkeeping of assets and attackers is
untouched; a `LookupError` (any of its three rejections, or the callee's) means nothing at all was written; any
other exception is that of `remove_association` called on the unchanged heap -/
theorem remove_asset_from_association_partial_state (s : H) (env : ModelEnv) (a : ARef) (l : LRef) (e : PyErr)
    (h : (run (model_remove_asset_from_association_st s env a l)).2 = .error e) :
    let s' := (run (model_remove_asset_from_association_st s env a l)).1
    (s'.assets = s.assets ∧ s'.attackers = s.attackers ∧ s'.asset_ids = s.asset_ids ∧
      s'.asset_names = s.asset_names ∧ s'.next_id = s.next_id ∧ s'.t = s.t ∧ s'.e = s.e) ∧
    (e = .lookupError → s' = s) ∧ (s' = s ∨ model_remove_association_st s env l = .error (e, s')) :=
  (remove_asset_from_association_st_partial_state s env a l).run h

/-- a half-way state is reachable: on `exHeap` (association 0 is listed by the model and by asset 0, but
`_type_to_association` has no group for it) `remove_asset(asset0)` raises `KeyError`; the asset is still listed, the
association is gone -/
example :
    (run (model_remove_asset_st exHeap exEnv 0)).2 = .error .keyError ∧
    (run (model_remove_asset_st exHeap exEnv 0)).1.assets = [0] ∧ exHeap.associations = [0] ∧
    (run (model_remove_asset_st exHeap exEnv 0)).1.associations = [] := ⟨rfl, rfl, rfl, rfl⟩

/-! ### the hypotheses are satisfiable; the statement is not vacuous: the code before 4598cf1 violates it -/

/-- `demoModel` (one asset: object 0, id 0, name "a") is coherent, and `idEnv` satisfies `EqId` and the loop bound -/
example : demoModel.asset_names.length + 1 ≤ idEnv.whileFuel := by decide

/-- on it, `add_asset(asset0)` (the asset that is already part of the model) is rejected by the current code and
the heap is unchanged -/
example : (run (model_add_asset_st demoModel idEnv 0 none false)).2 = .error .valueError ∧
    (run (model_add_asset_st demoModel idEnv 0 none false)).1 = demoModel :=
  ⟨rfl, add_asset_rejected_heap_unchanged demoModel idEnv 0 none false (by decide) .valueError rfl⟩

/-- the hypotheses of the removal theorems (`EqId`, `Inv`) are met by the heap the six-step demo history of
`PropsGen/C05.lean` ends in (one asset left, one attacker); removing asset 0 a second time is rejected with
`LookupError` and the heap is unchanged -/
example :
    let s := C05.demoOps.foldl (stepGen MS.Demo.lang idEnv) {}
    EqId idEnv ∧ Inv s ∧ (run (model_remove_asset_st s idEnv 0)).2 = .error .lookupError ∧
      (run (model_remove_asset_st s idEnv 0)).1 = s := by
  intro s
  have hI : Inv s := (C05.reachable_inv MS.Demo.lang C05.demo_fieldsDistinct idEnv_eqId C05.demoOps C05.demo_admissible).2
  exact ⟨idEnv_eqId, hI, rfl, remove_asset_rejected_heap_unchanged idEnv_eqId s hI 0 .lookupError rfl⟩

/-- **the code before fix 4598cf1 changes the id of a rejected asset**: on `demoModel`, `add_asset(asset0)` — the
asset is already part of the model, the call raises `ValueError` because its name is taken — has overwritten the
asset's id with `next_id = 1` although id 0 stays the reserved one: afterwards the model lists an asset whose id is not
in `asset_ids`.  The current code, same call: rejected and the heap is `demoModel`, unchanged. -/
theorem pre_fix_add_asset_changes_id_st :
    let r := run (model_add_asset_prefix_st demoModel idEnv 0 none false)
    r.2 = .error .valueError ∧
    (demoModel.a 0).id = some 0 ∧ (r.1.a 0).id = some 1 ∧
    r.1.assets = [0] ∧ r.1.asset_ids = [0] ∧ attrInt (r.1.a 0).id ∉ r.1.asset_ids ∧
    (run (model_add_asset_st demoModel idEnv 0 none false)).2 = .error .valueError ∧
    (run (model_add_asset_st demoModel idEnv 0 none false)).1 = demoModel := by
  refine ⟨rfl, by decide, by decide, by decide, by decide, by decide, rfl, ?_⟩
  exact add_asset_rejected_heap_unchanged demoModel idEnv 0 none false (by decide) .valueError rfl

end MalVerif.PropsGen.C05_St
