import MalVerif.Py.TieNodes
import MalVerif.Py.TieRegen
import MalVerif.PropsGen.C01
/-!
# C01 for the whole *generated* `AttackGraph._generate_graph`: first loop ∘ linking loop = `genGraph`

`PropsGen/C01.lean` states the edge clauses of C01 for the translated linking loop under the hypothesis that the
heap it starts from `Represents` the node list of the hand model.  With the first loop translated as well
(`Py/Gen/Nodes.lean`, `Py/TieNodes.lean: nodes_represents`) that hypothesis is discharged: the theorems below are
about `graph__generate_graph` (`Py/Gen/Regen.lean`: the whole function, guard + both loops, regenerated from the
Python on every run; `Py/TieRegen.lean: generate_graph_eq` splits it into the two slices), started on an *empty
store* — no object allocated yet, graph containers empty: what `AttackGraph(lang_graph, model)` starts from.
-/
namespace MalVerif.PropsGen.C01_Gen
open MalVerif MalVerif.Py MalVerif.Py.Gen MalVerif.Py.Tie

/-- a heap in which no node object has been allocated and whose graph containers are empty -/
structure EmptyStore (s : H) : Prop where
  fresh : FreshGraph s
  nfresh : s.nfresh = 0
  blank : ∀ r, (s.n r).children = [] ∧ (s.n r).parents = []

/-- the heap of a new interpreter is one -/
theorem emptyStore_init : EmptyStore {} := ⟨⟨rfl, rfl, rfl, rfl⟩, rfl, fun _ => ⟨rfl, rfl⟩⟩

/-- **`_generate_graph` = `genGraph`**: when the hand model generates the nodes `ns` and the edges `es`, the
translated `_generate_graph`, started on an empty store, returns (for every sufficiently large recursion budget of
the evaluator) the heap in which node `n` of `ns` is the object at reference `n.id` (`TN.Post`: attributes of the
first loop), every node's `children` / `parents` are read off `es` (order and multiplicity included), and nothing
else differs from the heap after the first loop.  No `Represents` hypothesis is left. -/
theorem generate_graph_tie (L : Lang) (m : Inst) (atts : List PyAttackerInfo) (hid : (m.assets.map (·.id)).Nodup)
    (ns : List GNode) (es : List (Nat × Nat)) (hg : genGraph L m = .ok (ns, es)) (s : H) (hs : EmptyStore s) :
    ∃ F, ∀ fuel, F ≤ fuel → ∃ s', graph__generate_graph s (genEnvOf L m atts fuel) = .ok s' ∧
      s'.nodes = ns.map (·.id) ∧
      (∀ r, (s'.n r).children = (es.filter (fun e => e.1 = r)).map (·.2)) ∧
      (∀ r, (s'.n r).parents = (es.filter (fun e => e.2 = r)).map (·.1)) ∧
      (∀ r, { s'.n r with children := [], parents := [] } =
        { (nodesHeap L m ns s).n r with children := [], parents := [] }) ∧
      TN.Post 0 (nodeSpecs L m) ns s (nodesHeap L m ns s) ∧
      s'._id_to_node = (nodesHeap L m ns s)._id_to_node ∧
      s'._full_name_to_node = (nodesHeap L m ns s)._full_name_to_node ∧
      s'.a = s.a ∧ s'.attackers = s.attackers ∧ s'._id_to_attacker = s._id_to_attacker := by
  unfold genGraph at hg
  obtain ⟨ns', hn, hg⟩ := er_bind_ok _ _ _ hg
  obtain ⟨es', he, hg⟩ := er_bind_ok _ _ _ hg
  cases hg
  obtain ⟨F1, hF1⟩ := nodes_represents L m atts hid ns hn
  obtain ⟨hrep0⟩ : Nonempty (Represents L m ns (nodesHeap L m ns s)) :=
    ⟨(hF1 F1 (Nat.le_refl _) s hs.fresh hs.nfresh hs.blank).2.1⟩
  obtain ⟨F2, hF2⟩ := link_tie L m ns es (nodesHeap L m ns s) hrep0 he
  refine ⟨max F1 F2, fun fuel hf => ?_⟩
  obtain ⟨hrun1, _, P⟩ := hF1 fuel (by omega) s hs.fresh hs.nfresh hs.blank
  obtain ⟨s', hrun2, c1, c2, c3, c4, c5, c6, c7, c8, c9⟩ := hF2 fuel (by omega)
  refine ⟨s', ?_, ?_, c1, c2, c3, P, c7, c8, ?_, ?_, ?_⟩
  · rw [generate_graph_eq]
    have hm : (genEnvOf L m atts fuel).has_model = true := rfl
    rw [if_neg (by rw [hm]; decide), hrun1]
    show graph__generate_graph_link (nodesHeap L m ns s) (genEnvOf L m atts fuel) = _
    rw [link_genEnv, hrun2]
  · rw [c5, hrep0.nodes]
  · rw [c4, P.rest.1]
  · rw [c6, P.rest.2.1]
  · rw [c9, P.rest.2.2.1]

/-- **children = specification, for the whole function**: after `_generate_graph` from an empty store, `b` is among
the children of the object `a` iff `EdgeSpec` (some `reaches` expression of node `a`, under the set semantics from
`a`'s asset, reaches an asset `Y` and ends in a step `t` such that `b` is the node registered under `Y:t`).
Hypotheses on the expressions as in `C01.edges_iff_EdgeSpec`. -/
theorem generate_children_iff (L : Lang) (m : Inst) (atts : List PyAttackerInfo)
    (hid : (m.assets.map (·.id)).Nodup) (ns : List GNode) (es : List (Nat × Nat))
    (hg : genGraph L m = .ok (ns, es))
    (htr : ∀ n ∈ ns, ∀ e ∈ n.reaches, TransOK L m L.varFuel e)
    (htail : ∀ n ∈ ns, ∀ e ∈ n.reaches, tailVar e = false) (s : H) (hs : EmptyStore s) :
    ∃ F, ∀ fuel, F ≤ fuel → ∃ s', graph__generate_graph s (genEnvOf L m atts fuel) = .ok s' ∧
      ∀ a b, b ∈ (s'.n a).children ↔ EdgeSpec L m ns a b := by
  have he : genEdges L m ns = .ok es := by
    unfold genGraph at hg
    obtain ⟨ns', hn, hg⟩ := er_bind_ok _ _ _ hg
    obtain ⟨es', he, hg⟩ := er_bind_ok _ _ _ hg
    cases hg; exact he
  obtain ⟨F, hF⟩ := generate_graph_tie L m atts hid ns es hg s hs
  refine ⟨F, fun fuel hf => ?_⟩
  obtain ⟨s', hrun, _, hch, _⟩ := hF fuel hf
  refine ⟨s', hrun, fun a b => ?_⟩
  rw [hch a, ← MalVerif.C01.edges_iff_EdgeSpec L m ns es htr htail he a b]
  exact MalVerif.C01.mem_childrenOf es a b

/-- **parents are the converse of children, edges connect nodes of the graph** — for the whole function -/
theorem generate_parents_and_ends (L : Lang) (m : Inst) (atts : List PyAttackerInfo)
    (hid : (m.assets.map (·.id)).Nodup) (ns : List GNode) (es : List (Nat × Nat))
    (hg : genGraph L m = .ok (ns, es)) (s : H) (hs : EmptyStore s) :
    ∃ F, ∀ fuel, F ≤ fuel → ∃ s', graph__generate_graph s (genEnvOf L m atts fuel) = .ok s' ∧
      (∀ a b, (a ∈ (s'.n b).parents ↔ b ∈ (s'.n a).children) ∧
        (s'.n b).parents.count a = (s'.n a).children.count b ∧ (s'.n a).children.count b = es.count (a, b)) ∧
      (∀ a b, b ∈ (s'.n a).children → a ∈ s'.nodes ∧ b ∈ s'.nodes) := by
  have he : genEdges L m ns = .ok es := by
    unfold genGraph at hg
    obtain ⟨ns', hn, hg⟩ := er_bind_ok _ _ _ hg
    obtain ⟨es', he, hg⟩ := er_bind_ok _ _ _ hg
    cases hg; exact he
  obtain ⟨F, hF⟩ := generate_graph_tie L m atts hid ns es hg s hs
  refine ⟨F, fun fuel hf => ?_⟩
  obtain ⟨s', hrun, hnodes, hch, hpa, _⟩ := hF fuel hf
  refine ⟨s', hrun, fun a b => ?_, fun a b hb => ?_⟩
  · rw [hch a, hpa b]
    exact ⟨MalVerif.C01.parents_converse es a b,
      (MalVerif.PropsGen.C01.count_parentsOf es a b).trans (MalVerif.PropsGen.C01.count_childrenOf es a b).symm,
      MalVerif.PropsGen.C01.count_childrenOf es a b⟩
  · rw [hch a] at hb
    obtain ⟨⟨n, hn, ha⟩, ⟨t, ht, hb'⟩⟩ :=
      MalVerif.C01.edge_ends L m ns es he a b ((MalVerif.C01.mem_childrenOf es a b).1 hb)
    rw [hnodes]
    exact ⟨List.mem_map.2 ⟨n, hn, ha⟩, List.mem_map.2 ⟨t, ht, hb'⟩⟩

/-! ### non-vacuity: the demo of `PropsGen/C01.lean` (`a:access -> (next)*.compromise`), now from the empty heap -/

open MalVerif.PropsGen.C01 in
theorem demo_graph : genGraph demoLS demoM = .ok (demoNs, [(0, 3), (0, 1), (2, 1), (2, 3)]) := by
  unfold genGraph
  rw [demoNs_gen]
  show (genEdges demoLS demoM demoNs >>= fun es => pure (demoNs, es)) = _
  rw [demoNs_edges]
  rfl

open MalVerif.PropsGen.C01 in
/-- the whole translated `_generate_graph`, run by the kernel on the empty heap with fuel 3:
`(reference, full name, children, parents)` of every node -/
example :
    (graph__generate_graph {} (genEnvOf demoLS demoM [] 3)).map
      (fun s' => s'.nodes.map (fun r => (r, node_full_name s' r, (s'.n r).children, (s'.n r).parents))) =
    .ok [(0, "a:access", [3, 1], []), (1, "a:compromise", [], [0, 2]), (2, "b:access", [1, 3], []),
         (3, "b:compromise", [], [0, 2])] := by decide

open MalVerif.PropsGen.C01 in
/-- `generate_children_iff` applies to the demo from the empty heap -/
example : ∃ F, ∀ fuel, F ≤ fuel → ∃ s', graph__generate_graph {} (genEnvOf demoLS demoM [] fuel) = .ok s' ∧
    ∀ a b, b ∈ (s'.n a).children ↔ EdgeSpec demoLS demoM demoNs a b :=
  generate_children_iff demoLS demoM [] (by decide) demoNs _ demo_graph
    (fun n hn e he => by rw [demoNs_reaches n hn e he]; exact demoE_transOK)
    (fun n hn e he => by rw [demoNs_reaches n hn e he]; rfl) {} emptyStore_init

end MalVerif.PropsGen.C01_Gen
