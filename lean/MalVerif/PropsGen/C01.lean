import MalVerif.Py.TieEval
import MalVerif.Py.TieLink
import MalVerif.Props.C01
/-!
# C01 for the *translated* Python — the step-expression evaluator and the linking loop of `_generate_graph`

`_process_step_expression` of `MalVerif/Py/Gen/Eval.lean` is generated from `maltoolbox/attackgraph/attackgraph.py`.
`eval_tie` (`MalVerif/Py/TieEval.lean`) says: whenever the hand model `evalF` evaluates successfully, the generated
function returns the same targets (as asset objects `objOf m`) and the same step name for every sufficiently
large recursion budget `fuel` (the Python has none: `fuel` is Python's recursion limit).  The theorems of
`MalVerif/Props/C01.lean` about the evaluator are restated here for the generated function.

The generated function runs in the environment `envOf L m` (`MalVerif/Py/AbsEval.lean`): the methods it calls on
the language graph and on the model are the hand-written models of those methods.

Second part (`link_children_iff`, `link_children_iff_general`, `link_parents_converse`, `link_edge_ends`): the edge
clauses of C01 for the translated second loop of `AttackGraph._generate_graph` (`MalVerif/Py/Gen/Link.lean`), from
`link_tie` (`MalVerif/Py/TieLink.lean`).
-/
namespace MalVerif.PropsGen.C01
open MalVerif MalVerif.Py MalVerif.Py.Gen MalVerif.Py.Tie

/-- **The generated evaluator computes the set semantics.**  When the hand evaluation succeeds, then for every
sufficiently large fuel the generated evaluator succeeds, the objects it returns are exactly the assets the
denotational semantics reaches from the sources, and the step name is the one of the hand evaluation. -/
theorem eval_mem_iff (L : Lang) (m : Inst) (vf : Nat) (e : Expr) (xs : List Int) (r : List Int × Option String)
    (hok : TransOK L m vf e) (h : evalF L m vf e xs = .ok r) :
    ∃ N, ∀ fuel, N ≤ fuel → ∃ objs nm,
      _process_step_expression fuel (envOf L m) (xs.map (objOf m)) (exprOf e) = .ok (objs, nm) ∧
      (∀ y, objOf m y ∈ objs ↔ DenF L m vf e (· ∈ xs) y) ∧ nm = r.2 := by
  obtain ⟨N, hN⟩ := eval_tie L m vf e xs r h
  refine ⟨N, fun fuel hf => ⟨r.1.map (objOf m), r.2, hN fuel hf, ?_, rfl⟩⟩
  intro y
  rw [mem_map_objOf]
  exact MalVerif.C01.eval_mem_iff L m vf e xs r hok h y

/-- every returned object is the object of an id in the hand model's result (no other objects are returned) -/
theorem eval_objs (L : Lang) (m : Inst) (vf : Nat) (e : Expr) (xs : List Int) (r : List Int × Option String)
    (h : evalF L m vf e xs = .ok r) :
    ∃ N, ∀ fuel, N ≤ fuel → ∃ objs nm,
      _process_step_expression fuel (envOf L m) (xs.map (objOf m)) (exprOf e) = .ok (objs, nm) ∧
      ∀ o ∈ objs, ∃ y ∈ r.1, o = objOf m y := by
  obtain ⟨N, hN⟩ := eval_tie L m vf e xs r h
  refine ⟨N, fun fuel hf => ⟨r.1.map (objOf m), r.2, hN fuel hf, ?_⟩⟩
  intro o ho
  obtain ⟨y, hy, e⟩ := List.mem_map.1 ho
  exact ⟨y, hy, e.symm⟩

/-- **the step name**: for an expression that does not end in a variable call the generated evaluator returns
the attack step the expression ends in -/
theorem eval_step_name (L : Lang) (m : Inst) (vf : Nat) (e : Expr) (xs : List Int) (r : List Int × Option String)
    (h : evalF L m vf e xs = .ok r) (ht : tailVar e = false) :
    ∃ N, ∀ fuel, N ≤ fuel → ∃ objs,
      _process_step_expression fuel (envOf L m) (xs.map (objOf m)) (exprOf e) = .ok (objs, lastStep e) := by
  obtain ⟨N, hN⟩ := eval_tie L m vf e xs r h
  refine ⟨N, fun fuel hf => ⟨r.1.map (objOf m), ?_⟩⟩
  rw [hN fuel hf, MalVerif.C01.eval_step_name L m vf e xs r h ht]

/-- **results are assets of the model**: association objects mention only assets of the model and the sources
are assets of the model; then every object the generated evaluator returns is the object of an asset of the model -/
theorem eval_results_in_model (L : Lang) (m : Inst) (hm : LinksClosed m) (vf : Nat) (e : Expr) (xs : List Int)
    (r : List Int × Option String) (hxs : ∀ x ∈ xs, x ∈ m.ids) (h : evalF L m vf e xs = .ok r) :
    ∃ N, ∀ fuel, N ≤ fuel → ∃ objs nm,
      _process_step_expression fuel (envOf L m) (xs.map (objOf m)) (exprOf e) = .ok (objs, nm) ∧
      ∀ o ∈ objs, ∃ y ∈ m.ids, o = objOf m y := by
  obtain ⟨N, hN⟩ := eval_objs L m vf e xs r h
  refine ⟨N, fun fuel hf => ?_⟩
  obtain ⟨objs, nm, h1, h2⟩ := hN fuel hf
  refine ⟨objs, nm, h1, fun o ho => ?_⟩
  obtain ⟨y, hy, ey⟩ := h2 o ho
  exact ⟨y, MalVerif.C01.eval_in_model L m hm vf e xs r hxs h y hy, ey⟩

/-- **Termination / totality.**  Under the hypotheses of `C01.eval_terminates` (links closed, sources in the
model, acyclic variable definitions, variable fuel above the rank) the hand evaluation cannot fail with
`recursion`; if it does not fail with one of the other errors either (`noVariable`, `mixedVariable`, `lookup`:
hypothesis `hother`), the generated evaluator returns a result for every sufficiently large fuel — in particular
its `while` loop never raises `nonTermination` and no `LookupError` / `LanguageGraphException` is raised. -/
theorem eval_total (L : Lang) (m : Inst) (hm : LinksClosed m) (rank : Expr → Nat)
    (hr : ∀ e, ∀ v ∈ e.vars, ∀ t d, L.lookupVar t v = some d → rank d < rank e)
    (f : Nat) (e : Expr) (hf : rank e < f) (xs : List Int) (hxs : ∀ x ∈ xs, x ∈ m.ids)
    (hother : ∀ er, evalF L m f e xs = .error er → er = .recursion) :
    ∃ N, ∀ fuel, N ≤ fuel → ∃ res,
      _process_step_expression fuel (envOf L m) (xs.map (objOf m)) (exprOf e) = .ok res := by
  cases h : evalF L m f e xs with
  | error er =>
    have := hother er h
    subst this
    exact absurd h (MalVerif.C01.eval_terminates L m hm rank hr f e hf xs hxs)
  | ok r =>
    obtain ⟨N, hN⟩ := eval_tie L m f e xs r h
    exact ⟨N, fun fuel hfu => ⟨_, hN fuel hfu⟩⟩

/-- the same as a dichotomy, without the extra hypothesis: either the hand evaluation fails with an error other
than `recursion`, or the generated evaluator returns the hand evaluation's result for every sufficiently large fuel -/
theorem eval_total_or (L : Lang) (m : Inst) (hm : LinksClosed m) (rank : Expr → Nat)
    (hr : ∀ e, ∀ v ∈ e.vars, ∀ t d, L.lookupVar t v = some d → rank d < rank e)
    (f : Nat) (e : Expr) (hf : rank e < f) (xs : List Int) (hxs : ∀ x ∈ xs, x ∈ m.ids) :
    (∃ er, er ≠ .recursion ∧ evalF L m f e xs = .error er) ∨
    ∃ r, evalF L m f e xs = .ok r ∧ ∃ N, ∀ fuel, N ≤ fuel →
      _process_step_expression fuel (envOf L m) (xs.map (objOf m)) (exprOf e) =
        .ok (r.1.map (objOf m), r.2) := by
  cases h : evalF L m f e xs with
  | error er =>
    left
    refine ⟨er, ?_, rfl⟩
    intro her; subst her
    exact MalVerif.C01.eval_terminates L m hm rank hr f e hf xs hxs h
  | ok r => exact Or.inr ⟨r, rfl, eval_tie L m f e xs r h⟩

/-! ### non-vacuity: two asset types, one association, a model with the cycle `a → b → a` -/

/-- `A`, `B extends A`; association `Link` between `A [prev]` and `A [next]` -/
def demoL : Lang :=
  { assets := [{ name := "A" }, { name := "B", superAsset := some "A" }],
    assocs := [{ name := "Link", leftAsset := "A", leftField := "prev", rightAsset := "A", rightField := "next" }] }

/-- `a : A` (id 1), `b : B` (id 2); `a.next = [b]`, `b.next = [a]` -/
def demoM : Inst :=
  { assets := [{ id := 1, name := "a", type := "A" }, { id := 2, name := "b", type := "B" }],
    links := [{ cls := "Link", lf := "prev", rf := "next", left := [1], right := [2] },
              { cls := "Link", lf := "prev", rf := "next", left := [2], right := [1] }] }

instance instDecEqExceptPy {α} [DecidableEq α] : DecidableEq (Except PyErr α) := fun a b =>
  match a, b with
  | .ok x, .ok y => if h : x = y then isTrue (by rw [h]) else isFalse (by intro e; cases e; exact h rfl)
  | .error x, .error y => if h : x = y then isTrue (by rw [h]) else isFalse (by intro e; cases e; exact h rfl)
  | .ok _, .error _ => isFalse (by intro e; cases e)
  | .error _, .ok _ => isFalse (by intro e; cases e)

/-- the generated evaluator, run by the kernel on `(next)*` from `a` with fuel 2: both assets, `b` first -/
example :
    _process_step_expression 2 (envOf demoL demoM) [{ id := 1, type := "A", name := "a" }]
        (exprOf (.trans (.field "next"))) =
      .ok ([{ id := 2, type := "B", name := "b" }, { id := 1, type := "A", name := "a" }], none) := by
  decide

/-- with fuel 1 the recursion budget is exhausted (Python: `RecursionError`) -/
example :
    _process_step_expression 1 (envOf demoL demoM) [{ id := 1, type := "A", name := "a" }]
        (exprOf (.trans (.field "next"))) = .error .recursionError := by
  decide

example : [1].map (objOf demoM) = [{ id := 1, type := "A", name := "a" }] := by decide

/-- the hypotheses of `eval_mem_iff` hold for it: the hand evaluation succeeds … -/
theorem demo_eval : evalF demoL demoM 1 (.trans (.field "next")) [1] = .ok ([2, 1], none) := by decide

/-- … and the operand of `*` is pointwise -/
theorem demo_transOK : TransOK demoL demoM 1 (.trans (.field "next")) :=
  MalVerif.C01.transOK_of_starOK demoL demoM 1 _ ⟨trivial, trivial⟩

/-- so, for all large fuel, the generated evaluator returns exactly the objects of `{1, 2}` (the semantics of
`(next)*` from `{a}`: `a` is reached again through the cycle) and no step name -/
example : ∃ N, ∀ fuel, N ≤ fuel → ∃ objs nm,
    _process_step_expression fuel (envOf demoL demoM) ([1].map (objOf demoM)) (exprOf (.trans (.field "next")))
      = .ok (objs, nm) ∧
    (∀ y, objOf demoM y ∈ objs ↔ DenF demoL demoM 1 (.trans (.field "next")) (· ∈ [1]) y) ∧ nm = none :=
  eval_mem_iff demoL demoM 1 _ [1] ([2, 1], none) demo_transOK demo_eval

example : LinksClosed demoM := by decide

/-! ## C01 for the *translated* linking loop (second loop of `AttackGraph._generate_graph`)

`graph__generate_graph_link` of `MalVerif/Py/Gen/Link.lean` is generated from the loop `for ag_node in self.nodes:` of
`_generate_graph`.  `link_tie` (`MalVerif/Py/TieLink.lean`) says: started in a heap that `Represents` the node list
`ns` of the hand model (the state after the first loop), and when the hand model's `genEdges` returns `es`, the
translated loop returns — for every sufficiently large recursion budget of the evaluator — the heap whose
`children` / `parents` lists are read off `es`.  The edge clauses of `MalVerif/Props/C01.lean` are restated here
for that heap.  (All three theorems speak about the same `s'`: the value of `graph__generate_graph_link`.) -/

/-- **Children = specification.**  `b` is among the children of the object `a` iff `EdgeSpec`: some `reaches`
expression of node `a`, under the set semantics from `a`'s asset, reaches an asset `Y` and ends in a step `t` such
that `b` is the node registered under the name `Y:t`.  Hypotheses as in `C01.edges_iff_EdgeSpec`. -/
theorem link_children_iff (L : Lang) (m : Inst) (ns : List GNode) (es : List (Nat × Nat)) (s : H)
    (hrep : Represents L m ns s)
    (htr : ∀ n ∈ ns, ∀ e ∈ n.reaches, TransOK L m L.varFuel e)
    (htail : ∀ n ∈ ns, ∀ e ∈ n.reaches, tailVar e = false)
    (h : genEdges L m ns = .ok es) :
    ∃ F, ∀ fuel, F ≤ fuel → ∃ s', graph__generate_graph_link s (envOf L m fuel) = .ok s' ∧
      ∀ a b, b ∈ (s'.n a).children ↔ EdgeSpec L m ns a b := by
  obtain ⟨F, hF⟩ := link_tie L m ns es s hrep h
  refine ⟨F, fun fuel hf => ?_⟩
  obtain ⟨s', hrun, hch, _⟩ := hF fuel hf
  refine ⟨s', hrun, fun a b => ?_⟩
  rw [hch a, ← MalVerif.C01.edges_iff_EdgeSpec L m ns es htr htail h a b]
  exact MalVerif.C01.mem_childrenOf es a b

/-- the same without the restriction on the last component of the `reaches` expressions
(`C01.edges_iff_EdgeSpecG`: the step name is the one of the set semantics) -/
theorem link_children_iff_general (L : Lang) (m : Inst) (ns : List GNode) (es : List (Nat × Nat)) (s : H)
    (hrep : Represents L m ns s)
    (htr : ∀ n ∈ ns, ∀ e ∈ n.reaches, TransOK L m L.varFuel e)
    (h : genEdges L m ns = .ok es) :
    ∃ F, ∀ fuel, F ≤ fuel → ∃ s', graph__generate_graph_link s (envOf L m fuel) = .ok s' ∧
      ∀ a b, b ∈ (s'.n a).children ↔ EdgeSpecG L m ns a b := by
  obtain ⟨F, hF⟩ := link_tie L m ns es s hrep h
  refine ⟨F, fun fuel hf => ?_⟩
  obtain ⟨s', hrun, hch, _⟩ := hF fuel hf
  refine ⟨s', hrun, fun a b => ?_⟩
  rw [hch a, ← MalVerif.C01.edges_iff_EdgeSpecG L m ns es htr h a b]
  exact MalVerif.C01.mem_childrenOf es a b

theorem count_childrenOf (es : List (Nat × Nat)) (a b : Nat) : (childrenOf es a).count b = es.count (a, b) := by
  induction es with
  | nil => rfl
  | cons e es ih =>
    obtain ⟨x, y⟩ := e
    unfold childrenOf at ih ⊢
    rw [List.filter_cons, List.count_cons]
    by_cases hx : x = a
    · subst hx
      simp only [decide_true, if_true, List.map_cons, List.count_cons, ih]
      by_cases hy : y = b <;> simp [hy]
    · have : ((x, y) == (a, b)) = false := by simp [hx]
      simp only [hx, decide_false, Bool.false_eq_true, if_false, ih, this, Nat.add_zero]

theorem count_parentsOf (es : List (Nat × Nat)) (a b : Nat) : (parentsOf es b).count a = es.count (a, b) := by
  induction es with
  | nil => rfl
  | cons e es ih =>
    obtain ⟨x, y⟩ := e
    unfold parentsOf at ih ⊢
    rw [List.filter_cons, List.count_cons]
    by_cases hy : y = b
    · subst hy
      simp only [decide_true, if_true, List.map_cons, List.count_cons, ih]
      by_cases hx : x = a <;> simp [hx]
    · have : ((x, y) == (a, b)) = false := by simp [hy]
      simp only [hy, decide_false, Bool.false_eq_true, if_false, ih, this, Nat.add_zero]

/-- **Parents are the converse of children**, with equal multiplicities: the object `a` occurs in the `parents`
list of `b` exactly as often as `b` occurs in the `children` list of `a` (both are the number of occurrences of the
edge `(a, b)` in the hand model's edge list). -/
theorem link_parents_converse (L : Lang) (m : Inst) (ns : List GNode) (es : List (Nat × Nat)) (s : H)
    (hrep : Represents L m ns s) (h : genEdges L m ns = .ok es) :
    ∃ F, ∀ fuel, F ≤ fuel → ∃ s', graph__generate_graph_link s (envOf L m fuel) = .ok s' ∧
      ∀ a b, (a ∈ (s'.n b).parents ↔ b ∈ (s'.n a).children) ∧
        (s'.n b).parents.count a = (s'.n a).children.count b ∧ (s'.n a).children.count b = es.count (a, b) := by
  obtain ⟨F, hF⟩ := link_tie L m ns es s hrep h
  refine ⟨F, fun fuel hf => ?_⟩
  obtain ⟨s', hrun, hch, hpa, _⟩ := hF fuel hf
  refine ⟨s', hrun, fun a b => ?_⟩
  rw [hch a, hpa b]
  exact ⟨MalVerif.C01.parents_converse es a b, (count_parentsOf es a b).trans (count_childrenOf es a b).symm,
    count_childrenOf es a b⟩

/-- **Edges connect nodes of the graph**: the `children` and `parents` lists only hold references of `s'.nodes`,
and only objects of `s'.nodes` have children or parents; the node list itself is the one the loop started with. -/
theorem link_edge_ends (L : Lang) (m : Inst) (ns : List GNode) (es : List (Nat × Nat)) (s : H)
    (hrep : Represents L m ns s) (h : genEdges L m ns = .ok es) :
    ∃ F, ∀ fuel, F ≤ fuel → ∃ s', graph__generate_graph_link s (envOf L m fuel) = .ok s' ∧
      s'.nodes = s.nodes ∧
      (∀ a b, b ∈ (s'.n a).children → a ∈ s'.nodes ∧ b ∈ s'.nodes) ∧
      (∀ a b, a ∈ (s'.n b).parents → a ∈ s'.nodes ∧ b ∈ s'.nodes) := by
  obtain ⟨F, hF⟩ := link_tie L m ns es s hrep h
  refine ⟨F, fun fuel hf => ?_⟩
  obtain ⟨s', hrun, hch, hpa, _, _, hnodes, _⟩ := hF fuel hf
  have key : ∀ a b, (a, b) ∈ es → a ∈ s'.nodes ∧ b ∈ s'.nodes := by
    intro a b hab
    obtain ⟨⟨n, hn, ha⟩, ⟨t, ht, hb⟩⟩ := MalVerif.C01.edge_ends L m ns es h a b hab
    rw [hnodes, hrep.nodes]
    exact ⟨List.mem_map.2 ⟨n, hn, ha⟩, List.mem_map.2 ⟨t, ht, hb⟩⟩
  refine ⟨s', hrun, hnodes, fun a b hb => ?_, fun a b ha => ?_⟩
  · rw [hch a] at hb
    exact key a b ((MalVerif.C01.mem_childrenOf es a b).1 hb)
  · rw [hpa b] at ha
    exact key a b ((MalVerif.C01.mem_childrenOf es a b).1 ((MalVerif.C01.parents_converse es a b).1 ha))

/-! ### non-vacuity of the linking theorems: `demoL` with two attack steps, over `demoM` -/

/-- `(next)*.compromise` -/
def demoE : Expr := .collect (.trans (.field "next")) (.step "compromise")

/-- `demoL` with the attack steps `access -> (next)*.compromise` and `compromise` on `A` (inherited by `B`) -/
def demoLS : Lang :=
  { demoL with
    assets := [{ name := "A",
                 steps := [{ name := "access", type := "or", reaches := some { overrides := true, exprs := [demoE] } },
                           { name := "compromise", type := "and" }] },
               { name := "B", superAsset := some "A" }] }

/-- the node list the hand model's first loop generates: `a:access`, `a:compromise`, `b:access`, `b:compromise` -/
def demoNs : List GNode := match genNodes demoLS demoM with | .ok ns => ns | .error _ => []

theorem demoNs_gen : genNodes demoLS demoM = .ok demoNs := by
  unfold demoNs
  cases h : genNodes demoLS demoM with
  | ok ns => rfl
  | error e =>
    have : (genNodes demoLS demoM).map (·.length) = .ok 4 := by decide
    rw [h] at this; cases this

theorem demoNs_ids : demoNs.map (·.id) = [0, 1, 2, 3] := by decide

theorem demoNs_reaches : ∀ n ∈ demoNs, ∀ e ∈ n.reaches, e = demoE := by
  have h : demoNs.all (fun n => n.reaches.all (· = demoE)) = true := by decide
  intro n hn e he
  simpa using List.all_eq_true.1 (List.all_eq_true.1 h n hn) e he

theorem demoNs_edges : genEdges demoLS demoM demoNs = .ok [(0, 3), (0, 1), (2, 1), (2, 3)] := by decide

/-- the heap after the first loop `Represents` the node list -/
theorem demo_represents : Represents demoLS demoM demoNs (heapOf demoM demoNs) :=
  represents_heapOf demoLS demoM demoNs (by rw [demoNs_ids]; decide)

/-- the translated loop, run by the kernel on that heap with fuel 3: `(reference, children, parents)` of every node -/
example :
    (graph__generate_graph_link (heapOf demoM demoNs) (envOf demoLS demoM 3)).map
      (fun s' => s'.nodes.map (fun r => (r, (s'.n r).children, (s'.n r).parents))) =
    .ok [(0, [3, 1], []), (1, [], [0, 2]), (2, [1, 3], []), (3, [], [0, 2])] := by decide

/-- with fuel 2 the evaluator's recursion budget is exhausted -/
example :
    (graph__generate_graph_link (heapOf demoM demoNs) (envOf demoLS demoM 2)).map (fun s' => s'.nodes) =
    .error .recursionError := by decide

theorem demoE_transOK : TransOK demoLS demoM demoLS.varFuel demoE := by
  show TransOK demoLS demoM 1 demoE
  exact MalVerif.C01.transOK_of_starOK demoLS demoM 1 demoE ⟨⟨trivial, trivial⟩, trivial⟩

/-- so `link_children_iff` applies to the demo: for all large fuel the `children` lists are the relation `EdgeSpec` -/
example : ∃ F, ∀ fuel, F ≤ fuel → ∃ s',
    graph__generate_graph_link (heapOf demoM demoNs) (envOf demoLS demoM fuel) = .ok s' ∧
    ∀ a b, b ∈ (s'.n a).children ↔ EdgeSpec demoLS demoM demoNs a b :=
  link_children_iff demoLS demoM demoNs _ _ demo_represents
    (fun n hn e he => by rw [demoNs_reaches n hn e he]; exact demoE_transOK)
    (fun n hn e he => by rw [demoNs_reaches n hn e he]; rfl) demoNs_edges

/-- … and `link_parents_converse`, `link_edge_ends`: e.g. `a:access` (0) is exactly once a parent of `b:compromise` (3) -/
example : ∃ F, ∀ fuel, F ≤ fuel → ∃ s',
    graph__generate_graph_link (heapOf demoM demoNs) (envOf demoLS demoM fuel) = .ok s' ∧
    (s'.n 3).parents.count 0 = 1 ∧ (s'.n 0).children.count 3 = 1 := by
  obtain ⟨F, hF⟩ := link_parents_converse demoLS demoM demoNs _ _ demo_represents demoNs_edges
  refine ⟨F, fun fuel hf => ?_⟩
  obtain ⟨s', hrun, h⟩ := hF fuel hf
  obtain ⟨_, h1, h2⟩ := h 0 3
  exact ⟨s', hrun, by rw [h1, h2]; decide, by rw [h2]; decide⟩

example : ∃ F, ∀ fuel, F ≤ fuel → ∃ s',
    graph__generate_graph_link (heapOf demoM demoNs) (envOf demoLS demoM fuel) = .ok s' ∧
    s'.nodes = [0, 1, 2, 3] ∧ (∀ a b, b ∈ (s'.n a).children → a ∈ s'.nodes ∧ b ∈ s'.nodes) := by
  obtain ⟨F, hF⟩ := link_edge_ends demoLS demoM demoNs _ _ demo_represents demoNs_edges
  refine ⟨F, fun fuel hf => ?_⟩
  obtain ⟨s', hrun, hn, hc, _⟩ := hF fuel hf
  exact ⟨s', hrun, by rw [hn]; exact demoNs_ids, hc⟩

end MalVerif.PropsGen.C01
