import MalVerif.Py.TieEval
import MalVerif.Props.C01
/-!
# C01 for the *translated* Python — the step-expression evaluator

`_process_step_expression` of `MalVerif/Py/Gen/Eval.lean` is generated from `maltoolbox/attackgraph/attackgraph.py`.
`eval_tie` (`MalVerif/Py/TieEval.lean`) says: whenever the hand model `evalF` evaluates successfully, the generated
function returns the same targets (as asset objects `objOf m`) and the same step name for every sufficiently
large recursion budget `fuel` (the Python has none: `fuel` is Python's recursion limit).  The theorems of
`MalVerif/Props/C01.lean` about the evaluator are restated here for the generated function.

The generated function runs in the environment `envOf L m` (`MalVerif/Py/AbsEval.lean`): the methods it calls on
the language graph and on the model are the hand-written models of those methods.
-/
namespace MalVerif.PropsGen.C01
open MalVerif MalVerif.Py MalVerif.Py.Gen MalVerif.Py.Tie

/-- **The generated evaluator computes the set semantics.**  When the hand evaluation succeeds, then for every
sufficiently large fuel the generated evaluator succeeds, the objects it returns are exactly the assets the
denotational semantics reaches from the sources, and the step name is the one of the hand evaluation. -/
theorem eval_mem_iff (L : Lang) (m : Inst) (vf : Nat) (e : Expr) (xs : List Int) (r : List Int × Option String)
    (hok : TransOK L m vf e) (h : evalF L m vf e xs = .ok r) :
    ∃ N, ∀ fuel, N ≤ fuel → ∃ objs nm,
      _process_step_expression fuel (envOf L m) (xs.map (objOf m)) (exprOf e) = .ok (objs, nm) ∧
      (∀ y, objOf m y ∈ objs ↔ DenF L m vf e (· ∈ xs) y) ∧ nm = r.2 := by
  obtain ⟨N, hN⟩ := eval_tie L m vf e xs r h
  refine ⟨N, fun fuel hf => ⟨r.1.map (objOf m), r.2, hN fuel hf, ?_, rfl⟩⟩
  intro y
  rw [mem_map_objOf]
  exact MalVerif.C01.eval_mem_iff L m vf e xs r hok h y

/-- every returned object is the object of an id in the hand model's result (no other objects are returned) -/
theorem eval_objs (L : Lang) (m : Inst) (vf : Nat) (e : Expr) (xs : List Int) (r : List Int × Option String)
    (h : evalF L m vf e xs = .ok r) :
    ∃ N, ∀ fuel, N ≤ fuel → ∃ objs nm,
      _process_step_expression fuel (envOf L m) (xs.map (objOf m)) (exprOf e) = .ok (objs, nm) ∧
      ∀ o ∈ objs, ∃ y ∈ r.1, o = objOf m y := by
  obtain ⟨N, hN⟩ := eval_tie L m vf e xs r h
  refine ⟨N, fun fuel hf => ⟨r.1.map (objOf m), r.2, hN fuel hf, ?_⟩⟩
  intro o ho
  obtain ⟨y, hy, e⟩ := List.mem_map.1 ho
  exact ⟨y, hy, e.symm⟩

/-- **the step name**: for an expression that does not end in a variable call the generated evaluator returns
the attack step the expression ends in -/
theorem eval_step_name (L : Lang) (m : Inst) (vf : Nat) (e : Expr) (xs : List Int) (r : List Int × Option String)
    (h : evalF L m vf e xs = .ok r) (ht : tailVar e = false) :
    ∃ N, ∀ fuel, N ≤ fuel → ∃ objs,
      _process_step_expression fuel (envOf L m) (xs.map (objOf m)) (exprOf e) = .ok (objs, lastStep e) := by
  obtain ⟨N, hN⟩ := eval_tie L m vf e xs r h
  refine ⟨N, fun fuel hf => ⟨r.1.map (objOf m), ?_⟩⟩
  rw [hN fuel hf, MalVerif.C01.eval_step_name L m vf e xs r h ht]

/-- **results are assets of the model**: association objects mention only assets of the model and the sources
are assets of the model; then every object the generated evaluator returns is the object of an asset of the model -/
theorem eval_results_in_model (L : Lang) (m : Inst) (hm : LinksClosed m) (vf : Nat) (e : Expr) (xs : List Int)
    (r : List Int × Option String) (hxs : ∀ x ∈ xs, x ∈ m.ids) (h : evalF L m vf e xs = .ok r) :
    ∃ N, ∀ fuel, N ≤ fuel → ∃ objs nm,
      _process_step_expression fuel (envOf L m) (xs.map (objOf m)) (exprOf e) = .ok (objs, nm) ∧
      ∀ o ∈ objs, ∃ y ∈ m.ids, o = objOf m y := by
  obtain ⟨N, hN⟩ := eval_objs L m vf e xs r h
  refine ⟨N, fun fuel hf => ?_⟩
  obtain ⟨objs, nm, h1, h2⟩ := hN fuel hf
  refine ⟨objs, nm, h1, fun o ho => ?_⟩
  obtain ⟨y, hy, ey⟩ := h2 o ho
  exact ⟨y, MalVerif.C01.eval_in_model L m hm vf e xs r hxs h y hy, ey⟩

/-- **Termination / totality.**  Under the hypotheses of `C01.eval_terminates` (links closed, sources in the
model, acyclic variable definitions, variable fuel above the rank) the hand evaluation cannot fail with
`recursion`; if it does not fail with one of the other errors either (`noVariable`, `mixedVariable`, `lookup`:
hypothesis `hother`), the generated evaluator returns a result for every sufficiently large fuel — in particular
its `while` loop never raises `nonTermination` and no `LookupError` / `LanguageGraphException` is raised. -/
theorem eval_total (L : Lang) (m : Inst) (hm : LinksClosed m) (rank : Expr → Nat)
    (hr : ∀ e, ∀ v ∈ e.vars, ∀ t d, L.lookupVar t v = some d → rank d < rank e)
    (f : Nat) (e : Expr) (hf : rank e < f) (xs : List Int) (hxs : ∀ x ∈ xs, x ∈ m.ids)
    (hother : ∀ er, evalF L m f e xs = .error er → er = .recursion) :
    ∃ N, ∀ fuel, N ≤ fuel → ∃ res,
      _process_step_expression fuel (envOf L m) (xs.map (objOf m)) (exprOf e) = .ok res := by
  cases h : evalF L m f e xs with
  | error er =>
    have := hother er h
    subst this
    exact absurd h (MalVerif.C01.eval_terminates L m hm rank hr f e hf xs hxs)
  | ok r =>
    obtain ⟨N, hN⟩ := eval_tie L m f e xs r h
    exact ⟨N, fun fuel hfu => ⟨_, hN fuel hfu⟩⟩

/-- the same as a dichotomy, without the extra hypothesis: either the hand evaluation fails with an error other
than `recursion`, or the generated evaluator returns the hand evaluation's result for every sufficiently large fuel -/
theorem eval_total_or (L : Lang) (m : Inst) (hm : LinksClosed m) (rank : Expr → Nat)
    (hr : ∀ e, ∀ v ∈ e.vars, ∀ t d, L.lookupVar t v = some d → rank d < rank e)
    (f : Nat) (e : Expr) (hf : rank e < f) (xs : List Int) (hxs : ∀ x ∈ xs, x ∈ m.ids) :
    (∃ er, er ≠ .recursion ∧ evalF L m f e xs = .error er) ∨
    ∃ r, evalF L m f e xs = .ok r ∧ ∃ N, ∀ fuel, N ≤ fuel →
      _process_step_expression fuel (envOf L m) (xs.map (objOf m)) (exprOf e) =
        .ok (r.1.map (objOf m), r.2) := by
  cases h : evalF L m f e xs with
  | error er =>
    left
    refine ⟨er, ?_, rfl⟩
    intro her; subst her
    exact MalVerif.C01.eval_terminates L m hm rank hr f e hf xs hxs h
  | ok r => exact Or.inr ⟨r, rfl, eval_tie L m f e xs r h⟩

/-! ### non-vacuity: two asset types, one association, a model with the cycle `a → b → a` -/

/-- `A`, `B extends A`; association `Link` between `A [prev]` and `A [next]` -/
def demoL : Lang :=
  { assets := [{ name := "A" }, { name := "B", superAsset := some "A" }],
    assocs := [{ name := "Link", leftAsset := "A", leftField := "prev", rightAsset := "A", rightField := "next" }] }

/-- `a : A` (id 1), `b : B` (id 2); `a.next = [b]`, `b.next = [a]` -/
def demoM : Inst :=
  { assets := [{ id := 1, name := "a", type := "A" }, { id := 2, name := "b", type := "B" }],
    links := [{ cls := "Link", lf := "prev", rf := "next", left := [1], right := [2] },
              { cls := "Link", lf := "prev", rf := "next", left := [2], right := [1] }] }

instance instDecEqExceptPy {α} [DecidableEq α] : DecidableEq (Except PyErr α) := fun a b =>
  match a, b with
  | .ok x, .ok y => if h : x = y then isTrue (by rw [h]) else isFalse (by intro e; cases e; exact h rfl)
  | .error x, .error y => if h : x = y then isTrue (by rw [h]) else isFalse (by intro e; cases e; exact h rfl)
  | .ok _, .error _ => isFalse (by intro e; cases e)
  | .error _, .ok _ => isFalse (by intro e; cases e)

/-- the generated evaluator, run by the kernel on `(next)*` from `a` with fuel 2: both assets, `b` first -/
example :
    _process_step_expression 2 (envOf demoL demoM) [{ id := 1, type := "A", name := "a" }]
        (exprOf (.trans (.field "next"))) =
      .ok ([{ id := 2, type := "B", name := "b" }, { id := 1, type := "A", name := "a" }], none) := by
  decide

/-- with fuel 1 the recursion budget is exhausted (Python: `RecursionError`) -/
example :
    _process_step_expression 1 (envOf demoL demoM) [{ id := 1, type := "A", name := "a" }]
        (exprOf (.trans (.field "next"))) = .error .recursionError := by
  decide

example : [1].map (objOf demoM) = [{ id := 1, type := "A", name := "a" }] := by decide

/-- the hypotheses of `eval_mem_iff` hold for it: the hand evaluation succeeds … -/
theorem demo_eval : evalF demoL demoM 1 (.trans (.field "next")) [1] = .ok ([2, 1], none) := by decide

/-- … and the operand of `*` is pointwise -/
theorem demo_transOK : TransOK demoL demoM 1 (.trans (.field "next")) :=
  MalVerif.C01.transOK_of_starOK demoL demoM 1 _ ⟨trivial, trivial⟩

/-- so, for all large fuel, the generated evaluator returns exactly the objects of `{1, 2}` (the semantics of
`(next)*` from `{a}`: `a` is reached again through the cycle) and no step name -/
example : ∃ N, ∀ fuel, N ≤ fuel → ∃ objs nm,
    _process_step_expression fuel (envOf demoL demoM) ([1].map (objOf demoM)) (exprOf (.trans (.field "next")))
      = .ok (objs, nm) ∧
    (∀ y, objOf demoM y ∈ objs ↔ DenF demoL demoM 1 (.trans (.field "next")) (· ∈ [1]) y) ∧ nm = none :=
  eval_mem_iff demoL demoM 1 _ [1] ([2, 1], none) demo_transOK demo_eval

example : LinksClosed demoM := by decide

end MalVerif.PropsGen.C01
