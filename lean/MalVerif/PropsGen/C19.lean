import MalVerif.Py.TieNeo4jModel
import MalVerif.PropsGen.C05
import MalVerif.Props.C19
/-!
# C19 for the *translated* Neo4j ingestor (`maltoolbox/ingestors/neo4j.py` → `Py/GenNeo4j/*.lean`)

*Ingesting a model sends exactly one database node per asset (id, name, type) and, for each linked pair of assets,
one relationship per direction labelled with the respective field name; ingesting an attack graph sends one node
per attack step with its attributes and one relationship per edge.  Reading a model back from what was ingested
reconstructs the same assets and links.*

The theorems are about `PyN.Gen.ingest_model` / `ingest_attack_graph` / `get_model`, the Lean functions that
`translators/py2lean_neo4j.py` generates from the current Python source on every run.  The database driver (py2neo)
is the recording database of `Py/PreludeNeo4j.lean` (trusted; the same boundary as the stand-in of
`harness/props/c19.py`): `w.db` is what has been stored — nodes with labels and properties, relationships between
positions of the node list.

`ingest_model` (for a coherent model `Inv s`, into an empty or deleted database):
* `ingest_model_refines` — the call returns and the stored database is `Neo.ingestModel` of the abstracted model;
* `ingest_model_nodes` — exactly one stored node per asset, in model order: label = type, properties `name`,
  `asset_id` (decimal text of the id), `type`; distinct assets have distinct `asset_id`s; the node at the position
  of an asset is its node;
* `ingest_model_rels` — a relationship is stored iff it is `pos x -[left field]-> pos y` or
  `pos y -[right field]-> pos x` for a pair `(x, y)` of a link; none twice;
* `ingest_model_dead_member_raises` — the coherence hypothesis is needed: a link member that is no asset of the model
  makes the call raise `KeyError`.
-/
namespace MalVerif.PropsGen.C19
open MalVerif MalVerif.PyM MalVerif.PyN MalVerif.PyN.TieM

/-- the coherence invariant of the reference model, on heaps -/
abbrev Inv (s : H) : Prop := MS.Inv (abs s)

/-- the database a call stored (`none`: the call raised) / the exception it raised (`none`: it returned) -/
def dbOf {ε : Type} (r : Except ε W) : Option Db := match r with | .ok w => some w.db | .error _ => none
def errOf {ε α : Type} (r : Except ε α) : Option ε := match r with | .ok _ => none | .error e => some e

/-- position of an asset in `model.assets` -/
def posOf (s : H) (a : ARef) : Nat := (s.assets.idxOf? a).getD 0

/-! ### `ingest_model` -/

/-- the translated `ingest_model` returns, and what it stored is the subgraph of the reference model -/
theorem ingest_model_refines (w : W) (s : H) (h : Inv s) (uri user pw db : String) (delete : Bool)
    (hdb : delete = true ∨ w.db = {}) :
    ∃ w', Gen.ingest_model w s uri user pw db delete = .ok w' ∧ absDb w'.db = Neo.ingestModel (abs s) := by
  obtain ⟨w', h1, h2, _⟩ := ingest_model_tie w s (modelOK_of_inv s h) uri user pw db delete hdb
  exact ⟨w', h1, h2⟩

/-- exactly one database node per asset, in order, labelled with the type and carrying name, id (as decimal text)
and type; distinct assets have distinct `asset_id`s; the node stored at the position of an asset is its node -/
theorem ingest_model_nodes (w : W) (s : H) (h : Inv s) (uri user pw db : String) (delete : Bool)
    (hdb : delete = true ∨ w.db = {}) :
    ∃ w', Gen.ingest_model w s uri user pw db delete = .ok w' ∧
      w'.db.nodes = s.assets.map (fun a =>
        { labels := [(s.a a).type]
          props := [("name", attrStr (s.a a).name), ("asset_id", toString (attrInt (s.a a).id)), ("type", (s.a a).type)] }) ∧
      (∀ a ∈ s.assets, ∀ b ∈ s.assets, toString (attrInt (s.a a).id) = toString (attrInt (s.a b).id) → a = b) ∧
      (∀ a ∈ s.assets, posOf s a < w'.db.nodes.length ∧ w'.db.nodes[posOf s a]? = some (nodeRec s a)) ∧
      (∀ a ∈ s.assets, ∀ b ∈ s.assets, posOf s a = posOf s b → a = b) := by
  obtain ⟨w', h1, _, h3, _⟩ := ingest_model_tie w s (modelOK_of_inv s h) uri user pw db delete hdb
  refine ⟨w', h1, h3, ?_, ?_, ?_⟩
  · intro a ha b hb e
    exact h.assets.ids_inj a ha b hb (Neo.toString_int_inj e)
  · intro a ha
    have hlt : posOf s a < s.assets.length := idx_lt s ha
    refine ⟨by rw [h3, List.length_map]; exact hlt, ?_⟩
    rw [h3, List.getElem?_map, List.getElem?_eq_getElem hlt]
    have : s.assets[posOf s a] = a := Neo.getElem_pos (s := abs s) ha
    rw [this]; rfl
  · intro a ha b hb e
    exact Neo.pos_inj (s := abs s) ha hb e

/-- for each linked pair of assets exactly one relationship per direction, labelled with the respective field name,
and nothing else -/
theorem ingest_model_rels (w : W) (s : H) (h : Inv s) (uri user pw db : String) (delete : Bool)
    (hdb : delete = true ∨ w.db = {}) :
    ∃ w', Gen.ingest_model w s uri user pw db delete = .ok w' ∧
      (∀ r : DbRel, r ∈ w'.db.rels ↔
        ∃ l ∈ s.associations, ∃ x ∈ (s.l l).left, ∃ y ∈ (s.l l).right,
          r = ⟨posOf s x, (s.l l).lf, posOf s y⟩ ∨ r = ⟨posOf s y, (s.l l).rf, posOf s x⟩) ∧
      w'.db.rels.Nodup := by
  obtain ⟨w', h1, h2⟩ := ingest_model_refines w s h uri user pw db delete hdb
  have hr : w'.db.rels.map absRel = (Neo.ingestModel (abs s)).rels := congrArg Neo.Sub.rels h2
  obtain ⟨hm, hnd⟩ := C19.ingest_rels (abs s)
  refine ⟨w', h1, ?_, ?_⟩
  · intro r
    have : r ∈ w'.db.rels ↔ absRel r ∈ (Neo.ingestModel (abs s)).rels := by
      rw [← hr, List.mem_map]
      constructor
      · intro hr'; exact ⟨r, hr', rfl⟩
      · rintro ⟨r', hr', e⟩
        cases r; cases r'
        simp only [absRel, Neo.DbRel.mk.injEq] at e
        obtain ⟨rfl, rfl, rfl⟩ := e
        exact hr'
    rw [this, hm]
    constructor
    · rintro ⟨l, hl, x, hx, y, hy, e⟩
      refine ⟨l, hl, x, hx, y, hy, ?_⟩
      cases r
      simp only [absRel, Neo.DbRel.mk.injEq] at e
      simp only [DbRel.mk.injEq]
      exact e
    · rintro ⟨l, hl, x, hx, y, hy, e⟩
      refine ⟨l, hl, x, hx, y, hy, ?_⟩
      rcases e with rfl | rfl
      · exact Or.inl rfl
      · exact Or.inr rfl
  · apply MS.nodup_of_map absRel
    rw [hr]; exact hnd


/-- the coherence hypothesis is needed: a link whose member is not an asset of the model (here the heap lists an
association between the objects 7 and 8 and no asset) makes `ingest_model` raise `KeyError` (`nodes[str(id)]`) -/
def deadMemberHeap : H :=
  { l := fun _ => { cls := "A", left := [7], right := [8] }, associations := [0] }

theorem ingest_model_dead_member_raises :
    ¬ Inv deadMemberHeap ∧ errOf (Gen.ingest_model {} deadMemberHeap "uri" "u" "p" "db" true) = some .keyError := by
  refine ⟨fun h => ?_, by decide⟩
  have := h.links.left_live 0 (by decide) 7 (by decide)
  exact absurd this (by decide)

/-! ### the hypotheses are satisfiable: a heap built by the translated model operations -/

/-- two assets (ids 0 and -3), linked by `Link_Host_Net`, an attacker: the first five steps of the history of
`PropsGen/C05.lean`, performed by the translated `add_asset` / `add_association` / `add_attacker` -/
def demoHeap : H := (C05.demoOps.take 5).foldl (Tie.stepGen MS.Demo.lang C05.idEnv) {}

theorem demo_inv : Inv demoHeap :=
  (C05.reachable_inv MS.Demo.lang C05.demo_fieldsDistinct C05.idEnv_eqId (C05.demoOps.take 5)
    ⟨by show _ ≤ _; decide, by show _ ≤ _; decide, trivial, trivial, trivial, trivial⟩).2

/-- what the translated `ingest_model` stores for it (after two unrelated `Node` objects were made, into a database
that is deleted first): two nodes, one relationship per direction -/
example : dbOf (Gen.ingest_model (⟨[{}, {}], ⟨[{}], []⟩⟩ : W) demoHeap "uri" "u" "p" "db" true) =
    some { nodes := [⟨["Host"], [("name", "h"), ("asset_id", "0"), ("type", "Host")]⟩,
                    ⟨["Net"], [("name", "Net:-3"), ("asset_id", "-3"), ("type", "Net")]⟩],
           rels := [⟨0, "hosts", 1⟩, ⟨1, "nets", 0⟩] } := by
  decide +kernel

end MalVerif.PropsGen.C19
