import MalVerif.Py.TieNeo4jModel
import MalVerif.Py.TieNeo4jGraph
import MalVerif.Py.TieNeo4jGet
import MalVerif.Py.TieNeo4jGetFull
import MalVerif.Py.TieNeo4jStore
import MalVerif.PropsGen.C05
import MalVerif.Props.C19
/-!
# C19 for the *translated* Neo4j ingestor (`maltoolbox/ingestors/neo4j.py` → `Py/GenNeo4j/*.lean`)

*Ingesting a model sends exactly one database node per asset (id, name, type) and, for each linked pair of assets,
one relationship per direction labelled with the respective field name; ingesting an attack graph sends one node
per attack step with its attributes and one relationship per edge.  Reading a model back from what was ingested
reconstructs the same assets and links.*

The theorems are about `PyN.Gen.ingest_model` / `ingest_attack_graph` / `get_model`, the Lean functions that
`translators/py2lean_neo4j.py` generates from the current Python source on every run.  The database driver (py2neo)
is the recording database of `Py/PreludeNeo4j.lean` (trusted; the same boundary as the stand-in of
`harness/props/c19.py`): `w.db` is what has been stored — nodes with labels and properties, relationships between
positions of the node list.

`ingest_model` (for a coherent model `Inv s`, into an empty or deleted database):
* `ingest_model_refines` — the call returns and the stored database is `Neo.ingestModel` of the abstracted model;
* `ingest_model_nodes` — exactly one stored node per asset, in model order: label = type, properties `name`,
  `asset_id` (decimal text of the id), `type`; distinct assets have distinct `asset_id`s; the node at the position
  of an asset is its node;
* `ingest_model_rels` — a relationship is stored iff it is `pos x -[left field]-> pos y` or
  `pos y -[right field]-> pos x` for a pair `(x, y)` of a link; none twice;
* `ingest_model_dead_member_raises` — the coherence hypothesis is needed: a link member that is no asset of the model
  makes the call raise `KeyError`.

`ingest_attack_graph` (for a graph `GraphOK s`: ids set and pairwise distinct, children are nodes of the graph, known
node types; into an empty or deleted database):
* `ingest_attack_graph_refines` — the stored nodes are, in order, the rendering (`renderStep`: `str(…)` of the typed
  attributes) of the step nodes of `Neo.ingestGraph`, the stored relationships its relationship list;
* `ingest_attack_graph_iso` — one stored node per attack step in order with its attributes (label = asset name or id,
  name, full name, type, ttc, necessity, viability, compromising attackers, defense status or `N/A`), a relationship
  `pos r → pos c` is stored iff `c` is a child of `r`, none twice;
* `ingest_attack_graph_dangling_child_raises` — a child whose id is the id of no node of the graph: `KeyError`.

`get_model` (`lang_graph` / `lang_classes_factory` instantiated from a language of the reference model: `envOf`):
* `get_model_two_loops` — the translated function is its two loops over the results of the two queries;
* `get_model_asset_loop_refines` — the asset loop is the asset loop of `Neo.getModel` (`Neo.assetStepN`), state by
  state and error by error, on every well-formed database;
* `fields_differ_automatic` — the hypothesis `FieldsDiffer` of `C19.get_model_inverts` holds of every heap: a pjs
  association object cannot have two fields of the same name, so the counterexample `C19.fields_differ_needed` of
  the reference model has no counterpart in the translated code;
* `demo_roundtrip` — translated `get_model` over what translated `ingest_model` stored for `demoHeap` rebuilds the
  same assets (ids 0 and -3, names, types) and the link;
* `no_mixed_match_needed` — the counterexample of the reference model transferred: two assets linked by `A` and `B`,
  a third declaration `Mix` with the left field of `A` and the right field of `B`: translated `get_model` over
  translated `ingest_model` comes back with a spurious `Mix` link.
* `SameObs`, `rel_sameObs` — the observational equivalence on model states (same assets with id / name / type / defense
  values / extras, same associations with class, fields and member ids in order, same attackers, same reserved ids /
  names / next id); the relation `Sim.Rel` kept by the loops (same model up to association references) implies it;
* `get_model_refines` — the general tie: whenever the reference `Neo.getModel` returns on the abstracted database, the
  translated `get_model` returns an observationally equal, coherent model (the translated second loop allocates an
  association object per row before the existence test and drops it when the link exists: not observed);
* `get_model_inverts` — `C19.get_model_inverts` transferred in full: translated `get_model` over what translated
  `ingest_model` stored reconstructs the same assets and exactly the pairwise expansion of the links;
  `demo_hypotheses`: its hypotheses are satisfiable;
* `ingest_model_appends`, `ingest_attack_graph_appends` — without `delete` what is sent is appended to the database;
* `graphOK_of_consistent` — `GraphOK` from the structural invariant `AGS.Consistent` (C09), ids and known types.
-/
namespace MalVerif.PropsGen.C19
open MalVerif MalVerif.PyM MalVerif.PyN MalVerif.PyN.TieM MalVerif.PyN.TieGet MalVerif.PyN.Sim

/-- the coherence invariant of the reference model, on heaps -/
abbrev Inv (s : H) : Prop := MS.Inv (abs s)

/-- the database a call stored (`none`: the call raised) / the exception it raised (`none`: it returned) -/
def dbOf {ε : Type} (r : Except ε W) : Option Db := match r with | .ok w => some w.db | .error _ => none
def errOf {ε α : Type} (r : Except ε α) : Option ε := match r with | .ok _ => none | .error e => some e

/-- position of an asset in `model.assets` -/
def posOf (s : H) (a : ARef) : Nat := (s.assets.idxOf? a).getD 0

/-! ### `ingest_model` -/

/-- the translated `ingest_model` returns, and what it stored is the subgraph of the reference model -/
theorem ingest_model_refines (w : W) (s : H) (h : Inv s) (uri user pw db : String) (delete : Bool)
    (hdb : delete = true ∨ w.db = {}) :
    ∃ w', Gen.ingest_model w s uri user pw db delete = .ok w' ∧ absDb w'.db = Neo.ingestModel (abs s) := by
  obtain ⟨w', h1, h2, _⟩ := ingest_model_tie w s (modelOK_of_inv s h) uri user pw db delete hdb
  exact ⟨w', h1, h2⟩

/-- exactly one database node per asset, in order, labelled with the type and carrying name, id (as decimal text)
and type; distinct assets have distinct `asset_id`s; the node stored at the position of an asset is its node -/
theorem ingest_model_nodes (w : W) (s : H) (h : Inv s) (uri user pw db : String) (delete : Bool)
    (hdb : delete = true ∨ w.db = {}) :
    ∃ w', Gen.ingest_model w s uri user pw db delete = .ok w' ∧
      w'.db.nodes = s.assets.map (fun a =>
        { labels := [(s.a a).type]
          props := [("name", attrStr (s.a a).name), ("asset_id", toString (attrInt (s.a a).id)), ("type", (s.a a).type)] }) ∧
      (∀ a ∈ s.assets, ∀ b ∈ s.assets, toString (attrInt (s.a a).id) = toString (attrInt (s.a b).id) → a = b) ∧
      (∀ a ∈ s.assets, posOf s a < w'.db.nodes.length ∧ w'.db.nodes[posOf s a]? = some (nodeRec s a)) ∧
      (∀ a ∈ s.assets, ∀ b ∈ s.assets, posOf s a = posOf s b → a = b) := by
  obtain ⟨w', h1, _, h3, _⟩ := ingest_model_tie w s (modelOK_of_inv s h) uri user pw db delete hdb
  refine ⟨w', h1, h3, ?_, ?_, ?_⟩
  · intro a ha b hb e
    exact h.assets.ids_inj a ha b hb (Neo.toString_int_inj e)
  · intro a ha
    have hlt : posOf s a < s.assets.length := idx_lt s ha
    refine ⟨by rw [h3, List.length_map]; exact hlt, ?_⟩
    rw [h3, List.getElem?_map, List.getElem?_eq_getElem hlt]
    have : s.assets[posOf s a] = a := Neo.getElem_pos (s := abs s) ha
    rw [this]; rfl
  · intro a ha b hb e
    exact Neo.pos_inj (s := abs s) ha hb e

/-- for each linked pair of assets exactly one relationship per direction, labelled with the respective field name,
and nothing else -/
theorem ingest_model_rels (w : W) (s : H) (h : Inv s) (uri user pw db : String) (delete : Bool)
    (hdb : delete = true ∨ w.db = {}) :
    ∃ w', Gen.ingest_model w s uri user pw db delete = .ok w' ∧
      (∀ r : DbRel, r ∈ w'.db.rels ↔
        ∃ l ∈ s.associations, ∃ x ∈ (s.l l).left, ∃ y ∈ (s.l l).right,
          r = ⟨posOf s x, (s.l l).lf, posOf s y⟩ ∨ r = ⟨posOf s y, (s.l l).rf, posOf s x⟩) ∧
      w'.db.rels.Nodup := by
  obtain ⟨w', h1, h2⟩ := ingest_model_refines w s h uri user pw db delete hdb
  have hr : w'.db.rels.map absRel = (Neo.ingestModel (abs s)).rels := congrArg Neo.Sub.rels h2
  obtain ⟨hm, hnd⟩ := C19.ingest_rels (abs s)
  refine ⟨w', h1, ?_, ?_⟩
  · intro r
    have : r ∈ w'.db.rels ↔ absRel r ∈ (Neo.ingestModel (abs s)).rels := by
      rw [← hr, List.mem_map]
      constructor
      · intro hr'; exact ⟨r, hr', rfl⟩
      · rintro ⟨r', hr', e⟩
        cases r; cases r'
        simp only [absRel, Neo.DbRel.mk.injEq] at e
        obtain ⟨rfl, rfl, rfl⟩ := e
        exact hr'
    rw [this, hm]
    constructor
    · rintro ⟨l, hl, x, hx, y, hy, e⟩
      refine ⟨l, hl, x, hx, y, hy, ?_⟩
      cases r
      simp only [absRel, Neo.DbRel.mk.injEq] at e
      simp only [DbRel.mk.injEq]
      exact e
    · rintro ⟨l, hl, x, hx, y, hy, e⟩
      refine ⟨l, hl, x, hx, y, hy, ?_⟩
      rcases e with rfl | rfl
      · exact Or.inl rfl
      · exact Or.inr rfl
  · apply MS.nodup_of_map absRel
    rw [hr]; exact hnd


/-- the coherence hypothesis is needed: a link whose member is not an asset of the model (here the heap lists an
association between the objects 7 and 8 and no asset) makes `ingest_model` raise `KeyError` (`nodes[str(id)]`) -/
def deadMemberHeap : H :=
  { l := fun _ => { cls := "A", left := [7], right := [8] }, associations := [0] }

theorem ingest_model_dead_member_raises :
    ¬ Inv deadMemberHeap ∧ errOf (Gen.ingest_model {} deadMemberHeap "uri" "u" "p" "db" true) = some .keyError := by
  refine ⟨fun h => ?_, by decide⟩
  have := h.links.left_live 0 (by decide) 7 (by decide)
  exact absurd this (by decide)

/-! ### the hypotheses are satisfiable: a heap built by the translated model operations -/

/-- two assets (ids 0 and -3), linked by `Link_Host_Net`, an attacker: the first five steps of the history of
`PropsGen/C05.lean`, performed by the translated `add_asset` / `add_association` / `add_attacker` -/
def demoHeap : H := (C05.demoOps.take 5).foldl (Tie.stepGen MS.Demo.lang C05.idEnv) {}

theorem demo_inv : Inv demoHeap :=
  (C05.reachable_inv MS.Demo.lang C05.demo_fieldsDistinct C05.idEnv_eqId (C05.demoOps.take 5)
    ⟨by show _ ≤ _; decide, by show _ ≤ _; decide, trivial, trivial, trivial, trivial⟩).2

/-- what the translated `ingest_model` stores for it (after two unrelated `Node` objects were made, into a database
that is deleted first): two nodes, one relationship per direction -/
example : dbOf (Gen.ingest_model (⟨[{}, {}], ⟨[{}], []⟩⟩ : W) demoHeap "uri" "u" "p" "db" true) =
    some { nodes := [⟨["Host"], [("name", "h"), ("asset_id", "0"), ("type", "Host")]⟩,
                    ⟨["Net"], [("name", "Net:-3"), ("asset_id", "-3"), ("type", "Net")]⟩],
           rels := [⟨0, "hosts", 1⟩, ⟨1, "nets", 0⟩] } := by
  decide +kernel


/-! ### `ingest_attack_graph` -/

/-- the stored nodes are the rendering of the step nodes of the reference model, the stored relationships its
relationship list -/
theorem ingest_attack_graph_refines (w : W) (s : Py.H) (h : TieG.GraphOK s) (uri user pw db : String) (delete : Bool)
    (hdb : delete = true ∨ w.db = {}) (nf af : Nat) :
    ∃ w', Gen.ingest_attack_graph w s uri user pw db delete = .ok w' ∧
      w'.db.nodes = List.zipWith renderStep (Neo.ingestGraph tnCanon (Py.absS s nf af)).nodes
        (s.nodes.map (fun r => pyStrAtom (Py.atomOfOptDictS (s.n r).ttc))) ∧
      absGRels w'.db = (Neo.ingestGraph tnCanon (Py.absS s nf af)).rels := by
  obtain ⟨w', h1, h2, h3⟩ := TieG.ingest_attack_graph_tie w s h uri user pw db delete hdb nf af
  refine ⟨w', h1, ?_, h3⟩
  rw [h2]
  show _ = List.zipWith renderStep ((Py.absS s nf af).nodes.map _) _
  show _ = List.zipWith renderStep (s.nodes.map _) _
  rw [List.zipWith_map_left, List.zipWith_map_right, List.zipWith_self]
  rfl

/-- one stored node per attack step, in order, with its attributes; one relationship per edge, none twice -/
theorem ingest_attack_graph_iso (w : W) (s : Py.H) (h : TieG.GraphOK s) (uri user pw db : String) (delete : Bool)
    (hdb : delete = true ∨ w.db = {}) :
    ∃ w', Gen.ingest_attack_graph w s uri user pw db delete = .ok w' ∧
      w'.db.nodes = s.nodes.map (fun r =>
        { labels := [match (s.n r).asset with | some a => a.name | none => Py.strOptInt (s.n r).id]
          props := [("name", (s.n r).name), ("full_name", Py.Gen.node_full_name s r), ("type", (s.n r).type),
                    ("ttc", pyStrAtom (Py.atomOfOptDictS (s.n r).ttc)),
                    ("is_necessary", strOfBool (s.n r).is_necessary), ("is_viable", strOfBool (s.n r).is_viable),
                    ("compromised_by", pyStrAtom (.strs ((s.n r).compromised_by.map fun a => (s.a a).name))),
                    ("defense_status", match (s.n r).defense_status with | some v => Py.pyStrFloat v | none => "N/A")] }) ∧
      (∀ e, e ∈ absGRels w'.db ↔
        ∃ r ∈ s.nodes, ∃ c ∈ (s.n r).children, e = (TieG.pos s.nodes r, TieG.pos s.nodes c)) ∧
      (absGRels w'.db).Nodup := by
  have hrun := TieG.ingest_attack_graph_heap w s uri user pw db delete hdb h.idsNodup h.closed
  obtain ⟨w', h1, _, h3⟩ := TieG.ingest_attack_graph_tie w s h uri user pw db delete hdb 0 0
  obtain ⟨_, hm, hnd⟩ := C19.ingest_graph_iso tnCanon (Py.absS s 0 0)
  refine ⟨w', h1, ?_, ?_, ?_⟩
  · rw [hrun] at h1
    rw [← Except.ok.inj h1]
    rfl
  · intro e
    rw [h3, hm]
    rfl
  · rw [h3]; exact hnd

/-- the hypothesis on the children is needed -/
theorem ingest_attack_graph_dangling_child_raises (w : W) (s : Py.H) (uri user pw db : String) (delete : Bool)
    (r c : Py.NRef) (hr : r ∈ s.nodes) (hc : c ∈ (s.n r).children)
    (hmiss : (s.n c).id ∉ s.nodes.map (fun r => (s.n r).id)) :
    Gen.ingest_attack_graph w s uri user pw db delete = .error .keyError :=
  TieG.ingest_attack_graph_keyError w s uri user pw db delete r c hr hc hmiss

/-- `GraphOK` is satisfiable: three steps (one without asset, a defense), a child listed twice -/
def demoGraph : Py.H :=
  { n := fun r => match r with
      | 0 => { id := some 10, name := "access", asset := some { id := 1, type := "Host", name := "h" }, children := [1, 2, 1] }
      | 1 => { id := some 11, name := "reach", asset := some { id := 2, type := "Net", name := "n" }, children := [2],
               parents := [0], ttc := some [("x", "1")] }
      | _ => { id := some 12, name := "patched", type := "defense", defense_status := some { text := "1.0", cls := .one },
               parents := [0, 1] }
    nodes := [0, 1, 2] }

theorem demoGraph_ok : TieG.GraphOK demoGraph := by
  refine ⟨by decide, by decide, by decide, ?_⟩
  intro r hr
  have : r = 0 ∨ r = 1 ∨ r = 2 := by simpa [demoGraph] using hr
  rcases this with rfl | rfl | rfl
  · exact Or.inl rfl
  · exact Or.inl rfl
  · exact Or.inr (Or.inr (Or.inl rfl))

example : dbOf (Gen.ingest_attack_graph {} demoGraph "uri" "u" "p" "db" false) =
    some { nodes := [⟨["h"], [("name", "access"), ("full_name", "h:access"), ("type", "or"), ("ttc", "None"),
                              ("is_necessary", "True"), ("is_viable", "True"), ("compromised_by", "[]"), ("defense_status", "N/A")]⟩,
                     ⟨["n"], [("name", "reach"), ("full_name", "n:reach"), ("type", "or"), ("ttc", "{'x': 1}"),
                              ("is_necessary", "True"), ("is_viable", "True"), ("compromised_by", "[]"), ("defense_status", "N/A")]⟩,
                     ⟨["12"], [("name", "patched"), ("full_name", "12:patched"), ("type", "defense"), ("ttc", "None"),
                               ("is_necessary", "True"), ("is_viable", "True"), ("compromised_by", "[]"), ("defense_status", "1.0")]⟩],
           rels := [⟨0, "Relationship", 1⟩, ⟨0, "Relationship", 2⟩, ⟨1, "Relationship", 2⟩] } := by
  decide +kernel

/-! ### `get_model` -/

/-- the translated `get_model` is its two loops over the results of the two queries -/
theorem get_model_two_loops (w : W) (env : NeoEnv) (uri user pw db : String) :
    Gen.get_model w env uri user pw db =
      (forIn (queryAssets w.db) (modelInit "Neo4j imported model") (gmAssetStep env)).bind fun s1 =>
      (forIn (queryPairs w.db) s1 (gmPairStep env)).bind fun s2 => .ok s2 :=
  get_model_run w env uri user pw db

/-- the asset loop of the translated `get_model` is the asset loop of the reference `Neo.getModel`, on every database
whose nodes have `type`, `name` and a numeric `asset_id` (`DbWF`; true of what `ingest_model` stores) -/
theorem get_model_asset_loop_refines (L : Lang) (nodes : List AssocDecl) (menv : ModelEnv) (db : Db) (hdb : DbWF db)
    (hfuel : db.nodes.length + 1 ≤ menv.whileFuel) (nm : String) :
    absR (forIn (queryAssets db) (modelInit nm) (gmAssetStep (envOf L nodes menv))) =
      (Neo.queryAssets (absDb db)).foldlM (fun s e => Neo.assetStepN L s e.2) (abs (modelInit nm)) :=
  asset_loop_tie L nodes menv db hdb hfuel nm

/-- what `ingest_model` stores is well formed in that sense -/
theorem ingest_model_dbWF (w : W) (s : H) (h : Inv s) (uri user pw db : String) (delete : Bool)
    (hdb : delete = true ∨ w.db = {}) (w' : W) (hrun : Gen.ingest_model w s uri user pw db delete = .ok w') :
    DbWF w'.db := by
  obtain ⟨w'', h1, _, h3, _⟩ := ingest_model_tie w s (modelOK_of_inv s h) uri user pw db delete hdb
  rw [hrun] at h1
  obtain rfl := Except.ok.inj h1
  intro n hn
  rw [h3] at hn
  obtain ⟨a, _, rfl⟩ := List.mem_map.1 hn
  refine ⟨by simp [hasProp, nodeRec], by simp [hasProp, nodeRec], by simp [hasProp, nodeRec], attrInt (s.a a).id, ?_⟩
  show (strOfInt (attrInt (s.a a).id)).toInt? = _
  exact Ser.toInt_toString _

/-- `FieldsDiffer`, a hypothesis of `C19.get_model_inverts` that the reference model needs
(`C19.fields_differ_needed`), holds of every heap: the two fields of a pjs association object are two different keys -/
theorem fields_differ_automatic (s : H) : Neo.FieldsDiffer (abs s) := fun l _ => (s.l l).distinct

/-! #### round trips of the translated code -/

def demoDb : Db :=
  { nodes := [⟨["Host"], [("name", "h"), ("asset_id", "0"), ("type", "Host")]⟩,
              ⟨["Net"], [("name", "Net:-3"), ("asset_id", "-3"), ("type", "Net")]⟩],
    rels := [⟨0, "hosts", 1⟩, ⟨1, "nets", 0⟩] }

theorem demo_ingest : dbOf (Gen.ingest_model {} demoHeap "uri" "u" "p" "db" true) = some demoDb := by decide +kernel

def demoParse (t : String) : Except PyErr Int := if t = "0" then .ok 0 else if t = "-3" then .ok (-3) else .error .valueError

theorem parse_int (i : Int) (t : String) (e : toString i = t) : pyIntOfStr t = .ok i := by
  have h := Ser.toInt_toString i
  rw [e] at h
  unfold pyIntOfStr
  rw [h]

theorem get_model_db_only (w w' : W) (h : w.db = w'.db) (env : NeoEnv) (uri user pw db : String) :
    Gen.get_model w env uri user pw db = Gen.get_model w' env uri user pw db := by
  rw [get_model_run, get_model_run, h]

set_option synthInstance.maxSize 1024 in
theorem demo_get_P : Sample.obs (getModelP demoParse ⟨[], demoDb⟩ (envOf MS.Demo.lang MS.Demo.lang.assocs C05.idEnv)) =
    some ([(some 0, some "h", "Host"), (some (-3), some "Net:-3", "Net")], [("Link_Host_Net", [0], [1])]) := by
  decide +kernel

theorem demo_ids : ∀ t ∈ (queryAssets demoDb ++ queryPairs demoDb).flatMap rowIds, t = "0" ∨ t = "-3" := by
  decide +kernel

/-- reading back what was ingested: the translated `get_model` over what the translated `ingest_model` stored for
`demoHeap` rebuilds the two assets with their ids (0 and -3), names and types, and the link -/
theorem demo_roundtrip (w' : W) (h : Gen.ingest_model {} demoHeap "uri" "u" "p" "db" true = .ok w')
    (uri user pw db : String) :
    Sample.obs (Gen.get_model w' (envOf MS.Demo.lang MS.Demo.lang.assocs C05.idEnv) uri user pw db) =
      some ([(some 0, some "h", "Host"), (some (-3), some "Net:-3", "Net")], [("Link_Host_Net", [0], [1])]) := by
  have hdb : w'.db = demoDb := by
    have := demo_ingest
    rw [h] at this
    exact Option.some.inj this
  rw [get_model_db_only w' ⟨[], demoDb⟩ hdb, get_model_eq_P, getModelP_congr pyIntOfStr demoParse]
  · exact demo_get_P
  · intro t ht
    rcases demo_ids t ht with rfl | rfl
    · exact parse_int 0 "0" (by decide +kernel)
    · exact parse_int (-3) "-3" (by decide +kernel)

/-- the model of `C19.no_mixed_match_needed`, built by the translated model operations -/
def mixHeap : H :=
  ([.addAsset "X" (some "x") [] true "{}" (some 1) true, .addAsset "Y" (some "y") [] true "{}" (some 2) true,
    .addAssociation "A" [0] [1], .addAssociation "B" [0] [1]] : List MS.Op).foldl
    (Tie.stepGen Neo.Sample.mixLang C05.idEnv) {}

def mixDb : Db :=
  { nodes := [⟨["X"], [("name", "x"), ("asset_id", "1"), ("type", "X")]⟩, ⟨["Y"], [("name", "y"), ("asset_id", "2"), ("type", "Y")]⟩],
    rels := [⟨0, "f", 1⟩, ⟨1, "g", 0⟩, ⟨0, "f2", 1⟩, ⟨1, "g2", 0⟩] }

theorem mix_ingest : dbOf (Gen.ingest_model {} mixHeap "uri" "u" "p" "db" true) = some mixDb := by decide +kernel

def mixParse (t : String) : Except PyErr Int := if t = "1" then .ok 1 else if t = "2" then .ok 2 else .error .valueError

set_option synthInstance.maxSize 1024 in
theorem mix_get_P : Sample.obs (getModelP mixParse ⟨[], mixDb⟩ (envOf Neo.Sample.mixLang Neo.Sample.mixLang.assocs C05.idEnv)) =
    some ([(some 1, some "x", "X"), (some 2, some "y", "Y")], [("A", [0], [1]), ("Mix", [0], [1]), ("B", [0], [1])]) := by
  decide +kernel

theorem mix_ids : ∀ t ∈ (queryAssets mixDb ++ queryPairs mixDb).flatMap rowIds, t = "1" ∨ t = "2" := by
  decide +kernel

/-- `NoMixedMatch` is needed for the translated code too: `x` and `y` are linked by `A` (fields `f`, `g`) and `B`
(`f2`, `g2`), the language also declares `Mix` with the fields `f`, `g2`; the translated `get_model` over what the
translated `ingest_model` stored has the two links and a spurious `Mix` link -/
theorem no_mixed_match_needed (w' : W) (h : Gen.ingest_model {} mixHeap "uri" "u" "p" "db" true = .ok w')
    (uri user pw db : String) :
    Sample.obs (Gen.get_model w' (envOf Neo.Sample.mixLang Neo.Sample.mixLang.assocs C05.idEnv) uri user pw db) =
      some ([(some 1, some "x", "X"), (some 2, some "y", "Y")], [("A", [0], [1]), ("Mix", [0], [1]), ("B", [0], [1])]) := by
  have hdb : w'.db = mixDb := by
    have := mix_ingest
    rw [h] at this
    exact Option.some.inj this
  rw [get_model_db_only w' ⟨[], mixDb⟩ hdb, get_model_eq_P, getModelP_congr pyIntOfStr mixParse]
  · exact mix_get_P
  · intro t ht
    rcases mix_ids t ht with rfl | rfl
    · exact parse_int 1 "1" (by decide +kernel)
    · exact parse_int 2 "2" (by decide +kernel)


/-! ### the general tie of `get_model`, and the inversion theorem for the translated code -/

/-- the observational equivalence C19 talks about ("the same assets and links"): the same assets (id, name, type,
value of every defense, extras), the same associations (class, field names, member ids in order), the same attackers
(entry points by asset id), all in the same order, and the same reserved ids / names and next id.  Unreachable objects,
allocation counters and the references themselves are not observed. -/
structure SameObs (L : Lang) (m m' : MS.St) : Prop where
  model : Ser.SameModel L m m'
  ids : m.assetIds = m'.assetIds
  names : m.assetNames = m'.assetNames
  nextId : m.nextId = m'.nextId

/-- the relation kept by the loops of the translated `get_model` (`Sim.Rel`: the same model up to association
references) implies the observational equivalence -/
theorem rel_sameObs {L : Lang} {m m' : MS.St} (h : Rel m m') : SameObs L m m' :=
  ⟨h.sameModel, h.reserved.1, h.reserved.2.1, h.reserved.2.2⟩

/-- **general tie**: whenever the reference `Neo.getModel` over the abstracted database returns a model (the database
being well formed and without entry-point relationships, the classes of the resolved rows existing), the translated
`get_model` returns too, with observationally the same model, and the result is coherent.  The translated second loop
allocates an association object per row before the existence test; the objects it drops are not observed. -/
theorem get_model_refines (L : Lang) (nodes : List AssocDecl) (menv : ModelEnv) (hE : EqId menv) (w : W) (hok : DbOK w.db)
    (hfuel : w.db.nodes.length + 1 ≤ menv.whileFuel) (m' : MS.St)
    (href : Neo.getModel L nodes (absDb w.db) = .ok m')
    (hres : ∀ s1', (absDb w.db).nodes.foldlM (Neo.assetStepN L) ({} : MS.St) = .ok s1' →
      RowsResolved L nodes (absDb w.db) s1')
    (uri user pw db : String) :
    ∃ s', Gen.get_model w (envOf L nodes menv) uri user pw db = .ok s' ∧ SameObs L (abs s') m' ∧ Inv s' := by
  obtain ⟨s', h1, h2, h3⟩ := get_model_sim L nodes menv hE w hok hfuel m' href hres uri user pw db
  exact ⟨s', h1, rel_sameObs h2, h3⟩

/-- what `ingest_model` stores is `DbOK` -/
theorem ingest_model_dbOK (w : W) (s : H) (h : Inv s) (hfs : Legacy.NoFirstSteps (abs s)) (uri user pw db : String)
    (delete : Bool) (hdb : delete = true ∨ w.db = {}) (w' : W)
    (hrun : Gen.ingest_model w s uri user pw db delete = .ok w') : DbOK w'.db := by
  obtain ⟨w'', h1, h2⟩ := ingest_model_refines w s h uri user pw db delete hdb
  rw [hrun] at h1
  obtain rfl := Except.ok.inj h1
  have hrels : w'.db.rels.map absRel = (Neo.ingestModel (abs s)).rels := congrArg Neo.Sub.rels h2
  have hnodes : w'.db.nodes.map absNode = (Neo.ingestModel (abs s)).nodes := congrArg Neo.Sub.nodes h2
  have hlen : (Neo.ingestModel (abs s)).nodes.length = w'.db.nodes.length := by rw [← hnodes, List.length_map]
  refine ⟨ingest_model_dbWF w s h uri user pw db delete hdb w' hrun, ?_, ?_⟩
  · intro r hr
    have := rels_in_range (abs s) h (absRel r) (by rw [← hrels]; exact List.mem_map_of_mem hr)
    rw [hlen] at this
    exact this
  · intro r hr
    exact rels_noFirstSteps (abs s) h hfs (absRel r) (by rw [← hrels]; exact List.mem_map_of_mem hr)

/-- **reading a model back from what was ingested reconstructs the same assets and links** — for the translated code:
`C19.get_model_inverts` transferred in full.  Translated `get_model` over what translated `ingest_model` stored for a
coherent valid model returns a coherent model with one asset per asset (same id, name, type; every defense at its
default) and exactly the pairwise expansion of the links, none twice, no attackers.  Hypotheses: those of the reference
theorem (`FieldsDiffer` is automatic: `fields_differ_automatic`; `NoMixedMatch` stays needed: `no_mixed_match_needed`),
the non-empty class names (`NamesNonempty`: Python raises `LookupError` on an empty class name, the reference does
not look), pjs equality relating no two objects (`EqId`) and the bound of the renaming loop of `add_asset`. -/
theorem get_model_inverts (L : Lang) (nodes : List AssocDecl) (menv : ModelEnv) (hE : EqId menv) (s : H) (h : Inv s)
    (hv : MS.Valid L (abs s)) (hna : ∀ a ∈ s.assets, (s.a a).type ≠ "Attacker")
    (hr : Legacy.PairsResolve L nodes (abs s)) (hm : Neo.NoMixedMatch L nodes (abs s)) (hfs : Legacy.NoFirstSteps (abs s))
    (hne : NamesNonempty L) (hfuel : s.assets.length + 1 ≤ menv.whileFuel)
    (w : W) (uri user pw db : String) (delete : Bool) (hdb : delete = true ∨ w.db = {}) :
    ∃ w' s', Gen.ingest_model w s uri user pw db delete = .ok w' ∧
      Gen.get_model w' (envOf L nodes menv) uri user pw db = .ok s' ∧ Inv s' ∧
      s'.assets.map (Ser.assetView L (abs s')) =
        s.assets.map (fun a => ⟨attrInt (s.a a).id, attrStr (s.a a).name, (s.a a).type, MS.defensesOf L (s.a a).type, "{}"⟩) ∧
      (∀ v, v ∈ s'.associations.map (Ser.assocView (abs s')) ↔
        ∃ l ∈ s.associations, ∃ x ∈ (s.l l).left, ∃ y ∈ (s.l l).right,
          v = ⟨(s.l l).cls, (s.l l).lf, [attrInt (s.a x).id], (s.l l).rf, [attrInt (s.a y).id], "{}"⟩) ∧
      (s'.associations.map (Ser.assocView (abs s'))).Nodup ∧
      (s'.associations.map (Ser.assocView (abs s'))).Perm ((Legacy.pairsOf (abs s)).map Legacy.Pair.view) ∧
      s'.attackers = [] := by
  obtain ⟨w', hw', habs⟩ := ingest_model_refines w s h uri user pw db delete hdb
  obtain ⟨m', hm', _, ha, hmem, hnd, hperm, hatt⟩ :=
    _root_.MalVerif.C19.get_model_inverts L nodes (abs s) h hv hna hr hm hfs (fields_differ_automatic s)
  have hok := ingest_model_dbOK w s h hfs uri user pw db delete hdb w' hw'
  have hlen : w'.db.nodes.length = s.assets.length := by
    have : w'.db.nodes.map absNode = (Neo.ingestModel (abs s)).nodes := congrArg Neo.Sub.nodes habs
    have e := congrArg List.length this
    rw [List.length_map, Neo.ingestModel_nodes, List.length_map] at e
    exact e
  obtain ⟨s', hs', hR, hI⟩ := get_model_sim L nodes menv hE w' hok (by rw [hlen]; exact hfuel) m'
    (by rw [habs]; exact hm')
    (by
      intro s1' h1
      rw [habs] at h1 ⊢
      exact rowsResolved_ingest L nodes (abs s) h hv hna hr hm hfs (fields_differ_automatic s) hne s1' h1)
    uri user pw db
  have sm := hR.sameModel (L := L)
  have e1 : s'.assets.map (Ser.assetView L (abs s')) = m'.assets.map (Ser.assetView L m') := sm.assets
  have e2 : s'.associations.map (Ser.assocView (abs s')) = m'.associations.map (Ser.assocView m') := sm.assocs
  refine ⟨w', s', hw', hs', hI, ?_, ?_, ?_, ?_, ?_⟩
  · rw [e1]; exact ha
  · intro v; rw [e2]; exact hmem v
  · rw [e2]; exact hnd
  · rw [e2]; exact hperm
  · have : (abs s').attackers = m'.attackers := hR.attackers
    rw [hatt] at this
    exact this

/-- the hypotheses of `get_model_inverts` are satisfiable: `demoHeap` (two assets with the ids 0 and -3, a link, built by
the translated model operations) with the language of the C05 / C06 examples and its declarations as association nodes -/
theorem demo_valid : MS.Valid MS.Demo.lang (abs demoHeap) := by
  have e := (C05.reachable_inv MS.Demo.lang C05.demo_fieldsDistinct C05.idEnv_eqId (C05.demoOps.take 5)
    ⟨by show _ ≤ _; decide, by show _ ≤ _; decide, trivial, trivial, trivial, trivial⟩).1
  show MS.Valid MS.Demo.lang (abs ((C05.demoOps.take 5).foldl (Tie.stepGen MS.Demo.lang C05.idEnv) {}))
  rw [e]
  apply MS.foldl_applyOp_valid _ _ _ Tie.init_inv
  refine ⟨?_, ?_, ?_, ?_, ?_⟩
  · intro a ha; cases ha
  · intro l hl; cases hl
  · intro l hl; cases hl
  · intro l hl; cases hl
  · intro l hl; cases hl

theorem demo_hypotheses :
    EqId C05.idEnv ∧ Inv demoHeap ∧ MS.Valid MS.Demo.lang (abs demoHeap) ∧
    (∀ a ∈ demoHeap.assets, (demoHeap.a a).type ≠ "Attacker") ∧
    Legacy.PairsResolve MS.Demo.lang MS.Demo.lang.assocs (abs demoHeap) ∧
    Neo.NoMixedMatch MS.Demo.lang MS.Demo.lang.assocs (abs demoHeap) ∧ Legacy.NoFirstSteps (abs demoHeap) ∧
    NamesNonempty MS.Demo.lang ∧ demoHeap.assets.length + 1 ≤ C05.idEnv.whileFuel := by
  obtain ⟨h1, h2, h3, _⟩ := _root_.MalVerif.C19.resolution_of_unique_fields MS.Demo.lang MS.Demo.lang.assocs (abs demoHeap)
    demo_inv demo_valid (fun _ h => h) (by decide) ⟨by decide, by decide⟩ (by decide)
  exact ⟨C05.idEnv_eqId, demo_inv, demo_valid, by decide, h1, h2, h3, by unfold NamesNonempty; decide, by decide⟩

/-- so the inversion theorem applies to it (the same conclusion as the kernel run `demo_roundtrip`, now by the general
theorem) -/
example : ∃ w' s', Gen.ingest_model {} demoHeap "uri" "u" "p" "db" true = .ok w' ∧
    Gen.get_model w' (envOf MS.Demo.lang MS.Demo.lang.assocs C05.idEnv) "uri" "u" "p" "db" = .ok s' ∧ Inv s' ∧
    s'.attackers = [] ∧ (s'.associations.map (Ser.assocView (abs s'))).Nodup := by
  obtain ⟨hE, hI, hV, hna, hr, hm, hfs, hne, hfuel⟩ := demo_hypotheses
  obtain ⟨w', s', a, b, c, _, _, d, _, e⟩ := get_model_inverts MS.Demo.lang MS.Demo.lang.assocs C05.idEnv hE demoHeap hI hV hna
    hr hm hfs hne hfuel {} "uri" "u" "p" "db" true (Or.inl rfl)
  exact ⟨w', s', a, b, c, e, d⟩

/-! ### the ingest functions without `delete`: what is stored is appended -/

/-- `ingest_model` on any database: the nodes and relationships of the model are appended to what is stored
(`delete = False`), the positions of the new relationships shifted by the number of nodes that were there -/
theorem ingest_model_appends (w : W) (s : H) (h : Inv s) (uri user pw db : String) (delete : Bool) :
    ∃ w' d, Gen.ingest_model w s uri user pw db delete = .ok w' ∧ absDb d = Neo.ingestModel (abs s) ∧
      w'.db = Db.append (if delete then {} else w.db) d := by
  have hrun := ingest_model_run_gen w s (modelOK_of_inv s h) uri user pw db delete
  obtain ⟨w0, h0, habs, _⟩ := ingest_model_tie w s (modelOK_of_inv s h) uri user pw db true (Or.inl rfl)
  rw [ingest_model_run w s (modelOK_of_inv s h) uri user pw db true (Or.inl rfl)] at h0
  obtain rfl := Except.ok.inj h0
  exact ⟨_, _, hrun, habs, rfl⟩

/-- `ingest_attack_graph` on any database, for every graph heap with distinct ids and closed children -/
theorem ingest_attack_graph_appends (w : W) (s : Py.H) (uri user pw db : String) (delete : Bool)
    (hnd : (s.nodes.map (fun r => (s.n r).id)).Nodup) (hcl : ∀ r ∈ s.nodes, ∀ c ∈ (s.n r).children, c ∈ s.nodes) :
    Gen.ingest_attack_graph w s uri user pw db delete =
      .ok { objs := w.objs ++ s.nodes.map (TieG.stepRec s),
            db := Db.append (if delete then {} else w.db) (TieG.resultDb s) } :=
  TieG.ingest_attack_graph_heap_gen w s uri user pw db delete hnd hcl

/-- `ingest_attack_graph_iso` applies to every graph heap that satisfies the structural invariant of the attack-graph
state machine (C09: kept by every translated graph operation), has ids and known node types -/
theorem graphOK_of_consistent (s : Py.H) (nf af : Nat) (hc : AGS.Consistent (Py.absS s nf af))
    (hids : ∀ r ∈ s.nodes, (s.n r).id.isSome) (ht : ∀ r ∈ s.nodes, Py.KnownType (s.n r).type) : TieG.GraphOK s :=
  TieG.graphOK_of_consistent s nf af hc hids ht

end MalVerif.PropsGen.C19
