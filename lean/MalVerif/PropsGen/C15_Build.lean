import MalVerif.Py.TieLangTypeBuild
/-!
# C15 for the *translated* construction of the language graph (`_generate_graph`, `process_step_expression`)

`runBuild L R` runs the GENERATED `lg__generate_graph` (`Py/GenLangType/Build.lean`) on the specification heap of the
language `L` (`loadPy L`, recursion limit `R`); `BuildAgrees L R` (`Py/TieLangType.lean`) is the decidable statement
that the heap it leaves, read back, is what the hand model `LG.generate L` computes (same error class otherwise).
It is proved by kernel evaluation for the demo languages in `Py/TieLangTypeBuild.lean`.  The theorems below hold for
every language that passes this check: they restate the clauses of C15 for the heap of asset / association /
attack-step objects the translated code builds.
-/
namespace MalVerif.PropsGen.C15_Build
open MalVerif MalVerif.Py MalVerif.Py.LSpec MalVerif.Py.LType MalVerif.Py.GenLangType MalVerif.LG MalVerif.LG.Demo
open MalVerif.Py.TieLangType

/-- the association nodes of a built heap, read back -/
abbrev builtNodes (s : TH) : List AssocDecl := s.g.associations.map (fullDeclOf s)

/-- **one asset object per declared asset**, in declaration order, carrying its name -/
theorem one_asset_per_declaration (L : Lang) (R : Nat) (s : TH) (h : BuildAgrees L R) (hr : runBuild L R = .ok s) :
    s.g.assets.map (gname s.g) = L.assets.map (·.name) := by
  obtain ⟨g, _, hp⟩ := buildAgrees_run_ok h hr
  have := congrArg (fun p => p.assets.map (·.1)) hp
  simpa [pictureOf, modelPictureOf, List.map_map, Function.comp_def] using this

/-- **super / sub links mirror `extends`**: the `super_assets` of the object of a declaration are the object of its
`superAsset` (if it names one), its `sub_assets` the objects of the declarations that name it, in declaration order -/
theorem super_sub_links_mirror_extends (L : Lang) (R : Nat) (s : TH) (h : BuildAgrees L R) (hr : runBuild L R = .ok s) :
    s.g.assets.map (fun r => (gname s.g r, (s.g.asset r).super_assets.map (gname s.g),
                              (s.g.asset r).sub_assets.map (gname s.g))) =
    L.assets.map (fun a => (a.name, ((supers L a.name).drop 1).take 1,
                            (L.assets.filter (fun c => c.superAsset = some a.name)).map (·.name))) := by
  obtain ⟨g, _, hp⟩ := buildAgrees_run_ok h hr
  exact congrArg Picture.assets hp

/-- the association objects are the hand model's association nodes (KF-C15-1 included: same-signature
declarations are merged, `same_signature_merged_translated`) -/
theorem association_nodes (L : Lang) (R : Nat) (s : TH) (h : BuildAgrees L R) (hr : runBuild L R = .ok s) :
    assocNodes L = .ok (builtNodes s) := by
  obtain ⟨g, hg, hp⟩ := buildAgrees_run_ok h hr
  have hn : builtNodes s = g.assocs := congrArg Picture.nodes hp
  obtain ⟨_, _, ha, _⟩ := generate_ok hg
  rw [hn]; exact ha

/-- **each asset lists exactly the associations in which it or an ancestor takes part** (signatures of the
declarations pairwise distinct — without that hypothesis the statement is false, KF-C15-1) -/
theorem association_lists_exact (L : Lang) (R : Nat) (s : TH) (h : BuildAgrees L R) (hr : runBuild L R = .ok s)
    (hsig : SigDistinct L) (r : GARef) (hmem : r ∈ s.g.assets) (d : AssocDecl) :
    d ∈ (s.g.asset r).associations.map (fullDeclOf s) ↔
      d ∈ L.assocs ∧ (L.isSub (gname s.g r) d.leftAsset = true ∨ L.isSub (gname s.g r) d.rightAsset = true) := by
  obtain ⟨g, hg, hp⟩ := buildAgrees_run_ok h hr
  obtain ⟨_, _, ha, _⟩ := generate_ok hg
  have hl : (pictureOf s).assocLists = (modelPictureOf L g).assocLists := congrArg Picture.assocLists hp
  have hm : (gname s.g r, (s.g.asset r).associations.map (fullDeclOf s)) ∈ (pictureOf s).assocLists :=
    List.mem_map.2 ⟨r, hmem, rfl⟩
  rw [hl] at hm
  obtain ⟨a, _, he⟩ := List.mem_map.1 hm
  have h1 : a.name = gname s.g r := congrArg Prod.fst he
  have h2 : assocsOf L g.assocs a.name = (s.g.asset r).associations.map (fullDeclOf s) := congrArg Prod.snd he
  rw [← h2, h1]
  exact C15.assocs_of_asset L g.assocs ha hsig (gname s.g r) d

/-- **every step-to-step link appears both in the source's `children` and in the target's `parents`** -/
theorem links_mirrored (L : Lang) (R : Nat) (s : TH) (h : BuildAgrees L R) (hr : runBuild L R = .ok s) :
    (linksOf s).Perm (parentLinksOf s) := by
  obtain ⟨g, _, hp⟩ := buildAgrees_run_ok h hr
  have : decide ((linksOf s).Perm (parentLinksOf s)) = true := congrArg Picture.mirrored hp
  exact of_decide_eq_true this

/-- the attack-step objects of an asset are its own and inherited steps (`_get_attacks_for_asset_type`) -/
theorem attack_steps_of_assets (L : Lang) (R : Nat) (s : TH) (h : BuildAgrees L R) (hr : runBuild L R = .ok s) :
    stepsOf s = L.assets.map (fun a => (a.name, (L.foldSteps a.name).map (·.1))) := by
  obtain ⟨g, _, hp⟩ := buildAgrees_run_ok h hr
  exact congrArg Picture.steps hp

/-- the links of the built heap are the hand model's: one per reaches expression of every (inherited) step of every
asset, from that step to the step the static typing `process_step_expression` names -/
theorem links_are_typed (L : Lang) (R : Nat) (s : TH) (h : BuildAgrees L R) (hr : runBuild L R = .ok s) (l : Link) :
    l ∈ linksOf s ↔ ∃ a ∈ L.assets, ∃ st ∈ L.foldSteps a.name, ∃ e ∈ reachExprs st.2,
      LinkOf L (builtNodes s) (genFuel L) a.name st.1 e l := by
  obtain ⟨g, hg, hp⟩ := buildAgrees_run_ok h hr
  have hn : builtNodes s = g.assocs := congrArg Picture.nodes hp
  have hl : linksOf s = g.links := congrArg Picture.links hp
  rw [hn, hl]
  exact C15.links_iff L g hg l

/-- **a super asset that is not declared: `LanguageGraphSuperAssetNotFoundError`** -/
theorem unknown_super_asset_raises (L : Lang) (R : Nat) (h : BuildAgrees L R) (a : AssetDecl) (ha : a ∈ L.assets)
    (t : String) (hs : a.superAsset = some t) (hn : L.findAsset t = none) :
    runBuild L R = .error errSuperAssetNotFound :=
  buildAgrees_error h (C15.ill_formed_rejected_super L a ha t hs hn)

/-- **an association end that is not a declared asset: `LanguageGraphAssociationError`** -/
theorem unknown_association_end_raises (L : Lang) (R : Nat) (h : BuildAgrees L R) (hs : supersOk L = true)
    (d : AssocDecl) (hd : d ∈ L.assocs) (hn : L.findAsset d.leftAsset = none ∨ L.findAsset d.rightAsset = none) :
    runBuild L R = .error errAssociation :=
  buildAgrees_error h (C15.ill_formed_rejected_assoc L hs d hd hn)

/-- **a reaches expression that is not typed with a target asset and one of its attack steps raises** -/
theorem untyped_reaches_raises (L : Lang) (R : Nat) (h : BuildAgrees L R) (nodes : List AssocDecl)
    (hn : assocNodes L = .ok nodes) (a : AssetDecl) (ha : a ∈ L.assets) (st : String × StepDecl)
    (hst : st ∈ L.foldSteps a.name) (e : Expr) (he : e ∈ reachExprs st.2)
    (hbad : ∀ u n, typeF L nodes (genFuel L) e a.name = .ok (some (u, some n)) →
      (L.foldSteps u).any (·.1 = n) = false) :
    ∃ err, runBuild L R = .error err := by
  obtain ⟨err, herr⟩ := C15.ill_formed_rejected_reaches L nodes hn a ha st hst e he hbad
  exact ⟨_, buildAgrees_error h herr⟩

/-- **every attack-graph edge is predicted by a link of the translated language graph**: `C15.overapprox` with the
language graph read back from the heap the translated `_generate_graph` built -/
theorem overapprox_translated (L : Lang) (R : Nat) (s : TH) (h : BuildAgrees L R) (hr : runBuild L R = .ok s)
    (m : Inst) (ns : List GNode) (es : List (Nat × Nat)) (hgen : genGraph L m = .ok (ns, es))
    (hac : Acyclic L) (hfu : FieldsUnique L (builtNodes s)) (hns : NoShadow L) (hv : ValidFor L m (builtNodes s))
    (hexpr : ∀ A ∈ L.assets, ∀ st ∈ L.foldSteps A.name, ∀ e ∈ reachExprs st.2,
      StarTyped L (builtNodes s) (genFuel L) e A.name ∧ (lastStep e).isSome = true)
    (a b : Nat) (hab : (a, b) ∈ es) :
    ∃ n ∈ ns, n.id = a ∧ ∃ X ∈ m.assets, n.asset = X.id ∧
    ∃ t ∈ ns, t.id = b ∧ ∃ Y ∈ m.assets, ∃ tn U, t.fullName = Y.name ++ ":" ++ tn ∧
      ({ srcAsset := X.type, srcStep := n.step, dstAsset := U, dstStep := tn } : Link) ∈ linksOf s ∧
      L.isSub Y.type U = true := by
  obtain ⟨g, hg, hp⟩ := buildAgrees_run_ok h hr
  have hn : builtNodes s = g.assocs := congrArg Picture.nodes hp
  have hl : linksOf s = g.links := congrArg Picture.links hp
  rw [hn] at hfu hv hexpr
  rw [hl]
  exact C15.overapprox L m g ns es hg hgen hac hfu hns hv hexpr a b hab

/-- the typing function of the translated code on the built graph: when it names a target asset and `L` passes
`TypingAgreesUpToClass` for the expression, that is the hand model's static type — so `C15.type_soundness` applies
to what the translated `process_step_expression` answers -/
theorem typing_is_model (L : Lang) (R : Nat) (es : List Expr) (h : TypingAgreesUpToClass L R es)
    (s : TH) (hr : runBuild L R = .ok s) (a : AssetDecl) (ha : a ∈ L.assets) (e : Expr) (he : e ∈ es)
    (U : String) (st : Option String) (ht : typed (typeRun s R a.name e) = some (U, st)) :
    ∃ g, generate L = .ok g ∧ typeF L g.assocs (genFuel L) e a.name = .ok (some (U, st)) := by
  unfold TypingAgreesUpToClass at h
  rw [hr] at h
  cases hg : generate L with
  | error err => rw [hg] at h; exact absurd h (by simp)
  | ok g =>
    rw [hg] at h
    refine ⟨g, rfl, ?_⟩
    have := h a ha e he
    rw [ht] at this
    unfold typeModel typed at this
    split at this
    · rename_i v hv
      cases hty : typeF L g.assocs (genFuel L) e a.name with
      | error err => rw [hty] at hv; cases hv
      | ok x =>
        rw [hty] at hv
        cases hv
        cases this; rfl
    · cases this

/-! ## non-vacuity: the demo language `lgL` (and the ill-formed variants) -/

/-- `lgL` passes the check, is accepted, and the clauses above give: five asset objects, `Leaf` below `Mid` below
`Base`, `Leaf` lists `Runs` (declared on its ancestor `Base`) and its own `HL` but not `HO`, six links, mirrored -/
example : ∃ s, runBuild lgL 1000 = .ok s ∧
    s.g.assets.map (gname s.g) = ["Base", "Mid", "Leaf", "Other", "Host"] ∧
    (s.g.asset 2).super_assets.map (gname s.g) = ["Mid"] ∧ (s.g.asset 0).sub_assets.map (gname s.g) = ["Mid", "Other"] ∧
    (s.g.asset 2).associations.map (fun c => (fullDeclOf s c).name) = ["Runs", "HL"] ∧
    (linksOf s).length = 6 ∧ (linksOf s).Perm (parentLinksOf s) := by
  obtain ⟨g, hg⟩ : ∃ g, generate lgL = .ok g := by
    cases h : generate lgL with
    | ok g => exact ⟨g, rfl⟩
    | error e => exact absurd (show (generate lgL).toOption.isSome = true by decide) (by rw [h]; exact Bool.false_ne_true)
  obtain ⟨s, hr, hp⟩ := buildAgrees_ok build_lgL hg
  refine ⟨s, hr, ?_, ?_, ?_, ?_, ?_, links_mirrored lgL 1000 s build_lgL hr⟩
  · rw [one_asset_per_declaration lgL 1000 s build_lgL hr]; decide
  all_goals
    have h2 : (runBuild lgL 1000).map (fun s => ((s.g.asset 2).super_assets.map (gname s.g),
        (s.g.asset 0).sub_assets.map (gname s.g), (s.g.asset 2).associations.map (fun c => (fullDeclOf s c).name),
        (linksOf s).length)) = .ok (["Mid"], ["Mid", "Other"], ["Runs", "HL"], 6) := by decide
    rw [hr] at h2
    simp only [Except.map, Except.ok.injEq, Prod.mk.injEq] at h2
    first | exact h2.1 | exact h2.2.1 | exact h2.2.2.1 | exact h2.2.2.2

/-- the hypotheses of `overapprox_translated` are satisfiable: the model `lgM` of `lgL` -/
example : ∃ s ns es, runBuild lgL 1000 = .ok s ∧ genGraph lgL lgM = .ok (ns, es) ∧ es.length = 5 ∧
    ∀ a b, (a, b) ∈ es →
      ∃ n ∈ ns, n.id = a ∧ ∃ X ∈ lgM.assets, n.asset = X.id ∧
      ∃ t ∈ ns, t.id = b ∧ ∃ Y ∈ lgM.assets, ∃ tn U, t.fullName = Y.name ++ ":" ++ tn ∧
        ({ srcAsset := X.type, srcStep := n.step, dstAsset := U, dstStep := tn } : Link) ∈ linksOf s ∧
        lgL.isSub Y.type U = true := by
  have h1 : (generate lgL).map (·.assocs) = .ok [runs, hl, ho] := by decide
  have h2 : (genGraph lgL lgM).map (·.2.length) = .ok 5 := by decide
  have h3 : ∀ A ∈ lgL.assets, ∀ st ∈ lgL.foldSteps A.name, ∀ e ∈ reachExprs st.2,
      noStarNoVar e = true ∧ (lastStep e).isSome = true := by decide
  cases hg : generate lgL with
  | error err => rw [hg] at h1; cases h1
  | ok g =>
    cases hgen : genGraph lgL lgM with
    | error err => rw [hgen] at h2; cases h2
    | ok p =>
      obtain ⟨ns, es⟩ := p
      rw [hg] at h1; rw [hgen] at h2
      simp only [Except.map, Except.ok.injEq] at h1 h2
      obtain ⟨s, hr, hp⟩ := buildAgrees_ok build_lgL hg
      have hn : builtNodes s = [runs, hl, ho] := (congrArg Picture.nodes hp).trans h1
      refine ⟨s, ns, es, hr, rfl, h2, fun a b hab => ?_⟩
      refine overapprox_translated lgL 1000 s build_lgL hr lgM ns es hgen (acyclic_of_check lgL (by decide)) ?_
        (noShadow_of_no_variables lgL (by decide)) ?_ ?_ a b hab
      · rw [hn]; exact fieldsUnique_of_check lgL _ (by decide)
      · rw [hn]; exact ⟨by decide, by decide, by decide⟩
      · intro A hA st hst e he
        exact ⟨starTyped_of_starFree lgL _ _ e A.name (starFree_of_noStarNoVar lgL _ e (h3 A hA st hst e he).1),
          (h3 A hA st hst e he).2⟩

/-- the raising clauses apply to the ill-formed variants of `dirL` -/
example : runBuild badSuperL 1000 = .error errSuperAssetNotFound :=
  unknown_super_asset_raises badSuperL 1000 build_badSuperL _ (List.mem_singleton.2 rfl) "Nowhere" rfl (by decide)
example : runBuild badEndL 1000 = .error errAssociation :=
  unknown_association_end_raises badEndL 1000 build_badEndL (by decide) _ (List.mem_singleton.2 rfl) (Or.inr (by decide))

end MalVerif.PropsGen.C15_Build
