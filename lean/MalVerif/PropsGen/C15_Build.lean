import MalVerif.Py.TieLangTypeBuild
import MalVerif.Py.TieLangTypeFinal
import MalVerif.Py.TieLangTypeTotal
/-!
# C15 for the *translated* construction of the language graph (`_generate_graph`, `process_step_expression`)

`runBuild L R` runs the GENERATED `lg__generate_graph` (`Py/GenLangType/Build.lean`) on the specification heap of the
language `L` (`loadPy L`, recursion limit `R`); `BuildAgrees L R` (`Py/TieLangType.lean`) is the decidable statement
that the heap it leaves, read back, is what the hand model `LG.generate L` computes (same error class otherwise).
It is proved by kernel evaluation for the demo languages in `Py/TieLangTypeBuild.lean`.  The theorems below hold for
every language that passes this check: they restate the clauses of C15 for the heap of asset / association /
attack-step objects the translated code builds.
-/
namespace MalVerif.PropsGen.C15_Build
open MalVerif MalVerif.Py MalVerif.Py.LSpec MalVerif.Py.LType MalVerif.Py.GenLangType MalVerif.LG MalVerif.LG.Demo
open MalVerif.Py.TieLangType

/-- the association nodes of a built heap, read back -/
abbrev builtNodes (s : TH) : List AssocDecl := s.g.associations.map (fullDeclOf s)

/-! ## Part 1 — general theorems: every language, every recursion limit

`WellFormed L`: what the theorems assume of the language — nothing about its graph.  `runBuild L R` is the GENERATED
`lg__generate_graph` on the specification heap `loadPy L` with recursion limit `R`. -/

/-- the hypotheses on the language -/
structure WellFormed (L : Lang) : Prop where
  /-- no asset has the empty string as super asset (the Python reads `''` like `None`) -/
  load : LoadOK L
  /-- asset names are pairwise distinct (`duplicate_names_disagree` shows what happens otherwise) -/
  names : (L.assets.map (·.name)).Nodup
  /-- no `extends` cycle (with one the Python runs into `RecursionError` while the fuel-bounded hand model accepts:
  `build_cyclic_extends`) -/
  acyclic : Acyclic L
  /-- the hand model's fuel `genFuel L` for variables inside variables reaches every typing any fuel reaches — a
  statement about the hand model alone; `wellFormed_of_flat`: true when no variable definition uses a variable -/
  fuel : ∀ nodes, GenFuelEnough L nodes

/-- a decidable sufficient condition -/
theorem wellFormed_of_flat (L : Lang) (h1 : LoadOK L) (h2 : (L.assets.map (·.name)).Nodup) (h3 : Acyclic L)
    (h4 : VarsFlat L) : WellFormed L :=
  ⟨h1, h2, h3, fun nodes => genFuelEnough_of_flat L nodes h4⟩

theorem runBuild_eq (L : Lang) (R : Nat) : runBuild L R = runBuildH (loadPy L) R := rfl

/-- **the translated `_generate_graph` builds the hand model's graph**: whenever it returns — for ANY recursion
limit — the hand model accepts the language and the heap is `Built`: it represents `L` (`RepG`, `RepA`, `RepAssocs`),
its association objects are the hand model's nodes, its links the hand model's links (as a multiset), mirrored in
`children` and `parents`, its attack-step objects the inherited steps -/
theorem built_of_run (L : Lang) (hw : WellFormed L) (R : Nat) (s : TH) (hr : runBuild L R = .ok s) :
    ∃ g, generate L = .ok g ∧ Built s L g := by
  have hL := absLang_loadPy L hw.load
  have := build_sound (loadPy L) R (specOK_loadPy L hw.load hw.names) (by rw [hL]; exact hw.acyclic)
    (by rw [hL]; exact hw.fuel) s hr
  rw [hL] at this
  exact this

/-- **`RepG` of a built graph** — the assumption of the `lang` domain's theorems (`PropsGen/C15.lean`) discharged:
one asset object per declaration, in order, carrying its name; `super_assets` / `sub_assets` mirror `extends` -/
theorem repG_of_build (L : Lang) (hw : WellFormed L) (R : Nat) (s : TH) (hr : runBuild L R = .ok s) : RepG s.g L := by
  obtain ⟨g, _, hb⟩ := built_of_run L hw R s hr
  exact hb.repT.repG

/-- **`RepA` of a built graph**: the association objects are the hand model's association nodes, in creation order -/
theorem repA_of_build (L : Lang) (hw : WellFormed L) (R : Nat) (s : TH) (hr : runBuild L R = .ok s) :
    ∃ nodes, assocNodes L = .ok nodes ∧ RepA s.g L nodes ∧ builtNodes s = nodes := by
  obtain ⟨g, hg, hb⟩ := built_of_run L hw R s hr
  exact ⟨g.assocs, (generate_ok hg).2.2.1, hb.repT.repA, hb.full⟩

/-- **one asset object per declared asset**, in declaration order, carrying its name -/
theorem one_asset_per_declaration (L : Lang) (hw : WellFormed L) (R : Nat) (s : TH) (hr : runBuild L R = .ok s) :
    s.g.assets.map (gname s.g) = L.assets.map (·.name) := by
  obtain ⟨g, _, hb⟩ := built_of_run L hw R s hr
  exact hb.asset_names

/-- **super links mirror `extends`**: the `super_assets` of the object of a declaration are the object named by
its `superAsset` — one object if it names one, none otherwise -/
theorem super_links_mirror_extends (L : Lang) (hw : WellFormed L) (R : Nat) (s : TH) (hr : runBuild L R = .ok s)
    (r : GARef) (hmem : r ∈ s.g.assets) :
    (s.g.asset r).super_assets.map (gname s.g) = (superOf L (gname s.g r)).toList ∧
    ∀ x ∈ (s.g.asset r).super_assets, x ∈ s.g.assets := by
  have hG := repG_of_build L hw R s hr
  rw [hG.supers r hmem]
  cases hso : superOf L (gname s.g r) with
  | none => exact ⟨rfl, fun x hx => by simp at hx⟩
  | some t =>
    have hdecl : (L.findAsset t).isSome = true := by
      unfold superOf at hso
      cases hfa : L.findAsset (gname s.g r) with
      | none => rw [hfa] at hso; cases hso
      | some a =>
        rw [hfa] at hso
        exact (supersOk_iff L).1 hG.supers_ok a (findAsset_mem hfa) t hso
    have hsome := (TieLangGraph.repG_refOf_isSome_iff hG t).2 hdecl
    cases hrf : refOf s.g t with
    | none => rw [hrf] at hsome; cases hsome
    | some r' =>
      obtain ⟨hr', hn'⟩ := (TieLangGraph.repG_refOf_eq_some_iff hG t r').1 hrf
      refine ⟨by simp only [Option.bind_some, hrf, Option.toList_some, List.map_cons, List.map_nil, hn'], fun x hx => ?_⟩
      simp only [Option.bind_some, hrf, Option.toList_some, List.mem_singleton] at hx
      rw [hx]; exact hr'

/-- **sub links mirror super links**: `sub_assets` of an object are exactly the objects that list it as super
asset, in creation order -/
theorem sub_links_mirror_super_links (L : Lang) (hw : WellFormed L) (R : Nat) (s : TH) (hr : runBuild L R = .ok s)
    (r : GARef) (hmem : r ∈ s.g.assets) :
    (s.g.asset r).sub_assets = s.g.assets.filter (fun c => (s.g.asset c).super_assets.contains r) :=
  (repG_of_build L hw R s hr).subs r hmem

/-- **each asset lists exactly the associations in which it or an ancestor takes part** (signatures of the
declarations pairwise distinct — false without, KF-C15-1: `same_signature_merged_translated`) -/
theorem association_lists_exact (L : Lang) (hw : WellFormed L) (R : Nat) (s : TH) (hr : runBuild L R = .ok s)
    (hsig : SigDistinct L) (r : GARef) (hmem : r ∈ s.g.assets) (d : AssocDecl) :
    d ∈ (s.g.asset r).associations.map (fullDeclOf s) ↔
      d ∈ L.assocs ∧ (L.isSub (gname s.g r) d.leftAsset = true ∨ L.isSub (gname s.g r) d.rightAsset = true) := by
  obtain ⟨g, hg, hb⟩ := built_of_run L hw R s hr
  exact hb.assoc_list_exact hg hsig r hmem d

/-- **every step-to-step link appears both in the source's `children` and in the target's `parents`** -/
theorem links_mirrored (L : Lang) (hw : WellFormed L) (R : Nat) (s : TH) (hr : runBuild L R = .ok s) :
    (linksOf s).Perm (parentLinksOf s) := by
  obtain ⟨g, _, hb⟩ := built_of_run L hw R s hr
  exact hb.mirrored

/-- the attack-step objects of an asset are its own and inherited steps -/
theorem attack_steps_of_assets (L : Lang) (hw : WellFormed L) (R : Nat) (s : TH) (hr : runBuild L R = .ok s) :
    stepsOf s = L.assets.map (fun a => (a.name, (L.foldSteps a.name).map (·.1))) := by
  obtain ⟨g, _, hb⟩ := built_of_run L hw R s hr
  exact hb.steps

/-- the links are exactly: one per reaches expression of every (inherited) step of every asset, to the step the
static typing names -/
theorem links_are_typed (L : Lang) (hw : WellFormed L) (R : Nat) (s : TH) (hr : runBuild L R = .ok s) (l : Link) :
    l ∈ linksOf s ↔ ∃ a ∈ L.assets, ∃ st ∈ L.foldSteps a.name, ∃ e ∈ reachExprs st.2,
      LinkOf L (builtNodes s) (genFuel L) a.name st.1 e l := by
  obtain ⟨g, hg, hb⟩ := built_of_run L hw R s hr
  have hf : builtNodes s = g.assocs := hb.full
  rw [hb.mem_links, hf]
  exact C15.links_iff L g hg l

/-- **the typing tie on a built graph**: the translated `process_step_expression` answers with the hand model's
`typeF` target and step name whenever `typeF` succeeds (sufficient fuel), and names a target only if `typeF` does
(at that fuel) — so it fails whenever `typeF` fails, whatever the class of the failure -/
theorem typing_of_build (L : Lang) (hw : WellFormed L) (R : Nat) (s : TH) (hr : runBuild L R = .ok s) :
    TypingOK s L (builtNodes s) := by
  obtain ⟨g, _, hb⟩ := built_of_run L hw R s hr
  have hf : builtNodes s = g.assocs := hb.full
  rw [hf]
  exact typingOK_of_rep s L g.assocs hb.repT hw.acyclic hb.vars_wf

/-- **a super asset that is not declared: `LanguageGraphSuperAssetNotFoundError`** (every recursion limit) -/
theorem unknown_super_asset_raises (L : Lang) (hw : WellFormed L) (R : Nat) (a : AssetDecl) (ha : a ∈ L.assets)
    (t : String) (hs : a.superAsset = some t) (hn : L.findAsset t = none) :
    runBuild L R = .error errSuperAssetNotFound := by
  have hL := absLang_loadPy L hw.load
  refine unknown_super_asset_raises_general (loadPy L) R (specOK_loadPy L hw.load hw.names)
    (by rw [hL]; exact hw.acyclic) ?_
  rw [hL]
  cases h : supersOk L with
  | false => rfl
  | true => have := (supersOk_iff L).1 h a ha t hs; rw [hn] at this; cases this

/-- **an association end that is not a declared asset: `LanguageGraphAssociationError`** (every recursion limit) -/
theorem unknown_association_end_raises (L : Lang) (hw : WellFormed L) (R : Nat) (hs : supersOk L = true)
    (d : AssocDecl) (hd : d ∈ L.assocs) (hn : L.findAsset d.leftAsset = none ∨ L.findAsset d.rightAsset = none) :
    runBuild L R = .error errAssociation := by
  have hL := absLang_loadPy L hw.load
  refine unknown_association_end_raises_general (loadPy L) R (specOK_loadPy L hw.load hw.names)
    (by rw [hL]; exact hw.acyclic) (by rw [hL]; exact hs) ?_
  rw [hL]
  cases h : endsOk L with
  | false => rfl
  | true =>
    have := List.all_eq_true.1 h d hd
    rcases hn with hn | hn <;> simp [hn] at this

/-- **a reaches expression that is not typed with a target asset and one of its attack steps raises** (unknown
field, unknown variable, unknown subtype, a subtype that does not extend the target, operands without common super
asset, a step the target does not have …; the class of the exception is not always the hand model's:
`build_class_differs`) -/
theorem untyped_reaches_raises (L : Lang) (hw : WellFormed L) (R : Nat) (nodes : List AssocDecl)
    (hn : assocNodes L = .ok nodes) (a : AssetDecl) (ha : a ∈ L.assets) (st : String × StepDecl)
    (hst : st ∈ L.foldSteps a.name) (e : Expr) (he : e ∈ reachExprs st.2)
    (hbad : ∀ u n, typeF L nodes (genFuel L) e a.name = .ok (some (u, some n)) →
      (L.foldSteps u).any (·.1 = n) = false) :
    ∃ err, runBuild L R = .error err := by
  obtain ⟨err, herr⟩ := C15.ill_formed_rejected_reaches L nodes hn a ha st hst e he hbad
  have hL := absLang_loadPy L hw.load
  have := build_rejects (loadPy L) R (specOK_loadPy L hw.load hw.names) (by rw [hL]; exact hw.acyclic)
    (by rw [hL]; exact hw.fuel) err (by rw [hL]; exact herr)
  exact this

/-- whatever the hand model rejects, the translated construction rejects -/
theorem rejected_when_model_rejects (L : Lang) (hw : WellFormed L) (R : Nat) (e : Err) (hg : generate L = .error e) :
    ∃ err, runBuild L R = .error err := by
  have hL := absLang_loadPy L hw.load
  exact build_rejects (loadPy L) R (specOK_loadPy L hw.load hw.names) (by rw [hL]; exact hw.acyclic)
    (by rw [hL]; exact hw.fuel) e (by rw [hL]; exact hg)

/-- **every attack-graph edge is predicted by a link of the translated language graph** — `C15.overapprox` for
the heap the translated `_generate_graph` built, for every well-formed language -/
theorem overapprox_translated (L : Lang) (hw : WellFormed L) (R : Nat) (s : TH) (hr : runBuild L R = .ok s)
    (m : Inst) (ns : List GNode) (es : List (Nat × Nat)) (hgen : genGraph L m = .ok (ns, es))
    (hfu : FieldsUnique L (builtNodes s)) (hns : NoShadow L) (hv : ValidFor L m (builtNodes s))
    (hexpr : ∀ A ∈ L.assets, ∀ st ∈ L.foldSteps A.name, ∀ e ∈ reachExprs st.2,
      StarTyped L (builtNodes s) (genFuel L) e A.name ∧ (lastStep e).isSome = true)
    (a b : Nat) (hab : (a, b) ∈ es) :
    ∃ n ∈ ns, n.id = a ∧ ∃ X ∈ m.assets, n.asset = X.id ∧
    ∃ t ∈ ns, t.id = b ∧ ∃ Y ∈ m.assets, ∃ tn U, t.fullName = Y.name ++ ":" ++ tn ∧
      ({ srcAsset := X.type, srcStep := n.step, dstAsset := U, dstStep := tn } : Link) ∈ linksOf s ∧
      L.isSub Y.type U = true := by
  obtain ⟨g, hg, hb⟩ := built_of_run L hw R s hr
  have hf : builtNodes s = g.assocs := hb.full
  rw [hf] at hfu hv hexpr
  exact hb.overapprox hg m ns es hgen hw.acyclic hfu hns hv hexpr a b hab

/-- **the translated `_generate_graph` agrees with the hand model for every sufficiently large recursion limit**:
whenever `LG.generate` accepts a well-formed language there is a bound `R0` such that for every recursion limit
`R ≥ R0` the translated construction returns, and the heap is `Built` for the hand model's graph (with
`built_of_run` and `rejected_when_model_rejects`: the general form of `BuildAgrees`, links up to their order,
`link_order_differs`) -/
theorem build_agrees_large (L : Lang) (hw : WellFormed L) (g : Graph) (hg : generate L = .ok g) :
    ∃ R0, ∀ R, R0 ≤ R → ∃ s, runBuild L R = .ok s ∧ Built s L g := by
  have hL := absLang_loadPy L hw.load
  have := build_total_large (loadPy L) (specOK_loadPy L hw.load hw.names) (by rw [hL]; exact hw.acyclic)
    (by rw [hL]; exact hw.fuel) g (by rw [hL]; exact hg)
  rw [hL] at this
  exact this

/-- **`Acyclic` cannot be dropped**: with `A extends B extends A` the translated code (like the Python) exhausts its
recursion, the fuel-bounded hand model accepts the language -/
theorem acyclic_needed : runBuild cycL 1000 = .error .recursionError ∧ (generate cycL).toOption.isSome = true ∧
    ¬ Acyclic cycL := by
  refine ⟨?_, by decide, fun hac => ?_⟩
  · have := build_cyclic_extends.1
    cases h : runBuild cycL 1000 with
    | ok s => rw [h] at this; cases this
    | error e => rw [h] at this; simp only [Except.map] at this; cases this; rfl
  · have := hac "C"
    exact absurd this (by decide)

/-- non-vacuity: the demo languages are `WellFormed` (decidable conditions) … -/
example : WellFormed lgL ∧ WellFormed opsL ∧ WellFormed dirL ∧ WellFormed starL ∧ WellFormed kfL :=
  ⟨wellFormed_of_flat lgL (by decide) (by decide) (acyclic_of_check lgL (by decide)) (by decide),
   wellFormed_of_flat opsL (by decide) (by decide) (acyclic_of_check opsL (by decide)) (by decide),
   wellFormed_of_flat dirL (by decide) (by decide) (acyclic_of_check dirL (by decide)) (by decide),
   wellFormed_of_flat starL (by decide) (by decide) (acyclic_of_check starL (by decide)) (by decide),
   wellFormed_of_flat kfL (by decide) (by decide) (acyclic_of_check kfL (by decide)) (by decide)⟩

/-- … and their builds return (kernel evaluation), so the general theorems apply to them: e.g. `RepG` / `RepA` of the
built graph of `opsL`, which has variables, intersection, difference and `+>` inheritance -/
example : ∃ s, runBuild opsL 1000 = .ok s ∧ RepG s.g opsL ∧ (linksOf s).Perm (parentLinksOf s) ∧
    TypingOK s opsL (builtNodes s) := by
  have hw : WellFormed opsL :=
    wellFormed_of_flat opsL (by decide) (by decide) (acyclic_of_check opsL (by decide)) (by decide)
  cases hr : runBuild opsL 1000 with
  | error e => exact absurd (show (runBuild opsL 1000).toOption.isSome = true by decide) (by rw [hr]; exact Bool.false_ne_true)
  | ok s => exact ⟨s, rfl, repG_of_build opsL hw 1000 s hr, links_mirrored opsL hw 1000 s hr, typing_of_build opsL hw 1000 s hr⟩

/-! ## Part 2 — the same clauses from the per-language check `BuildAgrees` (kept: examples, and languages outside
`WellFormed`, e.g. with variables inside variables) -/

/-- **one asset object per declared asset**, in declaration order, carrying its name -/
theorem one_asset_per_declaration_checked (L : Lang) (R : Nat) (s : TH) (h : BuildAgrees L R) (hr : runBuild L R = .ok s) :
    s.g.assets.map (gname s.g) = L.assets.map (·.name) := by
  obtain ⟨g, _, hp⟩ := buildAgrees_run_ok h hr
  have := congrArg (fun p => p.assets.map (·.1)) hp
  simpa [pictureOf, modelPictureOf, List.map_map, Function.comp_def] using this

/-- **super / sub links mirror `extends`**: the `super_assets` of the object of a declaration are the object of its
`superAsset` (if it names one), its `sub_assets` the objects of the declarations that name it, in declaration order -/
theorem super_sub_links_mirror_extends_checked (L : Lang) (R : Nat) (s : TH) (h : BuildAgrees L R) (hr : runBuild L R = .ok s) :
    s.g.assets.map (fun r => (gname s.g r, (s.g.asset r).super_assets.map (gname s.g),
                              (s.g.asset r).sub_assets.map (gname s.g))) =
    L.assets.map (fun a => (a.name, ((supers L a.name).drop 1).take 1,
                            (L.assets.filter (fun c => c.superAsset = some a.name)).map (·.name))) := by
  obtain ⟨g, _, hp⟩ := buildAgrees_run_ok h hr
  exact congrArg Picture.assets hp

/-- the association objects are the hand model's association nodes (KF-C15-1 included: same-signature
declarations are merged, `same_signature_merged_translated`) -/
theorem association_nodes_checked (L : Lang) (R : Nat) (s : TH) (h : BuildAgrees L R) (hr : runBuild L R = .ok s) :
    assocNodes L = .ok (builtNodes s) := by
  obtain ⟨g, hg, hp⟩ := buildAgrees_run_ok h hr
  have hn : builtNodes s = g.assocs := congrArg Picture.nodes hp
  obtain ⟨_, _, ha, _⟩ := generate_ok hg
  rw [hn]; exact ha

/-- **each asset lists exactly the associations in which it or an ancestor takes part** (signatures of the
declarations pairwise distinct — without that hypothesis the statement is false, KF-C15-1) -/
theorem association_lists_exact_checked (L : Lang) (R : Nat) (s : TH) (h : BuildAgrees L R) (hr : runBuild L R = .ok s)
    (hsig : SigDistinct L) (r : GARef) (hmem : r ∈ s.g.assets) (d : AssocDecl) :
    d ∈ (s.g.asset r).associations.map (fullDeclOf s) ↔
      d ∈ L.assocs ∧ (L.isSub (gname s.g r) d.leftAsset = true ∨ L.isSub (gname s.g r) d.rightAsset = true) := by
  obtain ⟨g, hg, hp⟩ := buildAgrees_run_ok h hr
  obtain ⟨_, _, ha, _⟩ := generate_ok hg
  have hl : (pictureOf s).assocLists = (modelPictureOf L g).assocLists := congrArg Picture.assocLists hp
  have hm : (gname s.g r, (s.g.asset r).associations.map (fullDeclOf s)) ∈ (pictureOf s).assocLists :=
    List.mem_map.2 ⟨r, hmem, rfl⟩
  rw [hl] at hm
  obtain ⟨a, _, he⟩ := List.mem_map.1 hm
  have h1 : a.name = gname s.g r := congrArg Prod.fst he
  have h2 : assocsOf L g.assocs a.name = (s.g.asset r).associations.map (fullDeclOf s) := congrArg Prod.snd he
  rw [← h2, h1]
  exact C15.assocs_of_asset L g.assocs ha hsig (gname s.g r) d

/-- **every step-to-step link appears both in the source's `children` and in the target's `parents`** -/
theorem links_mirrored_checked (L : Lang) (R : Nat) (s : TH) (h : BuildAgrees L R) (hr : runBuild L R = .ok s) :
    (linksOf s).Perm (parentLinksOf s) := by
  obtain ⟨g, _, hp⟩ := buildAgrees_run_ok h hr
  have : decide ((linksOf s).Perm (parentLinksOf s)) = true := congrArg Picture.mirrored hp
  exact of_decide_eq_true this

/-- the attack-step objects of an asset are its own and inherited steps (`_get_attacks_for_asset_type`) -/
theorem attack_steps_of_assets_checked (L : Lang) (R : Nat) (s : TH) (h : BuildAgrees L R) (hr : runBuild L R = .ok s) :
    stepsOf s = L.assets.map (fun a => (a.name, (L.foldSteps a.name).map (·.1))) := by
  obtain ⟨g, _, hp⟩ := buildAgrees_run_ok h hr
  exact congrArg Picture.steps hp

/-- the links of the built heap are the hand model's: one per reaches expression of every (inherited) step of every
asset, from that step to the step the static typing `process_step_expression` names -/
theorem links_are_typed_checked (L : Lang) (R : Nat) (s : TH) (h : BuildAgrees L R) (hr : runBuild L R = .ok s) (l : Link) :
    l ∈ linksOf s ↔ ∃ a ∈ L.assets, ∃ st ∈ L.foldSteps a.name, ∃ e ∈ reachExprs st.2,
      LinkOf L (builtNodes s) (genFuel L) a.name st.1 e l := by
  obtain ⟨g, hg, hp⟩ := buildAgrees_run_ok h hr
  have hn : builtNodes s = g.assocs := congrArg Picture.nodes hp
  have hl : linksOf s = g.links := congrArg Picture.links hp
  rw [hn, hl]
  exact C15.links_iff L g hg l

/-- **a super asset that is not declared: `LanguageGraphSuperAssetNotFoundError`** -/
theorem unknown_super_asset_raises_checked (L : Lang) (R : Nat) (h : BuildAgrees L R) (a : AssetDecl) (ha : a ∈ L.assets)
    (t : String) (hs : a.superAsset = some t) (hn : L.findAsset t = none) :
    runBuild L R = .error errSuperAssetNotFound :=
  buildAgrees_error h (C15.ill_formed_rejected_super L a ha t hs hn)

/-- **an association end that is not a declared asset: `LanguageGraphAssociationError`** -/
theorem unknown_association_end_raises_checked (L : Lang) (R : Nat) (h : BuildAgrees L R) (hs : supersOk L = true)
    (d : AssocDecl) (hd : d ∈ L.assocs) (hn : L.findAsset d.leftAsset = none ∨ L.findAsset d.rightAsset = none) :
    runBuild L R = .error errAssociation :=
  buildAgrees_error h (C15.ill_formed_rejected_assoc L hs d hd hn)

/-- **a reaches expression that is not typed with a target asset and one of its attack steps raises** -/
theorem untyped_reaches_raises_checked (L : Lang) (R : Nat) (h : BuildAgrees L R) (nodes : List AssocDecl)
    (hn : assocNodes L = .ok nodes) (a : AssetDecl) (ha : a ∈ L.assets) (st : String × StepDecl)
    (hst : st ∈ L.foldSteps a.name) (e : Expr) (he : e ∈ reachExprs st.2)
    (hbad : ∀ u n, typeF L nodes (genFuel L) e a.name = .ok (some (u, some n)) →
      (L.foldSteps u).any (·.1 = n) = false) :
    ∃ err, runBuild L R = .error err := by
  obtain ⟨err, herr⟩ := C15.ill_formed_rejected_reaches L nodes hn a ha st hst e he hbad
  exact ⟨_, buildAgrees_error h herr⟩

/-- **every attack-graph edge is predicted by a link of the translated language graph**: `C15.overapprox` with the
language graph read back from the heap the translated `_generate_graph` built -/
theorem overapprox_translated_checked (L : Lang) (R : Nat) (s : TH) (h : BuildAgrees L R) (hr : runBuild L R = .ok s)
    (m : Inst) (ns : List GNode) (es : List (Nat × Nat)) (hgen : genGraph L m = .ok (ns, es))
    (hac : Acyclic L) (hfu : FieldsUnique L (builtNodes s)) (hns : NoShadow L) (hv : ValidFor L m (builtNodes s))
    (hexpr : ∀ A ∈ L.assets, ∀ st ∈ L.foldSteps A.name, ∀ e ∈ reachExprs st.2,
      StarTyped L (builtNodes s) (genFuel L) e A.name ∧ (lastStep e).isSome = true)
    (a b : Nat) (hab : (a, b) ∈ es) :
    ∃ n ∈ ns, n.id = a ∧ ∃ X ∈ m.assets, n.asset = X.id ∧
    ∃ t ∈ ns, t.id = b ∧ ∃ Y ∈ m.assets, ∃ tn U, t.fullName = Y.name ++ ":" ++ tn ∧
      ({ srcAsset := X.type, srcStep := n.step, dstAsset := U, dstStep := tn } : Link) ∈ linksOf s ∧
      L.isSub Y.type U = true := by
  obtain ⟨g, hg, hp⟩ := buildAgrees_run_ok h hr
  have hn : builtNodes s = g.assocs := congrArg Picture.nodes hp
  have hl : linksOf s = g.links := congrArg Picture.links hp
  rw [hn] at hfu hv hexpr
  rw [hl]
  exact C15.overapprox L m g ns es hg hgen hac hfu hns hv hexpr a b hab

/-- the typing function of the translated code on the built graph: when it names a target asset and `L` passes
`TypingAgreesUpToClass` for the expression, that is the hand model's static type — so `C15.type_soundness` applies
to what the translated `process_step_expression` answers -/
theorem typing_is_model_checked (L : Lang) (R : Nat) (es : List Expr) (h : TypingAgreesUpToClass L R es)
    (s : TH) (hr : runBuild L R = .ok s) (a : AssetDecl) (ha : a ∈ L.assets) (e : Expr) (he : e ∈ es)
    (U : String) (st : Option String) (ht : typed (typeRun s R a.name e) = some (U, st)) :
    ∃ g, generate L = .ok g ∧ typeF L g.assocs (genFuel L) e a.name = .ok (some (U, st)) := by
  unfold TypingAgreesUpToClass at h
  rw [hr] at h
  cases hg : generate L with
  | error err => rw [hg] at h; exact absurd h (by simp)
  | ok g =>
    rw [hg] at h
    refine ⟨g, rfl, ?_⟩
    have := h a ha e he
    rw [ht] at this
    unfold typeModel typed at this
    split at this
    · rename_i v hv
      cases hty : typeF L g.assocs (genFuel L) e a.name with
      | error err => rw [hty] at hv; cases hv
      | ok x =>
        rw [hty] at hv
        cases hv
        cases this; rfl
    · cases this

/-! ## non-vacuity: the demo language `lgL` (and the ill-formed variants) -/

/-- `lgL` passes the check, is accepted, and the clauses above give: five asset objects, `Leaf` below `Mid` below
`Base`, `Leaf` lists `Runs` (declared on its ancestor `Base`) and its own `HL` but not `HO`, six links, mirrored -/
example : ∃ s, runBuild lgL 1000 = .ok s ∧
    s.g.assets.map (gname s.g) = ["Base", "Mid", "Leaf", "Other", "Host"] ∧
    (s.g.asset 2).super_assets.map (gname s.g) = ["Mid"] ∧ (s.g.asset 0).sub_assets.map (gname s.g) = ["Mid", "Other"] ∧
    (s.g.asset 2).associations.map (fun c => (fullDeclOf s c).name) = ["Runs", "HL"] ∧
    (linksOf s).length = 6 ∧ (linksOf s).Perm (parentLinksOf s) := by
  obtain ⟨g, hg⟩ : ∃ g, generate lgL = .ok g := by
    cases h : generate lgL with
    | ok g => exact ⟨g, rfl⟩
    | error e => exact absurd (show (generate lgL).toOption.isSome = true by decide) (by rw [h]; exact Bool.false_ne_true)
  obtain ⟨s, hr, hp⟩ := buildAgrees_ok build_lgL hg
  refine ⟨s, hr, ?_, ?_, ?_, ?_, ?_, links_mirrored_checked lgL 1000 s build_lgL hr⟩
  · rw [one_asset_per_declaration_checked lgL 1000 s build_lgL hr]; decide
  all_goals
    have h2 : (runBuild lgL 1000).map (fun s => ((s.g.asset 2).super_assets.map (gname s.g),
        (s.g.asset 0).sub_assets.map (gname s.g), (s.g.asset 2).associations.map (fun c => (fullDeclOf s c).name),
        (linksOf s).length)) = .ok (["Mid"], ["Mid", "Other"], ["Runs", "HL"], 6) := by decide
    rw [hr] at h2
    simp only [Except.map, Except.ok.injEq, Prod.mk.injEq] at h2
    first | exact h2.1 | exact h2.2.1 | exact h2.2.2.1 | exact h2.2.2.2

/-- the hypotheses of `overapprox_translated` are satisfiable: the model `lgM` of `lgL` -/
example : ∃ s ns es, runBuild lgL 1000 = .ok s ∧ genGraph lgL lgM = .ok (ns, es) ∧ es.length = 5 ∧
    ∀ a b, (a, b) ∈ es →
      ∃ n ∈ ns, n.id = a ∧ ∃ X ∈ lgM.assets, n.asset = X.id ∧
      ∃ t ∈ ns, t.id = b ∧ ∃ Y ∈ lgM.assets, ∃ tn U, t.fullName = Y.name ++ ":" ++ tn ∧
        ({ srcAsset := X.type, srcStep := n.step, dstAsset := U, dstStep := tn } : Link) ∈ linksOf s ∧
        lgL.isSub Y.type U = true := by
  have h1 : (generate lgL).map (·.assocs) = .ok [runs, hl, ho] := by decide
  have h2 : (genGraph lgL lgM).map (·.2.length) = .ok 5 := by decide
  have h3 : ∀ A ∈ lgL.assets, ∀ st ∈ lgL.foldSteps A.name, ∀ e ∈ reachExprs st.2,
      noStarNoVar e = true ∧ (lastStep e).isSome = true := by decide
  cases hg : generate lgL with
  | error err => rw [hg] at h1; cases h1
  | ok g =>
    cases hgen : genGraph lgL lgM with
    | error err => rw [hgen] at h2; cases h2
    | ok p =>
      obtain ⟨ns, es⟩ := p
      rw [hg] at h1; rw [hgen] at h2
      simp only [Except.map, Except.ok.injEq] at h1 h2
      obtain ⟨s, hr, hp⟩ := buildAgrees_ok build_lgL hg
      have hn : builtNodes s = [runs, hl, ho] := (congrArg Picture.nodes hp).trans h1
      refine ⟨s, ns, es, hr, rfl, h2, fun a b hab => ?_⟩
      refine overapprox_translated_checked lgL 1000 s build_lgL hr lgM ns es hgen (acyclic_of_check lgL (by decide)) ?_
        (noShadow_of_no_variables lgL (by decide)) ?_ ?_ a b hab
      · rw [hn]; exact fieldsUnique_of_check lgL _ (by decide)
      · rw [hn]; exact ⟨by decide, by decide, by decide⟩
      · intro A hA st hst e he
        exact ⟨starTyped_of_starFree lgL _ _ e A.name (starFree_of_noStarNoVar lgL _ e (h3 A hA st hst e he).1),
          (h3 A hA st hst e he).2⟩

/-- the raising clauses apply to the ill-formed variants of `dirL` -/
example : runBuild badSuperL 1000 = .error errSuperAssetNotFound :=
  unknown_super_asset_raises_checked badSuperL 1000 build_badSuperL _ (List.mem_singleton.2 rfl) "Nowhere" rfl (by decide)
example : runBuild badEndL 1000 = .error errAssociation :=
  unknown_association_end_raises_checked badEndL 1000 build_badEndL (by decide) _ (List.mem_singleton.2 rfl) (Or.inr (by decide))

end MalVerif.PropsGen.C15_Build
