import MalVerif.Py.TieAgSerial
import MalVerif.PropsGen.C09
/-!
# C10 for the *translated* code — saving and loading an attack graph preserves it

The functions are the Lean translations (`translators/py2lean_agserial.py`, regenerated from `/repo` on every run)
of `AttackGraphNode.to_dict`, `Attacker.to_dict`, `AttackGraph._to_dict` and `AttackGraph._from_dict`.  `s : H` is the
heap holding the graph, `absS s nf af` the state of the hand-written model it stands for, `Format.py` what a file
does to the Python-level document (`asWritten`: nothing, `json`: id keys become strings, `yaml`: mappings are sorted),
`m : Option PyModel` the optional model (`get_asset_by_name` is a parameter).

Hypotheses of the round-trip theorems (all needed; cf. `Props/C10.lean`): `Consistent` (C09), `NamesExact` (distinct full
names, the file is keyed by them), `IdsSet` (every object of the graph went through `add_node` / `add_attacker`),
enough unrolling `fuel` for the `while` loop that picks a free attacker key, an allocator starting at 0 (`_from_dict`
builds a new graph), `ModelOK` (the model returns assets of the requested name) and `ModelCovers` (it knows the assets
of the saved nodes; otherwise the real code raises `LookupError`).
-/
namespace MalVerif.PropsGen.C10
open MalVerif.Py MalVerif.Py.Gen MalVerif.Py.Tie MalVerif.Py.Tie.RTH MalVerif.AGS MalVerif.AGraph
open MalVerif.Ser (Key)

/-! ### the two ties, restated -/

/-- translated `_to_dict` of the heap = the document the hand model writes for the abstracted state; it returns
whenever the `while` loop has fuel for one round per attacker, and what it returns is well shaped -/
theorem to_dict_is_model_document (s : H) (fuel nf af : Nat) (hc : Consistent (absS s nf af)) (hids : IdsSet s)
    (hfuel : s.attackers.length < fuel) :
    ∃ d, graph__to_dict fuel s = .ok d ∧ docOf d = toDoc (absS s nf af) ∧ docShape d = true :=
  graph_to_dict_tie s fuel nf af hids (refsHaveIds s nf af hc hids) hfuel

/-- translated `_from_dict` on a well-shaped document = `fromDoc` of the hand model: it returns iff the model
accepts the document, and then the heap it returns stands for the model's result -/
theorem from_dict_is_model_load (aux0 : Aux) (d : PyDoc) (m : Option PyModel) (hs : docShape d = true) (hm : ModelOK m)
    (h0 : aux0.nfresh = 0 ∧ aux0.afresh = 0) :
    (∀ s' aux', graph__from_dict aux0 d m = .ok (s', aux') →
      fromDoc (withModelOf m) (assetKnownOf m) (docOf d) = .ok (absS s' aux'.nfresh aux'.afresh)) ∧
    (∀ err, graph__from_dict aux0 d m = .error err →
      ∃ e', fromDoc (withModelOf m) (assetKnownOf m) (docOf d) = .error e') :=
  from_dict_tie aux0 d m hs hm h0

/-- the attackers are written under pairwise distinct keys: no attacker is lost in the dictionary -/
theorem attacker_keys_distinct (s : H) (fuel : Nat) (d : PyDoc) (hc : Consistent (absS s 0 0)) (hids : IdsSet s)
    (hfuel : s.attackers.length < fuel) (h : graph__to_dict fuel s = .ok d) : ((attackersOf d).map (·.1)).Nodup := by
  obtain ⟨d', hd', hdoc, _⟩ := to_dict_is_model_document s fuel 0 0 hc hids hfuel
  rw [h] at hd'; injection hd' with hd'; subst hd'
  have := MalVerif.C10.attacker_keys_distinct (absS s 0 0)
  rw [← hdoc] at this
  unfold docOf at this
  rw [List.map_map] at this
  exact this

/-! ### the round trip -/

/-- **C10**: writing the graph with the translated `_to_dict`, passing the document through a file (or not), and
loading it with the translated `_from_dict` — with or without the model — returns normally and gives a heap with the
same nodes (id, name, type, TTC, defense and existence status, viability, necessity, MITRE info, tags, extras), the same
edges and the same attackers with the same entry points and reached steps; the loaded graph is `Consistent` -/
theorem roundtrip (s : H) (nf af fuel : Nat) (aux0 : Aux) (m : Option PyModel) (f : Format)
    (hc : Consistent (absS s nf af)) (hx : NamesExact (absS s nf af)) (hids : IdsSet s)
    (hfuel : s.attackers.length < fuel) (h0 : aux0.nfresh = 0 ∧ aux0.afresh = 0) (hm : ModelOK m)
    (hcov : ModelCovers m s) :
    ∃ d s' aux', graph__to_dict fuel s = .ok d ∧ graph__from_dict aux0 (f.py d) m = .ok (s', aux') ∧
      SameGraph (absS s' aux'.nfresh aux'.afresh) (absS s nf af) ∧ Consistent (absS s' aux'.nfresh aux'.afresh) :=
  transfer s nf af fuel aux0 m f hc hx hids hfuel h0 hm hcov (fun t => SameGraph t (absS s nf af) ∧ Consistent t)
    (fun d hd => by
      obtain ⟨σ, hσ, hr⟩ := rep_of_format hc hx hd
      obtain ⟨t, h1, h2, h3, _⟩ := roundtrip_of_rep (withModelOf m) hc hσ hr
      exact ⟨t, h1, h2, h3⟩)

/-- every saved node comes back with all its attributes, and nothing else comes back -/
theorem node_attributes_kept (s : H) (nf af fuel : Nat) (aux0 : Aux) (m : Option PyModel) (f : Format)
    (hc : Consistent (absS s nf af)) (hx : NamesExact (absS s nf af)) (hids : IdsSet s)
    (hfuel : s.attackers.length < fuel) (h0 : aux0.nfresh = 0 ∧ aux0.afresh = 0) (hm : ModelOK m)
    (hcov : ModelCovers m s) :
    ∃ d s' aux', graph__to_dict fuel s = .ok d ∧ graph__from_dict aux0 (f.py d) m = .ok (s', aux') ∧
      (∀ r ∈ s.nodes, ∃ r' ∈ s'.nodes, NodeMatch (withModelOf m) (absN (s'.n r')) (absN (s.n r))) ∧
      (∀ r' ∈ s'.nodes, ∃ r ∈ s.nodes, NodeMatch (withModelOf m) (absN (s'.n r')) (absN (s.n r))) :=
  transfer s nf af fuel aux0 m f hc hx hids hfuel h0 hm hcov
    (fun t => (∀ r ∈ s.nodes, ∃ r' ∈ t.nodes, NodeMatch (withModelOf m) (t.nobj r') (absN (s.n r))) ∧
      (∀ r' ∈ t.nodes, ∃ r ∈ s.nodes, NodeMatch (withModelOf m) (t.nobj r') (absN (s.n r))))
    (fun d hd => MalVerif.C10.node_attributes_kept (absS s nf af) (withModelOf m) hc hx d hd)

/-- when the model is supplied every loaded node is bound to an asset of the model with the name it was saved with
(and has the same full name); without the model it has no asset and is called `<id>:<name>` -/
theorem bound_to_model (s : H) (nf af fuel : Nat) (aux0 : Aux) (m : Option PyModel) (f : Format)
    (hc : Consistent (absS s nf af)) (hx : NamesExact (absS s nf af)) (hids : IdsSet s)
    (hfuel : s.attackers.length < fuel) (h0 : aux0.nfresh = 0 ∧ aux0.afresh = 0) (hm : ModelOK m)
    (hcov : ModelCovers m s) :
    ∃ d s' aux', graph__to_dict fuel s = .ok d ∧ graph__from_dict aux0 (f.py d) m = .ok (s', aux') ∧
      ∀ r ∈ s.nodes, ∃ r' ∈ s'.nodes, (s'.n r').id.getD 0 = (s.n r).id.getD 0 ∧
        (s'.n r').asset.map (·.name) = (if withModelOf m then (s.n r).asset.map (·.name) else none) ∧
        fullName (absN (s'.n r')) = (if withModelOf m then fullName (absN (s.n r))
          else toString ((s.n r).id.getD 0) ++ ":" ++ (s.n r).name) :=
  transfer s nf af fuel aux0 m f hc hx hids hfuel h0 hm hcov
    (fun t => ∀ r ∈ s.nodes, ∃ r' ∈ t.nodes, (t.nobj r').id = (s.n r).id.getD 0 ∧
        (t.nobj r').asset = (if withModelOf m then (s.n r).asset.map (·.name) else none) ∧
        fullName (t.nobj r') = (if withModelOf m then fullName (absN (s.n r))
          else toString ((s.n r).id.getD 0) ++ ":" ++ (s.n r).name))
    (fun d hd => MalVerif.C10.bound_to_model (absS s nf af) (withModelOf m) hc hx d hd)

/-- the tags come back as the same list of strings (and `'suppress' in tags` is unchanged) -/
theorem tags_are_lists (s : H) (nf af fuel : Nat) (aux0 : Aux) (m : Option PyModel) (f : Format)
    (hc : Consistent (absS s nf af)) (hx : NamesExact (absS s nf af)) (hids : IdsSet s)
    (hfuel : s.attackers.length < fuel) (h0 : aux0.nfresh = 0 ∧ aux0.afresh = 0) (hm : ModelOK m)
    (hcov : ModelCovers m s) :
    ∃ d s' aux', graph__to_dict fuel s = .ok d ∧ graph__from_dict aux0 (f.py d) m = .ok (s', aux') ∧
      ∀ r ∈ s.nodes, ∃ r' ∈ s'.nodes, (s'.n r').id.getD 0 = (s.n r).id.getD 0 ∧ (s'.n r').tags = (s.n r).tags :=
  transfer s nf af fuel aux0 m f hc hx hids hfuel h0 hm hcov
    (fun t => ∀ r ∈ s.nodes, ∃ r' ∈ t.nodes, (t.nobj r').id = (s.n r).id.getD 0 ∧ (t.nobj r').tags = (s.n r).tags)
    (fun d hd => by
      obtain ⟨t, h1, h2⟩ := MalVerif.C10.tags_are_lists (absS s nf af) (withModelOf m) hc hx d hd
      exact ⟨t, h1, fun r hr => by obtain ⟨r', hr', e1, e2, _⟩ := h2 r hr; exact ⟨r', hr', e1, e2⟩⟩)

/-- every attacker comes back under its own id (0 included) with its name, entry points and reached steps (as sets
of node ids); `get_attacker_by_id` finds it; no other attacker appears -/
theorem attacker_ids_kept (s : H) (nf af fuel : Nat) (aux0 : Aux) (m : Option PyModel) (f : Format)
    (hc : Consistent (absS s nf af)) (hx : NamesExact (absS s nf af)) (hids : IdsSet s)
    (hfuel : s.attackers.length < fuel) (h0 : aux0.nfresh = 0 ∧ aux0.afresh = 0) (hm : ModelOK m)
    (hcov : ModelCovers m s) :
    ∃ d s' aux', graph__to_dict fuel s = .ok d ∧ graph__from_dict aux0 (f.py d) m = .ok (s', aux') ∧
      (∀ a ∈ s.attackers, ∃ a' ∈ s'.attackers, graph_get_attacker_by_id s' ((s.a a).id.getD 0) = some a' ∧
        (s'.a a').id.getD 0 = (s.a a).id.getD 0 ∧ (s'.a a').name = (s.a a).name ∧
        (∀ i, i ∈ (s'.a a').entry_points.map (fun n => (s'.n n).id.getD 0) ↔
              i ∈ (s.a a).entry_points.map (fun n => (s.n n).id.getD 0)) ∧
        (∀ i, i ∈ (s'.a a').reached_attack_steps.map (fun n => (s'.n n).id.getD 0) ↔
              i ∈ (s.a a).reached_attack_steps.map (fun n => (s.n n).id.getD 0))) ∧
      s'.attackers.length = s.attackers.length :=
  transfer s nf af fuel aux0 m f hc hx hids hfuel h0 hm hcov
    (fun t => (∀ a ∈ s.attackers, ∃ a' ∈ t.attackers, getAttackerById t ((s.a a).id.getD 0) = some a' ∧
        (t.aobj a').id = (s.a a).id.getD 0 ∧ (t.aobj a').name = (s.a a).name ∧
        (∀ i, i ∈ entryIds t a' ↔ i ∈ entryIds (absS s nf af) a) ∧
        (∀ i, i ∈ reachedIds t a' ↔ i ∈ reachedIds (absS s nf af) a)) ∧
      t.attackers.length = s.attackers.length)
    (fun d hd => MalVerif.C10.attacker_ids_kept (absS s nf af) (withModelOf m) hc hx d hd)

/-! ### the hypotheses are satisfiable, on a non-trivial heap -/
namespace Demo
/-- two node objects as a caller of `add_node` constructs them: an attack step of asset `h` with tags, extras and
MITRE info, and an enabled defense without asset -/
def n0 : PyNode := { type := "or", name := "a", asset := some ⟨3, "T", "h"⟩, tags := ["t", "u"], extras := "{\"k\": 1}",
                     mitre_info := some "T1" }
def n1 : PyNode := { type := "defense", name := "d", defense_status := some ⟨"1.0", .one⟩, existence_status := some false,
                     is_viable := false }
def h1 : H := TG.anSt (({} : H).setN 0 n0) 0 0
def h2 : H := TG.anSt (h1.setN 1 n1) 1 7
def h2a : H := h2.setA 0 { name := "eve" }
/-- what the example states about a heap -/
def obs (s : H) : List Nat × List Nat × List Nat × List Nat × List Nat :=
  (s.nodes, s.attackers, (s.a 0).entry_points, (s.a 0).reached_attack_steps, (s.n 1).compromised_by)
def obs2 (s : H) : Option Int × Option Int × Option Int × Option String × Option String :=
  ((s.n 0).id, (s.n 1).id, (s.a 0).id, (s.n 0).asset.map (·.name), (s.n 1).asset.map (·.name))
def mdl : PyModel := ⟨fun a => if a = "h" then some ⟨3, "T", "h"⟩ else none⟩
end Demo
open Demo

/-- a graph built with the translated `add_node` / `add_attacker` — two nodes (ids 0 and 7; one bound to asset `h`,
with tags, extras and MITRE info; one enabled defense), an attacker who entered at the first and reached the second —
meets every hypothesis of the round-trip theorems, with a model that knows asset `h` -/
example : ∃ s, graph_add_attacker h2a 0 none [0] [7] = .ok s ∧ Consistent (absS s 2 1) ∧ NamesExact (absS s 2 1) ∧
    IdsSet s ∧ s.nodes = [0, 1] ∧ s.attackers = [0] ∧ (s.a 0).entry_points = [0] ∧ (s.a 0).reached_attack_steps = [1] ∧
    (s.n 1).compromised_by = [0] ∧ s.attackers.length < 2 ∧ ModelCovers (some mdl) s ∧ ModelOK (some mdl) := by
  have e1 : graph_add_node (({} : H).setN 0 n0) 0 (some 0) = .ok h1 := rfl
  have e2 : graph_add_node (h1.setN 1 n1) 1 (some 7) = .ok h2 := rfl
  -- first node
  have t1 := add_node_tie _ _ 0 (some 0) 0 e1
  rw [FD.addNode_setN_fresh] at t1
  have c1 : Consistent (absS h1 1 0) :=
    MalVerif.C09.addNode_consistent_partial MalVerif.PropsGen.C09.init_consistent rfl rfl rfl t1
  have x1 : NamesExact (absS h1 1 0) :=
    MalVerif.C09.addNode_namesExact MalVerif.PropsGen.C09.init_consistent MalVerif.PropsGen.C09.init_namesExact rfl t1
  -- second node
  have t2 := add_node_tie _ _ 1 (some 7) 0 e2
  rw [FD.addNode_setN_fresh] at t2
  have c2 : Consistent (absS h2 2 0) := MalVerif.C09.addNode_consistent_partial c1 rfl rfl rfl t2
  have x2 : NamesExact (absS h2 2 0) := MalVerif.C09.addNode_namesExact c1 x1 (by decide) t2
  -- the attacker
  cases e3 : graph_add_attacker h2a 0 none [0] [7] with
  | error err =>
    have hok : (graph_add_attacker h2a 0 none [0] [7]).toBool = true := by decide +kernel
    rw [e3] at hok; cases hok
  | ok s =>
    have t3 := add_attacker_tie h2a s 0 none [0] [7] 2 ⟨rfl, rfl⟩ e3
    have hpre : absS h2a 2 0 = { absS h2 2 0 with aobj := fun x => if x = (absS h2 2 0).afresh then absA { name := "eve" } else (absS h2 2 0).aobj x } :=
      FD.absS_setA_fresh h2 0 { name := "eve" } 2
    rw [hpre, FD.addAttacker_aobj_fresh] at t3
    have c3 : Consistent (absS s 2 1) := MalVerif.C09.addAttacker_consistent c2 t3
    have x3 : NamesExact (absS s 2 1) := addAttacker_namesExact x2 t3
    have f1 : (graph_add_attacker h2a 0 none [0] [7]).toOption.map obs =
        some ([0, 1], [0], [0], [1], [0]) := by decide +kernel
    have f2 : (graph_add_attacker h2a 0 none [0] [7]).toOption.map obs2 =
        some (some 0, some 7, some 0, some "h", none) := by decide +kernel
    rw [e3] at f1 f2
    injection f1 with f1
    injection f2 with f2
    simp only [obs, obs2, Prod.mk.injEq] at f1 f2
    obtain ⟨g1, g2, g3, g4, g5⟩ := f1
    obtain ⟨g6, g7, g8, g9, g10⟩ := f2
    refine ⟨s, rfl, c3, x3, ⟨fun r hr => ?_, fun a ha => ?_⟩, g1, g2, g3, g4, g5, by rw [g2]; decide, ?_, ?_⟩
    · rw [g1] at hr
      rcases List.mem_cons.1 hr with rfl | hr
      · rw [g6]; rfl
      · rcases List.mem_cons.1 hr with rfl | hr
        · rw [g7]; rfl
        · cases hr
    · rw [g2] at ha
      rcases List.mem_cons.1 ha with rfl | ha
      · rw [g8]; rfl
      · cases ha
    · intro x hx r hr o ho
      injection hx with hx; subst hx
      rw [g1] at hr
      rcases List.mem_cons.1 hr with rfl | hr
      · rw [ho] at g9; injection g9 with g9; show (mdl.get_asset_by_name o.name).isSome = true
        have g9' : o.name = "h" := g9
        rw [g9']; rfl
      · rcases List.mem_cons.1 hr with rfl | hr
        · rw [ho] at g10; cases g10
        · cases hr
    · intro x hx a o ho
      injection hx with hx; subst hx
      have : (if a = "h" then some (⟨3, "T", "h"⟩ : PyAssetObj) else none) = some o := ho
      split at this
      · injection this with this; subst this; rename_i h; exact h.symm
      · cases this

end MalVerif.PropsGen.C10
