import MalVerif.Py.TieAgSerial
/-!
# C10 for the *translated* code — saving and loading an attack graph preserves it

The functions are the Lean translations (`translators/py2lean_agserial.py`, regenerated from `/repo` on every run)
of `AttackGraphNode.to_dict`, `Attacker.to_dict`, `AttackGraph._to_dict` and `AttackGraph._from_dict`.  `s : H` is the
heap holding the graph, `absS s nf af` the state of the hand-written model it stands for, `Format.py` what a file
does to the Python-level document (`asWritten`: nothing, `json`: id keys become strings, `yaml`: mappings are sorted),
`m : Option PyModel` the optional model (`get_asset_by_name` is a parameter).

Hypotheses of the round-trip theorems (all needed; cf. `Props/C10.lean`): `Consistent` (C09), `NamesExact` (distinct full
names, the file is keyed by them), `IdsSet` (every object of the graph went through `add_node` / `add_attacker`),
enough unrolling `fuel` for the `while` loop that picks a free attacker key, an allocator starting at 0 (`_from_dict`
builds a new graph), `ModelOK` (the model returns assets of the requested name) and `ModelCovers` (it knows the assets
of the saved nodes; otherwise the real code raises `LookupError`).
-/
namespace MalVerif.PropsGen.C10
open MalVerif.Py MalVerif.Py.Gen MalVerif.Py.Tie MalVerif.Py.Tie.RTH MalVerif.AGS MalVerif.AGraph
open MalVerif.Ser (Key)

/-! ### the two ties, restated -/

/-- translated `_to_dict` of the heap = the document the hand model writes for the abstracted state; it returns
whenever the `while` loop has fuel for one round per attacker, and what it returns is well shaped -/
theorem to_dict_is_model_document (s : H) (fuel nf af : Nat) (hc : Consistent (absS s nf af)) (hids : IdsSet s)
    (hfuel : s.attackers.length < fuel) :
    ∃ d, graph__to_dict fuel s = .ok d ∧ docOf d = toDoc (absS s nf af) ∧ docShape d = true :=
  graph_to_dict_tie s fuel nf af hids (refsHaveIds s nf af hc hids) hfuel

/-- translated `_from_dict` on a well-shaped document = `fromDoc` of the hand model: it returns iff the model
accepts the document, and then the heap it returns stands for the model's result -/
theorem from_dict_is_model_load (aux0 : Aux) (d : PyDoc) (m : Option PyModel) (hs : docShape d = true) (hm : ModelOK m)
    (h0 : aux0.nfresh = 0 ∧ aux0.afresh = 0) :
    (∀ s' aux', graph__from_dict aux0 d m = .ok (s', aux') →
      fromDoc (withModelOf m) (assetKnownOf m) (docOf d) = .ok (absS s' aux'.nfresh aux'.afresh)) ∧
    (∀ err, graph__from_dict aux0 d m = .error err →
      ∃ e', fromDoc (withModelOf m) (assetKnownOf m) (docOf d) = .error e') :=
  from_dict_tie aux0 d m hs hm h0

/-- the attackers are written under pairwise distinct keys: no attacker is lost in the dictionary -/
theorem attacker_keys_distinct (s : H) (fuel : Nat) (d : PyDoc) (hc : Consistent (absS s 0 0)) (hids : IdsSet s)
    (hfuel : s.attackers.length < fuel) (h : graph__to_dict fuel s = .ok d) : ((attackersOf d).map (·.1)).Nodup := by
  obtain ⟨d', hd', hdoc, _⟩ := to_dict_is_model_document s fuel 0 0 hc hids hfuel
  rw [h] at hd'; injection hd' with hd'; subst hd'
  have := MalVerif.C10.attacker_keys_distinct (absS s 0 0)
  rw [← hdoc] at this
  unfold docOf at this
  rw [List.map_map] at this
  exact this

/-! ### the round trip -/

/-- **C10**: writing the graph with the translated `_to_dict`, passing the document through a file (or not), and
loading it with the translated `_from_dict` — with or without the model — returns normally and gives a heap with the
same nodes (id, name, type, TTC, defense and existence status, viability, necessity, MITRE info, tags, extras), the same
edges and the same attackers with the same entry points and reached steps; the loaded graph is `Consistent` -/
theorem roundtrip (s : H) (nf af fuel : Nat) (aux0 : Aux) (m : Option PyModel) (f : Format)
    (hc : Consistent (absS s nf af)) (hx : NamesExact (absS s nf af)) (hids : IdsSet s)
    (hfuel : s.attackers.length < fuel) (h0 : aux0.nfresh = 0 ∧ aux0.afresh = 0) (hm : ModelOK m)
    (hcov : ModelCovers m s) :
    ∃ d s' aux', graph__to_dict fuel s = .ok d ∧ graph__from_dict aux0 (f.py d) m = .ok (s', aux') ∧
      SameGraph (absS s' aux'.nfresh aux'.afresh) (absS s nf af) ∧ Consistent (absS s' aux'.nfresh aux'.afresh) :=
  transfer s nf af fuel aux0 m f hc hx hids hfuel h0 hm hcov (fun t => SameGraph t (absS s nf af) ∧ Consistent t)
    (fun d hd => by
      obtain ⟨σ, hσ, hr⟩ := rep_of_format hc hx hd
      obtain ⟨t, h1, h2, h3, _⟩ := roundtrip_of_rep (withModelOf m) hc hσ hr
      exact ⟨t, h1, h2, h3⟩)

/-- every saved node comes back with all its attributes, and nothing else comes back -/
theorem node_attributes_kept (s : H) (nf af fuel : Nat) (aux0 : Aux) (m : Option PyModel) (f : Format)
    (hc : Consistent (absS s nf af)) (hx : NamesExact (absS s nf af)) (hids : IdsSet s)
    (hfuel : s.attackers.length < fuel) (h0 : aux0.nfresh = 0 ∧ aux0.afresh = 0) (hm : ModelOK m)
    (hcov : ModelCovers m s) :
    ∃ d s' aux', graph__to_dict fuel s = .ok d ∧ graph__from_dict aux0 (f.py d) m = .ok (s', aux') ∧
      (∀ r ∈ s.nodes, ∃ r' ∈ s'.nodes, NodeMatch (withModelOf m) (absN (s'.n r')) (absN (s.n r))) ∧
      (∀ r' ∈ s'.nodes, ∃ r ∈ s.nodes, NodeMatch (withModelOf m) (absN (s'.n r')) (absN (s.n r))) :=
  transfer s nf af fuel aux0 m f hc hx hids hfuel h0 hm hcov
    (fun t => (∀ r ∈ s.nodes, ∃ r' ∈ t.nodes, NodeMatch (withModelOf m) (t.nobj r') (absN (s.n r))) ∧
      (∀ r' ∈ t.nodes, ∃ r ∈ s.nodes, NodeMatch (withModelOf m) (t.nobj r') (absN (s.n r))))
    (fun d hd => MalVerif.C10.node_attributes_kept (absS s nf af) (withModelOf m) hc hx d hd)

/-- when the model is supplied every loaded node is bound to an asset of the model with the name it was saved with
(and has the same full name); without the model it has no asset and is called `<id>:<name>` -/
theorem bound_to_model (s : H) (nf af fuel : Nat) (aux0 : Aux) (m : Option PyModel) (f : Format)
    (hc : Consistent (absS s nf af)) (hx : NamesExact (absS s nf af)) (hids : IdsSet s)
    (hfuel : s.attackers.length < fuel) (h0 : aux0.nfresh = 0 ∧ aux0.afresh = 0) (hm : ModelOK m)
    (hcov : ModelCovers m s) :
    ∃ d s' aux', graph__to_dict fuel s = .ok d ∧ graph__from_dict aux0 (f.py d) m = .ok (s', aux') ∧
      ∀ r ∈ s.nodes, ∃ r' ∈ s'.nodes, (s'.n r').id.getD 0 = (s.n r).id.getD 0 ∧
        (s'.n r').asset.map (·.name) = (if withModelOf m then (s.n r).asset.map (·.name) else none) ∧
        fullName (absN (s'.n r')) = (if withModelOf m then fullName (absN (s.n r))
          else toString ((s.n r).id.getD 0) ++ ":" ++ (s.n r).name) :=
  transfer s nf af fuel aux0 m f hc hx hids hfuel h0 hm hcov
    (fun t => ∀ r ∈ s.nodes, ∃ r' ∈ t.nodes, (t.nobj r').id = (s.n r).id.getD 0 ∧
        (t.nobj r').asset = (if withModelOf m then (s.n r).asset.map (·.name) else none) ∧
        fullName (t.nobj r') = (if withModelOf m then fullName (absN (s.n r))
          else toString ((s.n r).id.getD 0) ++ ":" ++ (s.n r).name))
    (fun d hd => MalVerif.C10.bound_to_model (absS s nf af) (withModelOf m) hc hx d hd)

/-- the tags come back as the same list of strings (and `'suppress' in tags` is unchanged) -/
theorem tags_are_lists (s : H) (nf af fuel : Nat) (aux0 : Aux) (m : Option PyModel) (f : Format)
    (hc : Consistent (absS s nf af)) (hx : NamesExact (absS s nf af)) (hids : IdsSet s)
    (hfuel : s.attackers.length < fuel) (h0 : aux0.nfresh = 0 ∧ aux0.afresh = 0) (hm : ModelOK m)
    (hcov : ModelCovers m s) :
    ∃ d s' aux', graph__to_dict fuel s = .ok d ∧ graph__from_dict aux0 (f.py d) m = .ok (s', aux') ∧
      ∀ r ∈ s.nodes, ∃ r' ∈ s'.nodes, (s'.n r').id.getD 0 = (s.n r).id.getD 0 ∧ (s'.n r').tags = (s.n r).tags :=
  transfer s nf af fuel aux0 m f hc hx hids hfuel h0 hm hcov
    (fun t => ∀ r ∈ s.nodes, ∃ r' ∈ t.nodes, (t.nobj r').id = (s.n r).id.getD 0 ∧ (t.nobj r').tags = (s.n r).tags)
    (fun d hd => by
      obtain ⟨t, h1, h2⟩ := MalVerif.C10.tags_are_lists (absS s nf af) (withModelOf m) hc hx d hd
      exact ⟨t, h1, fun r hr => by obtain ⟨r', hr', e1, e2, _⟩ := h2 r hr; exact ⟨r', hr', e1, e2⟩⟩)

/-- every attacker comes back under its own id (0 included) with its name, entry points and reached steps (as sets
of node ids); `get_attacker_by_id` finds it; no other attacker appears -/
theorem attacker_ids_kept (s : H) (nf af fuel : Nat) (aux0 : Aux) (m : Option PyModel) (f : Format)
    (hc : Consistent (absS s nf af)) (hx : NamesExact (absS s nf af)) (hids : IdsSet s)
    (hfuel : s.attackers.length < fuel) (h0 : aux0.nfresh = 0 ∧ aux0.afresh = 0) (hm : ModelOK m)
    (hcov : ModelCovers m s) :
    ∃ d s' aux', graph__to_dict fuel s = .ok d ∧ graph__from_dict aux0 (f.py d) m = .ok (s', aux') ∧
      (∀ a ∈ s.attackers, ∃ a' ∈ s'.attackers, graph_get_attacker_by_id s' ((s.a a).id.getD 0) = some a' ∧
        (s'.a a').id.getD 0 = (s.a a).id.getD 0 ∧ (s'.a a').name = (s.a a).name ∧
        (∀ i, i ∈ (s'.a a').entry_points.map (fun n => (s'.n n).id.getD 0) ↔
              i ∈ (s.a a).entry_points.map (fun n => (s.n n).id.getD 0)) ∧
        (∀ i, i ∈ (s'.a a').reached_attack_steps.map (fun n => (s'.n n).id.getD 0) ↔
              i ∈ (s.a a).reached_attack_steps.map (fun n => (s.n n).id.getD 0))) ∧
      s'.attackers.length = s.attackers.length :=
  transfer s nf af fuel aux0 m f hc hx hids hfuel h0 hm hcov
    (fun t => (∀ a ∈ s.attackers, ∃ a' ∈ t.attackers, getAttackerById t ((s.a a).id.getD 0) = some a' ∧
        (t.aobj a').id = (s.a a).id.getD 0 ∧ (t.aobj a').name = (s.a a).name ∧
        (∀ i, i ∈ entryIds t a' ↔ i ∈ entryIds (absS s nf af) a) ∧
        (∀ i, i ∈ reachedIds t a' ↔ i ∈ reachedIds (absS s nf af) a)) ∧
      t.attackers.length = s.attackers.length)
    (fun d hd => MalVerif.C10.attacker_ids_kept (absS s nf af) (withModelOf m) hc hx d hd)

end MalVerif.PropsGen.C10
