import MalVerif.Py.TieLang
import MalVerif.Py.TieLangVars
import MalVerif.Props.C03
/-!
# C03 for the *translated* Python — step inheritance: override / extend, and the lookup is pure

The theorems of `MalVerif/Props/C03.lean` are about the hand-written fold `Lang.foldSteps` and the hand-written
heap-level resolver `resolveH`.  Here they are restated for `lg__get_attacks_for_asset_type`
(`MalVerif/Py/GenLang/Attacks.lean`), which `translators/py2lean_lang.py` generates from
`LanguageGraph._get_attacks_for_asset_type` on every run, and proved through the tie of `MalVerif/Py/TieLang.lean`.

The heap `s : LS` (`Py/PreludeLang.lean`) holds the loaded language specification: step dictionaries, `reaches`
dictionaries and `stepExpressions` lists are objects in three stores.  `absLang s` is the specification it holds as a
value, `absAnswer s' acc` the value of an answer `acc` (a dict name ↦ step-dictionary object) read through heap `s'`.
`SpecBelow s bs br bl` (decidable: `specBelowB`) says that the specification's objects lie below the marks
`bs`/`br`/`bl` of the three stores.  `lookup s t` is the call `self._get_attacks_for_asset_type(t)` with the
recursion fuel `pyFuelL s`.
-/
namespace MalVerif.PropsGen.C03
open MalVerif MalVerif.Py MalVerif.Py.LSpec MalVerif.Py.GenLang MalVerif.Py.TieLang MalVerif.Py.TieLangVars

/-- the `extends` walk from `t` ends (no cycle above `t`) in the specification held by `s` -/
abbrev NoCycleAbove (s : LS) (t : String) : Prop :=
  (absLang s).chainOK ((absLang s).assets.length + 1) t = true

/-! ## Part 1 — the call returns, and what it returns is the fold -/

/-- **totality**: on a well-formed heap the lookup returns whenever there is no `extends` cycle above the type -/
theorem lookup_returns (s : LS) (bs br bl : Nat) (hwf : SpecBelow s bs br bl) (t : String) (hok : NoCycleAbove s t) :
    ∃ s' acc, lookup s t = .ok (s', acc) := by
  obtain ⟨s', acc, e, _⟩ := lookup_spec s bs br bl hwf t hok
  exact ⟨s', acc, e⟩

/-- … and with a cycle above the type it raises (`RecursionError`), on any heap -/
theorem lookup_raises_on_cycle (s : LS) (t : String) (hcyc : ¬ NoCycleAbove s t) :
    lookup s t = .error .recursionError := by
  unfold lookup pyFuelL
  rw [attacks_eq]
  apply attacksPy_error
  have : (absLang s).chainOK ((absLang s).assets.length + 1) t = false := by
    unfold NoCycleAbove at hcyc
    cases h : (absLang s).chainOK ((absLang s).assets.length + 1) t
    · rfl
    · exact absurd h hcyc
  rw [absLang_assets_length] at this
  exact this

/-- so, on a well-formed heap: it returns iff there is no cycle -/
theorem lookup_returns_iff (s : LS) (bs br bl : Nat) (hwf : SpecBelow s bs br bl) (t : String) :
    (∃ r, lookup s t = .ok r) ↔ NoCycleAbove s t := by
  constructor
  · intro ⟨r, hr⟩
    apply Classical.byContradiction
    intro h
    rw [lookup_raises_on_cycle s t h] at hr
    cases hr
  · intro h
    obtain ⟨s', acc, e⟩ := lookup_returns s bs br bl hwf t h
    exact ⟨_, e⟩

/-- **value**: whatever the translated lookup returns is, read as a value through the heap it leaves, the
ancestors' declarations folded from the root down (`Lang.foldSteps` of `Model/Inherit.lean`, whose clauses —
'->' replaces, '+>' appends, no reaches clause leaves untouched — are `Props/C03.lean` Part 2) -/
theorem lookup_value (s : LS) (bs br bl : Nat) (hwf : SpecBelow s bs br bl) (t : String) (s' : LS)
    (acc : List (String × SRef)) (h : lookup s t = .ok (s', acc)) :
    absAnswer s' acc = (absLang s).foldSteps t := by
  have hok : NoCycleAbove s t := (lookup_returns_iff s bs br bl hwf t).1 ⟨_, h⟩
  obtain ⟨s1, acc1, e, v, _⟩ := lookup_spec s bs br bl hwf t hok
  rw [h] at e
  injection e with e; injection e with e1 e2
  subst e1; subst e2
  exact v

/-- the same answer is the one of the hand-written heap-level resolver, list store included -/
theorem lookup_is_resolveH (s : LS) (bs br bl : Nat) (hwf : SpecBelow s bs br bl) (t : String) (s' : LS)
    (acc : List (String × SRef)) (h : lookup s t = .ok (s', acc)) :
    resolveH (absLangH s) (absStore s) t = (absStore s', absAcc s' acc) := by
  have hok : NoCycleAbove s t := (lookup_returns_iff s bs br bl hwf t).1 ⟨_, h⟩
  obtain ⟨s1, acc1, e, _, r, _⟩ := lookup_spec s bs br bl hwf t hok
  rw [h] at e
  injection e with e; injection e with e1 e2
  subst e1; subst e2
  exact r

/-! ## Part 2 — the lookup leaves the loaded specification unmodified -/

/-- **frame**: no cell that existed when the lookup was entered — step dictionary, `reaches` dictionary or
expression list — has changed when it returns; the two top-level lists of the specification are the same; no
store shrank.  (Every write of the call goes to an object the call itself allocated.) -/
theorem lookup_frame (s : LS) (bs br bl : Nat) (hwf : SpecBelow s bs br bl) (t : String) (s' : LS)
    (acc : List (String × SRef)) (h : lookup s t = .ok (s', acc)) :
    s'.assets = s.assets ∧ s'.associations = s.associations ∧
    (∀ r < s.stepD.length, s'.stepD[r]? = s.stepD[r]?) ∧
    (∀ r < s.reachD.length, s'.reachD[r]? = s.reachD[r]?) ∧
    (∀ l < s.exprL.length, s'.exprL[l]? = s.exprL[l]?) ∧
    s.stepD.length ≤ s'.stepD.length ∧ s.reachD.length ≤ s'.reachD.length ∧ s.exprL.length ≤ s'.exprL.length := by
  have hok : NoCycleAbove s t := (lookup_returns_iff s bs br bl hwf t).1 ⟨_, h⟩
  obtain ⟨s1, acc1, e, _, _, _, _, F⟩ := lookup_spec s bs br bl hwf t hok
  rw [h] at e
  injection e with e; injection e with e1 e2
  subst e1
  exact ⟨F.assets, F.associations, F.step_eq, F.reach_eq, F.list_eq, F.step_len, F.reach_len, F.list_len⟩

/-- **the specification is unmodified**: every object reachable from the specification root (asset dictionary →
its step dictionaries → their `reaches` dictionaries → their `stepExpressions` lists) is the same after the call;
the heap is still well-formed with the same marks; the specification read back is the same value -/
theorem lookup_spec_unchanged (s : LS) (bs br bl : Nat) (hwf : SpecBelow s bs br bl) (t : String) (s' : LS)
    (acc : List (String × SRef)) (h : lookup s t = .ok (s', acc)) :
    s'.assets = s.assets ∧
    (∀ a ∈ s.assets, ∀ r ∈ a.attackSteps, s'.step r = s.step r ∧
      ∀ rr, (s.step r).reaches = some rr → s'.reach rr = s.reach rr ∧
        s'.list (s.reach rr).stepExpressions = s.list (s.reach rr).stepExpressions) ∧
    SpecBelow s' bs br bl ∧ absLang s' = absLang s := by
  obtain ⟨ha, _, hs, hr, hl, _, _, _⟩ := lookup_frame s bs br bl hwf t s' acc h
  have hok : NoCycleAbove s t := (lookup_returns_iff s bs br bl hwf t).1 ⟨_, h⟩
  obtain ⟨s1, acc1, e, _, _, _, _, F⟩ := lookup_spec s bs br bl hwf t hok
  rw [h] at e
  injection e with e; injection e with e1 e2
  subst e1
  obtain ⟨hwf', _, hL⟩ := frame_spec hwf (F.weaken hwf.hs hwf.hr hwf.hl)
  refine ⟨ha, ?_, hwf', hL⟩
  intro a hmem r hrm
  refine ⟨step_of_get (hs r (Nat.lt_of_lt_of_le (hwf.step_lt a hmem r hrm) hwf.hs)), fun rr hrr => ⟨?_, ?_⟩⟩
  · exact reach_of_get (hr rr (Nat.lt_of_lt_of_le (hwf.reach_lt a hmem r hrm rr hrr) hwf.hr))
  · exact list_of_get (hl _ (Nat.lt_of_lt_of_le (hwf.list_lt a hmem r hrm rr hrr) hwf.hl))

/-- **freshness of what is returned**: every step dictionary of the answer, its `reaches` dictionary and its
expression list were allocated during the call (their references are `≥` the sizes of the stores at entry, hence
they are no objects of the specification and of no earlier answer), the keys are pairwise distinct, and no two
entries share a step dictionary, a `reaches` dictionary or an expression list -/
theorem lookup_fresh (s : LS) (bs br bl : Nat) (hwf : SpecBelow s bs br bl) (t : String) (s' : LS)
    (acc : List (String × SRef)) (h : lookup s t = .ok (s', acc)) :
    (acc.map (·.1)).Nodup ∧
    (∀ e ∈ acc, s.stepD.length ≤ e.2 ∧ e.2 < s'.stepD.length ∧
      ∀ rr, (s'.step e.2).reaches = some rr →
        s.reachD.length ≤ rr ∧ rr < s'.reachD.length ∧
        s.exprL.length ≤ (s'.reach rr).stepExpressions ∧ (s'.reach rr).stepExpressions < s'.exprL.length) ∧
    (∀ e ∈ acc, ∀ e' ∈ acc, e.2 = e'.2 → e = e') ∧
    (∀ e ∈ acc, ∀ e' ∈ acc, ∀ rr, (s'.step e.2).reaches = some rr → (s'.step e'.2).reaches = some rr → e = e') ∧
    (∀ e ∈ acc, ∀ e' ∈ acc, ∀ rr rr', (s'.step e.2).reaches = some rr → (s'.step e'.2).reaches = some rr' →
      (s'.reach rr).stepExpressions = (s'.reach rr').stepExpressions → e = e') := by
  have hok : NoCycleAbove s t := (lookup_returns_iff s bs br bl hwf t).1 ⟨_, h⟩
  obtain ⟨s1, acc1, e, _, _, f, i, _⟩ := lookup_spec s bs br bl hwf t hok
  rw [h] at e
  injection e with e; injection e with e1 e2
  subst e1; subst e2
  have hnd : (dKeys acc).Nodup := by rw [← dKeys_absAcc s']; exact i.nodup
  have hget : ∀ e ∈ acc, dGet acc e.1 = some e.2 := fun e he => dGet_of_mem hnd he
  have habs : ∀ e ∈ acc, dGet (absAcc s' acc) e.1 = some (absStep s' e.2) := by
    intro e he; rw [dGet_absAcc, hget e he]; rfl
  have hreach : ∀ (r : SRef) rr, (s'.step r).reaches = some rr →
      (absStep s' r).reaches = some ((s'.reach rr).overrides, (s'.reach rr).stepExpressions) := by
    intro r rr hr; unfold absStep; simp [hr]
  have hext : ∀ e ∈ acc, ∀ e' ∈ acc, e.1 = e'.1 → e = e' := by
    intro e he e' he' hk
    have h1 := hget e he; have h2 := hget e' he'
    rw [hk] at h1; rw [h1] at h2
    exact Prod.ext hk (Option.some.inj h2)
  refine ⟨hnd, ?_, ?_, ?_, ?_⟩
  · intro e he
    have hb := f.sbound _ _ (hget e he)
    refine ⟨hb.1, hb.2, fun rr hr => ?_⟩
    have hrb := f.rbound _ _ _ (hget e he) hr
    have hlb := i.bound _ _ _ _ (habs e he) (hreach _ _ hr)
    rw [absStore_length] at hlb
    exact ⟨hrb.1, hrb.2, hlb.1, hlb.2⟩
  · intro e he e' he' heq
    apply hext e he e' he'
    have h2 := hget e' he'
    rw [← heq] at h2
    exact f.sinj _ _ _ (hget e he) h2
  · intro e he e' he' rr hr hr'
    exact hext e he e' he' (f.rinj _ _ _ _ _ (hget e he) (hget e' he') hr hr')
  · intro e he e' he' rr rr' hr hr' hl
    apply hext e he e' he'
    have h1 := hreach _ _ hr
    have h2 := hreach _ _ hr'
    rw [← hl] at h2
    exact i.inj _ _ _ _ _ _ _ (habs e he) (habs e' he') h1 h2

/-! ## Part 3 — any number of lookups, in any order -/

/-- **histories**: on a well-formed heap, for every list of queried type names (any order, any repetition,
unknown names included) without an `extends` cycle above them, the calls all return; every answer — read through
the *final* heap, i.e. also after all later calls — is the fold over the specification as it was loaded; the
specification held by the final heap is the same value and no cell that existed at the start has changed.
In particular asking twice gives the same value (idempotence) and the order of the queries is irrelevant. -/
theorem lookup_history (s : LS) (bs br bl : Nat) (hwf : SpecBelow s bs br bl) (qs : List String)
    (hok : ∀ t ∈ qs, NoCycleAbove s t) :
    ∃ s' answers, runLookups s qs = .ok (s', answers) ∧
      answers.map (absAnswer s') = qs.map (absLang s).foldSteps ∧
      absLang s' = absLang s ∧ SpecBelow s' bs br bl ∧ s'.assets = s.assets ∧
      (∀ r < s.stepD.length, s'.stepD[r]? = s.stepD[r]?) ∧
      (∀ r < s.reachD.length, s'.reachD[r]? = s.reachD[r]?) ∧
      (∀ l < s.exprL.length, s'.exprL[l]? = s.exprL[l]?) := by
  obtain ⟨s', answers, e, v, F⟩ := runLookups_spec bs br bl qs s hwf hok
  obtain ⟨hwf', _, hL⟩ := frame_spec hwf (F.weaken hwf.hs hwf.hr hwf.hl)
  exact ⟨s', answers, e, v, hL, hwf', F.assets, F.step_eq, F.reach_eq, F.list_eq⟩

/-- idempotence and order-independence, spelled out: in any history the answers to two queries for the same type
are equal as values, wherever they stand -/
theorem lookup_same_answer (s : LS) (bs br bl : Nat) (hwf : SpecBelow s bs br bl) (qs : List String)
    (hok : ∀ t ∈ qs, NoCycleAbove s t) (s' : LS) (answers : List (List (String × SRef)))
    (h : runLookups s qs = .ok (s', answers)) (i j : Nat) (hi : i < qs.length) (hj : j < qs.length)
    (hq : qs[i] = qs[j]) :
    (answers.map (absAnswer s'))[i]? = (answers.map (absAnswer s'))[j]? := by
  obtain ⟨s1, a1, e, v, _⟩ := lookup_history s bs br bl hwf qs hok
  rw [h] at e
  injection e with e; injection e with e1 e2
  subst e1; subst e2
  rw [v]
  simp [List.getElem?_map, List.getElem?_eq_getElem hi, List.getElem?_eq_getElem hj, hq]

/-! ## Part 4 — what a type exposes never depends on what its descendants or siblings declare -/

/-- two heaps whose specifications agree on the declarations of `t` and of its ancestors (declarations of other
types — descendants, siblings — added, removed or changed at will) give the same answer for `t` -/
theorem lookup_independent_of_others (s1 s2 : LS) (bs1 br1 bl1 bs2 br2 bl2 : Nat)
    (hwf1 : SpecBelow s1 bs1 br1 bl1) (hwf2 : SpecBelow s2 bs2 br2 bl2) (t : String)
    (hsame : (absLang s2).assets.filter
               (fun a => decide (a.name ∈ (absLang s1).chainNames ((absLang s1).assets.length + 1) t)) =
             (absLang s1).assets.filter
               (fun a => decide (a.name ∈ (absLang s1).chainNames ((absLang s1).assets.length + 1) t)))
    (s1' s2' : LS) (acc1 acc2 : List (String × SRef))
    (h1 : lookup s1 t = .ok (s1', acc1)) (h2 : lookup s2 t = .ok (s2', acc2)) :
    absAnswer s1' acc1 = absAnswer s2' acc2 := by
  rw [lookup_value s1 bs1 br1 bl1 hwf1 t s1' acc1 h1, lookup_value s2 bs2 br2 bl2 hwf2 t s2' acc2 h2]
  exact MalVerif.C03.fold_independent_of_others _ _ t
    ((lookup_returns_iff s1 bs1 br1 bl1 hwf1 t).1 ⟨_, h1⟩) ((lookup_returns_iff s2 bs2 br2 bl2 hwf2 t).1 ⟨_, h2⟩) hsame

/-! ## Part 5 — non-vacuity: the hypotheses hold of concrete heaps, and the calls compute -/

/-- the heap of the loaded example language of `Props/C03.lean` (depth 3, every kind of redefinition, a sibling):
14 step dictionaries, 9 `reaches` dictionaries, 9 lists -/
def exHeap : LS := loadPy MalVerif.C03.exLang

example : specBelowB exHeap 14 9 9 = true := by decide
theorem exHeap_wf : SpecBelow exHeap 14 9 9 := specBelow_of_check (by decide)
example : (absLang exHeap).assets.map (·.name) = ["P", "C", "S", "G"] := by decide
example : ∀ t ∈ ["G", "C", "G", "S", "P", "G", "nope"], NoCycleAbove exHeap t := by decide
/-- the specification held by `exHeap` is `exLang` as far as the resolver can see -/
example : ["P", "C", "S", "G"].map (absLang exHeap).foldSteps = ["P", "C", "S", "G"].map MalVerif.C03.exLang.foldSteps := by
  decide

/-- the exception a call raised, if any -/
def errOf {α : Type} (x : Except PyErr α) : Option PyErr := match x with | .error e => some e | .ok _ => none

/-- the translated lookup on `G` computes: it returns, the value is the fold, the six step
dictionaries of the answer are fresh objects (the call allocated 7 step dictionaries — the copy of `P.c` was
replaced by the copy of `C.c` —, 5 `reaches` dictionaries and 5 lists), and the lists of the specification are
untouched -/
example :
    (lookup exHeap "G").toOption.map (fun r => (absAnswer r.1 r.2, (r.2.map (·.2) : List Nat))) =
    some (MalVerif.C03.exLang.foldSteps "G", [14, 15, 18, 17, 19, 20]) := by decide
example :
    (lookup exHeap "G").toOption.map (fun r => (r.1.stepD.length, r.1.reachD.length, r.1.exprL.length,
      (r.1.exprL.take 9).map (·.map exprOfPy))) =
    some (21, 14, 14, (exHeap.exprL.take 9).map (·.map exprOfPy)) := by decide

/-- a history on the loaded example: shuffled, repeated queries and an unknown name -/
example :
    (runLookups exHeap ["G", "C", "G", "S", "P", "G", "nope"]).toOption.map (fun r => r.2.map (absAnswer r.1)) =
    some (["G", "C", "G", "S", "P", "G", "nope"].map MalVerif.C03.exLang.foldSteps) := by decide

/-- a cyclic `extends` (`A extends B extends A`): the hypothesis `NoCycleAbove` fails and the call raises -/
def cycHeap : LS := loadPy { assets := [{ name := "A", superAsset := some "B" }, { name := "B", superAsset := some "A" }] }
example : ¬ NoCycleAbove cycHeap "A" := by decide
example : errOf (lookup cycHeap "A") = some .recursionError := by decide

/-! ## Part 6 — the frame theorem is not vacuous: the code before fix 35ae67d violates it

`aliasHeap` holds `P{s}` ← `C{s +> a}` ← `G{s +> b}` (`Props/C03.lean: aliasLang`): 3 step dictionaries, 2 `reaches`
dictionaries, 2 lists; list 0 is `C.s`'s `[a]`. -/

def aliasHeap : LS := loadPy MalVerif.C03.aliasLang

theorem aliasHeap_wf : SpecBelow aliasHeap 3 2 2 := specBelow_of_check (by decide)

/-- the translated lookup (the code as it is now) on `G`: list 0 of the specification still is `[a]` afterwards
(an instance of `lookup_frame`), the answer is `[a, b]` in a fresh list -/
example :
    (lookup aliasHeap "G").toOption.map (fun r => ((r.1.exprL.take 2).map (·.map exprOfPy), absAnswer r.1 r.2)) =
    some ([[Expr.step "a"], [Expr.step "b"]], MalVerif.C03.aliasLang.foldSteps "G") := by decide

/-- the pre-fix variant (`TieLang.attacksPyAliasing`, hand-written) on the same well-formed heap: the call on `G`
*writes into the specification* — list 0, an object of the specification below the mark `2`, becomes `[a, b]` — so the
conclusion of `lookup_frame` is false for it, and a second call returns one expression more -/
theorem aliasing_variant_violates_frame :
    (aliasHeap.exprL[0]?).map (·.map exprOfPy) = some [Expr.step "a"] ∧
    (attacksPyAliasing (pyFuelL aliasHeap) aliasHeap "G").toOption.map
        (fun r => (r.1.exprL[0]?).map (·.map exprOfPy)) = some (some [Expr.step "a", Expr.step "b"]) ∧
    ((attacksPyAliasing (pyFuelL aliasHeap) aliasHeap "G").toOption.bind
        (fun r => (attacksPyAliasing (pyFuelL r.1) r.1 "G").toOption.map
          (fun r' => (r'.1.exprL[0]?).map (·.map exprOfPy)))) =
      some (some [Expr.step "a", Expr.step "b", Expr.step "b"]) := by
  refine ⟨by decide, by decide, by decide⟩

/-! ## Part 7 — the variable lookup (`_get_variable_for_asset_type_by_name`, the sibling recursion over `superAsset`)

The step-expression evaluator of C01 calls it through its `lang_graph` argument (`EvalEnv`, assumed there to behave
like `Lang.lookupVar`); here that behaviour is a theorem about the translated source. -/

/-- the call `self._get_variable_for_asset_type_by_name(t, v)` -/
abbrev lookupVariable (s : LS) (t v : String) : Except PyErr PyVarObj :=
  lg__get_variable_for_asset_type_by_name (pyFuelL s) s t v

/-- without an `extends` cycle above `t`: the translated lookup returns a step-expression dictionary whose value is
the first definition of `v` on `t` or an ancestor (`Lang.lookupVar`), and raises `LanguageGraphException` exactly when
there is none (in particular for an unknown asset type); it reads the heap only -/
theorem lookupVariable_is_lookupVar (s : LS) (t v : String) (hok : NoCycleAbove s t) :
    match (absLang s).lookupVar t v with
    | some d => ∃ e, lookupVariable s t v = .ok (.expr e) ∧ exprOfPy e = d
    | none => lookupVariable s t v = .error .languageGraphException := by
  have hok' : (absLang s).chainOK (pyFuelL s) t = true := by
    unfold pyFuelL; rw [← absLang_assets_length]; exact hok
  have h1 := get_variable_tie s (pyFuelL s) t v hok'
  have h2 := rawVar_chain s (pyFuelL s) t v
  have h3 : (absLang s).lookupVar t v = (rawVar s (pyFuelL s) t v).map exprOfPy := by
    rw [h2]; unfold Lang.lookupVar pyFuelL; rw [absLang_assets_length]
  rw [h3]
  unfold lookupVariable
  rw [h1]
  cases rawVar s (pyFuelL s) t v with
  | none => rfl
  | some e => exact ⟨e, rfl, rfl⟩

/-- `P` declares `hs = hosts`, `C extends P` declares `own = x.y`, `G extends C` redeclares `hs = other` -/
def varHeap : LS := loadPy { assets := [
  { name := "P", variables := [("hs", .field "hosts")] },
  { name := "C", superAsset := some "P", variables := [("own", .collect (.field "x") (.field "y"))] },
  { name := "G", superAsset := some "C", variables := [("hs", .field "other")] }] }

example : ∀ t ∈ ["P", "C", "G", "nope"], NoCycleAbove varHeap t := by decide
/-- inherited, own, shadowed, missing, unknown type -/
example :
    [("C", "hs"), ("C", "own"), ("G", "hs"), ("P", "own"), ("nope", "hs")].map
      (fun q => match lookupVariable varHeap q.1 q.2 with
        | .ok (.expr e) => some (exprOfPy e)
        | _ => none) =
    [some (.field "hosts"), some (.collect (.field "x") (.field "y")), some (.field "other"), none, none] := by decide
example : errOf (lookupVariable varHeap "P" "own") = some .languageGraphException := by decide
example : errOf (lookupVariable varHeap "nope" "hs") = some .languageGraphException := by decide

end MalVerif.PropsGen.C03
