import MalVerif.Py.TieNode
import MalVerif.Props.C11
import MalVerif.Props.C12
/-!
# C11 for the *generated* code — attackers and nodes mirror each other

`Attacker.compromise` / `Attacker.undo_compromise` as translated into `MalVerif/Py/Gen/Attacker.lean`
(and `AttackGraphNode.compromise` / `undo_compromise`, which delegate to them — `Py/TieNode.lean`), stated over
the heap `H` directly: `compromise` is idempotent and records the pair on both sides, touching nothing else;
`undo_compromise` of a node that is not compromised is a no-op, otherwise it removes the pair from both sides;
both keep the mirror relation and duplicate-freeness.
-/
namespace MalVerif.PropsGen.C11
open MalVerif.Py MalVerif.Py.Gen MalVerif.Py.Tie MalVerif.AGS

/-! ### what the two operations do to the two lists -/

theorem compromise_of_mem (s : H) (a : ARef) (n : NRef) (h : a ∈ (s.n n).compromised_by) :
    attacker_compromise s a n = s := by
  rw [compromise_eq, if_pos (List.contains_iff_mem.2 h)]

theorem compromise_compBy (s : H) (a : ARef) (n x : NRef) (b : ARef) :
    b ∈ ((attacker_compromise s a n).n x).compromised_by ↔ b ∈ (s.n x).compromised_by ∨ (x = n ∧ b = a) := by
  have := MalVerif.C12.compromise_compBy (absS s 0 0) a n x b
  rw [← compromise_tie] at this
  exact this

theorem compromise_reached (s : H) (a : ARef) (n : NRef) (b : ARef) (x : NRef) :
    x ∈ ((attacker_compromise s a n).a b).reached_attack_steps ↔
      x ∈ (s.a b).reached_attack_steps ∨ (b = a ∧ x = n ∧ a ∉ (s.n n).compromised_by) := by
  have := MalVerif.C12.compromise_reached (absS s 0 0) a n b x
  rw [← compromise_tie] at this
  exact this

/-- the lists after a successful `undo_compromise` -/
theorem undo_fields (s s' : H) (a : ARef) (n : NRef) (h : attacker_undo_compromise s a n = .ok s') :
    (∀ x, (s'.n x).compromised_by = if x = n then (s.n n).compromised_by.erase a else (s.n x).compromised_by) ∧
    (∀ b, (s'.a b).reached_attack_steps =
      if b = a ∧ a ∈ (s.n n).compromised_by then (s.a a).reached_attack_steps.erase n
      else (s.a b).reached_attack_steps) := by
  rw [undo_eq] at h
  by_cases h1 : a ∈ (s.n n).compromised_by
  · rw [if_pos (List.contains_iff_mem.2 h1)] at h
    split at h
    · cases h
      constructor
      · intro x; simp only [H.setA, H.setN]; split
        · rfl
        · rfl
      · intro b; simp only [H.setA, H.setN, h1, and_true]; split
        · rfl
        · rfl
    · cases h
  · rw [if_neg (fun e => h1 (List.contains_iff_mem.1 e))] at h
    cases h
    constructor
    · intro x; split
      · rename_i e; subst e; rw [List.erase_of_not_mem h1]
      · rfl
    · intro b; simp [h1]

/-! ### the property -/

/-- `compromise` twice is `compromise` once (no hypothesis needed) -/
theorem compromise_idem (s : H) (a : ARef) (n : NRef) :
    attacker_compromise (attacker_compromise s a n) a n = attacker_compromise s a n :=
  compromise_of_mem _ a n ((compromise_compBy s a n n a).2 (Or.inr ⟨rfl, rfl⟩))

/-- after `compromise` the node lists the attacker (unconditionally), and the attacker lists the node unless the
node listed the attacker already (then `compromise` returns at once, without looking at the attacker's list) -/
theorem compromise_post_weak (s : H) (a : ARef) (n : NRef) :
    a ∈ ((attacker_compromise s a n).n n).compromised_by ∧
      (n ∈ ((attacker_compromise s a n).a a).reached_attack_steps ∨ a ∈ (s.n n).compromised_by) := by
  refine ⟨(compromise_compBy s a n n a).2 (Or.inr ⟨rfl, rfl⟩), ?_⟩
  by_cases h : a ∈ (s.n n).compromised_by
  · exact Or.inr h
  · exact Or.inl ((compromise_reached s a n a n).2 (Or.inr ⟨rfl, rfl, h⟩))

/-- after `compromise` both sides record it.  **Extra hypothesis `hmir_at`** (one direction of the mirror
relation at the pair `(a, n)`): without it the statement is false — with `(s.n n).compromised_by = [a]` and
`(s.a a).reached_attack_steps = []` the function returns `s` unchanged. -/
theorem compromise_post (s : H) (a : ARef) (n : NRef)
    (hmir_at : a ∈ (s.n n).compromised_by → n ∈ (s.a a).reached_attack_steps) :
    a ∈ ((attacker_compromise s a n).n n).compromised_by ∧
      n ∈ ((attacker_compromise s a n).a a).reached_attack_steps := by
  obtain ⟨h1, h2⟩ := compromise_post_weak s a n
  refine ⟨h1, ?_⟩
  rcases h2 with h2 | h2
  · exact h2
  · rw [compromise_of_mem s a n h2]; exact hmir_at h2

/-- `compromise` changes nothing but the pair `(a, n)` (and only the two lists: see `compromise_fields`) -/
theorem compromise_frame (s : H) (a : ARef) (n : NRef) (b : ARef) (m : NRef) (h : b ≠ a ∨ m ≠ n) :
    (b ∈ ((attacker_compromise s a n).n m).compromised_by ↔ b ∈ (s.n m).compromised_by) ∧
    (m ∈ ((attacker_compromise s a n).a b).reached_attack_steps ↔ m ∈ (s.a b).reached_attack_steps) := by
  rw [compromise_compBy, compromise_reached]
  constructor
  · constructor
    · rintro (h1 | ⟨h1, h2⟩)
      · exact h1
      · rcases h with h | h
        · exact absurd h2 h
        · exact absurd h1 h
    · exact Or.inl
  · constructor
    · rintro (h1 | ⟨h1, h2, _⟩)
      · exact h1
      · rcases h with h | h
        · exact absurd h1 h
        · exact absurd h2 h
    · exact Or.inl

/-- every other attribute of every object, and the graph's own attributes, are untouched by `compromise` -/
theorem compromise_fields (s : H) (a : ARef) (n : NRef) :
    (∀ x, (attacker_compromise s a n).n x = { s.n x with compromised_by := ((attacker_compromise s a n).n x).compromised_by }) ∧
    (∀ b, (attacker_compromise s a n).a b =
      { s.a b with reached_attack_steps := ((attacker_compromise s a n).a b).reached_attack_steps }) ∧
    (attacker_compromise s a n).nodes = s.nodes ∧ (attacker_compromise s a n).attackers = s.attackers ∧
    (attacker_compromise s a n)._id_to_node = s._id_to_node ∧
    (attacker_compromise s a n)._full_name_to_node = s._full_name_to_node ∧
    (attacker_compromise s a n)._id_to_attacker = s._id_to_attacker ∧
    (attacker_compromise s a n).next_node_id = s.next_node_id ∧
    (attacker_compromise s a n).next_attacker_id = s.next_attacker_id := by
  rw [compromise_eq]
  split
  · exact ⟨fun _ => rfl, fun _ => rfl, rfl, rfl, rfl, rfl, rfl, rfl, rfl⟩
  · refine ⟨fun x => ?_, fun b => ?_, rfl, rfl, rfl, rfl, rfl, rfl, rfl⟩
    · simp only [H.setA, H.setN]; split
      · rename_i e; subst e; rfl
      · rfl
    · simp only [H.setA, H.setN]; split
      · rename_i e; subst e; rfl
      · rfl

/-- `undo_compromise` of a node the attacker has not compromised changes nothing (and does not raise) -/
theorem undo_noop (s : H) (a : ARef) (n : NRef) (h : a ∉ (s.n n).compromised_by) :
    attacker_undo_compromise s a n = .ok s := by
  rw [undo_eq, if_neg (fun e => h (List.contains_iff_mem.1 e))]

/-- after a successful `undo_compromise` neither side records the pair.  **Extra hypothesis `hmir_at`** (the
other direction of the mirror relation at `(a, n)`): without it the statement is false — with
`(s.n n).compromised_by = []` and `(s.a a).reached_attack_steps = [n]` the function returns `.ok s`. -/
theorem undo_post (s s' : H) (a : ARef) (n : NRef)
    (hnd1 : (s.n n).compromised_by.Nodup) (hnd2 : (s.a a).reached_attack_steps.Nodup)
    (hmir_at : n ∈ (s.a a).reached_attack_steps → a ∈ (s.n n).compromised_by)
    (h : attacker_undo_compromise s a n = .ok s') :
    a ∉ (s'.n n).compromised_by ∧ n ∉ (s'.a a).reached_attack_steps := by
  obtain ⟨f1, f2⟩ := undo_fields s s' a n h
  rw [f1 n, f2 a, if_pos rfl]
  refine ⟨fun e => (hnd1.mem_erase_iff.1 e).1 rfl, ?_⟩
  by_cases h1 : a ∈ (s.n n).compromised_by
  · rw [if_pos ⟨rfl, h1⟩]; exact fun e => (hnd2.mem_erase_iff.1 e).1 rfl
  · rw [if_neg (fun e => h1 e.2)]; exact fun e => h1 (hmir_at e)

/-- the node side of `undo_post` needs no mirror hypothesis -/
theorem undo_post_node (s s' : H) (a : ARef) (n : NRef) (hnd1 : (s.n n).compromised_by.Nodup)
    (h : attacker_undo_compromise s a n = .ok s') : a ∉ (s'.n n).compromised_by := by
  rw [(undo_fields s s' a n h).1 n, if_pos rfl]
  exact fun e => (hnd1.mem_erase_iff.1 e).1 rfl

/-- `undo_compromise` changes nothing but the pair `(a, n)` -/
theorem undo_frame (s s' : H) (a : ARef) (n : NRef) (b : ARef) (m : NRef) (hne : b ≠ a ∨ m ≠ n)
    (h : attacker_undo_compromise s a n = .ok s') :
    (b ∈ (s'.n m).compromised_by ↔ b ∈ (s.n m).compromised_by) ∧
    (m ∈ (s'.a b).reached_attack_steps ↔ m ∈ (s.a b).reached_attack_steps) := by
  obtain ⟨f1, f2⟩ := undo_fields s s' a n h
  rw [f1 m, f2 b]
  constructor
  · split
    · rename_i e; subst e
      have hb : b ≠ a := by rcases hne with h | h; exact h; exact absurd rfl h
      exact ⟨fun e => List.mem_of_mem_erase e, fun e => (List.mem_erase_of_ne hb).2 e⟩
    · exact Iff.rfl
  · split
    · rename_i e; obtain ⟨e, _⟩ := e; subst e
      have hm : m ≠ n := by rcases hne with h | h; exact absurd rfl h; exact h
      exact ⟨fun e => List.mem_of_mem_erase e, fun e => (List.mem_erase_of_ne hm).2 e⟩
    · exact Iff.rfl

/-- with the mirror relation at `(a, n)`, `undo_compromise` does not raise -/
theorem undo_ok (s : H) (a : ARef) (n : NRef)
    (hmir_at : a ∈ (s.n n).compromised_by → n ∈ (s.a a).reached_attack_steps) :
    ∃ s', attacker_undo_compromise s a n = .ok s' := MalVerif.Py.Tie.undo_ok s a n hmir_at

/-! ### the invariant: mirror relation without duplicates -/

/-- the mirror relation is kept by `compromise` -/
theorem mirror_preserved_compromise (s : H) (a : ARef) (n : NRef)
    (hmir : ∀ b x, x ∈ (s.a b).reached_attack_steps ↔ b ∈ (s.n x).compromised_by) :
    ∀ b x, x ∈ ((attacker_compromise s a n).a b).reached_attack_steps ↔
      b ∈ ((attacker_compromise s a n).n x).compromised_by := by
  have := MalVerif.C12.compromise_mirror (absS s 0 0) a n hmir
  rw [← compromise_tie] at this
  exact this

/-- … and by a successful `undo_compromise` (given that the lists have no duplicates) -/
theorem mirror_preserved_undo (s s' : H) (a : ARef) (n : NRef)
    (hmir : ∀ b x, x ∈ (s.a b).reached_attack_steps ↔ b ∈ (s.n x).compromised_by)
    (hnd1 : ∀ x, (s.n x).compromised_by.Nodup) (hnd2 : ∀ b, (s.a b).reached_attack_steps.Nodup)
    (h : attacker_undo_compromise s a n = .ok s') :
    ∀ b x, x ∈ (s'.a b).reached_attack_steps ↔ b ∈ (s'.n x).compromised_by := by
  obtain ⟨f1, f2⟩ := undo_fields s s' a n h
  intro b x
  rw [f1 x, f2 b]
  by_cases h1 : a ∈ (s.n n).compromised_by
  · by_cases hb : b = a
    · subst hb
      rw [if_pos ⟨rfl, h1⟩, (hnd2 b).mem_erase_iff]
      by_cases hx : x = n
      · subst hx
        rw [if_pos rfl, (hnd1 x).mem_erase_iff]
        exact ⟨fun e => absurd rfl e.1, fun e => absurd rfl e.1⟩
      · rw [if_neg hx, hmir]
        exact ⟨fun e => e.2, fun e => ⟨hx, e⟩⟩
    · rw [if_neg (fun e => hb e.1)]
      by_cases hx : x = n
      · subst hx
        rw [if_pos rfl, (hnd1 x).mem_erase_iff, hmir]
        exact ⟨fun e => ⟨hb, e⟩, fun e => e.2⟩
      · rw [if_neg hx, hmir]
  · rw [if_neg (fun e => h1 e.2), hmir]
    split
    · rename_i e; subst e; rw [List.erase_of_not_mem h1]
    · exact Iff.rfl

/-- duplicate-freeness is kept by `compromise`.  **Extra hypothesis `hmir_at`** (one direction of the mirror
relation at `(a, n)`): without it the attacker's list may get a duplicate — with `(s.n n).compromised_by = []` and
`(s.a a).reached_attack_steps = [n]` the result has `reached_attack_steps = [n, n]`.  (The node side needs no
hypothesis: `nodup_preserved_compromise_node`.) -/
theorem nodup_preserved_compromise (s : H) (a : ARef) (n : NRef)
    (hmir_at : n ∈ (s.a a).reached_attack_steps → a ∈ (s.n n).compromised_by)
    (hnd1 : ∀ x, (s.n x).compromised_by.Nodup) (hnd2 : ∀ b, (s.a b).reached_attack_steps.Nodup) :
    (∀ x, ((attacker_compromise s a n).n x).compromised_by.Nodup) ∧
    (∀ b, ((attacker_compromise s a n).a b).reached_attack_steps.Nodup) := by
  rw [compromise_eq]
  split
  · exact ⟨hnd1, hnd2⟩
  · rename_i h1
    have h1 : a ∉ (s.n n).compromised_by := fun e => h1 (List.contains_iff_mem.2 e)
    constructor
    · intro x; simp only [H.setA, H.setN]; split
      · rw [List.nodup_append]
        exact ⟨hnd1 n, by simp, by intro u hu v hv; simp at hv; subst hv; intro e; subst e; exact h1 hu⟩
      · exact hnd1 x
    · intro b; simp only [H.setA, H.setN]; split
      · rw [List.nodup_append]
        exact ⟨hnd2 a, by simp, by intro u hu v hv; simp at hv; subst hv; intro e; subst e; exact h1 (hmir_at hu)⟩
      · exact hnd2 b

theorem nodup_preserved_compromise_node (s : H) (a : ARef) (n : NRef)
    (hnd1 : ∀ x, (s.n x).compromised_by.Nodup) : ∀ x, ((attacker_compromise s a n).n x).compromised_by.Nodup := by
  rw [compromise_eq]
  split
  · exact hnd1
  · rename_i h1
    have h1 : a ∉ (s.n n).compromised_by := fun e => h1 (List.contains_iff_mem.2 e)
    intro x; simp only [H.setA, H.setN]; split
    · rw [List.nodup_append]
      exact ⟨hnd1 n, by simp, by intro u hu v hv; simp at hv; subst hv; intro e; subst e; exact h1 hu⟩
    · exact hnd1 x

/-- duplicate-freeness is kept by `undo_compromise` -/
theorem nodup_preserved_undo (s s' : H) (a : ARef) (n : NRef)
    (hnd1 : ∀ x, (s.n x).compromised_by.Nodup) (hnd2 : ∀ b, (s.a b).reached_attack_steps.Nodup)
    (h : attacker_undo_compromise s a n = .ok s') :
    (∀ x, (s'.n x).compromised_by.Nodup) ∧ (∀ b, (s'.a b).reached_attack_steps.Nodup) := by
  obtain ⟨f1, f2⟩ := undo_fields s s' a n h
  constructor
  · intro x; rw [f1 x]; split
    · exact (hnd1 n).erase a
    · exact hnd1 x
  · intro b; rw [f2 b]; split
    · exact (hnd2 a).erase n
    · exact hnd2 b

/-- the whole invariant in one statement: from a heap with the mirror relation and without duplicates, every
sequence of `compromise` / `undo_compromise` calls runs without exception and ends in such a heap -/
theorem invariant_run (ops : List (Bool × ARef × NRef)) (s : H)
    (hmir : ∀ b x, x ∈ (s.a b).reached_attack_steps ↔ b ∈ (s.n x).compromised_by)
    (hnd1 : ∀ x, (s.n x).compromised_by.Nodup) (hnd2 : ∀ b, (s.a b).reached_attack_steps.Nodup) :
    ∃ s', ops.foldlM (fun s (op : Bool × ARef × NRef) =>
        if op.1 then .ok (attacker_compromise s op.2.1 op.2.2) else attacker_undo_compromise s op.2.1 op.2.2) s
          = Except.ok (ε := PyErr) s' ∧
      (∀ b x, x ∈ (s'.a b).reached_attack_steps ↔ b ∈ (s'.n x).compromised_by) ∧
      (∀ x, (s'.n x).compromised_by.Nodup) ∧ (∀ b, (s'.a b).reached_attack_steps.Nodup) := by
  induction ops generalizing s with
  | nil => exact ⟨s, rfl, hmir, hnd1, hnd2⟩
  | cons op ops ih =>
    obtain ⟨c, a, n⟩ := op
    cases c with
    | true =>
      obtain ⟨g1, g2⟩ := nodup_preserved_compromise s a n (hmir a n).1 hnd1 hnd2
      obtain ⟨s', e, r⟩ := ih (attacker_compromise s a n) (mirror_preserved_compromise s a n hmir) g1 g2
      exact ⟨s', by simpa [List.foldlM_cons, bind, Except.bind] using e, r⟩
    | false =>
      obtain ⟨t, ht⟩ := undo_ok s a n (hmir a n).2
      obtain ⟨g1, g2⟩ := nodup_preserved_undo s t a n hnd1 hnd2 ht
      obtain ⟨s', e, r⟩ := ih t (mirror_preserved_undo s t a n hmir hnd1 hnd2 ht) g1 g2
      exact ⟨s', by simpa [List.foldlM_cons, bind, Except.bind, ht] using e, r⟩

/-! ### non-vacuity -/

/-- three 'or' steps in a chain; attacker `0` has reached `0` and `1`, attacker `1` has reached `1` -/
def demo : H where
  n := fun r => match r with
    | 0 => { type := "or", name := "a", children := [1], compromised_by := [0] }
    | 1 => { type := "or", name := "b", parents := [0], children := [2], compromised_by := [0, 1] }
    | 2 => { type := "or", name := "c", parents := [1] }
    | _ => {}
  a := fun r => match r with
    | 0 => { name := "eve", entry_points := [0], reached_attack_steps := [0, 1] }
    | 1 => { name := "mallory", entry_points := [1], reached_attack_steps := [1] }
    | _ => {}
  nodes := [0, 1, 2]
  attackers := [0, 1]

/-- the hypotheses of the theorems above hold on `demo` -/
example : (∀ b x, x ∈ (demo.a b).reached_attack_steps ↔ b ∈ (demo.n x).compromised_by) ∧
    (∀ x, (demo.n x).compromised_by.Nodup) ∧ (∀ b, (demo.a b).reached_attack_steps.Nodup) := by
  refine ⟨fun b x => ?_, fun x => ?_, fun b => ?_⟩
  · rcases b with _ | _ | b <;> rcases x with _ | _ | _ | x <;> simp [demo]
  · rcases x with _ | _ | _ | x <;> simp [demo]
  · rcases b with _ | _ | b <;> simp [demo]

/-- and the functions do what is expected there -/
example :
    ((attacker_compromise demo 1 2).n 2).compromised_by = [1] ∧
    ((attacker_compromise demo 1 2).a 1).reached_attack_steps = [1, 2] ∧
    ((attacker_compromise demo 0 1).n 1).compromised_by = [0, 1] ∧
    ((attacker_undo_compromise demo 0 1).toOption.map fun t =>
      ((t.n 1).compromised_by, (t.a 0).reached_attack_steps, (t.a 1).reached_attack_steps)) = some ([1], [0], [1]) ∧
    ((attacker_undo_compromise demo 1 2).toOption.map fun t =>
      ((t.n 2).compromised_by, (t.a 1).reached_attack_steps)) = some ([], [1]) := by
  decide

/-- the three extra hypotheses `hmir_at` cannot be dropped: on a heap whose two sides disagree,
`compromise` returns without recording the node on the attacker (`compromise_post`), `undo_compromise` returns
without removing it (`undo_post`), `compromise` produces a duplicate (`nodup_preserved_compromise`), and
`undo_compromise` raises `ValueError` (`undo_ok`) -/
def broken1 : H where
  n := fun r => match r with | 0 => { compromised_by := [0] } | _ => {}
def broken2 : H where
  a := fun r => match r with | 0 => { reached_attack_steps := [0] } | _ => {}
example : 0 ∉ ((attacker_compromise broken1 0 0).a 0).reached_attack_steps := by decide
example : (attacker_undo_compromise broken2 0 0).toOption.map (fun t => (t.a 0).reached_attack_steps) = some [0] := by
  decide
example : ((attacker_compromise broken2 0 0).a 0).reached_attack_steps = [0, 0] := by decide
example : attacker_undo_compromise broken1 0 0 = .error .valueError :=
  MalVerif.Py.Tie.undo_raises broken1 0 0 (by decide) (by decide)

end MalVerif.PropsGen.C11
