import MalVerif.Py.AbsLangGraph
import MalVerif.Py.GenLang.Assocs
import MalVerif.Proofs.LangGraphLemmas
import MalVerif.Proofs.LangGraphOrder
/-!
# Tie: translated language-graph queries (`GenLang/Assets.lean`, `GenLang/Assocs.lean`)  =  `Model/Inherit.lean`
(`Lang.isSub`), `Model/LangGraph.lean` (`LG.supers`, `LG.lookupAssoc`) under the abstraction `RepG`/`RepA`
of `Py/AbsLangGraph.lean`

* facts about a represented heap: `repG_*` (names are unique keys, `refOf` finds the object of a declared name,
  `repG_lgAssetEq_iff`: `==` on asset objects compares names — the parameter `deepEq` is never consulted);
* `is_subasset_of_tie` (loop invariant `sub_loop`: the work list is `[object of the k-th chain element]`),
  `get_all_superassets_tie` (`sup_loop`), `get_asset_by_name_eq` / `get_asset_by_name_tie`;
* `contains_fieldname_eq`, `get_opposite_fieldname_eq`, `contains_asset_tie`, `get_opposite_asset_tie`;
* `lookup_tie_find` (on the heap), `lookup_tie` (against `LG.lookupAssoc` over the association nodes);
* `get_all_subassets_tie` (a work-list walk over a forest: `WInv`, `Forest`, `winv_step`, `walk_loop`);
* `repG_heapOfLang`, `repA_heapOfLang`: the heap `heapOfLang L nodes` is represented.
-/
namespace MalVerif.Py.TieLangGraph
open MalVerif MalVerif.Py MalVerif.Py.LSpec MalVerif.Py.GenLang MalVerif.LG

/-! ## facts about a represented heap -/
section rep
variable {s : GH} {L : Lang}

theorem repG_length_eq (h : RepG s L) : s.assets.length = L.assets.length := by
  have := congrArg List.length h.names
  simpa using this

/-- the object names are pairwise distinct -/
theorem repG_objnames_nodup (h : RepG s L) : (s.assets.map (fun r => (s.asset r).name)).Nodup := by
  rw [h.names]
  exact nodup_map_comp (f := fun a : AssetDecl => a.name) (g := some) h.names_nodup
    (fun a _ b _ hab => Option.some.inj hab)

/-- every asset object carries the name of a declaration -/
theorem repG_name_of_mem (h : RepG s L) {r : GARef} (hr : r ∈ s.assets) :
    ∃ a ∈ L.assets, (s.asset r).name = some a.name := by
  have : (s.asset r).name ∈ s.assets.map (fun r => (s.asset r).name) := List.mem_map.2 ⟨r, hr, rfl⟩
  rw [h.names] at this
  obtain ⟨a, ha, hn⟩ := List.mem_map.1 this
  exact ⟨a, ha, hn.symm⟩

theorem repG_name_eq (h : RepG s L) {r : GARef} (hr : r ∈ s.assets) : (s.asset r).name = some (gname s r) := by
  obtain ⟨a, _, hn⟩ := repG_name_of_mem h hr
  simp [gname, hn]

/-- distinct objects have distinct names -/
theorem repG_gname_inj (h : RepG s L) {r1 r2 : GARef} (h1 : r1 ∈ s.assets) (h2 : r2 ∈ s.assets)
    (hn : gname s r1 = gname s r2) : r1 = r2 :=
  inj_on_of_nodup_map (repG_objnames_nodup h) r1 h1 r2 h2 (by rw [repG_name_eq h h1, repG_name_eq h h2, hn])

theorem findAsset_of_mem (hnd : (L.assets.map (·.name)).Nodup) {a : AssetDecl} (ha : a ∈ L.assets) :
    L.findAsset a.name = some a := by
  have hs := findAsset_isSome_of_mem ha
  cases hf : L.findAsset a.name with
  | none => rw [hf] at hs; cases hs
  | some a' =>
    have := inj_on_of_nodup_map hnd a' (findAsset_mem hf) a ha (findAsset_name hf)
    rw [this]

/-- the declaration an asset object stands for -/
theorem repG_decl_of_mem (h : RepG s L) {r : GARef} (hr : r ∈ s.assets) :
    ∃ a, L.findAsset (gname s r) = some a ∧ a.name = gname s r := by
  obtain ⟨a, ha, hn⟩ := repG_name_of_mem h hr
  have : gname s r = a.name := by simp [gname, hn]
  rw [this]
  exact ⟨a, findAsset_of_mem h.names_nodup ha, rfl⟩

theorem repG_refOf_eq_some_iff (h : RepG s L) (n : String) (r : GARef) :
    refOf s n = some r ↔ r ∈ s.assets ∧ gname s r = n := by
  constructor
  · intro hf
    have hm := List.mem_of_find?_eq_some hf
    have hp := List.find?_some hf
    refine ⟨hm, ?_⟩
    have : (s.asset r).name = some n := by simpa using hp
    simp [gname, this]
  · rintro ⟨hr, rfl⟩
    cases hf : refOf s (gname s r) with
    | none =>
      have := List.find?_eq_none.1 hf r hr
      simp [repG_name_eq h hr] at this
    | some r' =>
      have hm := List.mem_of_find?_eq_some hf
      have hp := List.find?_some hf
      have hn : (s.asset r').name = some (gname s r) := by simpa using hp
      have : gname s r' = gname s r := by simp [gname, hn]
      rw [repG_gname_inj h hm hr this]

theorem repG_refOf_gname (h : RepG s L) {r : GARef} (hr : r ∈ s.assets) : refOf s (gname s r) = some r :=
  (repG_refOf_eq_some_iff h _ r).2 ⟨hr, rfl⟩

/-- a name has an asset object iff it is declared -/
theorem repG_refOf_isSome_iff (h : RepG s L) (n : String) :
    (refOf s n).isSome = true ↔ (L.findAsset n).isSome = true := by
  constructor
  · intro hs
    cases hf : refOf s n with
    | none => rw [hf] at hs; cases hs
    | some r =>
      obtain ⟨hr, rfl⟩ := (repG_refOf_eq_some_iff h n r).1 hf
      obtain ⟨a, ha, _⟩ := repG_decl_of_mem h hr
      rw [ha]; rfl
  · intro hs
    cases hf : L.findAsset n with
    | none => rw [hf] at hs; cases hs
    | some a =>
      have hm := findAsset_mem hf
      have hn := findAsset_name hf
      have : some a.name ∈ L.assets.map (fun a => some a.name) := List.mem_map.2 ⟨a, hm, rfl⟩
      rw [← h.names] at this
      obtain ⟨r, hr, hrn⟩ := List.mem_map.1 this
      have : gname s r = n := by simp [gname, hrn, hn]
      rw [(repG_refOf_eq_some_iff h n r).2 ⟨hr, this⟩]; rfl

/-- `==` on two asset objects of the graph compares their names; the parameter `deepEq` is never consulted -/
theorem repG_lgAssetEq_iff (h : RepG s L) {x y : GARef} (hx : x ∈ s.assets) (hy : y ∈ s.assets) :
    lgAssetEq s x y = decide (gname s x = gname s y) := by
  unfold lgAssetEq
  by_cases hxy : x = y
  · subst hxy; simp
  · have hne : gname s x ≠ gname s y := fun hn => hxy (repG_gname_inj h hx hy hn)
    have : ((s.asset x).name == (s.asset y).name) = false := by
      rw [repG_name_eq h hx, repG_name_eq h hy]; simp [hne]
    simp [hxy, this, hne]


/-! ## `is_subasset_of` -/

/-- the body of the translated `while current_assets:` of `is_subasset_of` -/
def subBody (s : GH) (b : GARef) (_x : Nat) (st : Option Bool × List GARef) :
    Except PyErr (ForInStep (Option Bool × List GARef)) :=
  if (!!st.2.isEmpty) = true then pure (ForInStep.done (none, st.2))
  else do
    let p_1 ← pyPop st.2
    if lgAssetEq s p_1.1 b = true then pure (ForInStep.done (some true, p_1.2))
    else pure (ForInStep.yield (none, p_1.2 ++ (s.asset p_1.1).super_assets))

theorem pyPop_singleton {α} (x : α) : pyPop [x] = .ok (x, []) := rfl

theorem sub_loop_empty (b : GARef) (l : List Nat) :
    forIn l ((none : Option Bool), ([] : List GARef)) (subBody s b) = .ok (none, []) := by
  cases l with
  | nil => rfl
  | cons x l => rfl

/-- the loop of `is_subasset_of`, started on the object `r` with enough fuel for the ancestor walk from `r`:
the work list ends empty, the answer is found iff the target's name is on the chain -/
theorem sub_loop (h : RepG s L) {b : GARef} (hb : b ∈ s.assets) :
    ∀ (l : List Nat) (r : GARef), r ∈ s.assets → L.chainOK l.length (gname s r) = true →
      forIn l ((none : Option Bool), [r]) (subBody s b) =
        .ok (if (L.chain l.length (gname s r)).any (·.name = gname s b) = true then some true else none, []) := by
  intro l
  induction l with
  | nil => intro r _ hok; simp [Lang.chainOK] at hok
  | cons x l ih =>
    intro r hr hok
    obtain ⟨a, hfa, han⟩ := repG_decl_of_mem h hr
    rw [List.forIn_cons]
    simp only [List.length_cons, Lang.chain, Lang.chainOK, hfa] at hok ⊢
    have hbody : subBody s b x (none, [r]) =
        if gname s r = gname s b then .ok (ForInStep.done (some true, []))
        else .ok (ForInStep.yield (none, (s.asset r).super_assets)) := by
      simp only [subBody, List.isEmpty_cons, Bool.not_false, Bool.not_true, Bool.false_eq_true, if_false,
        pyPop_singleton, bind, Except.bind, pure, Except.pure, repG_lgAssetEq_iff h hr hb, decide_eq_true_eq,
        List.nil_append]
    rw [hbody]
    by_cases hn : gname s r = gname s b
    · simp [hn, han, bind, Except.bind, pure, Except.pure]
    · rw [if_neg hn]
      simp only [bind, Except.bind]
      rw [h.supers r hr]
      simp only [superOf, hfa, Option.bind_some, List.any_cons, han, hn, decide_false, Bool.false_or]
      cases hsa : a.superAsset with
      | none => simp [sub_loop_empty]
      | some t =>
        rw [hsa] at hok
        simp only at hok
        have hdecl : (L.findAsset t).isSome = true :=
          (supersOk_iff L).1 h.supers_ok a (findAsset_mem hfa) t hsa
        have hsome := (repG_refOf_isSome_iff h t).2 hdecl
        cases hrf : refOf s t with
        | none => rw [hrf] at hsome; cases hsome
        | some r' =>
          obtain ⟨hr', hn'⟩ := (repG_refOf_eq_some_iff h t r').1 hrf
          subst hn'
          simp only [Option.bind_some, hrf, Option.toList_some]
          exact ih r' hr' hok

/-- **tie for `LanguageGraphAsset.is_subasset_of`**: when the ancestor walk from `a` is not cut by the fuel (no
`extends` cycle above it), the translated `while` loop does not exhaust its unrolling bound, does not raise,
and computes the hand model's `isSub` on the names -/
theorem is_subasset_of_tie (h : RepG s L) {a b : GARef}
    (hok : L.chainOK (L.assets.length + 1) (gname s a) = true) (ha : a ∈ s.assets) (hb : b ∈ s.assets) :
    lgasset_is_subasset_of s a b = .ok (L.isSub (gname s a) (gname s b)) := by
  unfold lgasset_is_subasset_of
  show (forIn (List.range (pyWhileFuel s)) ((none : Option Bool), [a]) (subBody s b) >>= _) = _
  have hlen : (List.range (pyWhileFuel s)).length = L.assets.length + 1 := by
    simp [pyWhileFuel, repG_length_eq h]
  rw [sub_loop h hb _ a ha (by rw [hlen]; exact hok), hlen]
  unfold Lang.isSub
  cases (L.chain (L.assets.length + 1) (gname s a)).any (·.name = gname s b) <;> rfl

/-! ## `get_all_superassets` -/

/-- the body of the translated `while current_assets:` of `get_all_superassets` -/
def supBody (s : GH) (_x : Nat) (st : List GARef × List GARef) :
    Except PyErr (ForInStep (List GARef × List GARef)) :=
  if (!!st.1.isEmpty) = true then pure (ForInStep.done (st.1, st.2))
  else do
    let p_1 ← pyPop st.1
    pure (ForInStep.yield (p_1.2 ++ (s.asset p_1.1).super_assets, st.2 ++ (s.asset p_1.1).super_assets))

theorem sup_loop_empty (acc : List GARef) (l : List Nat) :
    forIn l (([] : List GARef), acc) (supBody s) = .ok ([], acc) := by
  cases l with
  | nil => rfl
  | cons x l => rfl

/-- the loop of `get_all_superassets`, started on the object `r`: the work list ends empty and the objects
appended to the result are those of the proper ancestors, in chain order -/
theorem sup_loop (h : RepG s L) :
    ∀ (l : List Nat) (r : GARef) (acc : List GARef), r ∈ s.assets → L.chainOK l.length (gname s r) = true →
      ∃ rs, forIn l ([r], acc) (supBody s) = .ok ([], acc ++ rs) ∧
        (r :: rs).map (gname s) = (L.chain l.length (gname s r)).map (·.name) ∧ ∀ x ∈ rs, x ∈ s.assets := by
  intro l
  induction l with
  | nil => intro r _ _ hok; simp [Lang.chainOK] at hok
  | cons x l ih =>
    intro r acc hr hok
    obtain ⟨a, hfa, han⟩ := repG_decl_of_mem h hr
    rw [List.forIn_cons]
    simp only [List.length_cons, Lang.chain, Lang.chainOK, hfa] at hok ⊢
    have hbody : supBody s x ([r], acc) =
        .ok (ForInStep.yield ((s.asset r).super_assets, acc ++ (s.asset r).super_assets)) := by
      simp only [supBody, List.isEmpty_cons, Bool.not_false, Bool.not_true, Bool.false_eq_true, if_false,
        pyPop_singleton, bind, Except.bind, pure, Except.pure, List.nil_append]
    rw [hbody]
    simp only [bind, Except.bind]
    rw [h.supers r hr]
    simp only [superOf, hfa, Option.bind_some]
    cases hsa : a.superAsset with
    | none =>
      refine ⟨[], ?_, ?_, ?_⟩
      · simp [sup_loop_empty]
      · simp [han]
      · intro x hx; cases hx
    | some t =>
      rw [hsa] at hok
      simp only at hok
      have hdecl : (L.findAsset t).isSome = true :=
        (supersOk_iff L).1 h.supers_ok a (findAsset_mem hfa) t hsa
      have hsome := (repG_refOf_isSome_iff h t).2 hdecl
      cases hrf : refOf s t with
      | none => rw [hrf] at hsome; cases hsome
      | some r' =>
        obtain ⟨hr', hn'⟩ := (repG_refOf_eq_some_iff h t r').1 hrf
        subst hn'
        simp only [Option.bind_some, hrf, Option.toList_some]
        obtain ⟨rs, h1, h2, h3⟩ := ih r' (acc ++ [r']) hr' hok
        refine ⟨r' :: rs, ?_, ?_, ?_⟩
        · rw [h1]; simp
        · rw [List.map_cons, h2, List.map_cons, han]
        · intro x hx
          rcases List.mem_cons.1 hx with rfl | hx
          · exact hr'
          · exact h3 x hx

/-- **tie for `LanguageGraphAsset.get_all_superassets`**: it returns (never raises, never exhausts the unrolling
bound) asset objects of the graph whose names are the hand model's `supers`, in the same order -/
theorem get_all_superassets_tie (h : RepG s L) {a : GARef}
    (hok : L.chainOK (L.assets.length + 1) (gname s a) = true) (ha : a ∈ s.assets) :
    ∃ l, lgasset_get_all_superassets s a = .ok l ∧ l.map (gname s) = LG.supers L (gname s a) ∧
      ∀ x ∈ l, x ∈ s.assets := by
  have hlen : (List.range (pyWhileFuel s)).length = L.assets.length + 1 := by
    simp [pyWhileFuel, repG_length_eq h]
  obtain ⟨rs, h1, h2, h3⟩ := sup_loop h (List.range (pyWhileFuel s)) a [a] ha (by rw [hlen]; exact hok)
  refine ⟨a :: rs, ?_, ?_, ?_⟩
  · unfold lgasset_get_all_superassets
    show (forIn (List.range (pyWhileFuel s)) ([a], [a]) (supBody s) >>= _) = _
    rw [h1]
    rfl
  · rw [h2, hlen]; rfl
  · intro x hx
    rcases List.mem_cons.1 hx with rfl | hx
    · exact ha
    · exact h3 x hx

/-! ## `get_asset_by_name` -/

/-- a `for` loop that returns the first element satisfying a test -/
theorem forIn_find_id {α : Type} (p : α → Bool) (l : List α) :
    (forIn (m := Id) l ((none : Option (Option α)), ()) (fun x _ =>
      if p x = true then pure (ForInStep.done (some (some x), ())) else pure (ForInStep.yield (none, ())))) =
    (pure (match l.find? p with | some x => (some (some x), ()) | none => (none, ())) : Id _) := by
  induction l with
  | nil => rfl
  | cons x l ih =>
    rw [List.forIn_cons, List.find?_cons]
    cases hp : p x
    · simp only [Bool.false_eq_true, if_false]
      exact ih
    · rfl

/-- **tie for `LanguageGraph.get_asset_by_name`** (no hypothesis): the first asset object with that name -/
theorem get_asset_by_name_eq (s : GH) (n : String) : lg_get_asset_by_name s n = refOf s n := by
  unfold lg_get_asset_by_name refOf
  show Id.run (forIn (m := Id) s.assets ((none : Option (Option GARef)), ()) _ >>= _) = _
  rw [forIn_find_id (fun r => (s.asset r).name == some n)]
  cases List.find? (fun r => (s.asset r).name == some n) s.assets <;> rfl

/-- … and in a represented heap: the object of the declaration with that name, `None` iff it is not declared -/
theorem get_asset_by_name_tie (h : RepG s L) (n : String) :
    (∀ r, lg_get_asset_by_name s n = some r ↔ r ∈ s.assets ∧ gname s r = n) ∧
    ((lg_get_asset_by_name s n).isSome = (L.findAsset n).isSome) := by
  rw [get_asset_by_name_eq]
  refine ⟨fun r => repG_refOf_eq_some_iff h n r, ?_⟩
  have := repG_refOf_isSome_iff h n
  cases h1 : (refOf s n).isSome <;> cases h2 : (L.findAsset n).isSome <;> simp_all

/-! ## the association queries -/

/-- `contains_fieldname` (no hypothesis) -/
theorem contains_fieldname_eq (s : GH) (c : GCRef) (f : String) :
    lgassoc_contains_fieldname s c f =
      (decide ((s.assoc c).left_field.fieldname = f) || decide ((s.assoc c).right_field.fieldname = f)) := by
  unfold lgassoc_contains_fieldname
  by_cases h1 : (s.assoc c).left_field.fieldname = f <;> by_cases h2 : (s.assoc c).right_field.fieldname = f <;>
    simp [h1, h2, Id.run, pure]

/-- `get_opposite_fieldname` (no hypothesis): the other side's field name; the left field is tested first; it
raises iff the name is neither side's -/
theorem get_opposite_fieldname_eq (s : GH) (c : GCRef) (f : String) :
    lgassoc_get_opposite_fieldname s c f =
      if (s.assoc c).left_field.fieldname = f then .ok (s.assoc c).right_field.fieldname
      else if (s.assoc c).right_field.fieldname = f then .ok (s.assoc c).left_field.fieldname
      else .error .other := by
  unfold lgassoc_get_opposite_fieldname
  by_cases h1 : (s.assoc c).left_field.fieldname = f <;> by_cases h2 : (s.assoc c).right_field.fieldname = f <;>
    simp [h1, h2, pure, Except.pure, throw, throwThe, MonadExceptOf.throw]

/-- **tie for `contains_asset`** -/
theorem contains_asset_tie (h : RepG s L) {c : GCRef} {x : GARef}
    (hok : L.chainOK (L.assets.length + 1) (gname s x) = true) (hx : x ∈ s.assets)
    (hl : (s.assoc c).left_field.asset ∈ s.assets) (hr : (s.assoc c).right_field.asset ∈ s.assets) :
    lgassoc_contains_asset s c x =
      .ok (L.isSub (gname s x) (declOf s c).leftAsset || L.isSub (gname s x) (declOf s c).rightAsset) := by
  unfold lgassoc_contains_asset
  rw [is_subasset_of_tie h hok hx hl, is_subasset_of_tie h hok hx hr]
  simp only [declOf]
  cases L.isSub (gname s x) (gname s (s.assoc c).left_field.asset) <;>
    cases L.isSub (gname s x) (gname s (s.assoc c).right_field.asset) <;> rfl

/-- **tie for `get_opposite_asset`**: the asset object of the other side (the left side is tested first), `None`
when the asset is on neither side -/
theorem get_opposite_asset_tie (h : RepG s L) {c : GCRef} {x : GARef}
    (hok : L.chainOK (L.assets.length + 1) (gname s x) = true) (hx : x ∈ s.assets)
    (hl : (s.assoc c).left_field.asset ∈ s.assets) (hr : (s.assoc c).right_field.asset ∈ s.assets) :
    lgassoc_get_opposite_asset s c x =
      .ok (if L.isSub (gname s x) (declOf s c).leftAsset = true then some (s.assoc c).right_field.asset
           else if L.isSub (gname s x) (declOf s c).rightAsset = true then some (s.assoc c).left_field.asset
           else none) := by
  unfold lgassoc_get_opposite_asset
  rw [is_subasset_of_tie h hok hx hl, is_subasset_of_tie h hok hx hr]
  simp only [declOf]
  by_cases e1 : L.isSub (gname s x) (gname s (s.assoc c).left_field.asset) = true <;>
    by_cases e2 : L.isSub (gname s x) (gname s (s.assoc c).right_field.asset) = true <;>
    simp [e1, e2, bind, Except.bind, pure, Except.pure]

/-! ## `get_association_by_fields_and_assets` -/

/-- the test of the hand model's `lookupAssoc` -/
def lookupPredB (L : Lang) (f1 f2 t1 t2 : String) (a : AssocDecl) : Bool :=
  (a.leftField = f1 && a.rightField = f2 && L.isSub t1 a.leftAsset && L.isSub t2 a.rightAsset) ||
  (a.leftField = f2 && a.rightField = f1 && L.isSub t2 a.leftAsset && L.isSub t1 a.rightAsset)

theorem lookupAssoc_eq (L : Lang) (nodes : List AssocDecl) (f1 f2 t1 t2 : String) :
    LG.lookupAssoc L nodes f1 f2 t1 t2 =
      if (L.findAsset t1).isNone || (L.findAsset t2).isNone then .error .lookup
      else .ok (nodes.find? (lookupPredB L f1 f2 t1 t2)) := rfl

theorem lookupPredB_iff (L : Lang) (f1 f2 t1 t2 : String) (a : AssocDecl) :
    lookupPredB L f1 f2 t1 t2 a = true ↔ Matches L a f1 f2 t1 t2 :=
  lookupPred_iff L a f1 f2 t1 t2

/-- one orientation of the test inside the loop -/
theorem lookup_cond (h : RepG s L) (hac : Acyclic L) {r1 r2 x y : GARef} (h1 : r1 ∈ s.assets)
    (h2 : r2 ∈ s.assets) (hx : x ∈ s.assets) (hy : y ∈ s.assets) (fa fb f1 f2 : String) :
    (if (fa == f1) = true then
        (if (fb == f2) = true then (do
            let q ← lgasset_is_subasset_of s r1 x
            if q = true then lgasset_is_subasset_of s r2 y else pure false)
         else pure false)
      else pure false : Except PyErr Bool) =
    .ok (decide (fa = f1) && decide (fb = f2) && L.isSub (gname s r1) (gname s x) &&
          L.isSub (gname s r2) (gname s y)) := by
  rw [is_subasset_of_tie h (hac _) h1 hx, is_subasset_of_tie h (hac _) h2 hy]
  by_cases e1 : fa = f1 <;> by_cases e2 : fb = f2 <;>
    cases L.isSub (gname s r1) (gname s x) <;> simp [e1, e2, bind, Except.bind, pure, Except.pure]

theorem ite_or_step {σ : Type} (A B : Bool) (x y : σ) :
    (if A = true then (Except.ok (ForInStep.done x) : Except PyErr (ForInStep σ))
     else if B = true then Except.ok (ForInStep.done x) else Except.ok (ForInStep.yield y)) =
    Except.ok (if (A || B) = true then ForInStep.done x else ForInStep.yield y) := by
  cases A <;> cases B <;> rfl

/-- a `for` loop in `Except` that returns the first element satisfying a test -/
theorem forIn_find_except {α : Type} (p : α → Bool) (l : List α)
    (body : α → Option (Option α) × Unit → Except PyErr (ForInStep (Option (Option α) × Unit)))
    (hbody : ∀ x ∈ l, body x (none, ()) =
      .ok (if p x = true then ForInStep.done (some (some x), ()) else ForInStep.yield (none, ()))) :
    forIn l ((none : Option (Option α)), ()) body =
      .ok (match l.find? p with | some x => (some (some x), ()) | none => (none, ())) := by
  induction l with
  | nil => rfl
  | cons x l ih =>
    rw [List.forIn_cons, List.find?_cons, hbody x List.mem_cons_self]
    cases hp : p x
    · simp only [Bool.false_eq_true, if_false, bind, Except.bind]
      exact ih (fun y hy => hbody y (List.mem_cons_of_mem _ hy))
    · rfl

/-- **tie for `get_association_by_fields_and_assets`, on the heap**: `LookupError` iff one of the two asset
type names is not declared; otherwise the first association object (in creation order) that passes the hand
model's test — read through `declOf` — or `None` -/
theorem lookup_tie_find (hG : RepG s L) (hac : Acyclic L)
    (hends : ∀ c ∈ s.associations, (s.assoc c).left_field.asset ∈ s.assets ∧ (s.assoc c).right_field.asset ∈ s.assets)
    (f1 f2 t1 t2 : String) :
    lg_get_association_by_fields_and_assets s f1 f2 t1 t2 =
      if (L.findAsset t1).isNone || (L.findAsset t2).isNone then .error .lookupError
      else .ok (s.associations.find? (fun c => lookupPredB L f1 f2 t1 t2 (declOf s c))) := by
  unfold lg_get_association_by_fields_and_assets
  have e1 := (get_asset_by_name_tie hG t1).2
  have e2 := (get_asset_by_name_tie hG t2).2
  cases hr1 : lg_get_asset_by_name s t1 with
  | none =>
    rw [hr1] at e1
    have : (L.findAsset t1).isNone = true := by
      cases hf : L.findAsset t1 with
      | none => rfl
      | some a => rw [hf] at e1; cases e1
    simp only [this, Bool.true_or, if_true]
    rfl
  | some r1 =>
    rw [hr1] at e1
    have n1 : (L.findAsset t1).isNone = false := by
      cases hf : L.findAsset t1 with
      | none => rw [hf] at e1; cases e1
      | some a => rfl
    cases hr2 : lg_get_asset_by_name s t2 with
    | none =>
      rw [hr2] at e2
      have : (L.findAsset t2).isNone = true := by
        cases hf : L.findAsset t2 with
        | none => rfl
        | some a => rw [hf] at e2; cases e2
      simp only [this, Bool.or_true, if_true]
      rfl
    | some r2 =>
      rw [hr2] at e2
      have n2 : (L.findAsset t2).isNone = false := by
        cases hf : L.findAsset t2 with
        | none => rw [hf] at e2; cases e2
        | some a => rfl
      obtain ⟨m1, g1⟩ := ((get_asset_by_name_tie hG t1).1 r1).1 hr1
      obtain ⟨m2, g2⟩ := ((get_asset_by_name_tie hG t2).1 r2).1 hr2
      simp only [n1, n2, Bool.or_false, Bool.false_eq_true, if_false]
      show (forIn s.associations ((none : Option (Option GCRef)), ()) _ >>= _) = _
      rw [forIn_find_except (fun c => lookupPredB L f1 f2 t1 t2 (declOf s c))]
      · cases List.find? (fun c => lookupPredB L f1 f2 t1 t2 (declOf s c)) s.associations <;> rfl
      · intro c hc
        obtain ⟨hl, hr⟩ := hends c hc
        rw [lookup_cond hG hac m1 m2 hl hr, lookup_cond hG hac m2 m1 hl hr]
        simp only [lookupPredB, declOf, g1, g2, bind, Except.bind, pure, Except.pure]
        exact ite_or_step _ _ _ _

/-! ### … and the hand model's `lookupAssoc` over the association nodes -/

theorem zip_find_snd {α β : Type} (Q : β → Bool) : ∀ (cs : List α) (ds : List β), cs.length = ds.length →
    ((cs.zip ds).find? (fun p => Q p.2)).map (·.2) = ds.find? Q := by
  intro cs
  induction cs with
  | nil => intro ds h; cases ds with | nil => rfl | cons d ds => cases h
  | cons c cs ih =>
    intro ds h
    cases ds with
    | nil => cases h
    | cons d ds =>
      simp only [List.zip_cons_cons, List.find?_cons]
      cases Q d
      · exact ih ds (by simpa using h)
      · rfl

theorem zip_find_fst {α β : Type} (P : α → Bool) (Q : β → Bool) : ∀ (cs : List α) (ds : List β),
    cs.length = ds.length → (∀ p ∈ cs.zip ds, P p.1 = Q p.2) →
    ((cs.zip ds).find? (fun p => Q p.2)).map (·.1) = cs.find? P := by
  intro cs
  induction cs with
  | nil => intro ds h _; cases ds with | nil => rfl | cons d ds => cases h
  | cons c cs ih =>
    intro ds h hpq
    cases ds with
    | nil => cases h
    | cons d ds =>
      simp only [List.zip_cons_cons, List.find?_cons]
      have := hpq (c, d) (by simp)
      simp only at this
      rw [this]
      cases Q d
      · exact ih ds (by simpa using h) (fun p hp => hpq p (by simp [hp]))
      · rfl

/-- an association object passes the test iff its node does -/
theorem lookupPredB_agrees {nodes : List AssocDecl} (hA : RepA s L nodes) (f1 f2 t1 t2 : String) :
    ∀ p ∈ s.associations.zip nodes,
      lookupPredB L f1 f2 t1 t2 (declOf s p.1) = lookupPredB L f1 f2 t1 t2 p.2 := by
  intro p hp
  obtain ⟨_, h2, h3, _, h5, _, h7⟩ := hA.agrees p hp
  simp only [lookupPredB, declOf, h2, h3, h5, h7]

theorem repA_ends {nodes : List AssocDecl} (hA : RepA s L nodes) :
    ∀ c ∈ s.associations, (s.assoc c).left_field.asset ∈ s.assets ∧ (s.assoc c).right_field.asset ∈ s.assets := by
  intro c hc
  obtain ⟨j, hj, rfl⟩ := List.getElem_of_mem hc
  have hj' : j < nodes.length := by rw [← hA.length_eq]; exact hj
  have hm : (s.associations[j], nodes[j]) ∈ s.associations.zip nodes := by
    rw [List.mem_iff_getElem]
    exact ⟨j, by rw [List.length_zip]; omega, by simp⟩
  obtain ⟨_, _, _, h4, _, h6, _⟩ := hA.agrees _ hm
  exact ⟨h4, h6⟩

/-- the pair (association object, association node) the lookup finds: the first node, in creation order, that
passes the hand model's test, with its association object -/
def pairFound (s : GH) (L : Lang) (nodes : List AssocDecl) (f1 f2 t1 t2 : String) : Option (GCRef × AssocDecl) :=
  (s.associations.zip nodes).find? (fun p => lookupPredB L f1 f2 t1 t2 p.2)

/-- **tie for `get_association_by_fields_and_assets`**: the translated lookup raises `LookupError` exactly when
the hand model's `lookupAssoc` gives `.error .lookup`; otherwise the two return the two components of one and
the same pair (association object `j`, node `j`) — or both nothing -/
theorem lookup_tie {nodes : List AssocDecl} (hG : RepG s L) (hA : RepA s L nodes) (hac : Acyclic L)
    (f1 f2 t1 t2 : String) :
    (lg_get_association_by_fields_and_assets s f1 f2 t1 t2, LG.lookupAssoc L nodes f1 f2 t1 t2) =
      if (L.findAsset t1).isNone || (L.findAsset t2).isNone then (.error .lookupError, .error .lookup)
      else (.ok ((pairFound s L nodes f1 f2 t1 t2).map (·.1)), .ok ((pairFound s L nodes f1 f2 t1 t2).map (·.2))) := by
  rw [lookup_tie_find hG hac (repA_ends hA), lookupAssoc_eq]
  split
  · rfl
  · unfold pairFound
    rw [zip_find_snd _ _ _ hA.length_eq,
      zip_find_fst (fun c => lookupPredB L f1 f2 t1 t2 (declOf s c)) _ _ _ hA.length_eq
        (lookupPredB_agrees hA f1 f2 t1 t2)]

end rep

/-! ## `get_all_subassets`: a work-list walk over a forest -/

/-- the body of the translated `while current_assets:` of `get_all_subassets`, for an arbitrary child function -/
def walkBody (kids : GARef → List GARef) (_x : Nat) (st : List GARef × List GARef) :
    Except PyErr (ForInStep (List GARef × List GARef)) :=
  if (!!st.1.isEmpty) = true then pure (ForInStep.done (st.1, st.2))
  else do
    let p_1 ← pyPop st.1
    pure (ForInStep.yield (p_1.2 ++ kids p_1.1, st.2 ++ kids p_1.1))

theorem pyPop_snoc {α} (l : List α) (x : α) : pyPop (l ++ [x]) = .ok (x, l) := by
  simp [pyPop]

/-- the invariant of the walk from `a`: `W` work list, `S` result list; `U` the universe (all asset objects), `D`
"is a descendant of `a`" -/
structure WInv (kids : GARef → List GARef) (U : List GARef) (a : GARef) (D : GARef → Prop)
    (W S : List GARef) : Prop where
  wS : ∀ y ∈ W, y ∈ S
  wnd : W.Nodup
  snd : S.Nodup
  sU : ∀ y ∈ S, y ∈ U
  sD : ∀ y ∈ S, D y
  done : ∀ y ∈ S, y ∉ W → ∀ z ∈ kids y, z ∈ S
  todo : ∀ y ∈ W, ∀ z ∈ kids y, z ∉ S
  par : ∀ z ∈ S, z = a ∨ ∃ y ∈ S, z ∈ kids y
  aS : a ∈ S

/-- what the walk needs of the child function: a forest below `a` -/
structure Forest (kids : GARef → List GARef) (U : List GARef) (a : GARef) (D : GARef → Prop) : Prop where
  nd : ∀ x ∈ U, (kids x).Nodup
  inU : ∀ x ∈ U, ∀ z ∈ kids x, z ∈ U
  down : ∀ x ∈ U, D x → ∀ z ∈ kids x, D z
  uniq : ∀ x ∈ U, ∀ y ∈ U, ∀ z, z ∈ kids x → z ∈ kids y → x = y
  root : ∀ x ∈ U, D x → a ∉ kids x

theorem winv_step {kids U a D} (hf : Forest kids U a D) {W S : List GARef} {x : GARef}
    (h : WInv kids U a D (W ++ [x]) S) : WInv kids U a D (W ++ kids x) (S ++ kids x) := by
  have hxS : x ∈ S := h.wS x (by simp)
  have hxW : x ∉ W := by
    have := h.wnd
    rw [List.nodup_append] at this
    intro hx; exact this.2.2 x hx x (by simp) rfl
  have hkx : ∀ z ∈ kids x, z ∉ S := h.todo x (by simp)
  have hxU : x ∈ U := h.sU x hxS
  refine ⟨?_, ?_, ?_, ?_, ?_, ?_, ?_, ?_, List.mem_append_left _ h.aS⟩
  · intro y hy
    rcases List.mem_append.1 hy with hy | hy
    · exact List.mem_append_left _ (h.wS y (List.mem_append_left _ hy))
    · exact List.mem_append_right _ hy
  · rw [List.nodup_append]
    refine ⟨(List.nodup_append.1 h.wnd).1, hf.nd x hxU, ?_⟩
    intro y hy z hz hyz
    subst hyz
    exact hkx y hz (h.wS y (List.mem_append_left _ hy))
  · rw [List.nodup_append]
    refine ⟨h.snd, hf.nd x hxU, ?_⟩
    intro y hy z hz hyz
    subst hyz
    exact hkx y hz hy
  · intro y hy
    rcases List.mem_append.1 hy with hy | hy
    · exact h.sU y hy
    · exact hf.inU x hxU y hy
  · intro y hy
    rcases List.mem_append.1 hy with hy | hy
    · exact h.sD y hy
    · exact hf.down x hxU (h.sD x hxS) y hy
  · intro y hy hyW z hz
    rcases List.mem_append.1 hy with hy | hy
    · by_cases hyx : y = x
      · subst hyx; exact List.mem_append_right _ hz
      · have : y ∉ W ++ [x] := by
          intro hm
          rcases List.mem_append.1 hm with hm | hm
          · exact hyW (List.mem_append_left _ hm)
          · exact hyx (by simpa using hm)
        exact List.mem_append_left _ (h.done y hy this z hz)
    · exact absurd (List.mem_append_right _ hy) hyW
  · intro y hy z hz hzS
    rcases List.mem_append.1 hy with hy | hy
    · -- `y` was already waiting
      have hyx : y ≠ x := fun e => hxW (e ▸ hy)
      rcases List.mem_append.1 hzS with hzS | hzS
      · exact h.todo y (List.mem_append_left _ hy) z hz hzS
      · exact hyx (hf.uniq y (h.sU y (h.wS y (List.mem_append_left _ hy))) x hxU z hz hzS)
    · -- `y` is a child of `x`, so not in `S`
      have hyS : y ∉ S := hkx y hy
      rcases List.mem_append.1 hzS with hzS | hzS
      · rcases h.par z hzS with rfl | ⟨y', hy', hzy'⟩
        · exact hf.root y (hf.inU x hxU y hy) (hf.down x hxU (h.sD x hxS) y hy) hz
        · have := hf.uniq y (hf.inU x hxU y hy) y' (h.sU y' hy') z hz hzy'
          subst this
          exact hyS hy'
      · have := hf.uniq y (hf.inU x hxU y hy) x hxU z hz hzS
        subst this
        exact hyS hxS
  · intro z hz
    rcases List.mem_append.1 hz with hz | hz
    · rcases h.par z hz with e | ⟨y, hy, hzy⟩
      · exact .inl e
      · exact .inr ⟨y, List.mem_append_left _ hy, hzy⟩
    · exact .inr ⟨x, List.mem_append_left _ hxS, hz⟩

theorem walk_loop {kids U a D} (hf : Forest kids U a D) :
    ∀ (l : List Nat) (W S : List GARef), WInv kids U a D W S → U.length + 1 + W.length ≤ l.length + S.length →
      ∃ S', forIn l (W, S) (walkBody kids) = .ok ([], S') ∧ WInv kids U a D [] S' := by
  intro l
  induction l with
  | nil =>
    intro W S h hlen
    have : S.length ≤ U.length := List.Nodup.length_le_of_subset h.snd (fun y hy => h.sU y hy)
    simp at hlen
    omega
  | cons i l ih =>
    intro W S h hlen
    rcases List.eq_nil_or_concat W with rfl | ⟨W', x, rfl⟩
    · exact ⟨S, rfl, h⟩
    · rw [List.concat_eq_append] at h hlen ⊢
      have hbody : walkBody kids i (W' ++ [x], S) = .ok (ForInStep.yield (W' ++ kids x, S ++ kids x)) := by
        simp [walkBody, pyPop_snoc, bind, Except.bind, pure, Except.pure]
      rw [List.forIn_cons, hbody]
      simp only [bind, Except.bind]
      refine ih _ _ (winv_step hf h) ?_
      simp only [List.length_append, List.length_cons, List.length_nil] at hlen ⊢
      omega

section subs
variable {s : GH} {L : Lang}

/-- the object `x` is listed as super asset of the object `z` iff `z`'s type extends `x`'s -/
theorem mem_super_assets_iff (h : RepG s L) {z x : GARef} (hz : z ∈ s.assets) :
    x ∈ (s.asset z).super_assets ↔ x ∈ s.assets ∧ Extends L (gname s z) (gname s x) := by
  rw [h.supers z hz]
  obtain ⟨d, hd, _⟩ := repG_decl_of_mem h hz
  simp only [superOf, hd, Option.bind_some, Option.mem_toList]
  constructor
  · intro hx
    cases hsa : d.superAsset with
    | none => rw [hsa] at hx; cases hx
    | some t =>
      rw [hsa] at hx
      obtain ⟨hxU, hn⟩ := (repG_refOf_eq_some_iff h t x).1 hx
      exact ⟨hxU, d, hd, by rw [hsa, hn]⟩
  · rintro ⟨hxU, d', hd', hsa⟩
    rw [hd] at hd'; cases hd'
    rw [hsa]
    exact repG_refOf_gname h hxU

theorem mem_sub_assets_iff (h : RepG s L) {z x : GARef} (hx : x ∈ s.assets) :
    z ∈ (s.asset x).sub_assets ↔ z ∈ s.assets ∧ Extends L (gname s z) (gname s x) := by
  rw [h.subs x hx, List.mem_filter, List.contains_iff_mem]
  constructor
  · rintro ⟨hz, hm⟩; exact ⟨hz, ((mem_super_assets_iff h hz).1 hm).2⟩
  · rintro ⟨hz, he⟩; exact ⟨hz, (mem_super_assets_iff h hz).2 ⟨hx, he⟩⟩

theorem isSub_of_extends (h : RepG s L) (hac : Acyclic L) {z x : GARef} (hz : z ∈ s.assets) (hx : x ∈ s.assets)
    (he : Extends L (gname s z) (gname s x)) : L.isSub (gname s z) (gname s x) = true := by
  obtain ⟨dz, hdz, _⟩ := repG_decl_of_mem h hz
  obtain ⟨dx, hdx, _⟩ := repG_decl_of_mem h hx
  exact (isSub_iff L _ _ (hac _)).2 ⟨by rw [hdz]; rfl, by rw [hdx]; rfl, .single he⟩

/-- the `sub_assets` lists form a forest below every asset object of an acyclic represented graph -/
theorem forest_sub_assets (h : RepG s L) (hac : Acyclic L) (a : GARef) :
    Forest (fun x => (s.asset x).sub_assets) s.assets a (fun y => L.isSub (gname s y) (gname s a) = true) where
  nd := by
    intro x hx
    rw [h.subs x hx]
    exact List.Nodup.sublist List.filter_sublist h.refs_nodup
  inU := fun x hx z hz => ((mem_sub_assets_iff h hx).1 hz).1
  down := by
    intro x hx hD z hz
    obtain ⟨hzU, he⟩ := (mem_sub_assets_iff h hx).1 hz
    exact isSub_trans L _ _ _ (hac _) (isSub_of_extends h hac hzU hx he) hD
  uniq := by
    intro x hx y hy z hzx hzy
    obtain ⟨_, d, hd, hsa⟩ := (mem_sub_assets_iff h hx).1 hzx
    obtain ⟨_, d', hd', hsa'⟩ := (mem_sub_assets_iff h hy).1 hzy
    rw [hd] at hd'; cases hd'
    rw [hsa] at hsa'
    exact repG_gname_inj h hx hy (Option.some.inj hsa')
  root := by
    intro x hx hD hax
    obtain ⟨_, he⟩ := (mem_sub_assets_iff h hx).1 hax
    exact (acyclic_iff_no_cycle L).1 hac _ (TC.of_head_rtc he (isSub_rtc hD).2)

/-- a result list that contains `a` and is closed under `sub_assets` contains every descendant -/
theorem closed_contains_desc (h : RepG s L) {a : GARef} {S : List GARef} (haS : a ∈ S)
    (hS : ∀ y ∈ S, y ∈ s.assets) (hcl : ∀ y ∈ S, ∀ z ∈ (s.asset y).sub_assets, z ∈ S) :
    ∀ t u, RTC (Extends L) t u → u = gname s a → ∀ c ∈ s.assets, gname s c = t → c ∈ S := by
  intro t u hr
  induction hr with
  | refl =>
    intro hu c hc hn
    rw [repG_gname_inj h hc (hS a haS) (hn.trans hu)]
    exact haS
  | @head t y u he _ ih =>
    intro hu c hc hn
    subst hn
    obtain ⟨d, hd, hsa⟩ := he
    have hdecl : (L.findAsset y).isSome = true := (supersOk_iff L).1 h.supers_ok d (findAsset_mem hd) y hsa
    have hsome := (repG_refOf_isSome_iff h y).2 hdecl
    cases hrf : refOf s y with
    | none => rw [hrf] at hsome; cases hsome
    | some r =>
      obtain ⟨hr, hn⟩ := (repG_refOf_eq_some_iff h y r).1 hrf
      have hrS := ih hu r hr hn
      exact hcl r hrS c ((mem_sub_assets_iff h hr).2 ⟨hc, d, hd, by rw [hsa, hn]⟩)

/-- **tie for `LanguageGraphAsset.get_all_subassets`**: in an acyclic represented graph it returns (never
raises, never exhausts the unrolling bound) a duplicate-free list of asset objects of the graph: exactly those
whose type is the asset's type or extends it (the hand model's `isSub`) -/
theorem get_all_subassets_tie (h : RepG s L) (hac : Acyclic L) {a : GARef} (ha : a ∈ s.assets) :
    ∃ l, lgasset_get_all_subassets s a = .ok l ∧ l.Nodup ∧ (∀ c ∈ l, c ∈ s.assets) ∧
      ∀ c ∈ s.assets, (c ∈ l ↔ L.isSub (gname s c) (gname s a) = true) := by
  have hf := forest_sub_assets h hac a
  obtain ⟨da, hda, _⟩ := repG_decl_of_mem h ha
  have hDa : L.isSub (gname s a) (gname s a) = true := isSub_refl L _ (by rw [hda]; rfl)
  have h0 : WInv (fun x => (s.asset x).sub_assets) s.assets a (fun y => L.isSub (gname s y) (gname s a) = true)
      [a] [a] := by
    refine ⟨fun y hy => hy, by simp, by simp, ?_, ?_, ?_, ?_, ?_, by simp⟩
    · intro y hy; rw [List.mem_singleton.1 hy]; exact ha
    · intro y hy; rw [List.mem_singleton.1 hy]; exact hDa
    · intro y hy hn; exact absurd hy hn
    · intro y hy z hz hzS
      rw [List.mem_singleton.1 hy] at hz
      rw [List.mem_singleton.1 hzS] at hz
      exact hf.root a ha hDa hz
    · intro z hz; exact .inl (List.mem_singleton.1 hz)
  obtain ⟨S', hloop, hinv⟩ := walk_loop hf (List.range (pyWhileFuel s)) [a] [a] h0
    (by simp [pyWhileFuel])
  refine ⟨S', ?_, hinv.snd, hinv.sU, ?_⟩
  · unfold lgasset_get_all_subassets
    show (forIn (List.range (pyWhileFuel s)) ([a], [a]) (walkBody (fun x => (s.asset x).sub_assets)) >>= _) = _
    rw [hloop]
    rfl
  · intro c hc
    constructor
    · exact hinv.sD c
    · intro hD
      exact closed_contains_desc h hinv.aS hinv.sU (fun y hy => hinv.done y hy (by simp)) _ _ (isSub_rtc hD).2 rfl c hc rfl

end subs
/-! ## `heapOfLang` is represented -/
section hol
variable {L : Lang}

theorem name_idx_inj (hnd : (L.assets.map (·.name)).Nodup) {i j : Nat} (hi : i < L.assets.length)
    (hj : j < L.assets.length) (h : L.assets[i].name = L.assets[j].name) : i = j := by
  have := (List.getElem_inj (xs := L.assets.map (·.name)) (i := i) (j := j)
    (h₀ := by simpa using hi) (h₁ := by simpa using hj) hnd).1 (by simpa using h)
  exact this

theorem declIdx_name (hnd : (L.assets.map (·.name)).Nodup) {i : Nat} (hi : i < L.assets.length) :
    declIdx L L.assets[i].name = i := by
  unfold declIdx
  rw [List.findIdx_eq hi]
  refine ⟨by simp, fun j hji => ?_⟩
  have hj : j < L.assets.length := Nat.lt_trans hji hi
  simp only [decide_eq_false_iff_not]
  intro h
  have := name_idx_inj hnd hj hi h
  omega

theorem declIdx_lt_iff (t : String) : declIdx L t < L.assets.length ↔ (L.findAsset t).isSome = true := by
  unfold declIdx Lang.findAsset
  rw [List.findIdx_lt_length, List.find?_isSome]

theorem declIdx_getElem {t : String} (h : declIdx L t < L.assets.length) : L.assets[declIdx L t].name = t := by
  unfold declIdx at h ⊢
  have := List.findIdx_getElem (w := h)
  simpa using this

theorem hol_asset (nodes : List AssocDecl) {i : Nat} (hi : i < L.assets.length) :
    (heapOfLang L nodes).asset i =
      { name := some L.assets[i].name, super_assets := superIdx L i,
        sub_assets := (List.range L.assets.length).filter (fun j => (superIdx L j).contains i),
        is_abstract := some L.assets[i].isAbstract } := by
  simp [heapOfLang, hi]

theorem hol_gname (nodes : List AssocDecl) {i : Nat} (hi : i < L.assets.length) :
    gname (heapOfLang L nodes) i = L.assets[i].name := by
  simp [gname, hol_asset nodes hi]

theorem hol_refOf (nodes : List AssocDecl) (hnd : (L.assets.map (·.name)).Nodup) {t : String}
    (h : declIdx L t < L.assets.length) : refOf (heapOfLang L nodes) t = some (declIdx L t) := by
  unfold refOf
  show (List.range L.assets.length).find? _ = _
  rw [List.find?_range_eq_some]
  refine ⟨?_, List.mem_range.2 h, fun j hj => ?_⟩
  · simp [hol_asset nodes h, declIdx_getElem h]
  · have hjl : j < L.assets.length := Nat.lt_trans hj h
    simp only [hol_asset nodes hjl, Bool.not_eq_eq_eq_not, Bool.not_true, beq_eq_false_iff_ne, ne_eq,
      Option.some.injEq]
    intro hn
    have := declIdx_name hnd hjl
    rw [hn] at this
    omega

/-- **non-vacuity of `RepG`**: for every language with pairwise distinct asset names in which every named super
asset is declared, the heap `heapOfLang L nodes` represents `L` -/
theorem repG_heapOfLang (nodes : List AssocDecl) (hnd : (L.assets.map (·.name)).Nodup)
    (hs : LG.supersOk L = true) : RepG (heapOfLang L nodes) L where
  names := by
    show (List.range L.assets.length).map _ = _
    apply List.ext_getElem
    · simp
    · intro i h1 h2
      have hi : i < L.assets.length := by simpa using h2
      simp [hol_asset nodes hi]
  refs_nodup := List.nodup_range
  names_nodup := hnd
  supers_ok := hs
  supers := by
    intro r hr
    have hi : r < L.assets.length := List.mem_range.1 hr
    rw [hol_gname nodes hi, hol_asset nodes hi]
    have hfa : L.findAsset L.assets[r].name = some L.assets[r] :=
      findAsset_of_mem hnd (List.getElem_mem hi)
    simp only [superOf, hfa, Option.bind_some, superIdx, List.getElem?_eq_getElem hi]
    cases hsa : L.assets[r].superAsset with
    | none => rfl
    | some t =>
      have hdecl := (supersOk_iff L).1 hs _ (List.getElem_mem hi) t hsa
      have hlt := (declIdx_lt_iff t).2 hdecl
      simp only [Option.bind_some, hol_refOf nodes hnd hlt, hlt, if_true, Option.toList_some]
  subs := by
    intro r hr
    have hi : r < L.assets.length := List.mem_range.1 hr
    rw [hol_asset nodes hi]
    show List.filter _ (List.range L.assets.length) = List.filter _ (List.range L.assets.length)
    apply List.filter_congr
    intro c hc
    rw [hol_asset nodes (List.mem_range.1 hc)]

theorem hol_assoc {nodes : List AssocDecl} {j : Nat} (hj : j < nodes.length) :
    (heapOfLang L nodes).assoc j =
      { name := nodes[j].name,
        left_field := { asset := declIdx L nodes[j].leftAsset, fieldname := nodes[j].leftField,
                        minimum := nodes[j].leftMin, maximum := (nodes[j].leftMax.map Int.ofNat).getD (-1) },
        right_field := { asset := declIdx L nodes[j].rightAsset, fieldname := nodes[j].rightField,
                         minimum := nodes[j].rightMin, maximum := (nodes[j].rightMax.map Int.ofNat).getD (-1) } } := by
  simp [heapOfLang, hj]

/-- **non-vacuity of `RepA`**: … and its association objects represent `nodes`, when both ends of every node are
declared assets (what `_generate_graph` checks: `LanguageGraphAssociationError` otherwise) -/
theorem repA_heapOfLang (nodes : List AssocDecl)
    (hends : ∀ d ∈ nodes, (L.findAsset d.leftAsset).isSome = true ∧ (L.findAsset d.rightAsset).isSome = true) :
    RepA (heapOfLang L nodes) L nodes where
  refs_nodup := List.nodup_range
  length_eq := by simp [heapOfLang]
  agrees := by
    intro p hp
    obtain ⟨j, hj, rfl⟩ := List.getElem_of_mem hp
    have hj' : j < nodes.length := by
      have : j < (List.range nodes.length).length ∧ j < nodes.length := by
        simpa [heapOfLang, List.length_zip] using hj
      exact this.2
    have hp1 : ((heapOfLang L nodes).associations.zip nodes)[j] = (j, nodes[j]) := by
      simp [heapOfLang]
    rw [hp1]
    obtain ⟨hl, hr⟩ := hends nodes[j] (List.getElem_mem hj')
    have hl' := (declIdx_lt_iff _).2 hl
    have hr' := (declIdx_lt_iff _).2 hr
    unfold AssocAgrees
    simp only [hol_assoc hj']
    refine ⟨trivial, trivial, trivial, List.mem_range.2 hl', ?_, List.mem_range.2 hr', ?_⟩
    · rw [hol_gname nodes hl', declIdx_getElem hl']
    · rw [hol_gname nodes hr', declIdx_getElem hr']

end hol
end MalVerif.Py.TieLangGraph
