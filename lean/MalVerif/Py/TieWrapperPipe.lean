import MalVerif.Py.TieWrapper
import MalVerif.Py.TieWrapperDoc2
/-!
# The optional stages of the wrapper, seen on the heap of the graph

`postStages_heap`: the heap of the graph `postStages` returns is `pipeline attach ana` (`Py/TieWrapperDoc2.lean`) of the
heap it was given, in the environment of the language graph and the model the graph keeps — the link between the
wrapper and `pipeline_doc_store_independent`.
-/
namespace MalVerif.PyW.Tie
open MalVerif MalVerif.PyW

theorem postStages_heap (w : WEnv) (attach ana : Bool) (g : WGraph) :
    (postStages w attach ana g).map (fun g' => g'.h) =
      liftGraph (pipeline attach ana (evalEnvOf w g.lang_graph g.model) g.h) := by
  unfold postStages pipeline agAttachAttackers agCalculate
  cases attach <;> cases ana <;>
    simp only [if_true, Bool.false_eq_true, if_false, bind, Except.bind, pure, Except.pure, Except.map, liftGraph]
  · cases Py.Gen.calculate_viability_and_necessity g.h <;> rfl
  · cases Py.Gen.graph_attach_attackers g.h (evalEnvOf w g.lang_graph g.model) <;> rfl
  · cases Py.Gen.graph_attach_attackers g.h (evalEnvOf w g.lang_graph g.model) with
    | error e => rfl
    | ok h' =>
      simp only []
      cases Py.Gen.calculate_viability_and_necessity h' <;> rfl

end MalVerif.PyW.Tie
