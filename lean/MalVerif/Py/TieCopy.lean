import MalVerif.Py.GenAgSerial.CopyGraph
import MalVerif.Py.Abs
import MalVerif.Py.TieGraph
import MalVerif.Proofs.AGCopyLemmas
/-!
# Tie: the three translated `__deepcopy__` methods  =  `AGS.deepcopy`

`graph___deepcopy__` (generated, one `do` block) is restated as a composition of its three loops (`CP.gcNode`,
`CP.gcLink`, `CP.gcComp`, bodies verbatim; `CP.graph_deepcopy_eq` is `rfl`).  Each phase is characterised on its own
(`CP.phase1`: the nodes; `CP.relink_loop` + `CP.gcLink_step` / `CP.gcComp_step`: the relations of the copies;
`CP.phase4`: the attackers; `CP.deepcopyList_hits` / `CP.deepcopyDict_hits`: containers whose elements are all in the
memo), `CP.graph_deepcopy_run` composes them into the heap-level facts `CP.CopyFacts`, `CP.abs_of_facts` reads these
as the hand model's `deepcopy`.

The statement with `Consistent` alone is false (`graph_deepcopy_tie_false`, heap `cexHeap`): `Consistent` speaks only
of the dictionary entries a lookup finds, `deepcopyDict` copies all of them.  `graph_deepcopy_tie_partial` adds
`DictKeysNodup` (no duplicate keys); `graph_deepcopy_tie_core` needs only `DictValsIn`.
-/
namespace MalVerif.Py.Tie
open MalVerif.Py MalVerif.Py.Gen MalVerif.AGS MalVerif.AGraph
set_option linter.unusedVariables false

/-- the attributes of the (original) `AttackGraph` object are the same in both heaps -/
def SameGraphAttrs (s' s : H) : Prop :=
  s'.nodes = s.nodes ∧ s'.attackers = s.attackers ∧ s'._id_to_node = s._id_to_node ∧
  s'._full_name_to_node = s._full_name_to_node ∧ s'._id_to_attacker = s._id_to_attacker ∧
  s'.next_node_id = s.next_node_id ∧ s'.next_attacker_id = s.next_attacker_id

/-- every value of the three index dictionaries is an object of the graph (`Consistent` says this only of the entries
that a lookup finds, not of entries shadowed by an earlier entry with the same key) -/
def DictValsIn (s : H) : Prop :=
  (∀ e ∈ s._id_to_node, e.2 ∈ s.nodes) ∧ (∀ e ∈ s._full_name_to_node, e.2 ∈ s.nodes) ∧
  (∀ e ∈ s._id_to_attacker, e.2 ∈ s.attackers)

/-- the three index dictionaries have no duplicate keys (true of every Python `dict`; the association lists of the
heap `H` do not enforce it) -/
def DictKeysNodup (s : H) : Prop :=
  (s._id_to_node.map (·.1)).Nodup ∧ (s._full_name_to_node.map (·.1)).Nodup ∧ (s._id_to_attacker.map (·.1)).Nodup

namespace CP

/-- `omega` after unfolding the reference types (mixed `NRef` / `Nat` arithmetic is opaque to `omega`) -/
macro "nomega" : tactic => `(tactic| ((try unfold NRef at *); (try unfold ARef at *); omega))

/-! ### dictionaries keyed by references -/

theorem dictIn_eq (d : List (Nat × Nat)) (k : Nat) : dictIn d k = (dictGet d k).isSome := by
  rw [TG.dictIn_eq_dget, TG.dictGet_eq_dget]

theorem dictGet_dictSet_new (d : List (Nat × Nat)) (k v k' : Nat) (h : dictGet d k = none) :
    dictGet (dictSet d k v) k' = if k' = k then some v else dictGet d k' := by
  have hin : dictIn d k = false := by rw [dictIn_eq, h]; rfl
  unfold dictIn at hin
  unfold dictSet
  rw [hin]
  simp only [Bool.false_eq_true, if_false]
  unfold dictGet
  rw [List.find?_append]
  by_cases hk : k' = k
  · subst hk
    unfold dictGet at h
    have : List.find? (fun e => e.1 == k') d = none := by
      cases hf : List.find? (fun e => e.1 == k') d with
      | none => rfl
      | some x => rw [hf] at h; cases h
    rw [this]; simp
  · rw [if_neg hk]
    cases hf : List.find? (fun e => e.1 == k') d with
    | some x => rfl
    | none =>
      have : (k == k') = false := by simp; exact fun e => hk e.symm
      simp [this]

/-! ### heap updates -/

theorem setN_n_same (s : H) (c : NRef) (o : PyNode) : (s.setN c o).n c = o := by simp [H.setN]
theorem setN_n_other (s : H) (c x : NRef) (o : PyNode) (h : x ≠ c) : (s.setN c o).n x = s.n x := by simp [H.setN, h]
theorem setN_setN (s : H) (c : NRef) (o o' : PyNode) : (s.setN c o).setN c o' = s.setN c o' := by
  unfold H.setN; simp only; congr 1; funext x; by_cases h : x = c <;> simp [h]
theorem setA_a_same (s : H) (c : ARef) (o : PyAttacker) : (s.setA c o).a c = o := by simp [H.setA]
theorem setA_a_other (s : H) (c x : ARef) (o : PyAttacker) (h : x ≠ c) : (s.setA c o).a x = s.a x := by simp [H.setA, h]
theorem setA_setA (s : H) (c : ARef) (o o' : PyAttacker) : (s.setA c o).setA c o' = s.setA c o' := by
  unfold H.setA; simp only; congr 1; funext x; by_cases h : x = c <;> simp [h]

/-! ### `deepcopyList` / `deepcopyDict` when every element is a memo hit -/

/-- the step of `deepcopyList` -/
def dlStep {σ : Type} (f : σ → Nat → Except PyErr (Nat × σ)) (acc : List Nat × σ) (x : Nat) : Except PyErr (List Nat × σ) := do
  let (y, st') ← f acc.2 x
  pure (acc.1 ++ [y], st')
/-- the step of `deepcopyDict` -/
def ddStep {κ σ : Type} (f : σ → Nat → Except PyErr (Nat × σ)) (acc : List (κ × Nat) × σ) (e : κ × Nat) :
    Except PyErr (List (κ × Nat) × σ) := do
  let (y, st') ← f acc.2 e.2
  pure (acc.1 ++ [(e.1, y)], st')

theorem deepcopyList_eq {σ : Type} (f : σ → Nat → Except PyErr (Nat × σ)) (st : σ) (l : List Nat) :
    deepcopyList f st l = l.foldlM (dlStep f) ([], st) := rfl
theorem deepcopyDict_eq {κ σ : Type} (f : σ → Nat → Except PyErr (Nat × σ)) (st : σ) (d : List (κ × Nat)) :
    deepcopyDict f st d = d.foldlM (ddStep f) ([], st) := rfl

theorem dlStep_ok {σ : Type} (f : σ → Nat → Except PyErr (Nat × σ)) (acc : List Nat) (st st' : σ) (x y : Nat)
    (h : f st x = .ok (y, st')) : dlStep f (acc, st) x = .ok (acc ++ [y], st') := by
  unfold dlStep; simp only [h, bind, Except.bind, pure, Except.pure]
theorem ddStep_ok {κ σ : Type} (f : σ → Nat → Except PyErr (Nat × σ)) (acc : List (κ × Nat)) (st st' : σ) (e : κ × Nat)
    (y : Nat) (h : f st e.2 = .ok (y, st')) : ddStep f (acc, st) e = .ok (acc ++ [(e.1, y)], st') := by
  unfold ddStep; simp only [h, bind, Except.bind, pure, Except.pure]

theorem deepcopyList_hits {σ : Type} (f : σ → Nat → Except PyErr (Nat × σ)) (st : σ) (g : Nat → Nat) (l : List Nat)
    (h : ∀ x ∈ l, f st x = .ok (g x, st)) : deepcopyList f st l = .ok (l.map g, st) := by
  rw [deepcopyList_eq]
  suffices hh : ∀ (acc : List Nat), List.foldlM (dlStep f) (acc, st) l = .ok (acc ++ l.map g, st) by
    simpa using hh []
  induction l with
  | nil => intro acc; simp [List.foldlM_nil, pure, Except.pure]
  | cons x l ih =>
    intro acc
    rw [List.foldlM_cons, dlStep_ok f acc st st x _ (h x List.mem_cons_self)]
    show List.foldlM (dlStep f) (acc ++ [g x], st) l = _
    rw [ih (fun y hy => h y (List.mem_cons_of_mem _ hy))]
    simp

theorem deepcopyDict_hits {κ σ : Type} (f : σ → Nat → Except PyErr (Nat × σ)) (st : σ) (g : Nat → Nat)
    (d : List (κ × Nat)) (h : ∀ e ∈ d, f st e.2 = .ok (g e.2, st)) :
    deepcopyDict f st d = .ok (d.map (fun e => (e.1, g e.2)), st) := by
  rw [deepcopyDict_eq]
  suffices hh : ∀ (acc : List (κ × Nat)), List.foldlM (ddStep f) (acc, st) d =
      .ok (acc ++ d.map (fun e => (e.1, g e.2)), st) by
    simpa using hh []
  induction d with
  | nil => intro acc; simp [List.foldlM_nil, pure, Except.pure]
  | cons x l ih =>
    intro acc
    rw [List.foldlM_cons, ddStep_ok f acc st st x _ (h x List.mem_cons_self)]
    show List.foldlM (ddStep f) (acc ++ [(x.1, g x.2)], st) l = _
    rw [ih (fun y hy => h y (List.mem_cons_of_mem _ hy))]
    simp

/-! ### `remap` -/

theorem remap_cons_self (x : Nat) (l : List Nat) (b : Nat) : remap (x :: l) b x = b := by
  unfold remap; simp [List.idxOf?_cons]

theorem remap_cons_mem (x : Nat) (l : List Nat) (b r : Nat) (hx : x ≠ r) (hr : r ∈ l) :
    remap (x :: l) b r = remap l (b + 1) r := by
  obtain ⟨i, h1, _, _⟩ := idxOf?_of_mem hr
  unfold remap
  rw [List.idxOf?_cons, h1]
  simp [hx]; omega

/-- with distinct elements the `i`-th element goes to `b + i` -/
theorem remap_getD {l : List Nat} (hn : l.Nodup) (b i : Nat) (hi : i < l.length) : remap l b (l.getD i 0) = b + i := by
  induction l generalizing b i with
  | nil => cases hi
  | cons x l ih =>
    cases i with
    | zero => simpa using remap_cons_self x l b
    | succ i =>
      have hi' : i < l.length := by simpa using hi
      have hm : l.getD i 0 ∈ l := by
        simp [List.getD_eq_getElem?_getD, hi']
      have hx : x ≠ l.getD i 0 := fun e => (List.nodup_cons.1 hn).1 (e ▸ hm)
      rw [List.getD_cons_succ, remap_cons_mem x l b _ hx hm, ih (List.nodup_cons.1 hn).2 (b + 1) i hi']
      omega

/-! ### the generated `graph___deepcopy__` as a composition of its loops (bodies verbatim) -/

/-- first loop: copy the nodes -/
def gcNode (node : NRef) (st : H × Aux × Memo × PyGraph) : Except PyErr (ForInStep (H × Aux × Memo × PyGraph)) := do
  let mut s := st.1
  let mut aux := st.2.1
  let mut memo := st.2.2.1
  let mut copied_attackgraph := st.2.2.2
  let r_1 ← node___deepcopy__ (s, aux, memo) node
  s := r_1.2.1
  aux := r_1.2.2.1
  memo := r_1.2.2.2
  let mut copied_node : NRef := r_1.1
  copied_attackgraph := { copied_attackgraph with nodes := (copied_attackgraph.nodes ++ [copied_node]) }
  pure (ForInStep.yield (s, aux, memo, copied_attackgraph))

/-- second loop: parents / children of the copies -/
def gcLink (node : NRef) (st : H × Aux × Memo) : Except PyErr (ForInStep (H × Aux × Memo)) := do
  let mut s := st.1
  let mut aux := st.2.1
  let mut memo := st.2.2
  if !((s.n node).parents).isEmpty then
    let r_2 ← deepcopyList node___deepcopy__ (s, aux, memo) (s.n node).parents
    s := r_2.2.1
    aux := r_2.2.2.1
    memo := r_2.2.2.2
    let t_3 := (← memoGetN memo node)
    s := s.setN t_3 { s.n t_3 with parents := r_2.1 }
  if !((s.n node).children).isEmpty then
    let r_4 ← deepcopyList node___deepcopy__ (s, aux, memo) (s.n node).children
    s := r_4.2.1
    aux := r_4.2.2.1
    memo := r_4.2.2.2
    let t_5 := (← memoGetN memo node)
    s := s.setN t_5 { s.n t_5 with children := r_4.1 }
  pure (ForInStep.yield (s, aux, memo))

/-- third loop: `compromised_by` of the copies -/
def gcComp (node : NRef) (st : H × Aux × Memo) : Except PyErr (ForInStep (H × Aux × Memo)) := do
  let mut s := st.1
  let mut aux := st.2.1
  let mut memo := st.2.2
  if !((s.n node).compromised_by).isEmpty then
    let r_7 ← deepcopyList attacker___deepcopy__ (s, aux, memo) (s.n node).compromised_by
    s := r_7.2.1
    aux := r_7.2.2.1
    memo := r_7.2.2.2
    let t_8 := (← memoGetN memo node)
    s := s.setN t_8 { s.n t_8 with compromised_by := r_7.1 }
  pure (ForInStep.yield (s, aux, memo))

theorem graph_deepcopy_eq (st : DCSt) :
    graph___deepcopy__ st = (do
      let st1 ← forIn st.1.nodes (st.1, st.2.1, st.2.2, ({ ({} : PyGraph) with nodes := [] } : PyGraph)) gcNode
      let st2 ← forIn st1.1.nodes (st1.1, st1.2.1, st1.2.2.1) gcLink
      let r_6 ← deepcopyList attacker___deepcopy__ st2 st2.1.attackers
      let st3 ← forIn r_6.2.1.nodes r_6.2 gcComp
      let r_9 ← deepcopyDict attacker___deepcopy__ st3 st3.1._id_to_attacker
      let r_10 ← deepcopyDict node___deepcopy__ r_9.2 r_9.2.1._id_to_node
      let r_11 ← deepcopyDict node___deepcopy__ r_10.2 r_10.2.1._full_name_to_node
      pure ({ st1.2.2.2 with attackers := r_6.1, _id_to_attacker := r_9.1, _id_to_node := r_10.1,
                              _full_name_to_node := r_11.1, next_node_id := r_11.2.1.next_node_id,
                              next_attacker_id := r_11.2.1.next_attacker_id }, r_11.2)) := by
  rfl

end CP
open CP

/-- a node that is already in the memo: `__deepcopy__` returns the memo entry and changes nothing -/
theorem node_deepcopy_memo (st : DCSt) (r c : NRef) (h : dictGet st.2.2.n r = some c) :
    node___deepcopy__ st r = .ok (c, st) := by
  unfold node___deepcopy__
  have hin : dictIn st.2.2.n r = true := by rw [dictIn_eq, h]; rfl
  simp only [hin, if_true, memoGetN, h, bind, Except.bind, pure, Except.pure]

/-- a node that is not in the memo: a new object at `nfresh` with the data fields of `r`, no relations; memo extended -/
theorem node_deepcopy_new (st : DCSt) (r : NRef) (h : dictGet st.2.2.n r = none) (hne : st.2.1.nfresh ≠ r) :
    node___deepcopy__ st r = .ok (st.2.1.nfresh,
      (st.1.setN st.2.1.nfresh { st.1.n r with children := [], parents := [], compromised_by := [] },
       { st.2.1 with nfresh := st.2.1.nfresh + 1 }, { st.2.2 with n := dictSet st.2.2.n r st.2.1.nfresh })) := by
  unfold node___deepcopy__
  have hin : dictIn st.2.2.n r = false := by rw [dictIn_eq, h]; rfl
  simp only [hin, bind, Except.bind, pure, Except.pure]
  simp only [setN_setN, setN_n_same, setN_n_other _ _ _ _ hne.symm]
  rfl

theorem attacker_deepcopy_memo (st : DCSt) (a c : ARef) (h : dictGet st.2.2.a a = some c) :
    attacker___deepcopy__ st a = .ok (c, st) := by
  unfold attacker___deepcopy__
  have hin : dictIn st.2.2.a a = true := by rw [dictIn_eq, h]; rfl
  simp only [hin, if_true, memoGetA, h, bind, Except.bind, pure, Except.pure]

namespace CP

/-! ### frame -/

theorem sga_refl (s : H) : SameGraphAttrs s s := ⟨rfl, rfl, rfl, rfl, rfl, rfl, rfl⟩
theorem sga_trans {s'' s' s : H} (h1 : SameGraphAttrs s'' s') (h2 : SameGraphAttrs s' s) : SameGraphAttrs s'' s := by
  obtain ⟨a1, a2, a3, a4, a5, a6, a7⟩ := h1
  obtain ⟨b1, b2, b3, b4, b5, b6, b7⟩ := h2
  exact ⟨a1.trans b1, a2.trans b2, a3.trans b3, a4.trans b4, a5.trans b5, a6.trans b6, a7.trans b7⟩
theorem sga_setN (s : H) (c : NRef) (o : PyNode) : SameGraphAttrs (s.setN c o) s := ⟨rfl, rfl, rfl, rfl, rfl, rfl, rfl⟩
theorem sga_setA (s : H) (c : ARef) (o : PyAttacker) : SameGraphAttrs (s.setA c o) s := ⟨rfl, rfl, rfl, rfl, rfl, rfl, rfl⟩

/-- the fresh copy made by `AttackGraphNode.__deepcopy__`: the data fields, no relations -/
def stripN (o : PyNode) : PyNode := { o with children := [], parents := [], compromised_by := [] }

/-! ### phase 1: the nodes -/

theorem gcNode_new (x : NRef) (s : H) (aux : Aux) (memo : Memo) (cg : PyGraph) (h : dictGet memo.n x = none)
    (hne : aux.nfresh ≠ x) :
    gcNode x (s, aux, memo, cg) = .ok (.yield (s.setN aux.nfresh (stripN (s.n x)), { aux with nfresh := aux.nfresh + 1 },
      { memo with n := dictSet memo.n x aux.nfresh }, { cg with nodes := cg.nodes ++ [aux.nfresh] })) := by
  unfold gcNode
  simp only [bind, Except.bind]
  rw [node_deepcopy_new (s, aux, memo) x h hne]
  rfl

theorem phase1 (l : List Nat) : ∀ (s : H) (aux : Aux) (memo : Memo) (cg : PyGraph),
    l.Nodup → (∀ r ∈ l, r < aux.nfresh) → (∀ r ∈ l, dictGet memo.n r = none) →
    ∃ s' aux' memo', forIn l (s, aux, memo, cg) gcNode =
        .ok (s', aux', memo', { cg with nodes := cg.nodes ++ l.map (remap l aux.nfresh) }) ∧
      s'.a = s.a ∧ SameGraphAttrs s' s ∧
      (∀ r ∈ l, s'.n (remap l aux.nfresh r) = stripN (s.n r)) ∧
      (∀ x : Nat, (x < aux.nfresh ∨ aux.nfresh + l.length ≤ x) → s'.n x = s.n x) ∧
      aux'.nfresh = aux.nfresh + l.length ∧ aux'.afresh = aux.afresh ∧ aux'.asn = aux.asn ∧
      memo'.a = memo.a ∧
      (∀ r, dictGet memo'.n r = if r ∈ l then some (remap l aux.nfresh r) else dictGet memo.n r) := by
  induction l with
  | nil =>
    intro s aux memo cg _ _ _
    exact ⟨s, aux, memo, by simp [List.forIn_nil, pure, Except.pure], rfl, sga_refl s, by simp, by simp, by simp, rfl, rfl, rfl,
      by simp⟩
  | cons x l ih =>
    intro s aux memo cg hn hlt hm
    have hxl : x ∉ l := (List.nodup_cons.1 hn).1
    have hnl : l.Nodup := (List.nodup_cons.1 hn).2
    have hxlt : x < aux.nfresh := hlt x List.mem_cons_self
    rw [List.forIn_cons, gcNode_new x s aux memo cg (hm x List.mem_cons_self) (Nat.ne_of_gt hxlt)]
    simp only [bind, Except.bind]
    obtain ⟨s', aux', memo', hrun, ha, hattr, hcopy, hother, hnf, haf, hasn, hma, hmemo⟩ :=
      ih (s.setN aux.nfresh (stripN (s.n x))) { aux with nfresh := aux.nfresh + 1 }
        { memo with n := dictSet memo.n x aux.nfresh } { cg with nodes := cg.nodes ++ [aux.nfresh] } hnl
        (fun r hr => Nat.lt_succ_of_lt (hlt r (List.mem_cons_of_mem _ hr)))
        (fun r hr => by
          show dictGet (dictSet memo.n x aux.nfresh) r = none
          rw [dictGet_dictSet_new _ _ _ _ (hm x List.mem_cons_self), if_neg (fun (e : r = x) => hxl (e ▸ hr))]
          exact hm r (List.mem_cons_of_mem _ hr))
    have hmapeq : l.map (remap l (aux.nfresh + 1)) = l.map (remap (x :: l) aux.nfresh) :=
      List.map_congr_left (fun r hr => (remap_cons_mem x l aux.nfresh r (fun e => hxl (e ▸ hr)) hr).symm)
    refine ⟨s', aux', memo', ?_, ha, sga_trans hattr (sga_setN _ _ _), ?_, ?_, ?_, haf, hasn, hma, ?_⟩
    · rw [hrun]
      simp only [List.map_cons, remap_cons_self, hmapeq, List.append_assoc, List.singleton_append]
    · intro r hr
      rcases List.mem_cons.1 hr with e | hr'
      · subst e
        rw [remap_cons_self, hother aux.nfresh (Or.inl (Nat.lt_succ_self _)), setN_n_same]
      · have hrx : x ≠ r := fun e => hxl (e ▸ hr')
        rw [remap_cons_mem x l aux.nfresh r hrx hr', hcopy r hr', setN_n_other]
        exact Nat.ne_of_lt (hlt r hr)
    · intro y hy
      simp only [List.length_cons] at hy
      have hyne : y ≠ aux.nfresh := by nomega
      have h1 := hother y (by show y < aux.nfresh + 1 ∨ aux.nfresh + 1 + l.length ≤ y; nomega)
      rw [h1, setN_n_other _ _ _ _ hyne]
    · rw [hnf]; show aux.nfresh + 1 + l.length = aux.nfresh + (l.length + 1); nomega
    · intro r
      rw [hmemo r]
      by_cases hrx : r = x
      · subst hrx
        rw [if_neg hxl, if_pos List.mem_cons_self, remap_cons_self]
        show dictGet (dictSet memo.n r aux.nfresh) r = _
        rw [dictGet_dictSet_new _ _ _ _ (hm r List.mem_cons_self), if_pos rfl]
      · by_cases hrl : r ∈ l
        · rw [if_pos hrl, if_pos (List.mem_cons_of_mem _ hrl), remap_cons_mem x l aux.nfresh r (fun e => hrx e.symm) hrl]
        · rw [if_neg hrl, if_neg (by simp [hrx, hrl])]
          show dictGet (dictSet memo.n x aux.nfresh) r = _
          rw [dictGet_dictSet_new _ _ _ _ (hm x List.mem_cons_self), if_neg hrx]

/-! ### phases 2 and 3: the relations of the node copies -/

theorem setN_self (s : H) (c : NRef) : s.setN c (s.n c) = s := by
  cases s; unfold H.setN; simp only; congr 1; funext x; by_cases h : x = c <;> simp [h]

theorem memoGetN_ok (memo : Memo) (r c : NRef) (h : dictGet memo.n r = some c) : memoGetN memo r = .ok c := by
  unfold memoGetN; rw [h]

theorem isEmpty_false_of_ne {α} (l : List α) (h : l ≠ []) : l.isEmpty = false := by
  cases l with | nil => exact absurd rfl h | cons _ _ => rfl

theorem gcLink_step (nm : Nat → Nat) (s : H) (aux : Aux) (memo : Memo) (r : NRef)
    (hr : dictGet memo.n r = some (nm r)) (hne : r ≠ nm r)
    (hp : ∀ p ∈ (s.n r).parents, dictGet memo.n p = some (nm p))
    (hc : ∀ c ∈ (s.n r).children, dictGet memo.n c = some (nm c))
    (he : (s.n (nm r)).parents = [] ∧ (s.n (nm r)).children = []) :
    gcLink r (s, aux, memo) = .ok (.yield (s.setN (nm r)
      { s.n (nm r) with parents := (s.n r).parents.map nm, children := (s.n r).children.map nm }, aux, memo)) := by
  have hP := deepcopyList_hits node___deepcopy__ (s, aux, memo) nm (s.n r).parents
    (fun x hx => node_deepcopy_memo _ _ _ (hp x hx))
  have hM := memoGetN_ok memo r _ hr
  unfold gcLink
  obtain ⟨he1, he2⟩ := he
  by_cases h1 : (s.n r).parents = []
  · simp only [h1, List.isEmpty_nil, Bool.not_true, Bool.false_eq_true, if_false]
    by_cases h2 : (s.n r).children = []
    · simp only [h2, List.isEmpty_nil, Bool.not_true, Bool.false_eq_true, if_false, pure, Except.pure, List.map_nil]
      rw [show ({ s.n (nm r) with parents := [], children := [] } : PyNode) = s.n (nm r) by
        generalize s.n (nm r) = o at *; cases o; simp only at he1 he2; subst he1; subst he2; rfl, setN_self]
    · have hC := deepcopyList_hits node___deepcopy__ (s, aux, memo) nm (s.n r).children
        (fun x hx => node_deepcopy_memo _ _ _ (hc x hx))
      simp only [isEmpty_false_of_ne _ h2, Bool.not_false, if_true, hC, hM, bind, Except.bind, pure, Except.pure, List.map_nil]
      rw [show ({ s.n (nm r) with parents := [], children := (s.n r).children.map nm } : PyNode) =
          { s.n (nm r) with children := (s.n r).children.map nm } by
        generalize s.n (nm r) = o at *; cases o; simp only at he1; subst he1; rfl]
  · simp only [isEmpty_false_of_ne _ h1, Bool.not_false, if_true, hP, hM, bind, Except.bind, pure, Except.pure]
    simp only [setN_n_other _ _ _ _ hne]
    by_cases h2 : (s.n r).children = []
    · simp only [h2, List.isEmpty_nil, Bool.not_true, Bool.false_eq_true, if_false, List.map_nil]
      rw [show ({ s.n (nm r) with parents := (s.n r).parents.map nm, children := [] } : PyNode) =
          { s.n (nm r) with parents := (s.n r).parents.map nm } by
        generalize s.n (nm r) = o at *; cases o; simp only at he2; subst he2; rfl]
    · have hC := deepcopyList_hits node___deepcopy__ (s.setN (nm r) { s.n (nm r) with parents := (s.n r).parents.map nm }, aux, memo) nm (s.n r).children
        (fun x hx => node_deepcopy_memo _ _ _ (hc x hx))
      simp only [isEmpty_false_of_ne _ h2, Bool.not_false, if_true, hC, hM]
      simp only [setN_n_same, setN_setN]

theorem gcComp_step (nm am : Nat → Nat) (s : H) (aux : Aux) (memo : Memo) (r : NRef)
    (hr : dictGet memo.n r = some (nm r))
    (hc : ∀ a ∈ (s.n r).compromised_by, dictGet memo.a a = some (am a))
    (he : (s.n (nm r)).compromised_by = []) :
    gcComp r (s, aux, memo) = .ok (.yield (s.setN (nm r)
      { s.n (nm r) with compromised_by := (s.n r).compromised_by.map am }, aux, memo)) := by
  have hC := deepcopyList_hits attacker___deepcopy__ (s, aux, memo) am (s.n r).compromised_by
    (fun x hx => attacker_deepcopy_memo _ _ _ (hc x hx))
  have hM := memoGetN_ok memo r _ hr
  unfold gcComp
  by_cases h1 : (s.n r).compromised_by = []
  · simp only [h1, List.isEmpty_nil, Bool.not_true, Bool.false_eq_true, if_false, pure, Except.pure, List.map_nil]
    rw [show ({ s.n (nm r) with compromised_by := [] } : PyNode) = s.n (nm r) by
      generalize s.n (nm r) = o at *; cases o; simp only at he; subst he; rfl, setN_self]
  · simp only [isEmpty_false_of_ne _ h1, Bool.not_false, if_true, hC, hM, bind, Except.bind, pure, Except.pure]

/-- a loop that rewrites the copy `nm r` of every `r ∈ l` from the original and the current copy -/
theorem relink_loop (B : NRef → H × Aux × Memo → Except PyErr (ForInStep (H × Aux × Memo))) (nm : Nat → Nat)
    (aux : Aux) (memo : Memo) (Q : PyNode → PyNode → Prop) (upd : PyNode → PyNode → PyNode) (nf : Nat) (l : List Nat)
    (hstep : ∀ (s : H) r, r ∈ l → Q (s.n r) (s.n (nm r)) →
      B r (s, aux, memo) = .ok (.yield (s.setN (nm r) (upd (s.n r) (s.n (nm r))), aux, memo)))
    (hinj : ∀ r ∈ l, ∀ r' ∈ l, nm r = nm r' → r = r') (hlt : ∀ r ∈ l, r < nf) (hge : ∀ r ∈ l, nf ≤ nm r)
    (hn : l.Nodup) (s : H) (hQ : ∀ r ∈ l, Q (s.n r) (s.n (nm r))) :
    ∃ s', forIn l (s, aux, memo) B = .ok (s', aux, memo) ∧ s'.a = s.a ∧ SameGraphAttrs s' s ∧
      (∀ r ∈ l, s'.n (nm r) = upd (s.n r) (s.n (nm r))) ∧ (∀ x, (∀ r ∈ l, x ≠ nm r) → s'.n x = s.n x) := by
  induction l generalizing s with
  | nil => exact ⟨s, by simp [List.forIn_nil, pure, Except.pure], rfl, sga_refl s, by simp, by simp⟩
  | cons x l ih =>
    have hxl : x ∉ l := (List.nodup_cons.1 hn).1
    have hnl : l.Nodup := (List.nodup_cons.1 hn).2
    have hsub : ∀ r, r ∈ l → r ∈ x :: l := fun r hr => List.mem_cons_of_mem _ hr
    have hxm : x ∈ x :: l := List.mem_cons_self
    rw [List.forIn_cons, hstep s x hxm (hQ x hxm)]
    simp only [bind, Except.bind]
    have hr1 : ∀ r ∈ l, r ≠ nm x := fun r hr => by
      have := hlt r (hsub r hr); have := hge x hxm; omega
    have hr2 : ∀ r ∈ l, nm r ≠ nm x := fun r hr e => hxl (hinj r (hsub r hr) x hxm e ▸ hr)
    obtain ⟨s', hrun, ha, hattr, hcopy, hother⟩ := ih (fun s r hr => hstep s r (hsub r hr))
      (fun r hr r' hr' => hinj r (hsub r hr) r' (hsub r' hr')) (fun r hr => hlt r (hsub r hr))
      (fun r hr => hge r (hsub r hr)) hnl (s.setN (nm x) (upd (s.n x) (s.n (nm x))))
      (fun r hr => by
        rw [setN_n_other _ _ _ _ (hr1 r hr), setN_n_other _ _ _ _ (hr2 r hr)]; exact hQ r (hsub r hr))
    refine ⟨s', hrun, ha, sga_trans hattr (sga_setN _ _ _), ?_, ?_⟩
    · intro r hr
      rcases List.mem_cons.1 hr with e | hr'
      · subst e
        rw [hother (nm r) (fun r' hr' => (hr2 r' hr').symm), setN_n_same]
      · rw [hcopy r hr', setN_n_other _ _ _ _ (hr1 r hr'), setN_n_other _ _ _ _ (hr2 r hr')]
    · intro y hy
      rw [hother y (fun r hr => hy r (hsub r hr)), setN_n_other _ _ _ _ (hy x hxm)]

/-! ### phase 4: the attackers -/

/-- the copy made by `Attacker.__deepcopy__` when all its nodes are in the memo -/
def copyAtt (nm : Nat → Nat) (o : PyAttacker) : PyAttacker :=
  { name := o.name, id := o.id, entry_points := o.entry_points.map nm,
    reached_attack_steps := o.reached_attack_steps.map nm }

theorem attacker_deepcopy_new (nm : Nat → Nat) (st : DCSt) (a : ARef) (h : dictGet st.2.2.a a = none)
    (hne : st.2.1.afresh ≠ a)
    (he : ∀ e ∈ (st.1.a a).entry_points, dictGet st.2.2.n e = some (nm e))
    (hr : ∀ e ∈ (st.1.a a).reached_attack_steps, dictGet st.2.2.n e = some (nm e)) :
    attacker___deepcopy__ st a = .ok (st.2.1.afresh,
      (st.1.setA st.2.1.afresh (copyAtt nm (st.1.a a)),
       { st.2.1 with afresh := st.2.1.afresh + 1 }, { st.2.2 with a := dictSet st.2.2.a a st.2.1.afresh })) := by
  have hE : ∀ (s' : H) (aux' : Aux) (ma : List (ARef × ARef)),
      deepcopyList node___deepcopy__ (s', aux', ({ st.2.2 with a := ma } : Memo)) (st.1.a a).entry_points =
        .ok ((st.1.a a).entry_points.map nm, (s', aux', { st.2.2 with a := ma })) := fun s' aux' ma =>
    deepcopyList_hits node___deepcopy__ _ nm _ (fun x hx => node_deepcopy_memo _ _ _ (he x hx))
  have hR : ∀ (s' : H) (aux' : Aux) (ma : List (ARef × ARef)),
      deepcopyList node___deepcopy__ (s', aux', ({ st.2.2 with a := ma } : Memo)) (st.1.a a).reached_attack_steps =
        .ok ((st.1.a a).reached_attack_steps.map nm, (s', aux', { st.2.2 with a := ma })) := fun s' aux' ma =>
    deepcopyList_hits node___deepcopy__ _ nm _ (fun x hx => node_deepcopy_memo _ _ _ (hr x hx))
  unfold attacker___deepcopy__
  have hin : dictIn st.2.2.a a = false := by rw [dictIn_eq, h]; rfl
  simp only [hin, bind, Except.bind, pure, Except.pure]
  simp only [setA_a_other _ _ _ _ hne.symm, hE, setA_setA, setA_a_same, hR]
  rfl

theorem phase4 (nm : Nat → Nat) (l : List Nat) : ∀ (acc : List Nat) (s : H) (aux : Aux) (memo : Memo),
    l.Nodup → (∀ a ∈ l, a < aux.afresh) → (∀ a ∈ l, dictGet memo.a a = none) →
    (∀ a ∈ l, ∀ e ∈ (s.a a).entry_points, dictGet memo.n e = some (nm e)) →
    (∀ a ∈ l, ∀ e ∈ (s.a a).reached_attack_steps, dictGet memo.n e = some (nm e)) →
    ∃ s' aux' memo', List.foldlM (dlStep attacker___deepcopy__) (acc, (s, aux, memo)) l =
        .ok (acc ++ l.map (remap l aux.afresh), (s', aux', memo')) ∧
      s'.n = s.n ∧ SameGraphAttrs s' s ∧
      (∀ a ∈ l, s'.a (remap l aux.afresh a) = copyAtt nm (s.a a)) ∧
      (∀ x : Nat, (x < aux.afresh ∨ aux.afresh + l.length ≤ x) → s'.a x = s.a x) ∧
      aux'.afresh = aux.afresh + l.length ∧ aux'.nfresh = aux.nfresh ∧ aux'.asn = aux.asn ∧
      memo'.n = memo.n ∧
      (∀ r, dictGet memo'.a r = if r ∈ l then some (remap l aux.afresh r) else dictGet memo.a r) := by
  induction l with
  | nil =>
    intro acc s aux memo _ _ _ _ _
    exact ⟨s, aux, memo, by simp [List.foldlM_nil, pure, Except.pure], rfl, sga_refl s, by simp, by simp, by simp, rfl, rfl, rfl,
      by simp⟩
  | cons x l ih =>
    intro acc s aux memo hn hlt hm he hr
    have hxl : x ∉ l := (List.nodup_cons.1 hn).1
    have hnl : l.Nodup := (List.nodup_cons.1 hn).2
    have hxm : x ∈ x :: l := List.mem_cons_self
    have hsub : ∀ r, r ∈ l → r ∈ x :: l := fun r hr => List.mem_cons_of_mem _ hr
    have hxlt : x < aux.afresh := hlt x hxm
    rw [List.foldlM_cons, dlStep_ok attacker___deepcopy__ acc (s, aux, memo) _ x _
      (attacker_deepcopy_new nm (s, aux, memo) x (hm x hxm) (Nat.ne_of_gt hxlt) (he x hxm) (hr x hxm))]
    simp only [bind, Except.bind]
    have hold : ∀ a ∈ l, (s.setA aux.afresh (copyAtt nm (s.a x))).a a = s.a a := fun a ha =>
      setA_a_other _ _ _ _ (Nat.ne_of_lt (hlt a (hsub a ha)))
    obtain ⟨s', aux', memo', hrun, hsn, hattr, hcopy, hother, haf, hnf, hasn, hmn, hmemo⟩ :=
      ih (acc ++ [aux.afresh]) (s.setA aux.afresh (copyAtt nm (s.a x))) { aux with afresh := aux.afresh + 1 }
        { memo with a := dictSet memo.a x aux.afresh } hnl
        (fun r hr => Nat.lt_succ_of_lt (hlt r (hsub r hr)))
        (fun r hr => by
          show dictGet (dictSet memo.a x aux.afresh) r = none
          rw [dictGet_dictSet_new _ _ _ _ (hm x hxm), if_neg (fun (e : r = x) => hxl (e ▸ hr))]
          exact hm r (hsub r hr))
        (fun a ha => by rw [hold a ha]; exact he a (hsub a ha))
        (fun a ha => by rw [hold a ha]; exact hr a (hsub a ha))
    have hmapeq : l.map (remap l (aux.afresh + 1)) = l.map (remap (x :: l) aux.afresh) :=
      List.map_congr_left (fun r hr => (remap_cons_mem x l aux.afresh r (fun e => hxl (e ▸ hr)) hr).symm)
    refine ⟨s', aux', memo', ?_, hsn, sga_trans hattr (sga_setA _ _ _), ?_, ?_, ?_, hnf, hasn, hmn, ?_⟩
    · rw [hrun]
      simp only [List.map_cons, remap_cons_self, hmapeq, List.append_assoc, List.singleton_append]
    · intro r hr
      rcases List.mem_cons.1 hr with e | hr'
      · subst e
        rw [remap_cons_self, hother aux.afresh (Or.inl (Nat.lt_succ_self _)), setA_a_same]
      · have hrx : x ≠ r := fun e => hxl (e ▸ hr')
        rw [remap_cons_mem x l aux.afresh r hrx hr', hcopy r hr', hold r hr']
    · intro y hy
      simp only [List.length_cons] at hy
      have hyne : y ≠ aux.afresh := by nomega
      have h1 := hother y (by show y < aux.afresh + 1 ∨ aux.afresh + 1 + l.length ≤ y; nomega)
      rw [h1, setA_a_other _ _ _ _ hyne]
    · rw [haf]; show aux.afresh + 1 + l.length = aux.afresh + (l.length + 1); nomega
    · intro r
      rw [hmemo r]
      by_cases hrx : r = x
      · subst hrx
        rw [if_neg hxl, if_pos List.mem_cons_self, remap_cons_self]
        show dictGet (dictSet memo.a r aux.afresh) r = _
        rw [dictGet_dictSet_new _ _ _ _ (hm r List.mem_cons_self), if_pos rfl]
      · by_cases hrl : r ∈ l
        · rw [if_pos hrl, if_pos (List.mem_cons_of_mem _ hrl), remap_cons_mem x l aux.afresh r (fun e => hrx e.symm) hrl]
        · rw [if_neg hrl, if_neg (by simp [hrx, hrl])]
          show dictGet (dictSet memo.a x aux.afresh) r = _
          rw [dictGet_dictSet_new _ _ _ _ (hm x List.mem_cons_self), if_neg hrx]

/-! ### assembly -/

/-- what the run of `graph___deepcopy__` leaves behind (heap level) -/
structure CopyFacts (s : H) (aux : Aux) (g : PyGraph) (s' : H) (aux' : Aux) : Prop where
  nodeCopy : ∀ r ∈ s.nodes, s'.n (remap s.nodes aux.nfresh r) =
    { stripN (s.n r) with parents := (s.n r).parents.map (remap s.nodes aux.nfresh),
                          children := (s.n r).children.map (remap s.nodes aux.nfresh),
                          compromised_by := (s.n r).compromised_by.map (remap s.attackers aux.afresh) }
  nodeOther : ∀ x : Nat, (x < aux.nfresh ∨ aux.nfresh + s.nodes.length ≤ x) → s'.n x = s.n x
  attCopy : ∀ a ∈ s.attackers, s'.a (remap s.attackers aux.afresh a) = copyAtt (remap s.nodes aux.nfresh) (s.a a)
  attOther : ∀ x : Nat, (x < aux.afresh ∨ aux.afresh + s.attackers.length ≤ x) → s'.a x = s.a x
  attrs : SameGraphAttrs s' s
  nfresh : aux'.nfresh = aux.nfresh + s.nodes.length
  afresh : aux'.afresh = aux.afresh + s.attackers.length
  asn : aux'.asn = aux.asn
  g_eq : g = { nodes := s.nodes.map (remap s.nodes aux.nfresh),
               attackers := s.attackers.map (remap s.attackers aux.afresh),
               _id_to_node := s._id_to_node.map (fun e => (e.1, remap s.nodes aux.nfresh e.2)),
               _full_name_to_node := s._full_name_to_node.map (fun e => (e.1, remap s.nodes aux.nfresh e.2)),
               _id_to_attacker := s._id_to_attacker.map (fun e => (e.1, remap s.attackers aux.afresh e.2)),
               next_node_id := s.next_node_id, next_attacker_id := s.next_attacker_id }

theorem getD_mem {l : List Nat} {i : Nat} (hi : i < l.length) : l.getD i 0 ∈ l := by
  simp [List.getD_eq_getElem?_getD, hi]

theorem abs_of_facts (s : H) (aux : Aux) (g : PyGraph) (s' : H) (aux' : Aux) (hf : CopyFacts s aux g s' aux')
    (hn : s.nodes.Nodup) (ha : s.attackers.Nodup) :
    absS (s'.withGraph g) aux'.nfresh aux'.afresh = deepcopy (absS s aux.nfresh aux.afresh) := by
  have hg := hf.g_eq
  subst hg
  apply St_ext
  · funext x
    show absN (s'.n x) = (deepcopy (absS s aux.nfresh aux.afresh)).nobj x
    rw [deepcopy_nobj]
    show _ = if aux.nfresh ≤ x ∧ x < aux.nfresh + s.nodes.length then
      copyN (absS s aux.nfresh aux.afresh) (absN (s.n (s.nodes.getD (x - aux.nfresh) 0))) else absN (s.n x)
    by_cases hx : aux.nfresh ≤ x ∧ x < aux.nfresh + s.nodes.length
    · rw [if_pos hx]
      have hi : x - aux.nfresh < s.nodes.length := by nomega
      have hxe : x = remap s.nodes aux.nfresh (s.nodes.getD (x - aux.nfresh) 0) := by
        rw [remap_getD hn _ _ hi]; nomega
      have hr := getD_mem hi
      generalize s.nodes.getD (x - aux.nfresh) 0 = r at hxe hr
      subst hxe
      rw [hf.nodeCopy r hr]
      rfl
    · rw [if_neg hx, hf.nodeOther x (by nomega)]
  · exact hf.nfresh
  · funext x
    show absA (s'.a x) = (deepcopy (absS s aux.nfresh aux.afresh)).aobj x
    rw [deepcopy_aobj]
    show _ = if aux.afresh ≤ x ∧ x < aux.afresh + s.attackers.length then
      copyA (absS s aux.nfresh aux.afresh) (absA (s.a (s.attackers.getD (x - aux.afresh) 0))) else absA (s.a x)
    by_cases hx : aux.afresh ≤ x ∧ x < aux.afresh + s.attackers.length
    · rw [if_pos hx]
      have hi : x - aux.afresh < s.attackers.length := by nomega
      have hxe : x = remap s.attackers aux.afresh (s.attackers.getD (x - aux.afresh) 0) := by
        rw [remap_getD ha _ _ hi]; nomega
      have hr := getD_mem hi
      generalize s.attackers.getD (x - aux.afresh) 0 = r at hxe hr
      subst hxe
      rw [hf.attCopy r hr]
      rfl
    · rw [if_neg hx, hf.attOther x (by nomega)]
  · exact hf.afresh
  · rfl
  · rfl
  · rfl
  · rfl
  · rfl
  · rfl
  · rfl

theorem ok_bind' {α β : Type} (a : α) (f : α → Except PyErr β) : (Except.ok a >>= f) = f a := rfl

theorem graph_deepcopy_run (s : H) (aux : Aux) (h : Consistent (absS s aux.nfresh aux.afresh)) (hd : DictValsIn s) :
    ∃ g s' aux' memo', graph___deepcopy__ (s, aux, ({} : Memo)) = .ok (g, (s', aux', memo')) ∧
      CopyFacts s aux g s' aux' := by
  have hNn : s.nodes.Nodup := h.nodes.nodup
  have hNf : ∀ r ∈ s.nodes, r < aux.nfresh := h.nodes.fresh
  have hAn : s.attackers.Nodup := h.attIdx.nodup
  have hAf : ∀ a ∈ s.attackers, a < aux.afresh := h.attIdx.fresh
  have hch : ∀ p ∈ s.nodes, ∀ c ∈ (s.n p).children, c ∈ s.nodes := h.nodes.children_mem
  have hpa : ∀ c ∈ s.nodes, ∀ p ∈ (s.n c).parents, p ∈ s.nodes := h.nodes.parents_mem
  have hcb : ∀ n ∈ s.nodes, ∀ a ∈ (s.n n).compromised_by, a ∈ s.attackers := h.comp.compBy_mem
  have hen : ∀ a ∈ s.attackers, ∀ n ∈ (s.a a).entry_points, n ∈ s.nodes := h.comp.entry_mem
  have hre : ∀ a ∈ s.attackers, ∀ n ∈ (s.a a).reached_attack_steps, n ∈ s.nodes := h.comp.reached_mem
  clear h
  rw [graph_deepcopy_eq]
  -- phase 1
  obtain ⟨s1, aux1, memo1, hrun1, ha1, hattr1, hcopy1, hother1, hnf1, haf1, hasn1, hma1, hmemo1⟩ :=
    phase1 s.nodes s aux ({} : Memo) ({ ({} : PyGraph) with nodes := [] } : PyGraph) hNn hNf (fun _ _ => rfl)
  dsimp only
  rw [hrun1, ok_bind']
  dsimp only
  have hmem1 : ∀ r ∈ s.nodes, dictGet memo1.n r = some (remap s.nodes aux.nfresh r) := fun r hr => by
    rw [hmemo1 r, if_pos hr]
  have hge : ∀ r ∈ s.nodes, aux.nfresh ≤ remap s.nodes aux.nfresh r := fun r hr => remap_ge _ hr
  have hinj : ∀ r ∈ s.nodes, ∀ r' ∈ s.nodes, remap s.nodes aux.nfresh r = remap s.nodes aux.nfresh r' → r = r' :=
    fun r hr r' hr' e => remap_inj _ hr hr' e
  have hold1 : ∀ r ∈ s.nodes, s1.n r = s.n r := fun r hr => hother1 r (Or.inl (hNf r hr))
  -- phase 2
  obtain ⟨s2, hrun2, ha2, hattr2, hcopy2, hother2⟩ := relink_loop gcLink (remap s.nodes aux.nfresh) aux1 memo1
    (fun o c => (∀ p ∈ o.parents, p ∈ s.nodes) ∧ (∀ p ∈ o.children, p ∈ s.nodes) ∧ c.parents = [] ∧ c.children = [])
    (fun o c => { c with parents := o.parents.map (remap s.nodes aux.nfresh),
                         children := o.children.map (remap s.nodes aux.nfresh) })
    aux.nfresh s.nodes
    (fun s' r hr hQ => gcLink_step _ s' aux1 memo1 r (hmem1 r hr)
      (Nat.ne_of_lt (Nat.lt_of_lt_of_le (hNf r hr) (hge r hr)))
      (fun p hp => hmem1 p (hQ.1 p hp)) (fun p hp => hmem1 p (hQ.2.1 p hp)) hQ.2.2)
    hinj hNf hge hNn s1
    (fun r hr => by
      rw [hold1 r hr, hcopy1 r hr]
      exact ⟨hpa r hr, hch r hr, rfl, rfl⟩)
  rw [hattr1.1, hrun2, ok_bind']
  dsimp only
  have hne12 : ∀ r ∈ s.nodes, ∀ r' ∈ s.nodes, r ≠ remap s.nodes aux.nfresh r' := fun r hr r' hr' =>
    Nat.ne_of_lt (Nat.lt_of_lt_of_le (hNf r hr) (hge r' hr'))
  have hold2 : ∀ r ∈ s.nodes, s2.n r = s.n r := fun r hr => by
    rw [hother2 r (fun r' hr' => hne12 r hr r' hr'), hold1 r hr]
  have hafe : aux.afresh = aux1.afresh := haf1.symm
  rw [hafe] at hAf
  -- phase 4
  obtain ⟨s3, aux3, memo3, hrun3, hn3, hattr3, hcopy3, hother3, haf3, hnf3, hasn3, hmn3, hmemo3⟩ :=
    phase4 (remap s.nodes aux.nfresh) s.attackers [] s2 aux1 memo1 hAn hAf (fun a _ => by rw [hma1]; rfl)
      (fun a ha e he => by rw [ha2, ha1] at he; exact hmem1 e (hen a ha e he))
      (fun a ha e he => by rw [ha2, ha1] at he; exact hmem1 e (hre a ha e he))
  rw [deepcopyList_eq, hattr2.2.1, hattr1.2.1, hrun3, ok_bind']
  dsimp only
  rw [← hafe] at hAf hcopy3 hother3 haf3 hmemo3 ⊢
  clear hrun3 hrun2 hrun1
  have hmem3 : ∀ a ∈ s.attackers, dictGet memo3.a a = some (remap s.attackers aux.afresh a) := fun a ha => by
    rw [hmemo3 a, if_pos ha]
  have hmem3n : ∀ r ∈ s.nodes, dictGet memo3.n r = some (remap s.nodes aux.nfresh r) := fun r hr => by
    rw [hmn3]; exact hmem1 r hr
  -- phase 3
  obtain ⟨s4, hrun4, ha4, hattr4, hcopy4, hother4⟩ := relink_loop gcComp (remap s.nodes aux.nfresh) aux3 memo3
    (fun o c => (∀ a ∈ o.compromised_by, a ∈ s.attackers) ∧ c.compromised_by = [])
    (fun o c => { c with compromised_by := o.compromised_by.map (remap s.attackers aux.afresh) })
    aux.nfresh s.nodes
    (fun s' r hr hQ => gcComp_step _ _ s' aux3 memo3 r (hmem3n r hr) (fun a ha => hmem3 a (hQ.1 a ha)) hQ.2)
    hinj hNf hge hNn s3
    (fun r hr => by
      rw [hn3, hold2 r hr, hcopy2 r hr, hcopy1 r hr]
      exact ⟨hcb r hr, rfl⟩)
  rw [hattr3.1, hattr2.1, hattr1.1, hrun4, ok_bind']
  dsimp only
  have hsga : SameGraphAttrs s4 s := sga_trans hattr4 (sga_trans hattr3 (sga_trans hattr2 hattr1))
  -- the dictionaries
  have hd1 := deepcopyDict_hits attacker___deepcopy__ (s4, aux3, memo3) (remap s.attackers aux.afresh) s._id_to_attacker
    (fun e he => attacker_deepcopy_memo _ _ _ (hmem3 e.2 (hd.2.2 e he)))
  have hd2 := deepcopyDict_hits node___deepcopy__ (s4, aux3, memo3) (remap s.nodes aux.nfresh) s._id_to_node
    (fun e he => node_deepcopy_memo _ _ _ (hmem3n e.2 (hd.1 e he)))
  have hd3 := deepcopyDict_hits node___deepcopy__ (s4, aux3, memo3) (remap s.nodes aux.nfresh) s._full_name_to_node
    (fun e he => node_deepcopy_memo _ _ _ (hmem3n e.2 (hd.2.1 e he)))
  rw [hsga.2.2.2.2.1, hd1, ok_bind']
  dsimp only
  rw [hsga.2.2.1, hd2, ok_bind']
  dsimp only
  rw [hsga.2.2.2.1, hd3, ok_bind']
  dsimp only
  have hout : ∀ x : Nat, (x < aux.nfresh ∨ aux.nfresh + s.nodes.length ≤ x) →
      ∀ r ∈ s.nodes, x ≠ remap s.nodes aux.nfresh r := fun x hx r hr => by
    have h1 := hge r hr
    have h2 : remap s.nodes aux.nfresh r < aux.nfresh + s.nodes.length := remap_lt _ hr
    nomega
  refine ⟨_, s4, aux3, memo3, rfl, ?_⟩
  constructor
  · intro r hr
    rw [hcopy4 r hr, hn3, hold2 r hr, hcopy2 r hr, hold1 r hr, hcopy1 r hr]
  · intro x hx
    rw [hother4 x (hout x hx), hn3, hother2 x (hout x hx), hother1 x hx]
  · intro a ha
    rw [ha4, hcopy3 a ha, ha2, ha1]
  · intro x hx
    rw [ha4, hother3 x hx, ha2, ha1]
  · exact hsga
  · rw [hnf3, hnf1]
  · exact haf3
  · rw [hasn3, hasn1]
  · simp only [List.nil_append, hsga.2.2.2.2.2.1, hsga.2.2.2.2.2.2]

/-- in an association list without duplicate keys every entry is the one `dget` finds -/
theorem dget_of_mem_keys_nodup {κ : Type} [DecidableEq κ] (d : List (κ × Nat)) (hk : (d.map (·.1)).Nodup)
    (e : κ × Nat) (he : e ∈ d) : dget d e.1 = some e.2 := by
  induction d with
  | nil => cases he
  | cons x d ih =>
    rw [List.map_cons, List.nodup_cons] at hk
    rw [dget_cons]
    rcases List.mem_cons.1 he with rfl | he'
    · rw [if_pos rfl]
    · have : x.1 ≠ e.1 := fun e' => hk.1 (e' ▸ List.mem_map_of_mem he')
      rw [if_neg this]; exact ih hk.2 he'

end CP
open CP

/-- under `Consistent`, dictionaries without duplicate keys hold only objects of the graph -/
theorem dictValsIn_of_keysNodup (s : H) (nf af : Nat) (h : Consistent (absS s nf af)) (hk : DictKeysNodup s) :
    DictValsIn s :=
  ⟨fun e he => ((h.idx.id_exact e.1 e.2).1 (dget_of_mem_keys_nodup _ hk.1 e he)).1,
   fun e he => (h.idx.name_sound e.1 e.2 (dget_of_mem_keys_nodup _ hk.2.1 e he)).1,
   fun e he => ((h.attIdx.id_exact e.1 e.2).1 (dget_of_mem_keys_nodup _ hk.2.2 e he)).1⟩

/-- `copy.deepcopy(graph)` (empty memo) on a consistent graph whose objects lie below the allocation counters and whose
index dictionaries hold only objects of the graph: it returns; the returned graph object `g`, read in the new stores,
is the hand model's `deepcopy`; no object of the original is written (heap level: every old reference holds the same
record), the graph attributes of the original are untouched, exactly `|nodes|` node objects and `|attackers|` attacker
objects are allocated, and the model-side attribute `asn` is untouched -/
theorem graph_deepcopy_tie_core (s : H) (aux : Aux) (h : Consistent (absS s aux.nfresh aux.afresh)) (hd : DictValsIn s) :
    ∃ g s' aux' memo', graph___deepcopy__ (s, aux, ({} : Memo)) = .ok (g, (s', aux', memo')) ∧
      absS (s'.withGraph g) aux'.nfresh aux'.afresh = deepcopy (absS s aux.nfresh aux.afresh) ∧
      (∀ r, r < aux.nfresh → s'.n r = s.n r) ∧ (∀ a, a < aux.afresh → s'.a a = s.a a) ∧
      SameGraphAttrs s' s ∧
      aux'.nfresh = aux.nfresh + s.nodes.length ∧ aux'.afresh = aux.afresh + s.attackers.length ∧ aux'.asn = aux.asn := by
  obtain ⟨g, s', aux', memo', hrun, hf⟩ := graph_deepcopy_run s aux h hd
  exact ⟨g, s', aux', memo', hrun, abs_of_facts s aux g s' aux' hf h.nodes.nodup h.attIdx.nodup,
    fun r hr => hf.nodeOther r (Or.inl hr), fun a ha => hf.attOther a (Or.inl ha), hf.attrs, hf.nfresh, hf.afresh, hf.asn⟩

/-- the statement asked for (`graph_deepcopy_tie`) with the one extra hypothesis it needs: the index dictionaries have no
duplicate keys.  Without it the statement is false: `Consistent` constrains only the entries a lookup finds, while
`deepcopyDict` copies every entry — a shadowed entry whose value is not a node of the graph makes
`node___deepcopy__` allocate one more object. -/
theorem graph_deepcopy_tie_partial (s : H) (aux : Aux) (h : Consistent (absS s aux.nfresh aux.afresh))
    (hk : DictKeysNodup s) :
    ∃ g s' aux' memo', graph___deepcopy__ (s, aux, ({} : Memo)) = .ok (g, (s', aux', memo')) ∧
      absS (s'.withGraph g) aux'.nfresh aux'.afresh = deepcopy (absS s aux.nfresh aux.afresh) ∧
      (∀ r, r < aux.nfresh → s'.n r = s.n r) ∧ (∀ a, a < aux.afresh → s'.a a = s.a a) ∧
      SameGraphAttrs s' s ∧
      aux'.nfresh = aux.nfresh + s.nodes.length ∧ aux'.afresh = aux.afresh + s.attackers.length ∧ aux'.asn = aux.asn :=
  graph_deepcopy_tie_core s aux h (dictValsIn_of_keysNodup s _ _ h hk)

/-! ### the counterexample to the statement without a hypothesis on the dictionaries -/

/-- a consistent heap with a shadowed entry in `_id_to_node` whose value (7) is not a node of the graph -/
def cexHeap : H :=
  { n := fun _ => { id := some 1 }, nodes := [0], _id_to_node := [(1, 0), (1, 7)], next_node_id := 2 }

theorem cexHeap_consistent : Consistent (absS cexHeap 1 0) := by
  refine ⟨⟨?_, ?_, ?_, ?_, ?_⟩, ⟨?_, ?_, ?_⟩, ⟨?_, ?_, ?_, ?_⟩, ⟨?_, ?_, ?_, ?_, ?_, ?_⟩⟩
  · simp [absS, cexHeap]
  · simp [absS, cexHeap]
  · simp [absS, cexHeap, absN]
  · simp [absS, cexHeap, absN]
  · simp [absS, cexHeap, absN]
  · intro k r
    by_cases hk : (1 : Int) = k
    · subst hk; simp [absS, cexHeap, absN, dget]; omega
    · simp [absS, cexHeap, absN, dget, hk]
  · simp [absS, cexHeap, absN]
  · simp [absS, cexHeap, dget]
  · simp [absS, cexHeap]
  · simp [absS, cexHeap]
  · simp [absS, cexHeap, dget]
  · simp [absS, cexHeap]
  · simp [absS, cexHeap]
  · simp [absS, cexHeap]
  · simp [absS, cexHeap, absN]
  · simp [absS, cexHeap]
  · simp [absS, cexHeap, absN]
  · simp [absS, cexHeap]

theorem cexHeap_run : (graph___deepcopy__ (cexHeap, { nfresh := 1 }, ({} : Memo))).map (fun r => r.2.2.1.nfresh) = .ok 3 := by
  rfl

/-- `graph_deepcopy_tie` without a hypothesis on the dictionaries is false (already its allocation count) -/
theorem graph_deepcopy_tie_false : ¬ ∀ (s : H) (aux : Aux), Consistent (absS s aux.nfresh aux.afresh) →
    ∃ g s' aux' memo', graph___deepcopy__ (s, aux, ({} : Memo)) = .ok (g, (s', aux', memo')) ∧
      aux'.nfresh = aux.nfresh + s.nodes.length := by
  intro hall
  obtain ⟨g, s', aux', memo', hrun, hnf⟩ := hall cexHeap { nfresh := 1 } cexHeap_consistent
  have h3 := cexHeap_run
  rw [hrun] at h3
  have h3' : aux'.nfresh = 3 := by injection h3
  rw [h3'] at hnf
  exact absurd hnf (by decide)

end MalVerif.Py.Tie
