import MalVerif.Py.TieNeo4jModel
import MalVerif.Py.TieNeo4jGraph
import MalVerif.Spec.Consistent
/-!
# The ingest functions on a database that is not empty, and `GraphOK` from the structural invariant

* `Db.append`, `store_append`: storing a subgraph into a database `db0` is storing it into the empty database and
  appending the result to `db0`, the positions of the new relationships shifted by the number of nodes of `db0`;
* `ingest_model_run_gen`, `ingest_attack_graph_heap_gen`: the closed forms of the two translated ingest functions
  without the assumption `delete = True ∨ db = {}`: what is stored is appended to what was there (`delete = False`);
* `graphOK_of_consistent`: `GraphOK` follows from the structural invariant `AGS.Consistent` of the attack-graph state
  machine (C09) for a heap whose nodes have ids (`add_node` has run on them) and known types: the ids are then
  pairwise distinct because the id index is exact.
-/
namespace MalVerif.PyN
open MalVerif

/-- the database `d` (stored into the empty database) appended to `db0` -/
def Db.append (db0 d : Db) : Db :=
  { nodes := db0.nodes ++ d.nodes
    rels := db0.rels ++ d.rels.map (fun r => ⟨db0.nodes.length + r.src, r.type, db0.nodes.length + r.dst⟩) }

theorem Db.append_empty (d : Db) : Db.append {} d = d := by
  unfold Db.append
  cases d with
  | mk nodes rels =>
    simp only [Db.mk.injEq]
    refine ⟨List.nil_append _, ?_⟩
    show [] ++ List.map _ rels = rels
    rw [List.nil_append]
    conv => rhs; rw [← List.map_id rels]
    apply List.map_congr_left
    intro r _
    cases r
    simp

theorem store_append (objs : List NeoNode) (db0 : Db) (sub : NeoSubgraph) :
    Db.store objs db0 sub = Db.append db0 (Db.store objs {} sub) := by
  unfold Db.store Db.append
  simp only [Db.mk.injEq, List.nil_append, List.map_map, true_and]
  congr 1
  apply List.map_congr_left
  intro e _
  simp [Function.comp]

namespace TieM
open MalVerif.PyM

/-- closed form of the translated `ingest_model` on any database: with `delete = False` the nodes and relationships
are appended to what is stored -/
theorem ingest_model_run_gen (w : W) (s : H) (h : ModelOK s) (uri user pw db : String) (delete : Bool) :
    Gen.ingest_model w s uri user pw db delete = .ok
      { objs := w.objs ++ s.assets.map (nodeRec s)
        db := Db.append (if delete then {} else w.db)
          { nodes := s.assets.map (nodeRec s)
            rels := (toSet (s.associations.flatMap (linkRels s (refOf s w.objs.length)))).map (shift w.objs.length) } } := by
  rw [ingest_model_eq]
  generalize hw0 : (if delete = true then w.deleteAll ⟨uri, user, pw, db⟩ else w) = w0
  have ho : w0.objs = w.objs := by
    subst hw0; split <;> rfl
  have hd : w0.db = (if delete then {} else w.db) := by
    subst hw0
    cases delete <;> rfl
  rw [node_loop s s.assets w0 [] h.keys (fun _ _ e he => by cases he)]
  simp only [Except.bind, List.nil_append]
  rw [rel_loop s _ (refOf s w0.objs.length) (· ∈ s.assets)
    (fun a ha => lookup_zip s s.assets w0.objs.length a h.keys ha) s.associations []
    (fun l hl => ⟨h.left_live l hl, h.right_live l hl⟩)]
  simp only [List.nil_append]
  congr 1
  unfold finish W.commit neoTxCreate neoBegin dictValues
  simp only [List.nil_append, List.foldl_cons, List.foldl_nil]
  rw [map_snd_zipIdx, hd, ho, store_append]
  have hlen : s.assets.length = (s.assets.map (nodeRec s)).length := (List.length_map _).symm
  rw [hlen, store_block w.objs (s.assets.map (nodeRec s))]
  · rfl
  · intro e he
    have := linkRels_ends s h w.objs.length e he
    rw [← hlen]; exact this

end TieM

namespace TieG
open MalVerif.Py

theorem main_heap_gen (s : H) (g : NeoGraph) (w : W)
    (hnd : (s.nodes.map (fun r => (s.n r).id)).Nodup)
    (hcl : ∀ r ∈ s.nodes, ∀ c ∈ (s.n r).children, c ∈ s.nodes) :
    main s g w = .ok { objs := w.objs ++ s.nodes.map (stepRec s), db := Db.append w.db (resultDb s) } := by
  unfold main
  rw [loop1 s s.nodes w [] hnd (by simp)]
  simp only [Except.bind, List.nil_append]
  have hget : ∀ r ∈ s.nodes, Py.dictGetE (idTable s s.nodes w.objs.length) (s.n r).id =
      .ok ((fun r => w.objs.length + pos s.nodes r) r) := by
    intro r hr
    unfold Py.dictGetE
    rw [idTable_get s s.nodes _ r hnd hr]
  rw [loop2 s _ (fun r => w.objs.length + pos s.nodes r) s.nodes []
    (fun r hr => ⟨hget r hr, fun c hc => hget c (hcl r hr c hc)⟩)]
  simp only [List.nil_append]
  unfold finish W.commit neoTxCreate neoBegin
  simp only [List.nil_append, List.foldl_cons, List.foldl_nil]
  rw [store_append, idTable_values]
  have hrels : (s.nodes.flatMap fun r => (s.n r).children.map fun c =>
      neoRel2 (w.objs.length + pos s.nodes r) (w.objs.length + pos s.nodes c)) =
      (edgePairs s).map (relOfPair w.objs.length) := by
    unfold edgePairs
    rw [List.map_flatMap]
    simp only [List.map_map]
    rfl
  have hL : ∀ e ∈ edgePairs s, e.1 < (s.nodes.map (stepRec s)).length ∧ e.2 < (s.nodes.map (stepRec s)).length := by
    intro e he
    unfold edgePairs at he
    rw [List.mem_flatMap] at he
    obtain ⟨r, hr, he⟩ := he
    obtain ⟨c, hc, rfl⟩ := List.mem_map.1 he
    rw [List.length_map]
    exact ⟨pos_lt hr, pos_lt (hcl r hr c hc)⟩
  have hst := store_fresh w.objs (s.nodes.map (stepRec s)) (edgePairs s) hL
  rw [List.length_map] at hst
  rw [hrels, hst]
  rfl

/-- closed form of the translated `ingest_attack_graph` on any database -/
theorem ingest_attack_graph_heap_gen (w : W) (s : Py.H) (uri user pw db : String) (delete : Bool)
    (hnd : (s.nodes.map (fun r => (s.n r).id)).Nodup)
    (hcl : ∀ r ∈ s.nodes, ∀ c ∈ (s.n r).children, c ∈ s.nodes) :
    Gen.ingest_attack_graph w s uri user pw db delete =
      .ok { objs := w.objs ++ s.nodes.map (stepRec s),
            db := Db.append (if delete then {} else w.db) (resultDb s) } := by
  rw [ingest_eq]
  cases delete with
  | true => rw [if_pos rfl]; exact main_heap_gen s _ (w.deleteAll _) hnd hcl
  | false => rw [if_neg (by decide)]; exact main_heap_gen s _ w hnd hcl

/-- `GraphOK` from the structural invariant of the attack-graph state machine: every reachable graph heap whose
nodes have ids and known types is `GraphOK` (the ids are pairwise distinct because the id index is exact) -/
theorem graphOK_of_consistent (s : Py.H) (nf af : Nat) (hc : AGS.Consistent (Py.absS s nf af))
    (hids : ∀ r ∈ s.nodes, (s.n r).id.isSome) (ht : ∀ r ∈ s.nodes, Py.KnownType (s.n r).type) : GraphOK s := by
  refine ⟨hids, ?_, hc.nodes.children_mem, ht⟩
  apply MS.nodup_map_of_inj _ _ hc.nodes.nodup
  intro r hr r' hr' e
  have e' : ((Py.absS s nf af).nobj r).id = ((Py.absS s nf af).nobj r').id := by
    show ((s.n r).id.getD 0) = ((s.n r').id.getD 0)
    rw [e]
  have h1 := (hc.idx.id_exact ((Py.absS s nf af).nobj r).id r).2 ⟨hr, rfl⟩
  have h2 := (hc.idx.id_exact ((Py.absS s nf af).nobj r).id r').2 ⟨hr', e'.symm⟩
  rw [h1] at h2
  exact Option.some.inj h2

end TieG
end MalVerif.PyN
