import MalVerif.Py.TieFromDictDefs
/-!
# `_from_dict`, third loop (the attackers)  =  `loadAtt` of the hand-written model

`fdAtt'` (the body of the third `for` loop of the generated `graph__from_dict`) against `AGS.loadAtt`:
a returning iteration is `loadAtt` on the abstracted state (`fdAtt_ok`), a raising iteration is rejected by the
model as well (`fdAtt_err`); `atts_phase` is the whole loop (`forIn_sim`).
-/
namespace MalVerif.Py.Tie.FD
open MalVerif.Py MalVerif.Py.Gen MalVerif.AGS MalVerif.AGraph MalVerif.Py.Tie.TG
open MalVerif.Ser (Key)
set_option linter.unusedVariables false

/-! ### the exception direction of `add_attacker` -/

/-- the exception direction of `add_attacker` (the normal-return direction is `add_attacker_tie` in TieGraph.lean):
if the translated `add_attacker` raises on a freshly constructed attacker (its `id` is `None`, so the guard
against objects that are already part of the graph does not fire), the model's `addAttacker` rejects -/
theorem add_attacker_error (s : H) (a : ARef) (aid : Option Int) (entry reached : List Int) (nf : Nat) (err : PyErr)
    (hid : (s.a a).id = none) (h : graph_add_attacker s a aid entry reached = .error err) :
    ∃ e', addAttacker (absS s nf a) (s.a a).name aid entry reached = .error e' := by
  rcases add_attacker_error_fresh s a aid entry reached nf err hid h with ⟨_, h⟩ | ⟨_, h⟩ <;> exact ⟨_, h⟩

/-! ### `addAttacker` overwrites the object at `afresh` -/

/-- `addAttacker` does not read the attacker object at `afresh` (it overwrites it first) -/
theorem addAttacker_aobj_fresh (t : St) (o : AttObj) (name : String) (aid : Option Int) (en re : List Int) :
    addAttacker { t with aobj := fun x => if x = t.afresh then o else t.aobj x } name aid en re =
      addAttacker t name aid en re := by
  rw [addAttacker_eq, addAttacker_eq]
  have : aaPre { t with aobj := fun x => if x = t.afresh then o else t.aobj x } name (aid.getD t.nextAtt) =
      aaPre t name (aid.getD t.nextAtt) := by
    unfold aaPre
    simp only
    congr 1
    funext x
    by_cases hx : x = t.afresh
    · rw [if_pos hx, if_pos hx]
    · rw [if_neg hx, if_neg hx, if_neg hx]
  show (if _ then _ else if _ then _ else
    let s2 := List.foldl (aaEntry t.afresh) (List.foldl (aaReach t.afresh)
      (aaPre { t with aobj := fun x => if x = t.afresh then o else t.aobj x } name (aid.getD t.nextAtt)) re) en
    _) = _
  rw [this]
  rfl

theorem absS_setA_fresh (s : H) (a : ARef) (o : PyAttacker) (nf : Nat) :
    absS (s.setA a o) nf a =
      { absS s nf a with aobj := fun x => if x = (absS s nf a).afresh then absA o else (absS s nf a).aobj x } := by
  unfold absS H.setA
  simp only
  congr 1
  funext x
  by_cases hx : x = a
  · rw [if_pos hx, if_pos hx]
  · rw [if_neg hx, if_neg hx]

/-! ### the conversion of the keys -/

/-- the error of the conversion of a list of keys: that of the first key that is no number (`ValueError`, or not modelled) -/
def mapMKeyErr (ks : List Key) : PyErr :=
  match ks.find? (fun k => k.toInt?.isNone) with | some k => keyIntErr k | none => .valueError

theorem mapM_keyInt (ks : List Key) :
    ks.mapM keyInt = match ks.mapM (·.toInt?) with | some l => .ok l | none => .error (mapMKeyErr ks) := by
  induction ks with
  | nil => rfl
  | cons k ks ih =>
    rw [List.mapM_cons, List.mapM_cons, ih]
    unfold keyInt
    cases hk : k.toInt? with
    | none => simp [mapMKeyErr, List.find?, hk]; rfl
    | some i =>
      cases ks.mapM (·.toInt?) with
      | none => simp [mapMKeyErr, List.find?, hk]; rfl
      | some l => rfl

/-! ### one iteration -/

theorem attShape_cases {d : PyDictA} (h : attShape d = true) :
    ∃ i nm em rm, dictGet d "id" = some (.int i) ∧ dictGet d "name" = some (.str nm) ∧
      dictGet d "entry_points" = some (.idmap em) ∧ dictGet d "reached_attack_steps" = some (.idmap rm) := by
  unfold attShape at h
  simp only [Bool.and_eq_true] at h
  obtain ⟨⟨⟨h1, h2⟩, h3⟩, h4⟩ := h
  have e1 : ∃ i, dictGet d "id" = some (.int i) := by
    revert h1; cases dictGet d "id" with
    | none => intro h; cases h
    | some x => cases x <;> intro h <;> first | exact ⟨_, rfl⟩ | cases h
  have e2 : ∃ i, dictGet d "name" = some (.str i) := by
    revert h2; cases dictGet d "name" with
    | none => intro h; cases h
    | some x => cases x <;> intro h <;> first | exact ⟨_, rfl⟩ | cases h
  have e3 : ∃ i, dictGet d "entry_points" = some (.idmap i) := by
    revert h3; cases dictGet d "entry_points" with
    | none => intro h; cases h
    | some x => cases x <;> intro h <;> first | exact ⟨_, rfl⟩ | cases h
  have e4 : ∃ i, dictGet d "reached_attack_steps" = some (.idmap i) := by
    revert h4; cases dictGet d "reached_attack_steps" with
    | none => intro h; cases h
    | some x => cases x <;> intro h <;> first | exact ⟨_, rfl⟩ | cases h
  obtain ⟨i, e1⟩ := e1; obtain ⟨nm, e2⟩ := e2; obtain ⟨em, e3⟩ := e3; obtain ⟨rm, e4⟩ := e4
  exact ⟨i, nm, em, rm, e1, e2, e3, e4⟩

/-- the heap after the constructor call `Attacker(name = nm, entry_points = [], reached_attack_steps = [])` -/
def attS1 (st : Aux × H) (nm : String) : H :=
  st.2.setA st.1.afresh ({ name := nm, entry_points := [], reached_attack_steps := [] } : PyAttacker)

/-- the loop body on a well-shaped attacker dictionary -/
theorem fdAtt'_eq (e : String × PyDictA) (st : Aux × H) (i : Int) (nm : String) (em rm : List (Key × String))
    (h1 : dictGet e.2 "id" = some (.int i)) (h2 : dictGet e.2 "name" = some (.str nm))
    (h3 : dictGet e.2 "entry_points" = some (.idmap em))
    (h4 : dictGet e.2 "reached_attack_steps" = some (.idmap rm)) :
    fdAtt' e st =
      ((em.map (·.1)).mapM keyInt).bind fun en =>
      ((rm.map (·.1)).mapM keyInt).bind fun re =>
      (graph_add_attacker (attS1 st nm) st.1.afresh (some i) en re).bind fun s =>
      .ok (ForInStep.yield ({ st.1 with afresh := st.1.afresh + 1 }, s)) := by
  unfold fdAtt'
  simp only [dictGetE, h1, h2, h3, h4, atomStr, atomToInt, atomKeys, keysInts, bind, Except.bind, pure, Except.pure]
  rfl

/-- the model's step on the same dictionary -/
theorem loadAtt_eq (t : St) (e : String × PyDictA) (i : Int) (nm : String) (em rm : List (Key × String))
    (h1 : dictGet e.2 "id" = some (.int i)) (h2 : dictGet e.2 "name" = some (.str nm))
    (h3 : dictGet e.2 "entry_points" = some (.idmap em))
    (h4 : dictGet e.2 "reached_attack_steps" = some (.idmap rm)) :
    loadAtt t (e.1, attEntryOf e.2) =
      match (em.map (·.1)).mapM (·.toInt?), (rm.map (·.1)).mapM (·.toInt?) with
      | some en, some re => addAttacker t nm (some i) en re
      | _, _ => .error .valueError := by
  unfold loadAtt attEntryOf
  simp only [h1, h2, h3, h4, intOf, strOf, optStrOf, keysOf, Option.getD]
  rfl

/-- the model's `addAttacker` before and after the constructor write -/
theorem addAttacker_attS1 (st : Aux × H) (nm : String) (aid : Option Int) (en re : List Int) :
    addAttacker (absS (attS1 st nm) st.1.nfresh st.1.afresh) nm aid en re =
      addAttacker (absX st) nm aid en re := by
  unfold attS1
  rw [absS_setA_fresh]
  exact addAttacker_aobj_fresh (absS st.2 st.1.nfresh st.1.afresh) _ nm aid en re

theorem attS1_name (st : Aux × H) (nm : String) : ((attS1 st nm).a st.1.afresh).name = nm := by
  show (if st.1.afresh = st.1.afresh then _ else _ : PyAttacker).name = nm
  rw [if_pos rfl]

theorem attS1_id (st : Aux × H) (nm : String) : ((attS1 st nm).a st.1.afresh).id = none := by
  show (if st.1.afresh = st.1.afresh then _ else _ : PyAttacker).id = none
  rw [if_pos rfl]

theorem attS1_fresh (st : Aux × H) (nm : String) :
    ((attS1 st nm).a st.1.afresh).entry_points = [] ∧ ((attS1 st nm).a st.1.afresh).reached_attack_steps = [] := by
  refine ⟨?_, ?_⟩
  · show (if st.1.afresh = st.1.afresh then _ else _ : PyAttacker).entry_points = []
    rw [if_pos rfl]
  · show (if st.1.afresh = st.1.afresh then _ else _ : PyAttacker).reached_attack_steps = []
    rw [if_pos rfl]

/-- one iteration of the attacker loop that returns -/
theorem fdAtt_ok (e : String × PyDictA) (he : attShape e.2 = true) (st : Aux × H) (r : ForInStep (Aux × H))
    (h : fdAtt' e st = .ok r) :
    ∃ st', r = .yield st' ∧ loadAtt (absX st) (e.1, attEntryOf e.2) = .ok (absX st') := by
  obtain ⟨i, nm, em, rm, h1, h2, h3, h4⟩ := attShape_cases he
  rw [fdAtt'_eq e st i nm em rm h1 h2 h3 h4] at h
  rw [loadAtt_eq (absX st) e i nm em rm h1 h2 h3 h4]
  obtain ⟨en, hen, h⟩ := bind_ok h
  obtain ⟨re, hre, h⟩ := bind_ok h
  obtain ⟨s', hs', h⟩ := bind_ok h
  cases h
  rw [mapM_keyInt] at hen hre
  cases hen' : (em.map (·.1)).mapM (·.toInt?) with
  | none => rw [hen'] at hen; cases hen
  | some en' =>
    rw [hen'] at hen; cases hen
    cases hre' : (rm.map (·.1)).mapM (·.toInt?) with
    | none => rw [hre'] at hre; cases hre
    | some re' =>
      rw [hre'] at hre; cases hre
      refine ⟨_, rfl, ?_⟩
      have t := add_attacker_tie (attS1 st nm) s' st.1.afresh (some i) en re st.1.nfresh (attS1_fresh st nm) hs'
      rw [attS1_name, addAttacker_attS1] at t
      exact t

/-- one iteration that raises: the model rejects too -/
theorem fdAtt_err (e : String × PyDictA) (he : attShape e.2 = true) (st : Aux × H) (err : PyErr)
    (h : fdAtt' e st = .error err) : ∃ e', loadAtt (absX st) (e.1, attEntryOf e.2) = .error e' := by
  obtain ⟨i, nm, em, rm, h1, h2, h3, h4⟩ := attShape_cases he
  rw [fdAtt'_eq e st i nm em rm h1 h2 h3 h4] at h
  rw [loadAtt_eq (absX st) e i nm em rm h1 h2 h3 h4]
  rw [mapM_keyInt, mapM_keyInt] at h
  cases hen' : (em.map (·.1)).mapM (·.toInt?) with
  | none => exact ⟨_, rfl⟩
  | some en =>
    cases hre' : (rm.map (·.1)).mapM (·.toInt?) with
    | none => exact ⟨_, rfl⟩
    | some re =>
      rw [hen', hre'] at h
      simp only [ok_bind] at h
      cases hs : graph_add_attacker (attS1 st nm) st.1.afresh (some i) en re with
      | ok s' => rw [hs] at h; cases h
      | error e1 =>
        obtain ⟨e', t⟩ := add_attacker_error (attS1 st nm) st.1.afresh (some i) en re st.1.nfresh e1 (attS1_id st nm) hs
        rw [attS1_name, addAttacker_attS1] at t
        exact ⟨e', t⟩

/-- the whole loop -/
theorem atts_phase (atts : PyDictD) (hs : ∀ e ∈ atts, attShape e.2 = true) (st : Aux × H) :
    (∀ st', forIn atts st fdAtt' = .ok st' →
      (atts.map (fun e => (e.1, attEntryOf e.2))).foldlM loadAtt (absX st) = .ok (absX st')) ∧
    (∀ err, forIn atts st fdAtt' = .error err →
      ∃ e', (atts.map (fun e => (e.1, attEntryOf e.2))).foldlM loadAtt (absX st) = .error e') := by
  have sim := forIn_sim fdAtt' (fun (t : St) (e : String × PyDictA) => loadAtt t (e.1, attEntryOf e.2)) absX
    (fun e => attShape e.2 = true) (fun _ => True)
    (fun x st r hx _ hb => by
      obtain ⟨st', hr, hl⟩ := fdAtt_ok x hx st r hb
      exact ⟨st', hr, trivial, hl⟩)
    (fun x st e hx _ hb => fdAtt_err x hx st e hb)
    atts hs st trivial
  rw [List.foldlM_map]
  exact ⟨fun st' h => (sim.1 st' h).2, sim.2⟩

end MalVerif.Py.Tie.FD
