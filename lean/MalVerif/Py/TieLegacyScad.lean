import MalVerif.Py.GenLegacy.Securicad
import MalVerif.Py.TieLegacyBase
namespace MalVerif.PyLeg.Tie
open MalVerif MalVerif.PyM MalVerif.PyM.Gen MalVerif.PyM.Tie MalVerif.PyLeg MalVerif.PyLeg.Gen MalVerif.Legacy
open MalVerif.Ser (Key)

/-- the state of a loop of the generated loader that contains `return`: the pending return value and the heap -/
abbrev LS := Option (Option H) × H

def scadDefBody (fac : Factory) (asset : ARef) : ScadEv → H → Except LErr (ForInStep H) := fun subchild s => do
  let defense_name ← pyDecap subchild.fst
  let s ← forIn (scadSub subchild) s (fun distrib s => do
    let s ← forIn (scadSub distrib) s (fun d s =>
      if True then do
        let s ← pjsSetDefense fac s asset (PyJ.str defense_name) d.snd
        pure (ForInStep.yield s)
      else pure (ForInStep.yield s))
    pure (ForInStep.yield s))
  pure (ForInStep.yield s)

def scadObjectBody (env : ModelEnv) (fac : Factory) : ScadObject → LS → Except LErr (ForInStep LS) := fun child st =>
  if (child.metaConcept == "Attacker") = true then do
    let r_1 ← newAttachment st.snd PyJ.null
    pure (ForInStep.yield (none,
      model_add_attacker (r_1.fst.setT r_1.snd { r_1.fst.t r_1.snd with entry_points := [] }) env r_1.snd
        (some child.id)) )
  else
    if (!nsHasAsset fac child.metaConcept) = true then pure (ForInStep.done (some none, st.snd) )
    else do
      let r_2 ← nsNewAsset fac st.snd (PyJ.str child.metaConcept) (PyJ.str child.name)
      let s ← forIn (scadEvidence child) r_2.fst (scadDefBody fac r_2.snd)
      let s ← liftPy (model_add_asset s env r_2.snd (some child.id) true)
      pure (ForInStep.yield (none, s) )

def scadEpBranch (env : ModelEnv) (attId tgtId : Int) (prop : String) (s : H) : Except LErr (ForInStep LS) :=
  match model_get_attacker_by_id s env attId with
  | some attacker_4 =>
    match model_get_asset_by_id s env tgtId with
    | some target_asset_5 =>
      pure (ForInStep.yield (none, attachment_add_entry_point s env attacker_4 target_asset_5 (pySplitDotFirst prop)) )
    | _ => pure (ForInStep.done (some none, s) )
  | _ => pure (ForInStep.done (some none, s) )

def scadLinkBranch (env : ModelEnv) (lg : LangGraphView) (fac : Factory) (child : ScadAssoc) (s : H) :
    Except LErr (ForInStep LS) :=
  match model_get_asset_by_id s env child.targetObject with
  | some left_asset_6 =>
    match model_get_asset_by_id s env child.sourceObject with
    | some right_asset_7 => do
      let r ← lg.get_association_by_fields_and_assets child.sourceProperty child.targetProperty
          (s.a left_asset_6).type (s.a right_asset_7).type
      match r with
      | some lang_graph_assoc_8 => do
        let r ← facAssocBySignature fac lang_graph_assoc_8.name lang_graph_assoc_8.leftAsset
            lang_graph_assoc_8.rightAsset
        match r with
        | some assoc_name_9 => do
          let r_10 ← nsNewAssoc fac s (PyJ.str assoc_name_9)
          let s ← pjsSetField fac r_10.fst r_10.snd (PyJ.str child.sourceProperty) (List.map some [left_asset_6])
          let s ← pjsSetField fac s r_10.snd (PyJ.str child.targetProperty) (List.map some [right_asset_7])
          let s ← liftPy (model_add_association s env r_10.snd)
          pure (ForInStep.yield (none, s) )
        | _ => pure (ForInStep.done (some none, s) )
      | _ => do
        throw (LErr.py PyErr.lookupError)
        pure (ForInStep.yield (none, s) )
    | _ => pure (ForInStep.done (some none, s) )
  | _ => pure (ForInStep.done (some none, s) )

def scadAssocBody (env : ModelEnv) (lg : LangGraphView) (fac : Factory) :
    ScadAssoc → LS → Except LErr (ForInStep LS) := fun child st =>
  if (child.sourceProperty == "firstSteps") = true then
    scadEpBranch env child.sourceObject child.targetObject child.targetProperty st.snd
  else if (child.targetProperty == "firstSteps") = true then
    scadEpBranch env child.targetObject child.sourceObject child.sourceProperty st.snd
  else scadLinkBranch env lg fac child st.snd

/-- the generated loader, in terms of the loop bodies -/
theorem scad_loader_eq (files : Files) (env : ModelEnv) (path : String) (lg : LangGraphView) (fac : Factory) :
    securicad_load_model_from_scad_archive files env path lg fac = (do
      let root ← files.eom path
      let s ← newModel (PyJ.str path)
      let st ← forIn root.objects ((none, s) : LS) (scadObjectBody env fac)
      match st.fst with
      | some r => pure r
      | none => do
        let st ← forIn root.associations ((none, st.snd) : LS) (scadAssocBody env lg fac)
        match st.fst with
        | some r => pure r
        | none => pure (some st.snd)) := by
  unfold securicad_load_model_from_scad_archive scadObjectBody scadDefBody scadAssocBody scadEpBranch scadLinkBranch
  simp only []
  congr 1; funext root; congr 1; funext s; congr 1
  funext st
  obtain ⟨r, s'⟩ := st
  cases r with
  | some r => rfl
  | none =>
    dsimp only
    congr 1
    funext st; obtain ⟨r, s'⟩ := st; cases r <;> rfl

end MalVerif.PyLeg.Tie
