import MalVerif.Py.GenLegacy.Securicad
import MalVerif.Py.TieLegacyBase
/-!
# Tie of the translated securiCAD loader (`load_model_from_scad_archive`) to `Legacy.loadScad`

* `scadObjectBody`, `scadAssocBody` (with `scadDefBody`, `scadEpBranch`, `scadLinkBranch`, `scadLinkRun`) are the bodies
  of the two loops of the GENERATED `securicad_load_model_from_scad_archive`, written down once more by hand;
  `scad_loader_eq` ties them to the generated function by unfolding, so a change of the Python source breaks it.  The
  loops contain `return None`: their state is `LS = Option (Option H) × H` (pending return value, heap).
* `StepSimR` / `loop_simR`: the simulation argument for such a loop against a `foldlM` of the hand model; Python's
  `return None` is the `lookupError` of the hand model, an exception is its error of the same class (`errAbsL`,
  `ErrAgree`).
* Stage 1: `scad_object_sim`, `scad_objects_loop` (objects loop = fold of `Legacy.loadScadObject`).
* Stage 2: `scad_assoc_sim` (associations loop body = `Legacy.loadScadAssoc`).
* Stage 3: `scad_loader_sim_class` (the whole loader = `loadScadFrom … (abs (emptyModel path))`, with the error class);
  `scad_loader_sim` (accepts / rejects only) is its corollary.
* `cex_python_raises` / `cex_hand_accepts`: why `ObjWf.noEmpty` is assumed.
-/
namespace MalVerif.PyLeg.Tie
open MalVerif MalVerif.PyM MalVerif.PyM.Gen MalVerif.PyM.Tie MalVerif.PyLeg MalVerif.PyLeg.Gen MalVerif.Legacy
open MalVerif.Ser (Key)

/-- the state of a loop of the generated loader that contains `return`: the pending return value and the heap -/
abbrev LS := Option (Option H) × H

def scadDefBody (fac : Factory) (asset : ARef) : ScadEv → H → Except LErr (ForInStep H) := fun subchild s => do
  let defense_name ← pyDecap subchild.fst
  let s ← forIn (scadSub subchild) s (fun distrib s => do
    let s ← forIn (scadSub distrib) s (fun d s =>
      if True then do
        let s ← pjsSetDefense fac s asset (PyJ.str defense_name) d.snd
        pure (ForInStep.yield s)
      else pure (ForInStep.yield s))
    pure (ForInStep.yield s))
  pure (ForInStep.yield s)

def scadObjectBody (env : ModelEnv) (fac : Factory) : ScadObject → LS → Except LErr (ForInStep LS) := fun child st =>
  if (child.metaConcept == "Attacker") = true then do
    let r_1 ← newAttachment st.snd PyJ.null
    pure (ForInStep.yield (none,
      model_add_attacker (r_1.fst.setT r_1.snd { r_1.fst.t r_1.snd with entry_points := [] }) env r_1.snd
        (some child.id)))
  else
    if (!nsHasAsset fac child.metaConcept) = true then pure (ForInStep.done (some none, st.snd))
    else do
      let r_2 ← nsNewAsset fac st.snd (PyJ.str child.metaConcept) (PyJ.str child.name)
      let s ← forIn (scadEvidence child) r_2.fst (scadDefBody fac r_2.snd)
      let s ← liftPy (model_add_asset s env r_2.snd (some child.id) true)
      pure (ForInStep.yield (none, s))

def scadEpBranch (env : ModelEnv) (attId tgtId : Int) (prop : String) (s : H) : Except LErr (ForInStep LS) :=
  match model_get_attacker_by_id s env attId with
  | some attacker_4 =>
    match model_get_asset_by_id s env tgtId with
    | some target_asset_5 =>
      pure (ForInStep.yield (none, attachment_add_entry_point s env attacker_4 target_asset_5 (pySplitDotFirst prop)))
    | _ => pure (ForInStep.done (some none, s))
  | _ => pure (ForInStep.done (some none, s))

/-- the new association object: built, its two fields assigned by NAME, added to the model -/
def scadLinkRun (env : ModelEnv) (fac : Factory) (s : H) (cls f1 f2 : String) (x1 x2 : ARef) :
    Except LErr (ForInStep LS) := do
  let r_10 ← nsNewAssoc fac s (PyJ.str cls)
  let s ← pjsSetField fac r_10.fst r_10.snd (PyJ.str f1) (List.map some [x1])
  let s ← pjsSetField fac s r_10.snd (PyJ.str f2) (List.map some [x2])
  let s ← liftPy (model_add_association s env r_10.snd)
  pure (ForInStep.yield (none, s))

def scadLinkBranch (env : ModelEnv) (lg : LangGraphView) (fac : Factory) (child : ScadAssoc) (s : H) :
    Except LErr (ForInStep LS) :=
  match model_get_asset_by_id s env child.targetObject with
  | some left_asset_6 =>
    match model_get_asset_by_id s env child.sourceObject with
    | some right_asset_7 => do
      let r ← lg.get_association_by_fields_and_assets child.sourceProperty child.targetProperty
          (s.a left_asset_6).type (s.a right_asset_7).type
      match r with
      | some lang_graph_assoc_8 => do
        let r ← facAssocBySignature fac lang_graph_assoc_8.name lang_graph_assoc_8.leftAsset
            lang_graph_assoc_8.rightAsset
        match r with
        | some assoc_name_9 =>
          scadLinkRun env fac s assoc_name_9 child.sourceProperty child.targetProperty left_asset_6 right_asset_7
        | _ => pure (ForInStep.done (some none, s))
      | _ => do
        throw (LErr.py PyErr.lookupError)
        pure (ForInStep.yield (none, s))
    | _ => pure (ForInStep.done (some none, s))
  | _ => pure (ForInStep.done (some none, s))

def scadAssocBody (env : ModelEnv) (lg : LangGraphView) (fac : Factory) :
    ScadAssoc → LS → Except LErr (ForInStep LS) := fun child st =>
  if (child.sourceProperty == "firstSteps") = true then
    scadEpBranch env child.sourceObject child.targetObject child.targetProperty st.snd
  else if (child.targetProperty == "firstSteps") = true then
    scadEpBranch env child.targetObject child.sourceObject child.sourceProperty st.snd
  else scadLinkBranch env lg fac child st.snd

/-- the generated loader, in terms of the loop bodies -/
theorem scad_loader_eq (files : Files) (env : ModelEnv) (path : String) (lg : LangGraphView) (fac : Factory) :
    securicad_load_model_from_scad_archive files env path lg fac = (do
      let root ← files.eom path
      let s ← newModel (PyJ.str path)
      let st ← forIn root.objects ((none, s) : LS) (scadObjectBody env fac)
      match st.fst with
      | some r => pure r
      | none => do
        let st ← forIn root.associations ((none, st.snd) : LS) (scadAssocBody env lg fac)
        match st.fst with
        | some r => pure r
        | none => pure (some st.snd)) := by
  unfold securicad_load_model_from_scad_archive scadObjectBody scadDefBody scadAssocBody scadEpBranch scadLinkBranch scadLinkRun
  simp only []
  congr 1; funext root; congr 1; funext s; congr 1
  funext st
  obtain ⟨r, s'⟩ := st
  cases r with
  | some r => rfl
  | none =>
    dsimp only
    congr 1
    funext st; obtain ⟨r, s'⟩ := st; cases r <;> rfl

/-! ### a `for` loop with `return` in its body against a `foldlM` of the hand model -/

theorem forInS_cons_yield {β σ : Type} (body : β → σ → Except LErr (ForInStep σ)) (x : β) (xs : List β) (s s1 : σ)
    (h : body x s = .ok (.yield s1)) : forIn (x :: xs) s body = forIn xs s1 body := by
  rw [List.forIn_cons]
  show (body x s).bind _ = _
  rw [h]; rfl

theorem forInS_cons_done {β σ : Type} (body : β → σ → Except LErr (ForInStep σ)) (x : β) (xs : List β) (s s1 : σ)
    (h : body x s = .ok (.done s1)) : forIn (x :: xs) s body = .ok s1 := by
  rw [List.forIn_cons]
  show (body x s).bind _ = _
  rw [h]; rfl

theorem forInS_cons_err {β σ : Type} (body : β → σ → Except LErr (ForInStep σ)) (x : β) (xs : List β) (s : σ) (e : LErr)
    (h : body x s = .error e) : forIn (x :: xs) s body = .error e := by
  rw [List.forIn_cons]
  show (body x s).bind _ = _
  rw [h]; rfl

/-- the error class of the hand model that an exception of the translated loader stands for; `none`: the value is
outside the modelled subset (`unmodelled`: Python would not raise).  `typeError` cannot occur in this loader (every
prelude function is called with a `PyJ.str`), so it is given no class: a `typeError` would agree with nothing. -/
def errAbsL : LErr → Option MS.Err
  | .py e => some (errAbs e)
  | .validation => some .validation
  | .typeError => none
  | .unmodelled => none

/-- Python exception `e` and hand-model error `er` agree: same class, or `e` is `unmodelled` (an evidence attribute that
is not a defense of the class: pjs accepts it silently, the hand model answers `validation`) -/
def ErrAgree (e : LErr) (er : MS.Err) : Prop := errAbsL e = some er ∨ (e = .unmodelled ∧ er = .validation)

theorem ErrAgree.py (e : PyErr) : ErrAgree (.py e) (errAbs e) := Or.inl rfl

/-- what a loop body (with `continue` = `yield`, and `return None` = `done` with the flag set) does on `a`, against one
step of the hand model: Python's `return None` is the `lookupError` of the hand model, an exception is the error of
the same class (`ErrAgree`) -/
structure StepSimR {α : Type} (P : Nat → H → Prop) (Q : α → Prop) (body : α → LS → Except LErr (ForInStep LS))
    (step : MS.St → α → Except MS.Err MS.St) : Prop where
  ok : ∀ n s a r, P (n + 1) s → Q a → body a (none, s) = .ok r →
    (∃ s1, r = .yield (none, s1) ∧ step (abs s) a = .ok (abs s1) ∧ P n s1) ∨
    (∃ s1, r = .done (some none, s1) ∧ step (abs s) a = .error .lookupError)
  err : ∀ n s a e, P (n + 1) s → Q a → body a (none, s) = .error e →
    ∃ er, step (abs s) a = .error er ∧ ErrAgree e er

theorem loop_simR {α : Type} {P : Nat → H → Prop} {Q : α → Prop} {body : α → LS → Except LErr (ForInStep LS)}
    {step : MS.St → α → Except MS.Err MS.St} (hsim : StepSimR P Q body step) :
    ∀ (l : List α), (∀ a ∈ l, Q a) → ∀ (s : H), P l.length s →
      (∀ st, forIn l ((none, s) : LS) body = .ok st →
        (∃ s', st = (none, s') ∧ l.foldlM step (abs s) = .ok (abs s') ∧ P 0 s') ∨
        (∃ s', st = (some none, s') ∧ l.foldlM step (abs s) = .error .lookupError)) ∧
      (∀ e, forIn l ((none, s) : LS) body = .error e →
        ∃ er, l.foldlM step (abs s) = .error er ∧ ErrAgree e er) := by
  intro l
  induction l with
  | nil =>
    intro _ s hs
    refine ⟨?_, ?_⟩
    · intro st h
      have h' : (Except.ok ((none, s) : LS) : Except LErr LS) = .ok st := h
      injection h' with h'
      exact Or.inl ⟨s, h'.symm, rfl, hs⟩
    · intro e h; cases h
  | cons a as ih =>
    intro hq s hs
    have hqa := hq a List.mem_cons_self
    have hqs : ∀ b ∈ as, Q b := fun b hb => hq b (List.mem_cons_of_mem _ hb)
    rw [List.foldlM_cons]
    cases hb : body a (none, s) with
    | error e =>
      obtain ⟨er, her, hag⟩ := hsim.err as.length s a e hs hqa hb
      rw [forInS_cons_err _ _ _ _ _ hb, her]
      refine ⟨?_, ?_⟩
      · intro s' h; cases h
      · intro e' h
        injection h with h
        subst h
        exact ⟨er, rfl, hag⟩
    | ok r =>
      rcases hsim.ok as.length s a r hs hqa hb with ⟨s1, hr, hst, hp⟩ | ⟨s1, hr, her⟩
      · subst hr
        rw [forInS_cons_yield _ _ _ _ _ hb, hst]
        exact ih hqs s1 hp
      · subst hr
        rw [forInS_cons_done _ _ _ _ _ hb, her]
        refine ⟨?_, ?_⟩
        · intro st h
          have h' : (Except.ok ((some none, s1) : LS) : Except LErr LS) = .ok st := h
          injection h' with h'
          exact Or.inr ⟨s1, h'.symm, rfl⟩
        · intro e h; cases h

/-! ### Stage 1: the objects loop -/

/-- the hand-written loader from an explicit start state -/
def loadScadFrom (L : Lang) (nodes : List AssocDecl) (defsOk : Int → Bool) (s0 : MS.St) (d : ScadDoc) :
    Except MS.Err MS.St := do
  let s1 ← d.objects.foldlM (loadScadObject L defsOk) s0
  d.associations.foldlM (loadScadAssoc L nodes) s1

theorem loadScadFrom_empty (L : Lang) (nodes : List AssocDecl) (defsOk : Int → Bool) (d : ScadDoc) :
    loadScadFrom L nodes defsOk {} d = loadScad L nodes defsOk d := rfl

/-- one evidence attribute: the name is decapitalised (`IndexError` on the empty name), then assigned -/
theorem scadDefBody_eq (fac : Factory) (asset : ARef) (ev : ScadEv) (s : H) :
    scadDefBody fac asset ev s =
      (pyDecap ev.1).bind (fun n => (pjsSetDefense fac s asset (PyJ.str n) ev.2).bind
        (fun s' => Except.ok (ForInStep.yield s'))) := by
  unfold scadDefBody scadSub
  cases h1 : pyDecap ev.1 with
  | error e => rfl
  | ok n =>
    cases h2 : pjsSetDefense fac s asset (PyJ.str n) ev.2 with
    | error e =>
      simp only [bind, Except.bind, List.forIn_cons, List.forIn_nil, if_true, h2]
    | ok s' =>
      simp only [bind, Except.bind, List.forIn_cons, List.forIn_nil, if_true, h2, pure, Except.pure]

theorem scad_dictSet_fresh (acc : List (String × String)) (k v : String) (h : k ∉ acc.map (·.1)) :
    PyM.dictSet acc k v = acc ++ [(k, v)] := by
  unfold PyM.dictSet
  have : acc.any (fun e => e.1 == k) = false := by
    rw [Bool.eq_false_iff]
    intro hc
    rw [List.any_eq_true] at hc
    obtain ⟨e, he, hek⟩ := hc
    exact h (List.mem_map.2 ⟨e, he, by simpa using hek⟩)
  rw [this]; rfl

theorem scad_newAssetObj_setA (s : H) (o o' : PyAsset) : (newAssetObj s o).setA s.afresh o' = newAssetObj s o' := by
  unfold newAssetObj H.setA
  congr 1
  funext x
  by_cases hx : x = s.afresh
  · simp only [hx, if_true]
  · simp only [hx, if_false]

theorem scad_newAssetObj_a (s : H) (o : PyAsset) : (newAssetObj s o).a s.afresh = o := by
  unfold newAssetObj; simp only [if_true]

/-- the pjs guard of one defense assignment -/
def scadGuard (fac : Factory) (ty : String) (d : String × String) : Bool :=
  (MS.defensesOf fac.L ty).any (·.1 = d.1) && fac.floatOk d.2

/-- the evidence attributes as the hand model reads them -/
def scadDefs (ds : List (String × String)) : List (String × String) := ds.map (fun d => (decap d.1, d.2))

theorem decap_empty : decap "" = "" := by decide

/-- the exceptions of the evidence loop: `IndexError` on an empty name (`py other`), the pjs `ValidationError` of the
range check, or an attribute that is not a defense of the class (`unmodelled`: pjs accepts it silently) -/
def DefErr (e : LErr) : Prop := e = .py .other ∨ e = .validation ∨ e = .unmodelled

/-- each of them agrees with the `validation` the hand model answers (`errAbs other = validation`) -/
theorem DefErr.agree {e : LErr} (h : DefErr e) : ErrAgree e .validation := by
  rcases h with h | h | h
  · subst h; exact Or.inl rfl
  · subst h; exact Or.inl rfl
  · subst h; exact Or.inr ⟨rfl, rfl⟩

/-- one round of the evidence loop on the new object -/
theorem scadDefBody_new (fac : Factory) (s : H) (o : PyAsset) (d : String × String)
    (hfr : decap d.1 ∉ o.defenses.map (·.1))
    (hemp : d.1 = "" → (MS.defensesOf fac.L o.type).any (·.1 = "") = false) :
    (scadGuard fac o.type (decap d.1, d.2) = true →
      scadDefBody fac s.afresh d (newAssetObj s o) =
        .ok (.yield (newAssetObj s { o with defenses := o.defenses ++ [(decap d.1, d.2)] }))) ∧
    (scadGuard fac o.type (decap d.1, d.2) = false →
      ∃ e, scadDefBody fac s.afresh d (newAssetObj s o) = .error e ∧ DefErr e) := by
  rw [scadDefBody_eq]
  unfold pyDecap
  by_cases he : d.1 = ""
  · have hg : scadGuard fac o.type (decap d.1, d.2) = false := by
      unfold scadGuard
      rw [he, decap_empty, hemp he]; rfl
    rw [hg]
    refine ⟨fun h => (by cases h), fun _ => ⟨.py .other, ?_, Or.inl rfl⟩⟩
    rw [he]
    rfl
  · have hne : d.1.isEmpty = false := by
      cases h : d.1.isEmpty with
      | false => rfl
      | true => exact absurd (String.isEmpty_iff.1 h) he
    simp only [hne, Bool.false_eq_true, if_false]
    show (_ → (pjsSetDefense fac (newAssetObj s o) s.afresh (PyJ.str (decap d.1)) d.2).bind _ = _) ∧
      (_ → ∃ e, (pjsSetDefense fac (newAssetObj s o) s.afresh (PyJ.str (decap d.1)) d.2).bind _ = _ ∧ _)
    unfold pjsSetDefense scadGuard
    simp only [scad_newAssetObj_a, scad_dictSet_fresh _ _ _ hfr, scad_newAssetObj_setA]
    cases (MS.defensesOf fac.L o.type).any (·.1 = decap d.1) <;> cases fac.floatOk d.2
    · exact ⟨fun h => (by cases h), fun _ => ⟨.unmodelled, rfl, Or.inr (Or.inr rfl)⟩⟩
    · exact ⟨fun h => (by cases h), fun _ => ⟨.unmodelled, rfl, Or.inr (Or.inr rfl)⟩⟩
    · exact ⟨fun h => (by cases h), fun _ => ⟨.validation, rfl, Or.inr (Or.inl rfl)⟩⟩
    · exact ⟨fun _ => rfl, fun h => by cases h⟩

/-- the evidence loop on the new object: all assignments pass their guards and the object holds the decapitalised
defenses, or one of them raises (`DefErr`) -/
theorem scad_defenses_loop (fac : Factory) (s : H) :
    ∀ (ds : List (String × String)) (o : PyAsset), ((o.defenses ++ scadDefs ds).map (·.1)).Nodup →
      (∀ d ∈ ds, d.1 = "" → (MS.defensesOf fac.L o.type).any (·.1 = "") = false) →
      ((scadDefs ds).all (scadGuard fac o.type) = true →
        forIn ds (newAssetObj s o) (scadDefBody fac s.afresh) =
          .ok (newAssetObj s { o with defenses := o.defenses ++ scadDefs ds })) ∧
      ((scadDefs ds).all (scadGuard fac o.type) = false →
        ∃ e, forIn ds (newAssetObj s o) (scadDefBody fac s.afresh) = .error e ∧ DefErr e) := by
  intro ds
  induction ds with
  | nil =>
    intro o _ _
    refine ⟨?_, ?_⟩
    · intro _
      show _ = Except.ok (newAssetObj s { o with defenses := o.defenses ++ [] })
      rw [List.append_nil]; rfl
    · intro h; cases h
  | cons d ds ih =>
    intro o hnd hemp
    have hcons : scadDefs (d :: ds) = (decap d.1, d.2) :: scadDefs ds := rfl
    have hfr : decap d.1 ∉ o.defenses.map (·.1) := by
      intro hm
      rw [hcons, List.map_append, List.map_cons, List.nodup_append] at hnd
      exact hnd.2.2 _ hm _ List.mem_cons_self rfl
    have hstep := scadDefBody_new fac s o d hfr (hemp d List.mem_cons_self)
    rw [hcons, List.all_cons]
    by_cases hg : scadGuard fac o.type (decap d.1, d.2) = true
    · rw [forIn_cons_ok _ _ _ _ _ (hstep.1 hg), hg, Bool.true_and]
      have hnd' : (((({ o with defenses := o.defenses ++ [(decap d.1, d.2)] } : PyAsset).defenses) ++
          scadDefs ds).map (·.1)).Nodup := by
        show (((o.defenses ++ [(decap d.1, d.2)]) ++ scadDefs ds).map (·.1)).Nodup
        rw [List.append_assoc]; exact hnd
      have := ih { o with defenses := o.defenses ++ [(decap d.1, d.2)] } hnd'
        (fun x hx => hemp x (List.mem_cons_of_mem _ hx))
      have hap : (o.defenses ++ [(decap d.1, d.2)]) ++ scadDefs ds = o.defenses ++ (decap d.1, d.2) :: scadDefs ds := by
        rw [List.append_assoc]; rfl
      simp only [hap] at this
      exact this
    · have hg' : scadGuard fac o.type (decap d.1, d.2) = false := by
        cases h : scadGuard fac o.type (decap d.1, d.2) with
        | false => rfl
        | true => exact absurd h hg
      obtain ⟨e, herr, hde⟩ := hstep.2 hg'
      rw [forIn_cons_err _ _ _ _ _ herr]
      refine ⟨?_, fun _ => ⟨e, rfl, hde⟩⟩
      intro h
      rw [Bool.and_eq_true] at h
      exact absurd h.1 hg

theorem scad_all_guard (fac : Factory) (ty : String) (defs : List (String × String)) :
    defs.all (scadGuard fac ty) =
      (defs.all (fun p => fac.floatOk p.2) && defs.all (fun d => (MS.defensesOf fac.L ty).any (·.1 = d.1))) := by
  induction defs with
  | nil => rfl
  | cons d ds ih =>
    rw [List.all_cons, List.all_cons, List.all_cons, ih]
    unfold scadGuard
    cases (MS.defensesOf fac.L ty).any (·.1 = d.1) <;> cases fac.floatOk d.2 <;>
      cases ds.all (fun p => fac.floatOk p.2) <;> rfl

theorem scad_setAdd_length_le {α : Type} [DecidableEq α] (l : List α) (x : α) :
    (MS.setAdd l x).length ≤ l.length + 1 := by
  unfold MS.setAdd
  split
  · omega
  · rw [List.length_append]; exact Nat.le_refl _

/-- every attacker of the model has an `id` (true after `add_attacker`) -/
def AttIds (s : H) : Prop := ∀ t ∈ s.attackers, (s.t t).id.isSome

/-- invariant of the objects loop with `n` objects to go -/
def PO (env : ModelEnv) (n : Nat) (s : H) : Prop :=
  MS.Inv (abs s) ∧ s.asset_names.length + n ≤ env.whileFuel ∧ EpOKAll s ∧ AttIds s

/-- what is assumed of one object of the document.  `noEmpty`: an evidence attribute with the empty name makes Python
raise (`name[0]`), the hand model reads it as the defense `""`; the two agree unless the class has a defense `""`. -/
structure ObjWf (fac : Factory) (defsOk : Int → Bool) (o : ScadObject) : Prop where
  nodup : (o.defenses.map (fun d => decap d.1)).Nodup
  defsOk : defsOk o.id = o.defenses.all (fun d => fac.floatOk d.2)
  noEmpty : ∀ d ∈ o.defenses, d.1 = "" → (MS.defensesOf fac.L o.metaConcept).any (·.1 = "") = false

/-- what the objects loop needs: `ObjWf` of the objects that are not attackers (the attacker branch reads only the id) -/
def ObjWfA (fac : Factory) (defsOk : Int → Bool) (o : ScadObject) : Prop :=
  o.metaConcept ≠ "Attacker" → ObjWf fac defsOk o

theorem scad_newAttObj_setT (s : H) :
    (newAttObj s {}).setT s.tfresh { (newAttObj s {}).t s.tfresh with entry_points := [] } = newAttObj s {} := by
  unfold newAttObj H.setT
  congr 1
  funext x
  by_cases hx : x = s.tfresh
  · simp only [hx, if_true]
  · simp only [hx, if_false]

theorem scad_attacker_branch (env : ModelEnv) (fac : Factory) (o : ScadObject) (s : H)
    (h : (o.metaConcept == "Attacker") = true) :
    scadObjectBody env fac o (none, s) =
      .ok (.yield (none, model_add_attacker (newAttObj s {}) env s.tfresh (some o.id))) := by
  unfold scadObjectBody
  rw [if_pos h]
  show (newAttachment s PyJ.null).bind _ = _
  unfold newAttachment
  simp only [allocT_eq]
  show Except.ok (ForInStep.yield (none, model_add_attacker ((newAttObj s {}).setT s.tfresh _) env s.tfresh _)) = _
  rw [scad_newAttObj_setT]

theorem scad_attacker_inv (env : ModelEnv) (s : H) (id : Int) (n : Nat) (hP : PO env n s) :
    PO env n (model_add_attacker (newAttObj s {}) env s.tfresh (some id)) ∧
      abs (model_add_attacker (newAttObj s {}) env s.tfresh (some id)) = MS.addAttacker (abs s) none (some id) := by
  obtain ⟨hI, hfuel, hO, hid⟩ := hP
  have htie := add_attacker_tie s env {} rfl (some id)
  have hshape := add_attacker_shape (newAttObj s {}) env s.tfresh (some id)
  refine ⟨⟨?_, ?_, ?_, ?_⟩, htie⟩
  · rw [htie]; exact MS.addAttacker_inv' _ _ _ hI
  · rw [add_attacker_run]; exact hfuel
  · refine epOKAll_of_sub (s := s) hshape.2.1 ?_ hO
    intro t
    rw [hshape.2.2.2 t]
    show ((if t = s.tfresh then ({} : PyAtt) else s.t t)).entry_points.Sublist _
    by_cases ht : t = s.tfresh
    · rw [if_pos ht]; exact List.nil_sublist _
    · rw [if_neg ht]; exact List.Sublist.refl _
  · intro t ht
    rw [hshape.2.2.1] at ht
    by_cases htf : t = s.tfresh
    · subst htf; rw [add_attacker_id]; rfl
    · have hmem : t ∈ s.attackers := by
        rcases List.mem_append.1 ht with h | h
        · exact h
        · exact absurd (List.mem_singleton.1 h) htf
      have : (model_add_attacker (newAttObj s {}) env s.tfresh (some id)).t t = s.t t := by
        rw [add_attacker_run]
        unfold addAttackerH newAttObj
        simp only [if_neg htf]
      rw [this]; exact hid t hmem

theorem scad_asset_branch (env : ModelEnv) (fac : Factory) (o : ScadObject) (s : H)
    (h : ¬ (o.metaConcept == "Attacker") = true) :
    scadObjectBody env fac o (none, s) =
      if (!nsHasAsset fac o.metaConcept) = true then .ok (.done (some none, s))
      else (nsNewAsset fac s (PyJ.str o.metaConcept) (PyJ.str o.name)).bind (fun r_2 =>
        (forIn o.defenses r_2.fst (scadDefBody fac r_2.snd)).bind (fun s' =>
          (liftPy (model_add_asset s' env r_2.snd (some o.id) true)).bind (fun s'' =>
            .ok (.yield (none, s''))))) := by
  unfold scadObjectBody
  rw [if_neg h]
  rfl

/-- the body of the objects loop on one object, against `Legacy.loadScadObject`.  The guards come in the same order on
both sides: no such class (`return None` / `lookupError`), the evidence attributes (`DefErr` / `validation`), then the
errors of `add_asset` (`add_asset_tie`). -/
theorem scad_object_sim (env : ModelEnv) (fac : Factory) (defsOk : Int → Bool) :
    StepSimR (PO env) (ObjWfA fac defsOk) (scadObjectBody env fac) (loadScadObject fac.L defsOk) := by
  have key : ∀ n s o, PO env (n + 1) s → ObjWfA fac defsOk o →
      (∀ r, scadObjectBody env fac o (none, s) = .ok r →
        (∃ s1, r = .yield (none, s1) ∧ loadScadObject fac.L defsOk (abs s) o = .ok (abs s1) ∧ PO env n s1) ∨
        (∃ s1, r = .done (some none, s1) ∧ loadScadObject fac.L defsOk (abs s) o = .error .lookupError)) ∧
      (∀ e, scadObjectBody env fac o (none, s) = .error e →
        ∃ er, loadScadObject fac.L defsOk (abs s) o = .error er ∧ ErrAgree e er) := by
    intro n s o hP hQ
    by_cases hatt : (o.metaConcept == "Attacker") = true
    · -- an attacker object
      have hmc : o.metaConcept = "Attacker" := by simpa using hatt
      have hP' : PO env n s := ⟨hP.1, by have := hP.2.1; omega, hP.2.2.1, hP.2.2.2⟩
      obtain ⟨hinv, habs⟩ := scad_attacker_inv env s o.id n hP'
      rw [scad_attacker_branch env fac o s hatt]
      refine ⟨fun r h => Or.inl ⟨_, ?_, ?_, hinv⟩, fun e h => by cases h⟩
      · injection h with h; exact h.symm
      · unfold loadScadObject
        rw [if_pos hmc, habs]
    · have hmc : ¬ o.metaConcept = "Attacker" := by simpa using hatt
      have hQ : ObjWf fac defsOk o := hQ hmc
      obtain ⟨hI, hfuel, hep, hid⟩ := hP
      have hfresh : s.afresh ∉ s.assets := hI.assets.fresh_not_mem
      have hfuel1 : s.asset_names.length + 1 ≤ env.whileFuel := by omega
      rw [scad_asset_branch env fac o s hatt]
      have hhand0 : loadScadObject fac.L defsOk (abs s) o =
          MS.addAsset fac.L (abs s) o.metaConcept (some o.name) (scadDefs o.defenses) (defsOk o.id) "{}"
            (some o.id) true := by
        unfold loadScadObject
        rw [if_neg hmc]; rfl
      rw [hhand0]
      by_cases hcls : (fac.L.findAsset o.metaConcept).isNone = true
      · -- no such class: `return None`
        have hns : (!nsHasAsset fac o.metaConcept) = true := by
          unfold nsHasAsset
          cases h : fac.L.findAsset o.metaConcept with
          | none => rfl
          | some _ => rw [h] at hcls; cases hcls
        rw [if_pos hns]
        refine ⟨fun r h => Or.inr ⟨s, ?_, ?_⟩, fun e h => by cases h⟩
        · injection h with h; exact h.symm
        · rw [addAsset_eq_core, if_pos hcls]
      · have hsome : (fac.L.findAsset o.metaConcept).isSome = true := by
          cases h : fac.L.findAsset o.metaConcept with
          | none => rw [h] at hcls; exact absurd rfl hcls
          | some _ => rfl
        have hns : ¬ (!nsHasAsset fac o.metaConcept) = true := by
          unfold nsHasAsset; rw [hsome]; decide
        rw [if_neg hns]
        have hnew : nsNewAsset fac s (PyJ.str o.metaConcept) (PyJ.str o.name) =
            .ok (newAssetObj s { type := o.metaConcept, name := some o.name }, s.afresh) := by
          unfold nsNewAsset nsHasAsset
          simp only [hsome, allocA_eq]; rfl
        rw [hnew]
        obtain ⟨lok, lerr⟩ := scad_defenses_loop fac s o.defenses { type := o.metaConcept, name := some o.name }
          (by
            show (([] ++ scadDefs o.defenses).map (fun p : String × String => p.1)).Nodup
            rw [List.nil_append]
            unfold scadDefs
            rw [List.map_map]
            exact hQ.nodup)
          hQ.noEmpty
        have hgd : (!defsOk o.id || !((scadDefs o.defenses).all
              (fun d => (MS.defensesOf fac.L o.metaConcept).any (·.1 = d.1)))) =
            !((scadDefs o.defenses).all (scadGuard fac o.metaConcept)) := by
          have hfl : (scadDefs o.defenses).all (fun p => fac.floatOk p.2) =
              o.defenses.all (fun d => fac.floatOk d.2) := by
            unfold scadDefs; rw [List.all_map]; rfl
          rw [scad_all_guard, hQ.defsOk, Bool.not_and, hfl]
        by_cases hg : (scadDefs o.defenses).all (scadGuard fac o.metaConcept) = true
        · have hloop := lok hg
          have hgd' : ¬ (!defsOk o.id || !((scadDefs o.defenses).all
              (fun d => (MS.defensesOf fac.L o.metaConcept).any (·.1 = d.1)))) = true := by
            rw [hgd, hg]; decide
          simp only [Except.bind]
          rw [hloop]
          have tie := add_asset_tie s env hfresh hfuel1
            { type := o.metaConcept, name := some o.name, defenses := [] ++ scadDefs o.defenses } (some o.id) true
          have hhand : MS.addAsset fac.L (abs s) o.metaConcept (some o.name) (scadDefs o.defenses) (defsOk o.id) "{}"
              (some o.id) true =
              addAssetCore (abs s) o.metaConcept (some o.name) (scadDefs o.defenses) "{}" (some o.id) true := by
            rw [addAsset_eq_core, if_neg hcls, if_neg hgd']
          dsimp only
          cases hm : model_add_asset (newAssetObj s
              { type := o.metaConcept, name := some o.name, defenses := [] ++ scadDefs o.defenses }) env
              s.afresh (some o.id) true with
          | error e0 =>
            rw [hm] at tie
            dsimp only [liftPy]
            refine ⟨fun r h => (by cases h), fun e h => ?_⟩
            cases h
            refine ⟨errAbs e0, ?_, ErrAgree.py e0⟩
            rw [hhand]; exact tie.symm
          | ok s1 =>
            rw [hm] at tie
            dsimp only [liftPy]
            have hst : MS.addAsset fac.L (abs s) o.metaConcept (some o.name) (scadDefs o.defenses) (defsOk o.id) "{}"
                (some o.id) true = .ok (abs s1) := by
              rw [hhand]; exact tie.symm
            refine ⟨fun r h => Or.inl ⟨s1, ?_, hst, ?_⟩, fun e h => by cases h⟩
            · injection h with h; exact h.symm
            · have fr := add_asset_tframe _ s1 env s.afresh (some o.id) true
                (show s.afresh ∉ (newAssetObj s
                  { type := o.metaConcept, name := some o.name, defenses := [] ++ scadDefs o.defenses }).assets
                  from hfresh) hfuel1 hm
              refine ⟨MS.addAsset_inv' hI hst, ?_, ?_, ?_⟩
              · obtain ⟨hs1, _⟩ := MS.addAsset_ok hst
                have hnames : s1.asset_names = MS.setAdd s.asset_names
                    (MS.newAsset (abs s) o.metaConcept (some o.name) (scadDefs o.defenses) "{}" (some o.id)).name := by
                  show (abs s1).assetNames = _
                  rw [hs1]; rfl
                have := scad_setAdd_length_le s.asset_names
                  (MS.newAsset (abs s) o.metaConcept (some o.name) (scadDefs o.defenses) "{}" (some o.id)).name
                rw [hnames]; omega
              · exact tframe_epOKAll fr (epOKAll_newAssetObj s _ hep)
              · intro t ht
                rw [fr.attackers] at ht
                rw [fr.t]
                exact hid t ht
        · have hg' : (scadDefs o.defenses).all (scadGuard fac o.metaConcept) = false := by
            cases h : (scadDefs o.defenses).all (scadGuard fac o.metaConcept) with
            | false => rfl
            | true => exact absurd h hg
          obtain ⟨e0, hloop, hde⟩ := lerr hg'
          simp only [Except.bind]
          rw [hloop]
          refine ⟨fun r h => (by cases h), fun e h => ?_⟩
          cases h
          refine ⟨.validation, ?_, hde.agree⟩
          rw [addAsset_eq_core, if_neg hcls, hgd, hg']; rfl
  exact ⟨fun n s a r hP hQ h => (key n s a hP hQ).1 r h, fun n s a e hP hQ h => (key n s a hP hQ).2 e h⟩

/-- the objects loop against the fold of `Legacy.loadScadObject` -/
theorem scad_objects_loop (env : ModelEnv) (fac : Factory) (defsOk : Int → Bool) (l : List ScadObject)
    (hq : ∀ o ∈ l, ObjWfA fac defsOk o) (s : H) (hP : PO env l.length s) :
    (∀ st, forIn l ((none, s) : LS) (scadObjectBody env fac) = .ok st →
      (∃ s', st = (none, s') ∧ l.foldlM (loadScadObject fac.L defsOk) (abs s) = .ok (abs s') ∧ PO env 0 s') ∨
      (∃ s', st = (some none, s') ∧ l.foldlM (loadScadObject fac.L defsOk) (abs s) = .error .lookupError)) ∧
    (∀ e, forIn l ((none, s) : LS) (scadObjectBody env fac) = .error e →
      ∃ er, l.foldlM (loadScadObject fac.L defsOk) (abs s) = .error er ∧ ErrAgree e er) :=
  loop_simR (scad_object_sim env fac defsOk) l hq s hP

/-! ### Stage 3: the whole loader, from the two loop simulations -/

/-- invariant of the associations loop -/
def PL2 (_n : Nat) (s : H) : Prop := MS.Inv (abs s) ∧ EpOKAll s ∧ AttIds s

/-- the whole loader against `loadScadFrom`, with the error class: a model is the state of the hand model, `None` is
its `lookupError`, an exception is the error of the same class -/
theorem scad_loader_core_class (files : Files) (env : ModelEnv) (fac : Factory) (lg : LangGraphView)
    (nodes : List AssocDecl) (defsOk : Int → Bool) (path : String) (d : ScadDoc)
    (hL : StepSimR PL2 (fun _ => True) (scadAssocBody env lg fac) (loadScadAssoc fac.L nodes))
    (hfile : files.eom path = .ok d) (hwf : ∀ o ∈ d.objects, o.metaConcept ≠ "Attacker" → ObjWf fac defsOk o)
    (hfuel : d.objects.length ≤ env.whileFuel) :
    match securicad_load_model_from_scad_archive files env path lg fac with
    | .ok (some s') => loadScadFrom fac.L nodes defsOk (abs (emptyModel path)) d = .ok (abs s')
    | .ok none => loadScadFrom fac.L nodes defsOk (abs (emptyModel path)) d = .error .lookupError
    | .error e => ∃ er, loadScadFrom fac.L nodes defsOk (abs (emptyModel path)) d = .error er ∧ ErrAgree e er := by
  rw [scad_loader_eq, hfile]
  simp only [bind, Except.bind, newModel]
  have hp0 : PO env d.objects.length ({ name := path } : H) :=
    ⟨init_inv, by show 0 + d.objects.length ≤ env.whileFuel; omega,
     ⟨fun _ _ _ _ hr => absurd hr List.not_mem_nil, fun _ _ hr => absurd hr List.not_mem_nil⟩,
     fun _ ht => absurd ht List.not_mem_nil⟩
  obtain ⟨a1, a2⟩ := scad_objects_loop env fac defsOk d.objects hwf _ hp0
  unfold loadScadFrom
  simp only [bind, Except.bind]
  rw [show abs (emptyModel path) = abs ({ name := path } : H) from rfl]
  cases h1 : forIn d.objects ((none, ({ name := path } : H)) : LS) (scadObjectBody env fac) with
  | error e =>
    obtain ⟨er, her, hag⟩ := a2 e h1
    rw [her]
    exact ⟨er, rfl, hag⟩
  | ok st1 =>
    rcases a1 st1 h1 with ⟨s1, hst, hs1, hI1, _, hO1, hid1⟩ | ⟨s1, hst, her⟩
    · subst hst
      rw [hs1]
      simp only []
      obtain ⟨b1, b2⟩ := loop_simR hL d.associations (fun _ _ => trivial) s1 ⟨hI1, hO1, hid1⟩
      cases h2 : forIn d.associations ((none, s1) : LS) (scadAssocBody env lg fac) with
      | error e =>
        obtain ⟨er, her, hag⟩ := b2 e h2
        rw [her]
        exact ⟨er, rfl, hag⟩
      | ok st2 =>
        rcases b1 st2 h2 with ⟨s2, hst, hs2, _⟩ | ⟨s2, hst, her⟩
        · subst hst
          rw [hs2]; rfl
        · subst hst
          rw [her]; rfl
    · subst hst
      rw [her]; rfl

theorem scad_loader_core (files : Files) (env : ModelEnv) (fac : Factory) (lg : LangGraphView)
    (nodes : List AssocDecl) (defsOk : Int → Bool) (path : String) (d : ScadDoc)
    (hL : StepSimR PL2 (fun _ => True) (scadAssocBody env lg fac) (loadScadAssoc fac.L nodes))
    (hfile : files.eom path = .ok d) (hwf : ∀ o ∈ d.objects, ObjWf fac defsOk o)
    (hfuel : d.objects.length ≤ env.whileFuel) :
    (match securicad_load_model_from_scad_archive files env path lg fac with
     | .ok (some s') => some (abs s') | _ => none) =
      optSt (loadScadFrom fac.L nodes defsOk (abs (emptyModel path)) d) := by
  have h := scad_loader_core_class files env fac lg nodes defsOk path d hL hfile (fun o ho _ => hwf o ho) hfuel
  cases hr : securicad_load_model_from_scad_archive files env path lg fac with
  | error e =>
    rw [hr] at h
    obtain ⟨er, her, _⟩ := h
    rw [her]; rfl
  | ok r =>
    rw [hr] at h
    cases r with
    | none =>
      have h' : loadScadFrom fac.L nodes defsOk (abs (emptyModel path)) d = .error .lookupError := h
      rw [h']; rfl
    | some s' =>
      have h' : loadScadFrom fac.L nodes defsOk (abs (emptyModel path)) d = .ok (abs s') := h
      rw [h']; rfl

/-! ### Stage 2: the associations loop -/

/-- the attacker branch of the hand model -/
def handEp (st : MS.St) (attId tgtId : Int) (prop : String) : Except MS.Err MS.St :=
  match MS.getAttackerById st attId, MS.getAssetById st tgtId with
  | some t, some x => .ok (MS.addEntryPoint st t x (beforeDot prop))
  | _, _ => .error .lookupError

/-- the association branch of the hand model -/
def handLink (L : Lang) (nodes : List AssocDecl) (st : MS.St) (a : ScadAssoc) : Except MS.Err MS.St :=
  match MS.getAssetById st a.targetObject, MS.getAssetById st a.sourceObject with
  | some la, some ra =>
    match LG.lookupAssoc L nodes a.sourceProperty a.targetProperty (st.aobj la).type (st.aobj ra).type with
    | .ok (some d) =>
      let dup := (L.assocs.filter (·.name = d.name)).length > 1
      let cls := if dup then d.name ++ "_" ++ d.leftAsset ++ "_" ++ d.rightAsset else d.name
      if d.leftField = a.sourceProperty then MS.addAssociation L st cls [la] [ra]
      else MS.addAssociation L st cls [ra] [la]
    | _ => .error .lookupError
  | _, _ => .error .lookupError

theorem loadScadAssoc_src (L : Lang) (nodes : List AssocDecl) (st : MS.St) (a : ScadAssoc)
    (h : a.sourceProperty = "firstSteps") :
    loadScadAssoc L nodes st a = handEp st a.sourceObject a.targetObject a.targetProperty := by
  unfold loadScadAssoc handEp
  simp only [h, if_true]
  rfl

theorem loadScadAssoc_tgt (L : Lang) (nodes : List AssocDecl) (st : MS.St) (a : ScadAssoc)
    (h : ¬ a.sourceProperty = "firstSteps") (h' : a.targetProperty = "firstSteps") :
    loadScadAssoc L nodes st a = handEp st a.targetObject a.sourceObject a.sourceProperty := by
  unfold loadScadAssoc handEp
  simp only [h, h', if_true, if_false]
  rfl

theorem loadScadAssoc_link (L : Lang) (nodes : List AssocDecl) (st : MS.St) (a : ScadAssoc)
    (h : ¬ a.sourceProperty = "firstSteps") (h' : ¬ a.targetProperty = "firstSteps") :
    loadScadAssoc L nodes st a = handLink L nodes st a := by
  unfold loadScadAssoc handLink
  simp only [h, h', if_false]
  rfl

theorem add_entry_point_ids (s : H) (env : ModelEnv) (t : TRef) (a : ARef) (step : String) (u : TRef) :
    ((attachment_add_entry_point s env t a step).t u).id = (s.t u).id := by
  cases hg : attachment_get_entry_point_tuple s env t a with
  | none =>
    rw [at_add_none step hg, at_alloc_t]
    by_cases hu : u = t
    · subst hu; rw [if_pos rfl]
    · rw [if_neg hu]
  | some r =>
    rw [at_add_some step hg]
    split <;> rfl

theorem scad_ep_sim {env : ModelEnv} (hE : EqId env) (s : H) (hP : PL2 0 s) (attId tgtId : Int) (prop : String) :
    ∀ r, scadEpBranch env attId tgtId prop s = .ok r →
      (∃ s1, r = .yield (none, s1) ∧ handEp (abs s) attId tgtId prop = .ok (abs s1) ∧ PL2 0 s1) ∨
      (∃ s1, r = .done (some none, s1) ∧ handEp (abs s) attId tgtId prop = .error .lookupError) := by
  obtain ⟨hI, hO, hid⟩ := hP
  intro r hr
  unfold scadEpBranch at hr
  unfold handEp
  rw [get_attacker_by_id_tie s env attId hid, get_asset_by_id_tie] at hr
  cases ht : MS.getAttackerById (abs s) attId with
  | none =>
    rw [ht] at hr
    refine Or.inr ⟨s, ?_, rfl⟩
    injection hr with hr; exact hr.symm
  | some t =>
    cases hx : MS.getAssetById (abs s) tgtId with
    | none =>
      rw [ht, hx] at hr
      refine Or.inr ⟨s, ?_, rfl⟩
      injection hr with hr; exact hr.symm
    | some x =>
      rw [ht, hx] at hr
      have htm : t ∈ s.attackers := List.mem_of_find?_eq_some ht
      have hxm : x ∈ (abs s).assets := List.mem_of_find?_eq_some hx
      have htie := add_entry_point_tie hE s hI hO t htm x (pySplitDotFirst prop)
      refine Or.inl ⟨attachment_add_entry_point s env t x (pySplitDotFirst prop), ?_, ?_, ?_, ?_, ?_⟩
      · injection hr with hr; exact hr.symm
      · show Except.ok _ = Except.ok _
        rw [htie]; rfl
      · rw [htie]; exact MS.addEntryPoint_inv' _ _ _ _ hI hxm
      · exact add_entry_point_epOKAll hO env t x _
      · intro u hu
        rw [(add_entry_point_atFrame s env t x _).attackers] at hu
        rw [add_entry_point_ids]
        exact hid u hu

/-- the class `_generate_associations` makes for a declaration -/
def clsOf (L : Lang) (a : AssocDecl) : MS.AssocClass :=
  let dup := (L.assocs.filter (·.name = a.name)).length > 1
  { cls := if dup then a.name ++ "_" ++ a.leftAsset ++ "_" ++ a.rightAsset else a.name,
    lf := a.leftField, ltype := a.leftAsset, lmax := a.leftMax,
    rf := a.rightField, rtype := a.rightAsset, rmax := a.rightMax }

theorem assocClasses_eq_map (L : Lang) : MS.assocClasses L = L.assocs.map (clsOf L) := rfl

theorem scad_find_class {L : Lang} (hd : Ser.ClassNamesDistinct L) {d : AssocDecl} (hm : d ∈ L.assocs) :
    (MS.assocClasses L).find? (·.cls = (clsOf L d).cls) = some (clsOf L d) := by
  have hmem : clsOf L d ∈ MS.assocClasses L := by
    rw [assocClasses_eq_map]; exact List.mem_map_of_mem hm
  cases hf : (MS.assocClasses L).find? (·.cls = (clsOf L d).cls) with
  | none =>
    have := List.find?_eq_none.1 hf _ hmem
    simp at this
  | some k =>
    have hk : k ∈ MS.assocClasses L := List.mem_of_find?_eq_some hf
    have hc : k.cls = (clsOf L d).cls := by simpa using List.find?_some hf
    rw [at_nodup_map_inj hd hk hmem hc]

theorem scad_facSig (fac : Factory) {d : AssocDecl} (hm : d ∈ fac.L.assocs) :
    facAssocBySignature fac d.name d.leftAsset d.rightAsset = .ok (some (clsOf fac.L d).cls) := by
  unfold facAssocBySignature clsOf
  have hmem : d ∈ fac.L.assocs.filter (·.name = d.name) := by
    rw [List.mem_filter]; exact ⟨hm, by simp⟩
  have hne : (fac.L.assocs.filter (·.name = d.name)).isEmpty = false := by
    cases h : (fac.L.assocs.filter (·.name = d.name)).isEmpty with
    | false => rfl
    | true => rw [List.isEmpty_iff.1 h] at hmem; cases hmem
  simp only [hne, Bool.false_eq_true, if_false]
  by_cases hdup : (fac.L.assocs.filter (·.name = d.name)).length > 1
  · simp only [hdup, if_true]
    have hany : (fac.L.assocs.filter (·.name = d.name)).any
        (fun a => d.name ++ "_" ++ a.leftAsset ++ "_" ++ a.rightAsset =
          d.name ++ "_" ++ d.leftAsset ++ "_" ++ d.rightAsset) = true := by
      rw [List.any_eq_true]; exact ⟨d, hmem, by simp⟩
    rw [if_pos hany]
  · simp only [hdup, if_false]

theorem scad_newAssocObj_setL (s : H) (o o' : PyAssoc) : (newAssocObj s o).setL s.lfresh o' = newAssocObj s o' := by
  unfold newAssocObj H.setL
  congr 1
  funext x
  by_cases hx : x = s.lfresh
  · simp only [hx, if_true]
  · simp only [hx, if_false]

/-- `setattr(association, field, [asset])` on the new association object: by field NAME -/
theorem scad_setField (fac : Factory) (s : H) (o : PyAssoc) (k : MS.AssocClass)
    (hfind : (MS.assocClasses fac.L).find? (·.cls = o.cls) = some k) (f : String) (x : ARef) :
    pjsSetField fac (newAssocObj s o) s.lfresh (PyJ.str f) (List.map some [x]) =
      if f == o.lf then
        if MS.okMember fac.L k.ltype (s.a x).type && MS.okCount k.lmax 1 then
          .ok (newAssocObj s { o with left := [x] })
        else .error .validation
      else if f == o.rf then
        if MS.okMember fac.L k.rtype (s.a x).type && MS.okCount k.rmax 1 then
          .ok (newAssocObj s { o with right := [x] })
        else .error .validation
      else .error .validation := by
  unfold pjsSetField
  have hm : (List.map some [x]).mapM id = some [x] := rfl
  simp only [hm, newAssocObj_l_self, hfind, scad_newAssocObj_setL, List.all_cons, List.all_nil, Bool.and_true,
    List.length_cons, List.length_nil]
  rfl

theorem scad_beq_ne {a b : String} (h : a ≠ b) : (a == b) = false := by simpa using h

/-- the last step: `add_association` on the finished object against `MS.addAssociation` after its pjs guards; its
exceptions are the errors of `addAssocCore`, class by class (`add_association_tie`) -/
theorem scad_link_add {env : ModelEnv} (hE : EqId env) (fac : Factory) (s : H) (hP : PL2 0 s) (k : MS.AssocClass)
    (hfind : (MS.assocClasses fac.L).find? (·.cls = k.cls) = some k) (hk : k.lf ≠ k.rf) (left right : List Nat)
    (hchk : (left.all (fun a => MS.okMember fac.L k.ltype (s.a a).type) && MS.okCount k.lmax left.length &&
      right.all (fun a => MS.okMember fac.L k.rtype (s.a a).type) && MS.okCount k.rmax right.length) = true) :
    (∀ r, (liftPy (model_add_association (newAssocObj s
          { cls := k.cls, lf := k.lf, rf := k.rf, left := left, right := right, distinct := hk }) env s.lfresh)).bind
        (fun s' => (Except.ok (ForInStep.yield ((none, s') : LS)) : Except LErr (ForInStep LS))) = .ok r →
      ∃ s1, r = .yield (none, s1) ∧ MS.addAssociation fac.L (abs s) k.cls left right = .ok (abs s1) ∧ PL2 0 s1) ∧
    (∀ e, (liftPy (model_add_association (newAssocObj s
          { cls := k.cls, lf := k.lf, rf := k.rf, left := left, right := right, distinct := hk }) env s.lfresh)).bind
        (fun s' => (Except.ok (ForInStep.yield ((none, s') : LS)) : Except LErr (ForInStep LS))) = .error e →
      ∃ er, MS.addAssociation fac.L (abs s) k.cls left right = .error er ∧ ErrAgree e er) := by
  obtain ⟨hI, hO, hid⟩ := hP
  have tie := add_association_tie hE s hI
    { cls := k.cls, lf := k.lf, rf := k.rf, left := left, right := right, distinct := hk }
  have hhand : MS.addAssociation fac.L (abs s) k.cls left right =
      addAssocCore (abs s) { cls := k.cls, lf := k.lf, rf := k.rf, left := left, right := right } := by
    rw [addAssociation_eq_core, hfind]
    have hchk' : (left.all (fun a => MS.okMember fac.L k.ltype ((abs s).aobj a).type) && MS.okCount k.lmax left.length &&
      right.all (fun a => MS.okMember fac.L k.rtype ((abs s).aobj a).type) && MS.okCount k.rmax right.length) = true := hchk
    simp only [hchk', Bool.not_true, Bool.false_eq_true, if_false]
  cases hm : model_add_association (newAssocObj s
      { cls := k.cls, lf := k.lf, rf := k.rf, left := left, right := right, distinct := hk }) env s.lfresh with
  | error e0 =>
    rw [hm] at tie
    refine ⟨fun r h => (by cases h), fun e h => ?_⟩
    have h' : (Except.error (.py e0) : Except LErr (ForInStep LS)) = .error e := h
    injection h' with h'
    subst h'
    refine ⟨errAbs e0, ?_, ErrAgree.py e0⟩
    rw [hhand]; exact tie.symm
  | ok s1 =>
    rw [hm] at tie
    have hst : MS.addAssociation fac.L (abs s) k.cls left right = .ok (abs s1) := by
      rw [hhand]; exact tie.symm
    refine ⟨fun r h => ⟨s1, ?_, hst, ?_⟩, fun e h => by cases h⟩
    · have h' : (Except.ok (ForInStep.yield ((none, s1) : LS)) : Except LErr (ForInStep LS)) = .ok r := h
      injection h' with h'; exact h'.symm
    · have fr := add_association_tframe _ s1 s.lfresh hm
      refine ⟨MS.addAssociation_inv' hI hst, tframe_epOKAll fr (epOKAll_newAssocObj s _ hO), ?_⟩
      intro t ht
      rw [fr.attackers] at ht
      rw [fr.t]
      exact hid t ht

theorem scad_nsNewAssoc (fac : Factory) (s : H) (k : MS.AssocClass)
    (hfind : (MS.assocClasses fac.L).find? (·.cls = k.cls) = some k) (hk : k.lf ≠ k.rf) :
    nsNewAssoc fac s (PyJ.str k.cls) =
      .ok (newAssocObj s { cls := k.cls, lf := k.lf, rf := k.rf, distinct := hk }, s.lfresh) := by
  unfold nsNewAssoc
  simp only [hfind, dif_pos hk, allocL_eq]

/-- the new association object with its fields assigned by name, against `MS.addAssociation`: `f1 ↦ [x1]`,
`f2 ↦ [x2]`; when `(f1, f2)` are the class's fields in the opposite order the members end up swapped.  A `setattr`
that fails its pjs guard is a `ValidationError`, where the hand model answers `validation` (its guard comes before
those of `add_association` as well). -/
theorem scad_link_run {env : ModelEnv} (hE : EqId env) (fac : Factory) (s : H) (hP : PL2 0 s) (k : MS.AssocClass)
    (hfind : (MS.assocClasses fac.L).find? (·.cls = k.cls) = some k) (hk : k.lf ≠ k.rf)
    (f1 f2 : String) (x1 x2 : ARef) (left right : List Nat)
    (hcase : (f1 = k.lf ∧ f2 = k.rf ∧ left = [x1] ∧ right = [x2]) ∨
             (f1 = k.rf ∧ f2 = k.lf ∧ left = [x2] ∧ right = [x1])) :
    (∀ r, scadLinkRun env fac s k.cls f1 f2 x1 x2 = .ok r →
      ∃ s1, r = .yield (none, s1) ∧ MS.addAssociation fac.L (abs s) k.cls left right = .ok (abs s1) ∧ PL2 0 s1) ∧
    (∀ e, scadLinkRun env fac s k.cls f1 f2 x1 x2 = .error e →
      ∃ er, MS.addAssociation fac.L (abs s) k.cls left right = .error er ∧ ErrAgree e er) := by
  have hvalid : ∀ (l r : List Nat),
      (l.all (fun a => MS.okMember fac.L k.ltype (s.a a).type) && MS.okCount k.lmax l.length &&
        r.all (fun a => MS.okMember fac.L k.rtype (s.a a).type) && MS.okCount k.rmax r.length) = false →
      MS.addAssociation fac.L (abs s) k.cls l r = .error .validation := by
    intro l r h
    rw [addAssociation_eq_core, hfind]
    have h' : (l.all (fun a => MS.okMember fac.L k.ltype ((abs s).aobj a).type) && MS.okCount k.lmax l.length &&
        r.all (fun a => MS.okMember fac.L k.rtype ((abs s).aobj a).type) && MS.okCount k.rmax r.length) = false := h
    simp only [h', Bool.not_false, if_true]
  have hrl : (k.rf == k.lf) = false := scad_beq_ne (Ne.symm hk)
  unfold scadLinkRun
  simp only [bind, Except.bind, scad_nsNewAssoc fac s k hfind hk]
  rcases hcase with ⟨h1, h2, hl, hr⟩ | ⟨h1, h2, hl, hr⟩
  · subst h1 h2 hl hr
    rw [scad_setField fac s _ k hfind]
    simp only [beq_self_eq_true, if_true]
    cases hc1 : (MS.okMember fac.L k.ltype (s.a x1).type && MS.okCount k.lmax 1)
    · refine ⟨fun r h => (by cases h), fun e h => ⟨.validation, hvalid [x1] [x2] ?_, by cases h; exact Or.inl rfl⟩⟩
      simp only [List.all_cons, List.all_nil, Bool.and_true, List.length_cons, List.length_nil, hc1, Bool.false_and]
    · simp only [if_true]
      rw [scad_setField fac s _ k hfind]
      simp only [hrl, Bool.false_eq_true, if_false, beq_self_eq_true, if_true]
      cases hc2 : (MS.okMember fac.L k.rtype (s.a x2).type && MS.okCount k.rmax 1)
      · refine ⟨fun r h => (by cases h), fun e h => ⟨.validation, hvalid [x1] [x2] ?_, by cases h; exact Or.inl rfl⟩⟩
        simp only [List.all_cons, List.all_nil, Bool.and_true, List.length_cons, List.length_nil, Bool.and_assoc,
          hc2, Bool.and_false]
      · simp only [if_true]
        refine scad_link_add hE fac s hP k hfind hk [x1] [x2] ?_
        simp only [List.all_cons, List.all_nil, Bool.and_true, List.length_cons, List.length_nil, Bool.and_assoc,
          hc1, hc2, Bool.and_true]
  · subst h1 h2 hl hr
    rw [scad_setField fac s _ k hfind]
    simp only [hrl, Bool.false_eq_true, if_false, beq_self_eq_true, if_true]
    cases hc1 : (MS.okMember fac.L k.rtype (s.a x1).type && MS.okCount k.rmax 1)
    · refine ⟨fun r h => (by cases h), fun e h => ⟨.validation, hvalid [x2] [x1] ?_, by cases h; exact Or.inl rfl⟩⟩
      simp only [List.all_cons, List.all_nil, Bool.and_true, List.length_cons, List.length_nil, Bool.and_assoc,
        hc1, Bool.and_false]
    · simp only [if_true]
      rw [scad_setField fac s _ k hfind]
      simp only [beq_self_eq_true, if_true]
      cases hc2 : (MS.okMember fac.L k.ltype (s.a x2).type && MS.okCount k.lmax 1)
      · refine ⟨fun r h => (by cases h), fun e h => ⟨.validation, hvalid [x2] [x1] ?_, by cases h; exact Or.inl rfl⟩⟩
        simp only [List.all_cons, List.all_nil, Bool.and_true, List.length_cons, List.length_nil, hc2, Bool.false_and]
      · simp only [if_true]
        refine scad_link_add hE fac s hP k hfind hk [x2] [x1] ?_
        simp only [List.all_cons, List.all_nil, Bool.and_true, List.length_cons, List.length_nil, Bool.and_assoc,
          hc1, hc2, Bool.and_true]

/-- the specification of the `LanguageGraph` parameter: its lookup is `LG.lookupAssoc` (tied in `TieLangGraph.lean`) -/
def LgSpec (L : Lang) (nodes : List AssocDecl) (lg : LangGraphView) : Prop :=
  ∀ f1 f2 t1 t2, lg.get_association_by_fields_and_assets f1 f2 t1 t2 =
    (match LG.lookupAssoc L nodes f1 f2 t1 t2 with
     | .ok r => .ok r
     | .error _ => .error (.py .lookupError))

theorem scad_link_sim {env : ModelEnv} (hE : EqId env) (fac : Factory) (lg : LangGraphView) (nodes : List AssocDecl)
    (hF : FieldsDistinct fac.L) (hd : Ser.ClassNamesDistinct fac.L) (hnodes : ∀ d ∈ nodes, d ∈ fac.L.assocs)
    (hlg : LgSpec fac.L nodes lg) (s : H) (hP : PL2 0 s) (a : ScadAssoc) :
    (∀ r, scadLinkBranch env lg fac a s = .ok r →
      (∃ s1, r = .yield (none, s1) ∧ handLink fac.L nodes (abs s) a = .ok (abs s1) ∧ PL2 0 s1) ∨
      (∃ s1, r = .done (some none, s1) ∧ handLink fac.L nodes (abs s) a = .error .lookupError)) ∧
    (∀ e, scadLinkBranch env lg fac a s = .error e →
      ∃ er, handLink fac.L nodes (abs s) a = .error er ∧ ErrAgree e er) := by
  unfold scadLinkBranch handLink
  rw [get_asset_by_id_tie, get_asset_by_id_tie]
  cases hla : MS.getAssetById (abs s) a.targetObject with
  | none =>
    refine ⟨fun r h => Or.inr ⟨s, ?_, rfl⟩, fun e h => by cases h⟩
    injection h with h; exact h.symm
  | some la =>
    cases hra : MS.getAssetById (abs s) a.sourceObject with
    | none =>
      refine ⟨fun r h => Or.inr ⟨s, ?_, rfl⟩, fun e h => by cases h⟩
      injection h with h; exact h.symm
    | some ra =>
      dsimp only
      rw [hlg]
      have e1 : ((abs s).aobj la).type = (s.a la).type := rfl
      have e2 : ((abs s).aobj ra).type = (s.a ra).type := rfl
      rw [e1, e2]
      cases hlk : LG.lookupAssoc fac.L nodes a.sourceProperty a.targetProperty (s.a la).type (s.a ra).type with
      | error e0 =>
        refine ⟨fun r h => ?_, fun e h => ⟨.lookupError, rfl, ?_⟩⟩
        · have h' : (Except.error (.py .lookupError) : Except LErr (ForInStep LS)) = .ok r := h
          cases h'
        · have h' : (Except.error (.py .lookupError) : Except LErr (ForInStep LS)) = .error e := h
          injection h' with h'
          subst h'
          exact ErrAgree.py .lookupError
      | ok od =>
        cases od with
        | none =>
          refine ⟨fun r h => ?_, fun e h => ⟨.lookupError, rfl, ?_⟩⟩
          · have h' : (Except.error (.py .lookupError) : Except LErr (ForInStep LS)) = .ok r := h
            cases h'
          · have h' : (Except.error (.py .lookupError) : Except LErr (ForInStep LS)) = .error e := h
            injection h' with h'
            subst h'
            exact ErrAgree.py .lookupError
        | some d =>
          -- the declaration found
          have hfd : (nodes.find? (fun a' =>
              (a'.leftField = a.sourceProperty && a'.rightField = a.targetProperty &&
                fac.L.isSub (s.a la).type a'.leftAsset && fac.L.isSub (s.a ra).type a'.rightAsset) ||
              (a'.leftField = a.targetProperty && a'.rightField = a.sourceProperty &&
                fac.L.isSub (s.a ra).type a'.leftAsset && fac.L.isSub (s.a la).type a'.rightAsset))) = some d := by
            unfold LG.lookupAssoc at hlk
            split at hlk
            · cases hlk
            · injection hlk
          have hdn : d ∈ nodes := List.mem_of_find?_eq_some hfd
          have hdL : d ∈ fac.L.assocs := hnodes d hdn
          have hmatch := List.find?_some hfd
          have hfind := scad_find_class hd hdL
          have hkm : clsOf fac.L d ∈ MS.assocClasses fac.L := List.mem_of_find?_eq_some hfind
          have hk : (clsOf fac.L d).lf ≠ (clsOf fac.L d).rf := hF _ hkm
          have hk' : d.leftField ≠ d.rightField := hk
          simp only [bind, Except.bind, scad_facSig fac hdL]
          by_cases hlf : d.leftField = a.sourceProperty
          · have hrf : d.rightField = a.targetProperty := by
              simp only [Bool.or_eq_true, Bool.and_eq_true, decide_eq_true_eq] at hmatch
              rcases hmatch with h | h
              · exact h.1.1.2
              · exact absurd (hlf.trans h.1.1.2.symm) hk'
            obtain ⟨r1, r2⟩ := scad_link_run hE fac s hP (clsOf fac.L d) hfind hk a.sourceProperty a.targetProperty
              la ra [la] [ra] (Or.inl ⟨hlf.symm, hrf.symm, rfl, rfl⟩)
            refine ⟨fun r h => Or.inl ?_, fun e h => ?_⟩
            · obtain ⟨s1, h1, h2, h3⟩ := r1 r h
              refine ⟨s1, h1, ?_, h3⟩
              simp only [hlf, if_true]; exact h2
            · obtain ⟨er, h1, hag⟩ := r2 e h
              refine ⟨er, ?_, hag⟩
              simp only [hlf, if_true]; exact h1
          · have hsw : d.leftField = a.targetProperty ∧ d.rightField = a.sourceProperty := by
              simp only [Bool.or_eq_true, Bool.and_eq_true, decide_eq_true_eq] at hmatch
              rcases hmatch with h | h
              · exact absurd h.1.1.1 hlf
              · exact ⟨h.1.1.1, h.1.1.2⟩
            obtain ⟨r1, r2⟩ := scad_link_run hE fac s hP (clsOf fac.L d) hfind hk a.sourceProperty a.targetProperty
              la ra [ra] [la] (Or.inr ⟨hsw.2.symm, hsw.1.symm, rfl, rfl⟩)
            refine ⟨fun r h => Or.inl ?_, fun e h => ?_⟩
            · obtain ⟨s1, h1, h2, h3⟩ := r1 r h
              refine ⟨s1, h1, ?_, h3⟩
              simp only [hlf, if_false]; exact h2
            · obtain ⟨er, h1, hag⟩ := r2 e h
              refine ⟨er, ?_, hag⟩
              simp only [hlf, if_false]; exact h1

/-- the body of the associations loop on one association element, against `Legacy.loadScadAssoc` -/
theorem scad_assoc_sim {env : ModelEnv} (hE : EqId env) (fac : Factory) (lg : LangGraphView) (nodes : List AssocDecl)
    (hF : FieldsDistinct fac.L) (hd : Ser.ClassNamesDistinct fac.L) (hnodes : ∀ d ∈ nodes, d ∈ fac.L.assocs)
    (hlg : LgSpec fac.L nodes lg) :
    StepSimR PL2 (fun _ => True) (scadAssocBody env lg fac) (loadScadAssoc fac.L nodes) := by
  have key : ∀ s a, PL2 0 s →
      (∀ r, scadAssocBody env lg fac a (none, s) = .ok r →
        (∃ s1, r = .yield (none, s1) ∧ loadScadAssoc fac.L nodes (abs s) a = .ok (abs s1) ∧ PL2 0 s1) ∨
        (∃ s1, r = .done (some none, s1) ∧ loadScadAssoc fac.L nodes (abs s) a = .error .lookupError)) ∧
      (∀ e, scadAssocBody env lg fac a (none, s) = .error e →
        ∃ er, loadScadAssoc fac.L nodes (abs s) a = .error er ∧ ErrAgree e er) := by
    intro s a hP
    unfold scadAssocBody
    have noerr : ∀ attId tgtId prop e, scadEpBranch env attId tgtId prop s = .error e → False := by
      intro attId tgtId prop e h
      unfold scadEpBranch at h
      cases h1 : model_get_attacker_by_id s env attId with
      | none => rw [h1] at h; cases h
      | some t =>
        cases h2 : model_get_asset_by_id s env tgtId with
        | none => rw [h1, h2] at h; cases h
        | some x => rw [h1, h2] at h; cases h
    by_cases h1 : (a.sourceProperty == "firstSteps") = true
    · have h1' : a.sourceProperty = "firstSteps" := by simpa using h1
      rw [if_pos h1, loadScadAssoc_src _ _ _ _ h1']
      exact ⟨scad_ep_sim hE s hP _ _ _, fun e h => (noerr _ _ _ e h).elim⟩
    · have h1' : ¬ a.sourceProperty = "firstSteps" := by simpa using h1
      rw [if_neg h1]
      by_cases h2 : (a.targetProperty == "firstSteps") = true
      · have h2' : a.targetProperty = "firstSteps" := by simpa using h2
        rw [if_pos h2, loadScadAssoc_tgt _ _ _ _ h1' h2']
        exact ⟨scad_ep_sim hE s hP _ _ _, fun e h => (noerr _ _ _ e h).elim⟩
      · have h2' : ¬ a.targetProperty = "firstSteps" := by simpa using h2
        rw [if_neg h2, loadScadAssoc_link _ _ _ _ h1' h2']
        exact scad_link_sim hE fac lg nodes hF hd hnodes hlg s hP a
  exact ⟨fun n s a r hP _ h => (key s a hP).1 r h, fun n s a e hP _ h => (key s a hP).2 e h⟩

/-! ### Stage 3: the whole loader -/

/-- On an archive whose `.eom` member is the document `d`, the GENERATED `load_model_from_scad_archive` returns a
model exactly when the hand-written `Legacy.loadScad` accepts `d` (from the state the empty heap stands for), and the
abstraction of that model is the state `loadScad` computes; `return None` and every exception of the Python are an
error of the hand model. -/
theorem scad_loader_sim (files : Files) {env : ModelEnv} (hE : EqId env) (fac : Factory) (lg : LangGraphView)
    (nodes : List AssocDecl) (defsOk : Int → Bool) (path : String) (d : ScadDoc)
    (hF : FieldsDistinct fac.L) (hd : Ser.ClassNamesDistinct fac.L) (hnodes : ∀ d ∈ nodes, d ∈ fac.L.assocs)
    (hlg : LgSpec fac.L nodes lg)
    (hfile : files.eom path = .ok d) (hwf : ∀ o ∈ d.objects, ObjWf fac defsOk o)
    (hfuel : d.objects.length ≤ env.whileFuel) :
    (match securicad_load_model_from_scad_archive files env path lg fac with
     | .ok (some s') => some (abs s') | _ => none) =
      optSt (loadScadFrom fac.L nodes defsOk (abs (emptyModel path)) d) :=
  scad_loader_core files env fac lg nodes defsOk path d (scad_assoc_sim hE fac lg nodes hF hd hnodes hlg)
    hfile hwf hfuel

/-- The same with the error CLASS: a returned model is the state `loadScadFrom` computes; `None` is returned exactly
where the hand model answers `lookupError` (an unknown asset class, an id that names no asset / attacker); an exception
is an error of the hand model of the same class (`ErrAgree`: `errAbs` of the Python exception, pjs `ValidationError` =
`validation`; the one exception is an evidence attribute that is not a defense of the class, `unmodelled` in the
prelude, where the hand model answers `validation`).  `ObjWf` is only asked of the objects that are not attackers. -/
theorem scad_loader_sim_class (files : Files) {env : ModelEnv} (hE : EqId env) (fac : Factory) (lg : LangGraphView)
    (nodes : List AssocDecl) (defsOk : Int → Bool) (path : String) (d : ScadDoc)
    (hF : FieldsDistinct fac.L) (hd : Ser.ClassNamesDistinct fac.L) (hnodes : ∀ d ∈ nodes, d ∈ fac.L.assocs)
    (hlg : LgSpec fac.L nodes lg)
    (hfile : files.eom path = .ok d) (hwf : ∀ o ∈ d.objects, o.metaConcept ≠ "Attacker" → ObjWf fac defsOk o)
    (hfuel : d.objects.length ≤ env.whileFuel) :
    match securicad_load_model_from_scad_archive files env path lg fac with
    | .ok (some s') => loadScadFrom fac.L nodes defsOk (abs (emptyModel path)) d = .ok (abs s')
    | .ok none => loadScadFrom fac.L nodes defsOk (abs (emptyModel path)) d = .error .lookupError
    | .error e => ∃ er, loadScadFrom fac.L nodes defsOk (abs (emptyModel path)) d = .error er ∧ ErrAgree e er :=
  scad_loader_core_class files env fac lg nodes defsOk path d (scad_assoc_sim hE fac lg nodes hF hd hnodes hlg)
    hfile hwf hfuel

/-! ### `ObjWf.noEmpty` is needed: a class with a defense named `""` and an evidence attribute named `""` -/

def cexLang : Lang := { assets := [{ name := "C", steps := [{ name := "", type := "defense" }] }] }
def cexFac : Factory := { L := cexLang, floatOk := fun _ => true }
def cexObj : ScadObject := { id := 1, name := "x", metaConcept := "C", defenses := [("", "1.0")] }
def cexEnv : ModelEnv := { eqA := fun _ _ => false, eqL := fun _ _ => false, whileFuel := 5 }

/-- the Python raises `IndexError` (`defense_name[0]`) … -/
theorem cex_python_raises : scadObjectBody cexEnv cexFac cexObj (none, {}) = .error (.py .other) := by
  rw [scad_asset_branch _ _ _ _ (by decide)]
  have h1 : (!nsHasAsset cexFac cexObj.metaConcept) = false := by decide
  rw [h1]
  rfl

/-- … where the hand-written model accepts the object (and sets the defense `""`) -/
theorem cex_hand_accepts : ∃ st, loadScadObject cexLang (fun _ => true) (abs {}) cexObj = .ok st := by
  have h0 : ¬ cexObj.metaConcept = "Attacker" := by decide
  have h1 : ¬ (cexLang.findAsset cexObj.metaConcept).isNone = true := by decide
  have h2 : ¬ ((!true || !((cexObj.defenses.map (fun d => (decap d.1, d.2))).all
      (fun d => (MS.defensesOf cexLang cexObj.metaConcept).any (·.1 = d.1)))) = true) := by decide
  unfold loadScadObject
  rw [if_neg h0, addAsset_eq_core, if_neg h1, if_neg h2]
  exact ⟨_, rfl⟩

end MalVerif.PyLeg.Tie
