import MalVerif.Py.GenLegacy.Securicad
import MalVerif.Py.TieLegacyBase
namespace MalVerif.PyLeg.Tie
open MalVerif MalVerif.PyM MalVerif.PyM.Gen MalVerif.PyM.Tie MalVerif.PyLeg MalVerif.PyLeg.Gen MalVerif.Legacy
open MalVerif.Ser (Key)

/-- the state of a loop of the generated loader that contains `return`: the pending return value and the heap -/
abbrev LS := Option (Option H) × H

def scadDefBody (fac : Factory) (asset : ARef) : ScadEv → H → Except LErr (ForInStep H) := fun subchild s => do
  let defense_name ← pyDecap subchild.fst
  let s ← forIn (scadSub subchild) s (fun distrib s => do
    let s ← forIn (scadSub distrib) s (fun d s =>
      if True then do
        let s ← pjsSetDefense fac s asset (PyJ.str defense_name) d.snd
        pure (ForInStep.yield s)
      else pure (ForInStep.yield s))
    pure (ForInStep.yield s))
  pure (ForInStep.yield s)

def scadObjectBody (env : ModelEnv) (fac : Factory) : ScadObject → LS → Except LErr (ForInStep LS) := fun child st =>
  if (child.metaConcept == "Attacker") = true then do
    let r_1 ← newAttachment st.snd PyJ.null
    pure (ForInStep.yield (none,
      model_add_attacker (r_1.fst.setT r_1.snd { r_1.fst.t r_1.snd with entry_points := [] }) env r_1.snd
        (some child.id)) )
  else
    if (!nsHasAsset fac child.metaConcept) = true then pure (ForInStep.done (some none, st.snd) )
    else do
      let r_2 ← nsNewAsset fac st.snd (PyJ.str child.metaConcept) (PyJ.str child.name)
      let s ← forIn (scadEvidence child) r_2.fst (scadDefBody fac r_2.snd)
      let s ← liftPy (model_add_asset s env r_2.snd (some child.id) true)
      pure (ForInStep.yield (none, s) )

def scadEpBranch (env : ModelEnv) (attId tgtId : Int) (prop : String) (s : H) : Except LErr (ForInStep LS) :=
  match model_get_attacker_by_id s env attId with
  | some attacker_4 =>
    match model_get_asset_by_id s env tgtId with
    | some target_asset_5 =>
      pure (ForInStep.yield (none, attachment_add_entry_point s env attacker_4 target_asset_5 (pySplitDotFirst prop)) )
    | _ => pure (ForInStep.done (some none, s) )
  | _ => pure (ForInStep.done (some none, s) )

def scadLinkBranch (env : ModelEnv) (lg : LangGraphView) (fac : Factory) (child : ScadAssoc) (s : H) :
    Except LErr (ForInStep LS) :=
  match model_get_asset_by_id s env child.targetObject with
  | some left_asset_6 =>
    match model_get_asset_by_id s env child.sourceObject with
    | some right_asset_7 => do
      let r ← lg.get_association_by_fields_and_assets child.sourceProperty child.targetProperty
          (s.a left_asset_6).type (s.a right_asset_7).type
      match r with
      | some lang_graph_assoc_8 => do
        let r ← facAssocBySignature fac lang_graph_assoc_8.name lang_graph_assoc_8.leftAsset
            lang_graph_assoc_8.rightAsset
        match r with
        | some assoc_name_9 => do
          let r_10 ← nsNewAssoc fac s (PyJ.str assoc_name_9)
          let s ← pjsSetField fac r_10.fst r_10.snd (PyJ.str child.sourceProperty) (List.map some [left_asset_6])
          let s ← pjsSetField fac s r_10.snd (PyJ.str child.targetProperty) (List.map some [right_asset_7])
          let s ← liftPy (model_add_association s env r_10.snd)
          pure (ForInStep.yield (none, s) )
        | _ => pure (ForInStep.done (some none, s) )
      | _ => do
        throw (LErr.py PyErr.lookupError)
        pure (ForInStep.yield (none, s) )
    | _ => pure (ForInStep.done (some none, s) )
  | _ => pure (ForInStep.done (some none, s) )

def scadAssocBody (env : ModelEnv) (lg : LangGraphView) (fac : Factory) :
    ScadAssoc → LS → Except LErr (ForInStep LS) := fun child st =>
  if (child.sourceProperty == "firstSteps") = true then
    scadEpBranch env child.sourceObject child.targetObject child.targetProperty st.snd
  else if (child.targetProperty == "firstSteps") = true then
    scadEpBranch env child.targetObject child.sourceObject child.sourceProperty st.snd
  else scadLinkBranch env lg fac child st.snd

/-- the generated loader, in terms of the loop bodies -/
theorem scad_loader_eq (files : Files) (env : ModelEnv) (path : String) (lg : LangGraphView) (fac : Factory) :
    securicad_load_model_from_scad_archive files env path lg fac = (do
      let root ← files.eom path
      let s ← newModel (PyJ.str path)
      let st ← forIn root.objects ((none, s) : LS) (scadObjectBody env fac)
      match st.fst with
      | some r => pure r
      | none => do
        let st ← forIn root.associations ((none, st.snd) : LS) (scadAssocBody env lg fac)
        match st.fst with
        | some r => pure r
        | none => pure (some st.snd)) := by
  unfold securicad_load_model_from_scad_archive scadObjectBody scadDefBody scadAssocBody scadEpBranch scadLinkBranch
  simp only []
  congr 1; funext root; congr 1; funext s; congr 1
  funext st
  obtain ⟨r, s'⟩ := st
  cases r with
  | some r => rfl
  | none =>
    dsimp only
    congr 1
    funext st; obtain ⟨r, s'⟩ := st; cases r <;> rfl

/-! ### a `for` loop with `return` in its body against a `foldlM` of the hand model -/

theorem forInS_cons_yield {β σ : Type} (body : β → σ → Except LErr (ForInStep σ)) (x : β) (xs : List β) (s s1 : σ)
    (h : body x s = .ok (.yield s1)) : forIn (x :: xs) s body = forIn xs s1 body := by
  rw [List.forIn_cons]
  show (body x s).bind _ = _
  rw [h]; rfl

theorem forInS_cons_done {β σ : Type} (body : β → σ → Except LErr (ForInStep σ)) (x : β) (xs : List β) (s s1 : σ)
    (h : body x s = .ok (.done s1)) : forIn (x :: xs) s body = .ok s1 := by
  rw [List.forIn_cons]
  show (body x s).bind _ = _
  rw [h]; rfl

theorem forInS_cons_err {β σ : Type} (body : β → σ → Except LErr (ForInStep σ)) (x : β) (xs : List β) (s : σ) (e : LErr)
    (h : body x s = .error e) : forIn (x :: xs) s body = .error e := by
  rw [List.forIn_cons]
  show (body x s).bind _ = _
  rw [h]; rfl

/-- what a loop body (with `continue` = `yield`, and `return None` = `done` with the flag set) does on `a`, against one
step of the hand model: Python's `return None` is an error of the hand model -/
structure StepSimR {α : Type} (P : Nat → H → Prop) (Q : α → Prop) (body : α → LS → Except LErr (ForInStep LS))
    (step : MS.St → α → Except MS.Err MS.St) : Prop where
  ok : ∀ n s a r, P (n + 1) s → Q a → body a (none, s) = .ok r →
    (∃ s1, r = .yield (none, s1) ∧ step (abs s) a = .ok (abs s1) ∧ P n s1) ∨
    (∃ s1, r = .done (some none, s1) ∧ ∃ er, step (abs s) a = .error er)
  err : ∀ n s a e, P (n + 1) s → Q a → body a (none, s) = .error e → ∃ er, step (abs s) a = .error er

theorem loop_simR {α : Type} {P : Nat → H → Prop} {Q : α → Prop} {body : α → LS → Except LErr (ForInStep LS)}
    {step : MS.St → α → Except MS.Err MS.St} (hsim : StepSimR P Q body step) :
    ∀ (l : List α), (∀ a ∈ l, Q a) → ∀ (s : H), P l.length s →
      (∀ st, forIn l ((none, s) : LS) body = .ok st →
        (∃ s', st = (none, s') ∧ l.foldlM step (abs s) = .ok (abs s') ∧ P 0 s') ∨
        (∃ s', st = (some none, s') ∧ ∃ er, l.foldlM step (abs s) = .error er)) ∧
      (∀ e, forIn l ((none, s) : LS) body = .error e → ∃ er, l.foldlM step (abs s) = .error er) := by
  intro l
  induction l with
  | nil =>
    intro _ s hs
    refine ⟨?_, ?_⟩
    · intro st h
      have h' : (Except.ok ((none, s) : LS) : Except LErr LS) = .ok st := h
      injection h' with h'
      exact Or.inl ⟨s, h'.symm, rfl, hs⟩
    · intro e h; cases h
  | cons a as ih =>
    intro hq s hs
    have hqa := hq a List.mem_cons_self
    have hqs : ∀ b ∈ as, Q b := fun b hb => hq b (List.mem_cons_of_mem _ hb)
    rw [List.foldlM_cons]
    cases hb : body a (none, s) with
    | error e =>
      obtain ⟨er, her⟩ := hsim.err as.length s a e hs hqa hb
      rw [forInS_cons_err _ _ _ _ _ hb, her]
      refine ⟨?_, ?_⟩
      · intro s' h; cases h
      · intro e' _; exact ⟨er, rfl⟩
    | ok r =>
      rcases hsim.ok as.length s a r hs hqa hb with ⟨s1, hr, hst, hp⟩ | ⟨s1, hr, er, her⟩
      · subst hr
        rw [forInS_cons_yield _ _ _ _ _ hb, hst]
        exact ih hqs s1 hp
      · subst hr
        rw [forInS_cons_done _ _ _ _ _ hb, her]
        refine ⟨?_, ?_⟩
        · intro st h
          have h' : (Except.ok ((some none, s1) : LS) : Except LErr LS) = .ok st := h
          injection h' with h'
          exact Or.inr ⟨s1, h'.symm, er, rfl⟩
        · intro e h; cases h

/-! ### Stage 1: the objects loop -/

/-- the hand-written loader from an explicit start state -/
def loadScadFrom (L : Lang) (nodes : List AssocDecl) (defsOk : Int → Bool) (s0 : MS.St) (d : ScadDoc) :
    Except MS.Err MS.St := do
  let s1 ← d.objects.foldlM (loadScadObject L defsOk) s0
  d.associations.foldlM (loadScadAssoc L nodes) s1

theorem loadScadFrom_empty (L : Lang) (nodes : List AssocDecl) (defsOk : Int → Bool) (d : ScadDoc) :
    loadScadFrom L nodes defsOk {} d = loadScad L nodes defsOk d := rfl

/-- one evidence attribute: the name is decapitalised (`IndexError` on the empty name), then assigned -/
theorem scadDefBody_eq (fac : Factory) (asset : ARef) (ev : ScadEv) (s : H) :
    scadDefBody fac asset ev s =
      (pyDecap ev.1).bind (fun n => (pjsSetDefense fac s asset (PyJ.str n) ev.2).bind
        (fun s' => Except.ok (ForInStep.yield s'))) := by
  unfold scadDefBody scadSub
  cases h1 : pyDecap ev.1 with
  | error e => rfl
  | ok n =>
    cases h2 : pjsSetDefense fac s asset (PyJ.str n) ev.2 with
    | error e =>
      simp only [bind, Except.bind, List.forIn_cons, List.forIn_nil, if_true, h2]
    | ok s' =>
      simp only [bind, Except.bind, List.forIn_cons, List.forIn_nil, if_true, h2, pure, Except.pure]

theorem scad_dictSet_fresh (acc : List (String × String)) (k v : String) (h : k ∉ acc.map (·.1)) :
    PyM.dictSet acc k v = acc ++ [(k, v)] := by
  unfold PyM.dictSet
  have : acc.any (fun e => e.1 == k) = false := by
    rw [Bool.eq_false_iff]
    intro hc
    rw [List.any_eq_true] at hc
    obtain ⟨e, he, hek⟩ := hc
    exact h (List.mem_map.2 ⟨e, he, by simpa using hek⟩)
  rw [this]; rfl

theorem scad_newAssetObj_setA (s : H) (o o' : PyAsset) : (newAssetObj s o).setA s.afresh o' = newAssetObj s o' := by
  unfold newAssetObj H.setA
  congr 1
  funext x
  by_cases hx : x = s.afresh
  · simp only [hx, if_true]
  · simp only [hx, if_false]

theorem scad_newAssetObj_a (s : H) (o : PyAsset) : (newAssetObj s o).a s.afresh = o := by
  unfold newAssetObj; simp only [if_true]

/-- the pjs guard of one defense assignment -/
def scadGuard (fac : Factory) (ty : String) (d : String × String) : Bool :=
  (MS.defensesOf fac.L ty).any (·.1 = d.1) && fac.floatOk d.2

/-- the evidence attributes as the hand model reads them -/
def scadDefs (ds : List (String × String)) : List (String × String) := ds.map (fun d => (decap d.1, d.2))

theorem decap_empty : decap "" = "" := by decide

/-- one round of the evidence loop on the new object -/
theorem scadDefBody_new (fac : Factory) (s : H) (o : PyAsset) (d : String × String)
    (hfr : decap d.1 ∉ o.defenses.map (·.1))
    (hemp : d.1 = "" → (MS.defensesOf fac.L o.type).any (·.1 = "") = false) :
    (scadGuard fac o.type (decap d.1, d.2) = true →
      scadDefBody fac s.afresh d (newAssetObj s o) =
        .ok (.yield (newAssetObj s { o with defenses := o.defenses ++ [(decap d.1, d.2)] }))) ∧
    (scadGuard fac o.type (decap d.1, d.2) = false →
      ∃ e, scadDefBody fac s.afresh d (newAssetObj s o) = .error e) := by
  rw [scadDefBody_eq]
  unfold pyDecap
  by_cases he : d.1 = ""
  · have hg : scadGuard fac o.type (decap d.1, d.2) = false := by
      unfold scadGuard
      rw [he, decap_empty, hemp he]; rfl
    rw [hg]
    refine ⟨fun h => by cases h, fun _ => ⟨.py .other, ?_⟩⟩
    rw [he]
    rfl
  · have hne : d.1.isEmpty = false := by
      cases h : d.1.isEmpty with
      | false => rfl
      | true => exact absurd (String.isEmpty_iff.1 h) he
    simp only [hne, Bool.false_eq_true, if_false]
    show (_ → (pjsSetDefense fac (newAssetObj s o) s.afresh (PyJ.str (decap d.1)) d.2).bind _ = _) ∧
      (_ → ∃ e, (pjsSetDefense fac (newAssetObj s o) s.afresh (PyJ.str (decap d.1)) d.2).bind _ = _)
    unfold pjsSetDefense scadGuard
    simp only [scad_newAssetObj_a, scad_dictSet_fresh _ _ _ hfr, scad_newAssetObj_setA]
    cases (MS.defensesOf fac.L o.type).any (·.1 = decap d.1) <;> cases fac.floatOk d.2
    · exact ⟨fun h => by cases h, fun _ => ⟨_, rfl⟩⟩
    · exact ⟨fun h => by cases h, fun _ => ⟨_, rfl⟩⟩
    · exact ⟨fun h => by cases h, fun _ => ⟨_, rfl⟩⟩
    · exact ⟨fun _ => rfl, fun h => by cases h⟩

/-- the evidence loop on the new object: all assignments pass their guards and the object holds the decapitalised
defenses, or one of them raises -/
theorem scad_defenses_loop (fac : Factory) (s : H) :
    ∀ (ds : List (String × String)) (o : PyAsset), ((o.defenses ++ scadDefs ds).map (·.1)).Nodup →
      (∀ d ∈ ds, d.1 = "" → (MS.defensesOf fac.L o.type).any (·.1 = "") = false) →
      ((scadDefs ds).all (scadGuard fac o.type) = true →
        forIn ds (newAssetObj s o) (scadDefBody fac s.afresh) =
          .ok (newAssetObj s { o with defenses := o.defenses ++ scadDefs ds })) ∧
      ((scadDefs ds).all (scadGuard fac o.type) = false →
        ∃ e, forIn ds (newAssetObj s o) (scadDefBody fac s.afresh) = .error e) := by
  intro ds
  induction ds with
  | nil =>
    intro o _ _
    refine ⟨?_, ?_⟩
    · intro _
      show _ = Except.ok (newAssetObj s { o with defenses := o.defenses ++ [] })
      rw [List.append_nil]; rfl
    · intro h; cases h
  | cons d ds ih =>
    intro o hnd hemp
    have hcons : scadDefs (d :: ds) = (decap d.1, d.2) :: scadDefs ds := rfl
    have hfr : decap d.1 ∉ o.defenses.map (·.1) := by
      intro hm
      rw [hcons, List.map_append, List.map_cons, List.nodup_append] at hnd
      exact hnd.2.2 _ hm _ List.mem_cons_self rfl
    have hstep := scadDefBody_new fac s o d hfr (hemp d List.mem_cons_self)
    rw [hcons, List.all_cons]
    by_cases hg : scadGuard fac o.type (decap d.1, d.2) = true
    · rw [forIn_cons_ok _ _ _ _ _ (hstep.1 hg), hg, Bool.true_and]
      have hnd' : (((({ o with defenses := o.defenses ++ [(decap d.1, d.2)] } : PyAsset).defenses) ++
          scadDefs ds).map (·.1)).Nodup := by
        show (((o.defenses ++ [(decap d.1, d.2)]) ++ scadDefs ds).map (·.1)).Nodup
        rw [List.append_assoc]; exact hnd
      have := ih { o with defenses := o.defenses ++ [(decap d.1, d.2)] } hnd'
        (fun x hx => hemp x (List.mem_cons_of_mem _ hx))
      have hap : (o.defenses ++ [(decap d.1, d.2)]) ++ scadDefs ds = o.defenses ++ (decap d.1, d.2) :: scadDefs ds := by
        rw [List.append_assoc]; rfl
      simp only [hap] at this
      exact this
    · have hg' : scadGuard fac o.type (decap d.1, d.2) = false := by
        cases h : scadGuard fac o.type (decap d.1, d.2) with
        | false => rfl
        | true => exact absurd h hg
      obtain ⟨e, herr⟩ := hstep.2 hg'
      rw [forIn_cons_err _ _ _ _ _ herr]
      refine ⟨?_, fun _ => ⟨_, rfl⟩⟩
      intro h
      rw [Bool.and_eq_true] at h
      exact absurd h.1 hg

theorem scad_all_guard (fac : Factory) (ty : String) (defs : List (String × String)) :
    defs.all (scadGuard fac ty) =
      (defs.all (fun p => fac.floatOk p.2) && defs.all (fun d => (MS.defensesOf fac.L ty).any (·.1 = d.1))) := by
  induction defs with
  | nil => rfl
  | cons d ds ih =>
    rw [List.all_cons, List.all_cons, List.all_cons, ih]
    unfold scadGuard
    cases (MS.defensesOf fac.L ty).any (·.1 = d.1) <;> cases fac.floatOk d.2 <;>
      cases ds.all (fun p => fac.floatOk p.2) <;> rfl

theorem scad_setAdd_length_le {α : Type} [DecidableEq α] (l : List α) (x : α) :
    (MS.setAdd l x).length ≤ l.length + 1 := by
  unfold MS.setAdd
  split
  · omega
  · rw [List.length_append]; exact Nat.le_refl _

/-- every attacker of the model has an `id` (true after `add_attacker`) -/
def AttIds (s : H) : Prop := ∀ t ∈ s.attackers, (s.t t).id.isSome

/-- invariant of the objects loop with `n` objects to go -/
def PO (env : ModelEnv) (n : Nat) (s : H) : Prop :=
  MS.Inv (abs s) ∧ s.asset_names.length + n ≤ env.whileFuel ∧ EpOKAll s ∧ AttIds s

/-- what is assumed of one object of the document.  `noEmpty`: an evidence attribute with the empty name makes Python
raise (`name[0]`), the hand model reads it as the defense `""`; the two agree unless the class has a defense `""`. -/
structure ObjWf (fac : Factory) (defsOk : Int → Bool) (o : ScadObject) : Prop where
  nodup : (o.defenses.map (fun d => decap d.1)).Nodup
  defsOk : defsOk o.id = o.defenses.all (fun d => fac.floatOk d.2)
  noEmpty : ∀ d ∈ o.defenses, d.1 = "" → (MS.defensesOf fac.L o.metaConcept).any (·.1 = "") = false

theorem scad_newAttObj_setT (s : H) :
    (newAttObj s {}).setT s.tfresh { (newAttObj s {}).t s.tfresh with entry_points := [] } = newAttObj s {} := by
  unfold newAttObj H.setT
  congr 1
  funext x
  by_cases hx : x = s.tfresh
  · simp only [hx, if_true]
  · simp only [hx, if_false]

theorem scad_attacker_branch (env : ModelEnv) (fac : Factory) (o : ScadObject) (s : H)
    (h : (o.metaConcept == "Attacker") = true) :
    scadObjectBody env fac o (none, s) =
      .ok (.yield (none, model_add_attacker (newAttObj s {}) env s.tfresh (some o.id))) := by
  unfold scadObjectBody
  rw [if_pos h]
  show (newAttachment s PyJ.null).bind _ = _
  unfold newAttachment
  simp only [allocT_eq]
  show Except.ok (ForInStep.yield (none, model_add_attacker ((newAttObj s {}).setT s.tfresh _) env s.tfresh _)) = _
  rw [scad_newAttObj_setT]

theorem scad_attacker_inv (env : ModelEnv) (s : H) (id : Int) (n : Nat) (hP : PO env n s) :
    PO env n (model_add_attacker (newAttObj s {}) env s.tfresh (some id)) ∧
      abs (model_add_attacker (newAttObj s {}) env s.tfresh (some id)) = MS.addAttacker (abs s) none (some id) := by
  obtain ⟨hI, hfuel, hO, hid⟩ := hP
  have htie := add_attacker_tie s env {} rfl (some id)
  have hshape := add_attacker_shape (newAttObj s {}) env s.tfresh (some id)
  refine ⟨⟨?_, ?_, ?_, ?_⟩, htie⟩
  · rw [htie]; exact MS.addAttacker_inv' _ _ _ hI
  · rw [add_attacker_run]; exact hfuel
  · refine epOKAll_of_sub (s := s) hshape.2.1 ?_ hO
    intro t
    rw [hshape.2.2.2 t]
    show ((if t = s.tfresh then ({} : PyAtt) else s.t t)).entry_points.Sublist _
    by_cases ht : t = s.tfresh
    · rw [if_pos ht]; exact List.nil_sublist _
    · rw [if_neg ht]; exact List.Sublist.refl _
  · intro t ht
    rw [hshape.2.2.1] at ht
    by_cases htf : t = s.tfresh
    · subst htf; rw [add_attacker_id]; rfl
    · have hmem : t ∈ s.attackers := by
        rcases List.mem_append.1 ht with h | h
        · exact h
        · exact absurd (List.mem_singleton.1 h) htf
      have : (model_add_attacker (newAttObj s {}) env s.tfresh (some id)).t t = s.t t := by
        rw [add_attacker_run]
        unfold addAttackerH newAttObj
        simp only [if_neg htf]
      rw [this]; exact hid t hmem

theorem scad_asset_branch (env : ModelEnv) (fac : Factory) (o : ScadObject) (s : H)
    (h : ¬ (o.metaConcept == "Attacker") = true) :
    scadObjectBody env fac o (none, s) =
      if (!nsHasAsset fac o.metaConcept) = true then .ok (.done (some none, s))
      else (nsNewAsset fac s (PyJ.str o.metaConcept) (PyJ.str o.name)).bind (fun r_2 =>
        (forIn o.defenses r_2.fst (scadDefBody fac r_2.snd)).bind (fun s' =>
          (liftPy (model_add_asset s' env r_2.snd (some o.id) true)).bind (fun s'' =>
            .ok (.yield (none, s''))))) := by
  unfold scadObjectBody
  rw [if_neg h]
  rfl

/-- the body of the objects loop on one object, against `Legacy.loadScadObject` -/
theorem scad_object_sim (env : ModelEnv) (fac : Factory) (defsOk : Int → Bool) :
    StepSimR (PO env) (ObjWf fac defsOk) (scadObjectBody env fac) (loadScadObject fac.L defsOk) := by
  have key : ∀ n s o, PO env (n + 1) s → ObjWf fac defsOk o →
      (∀ r, scadObjectBody env fac o (none, s) = .ok r →
        (∃ s1, r = .yield (none, s1) ∧ loadScadObject fac.L defsOk (abs s) o = .ok (abs s1) ∧ PO env n s1) ∨
        (∃ s1, r = .done (some none, s1) ∧ ∃ er, loadScadObject fac.L defsOk (abs s) o = .error er)) ∧
      (∀ e, scadObjectBody env fac o (none, s) = .error e →
        ∃ er, loadScadObject fac.L defsOk (abs s) o = .error er) := by
    intro n s o hP hQ
    by_cases hatt : (o.metaConcept == "Attacker") = true
    · -- an attacker object
      have hmc : o.metaConcept = "Attacker" := by simpa using hatt
      have hP' : PO env n s := ⟨hP.1, by have := hP.2.1; omega, hP.2.2.1, hP.2.2.2⟩
      obtain ⟨hinv, habs⟩ := scad_attacker_inv env s o.id n hP'
      rw [scad_attacker_branch env fac o s hatt]
      refine ⟨fun r h => Or.inl ⟨_, ?_, ?_, hinv⟩, fun e h => by cases h⟩
      · injection h with h; exact h.symm
      · unfold loadScadObject
        rw [if_pos hmc, habs]
    · have hmc : ¬ o.metaConcept = "Attacker" := by simpa using hatt
      obtain ⟨hI, hfuel, hep, hid⟩ := hP
      have hfresh : s.afresh ∉ s.assets := hI.assets.fresh_not_mem
      have hfuel1 : s.asset_names.length + 1 ≤ env.whileFuel := by omega
      rw [scad_asset_branch env fac o s hatt]
      have hhand0 : loadScadObject fac.L defsOk (abs s) o =
          MS.addAsset fac.L (abs s) o.metaConcept (some o.name) (scadDefs o.defenses) (defsOk o.id) "{}"
            (some o.id) true := by
        unfold loadScadObject
        rw [if_neg hmc]; rfl
      rw [hhand0]
      by_cases hcls : (fac.L.findAsset o.metaConcept).isNone = true
      · -- no such class: `return None`
        have hns : (!nsHasAsset fac o.metaConcept) = true := by
          unfold nsHasAsset
          cases h : fac.L.findAsset o.metaConcept with
          | none => rfl
          | some _ => rw [h] at hcls; cases hcls
        rw [if_pos hns]
        refine ⟨fun r h => Or.inr ⟨s, ?_, .lookupError, ?_⟩, fun e h => by cases h⟩
        · injection h with h; exact h.symm
        · rw [addAsset_eq_core, if_pos hcls]
      · have hsome : (fac.L.findAsset o.metaConcept).isSome = true := by
          cases h : fac.L.findAsset o.metaConcept with
          | none => rw [h] at hcls; exact absurd rfl hcls
          | some _ => rfl
        have hns : ¬ (!nsHasAsset fac o.metaConcept) = true := by
          unfold nsHasAsset; rw [hsome]; decide
        rw [if_neg hns]
        have hnew : nsNewAsset fac s (PyJ.str o.metaConcept) (PyJ.str o.name) =
            .ok (newAssetObj s { type := o.metaConcept, name := some o.name }, s.afresh) := by
          unfold nsNewAsset nsHasAsset
          simp only [hsome, allocA_eq]; rfl
        rw [hnew]
        obtain ⟨lok, lerr⟩ := scad_defenses_loop fac s o.defenses { type := o.metaConcept, name := some o.name }
          (by
            show (([] ++ scadDefs o.defenses).map (fun p : String × String => p.1)).Nodup
            rw [List.nil_append]
            unfold scadDefs
            rw [List.map_map]
            exact hQ.nodup)
          hQ.noEmpty
        have hgd : (!defsOk o.id || !((scadDefs o.defenses).all
              (fun d => (MS.defensesOf fac.L o.metaConcept).any (·.1 = d.1)))) =
            !((scadDefs o.defenses).all (scadGuard fac o.metaConcept)) := by
          have hfl : (scadDefs o.defenses).all (fun p => fac.floatOk p.2) =
              o.defenses.all (fun d => fac.floatOk d.2) := by
            unfold scadDefs; rw [List.all_map]; rfl
          rw [scad_all_guard, hQ.defsOk, Bool.not_and, hfl]
        by_cases hg : (scadDefs o.defenses).all (scadGuard fac o.metaConcept) = true
        · have hloop := lok hg
          have hgd' : ¬ (!defsOk o.id || !((scadDefs o.defenses).all
              (fun d => (MS.defensesOf fac.L o.metaConcept).any (·.1 = d.1)))) = true := by
            rw [hgd, hg]; decide
          simp only [Except.bind]
          rw [hloop]
          have tie := add_asset_tie s env hfresh hfuel1
            { type := o.metaConcept, name := some o.name, defenses := [] ++ scadDefs o.defenses } (some o.id) true
          have hhand : MS.addAsset fac.L (abs s) o.metaConcept (some o.name) (scadDefs o.defenses) (defsOk o.id) "{}"
              (some o.id) true =
              addAssetCore (abs s) o.metaConcept (some o.name) (scadDefs o.defenses) "{}" (some o.id) true := by
            rw [addAsset_eq_core, if_neg hcls, if_neg hgd']
          dsimp only
          cases hm : model_add_asset (newAssetObj s
              { type := o.metaConcept, name := some o.name, defenses := [] ++ scadDefs o.defenses }) env
              s.afresh (some o.id) true with
          | error e0 =>
            rw [hm] at tie
            dsimp only [liftPy]
            refine ⟨fun r h => (by cases h), fun e _ => ⟨errAbs e0, ?_⟩⟩
            rw [hhand]; exact tie.symm
          | ok s1 =>
            rw [hm] at tie
            dsimp only [liftPy]
            have hst : MS.addAsset fac.L (abs s) o.metaConcept (some o.name) (scadDefs o.defenses) (defsOk o.id) "{}"
                (some o.id) true = .ok (abs s1) := by
              rw [hhand]; exact tie.symm
            refine ⟨fun r h => Or.inl ⟨s1, ?_, hst, ?_⟩, fun e h => by cases h⟩
            · injection h with h; exact h.symm
            · have fr := add_asset_tframe _ s1 env s.afresh (some o.id) true
                (show s.afresh ∉ (newAssetObj s
                  { type := o.metaConcept, name := some o.name, defenses := [] ++ scadDefs o.defenses }).assets
                  from hfresh) hfuel1 hm
              refine ⟨MS.addAsset_inv' hI hst, ?_, ?_, ?_⟩
              · obtain ⟨hs1, _⟩ := MS.addAsset_ok hst
                have hnames : s1.asset_names = MS.setAdd s.asset_names
                    (MS.newAsset (abs s) o.metaConcept (some o.name) (scadDefs o.defenses) "{}" (some o.id)).name := by
                  show (abs s1).assetNames = _
                  rw [hs1]; rfl
                have := scad_setAdd_length_le s.asset_names
                  (MS.newAsset (abs s) o.metaConcept (some o.name) (scadDefs o.defenses) "{}" (some o.id)).name
                rw [hnames]; omega
              · exact tframe_epOKAll fr (epOKAll_newAssetObj s _ hep)
              · intro t ht
                rw [fr.attackers] at ht
                rw [fr.t]
                exact hid t ht
        · have hg' : (scadDefs o.defenses).all (scadGuard fac o.metaConcept) = false := by
            cases h : (scadDefs o.defenses).all (scadGuard fac o.metaConcept) with
            | false => rfl
            | true => exact absurd h hg
          obtain ⟨e0, hloop⟩ := lerr hg'
          simp only [Except.bind]
          rw [hloop]
          refine ⟨fun r h => (by cases h), fun e _ => ⟨.validation, ?_⟩⟩
          rw [addAsset_eq_core, if_neg hcls, hgd, hg']; rfl
  exact ⟨fun n s a r hP hQ h => (key n s a hP hQ).1 r h, fun n s a e hP hQ h => (key n s a hP hQ).2 e h⟩

end MalVerif.PyLeg.Tie
