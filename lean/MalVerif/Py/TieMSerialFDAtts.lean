import MalVerif.Py.TieMSerialFD
/-!
# The third loop of the translated `_from_dict` (attackers) against `Ser.loadAttacker`

`fdAtt_ok` / `fdAtt_err`: one round of the loop over the keys of the `attackers` dictionary (`fdAttBody`) returns
exactly when `Ser.loadAttacker` accepts the entry, and then the abstraction of the heap reached is the state
`Ser.loadAttacker` gives.

* `epPush` is what one round of the inner loop (over the entry points) does to the heap when nothing raises:
  a new tuple object and its reference appended to the `entry_points` of the attachment; `epStep` is that round
  with its four possible exceptions; `epsH` the heap after the rounds for a list of resolved pairs (`epsH_spec`).
* `inner_sim`: the inner loop returns exactly when every entry point resolves (`List.mapM` of the hand model).
* `EntryIdsDistinct v`: the entry-point keys of the attacker entry convert to pairwise different integers.  It is
  needed for `MS.Inv` of the state reached only (`MS.Inv` says that the entry points of a live attacker name
  pairwise different assets); pairwise different *keys* do not give it: `{1: …, "1": …}`.
-/
namespace MalVerif.PyM.Tie
open MalVerif MalVerif.PyM MalVerif.PyM.Gen MalVerif.Ser

/-- the entry-point keys of an attacker entry convert to pairwise different integers -/
def EntryIdsDistinct (v : PyAttD) : Prop := ((v.entry_points.getD []).map (fun p => p.1.toInt?)).Nodup

instance (v : PyAttD) : Decidable (EntryIdsDistinct v) := by unfold EntryIdsDistinct; exact inferInstance

/-! ### dictionaries with pairwise different keys -/

theorem dictGet_of_mem {ν : Type} (d : List (Key × ν)) (hnd : (d.map (·.1)).Nodup) (k : Key) (v : ν)
    (h : (k, v) ∈ d) : dictGet d k = some v := by
  induction d with
  | nil => cases h
  | cons x d ih =>
    rw [List.map_cons, List.nodup_cons] at hnd
    unfold dictGet
    rw [List.find?_cons]
    rcases List.mem_cons.1 h with h | h
    · subst h
      simp
    · have hne : x.1 ≠ k := fun e => hnd.1 (e ▸ List.mem_map.2 ⟨(k, v), h, rfl⟩)
      have hb : (x.1 == k) = false := by simpa using hne
      rw [hb]
      exact ih hnd.2 h

theorem dictGetE_of_mem {ν : Type} (d : List (Key × ν)) (hnd : (d.map (·.1)).Nodup) (k : Key) (v : ν)
    (h : (k, v) ∈ d) : dictGetE d k = .ok v := by
  unfold dictGetE
  rw [dictGet_of_mem d hnd k v h]

/-! ### loops -/

/-- a `for` loop whose body is `s ← f s x` -/
theorem forIn_loopE {α σ : Type} (body : α → σ → Except PyErr (ForInStep σ)) (f : σ → α → Except PyErr σ)
    (l : List α) (h : ∀ x ∈ l, ∀ s, body x s = (f s x).bind (fun s' => Except.pure (ForInStep.yield s'))) (s : σ) :
    forIn l s body = loopE f l s := by
  induction l generalizing s with
  | nil => rfl
  | cons x xs ih =>
    rw [List.forIn_cons, loopE_cons, h x List.mem_cons_self s]
    cases hf : f s x with
    | error e => rfl
    | ok s' => exact ih (fun y hy => h y (List.mem_cons_of_mem _ hy)) s'

/-! ### the inner loop: one tuple object per entry point -/

/-- `attacker.entry_points.append((asset, steps))` -/
def epPush (s : H) (att : TRef) (p : Nat × List String) : H :=
  { s with
    e := fun x => if x = s.efresh then { asset := p.1, steps := p.2 } else s.e x
    efresh := s.efresh + 1
    t := fun x => if x = att then { s.t att with entry_points := (s.t att).entry_points ++ [s.efresh] } else s.t x }

/-- one round of the inner loop of `fdAttBody` -/
def epStep (env : SEnv) (eps : List (Key × PyEpD)) (att : TRef) (s : H) (key : Key) : Except PyErr H :=
  match key.toInt? with
  | none => .error (keyIntErr key)
  | some i =>
    match model_get_asset_by_id s env.model i with
    | none => .error .other
    | some a =>
      match dictGet eps key with
      | none => .error .keyError
      | some d =>
        match d.attack_steps with
        | none => .error .keyError
        | some st => .ok (epPush s att (a, st))

/-- the heap after the rounds of the inner loop for the resolved pairs `ps` -/
def epsH (s : H) (att : TRef) (ps : List (Nat × List String)) : H := ps.foldl (fun s p => epPush s att p) s

theorem epsH_cons (s : H) (att : TRef) (p : Nat × List String) (ps : List (Nat × List String)) :
    epsH s att (p :: ps) = epsH (epPush s att p) att ps := rfl

theorem epsH_spec (att : TRef) : ∀ (ps : List (Nat × List String)) (s : H),
    ({ epsH s att ps with t := s.t, e := s.e, efresh := s.efresh } : H) = s ∧
    s.efresh ≤ (epsH s att ps).efresh ∧
    (∀ r, r < s.efresh → (epsH s att ps).e r = s.e r) ∧
    (∀ u, u ≠ att → (epsH s att ps).t u = s.t u) ∧
    ((epsH s att ps).t att).id = (s.t att).id ∧ ((epsH s att ps).t att).name = (s.t att).name ∧
    ∃ new, ((epsH s att ps).t att).entry_points = (s.t att).entry_points ++ new ∧
      new.map (epVal (epsH s att ps)) = ps ∧ ∀ r ∈ new, s.efresh ≤ r ∧ r < (epsH s att ps).efresh := by
  intro ps
  induction ps with
  | nil =>
    intro s
    exact ⟨rfl, Nat.le_refl _, fun _ _ => rfl, fun _ _ => rfl, rfl, rfl, [], by simp [epsH], rfl, nofun⟩
  | cons p ps ih =>
    intro s
    obtain ⟨h1, h2, h3, h4, h5, h6, new, h7, h8, h9⟩ := ih (epPush s att p)
    rw [epsH_cons]
    have hef : (epPush s att p).efresh = s.efresh + 1 := rfl
    have htt : (epPush s att p).t att = { s.t att with entry_points := (s.t att).entry_points ++ [s.efresh] } := by
      show (if att = att then _ else _) = _
      rw [if_pos rfl]
    refine ⟨?_, by omega, ?_, ?_, ?_, ?_, s.efresh :: new, ?_, ?_, ?_⟩
    · have := congrArg (fun z : H => ({ z with t := s.t, e := s.e, efresh := s.efresh } : H)) h1
      exact this
    · intro r hr
      rw [h3 r (by omega)]
      show (if r = s.efresh then _ else s.e r) = s.e r
      rw [if_neg (by omega)]
    · intro u hu
      rw [h4 u hu]
      show (if u = att then _ else s.t u) = s.t u
      rw [if_neg hu]
    · rw [h5, htt]
    · rw [h6, htt]
    · rw [h7, htt]
      show ((s.t att).entry_points ++ [s.efresh]) ++ new = _
      rw [List.append_assoc]; rfl
    · rw [List.map_cons, h8]
      congr 1
      unfold epVal
      rw [h3 s.efresh (by omega)]
      show ((if s.efresh = s.efresh then ({ asset := p.1, steps := p.2 } : PyEp) else s.e s.efresh).asset,
            (if s.efresh = s.efresh then ({ asset := p.1, steps := p.2 } : PyEp) else s.e s.efresh).steps) = p
      rw [if_pos rfl]
    · intro r hr
      rcases List.mem_cons.1 hr with hr | hr
      · subst hr; exact ⟨Nat.le_refl _, (show s.efresh + 1 ≤ _ from h2)⟩
      · have := h9 r hr; exact ⟨Nat.le_trans (Nat.le_succ _) (show s.efresh + 1 ≤ r from this.1), this.2⟩

/-- what the hand model does with one entry point of the document -/
def resolveEp (st : MS.St) (p : Key × PyEpD) : Option (Nat × List String) :=
  (p.1.toInt?.bind (MS.getAssetById st)).map (fun a => (a, p.2.attack_steps.getD []))

theorem abs_epPush_get (s : H) (att : TRef) (q : Nat × List String) :
    MS.getAssetById (abs (epPush s att q)) = MS.getAssetById (abs s) := rfl

theorem resolveEp_epPush (s : H) (att : TRef) (q : Nat × List String) :
    resolveEp (abs (epPush s att q)) = resolveEp (abs s) := rfl

theorem mapM_cons_none {α β : Type} (f : α → Option β) (x : α) (l : List α) (h : f x = none) :
    (x :: l).mapM f = none := by
  rw [List.mapM_cons, h]; rfl

theorem mapM_cons_some {α β : Type} (f : α → Option β) (x : α) (l : List α) (y : β) (h : f x = some y) :
    (x :: l).mapM f = (l.mapM f).map (fun ys => y :: ys) := by
  rw [List.mapM_cons, h]
  cases l.mapM f <;> rfl

/-- the inner loop returns exactly when every entry point resolves; the heap is then `epsH` of the resolved pairs -/
theorem inner_sim (env : SEnv) (eps : List (Key × PyEpD)) (att : TRef) (hnd : (eps.map (·.1)).Nodup)
    (hst : ∀ p ∈ eps, p.2.attack_steps.isSome = true) :
    ∀ (l : List (Key × PyEpD)), (∀ p ∈ l, p ∈ eps) → ∀ s : H,
      match loopE (epStep env eps att) (l.map (·.1)) s with
      | .ok s' => ∃ ps, l.mapM (resolveEp (abs s)) = some ps ∧ s' = epsH s att ps
      | .error _ => l.mapM (resolveEp (abs s)) = none := by
  intro l
  induction l with
  | nil =>
    intro _ s
    exact ⟨[], rfl, rfl⟩
  | cons p l ih =>
    intro hl s
    have hp : p ∈ eps := hl p List.mem_cons_self
    have hl' : ∀ q ∈ l, q ∈ eps := fun q hq => hl q (List.mem_cons_of_mem _ hq)
    rw [List.map_cons, loopE_cons]
    cases h1 : p.1.toInt? with
    | none =>
      have e1 : epStep env eps att s p.1 = .error (keyIntErr p.1) := by unfold epStep; rw [h1]
      rw [e1]
      exact mapM_cons_none _ _ _ (by unfold resolveEp; rw [h1]; rfl)
    | some i =>
      cases h2 : MS.getAssetById (abs s) i with
      | none =>
        have e1 : epStep env eps att s p.1 = .error .other := by
          unfold epStep; rw [h1]; dsimp only; rw [get_asset_by_id_tie, h2]
        rw [e1]
        exact mapM_cons_none _ _ _ (by unfold resolveEp; rw [h1]; show Option.map _ (MS.getAssetById (abs s) i) = none; rw [h2]; rfl)
      | some a =>
        obtain ⟨st, hst'⟩ := Option.isSome_iff_exists.1 (hst p hp)
        have e1 : epStep env eps att s p.1 = .ok (epPush s att (a, st)) := by
          unfold epStep; rw [h1]; dsimp only; rw [get_asset_by_id_tie, h2]; dsimp only
          rw [dictGet_of_mem eps hnd p.1 p.2 hp]; dsimp only; rw [hst']
        have e2 : resolveEp (abs s) p = some (a, st) := by
          unfold resolveEp; rw [h1]; show Option.map _ (MS.getAssetById (abs s) i) = _; rw [h2, hst']; rfl
        rw [e1, ok_bind, mapM_cons_some _ _ _ _ e2]
        have := ih hl' (epPush s att (a, st))
        rw [resolveEp_epPush] at this
        cases hloop : loopE (epStep env eps att) (l.map (·.1)) (epPush s att (a, st)) with
        | error e =>
          rw [hloop] at this
          show Option.map _ (l.mapM (resolveEp (abs s))) = none
          rw [this]; rfl
        | ok s' =>
          rw [hloop] at this
          obtain ⟨ps, hps, hs'⟩ := this
          refine ⟨(a, st) :: ps, ?_, ?_⟩
          · rw [hps]; rfl
          · rw [hs', epsH_cons]

/-! ### the body of the loop over the attackers -/

/-- the heap in which the inner loop starts: `AttackerAttachment(name = nm)` with `entry_points = []` -/
def attStart (s : H) (nm : String) : H :=
  { s with t := fun x => if x = s.tfresh then { name := some nm } else s.t x, tfresh := s.tfresh + 1 }

theorem attStart_eq (s : H) (nm : String) :
    (newAttachment s nm).fst.setT (newAttachment s nm).snd
      { id := ((newAttachment s nm).fst.t (newAttachment s nm).snd).id,
        name := ((newAttachment s nm).fst.t (newAttachment s nm).snd).name } = attStart s nm := by
  unfold newAttachment newAttObj H.setT attStart
  simp only [H.mk.injEq, true_and, and_true]
  funext x
  by_cases hx : x = s.tfresh <;> simp [hx]

theorem fdAttBody_eq (env : SEnv) (ai : List (Key × PyAttD)) (k : Key) (v : PyAttD) (nm : String)
    (eps : List (Key × PyEpD)) (s : H) (hg : dictGetE ai k = .ok v) (hn : v.name = some nm)
    (he : v.entry_points = some eps) :
    fdAttBody env ai k s =
      (loopE (epStep env eps s.tfresh) (eps.map (·.1)) (attStart s nm)).bind (fun s2 =>
        (keyInt k).bind (fun id => .ok (ForInStep.yield (addAttackerH s2 s.tfresh (some id))))) := by
  unfold fdAttBody
  simp only [bind, pure, hg, ok_bind, hn, he, recGetE, add_attacker_run, attStart_eq]
  rw [forIn_loopE _ (epStep env eps s.tfresh) _ ?_]
  · rfl
  · intro x _ s'
    unfold epStep keyInt objOrOther dictGetE
    cases x.toInt? with
    | none => rfl
    | some i =>
      simp only [ok_bind]
      cases model_get_asset_by_id s' env.model i with
      | none => rfl
      | some a =>
        simp only [ok_bind]
        cases dictGet eps x with
        | none => rfl
        | some d =>
          simp only [ok_bind]
          cases d.attack_steps <;> rfl

/-! ### the heap after the inner loop, and after `add_attacker` -/

/-- what the inner loop (started in `attStart s nm`, resolved pairs `ps`) leaves -/
structure AttRun (s : H) (nm : String) (ps : List (Nat × List String)) (s2 : H) : Prop where
  frame : ({ s2 with t := (attStart s nm).t, e := s.e, efresh := s.efresh } : H) = attStart s nm
  ef : s.efresh ≤ s2.efresh
  e : ∀ r, r < s.efresh → s2.e r = s.e r
  t : ∀ u, u ≠ s.tfresh → s2.t u = s.t u
  id : (s2.t s.tfresh).id = none
  name : (s2.t s.tfresh).name = some nm
  ep : (s2.t s.tfresh).entry_points.map (epVal s2) = ps
  epF : ∀ r ∈ (s2.t s.tfresh).entry_points, r < s2.efresh

theorem attStart_t (s : H) (nm : String) : (attStart s nm).t s.tfresh = { name := some nm } := by
  show (if s.tfresh = s.tfresh then _ else _) = _
  rw [if_pos rfl]

theorem attRun_epsH (s : H) (nm : String) (ps : List (Nat × List String)) :
    AttRun s nm ps (epsH (attStart s nm) s.tfresh ps) := by
  obtain ⟨h1, h2, h3, h4, h5, h6, new, h7, h8, h9⟩ := epsH_spec s.tfresh ps (attStart s nm)
  rw [attStart_t] at h5 h6 h7
  refine ⟨h1, h2, h3, ?_, h5, h6, ?_, ?_⟩
  · intro u hu
    rw [h4 u hu]
    show (if u = s.tfresh then _ else s.t u) = s.t u
    rw [if_neg hu]
  · rw [h7]; exact h8
  · rw [h7]; intro r hr; exact (h9 r hr).2

theorem abs_att_final (s : H) (nm : String) (ps : List (Nat × List String)) (s2 : H) (id : Int)
    (hR : AttRun s nm ps s2) (hF : ∀ u, ∀ r ∈ (s.t u).entry_points, r < s.efresh) :
    abs (addAttackerH s2 s.tfresh (some id)) =
      MS.updT (MS.addAttacker (abs s) (some nm) (some id)) s.tfresh (fun o => { o with entry := ps }) := by
  have h1 := hR.frame
  have ha : s2.a = s.a := (congrArg H.a h1 :)
  have hafresh : s2.afresh = s.afresh := (congrArg H.afresh h1 :)
  have hl : s2.l = s.l := (congrArg H.l h1 :)
  have hlfresh : s2.lfresh = s.lfresh := (congrArg H.lfresh h1 :)
  have htfresh : s2.tfresh = s.tfresh + 1 := (congrArg H.tfresh h1 :)
  have hassets : s2.assets = s.assets := (congrArg H.assets h1 :)
  have hassocs : s2.associations = s.associations := (congrArg H.associations h1 :)
  have htta : s2._type_to_association = s._type_to_association := (congrArg H._type_to_association h1 :)
  have hatt : s2.attackers = s.attackers := (congrArg H.attackers h1 :)
  have hids : s2.asset_ids = s.asset_ids := (congrArg H.asset_ids h1 :)
  have hnames : s2.asset_names = s.asset_names := (congrArg H.asset_names h1 :)
  have hnext : s2.next_id = s.next_id := (congrArg H.next_id h1 :)
  unfold addAttackerH MS.addAttacker MS.updT abs
  simp only [MS.St.mk.injEq, ha, hafresh, hl, hlfresh, htfresh, hassets, hassocs, htta, hatt, hids, hnames, hnext,
    true_and, and_true, Option.getD_some]
  funext x
  by_cases hx : x = s.tfresh
  · subst hx
    by_cases hn : nm.isEmpty = true <;>
      simp [absAtt, hR.name, truthyOptStr, attrInt, attrStr, hn] <;>
      exact hR.ep
  · simp only [if_neg hx, hR.t x hx]
    unfold absAtt
    congr 1
    apply List.map_congr_left
    intro r hr
    unfold epVal
    show ((s2.e r).asset, (s2.e r).steps) = _
    rw [hR.e r (hF x r hr)]

/-! ### the hand model on an entry of the Python-level document -/

theorem mapM_map_option {α β γ : Type} (F : α → β) (G : β → Option γ) (l : List α) :
    (l.map F).mapM G = l.mapM (fun x => G (F x)) := by
  induction l with
  | nil => rfl
  | cons x l ih => rw [List.map_cons, List.mapM_cons, List.mapM_cons, ih]

theorem entry_mapM (st : MS.St) (v : PyAttD) (eps : List (Key × PyEpD)) (he : v.entry_points = some eps) :
    (attEntryOfPy v).entry.mapM (fun p => (p.1.toInt?.bind (MS.getAssetById st)).map (fun a => (a, p.2))) =
      eps.mapM (resolveEp st) := by
  unfold attEntryOfPy
  rw [he]
  exact mapM_map_option _ _ _

theorem loadAttacker_py_key (st : MS.St) (k : Key) (v : PyAttD) (hk : k.toInt? = none) :
    Ser.loadAttacker st (k, attEntryOfPy v) = .error .valueError := by
  unfold Ser.loadAttacker
  simp only [hk]

theorem loadAttacker_py_ep (st : MS.St) (k : Key) (v : PyAttD) (eps : List (Key × PyEpD))
    (he : v.entry_points = some eps) (id : Int) (hk : k.toInt? = some id) (hm : eps.mapM (resolveEp st) = none) :
    Ser.loadAttacker st (k, attEntryOfPy v) = .error .lookupError := by
  unfold Ser.loadAttacker
  simp only [hk, entry_mapM st v eps he, hm]

theorem loadAttacker_py_ok (st : MS.St) (k : Key) (v : PyAttD) (nm : String) (eps : List (Key × PyEpD))
    (hn : v.name = some nm) (he : v.entry_points = some eps) (id : Int) (hk : k.toInt? = some id)
    (ps : List (Nat × List String)) (hm : eps.mapM (resolveEp st) = some ps) :
    Ser.loadAttacker st (k, attEntryOfPy v) =
      .ok (MS.updT (MS.addAttacker st (some nm) (some id)) st.tfresh (fun o => { o with entry := ps })) := by
  unfold Ser.loadAttacker
  simp only [hk, entry_mapM st v eps he, hm]
  unfold attEntryOfPy
  simp only [hn, Option.getD_some]

theorem nodup_map_getD {α : Type} (f : α → Option Int) (l : List α) (h : (l.map f).Nodup)
    (hs : ∀ x ∈ l, (f x).isSome = true) : (l.map (fun x => (f x).getD 0)).Nodup := by
  have e : (l.map (fun x => (f x).getD 0)).map some = l.map f := by
    rw [List.map_map]
    apply List.map_congr_left
    intro x hx
    obtain ⟨i, hi⟩ := Option.isSome_iff_exists.1 (hs x hx)
    simp [hi]
  exact MS.nodup_of_map some _ (e ▸ h)

/-- `Ser.loadAttacker` keeps `MS.Inv` when the entry-point keys convert to pairwise different integers -/
theorem loadAttacker_inv (st st' : MS.St) (e : Key × AttackerEntry) (hI : MS.Inv st)
    (h : Ser.loadAttacker st e = .ok st') (hd : (e.2.entry.map (fun p => p.1.toInt?)).Nodup) : MS.Inv st' := by
  obtain ⟨hk, hex⟩ := loadAttacker_ok st st' e h
  rw [loadAttacker_ok_of st e hk hex] at h
  injection h with h
  subst h
  apply loadAttackerSt_inv st e hI hex
  apply nodup_map_getD (fun p : Key × List String => p.1.toInt?) _ hd
  intro p hp
  obtain ⟨i, hi, _⟩ := hex p hp
  rw [hi]; rfl

/-! ### one round of the loop over the attackers -/

theorem attShape_parts (v : PyAttD) (h : attShape v = true) :
    ∃ nm eps, v.name = some nm ∧ v.entry_points = some eps ∧ (eps.map (·.1)).Nodup ∧
      ∀ p ∈ eps, p.2.attack_steps.isSome = true := by
  unfold attShape at h
  simp only [Bool.and_eq_true, decide_eq_true_eq, List.all_eq_true] at h
  obtain ⟨⟨⟨h1, h2⟩, h3⟩, h4⟩ := h
  obtain ⟨nm, hn⟩ := Option.isSome_iff_exists.1 h1
  obtain ⟨eps, he⟩ := Option.isSome_iff_exists.1 h2
  rw [he] at h3 h4
  exact ⟨nm, eps, hn, he, h3, h4⟩

theorem resolveEp_attStart (s : H) (nm : String) : resolveEp (abs (attStart s nm)) = resolveEp (abs s) := rfl

theorem keyInt_some (k : Key) (i : Int) (h : k.toInt? = some i) : keyInt k = .ok i := by unfold keyInt; rw [h]
theorem keyInt_none (k : Key) (h : k.toInt? = none) : keyInt k = .error (keyIntErr k) := by unfold keyInt; rw [h]

theorem fdAtt_ok (env : SEnv) (ai : List (Key × PyAttD)) (hnd : (ai.map (·.1)).Nodup)
    (k : Key) (v : PyAttD) (hkv : (k, v) ∈ ai) (hsh : attShape v = true) (hd : EntryIdsDistinct v)
    (s : H) (hI : FDInv s) (r : ForInStep H) (h : fdAttBody env ai k s = .ok r) :
    ∃ s', r = .yield s' ∧ FDInv s' ∧ s'.name = s.name ∧
      Ser.loadAttacker (abs s) (k, attEntryOfPy v) = .ok (abs s') := by
  obtain ⟨nm, eps, hn, he, hnd', hst⟩ := attShape_parts v hsh
  rw [fdAttBody_eq env ai k v nm eps s (dictGetE_of_mem ai hnd k v hkv) hn he] at h
  have hin := inner_sim env eps s.tfresh hnd' hst eps (fun _ hp => hp) (attStart s nm)
  rw [resolveEp_attStart] at hin
  cases hloop : loopE (epStep env eps s.tfresh) (eps.map (·.1)) (attStart s nm) with
  | error e => rw [hloop] at h; cases h
  | ok s2 =>
    rw [hloop] at hin h
    obtain ⟨ps, hps, hs2⟩ := hin
    rw [ok_bind] at h
    cases hk : k.toInt? with
    | none => rw [keyInt_none k hk] at h; cases h
    | some id =>
      rw [keyInt_some k id hk, ok_bind] at h
      injection h with h
      have hR : AttRun s nm ps s2 := hs2 ▸ attRun_epsH s nm ps
      have habs := abs_att_final s nm ps s2 id hR hI.epF
      have hload : Ser.loadAttacker (abs s) (k, attEntryOfPy v) = .ok (abs (addAttackerH s2 s.tfresh (some id))) := by
        rw [loadAttacker_py_ok (abs s) k v nm eps hn he id hk ps hps, habs]; rfl
      have h1 := hR.frame
      refine ⟨addAttackerH s2 s.tfresh (some id), h.symm, ⟨?_, ?_, ?_⟩, (congrArg H.name h1 :), hload⟩
      · apply loadAttacker_inv (abs s) _ _ hI.inv hload
        unfold EntryIdsDistinct at hd
        rw [he] at hd
        unfold attEntryOfPy
        rw [he]
        show ((eps.map _).map _).Nodup
        rw [List.map_map]
        exact hd
      · have ha : s2.a = s.a := (congrArg H.a h1 :)
        have hl : s2.l = s.l := (congrArg H.l h1 :)
        have hassets : s2.assets = s.assets := (congrArg H.assets h1 :)
        have hassocs : s2.associations = s.associations := (congrArg H.associations h1 :)
        have hatt : s2.attackers = s.attackers := (congrArg H.attackers h1 :)
        have hS := hI.heapset
        refine ⟨?_, ?_, ?_, ?_, ?_⟩
        · intro a hm
          show ((s2.a a).extras.isSome) = true
          rw [ha]; exact hS.aextras a (hassets ▸ hm)
        · intro l hm
          show ((s2.l l).extras.isSome) = true
          rw [hl]; exact hS.lextras l (hassocs ▸ hm)
        · intro l hm
          show (s2.l l).cls ≠ "extras"
          rw [hl]; exact hS.lcls l (hassocs ▸ hm)
        · intro t hm
          have hm : t ∈ s2.attackers ++ [s.tfresh] := hm
          rw [hatt] at hm
          show ((if t = s.tfresh then _ else s2.t t : PyAtt)).id.isSome = true
          by_cases ht : t = s.tfresh
          · rw [if_pos ht]; rfl
          · rw [if_neg ht, hR.t t ht]
            rcases List.mem_append.1 hm with hm | hm
            · exact hS.tid t hm
            · exact absurd (List.mem_singleton.1 hm) ht
        · intro t hm
          have hm : t ∈ s2.attackers ++ [s.tfresh] := hm
          rw [hatt] at hm
          show ((if t = s.tfresh then _ else s2.t t : PyAtt)).name.isSome = true
          by_cases ht : t = s.tfresh
          · rw [if_pos ht, hR.name]
            show (if truthyOptStr (some nm) = true then some nm else some _).isSome = true
            split <;> rfl
          · rw [if_neg ht, hR.t t ht]
            rcases List.mem_append.1 hm with hm | hm
            · exact hS.tname t hm
            · exact absurd (List.mem_singleton.1 hm) ht
      · intro u r hr
        show r < s2.efresh
        have hr : r ∈ ((if u = s.tfresh then _ else s2.t u : PyAtt)).entry_points := hr
        by_cases hu : u = s.tfresh
        · rw [if_pos hu] at hr
          exact hR.epF r hr
        · rw [if_neg hu, hR.t u hu] at hr
          exact Nat.lt_of_lt_of_le (hI.epF u r hr) hR.ef

theorem fdAtt_err (env : SEnv) (ai : List (Key × PyAttD)) (hnd : (ai.map (·.1)).Nodup)
    (k : Key) (v : PyAttD) (hkv : (k, v) ∈ ai) (hsh : attShape v = true) (_hd : EntryIdsDistinct v)
    (s : H) (_hI : FDInv s) (e : PyErr) (h : fdAttBody env ai k s = .error e) :
    ∃ e', Ser.loadAttacker (abs s) (k, attEntryOfPy v) = .error e' := by
  obtain ⟨nm, eps, hn, he, hnd', hst⟩ := attShape_parts v hsh
  rw [fdAttBody_eq env ai k v nm eps s (dictGetE_of_mem ai hnd k v hkv) hn he] at h
  have hin := inner_sim env eps s.tfresh hnd' hst eps (fun _ hp => hp) (attStart s nm)
  rw [resolveEp_attStart] at hin
  cases hk : k.toInt? with
  | none => exact ⟨_, loadAttacker_py_key (abs s) k v hk⟩
  | some id =>
    cases hloop : loopE (epStep env eps s.tfresh) (eps.map (·.1)) (attStart s nm) with
    | error e1 =>
      rw [hloop] at hin
      exact ⟨_, loadAttacker_py_ep (abs s) k v eps he id hk hin⟩
    | ok s2 =>
      rw [hloop, ok_bind, keyInt_some k id hk, ok_bind] at h
      cases h

end MalVerif.PyM.Tie
