import MalVerif.Py.PreludeLang
import MalVerif.Model.LangGraph
/-!
# Abstraction: heap of language-graph objects (`GH`, `Py/PreludeLang.lean` Part B)  →  hand model
(`Model/Lang.lean`: `Lang`; `Model/LangGraph.lean`: the association nodes, a `List AssocDecl`)

`RepG s L`: the asset objects of the heap `s` are the asset declarations of the language `L` — one object per
declaration, in declaration order, carrying its name; `super_assets` of an object is the one-element list of the
object of the declaration's `superAsset` (empty when there is none), `sub_assets` lists the objects that name it
as their super asset.  This is what `LanguageGraph._generate_graph` builds (it raises
`LanguageGraphSuperAssetNotFoundError` when an `extends` target is missing, hence `supersOk`).

`RepA s L nodes`: the association objects of `s` are the association nodes `nodes`, in creation order; the two
`LanguageGraphAssociationField`s carry the field names and point to the asset objects named by the node.

`heapOfLang L nodes` builds such a heap (asset object `i` = declaration `i`, association object `j` = node `j`).
It is represented whenever the asset names of `L` are pairwise distinct, every named super asset is declared and
both ends of every node are declared: `repG_heapOfLang`, `repA_heapOfLang` in `Py/TieLangGraph.lean` (non-vacuity
of `RepG`/`RepA`); a concrete instance is checked at the end of this file.
-/
namespace MalVerif.Py.LSpec
open MalVerif

/-- the name of an asset object (`""` for the `None` the dataclass allows) -/
def gname (s : GH) (r : GARef) : String := ((s.asset r).name).getD ""

/-- the first asset object of the graph with the given name -/
def refOf (s : GH) (n : String) : Option GARef := s.assets.find? (fun r => (s.asset r).name == some n)

/-- the name of the super asset the declaration named `t` gives (if `t` is declared and extends something) -/
def superOf (L : Lang) (t : String) : Option String := (L.findAsset t).bind (·.superAsset)

/-- **the asset objects of `s` represent the asset declarations of `L`** -/
structure RepG (s : GH) (L : Lang) : Prop where
  /-- one asset object per declaration, in declaration order, carrying its name -/
  names : s.assets.map (fun r => (s.asset r).name) = L.assets.map (fun a => some a.name)
  /-- distinct objects -/
  refs_nodup : s.assets.Nodup
  /-- declared names are pairwise distinct -/
  names_nodup : (L.assets.map (·.name)).Nodup
  /-- every named super asset is declared (checked by `_generate_graph`) -/
  supers_ok : LG.supersOk L = true
  /-- `super_assets` of the object of a declaration = `[object of its superAsset]`, `[]` when there is none -/
  supers : ∀ r ∈ s.assets, (s.asset r).super_assets = ((superOf L (gname s r)).bind (refOf s)).toList
  /-- `sub_assets` = the objects (in the order of `LanguageGraph.assets`) that list the object as super asset -/
  subs : ∀ r ∈ s.assets, (s.asset r).sub_assets = s.assets.filter (fun c => (s.asset c).super_assets.contains r)

/-- an association object and an association node agree (name, field names, names of the two asset objects) -/
def AssocAgrees (s : GH) (c : GCRef) (d : AssocDecl) : Prop :=
  (s.assoc c).name = d.name ∧
  (s.assoc c).left_field.fieldname = d.leftField ∧ (s.assoc c).right_field.fieldname = d.rightField ∧
  (s.assoc c).left_field.asset ∈ s.assets ∧ gname s (s.assoc c).left_field.asset = d.leftAsset ∧
  (s.assoc c).right_field.asset ∈ s.assets ∧ gname s (s.assoc c).right_field.asset = d.rightAsset

instance (s : GH) (c : GCRef) (d : AssocDecl) : Decidable (AssocAgrees s c d) := by
  unfold AssocAgrees; exact inferInstance

/-- **the association objects of `s` represent the association nodes `nodes`** (in creation order) -/
structure RepA (s : GH) (L : Lang) (nodes : List AssocDecl) : Prop where
  /-- distinct objects -/
  refs_nodup : s.associations.Nodup
  /-- one association object per node -/
  length_eq : s.associations.length = nodes.length
  /-- object `j` agrees with node `j` -/
  agrees : ∀ p ∈ s.associations.zip nodes, AssocAgrees s p.1 p.2

/-- the association node an association object stands for: what the translated code can read of it -/
def declOf (s : GH) (c : GCRef) : AssocDecl :=
  { name := (s.assoc c).name,
    leftAsset := gname s (s.assoc c).left_field.asset, leftField := (s.assoc c).left_field.fieldname,
    rightAsset := gname s (s.assoc c).right_field.asset, rightField := (s.assoc c).right_field.fieldname }

/-! ## a represented heap for every language -/

/-- index of the declaration named `t` (`L.assets.length` when there is none) -/
def declIdx (L : Lang) (t : String) : Nat := L.assets.findIdx (·.name = t)

/-- `super_assets` of asset object `i` -/
def superIdx (L : Lang) (i : Nat) : List Nat :=
  match (L.assets[i]?).bind (·.superAsset) with
  | some t => if declIdx L t < L.assets.length then [declIdx L t] else []
  | none => []

/-- the heap `_generate_graph` builds for `L` with the association nodes `nodes`: asset object `i` is declaration
`i`, association object `j` is node `j` -/
def heapOfLang (L : Lang) (nodes : List AssocDecl) : GH :=
  { asset := fun i =>
      match L.assets[i]? with
      | none => {}
      | some a =>
        { name := some a.name,
          super_assets := superIdx L i,
          sub_assets := (List.range L.assets.length).filter (fun j => (superIdx L j).contains i),
          is_abstract := some a.isAbstract },
    assoc := fun j =>
      match nodes[j]? with
      | none => {}
      | some d =>
        { name := d.name,
          left_field := { asset := declIdx L d.leftAsset, fieldname := d.leftField,
                          minimum := d.leftMin, maximum := (d.leftMax.map Int.ofNat).getD (-1) },
          right_field := { asset := declIdx L d.rightAsset, fieldname := d.rightField,
                           minimum := d.rightMin, maximum := (d.rightMax.map Int.ofNat).getD (-1) } },
    assets := List.range L.assets.length,
    associations := List.range nodes.length }

/-! ## a concrete represented heap (depth-2 inheritance, two associations) -/

/-- `C extends B extends A`, `D`; `AD` between `A` and `D`, `CD` between `C` and `D` -/
def sampleLang : Lang :=
  { assets := [{ name := "A" }, { name := "B", superAsset := some "A" }, { name := "C", superAsset := some "B" },
               { name := "D" }] }
def sampleNodes : List AssocDecl :=
  [{ name := "AD", leftAsset := "A", leftField := "as", rightAsset := "D", rightField := "ds" },
   { name := "CD", leftAsset := "D", leftField := "dd", rightAsset := "C", rightField := "cs" }]

example : RepG (heapOfLang sampleLang sampleNodes) sampleLang :=
  ⟨by decide, by decide, by decide, by decide, by decide, by decide⟩
example : RepA (heapOfLang sampleLang sampleNodes) sampleLang sampleNodes :=
  ⟨by decide, by decide, by decide⟩
example : ((heapOfLang sampleLang sampleNodes).asset 2).super_assets = [1] ∧
    ((heapOfLang sampleLang sampleNodes).asset 0).sub_assets = [1] ∧
    ((heapOfLang sampleLang sampleNodes).assoc 1).right_field.asset = 2 := by decide

end MalVerif.Py.LSpec
