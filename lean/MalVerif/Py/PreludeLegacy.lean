import MalVerif.Py.PreludeModel
import MalVerif.Model.Legacy
import MalVerif.Py.PyInt
/-!
# Prelude of the *translated* legacy loaders (`translators/py2lean_legacy.py`)

`MalVerif/Py/GenLegacy/*.lean` are **generated** from the current source of `maltoolbox/translators/updater.py`
and `maltoolbox/translators/securicad.py`.  The loaders build a `Model` with the methods of `model.py`; those are
the generated functions of `MalVerif/Py/GenModel` (domain `model`) on that domain's heap `PyM.H`.  This prelude
fixes, by hand, what else the loaders touch.  Every definition is trusted; each names the Python it stands for.

* **Documents** (`PyJ`): what `json.loads` / `yaml.safe_load` return.  Values, not objects: `d.pop(k)` rebinds the
  local to the dictionary without `k` (the translator checks that the popped dictionary is not reachable through
  another expression of the function).  Dictionary keys are `Ser.Key` (a `str`, or an `int` in a YAML file).
  Floats are their canonical text (as in `Model/Serial.lean`).
* **Errors** (`LErr`): the Python exception classes of `PyM.PyErr` (`py`), plus `validation`
  (python_jsonschema_objects `ValidationError`), `typeError`, and `unmodelled`: the value is outside the subset
  modelled here and Python would *not* necessarily raise — a result `error unmodelled` says nothing about the code.
* **The language classes factory** (`Factory`): the classes `lang_classes_factory.ns.<Name>` generated for a
  language `L`, with the guards python_jsonschema_objects applies when an object is built or a property assigned.
  These guards are the ones the hand-written model assumes (`MS.defensesOf`, `MS.okMember`, `MS.okCount`,
  `MS.assocClasses`; header of `Model/MState.lean`); `floatOk` is the range check of a defense value, a parameter.
* **The file layer** (`Files`): `open` + `json.loads` / `yaml.safe_load`, a parameter.
* **securiCAD**: the parsed `.eom` member of the archive is the abstract document `Legacy.ScadDoc` (zipfile and
  xml.etree are the boundary): `root.iter('objects')` are its `objects`, `child.attrib[..]` the fields of one
  object, `child.iter('evidenceAttributes')` its `defenses`; each of those has one `evidenceDistribution` with one
  `parameters` element that carries the `value` (`ScadEv`).
-/
namespace MalVerif.PyLeg
open MalVerif MalVerif.PyM
open MalVerif.Ser (Key)

/-! ### errors -/

inductive LErr
  | py (e : PyErr)
  | validation
  | typeError
  | unmodelled
  deriving Repr, DecidableEq, Inhabited

/-- calling a translated function of `model.py` (its exceptions propagate) -/
def liftPy {α : Type} : Except PyErr α → Except LErr α
  | .ok a => .ok a
  | .error e => .error (.py e)

/-! ### JSON / YAML documents -/

inductive PyJ
  | null
  | bool (b : Bool)
  | int (i : Int)
  | num (text : String)                 -- a float, canonical text
  | str (t : String)
  | list (l : List PyJ)
  | dict (d : List (Key × PyJ))         -- insertion ordered
  deriving Inhabited

/-- a dictionary key as the value a `for k in d` loop sees -/
def keyJ : Key → PyJ
  | .i n => .int n
  | .s t => .str t

/-- a value used as a dictionary key (`str` and `int` only; other hashables are not modelled) -/
def jKey : PyJ → Option Key
  | .str t => some (.s t)
  | .int i => some (.i i)
  | _ => none

def lookupKey (d : List (Key × PyJ)) (k : Key) : Option PyJ := (d.find? (fun e => e.1 == k)).map (·.2)

/-- `d[k]` on a dictionary: `KeyError` when absent.  (Subscripts of lists / strings: not modelled.) -/
def jIndex (d k : PyJ) : Except LErr PyJ :=
  match d, jKey k with
  | .dict m, some key => match lookupKey m key with | some v => .ok v | none => .error (.py .keyError)
  | _, _ => .error .unmodelled

/-- `d.get(k, default)`: a dictionary method (`AttributeError` on anything else) -/
def jGetD (d k dflt : PyJ) : Except LErr PyJ :=
  match d, jKey k with
  | .dict m, some key => .ok ((lookupKey m key).getD dflt)
  | .dict _, none => .error .unmodelled
  | _, _ => .error (.py .attributeError)

/-- `k in d` for a dictionary (membership in lists / strings: not modelled) -/
def jContains (k d : PyJ) : Except LErr Bool :=
  match d, jKey k with
  | .dict m, some key => .ok (lookupKey m key).isSome
  | _, _ => .error .unmodelled

/-- `d.pop(k)`: the value and the dictionary without the key; `KeyError` when absent -/
def jPop (d k : PyJ) : Except LErr (PyJ × PyJ) :=
  match d, jKey k with
  | .dict m, some key =>
    match lookupKey m key with
    | some v => .ok (v, .dict (m.filter (fun e => !(e.1 == key))))
    | none => .error (.py .keyError)
  | .dict _, none => .error .unmodelled
  | _, _ => .error (.py .attributeError)

/-- `d.items()` -/
def jItems (d : PyJ) : Except LErr (List (PyJ × PyJ)) :=
  match d with
  | .dict m => .ok (m.map (fun e => (keyJ e.1, e.2)))
  | _ => .error (.py .attributeError)

/-- `for x in d`: the keys of a dictionary, the elements of a list; (`str`: not modelled); else `TypeError` -/
def jIter (d : PyJ) : Except LErr (List PyJ) :=
  match d with
  | .dict m => .ok (m.map (fun e => keyJ e.1))
  | .list l => .ok l
  | .str _ => .error .unmodelled
  | _ => .error .typeError

/-- `isinstance(x, dict)`, `isinstance(x, list)` -/
def jIsDict : PyJ → Bool | .dict _ => true | _ => false
def jIsList : PyJ → Bool | .list _ => true | _ => false

-- `pyIsSpace`, `pyIntLenient`: `MalVerif/Py/PyInt.lean` (shared with the `mserial` / `agserial` preludes)

/-- `int(x)`: an `int` is itself; a `str` that `String.toInt?` reads (ASCII digits with single underscores between them,
optional `-`) is that number, as in Python; a `str` it refuses is a `ValueError` only when CPython's `int` refuses it
too — a text with surrounding white space, a leading `+` or non-ASCII digits (`pyIntLenient`) is **not modelled**;
(`float`, `bool`: not modelled); else `TypeError` -/
def jInt (x : PyJ) : Except LErr Int :=
  match x with
  | .int i => .ok i
  | .str t =>
    match t.toInt? with
    | some i => .ok i
    | none => if pyIntLenient t then .error .unmodelled else .error (.py .valueError)
  | .num _ => .error .unmodelled
  | .bool _ => .error .unmodelled
  | _ => .error .typeError

theorem jInt_str_some (t : String) (i : Int) (h : t.toInt? = some i) : jInt (.str t) = .ok i := by
  simp only [jInt, h]

/-- `float(x)` of a float: its canonical text; (`int`, `str`, `bool`: not modelled); else `TypeError` -/
def jFloat (x : PyJ) : Except LErr String :=
  match x with
  | .num t => .ok t
  | .int _ => .error .unmodelled
  | .str _ => .error .unmodelled
  | .bool _ => .error .unmodelled
  | _ => .error .typeError

/-- `f"{x}"` of a `str` / an `int` (other values: not modelled) -/
def jFormat (x : PyJ) : Except LErr String :=
  match x with
  | .str t => .ok t
  | .int i => .ok (toString i)
  | _ => .error .unmodelled

/-- a value handed to a parameter of type `list[str]` (nothing checks it; other values: not modelled) -/
def jStrs (x : PyJ) : Except LErr (List String) :=
  match x with
  | .list l => l.mapM (fun e => match e with | .str t => .ok t | _ => .error .unmodelled)
  | _ => .error .unmodelled

/-! ### the file layer -/

/-- `with open(filename, 'r', encoding='utf-8') as f: json.loads(f.read())` resp. `yaml.safe_load(f)` -/
structure Files where
  json : String → Except LErr PyJ
  yaml : String → Except LErr PyJ
  /-- `zipfile.ZipFile(path)`, the first member whose name ends in `.eom`, `archive.read`, `ET.fromstring`:
  the parsed model of a securiCAD archive -/
  eom : String → Except LErr Legacy.ScadDoc

/-! ### the classes of `LanguageClassesFactory` -/

structure Factory where
  L : Lang
  /-- the pjs range check (`minimum: 0`, `maximum: 1`) on a defense value, given as canonical float text -/
  floatOk : String → Bool

/-- `Model(name, lang_classes_factory)`: no assets, associations, attackers; `next_id` 0 (class attribute).
(A name that is not a `str`: not modelled.) -/
def newModel (name : PyJ) : Except LErr H :=
  match name with
  | .str t => .ok { name := t }
  | _ => .error .unmodelled

/-- allocation of a pjs asset / pjs association / `AttackerAttachment` object -/
def allocA (s : H) (o : PyAsset) : H × ARef :=
  ({ s with a := fun x => if x = s.afresh then o else s.a x, afresh := s.afresh + 1 }, s.afresh)
def allocL (s : H) (o : PyAssoc) : H × LRef :=
  ({ s with l := fun x => if x = s.lfresh then o else s.l x, lfresh := s.lfresh + 1 }, s.lfresh)
def allocT (s : H) (o : PyAtt) : H × TRef :=
  ({ s with t := fun x => if x = s.tfresh then o else s.t x, tfresh := s.tfresh + 1 }, s.tfresh)

/-- `hasattr(lang_classes_factory.ns, name)` for an asset class.  (The namespace also holds the association
classes; a name that is only an association class counts as absent here.) -/
def nsHasAsset (fac : Factory) (name : String) : Bool := (fac.L.findAsset name).isSome

/-- `getattr(ns, cls)(name = n)`: `AttributeError` when there is no such class; a new asset object with only `name`
set (no `id`, no `extras`, no explicit defense).  `name` is NOT a declared property of the generated classes:
python_jsonschema_objects keeps any value but `None` as an additional property (`T(name=7).name` is the literal `7`;
checked on the real library) — a name that is not a `str` has no place in `PyAsset.name : Option String`: **not
modelled**; `name=None` sets nothing (`T(name=None)` is `T()`: `hasattr(obj, 'name')` is false, also checked), so
`add_asset` gives the object its default name.  The constructor never raises `ValidationError` for a name. -/
def nsNewAsset (fac : Factory) (s : H) (cls name : PyJ) : Except LErr (H × ARef) :=
  match cls with
  | .str c =>
    if !nsHasAsset fac c then .error (.py .attributeError) else
    match name with
    | .str n => .ok (allocA s { type := c, name := some n })
    | .null => .ok (allocA s { type := c })
    | _ => .error .unmodelled
  | _ => .error .typeError

/-- `setattr(asset, defense_name, value)` with a float: `ValidationError` when the class has that defense and the
value fails the range check; an assignment replaces an earlier one of the same defense.  For a name that is NOT a
defense of the class python_jsonschema_objects accepts the assignment silently (an additional property, checked
on the real library): such an attribute has no place in `PyAsset` — **not modelled** (the hand-written model
answers `validation` there, which is not what the library does). -/
def pjsSetDefense (fac : Factory) (s : H) (a : ARef) (name : PyJ) (v : String) : Except LErr H :=
  match name with
  | .str n =>
    if (MS.defensesOf fac.L (s.a a).type).any (·.1 = n) then
      if fac.floatOk v then .ok (s.setA a { s.a a with defenses := PyM.dictSet (s.a a).defenses n v })
      else .error .validation
    else .error .unmodelled
  | _ => .error .typeError

/-- `getattr(ns, cls)()`: `AttributeError` when there is no such association class; a new association object
with both fields empty.  (A class whose two field names coincide: not modelled.) -/
def nsNewAssoc (fac : Factory) (s : H) (cls : PyJ) : Except LErr (H × LRef) :=
  match cls with
  | .str c =>
    match (MS.assocClasses fac.L).find? (·.cls = c) with
    | none => .error (.py .attributeError)
    | some k =>
      if h : k.lf ≠ k.rf then .ok (allocL s { cls := c, lf := k.lf, rf := k.rf, distinct := h })
      else .error .unmodelled
  | _ => .error .typeError

/-- `setattr(association, field, [asset, …])`: `ValidationError` when an element is `None`, when the class has no
such field, when a member is not of the declared type (or a subtype), when there are more than `maxItems` -/
def pjsSetField (fac : Factory) (s : H) (l : LRef) (field : PyJ) (v : List (Option ARef)) : Except LErr H :=
  match field with
  | .str f =>
    match v.mapM id, (MS.assocClasses fac.L).find? (·.cls = (s.l l).cls) with
    | some xs, some k =>
      if f == (s.l l).lf then
        if xs.all (fun a => MS.okMember fac.L k.ltype (s.a a).type) && MS.okCount k.lmax xs.length then
          .ok (s.setL l { s.l l with left := xs })
        else .error .validation
      else if f == (s.l l).rf then
        if xs.all (fun a => MS.okMember fac.L k.rtype (s.a a).type) && MS.okCount k.rmax xs.length then
          .ok (s.setL l { s.l l with right := xs })
        else .error .validation
      else .error .validation
    | _, _ => .error .validation
  | _ => .error .typeError

/-- `AttackerAttachment(name = n)` / `AttackerAttachment()`: the dataclass checks nothing; `id` is `None`,
`entry_points` a new empty list.  (A name that is neither a `str` nor `None`: not modelled.) -/
def newAttachment (s : H) (name : PyJ) : Except LErr (H × TRef) :=
  match name with
  | .str n => .ok (allocT s { name := some n })
  | .null => .ok (allocT s {})
  | _ => .error .unmodelled

/-- the tuple `(asset, steps)` appended to `entry_points`.  Python builds the tuple also when the asset is `None`
(an id that `get_asset_by_id` does not find): such a tuple has no representation in the heap of the `model`
domain (`PyEp.asset : ARef`) — **not modelled**, although Python does not raise there. -/
def epTuple (a : Option ARef) (steps : List String) : Except LErr PyEp :=
  match a with
  | some r => .ok { asset := r, steps := steps }
  | none => .error .unmodelled

/-! ### securiCAD: the parsed archive -/

/-- one `evidenceAttributes` element with its `evidenceDistribution` / `parameters`: (metaConcept, value) -/
abbrev ScadEv := String × String

/-- `child.iter('evidenceAttributes')` -/
def scadEvidence (o : Legacy.ScadObject) : List ScadEv := o.defenses
/-- `subchild.iter('evidenceDistribution')`, `distrib.iter('parameters')`: one each -/
def scadSub (e : ScadEv) : List ScadEv := [e]

/-- the `LanguageGraph` handed to the securiCAD loader: its method `get_association_by_fields_and_assets`
(translated in the domain `lang`: `GenLang/Assocs.lean`, tied to `LG.lookupAssoc` in `TieLangGraph.lean`) is a
parameter here; a found `LanguageGraphAssociation` is the declaration it was built from (`.name`,
`.left_field.asset.name` = `leftAsset`, `.right_field.asset.name` = `rightAsset`) -/
structure LangGraphView where
  get_association_by_fields_and_assets : String → String → String → String → Except LErr (Option AssocDecl)

/-- `lang_classes_factory.get_association_by_signature(name, left, right)`: the name of the generated class.
`LookupError` when no association is called `name`; when several are, the class `name_left_right`, else
`name_right_left`, else `LookupError`; otherwise `name` itself.  (It never returns `None`.) -/
def facAssocBySignature (fac : Factory) (name left right : String) : Except LErr (Option String) :=
  let cands := fac.L.assocs.filter (·.name = name)
  if cands.isEmpty then .error (.py .lookupError) else
  if cands.length > 1 then
    let full := name ++ "_" ++ left ++ "_" ++ right
    let flipped := name ++ "_" ++ right ++ "_" ++ left
    if cands.any (fun a => name ++ "_" ++ a.leftAsset ++ "_" ++ a.rightAsset = full) then .ok (some full)
    else if cands.any (fun a => name ++ "_" ++ a.leftAsset ++ "_" ++ a.rightAsset = flipped) then .ok (some flipped)
    else .error (.py .lookupError)
  else .ok (some name)

/-- `name[0].lower() + name[1:]`; `IndexError` on the empty string -/
def pyDecap (s : String) : Except LErr String :=
  if s.isEmpty then .error (.py .other) else .ok (Legacy.decap s)

/-- `s.split('.')[0]` -/
def pySplitDotFirst (s : String) : String := Legacy.beforeDot s

end MalVerif.PyLeg
