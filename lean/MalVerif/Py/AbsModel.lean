import MalVerif.Py.PreludeModel
import MalVerif.Proofs.MStateInv
/-!
# Abstraction: heap of the translated `model.py`  →  hand-written state machine `MalVerif.MS`

`abs s : MS.St` forgets what the hand model does not have (the tuple *objects* of the entry points become the
pairs they hold, absent attributes become the sentinels of the prelude).  The translated functions work on
objects that exist already; the hand model creates the object inside `addAsset` / `addAssociation` /
`addAttacker`.  `newAssetObj` / `newAssocObj` / `newAttObj` are the allocation done by the pjs class
constructor resp. `AttackerAttachment(...)` *before* the translated function is called: the next free
reference receives the given record.

`EqId env`: the value equality of pjs objects (a parameter of the translation) relates no two *different*
objects.  This is what the header of `Model/MState.lean` assumes silently; here it is a named hypothesis of
every tie theorem.  `PropsGen/C05.lean` proves that it is harmless between assets of one model (they differ in `id`
and `name`) and shows what happens without it for attackers (`remove_attacker`).

The `…Core` functions are the parts of `MS.addAsset` / `MS.addAssociation` after the guards of the pjs constructors
(`*_eq_core` below), i.e. what `Model.add_asset` / `Model.add_association` themselves do.
-/
namespace MalVerif.PyM
open MalVerif

/-! ### the abstraction -/

def errAbs : PyErr → MS.Err
  | .valueError => .valueError
  | .lookupError => .lookupError
  | .duplicateModelAssociationError => .duplicateAssociation
  | .modelAssociationException => .modelAssociation
  | _ => .validation

def absAsset (o : PyAsset) : MS.AssetObj :=
  { id := attrInt o.id, name := attrStr o.name, type := o.type, defenses := o.defenses,
    extras := o.extras.getD "{}", assocs := o.associations }

def absAssoc (o : PyAssoc) : MS.AssocObj :=
  { cls := o.cls, lf := o.lf, rf := o.rf, left := o.left, right := o.right, extras := o.extras.getD "{}" }

/-- the pair an entry-point tuple object holds -/
def epVal (s : H) (r : ERef) : Nat × List String := ((s.e r).asset, (s.e r).steps)

def absAtt (s : H) (o : PyAtt) : MS.AttObj :=
  { id := attrInt o.id, name := attrStr o.name, entry := o.entry_points.map (epVal s) }

def abs (s : H) : MS.St :=
  { aobj := fun r => absAsset (s.a r), afresh := s.afresh
    lobj := fun r => absAssoc (s.l r), lfresh := s.lfresh
    tobj := fun r => absAtt s (s.t r), tfresh := s.tfresh
    assets := s.assets, associations := s.associations, attackers := s.attackers
    assetIds := s.asset_ids, assetNames := s.asset_names
    typeToAssoc := s._type_to_association, nextId := s.next_id }

/-- result of a translated mutator, abstracted -/
def absR : Except PyErr H → Except MS.Err MS.St
  | .ok s => .ok (abs s)
  | .error e => .error (errAbs e)

@[simp] theorem absR_ok (s : H) : absR (.ok s) = .ok (abs s) := rfl
@[simp] theorem absR_error (e : PyErr) : absR (.error e) = .error (errAbs e) := rfl

/-! ### allocation by the constructors (outside the translated code) -/

def newAssetObj (s : H) (o : PyAsset) : H :=
  { s with a := fun x => if x = s.afresh then o else s.a x, afresh := s.afresh + 1 }
def newAssocObj (s : H) (o : PyAssoc) : H :=
  { s with l := fun x => if x = s.lfresh then o else s.l x, lfresh := s.lfresh + 1 }
def newAttObj (s : H) (o : PyAtt) : H :=
  { s with t := fun x => if x = s.tfresh then o else s.t x, tfresh := s.tfresh + 1 }

/-! ### pjs value equality relates no two different objects -/

structure EqId (env : ModelEnv) : Prop where
  asset : ∀ x y, env.eqA x y = true → x = y
  assoc : ∀ x y, env.eqL x y = true → x = y

theorem eqAsset_id {env : ModelEnv} (h : EqId env) (s : H) (x y : ARef) : eqAsset env s x y = (x == y) := by
  unfold eqAsset
  by_cases hxy : x = y
  · subst hxy; simp
  · have : env.eqA x y = false := by
      cases he : env.eqA x y with
      | false => rfl
      | true => exact absurd (h.asset x y he) hxy
    simp [this]

theorem eqAssoc_id {env : ModelEnv} (h : EqId env) (s : H) (x y : LRef) : eqAssoc env s x y = (x == y) := by
  unfold eqAssoc
  by_cases hxy : x = y
  · subst hxy; simp
  · have : env.eqL x y = false := by
      cases he : env.eqL x y with
      | false => rfl
      | true => exact absurd (h.assoc x y he) hxy
    simp [this]

theorem eqAsset_fun {env : ModelEnv} (h : EqId env) (s : H) : eqAsset env s = fun x y => x == y := by
  funext x y; exact eqAsset_id h s x y
theorem eqAssoc_fun {env : ModelEnv} (h : EqId env) (s : H) : eqAssoc env s = fun x y => x == y := by
  funext x y; exact eqAssoc_id h s x y

theorem pyIn_beq (l : List Nat) (x : Nat) : pyIn (fun a b : Nat => a == b) l x = l.contains x := by
  unfold pyIn
  induction l with
  | nil => rfl
  | cons y ys ih =>
    simp only [List.any_cons, List.contains_cons, ih]
    congr 1
    exact Bool.eq_iff_iff.2 ⟨fun h => by simpa using (eq_of_beq h).symm, fun h => by simpa using (eq_of_beq h).symm⟩

theorem pyRemoveBy_beq (l : List Nat) (x : Nat) :
    pyRemoveBy (fun a b : Nat => a == b) l x = if l.contains x then .ok (l.erase x) else .error .valueError := by
  unfold pyRemoveBy
  have hf : (fun y : Nat => (fun a b : Nat => a == b) y x) = (fun y => x == y) := by
    funext y
    by_cases h : y = x
    · subst h; rfl
    · have h1 : (y == x) = false := by simp [h]
      have h2 : (x == y) = false := by simp [Ne.symm h]
      show (y == x) = (x == y)
      rw [h1, h2]
  rw [pyIn_beq, List.erase_eq_eraseP, hf]

theorem pyRemoveAllBy_beq (l : List Nat) (x : Nat) :
    pyRemoveAllBy (fun a b : Nat => a == b) l x = l.filter (· ≠ x) := by
  unfold pyRemoveAllBy
  congr 1
  funext y
  by_cases h : y = x <;> simp [h]

theorem pyIn_asset {env : ModelEnv} (h : EqId env) (s : H) (l : List ARef) (x : ARef) :
    pyIn (eqAsset env s) l x = l.contains x := by rw [eqAsset_fun h, pyIn_beq]
theorem pyIn_assoc {env : ModelEnv} (h : EqId env) (s : H) (l : List LRef) (x : LRef) :
    pyIn (eqAssoc env s) l x = l.contains x := by rw [eqAssoc_fun h, pyIn_beq]
theorem pyRemoveBy_asset {env : ModelEnv} (h : EqId env) (s : H) (l : List ARef) (x : ARef) :
    pyRemoveBy (eqAsset env s) l x = if l.contains x then .ok (l.erase x) else .error .valueError := by
  rw [eqAsset_fun h, pyRemoveBy_beq]
theorem pyRemoveBy_assoc {env : ModelEnv} (h : EqId env) (s : H) (l : List LRef) (x : LRef) :
    pyRemoveBy (eqAssoc env s) l x = if l.contains x then .ok (l.erase x) else .error .valueError := by
  rw [eqAssoc_fun h, pyRemoveBy_beq]
theorem pyRemoveAllBy_assoc {env : ModelEnv} (h : EqId env) (s : H) (l : List LRef) (x : LRef) :
    pyRemoveAllBy (eqAssoc env s) l x = l.filter (· ≠ x) := by
  rw [eqAssoc_fun h, pyRemoveAllBy_beq]

/-- under `EqId` two tuple objects are `==` exactly when they hold the same pair -/
theorem eqEp_id {env : ModelEnv} (h : EqId env) (s : H) (x y : ERef) :
    eqEp env s x y = (epVal s x == epVal s y) := by
  unfold eqEp epVal
  rw [eqAsset_id h]
  by_cases hxy : x = y
  · subst hxy; simp
  · have hf : (x == y) = false := by simp [hxy]
    rw [hf, Bool.false_or]; rfl

/-! ### `Except` -/

theorem bind_ok {ε α β : Type} {x : Except ε α} {f : α → Except ε β} {b : β} (h : x.bind f = .ok b) :
    ∃ a, x = .ok a ∧ f a = .ok b := by
  cases x with
  | error e => cases h
  | ok a => exact ⟨a, rfl, h⟩

theorem ok_bind {ε α β : Type} (a : α) (f : α → Except ε β) : (Except.ok a : Except ε α).bind f = f a := rfl
theorem error_bind {ε α β : Type} (e : ε) (f : α → Except ε β) : (Except.error e : Except ε α).bind f = .error e := rfl

/-! ### loops of the translated code -/

/-- a `for` loop of the translated code whose body is `s ← f s x` (no early exit) -/
def loopE {α σ : Type} (f : σ → α → Except PyErr σ) (l : List α) (s : σ) : Except PyErr σ :=
  forIn l s (fun x s => (f s x).bind (fun s' => Except.pure (ForInStep.yield s')))

theorem loopE_nil {α σ : Type} (f : σ → α → Except PyErr σ) (s : σ) : loopE f [] s = .ok s := rfl
theorem loopE_cons {α σ : Type} (f : σ → α → Except PyErr σ) (x : α) (l : List α) (s : σ) :
    loopE f (x :: l) s = (f s x).bind (loopE f l) := by
  unfold loopE
  rw [List.forIn_cons]
  cases h : f s x <;> rfl

/-- a `for` loop in `Id` without early exit is a fold -/
theorem forIn_yield_foldl {α β : Type} (xs : List α) (init : β) (g : β → α → β) :
    (forIn (m := Id) xs init fun x acc => (ForInStep.yield (g acc x) : Id _)) = xs.foldl g init := by
  induction xs generalizing init with
  | nil => rfl
  | cons x xs ih => rw [List.forIn_cons]; exact ih _

/-! ### frame lemmas: the abstraction of a heap update -/

theorem abs_setA (s : H) (r : ARef) (o : PyAsset) :
    abs (s.setA r o) = { abs s with aobj := fun x => if x = r then absAsset o else (abs s).aobj x } := by
  unfold abs H.setA
  simp only [MS.St.mk.injEq, true_and, and_true]
  refine ⟨?_, ?_⟩
  · funext x; by_cases hx : x = r <;> simp [hx]
  · rfl

theorem abs_setA_updA (s : H) (r : ARef) (o : PyAsset) (f : MS.AssetObj → MS.AssetObj)
    (h : absAsset o = f (absAsset (s.a r))) : abs (s.setA r o) = MS.updA (abs s) r f := by
  rw [abs_setA]
  unfold MS.updA
  dsimp only
  congr 1
  funext x
  by_cases hx : x = r
  · subst hx; simp only []; rw [h]; rfl
  · simp only [if_neg hx]

theorem abs_setL (s : H) (r : LRef) (o : PyAssoc) :
    abs (s.setL r o) = { abs s with lobj := fun x => if x = r then absAssoc o else (abs s).lobj x } := by
  unfold abs H.setL
  simp only [MS.St.mk.injEq, true_and, and_true]
  refine ⟨?_, ?_⟩
  · funext x; by_cases hx : x = r <;> simp [hx]
  · rfl

theorem abs_setL_updL (s : H) (r : LRef) (o : PyAssoc) (f : MS.AssocObj → MS.AssocObj)
    (h : absAssoc o = f (absAssoc (s.l r))) : abs (s.setL r o) = MS.updL (abs s) r f := by
  rw [abs_setL]
  unfold MS.updL
  dsimp only
  congr 1
  funext x
  by_cases hx : x = r
  · subst hx; simp only []; rw [h]; rfl
  · simp only [if_neg hx]

theorem abs_setT (s : H) (r : TRef) (o : PyAtt) :
    abs (s.setT r o) = { abs s with tobj := fun x => if x = r then absAtt s o else (abs s).tobj x } := by
  unfold abs H.setT
  simp only [MS.St.mk.injEq, true_and, and_true]
  funext x; by_cases hx : x = r <;> simp [hx, absAtt, epVal]

theorem abs_setT_updT (s : H) (r : TRef) (o : PyAtt) (f : MS.AttObj → MS.AttObj)
    (h : absAtt s o = f (absAtt s (s.t r))) : abs (s.setT r o) = MS.updT (abs s) r f := by
  rw [abs_setT]
  unfold MS.updT
  dsimp only
  congr 1
  funext x
  by_cases hx : x = r
  · subst hx; simp only []; rw [h]; rfl
  · simp only [if_neg hx]

/-! ### what the hand model does not see: the tuple objects -/

/-- no tuple object is shared by two attackers of the model, and all of them have been allocated.  (Python code
outside `model.py` could share one tuple between two `AttackerAttachment`s; `add_entry_point` would then change
both.  The translated functions never create such sharing: `EpOK` is kept by all of them.) -/
structure EpOK (s : H) : Prop where
  fresh : ∀ t ∈ s.attackers, ∀ r ∈ (s.t t).entry_points, r < s.efresh
  disjoint : ∀ t ∈ s.attackers, ∀ u ∈ s.attackers, t ≠ u → ∀ r ∈ (s.t t).entry_points, r ∉ (s.t u).entry_points

/-- the operation did not touch attackers, tuple objects or the allocation counters -/
structure TFrame (s s' : H) : Prop where
  t : s'.t = s.t
  e : s'.e = s.e
  efresh : s'.efresh = s.efresh
  attackers : s'.attackers = s.attackers
  afresh : s'.afresh = s.afresh
  lfresh : s'.lfresh = s.lfresh
  tfresh : s'.tfresh = s.tfresh

theorem TFrame.refl (s : H) : TFrame s s := ⟨rfl, rfl, rfl, rfl, rfl, rfl, rfl⟩
theorem TFrame.trans {s s' s'' : H} (h : TFrame s s') (h' : TFrame s' s'') : TFrame s s'' :=
  ⟨h'.t.trans h.t, h'.e.trans h.e, h'.efresh.trans h.efresh, h'.attackers.trans h.attackers,
   h'.afresh.trans h.afresh, h'.lfresh.trans h.lfresh, h'.tfresh.trans h.tfresh⟩
theorem TFrame.epOK {s s' : H} (h : TFrame s s') (hE : EpOK s) : EpOK s' := by
  refine ⟨?_, ?_⟩
  · intro t ht r hr; rw [h.attackers] at ht; rw [h.t] at hr; rw [h.efresh]; exact hE.fresh t ht r hr
  · intro t ht u hu htu r hr; rw [h.attackers] at ht hu; rw [h.t] at hr ⊢; exact hE.disjoint t ht u hu htu r hr
theorem TFrame.setA (s : H) (r : ARef) (o : PyAsset) : TFrame s (s.setA r o) := ⟨rfl, rfl, rfl, rfl, rfl, rfl, rfl⟩
theorem TFrame.setL (s : H) (r : LRef) (o : PyAssoc) : TFrame s (s.setL r o) := ⟨rfl, rfl, rfl, rfl, rfl, rfl, rfl⟩
theorem TFrame.wr (s : H) (f : FieldLoc) (v : List ARef) : TFrame s (s.wr f v) := by
  unfold H.wr; split <;> exact TFrame.setL _ _ _

/-! ### the parts of the hand-written operations that `model.py` itself performs -/

/-- `Model.add_asset` on a new object of type `type` with the optional `name` -/
def addAssetCore (s : MS.St) (type : String) (name : Option String) (defs : List (String × String))
    (extras : String) (assetId : Option Int) (allowDup : Bool) : Except MS.Err MS.St :=
  if s.assetIds.contains (assetId.getD s.nextId) then .error .valueError else
  if MS.dupRejected s name allowDup then .error .valueError else
  .ok (MS.addAssetSt s (MS.newAsset s type name defs extras assetId))

theorem addAsset_eq_core (L : Lang) (s : MS.St) (type : String) (name : Option String)
    (defs : List (String × String)) (defsOk : Bool) (extras : String) (assetId : Option Int) (allowDup : Bool) :
    MS.addAsset L s type name defs defsOk extras assetId allowDup =
      if (L.findAsset type).isNone then .error .lookupError else
      if !defsOk || !(defs.all (fun d => (MS.defensesOf L type).any (·.1 = d.1))) then .error .validation else
      addAssetCore s type name defs extras assetId allowDup := by
  rw [MS.addAsset_eq]; rfl

/-- `Model.add_association` (with `_validate_association`) on a new association object `o` -/
def addAssocCore (s : MS.St) (o : MS.AssocObj) : Except MS.Err MS.St :=
  if !(o.left.all s.assets.contains) then .error .modelAssociation else
  if !((o.left.map (fun a => (s.aobj a).name)).eraseDups.length == o.left.length) then .error .modelAssociation else
  if !(o.right.all s.assets.contains) then .error .modelAssociation else
  if !((o.right.map (fun a => (s.aobj a).name)).eraseDups.length == o.right.length) then .error .modelAssociation else
  if o.left.any (fun a => o.right.any (fun b => MS.assocExists s o.cls a b)) then .error .duplicateAssociation else
  .ok (MS.addAssocSt s o)

theorem addAssociation_eq_core (L : Lang) (s : MS.St) (cls : String) (left right : List Nat) :
    MS.addAssociation L s cls left right =
      match (MS.assocClasses L).find? (·.cls = cls) with
      | none => .error .lookupError
      | some c =>
        if !(left.all (fun a => MS.okMember L c.ltype (s.aobj a).type) && MS.okCount c.lmax left.length &&
             right.all (fun a => MS.okMember L c.rtype (s.aobj a).type) && MS.okCount c.rmax right.length)
        then .error .validation else
        addAssocCore s { cls := cls, lf := c.lf, rf := c.rf, left := left, right := right } := by
  unfold MS.addAssociation addAssocCore
  cases (MS.assocClasses L).find? (·.cls = cls) with
  | none => rfl
  | some c =>
    dsimp only
    split
    · rfl
    split
    · rfl
    split
    · rfl
    split
    · rfl
    split
    · rfl
    split
    · rfl
    rw [MS.foldl_appendAssoc]
    rfl

end MalVerif.PyM
