import MalVerif.Py.TieMSerialToDict
import MalVerif.Py.TieModelStep      -- for `FieldsDistinct`
/-!
# The document written by the translated `_to_dict` is well shaped — C07

* `docShape_pyDocOf`: the document `pyDocOf env s` that `_to_dict` returns has the shape `_from_dict` expects;
* `docOf_jsonRTpy`, `docShape_jsonRTpy`, `defsOkOf_jsonRTpy`, …: the (modelled) JSON file layer `jsonRTpy` commutes with
  `docOf` and keeps the shape of a document whose id keys are `int`s (`IntKeys`, `intKeys_pyDocOf`);
* `defsKnown_pyDocOf`, `fieldsNotSwapped_pyDocOf`, `entryPointsListed_pyDocOf` (and the `_jsonRTpy` variants): the
  document conditions of the loader tie hold for the written document.
-/
namespace MalVerif.PyM.Tie
open MalVerif MalVerif.PyM MalVerif.PyM.Gen MalVerif.Ser

/-! ### dictionaries built with `dictSet` -/

theorem ds_keys {κ ν : Type} [BEq κ] [LawfulBEq κ] (d : List (κ × ν)) (k : κ) (v : ν) :
    (dictSet d k v).map (·.1) = if k ∈ d.map (·.1) then d.map (·.1) else d.map (·.1) ++ [k] := by
  unfold dictSet
  by_cases hc : d.any (fun e => e.1 == k) = true
  · have hm : k ∈ d.map (·.1) := by
      obtain ⟨e, he, hk⟩ := List.any_eq_true.1 hc
      exact List.mem_map.2 ⟨e, he, by simpa using hk⟩
    rw [if_pos hc, if_pos hm, List.map_map]
    apply List.map_congr_left
    intro e _
    by_cases he : (e.1 == k) = true
    · have : e.1 = k := by simpa using he
      simp [this]
    · simp [he]
  · have hm : k ∉ d.map (·.1) := by
      intro h
      obtain ⟨e, he, hk⟩ := List.mem_map.1 h
      exact hc (List.any_eq_true.2 ⟨e, he, by simpa using hk⟩)
    rw [if_neg hc, if_neg hm, List.map_append]; rfl

theorem ds_keys_nodup1 {κ ν : Type} [BEq κ] [LawfulBEq κ] (d : List (κ × ν)) (k : κ) (v : ν)
    (h : (d.map (·.1)).Nodup) : ((dictSet d k v).map (·.1)).Nodup := by
  rw [ds_keys]
  by_cases hm : k ∈ d.map (·.1)
  · rw [if_pos hm]; exact h
  · rw [if_neg hm]
    rw [List.nodup_append]
    refine ⟨h, by simp, ?_⟩
    intro a ha b hb hab
    have : b = k := by simpa using hb
    exact hm (this ▸ hab ▸ ha)

theorem ds_foldl_keys_nodup {α κ ν : Type} [BEq κ] [LawfulBEq κ] (key : α → κ) (val : α → ν) (l : List α) :
    ∀ d0 : List (κ × ν), (d0.map (·.1)).Nodup →
      ((l.foldl (fun d a => dictSet d (key a) (val a)) d0).map (·.1)).Nodup := by
  induction l with
  | nil => intro d0 h; exact h
  | cons a l ih => intro d0 h; rw [List.foldl_cons]; exact ih _ (ds_keys_nodup1 d0 _ _ h)

/-- a dictionary built by `dictSet`s from the empty one has pairwise different keys -/
theorem dictSet_keys_nodup {α κ ν : Type} [BEq κ] [LawfulBEq κ] (key : α → κ) (val : α → ν) (l : List α) :
    ((l.foldl (fun d a => dictSet d (key a) (val a)) []).map (·.1)).Nodup :=
  ds_foldl_keys_nodup key val l [] (by simp)

theorem ds_mem {κ ν : Type} [BEq κ] [LawfulBEq κ] (d : List (κ × ν)) (k : κ) (v : ν) (e : κ × ν)
    (h : e ∈ dictSet d k v) : e ∈ d ∨ e = (k, v) := by
  unfold dictSet at h
  by_cases hc : d.any (fun e => e.1 == k) = true
  · rw [if_pos hc] at h
    obtain ⟨x, hx, rfl⟩ := List.mem_map.1 h
    by_cases he : (x.1 == k) = true
    · right; simp [he]
    · left; simp [he, hx]
  · rw [if_neg hc] at h
    rcases List.mem_append.1 h with h | h
    · exact .inl h
    · right; simpa using h

/-- every entry of a dictionary built by a `dictSet` fold is an entry of the start or was set -/
theorem ds_foldl_mem {α κ ν : Type} [BEq κ] [LawfulBEq κ] (key : α → κ) (val : α → ν) (l : List α) :
    ∀ (d0 : List (κ × ν)) (e : κ × ν), e ∈ l.foldl (fun d a => dictSet d (key a) (val a)) d0 →
      e ∈ d0 ∨ ∃ a ∈ l, e = (key a, val a) := by
  induction l with
  | nil => intro d0 e h; exact .inl h
  | cons a l ih =>
    intro d0 e h
    rw [List.foldl_cons] at h
    rcases ih _ e h with h | ⟨b, hb, rfl⟩
    · rcases ds_mem d0 _ _ e h with h | rfl
      · exact .inl h
      · exact .inr ⟨a, List.mem_cons_self, rfl⟩
    · exact .inr ⟨b, List.mem_cons_of_mem _ hb, rfl⟩

theorem ds_foldl_mem_nil {α κ ν : Type} [BEq κ] [LawfulBEq κ] (key : α → κ) (val : α → ν) (l : List α) (e : κ × ν)
    (h : e ∈ l.foldl (fun d a => dictSet d (key a) (val a)) []) : ∃ a ∈ l, e = (key a, val a) := by
  rcases ds_foldl_mem key val l [] e h with h | h
  · simp at h
  · exact h

theorem ds_key_mono {κ ν : Type} [BEq κ] [LawfulBEq κ] (d : List (κ × ν)) (k : κ) (v : ν) (k' : κ)
    (h : k' ∈ d.map (·.1)) : k' ∈ (dictSet d k v).map (·.1) := by
  rw [ds_keys]
  by_cases hm : k ∈ d.map (·.1)
  · rw [if_pos hm]; exact h
  · rw [if_neg hm]; exact List.mem_append_left _ h

theorem ds_key_self {κ ν : Type} [BEq κ] [LawfulBEq κ] (d : List (κ × ν)) (k : κ) (v : ν) :
    k ∈ (dictSet d k v).map (·.1) := by
  rw [ds_keys]
  by_cases hm : k ∈ d.map (·.1)
  · rw [if_pos hm]; exact hm
  · rw [if_neg hm]; simp

theorem ds_foldl_key_mono {α κ ν : Type} [BEq κ] [LawfulBEq κ] (key : α → κ) (val : α → ν) (l : List α) :
    ∀ (d0 : List (κ × ν)) (k : κ), k ∈ d0.map (·.1) →
      k ∈ (l.foldl (fun d a => dictSet d (key a) (val a)) d0).map (·.1) := by
  induction l with
  | nil => intro d0 k h; exact h
  | cons a l ih => intro d0 k h; rw [List.foldl_cons]; exact ih _ k (ds_key_mono d0 _ _ k h)

/-- a key that was set is a key of the dictionary -/
theorem ds_foldl_key_mem {α κ ν : Type} [BEq κ] [LawfulBEq κ] (key : α → κ) (val : α → ν) (l : List α) :
    ∀ (d0 : List (κ × ν)) (a : α), a ∈ l →
      key a ∈ (l.foldl (fun d a => dictSet d (key a) (val a)) d0).map (·.1) := by
  induction l with
  | nil => intro d0 a h; simp at h
  | cons b l ih =>
    intro d0 a h
    rw [List.foldl_cons]
    rcases List.mem_cons.1 h with rfl | h
    · exact ds_foldl_key_mono key val l _ _ (ds_key_self d0 _ _)
    · exact ih _ a h

/-! ### the shape of the written document -/

theorem defKeys_nodup_of_schemaOrder (L : Lang) (s : H) (h : DefsSchemaOrder L s) :
    ∀ a ∈ s.assets, ((s.a a).defenses.map (·.1)).Nodup :=
  fun a ha => (defensesOf_keys_nodup L (s.a a).type).sublist (h a ha)

theorem nonDefault_keys_nodup (L : Lang) (o : MS.AssetObj) (h : (o.defenses.map (·.1)).Nodup) :
    ((Ser.nonDefault L o).map (·.1)).Nodup := by
  unfold Ser.nonDefault
  exact h.sublist (List.filter_sublist.map _)

theorem assetShape_pyAssetD (L : Lang) (o : MS.AssetObj) (h : (o.defenses.map (·.1)).Nodup) :
    assetShape (.dict (pyAssetD L o)) = true := by
  unfold assetShape pyAssetD
  by_cases he : (Ser.nonDefault L o).isEmpty = true
  · simp [he]
  · simp [he, nonDefault_keys_nodup L o h]

theorem assocShape_pyAssocD (s : H) (l : LRef) (hc : (s.l l).cls ≠ "extras") : assocShape (pyAssocD s l) = true := by
  have hd := (s.l l).distinct
  unfold pyAssocD
  by_cases h : (s.l l).extras.getD "{}" = "{}"
  · simp only [h, if_true]
    have htk : typeKeyOf [((s.l l).cls, PyAssocV.fields
        [((s.l l).lf, targetsOfInts ((s.l l).left.map (fun a => attrInt (s.a a).id))),
         ((s.l l).rf, targetsOfInts ((s.l l).right.map (fun a => attrInt (s.a a).id)))])] = (s.l l).cls := by
      simp [typeKeyOf, Ser.typeKey, hc]
    unfold assocShape
    rw [htk]
    simp [dictGet, hc, hd]
  · simp only [h, if_false]
    have htk : typeKeyOf [((s.l l).cls, PyAssocV.fields
        [((s.l l).lf, targetsOfInts ((s.l l).left.map (fun a => attrInt (s.a a).id))),
         ((s.l l).rf, targetsOfInts ((s.l l).right.map (fun a => attrInt (s.a a).id)))]),
         ("extras", PyAssocV.json ((s.l l).extras.getD "{}"))] = (s.l l).cls := by
      simp [typeKeyOf, Ser.typeKey, hc]
    unfold assocShape
    rw [htk]
    simp [dictGet, hc, hd]

theorem attShape_pyAttD (s : H) (t : TRef) : attShape (pyAttD s t) = true := by
  unfold attShape pyAttD
  simp only [Option.isSome_some, Option.getD_some, Bool.true_and, Bool.and_eq_true, decide_eq_true_eq, List.all_eq_true]
  refine ⟨dictSet_keys_nodup _ _ _, ?_⟩
  intro p hp
  obtain ⟨r, _, rfl⟩ := ds_foldl_mem_nil _ _ _ p hp
  rfl

theorem docShape_pyDocOf (env : SEnv) (s : H) (hs : HeapSet s)
    (hdk : ∀ a ∈ s.assets, ((s.a a).defenses.map (·.1)).Nodup) : docShape (pyDocOf env s) = true := by
  unfold docShape pyDocOf
  simp only [Option.isSome_some, Option.getD_some, Bool.true_and, Bool.and_eq_true, decide_eq_true_eq, List.all_eq_true]
  refine ⟨⟨⟨⟨dictSet_keys_nodup _ _ _, ?_⟩, ?_⟩, dictSet_keys_nodup _ _ _⟩, ?_⟩
  · intro e he
    obtain ⟨a, ha, rfl⟩ := ds_foldl_mem_nil _ _ _ e he
    exact assetShape_pyAssetD env.lang _ (hdk a ha)
  · intro e he
    obtain ⟨l, hl, rfl⟩ := List.mem_map.1 he
    exact assocShape_pyAssocD s l (hs.lcls l hl)
  · intro e he
    obtain ⟨t, _, rfl⟩ := ds_foldl_mem_nil _ _ _ e he
    exact attShape_pyAttD s t

/-! ### the JSON file layer -/

theorem ds_find_congr {α : Type} (p q : α → Bool) (l : List α) (h : ∀ x ∈ l, p x = q x) : l.find? p = l.find? q := by
  induction l with
  | nil => rfl
  | cons a l ih =>
    rw [List.find?_cons, List.find?_cons, h a List.mem_cons_self, ih (fun x hx => h x (List.mem_cons_of_mem _ hx))]

theorem docOf_jsonRTpy (d : PyDoc) : docOf (jsonRTpy d) = Ser.jsonRT (docOf d) := by
  unfold docOf jsonRTpy Ser.jsonRT
  congr 1
  · cases d.assets with
    | none => rfl
    | some l => simp [List.map_map, Function.comp_def]
  · cases d.attackers with
    | none => rfl
    | some l =>
      simp only [Option.map_some, Option.getD_some, List.map_map]
      apply List.map_congr_left
      intro e _
      simp only [Function.comp_def, attEntryOfPy]
      cases e.2.entry_points with
      | none => rfl
      | some m => simp [List.map_map, Function.comp_def]

theorem docName_jsonRTpy (d : PyDoc) : docName (jsonRTpy d) = docName d := rfl

/-- all keys of the id dictionaries are `int`s (as `_to_dict` writes them) -/
def IntKeys (d : PyDoc) : Prop :=
  (∀ e ∈ d.assets.getD [], ∃ n, e.1 = .i n) ∧
  (∀ t ∈ d.attackers.getD [], (∃ n, t.1 = .i n) ∧ ∀ p ∈ t.2.entry_points.getD [], ∃ n, p.1 = .i n)

theorem intKeys_pyDocOf (env : SEnv) (s : H) (hs : HeapSet s) : IntKeys (pyDocOf env s) := by
  unfold IntKeys pyDocOf
  simp only [Option.getD_some]
  refine ⟨?_, ?_⟩
  · intro e he
    obtain ⟨a, _, rfl⟩ := ds_foldl_mem_nil _ _ _ e he
    exact ⟨_, rfl⟩
  · intro e he
    obtain ⟨t, ht, rfl⟩ := ds_foldl_mem_nil _ _ _ e he
    refine ⟨?_, ?_⟩
    · obtain ⟨i, hi⟩ := Option.isSome_iff_exists.1 (hs.tid t ht)
      exact ⟨i, by simp only [hi]; rfl⟩
    · intro p hp
      unfold pyAttD at hp
      simp only [Option.getD_some] at hp
      obtain ⟨r, _, rfl⟩ := ds_foldl_mem_nil _ _ _ p hp
      exact ⟨_, rfl⟩

/-- the text of an `int` key determines it (`int(str(n)) = n`) -/
theorem key_text_inj_int (n m : Int) (h : Key.s (Key.i n).text = Key.s (Key.i m).text) : n = m := by
  have h1 : (Key.s (Key.i n).text).toInt? = (Key.s (Key.i m).text).toInt? := by rw [h]
  rw [key_json, key_json] at h1
  exact Option.some.inj h1

/-- a dictionary with `int` keys keeps pairwise different keys in a JSON file -/
theorem nodup_json_keys {β : Type} (l : List (Key × β)) (hi : ∀ e ∈ l, ∃ n, e.1 = .i n) (h : (l.map (·.1)).Nodup) :
    ((l.map (fun e => (Key.s e.1.text, e.2))).map (·.1)).Nodup := by
  rw [List.map_map]
  unfold List.Nodup at *
  rw [List.pairwise_map] at *
  refine List.Pairwise.imp_of_mem ?_ h
  intro a b ha hb hab heq
  obtain ⟨n, hn⟩ := hi a ha
  obtain ⟨m, hm⟩ := hi b hb
  apply hab
  simp only [Function.comp_def] at heq
  rw [hn, hm] at heq ⊢
  rw [key_text_inj_int n m heq]

theorem docShape_jsonRTpy (d : PyDoc) (h : docShape d = true) (hi : IntKeys d) : docShape (jsonRTpy d) = true := by
  unfold docShape at h ⊢
  simp only [Bool.and_eq_true, decide_eq_true_eq, List.all_eq_true] at h ⊢
  obtain ⟨⟨⟨⟨⟨⟨hm, has⟩, hak⟩, hav⟩, hls⟩, htk⟩, htv⟩ := h
  obtain ⟨hia, hit⟩ := hi
  have hA : (jsonRTpy d).assets.getD [] = (d.assets.getD []).map (fun e => (Key.s e.1.text, e.2)) := by
    unfold jsonRTpy; cases d.assets <;> rfl
  have hT : (jsonRTpy d).attackers.getD [] = (d.attackers.getD []).map (fun e => (Key.s e.1.text,
      { e.2 with entry_points := e.2.entry_points.map (fun m => m.map (fun p => (Key.s p.1.text, p.2))) })) := by
    unfold jsonRTpy; cases d.attackers <;> rfl
  have hAs : (jsonRTpy d).assets.isSome = d.assets.isSome := by
    unfold jsonRTpy; cases d.assets <;> rfl
  rw [hA, hT, hAs]
  refine ⟨⟨⟨⟨⟨⟨hm, has⟩, nodup_json_keys _ hia hak⟩, ?_⟩, hls⟩, ?_⟩, ?_⟩
  · intro e he
    obtain ⟨x, hx, rfl⟩ := List.mem_map.1 he
    exact hav x hx
  · have := nodup_json_keys _ (fun e he => (hit e he).1) htk
    rw [List.map_map] at this ⊢
    exact this
  · intro e he
    obtain ⟨x, hx, rfl⟩ := List.mem_map.1 he
    have hx' := htv x hx
    unfold attShape at hx' ⊢
    simp only [Bool.and_eq_true, decide_eq_true_eq, List.all_eq_true] at hx' ⊢
    obtain ⟨⟨⟨hn, hep⟩, hek⟩, hev⟩ := hx'
    have hE : (x.2.entry_points.map (fun m => m.map (fun p => (Key.s p.1.text, p.2)))).getD [] =
        (x.2.entry_points.getD []).map (fun p => (Key.s p.1.text, p.2)) := by
      cases x.2.entry_points <;> rfl
    rw [hE]
    refine ⟨⟨⟨hn, by simpa using hep⟩, nodup_json_keys _ (hit x hx).2 hek⟩, ?_⟩
    intro p hp
    obtain ⟨q, hq, rfl⟩ := List.mem_map.1 hp
    exact hev q hq

theorem assets_length_jsonRTpy (d : PyDoc) : ((jsonRTpy d).assets.getD []).length = (d.assets.getD []).length := by
  unfold jsonRTpy; cases d.assets <;> simp

set_option linter.unusedVariables false in
theorem defsOkOf_jsonRTpy (env : SEnv) (d : PyDoc) (hi : IntKeys d) (hnd : ((d.assets.getD []).map (·.1)).Nodup)
    (e : Key × PyAssetV) (he : e ∈ d.assets.getD []) :
    defsOkOf env (jsonRTpy d) (.s e.1.text) = defsOkOf env d e.1 := by
  have hA : (jsonRTpy d).assets.getD [] = (d.assets.getD []).map (fun e => (Key.s e.1.text, e.2)) := by
    unfold jsonRTpy; cases d.assets <;> rfl
  have hg : dictGet ((jsonRTpy d).assets.getD []) (.s e.1.text) = dictGet (d.assets.getD []) e.1 := by
    rw [hA]
    unfold dictGet
    rw [List.find?_map, Option.map_map]
    have : (d.assets.getD []).find? ((fun x : Key × PyAssetV => x.1 == Key.s e.1.text) ∘ fun e => (Key.s e.1.text, e.2)) =
        (d.assets.getD []).find? (fun x => x.1 == e.1) := by
      apply ds_find_congr
      intro x hx
      obtain ⟨n, hn⟩ := hi.1 x hx
      obtain ⟨m, hm⟩ := hi.1 e he
      simp only [Function.comp_def, hn, hm]
      by_cases hnm : n = m
      · subst hnm; simp
      · have h1 : (Key.s (Key.i n).text == Key.s (Key.i m).text) = false := by
          rw [beq_eq_false_iff_ne]
          exact fun h => hnm (key_text_inj_int n m h)
        have h2 : (Key.i n == Key.i m) = false := by
          rw [beq_eq_false_iff_ne]
          exact fun h => hnm (Key.i.inj h)
        rw [h1, h2]
    rw [this]
    cases (d.assets.getD []).find? (fun x => x.1 == e.1) <;> rfl
  unfold defsOkOf
  rw [hg]

/-! ### the document conditions of the loader tie -/

theorem defsKnown_pyDocOf (env : SEnv) (s : H) (hv : MS.Valid env.lang (abs s)) : DefsKnown env.lang (pyDocOf env s) := by
  intro e he
  unfold pyDocOf at he
  simp only [Option.getD_some] at he
  obtain ⟨a, ha, rfl⟩ := ds_foldl_mem_nil _ _ _ e he
  show ∀ x ∈ (pyAssetD env.lang ((abs s).aobj a)).defenses.getD [],
    (MS.defensesOf env.lang ((pyAssetD env.lang ((abs s).aobj a)).type.getD "")).any (fun y => y.1 == x.1) = true
  intro x hx
  have hx' : x ∈ Ser.nonDefault env.lang ((abs s).aobj a) := by
    unfold pyAssetD at hx
    by_cases hem : (Ser.nonDefault env.lang ((abs s).aobj a)).isEmpty = true
    · simp [hem] at hx
    · simpa [hem] using hx
  have hx'' : x ∈ ((abs s).aobj a).defenses := by
    unfold Ser.nonDefault at hx'
    exact (List.mem_filter.1 hx').1
  obtain ⟨v, hv'⟩ := (hv.assets a ha).defenses x hx''
  exact List.any_eq_true.2 ⟨(x.1, v), hv', by simp⟩

set_option linter.unusedVariables false in
theorem fieldsNotSwapped_pyDocOf (env : SEnv) (s : H) (hs : HeapSet s) (hL : FieldsDistinct env.lang)
    (hr : LinksResolve env.lang (abs s)) : FieldsNotSwapped env.lang (pyDocOf env s) := by
  unfold FieldsNotSwapped
  rw [docOf_pyDocOf env s hs]
  intro e he c hc hsw
  unfold Ser.toDoc at he
  obtain ⟨l, hl, rfl⟩ := List.mem_map.1 he
  obtain ⟨c', hc', hi⟩ := hr l hl
  simp only at hc hsw
  rw [hc'] at hc
  have hcc : c' = c := Option.some.inj hc
  subst hcc
  have hd := (s.l l).distinct
  have h1 : ((abs s).lobj l).lf = (s.l l).lf := rfl
  have h2 : ((abs s).lobj l).rf = (s.l l).rf := rfl
  apply hd
  rw [← h1, ← h2, hsw.1, hi.rf]

set_option linter.unusedVariables false in
theorem entryPointsListed_pyDocOf (env : SEnv) (s : H) (hs : HeapSet s) (hi : MS.Inv (abs s)) :
    EntryPointsListed (pyDocOf env s) := by
  intro t ht p hp
  unfold pyDocOf at ht ⊢
  simp only [Option.getD_some] at ht ⊢
  obtain ⟨t', ht', rfl⟩ := ds_foldl_mem_nil _ _ _ t ht
  unfold pyAttD at hp
  simp only [Option.getD_some] at hp
  obtain ⟨r, hr, rfl⟩ := ds_foldl_mem_nil _ _ _ p hp
  have hlive : (s.e r).asset ∈ s.assets :=
    hi.att.entry_live t' ht' (epVal s r) (List.mem_map.2 ⟨r, hr, rfl⟩)
  have hk := ds_foldl_key_mem (fun a => Key.i (attrInt (s.a a).id))
    (fun a => PyAssetV.dict (pyAssetD env.lang ((abs s).aobj a))) s.assets [] _ hlive
  obtain ⟨e, he, hek⟩ := List.mem_map.1 hk
  refine ⟨e, he, ?_, ?_⟩
  · rw [hek]; rfl
  · rw [hek]

theorem defsKnown_jsonRTpy (L : Lang) (d : PyDoc) (h : DefsKnown L d) : DefsKnown L (jsonRTpy d) := by
  have hA : (jsonRTpy d).assets.getD [] = (d.assets.getD []).map (fun e => (Key.s e.1.text, e.2)) := by
    unfold jsonRTpy; cases d.assets <;> rfl
  intro e he
  rw [hA] at he
  obtain ⟨x, hx, rfl⟩ := List.mem_map.1 he
  exact h x hx

theorem fieldsNotSwapped_jsonRTpy (L : Lang) (d : PyDoc) (h : FieldsNotSwapped L d) : FieldsNotSwapped L (jsonRTpy d) := by
  unfold FieldsNotSwapped at h ⊢
  rw [docOf_jsonRTpy]
  exact h

theorem entryPointsListed_jsonRTpy (d : PyDoc) (h : EntryPointsListed d) : EntryPointsListed (jsonRTpy d) := by
  have hA : (jsonRTpy d).assets.getD [] = (d.assets.getD []).map (fun e => (Key.s e.1.text, e.2)) := by
    unfold jsonRTpy; cases d.assets <;> rfl
  have hT : (jsonRTpy d).attackers.getD [] = (d.attackers.getD []).map (fun e => (Key.s e.1.text,
      { e.2 with entry_points := e.2.entry_points.map (fun m => m.map (fun p => (Key.s p.1.text, p.2))) })) := by
    unfold jsonRTpy; cases d.attackers <;> rfl
  intro t ht p hp
  rw [hT] at ht
  obtain ⟨x, hx, rfl⟩ := List.mem_map.1 ht
  have hE : (x.2.entry_points.map (fun m => m.map (fun p => (Key.s p.1.text, p.2)))).getD [] =
      (x.2.entry_points.getD []).map (fun p => (Key.s p.1.text, p.2)) := by
    cases x.2.entry_points <;> rfl
  simp only at hp
  rw [hE] at hp
  obtain ⟨q, hq, rfl⟩ := List.mem_map.1 hp
  obtain ⟨e, he, h1, h2⟩ := h x hx q hq
  rw [hA]
  refine ⟨(Key.s e.1.text, e.2), List.mem_map.2 ⟨e, he, rfl⟩, ?_, ?_⟩
  · simp only [key_json]; exact h1
  · simp only [key_json]; exact h2

end MalVerif.PyM.Tie
