import MalVerif.Py.GenClasses.Factory
/-!
# The class factory BEFORE fix 6addd5c (hand-written variant, documents the defect)

`PreFix.generate_assets` is the translation of `_generate_assets` as it was generated from the source before commit
6addd5c of /repo: the default of a defense was decided by `defense.ttc and defense.ttc['name'] == 'Enabled'` - a
subscript, which raises KeyError for a TTC dictionary without the key `name` (a composite TTC such as
`Exponential(1.0) + Exponential(2.0)`, or a number).  The repaired source reads `defense.ttc.get('name')`
(`Py/GenClasses/Factory.lean`).  `PreFix.create_classes` is the generated `_create_classes` calling the pre-fix
`_generate_assets`.  Used only by the witness `PropsGen/C06.pre_fix_composite_ttc_raises`; nothing else depends on it.
-/
set_option linter.unusedVariables false
namespace MalVerif.Py.Classes.PreFix
open MalVerif.Py MalVerif.Py.Classes MalVerif.Py.Classes.Gen
open MalVerif.Py.Visitor (V)

def generate_assets (lg : LG) (self : Self) : M Self := do
  let mut self := self
  for asset in lg.assets do
    let mut asset_json_entry : V := (mkDict [("title", (V.str (lg.asset asset).name)), ("type", (V.str "object")), ("properties", (mkDict []))])
    asset_json_entry ← modPath asset_json_entry [(V.str "properties")] (fun o => setItem o (V.str "id") (mkDict [("type", (V.str "integer"))]))
    asset_json_entry ← modPath asset_json_entry [(V.str "properties")] (fun o => setItem o (V.str "type") (mkDict [("type", (V.str "string")), ("default", (V.str (lg.asset asset).name))]))
    if (!((lg.asset asset).super_assets).isEmpty) then
      asset_json_entry ← setItem asset_json_entry (V.str "allOf") (V.list (((lg.asset asset).super_assets).map (fun superasset => (mkDict [("$ref", (V.str ("#/definitions/LanguageAsset/definitions/" ++ (lg.asset superasset).name)))]))))
    for defense in (((lg.asset asset).attack_steps).filter (fun step => (step.type == "defense"))) do
      let mut default_defense_value : V := V.unbound
      if (← (if (Visitor.truthy defense.ttc) then (do pure (V.eq (← getItem defense.ttc (V.str "name")) (V.str "Enabled")) : M Bool) else pure false)) then
        default_defense_value := (V.num "1.0")
      else
        default_defense_value := (V.num "0.0")
      asset_json_entry ← modPath asset_json_entry [(V.str "properties")] (fun o => setItem o (V.str defense.name) (mkDict [("type", (V.str "number")), ("minimum", (V.int 0)), ("maximum", (V.int 1)), ("default", default_defense_value)]))
    self := { self with json_schema := (← modPath self.json_schema [(V.str "definitions"), (V.str "LanguageAsset"), (V.str "definitions")] (fun o => setItem o (V.str (lg.asset asset).name) asset_json_entry)) }
    self := { self with json_schema := (← modPath self.json_schema [(V.str "definitions"), (V.str "LanguageAsset"), (V.str "oneOf")] (fun o => appendTo o (mkDict [("$ref", (V.str ("#/definitions/LanguageAsset/definitions/" ++ (lg.asset asset).name)))]))) }
  return self

def create_classes (pjs : Pjs) (lg : LG) (self : Self) : M Self := do
  let mut self := self
  self := { self with json_schema := (mkDict [("$schema", (V.str "http://json-schema.org/draft-04/schema#")), ("id", (V.str ("urn:mal:" ++ (strReplace "maltoolbox.language.classes_factory" "." ":")))), ("title", (V.str "LanguageObject")), ("type", (V.str "object")), ("oneOf", (V.list [(mkDict [("$ref", (V.str "#/definitions/LanguageAsset"))]), (mkDict [("$ref", (V.str "#/definitions/LanguageAssociation"))])])), ("definitions", (mkDict []))]) }
  self := { self with json_schema := (← modPath self.json_schema [(V.str "definitions")] (fun o => setItem o (V.str "LanguageAsset") (mkDict [("title", (V.str "LanguageAsset")), ("type", (V.str "object")), ("oneOf", (V.list [])), ("definitions", (mkDict []))]))) }
  self := { self with json_schema := (← modPath self.json_schema [(V.str "definitions")] (fun o => setItem o (V.str "LanguageAssociation") (mkDict [("title", (V.str "LanguageAssociation")), ("type", (V.str "object")), ("oneOf", (V.list [])), ("definitions", (mkDict []))]))) }
  self ← generate_assets lg self
  self ← factory_generate_associations lg self
  for definition in ["LanguageAsset", "LanguageAssociation"] do
    if (!(Visitor.truthy (← getItem (← getItem (← getItem self.json_schema (V.str "definitions")) (V.str definition)) (V.str "oneOf")))) then
      self := { self with json_schema := (← modPath self.json_schema [(V.str "definitions"), (V.str definition)] (fun o => delItem o (V.str "oneOf"))) }
  let mut builder : V := (← pjs.ObjectBuilder self.json_schema)
  self := { self with ns := (← pjs.build_classes builder (V.bool false)) }
  return self

end MalVerif.Py.Classes.PreFix
