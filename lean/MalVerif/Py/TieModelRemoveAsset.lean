import MalVerif.Py.AbsModel
import MalVerif.Py.GenModel.Assoc
namespace MalVerif.PyM.Tie
open MalVerif MalVerif.PyM MalVerif.PyM.Gen

def RafaTie (env : ModelEnv) : Prop := ∀ (s : H), MS.Inv (abs s) → ∀ (a : ARef) (l : LRef),
    absR (model_remove_asset_from_association s env a l) = MS.removeAssetFromAssociation (abs s) a l
def RafaFrame (env : ModelEnv) : Prop := ∀ (s s' : H) (a : ARef) (l : LRef),
    model_remove_asset_from_association s env a l = .ok s' → TFrame s s'

/-! ### (1) the lookup `AttackerAttachment.get_entry_point_tuple` -/

theorem get_entry_point_tuple_eq (s : H) (env : ModelEnv) (t : TRef) (a : ARef) :
    attachment_get_entry_point_tuple s env t a =
      (s.t t).entry_points.find? (fun r => eqAsset env s (s.e r).asset a) := rfl

theorem get_entry_point_tuple_tie {env : ModelEnv} (hE : EqId env) (s : H) (t : TRef) (a : ARef) :
    (attachment_get_entry_point_tuple s env t a).map (epVal s) = ((abs s).tobj t).entry.find? (·.1 = a) := by
  rw [get_entry_point_tuple_eq]
  show _ = ((s.t t).entry_points.map (epVal s)).find? _
  rw [List.find?_map]
  congr 2
  funext r
  rw [eqAsset_id hE]
  show ((s.e r).asset == a) = decide ((s.e r).asset = a)
  by_cases h : (s.e r).asset = a <;> simp [h]

theorem get_entry_point_tuple_mem {env : ModelEnv} (hE : EqId env) (s : H) (t : TRef) (a : ARef) (r : ERef)
    (h : attachment_get_entry_point_tuple s env t a = some r) :
    r ∈ (s.t t).entry_points ∧ (s.e r).asset = a := by
  rw [get_entry_point_tuple_eq] at h
  refine ⟨List.mem_of_find?_eq_some h, ?_⟩
  have := List.find?_some h
  rw [eqAsset_id hE] at this
  exact eq_of_beq this

theorem ra_shape (s : H) (env : ModelEnv) (a : ARef) : model_remove_asset s env a = ?x := by
  unfold model_remove_asset
  simp only [bind, Except.bind, pure, Except.pure]
  trace_state
  sorry

end MalVerif.PyM.Tie
