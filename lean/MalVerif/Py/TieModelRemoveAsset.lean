import MalVerif.Py.AbsModel
import MalVerif.Py.GenModel.Assoc
namespace MalVerif.PyM.Tie
open MalVerif MalVerif.PyM MalVerif.PyM.Gen

def RafaTie (env : ModelEnv) : Prop := ∀ (s : H), MS.Inv (abs s) → ∀ (a : ARef) (l : LRef),
    absR (model_remove_asset_from_association s env a l) = MS.removeAssetFromAssociation (abs s) a l
def RafaFrame (env : ModelEnv) : Prop := ∀ (s s' : H) (a : ARef) (l : LRef),
    model_remove_asset_from_association s env a l = .ok s' → TFrame s s'

/-! ### (1) the lookup `AttackerAttachment.get_entry_point_tuple` -/

theorem get_entry_point_tuple_eq (s : H) (env : ModelEnv) (t : TRef) (a : ARef) :
    attachment_get_entry_point_tuple s env t a =
      (s.t t).entry_points.find? (fun r => eqAsset env s (s.e r).asset a) := rfl

theorem get_entry_point_tuple_tie {env : ModelEnv} (hE : EqId env) (s : H) (t : TRef) (a : ARef) :
    (attachment_get_entry_point_tuple s env t a).map (epVal s) = ((abs s).tobj t).entry.find? (·.1 = a) := by
  rw [get_entry_point_tuple_eq]
  show _ = ((s.t t).entry_points.map (epVal s)).find? _
  rw [List.find?_map]
  congr 2
  funext r
  rw [eqAsset_id hE]
  show ((s.e r).asset == a) = decide ((s.e r).asset = a)
  by_cases h : (s.e r).asset = a <;> simp [h]

theorem get_entry_point_tuple_mem {env : ModelEnv} (hE : EqId env) (s : H) (t : TRef) (a : ARef) (r : ERef)
    (h : attachment_get_entry_point_tuple s env t a = some r) :
    r ∈ (s.t t).entry_points ∧ (s.e r).asset = a := by
  rw [get_entry_point_tuple_eq] at h
  refine ⟨List.mem_of_find?_eq_some h, ?_⟩
  have := List.find?_some h
  rw [eqAsset_id hE] at this
  exact eq_of_beq this

/-! ### (2) `Model.remove_asset` as a composition of named pieces -/

/-- body of the loop over `list(asset.associations)` -/
def raB1 (env : ModelEnv) (a : ARef) (s : H) (l : LRef) : Except PyErr H :=
  if pyIn (eqAssoc env s) (s.a a).associations l then model_remove_asset_from_association s env a l else .ok s

/-- body of the loop over `self.attackers` -/
def raB2 (env : ModelEnv) (a : ARef) (s : H) (t : TRef) : Except PyErr H :=
  match attachment_get_entry_point_tuple s env t a with
  | some r => (pyRemoveBy (eqEp env s) (s.t t).entry_points r).bind fun l =>
      .ok (s.setT t { s.t t with entry_points := l })
  | none => .ok s

/-- the three removals at the end -/
def raFin (env : ModelEnv) (a : ARef) (s : H) : Except PyErr H :=
  (pyRemoveBy (eqAsset env s) s.assets a).bind fun l =>
    .ok { s with assets := l, asset_ids := pySetDiscard s.asset_ids (attrInt (s.a a).id),
                 asset_names := pySetDiscard s.asset_names (attrStr (s.a a).name) }

theorem forIn_eq_loopE {α σ : Type} (l : List α) (s : σ) (f : σ → α → Except PyErr σ)
    (b : α → σ → Except PyErr (ForInStep σ))
    (h : ∀ x s, b x s = (f s x).bind (fun s' => Except.pure (ForInStep.yield s'))) :
    forIn l s b = loopE f l s := by
  have hb : b = fun x s => (f s x).bind (fun s' => Except.pure (ForInStep.yield s')) := by
    funext x s; exact h x s
  subst hb; rfl

theorem ra_eq (s : H) (env : ModelEnv) (a : ARef) :
    model_remove_asset s env a =
      if pyIn (eqAsset env s) s.assets a then
        (loopE (raB1 env a) (s.a a).associations s).bind fun s1 =>
        (loopE (raB2 env a) s1.attackers s1).bind fun s2 => raFin env a s2
      else .error .lookupError := by
  unfold model_remove_asset
  simp only [bind, pure, Except.pure]
  cases h : pyIn (eqAsset env s) s.assets a
  · rfl
  · simp only [Bool.not_true, Bool.false_eq_true, if_false, if_true]
    congr 1
    · apply forIn_eq_loopE
      intro l s0
      unfold raB1
      split <;> rfl
    · funext s1
      congr 1
      apply forIn_eq_loopE
      intro t s0
      unfold raB2
      cases hg : attachment_get_entry_point_tuple s0 env t a with
      | none => rfl
      | some r =>
        dsimp only
        cases pyRemoveBy (eqEp env s0) (s0.t t).entry_points r <;> rfl

/-! ### the loop over the attackers -/

theorem map_eraseP_eq_erase {α β : Type} [BEq β] [LawfulBEq β] (f : α → β) (l : List α) (r : α) :
    (l.eraseP (fun y => f y == f r)).map f = (l.map f).erase (f r) := by
  induction l with
  | nil => rfl
  | cons x xs ih =>
    by_cases h : f x = f r
    · have hb : (f x == f r) = true := by simp [h]
      rw [List.eraseP_cons_of_pos (by simpa using hb), List.map_cons, h, List.erase_cons_head]
    · have hb : (f x == f r) = false := by simp [h]
      rw [List.eraseP_cons_of_neg (by simp [hb]), List.map_cons, List.map_cons, ih,
        List.erase_cons_tail (by simpa using hb)]

theorem updT_id_of (st : MS.St) (t : Nat) (F : MS.AttObj → MS.AttObj) (h : F (st.tobj t) = st.tobj t) :
    MS.updT st t F = st := by
  unfold MS.updT
  have : (fun x => if x = t then F (st.tobj x) else st.tobj x) = st.tobj := by
    funext x
    by_cases hx : x = t
    · subst hx; rw [if_pos rfl, h]
    · rw [if_neg hx]
  rw [this]

theorem raB2_tie {env : ModelEnv} (hE : EqId env) (a : ARef) (s : H) (t : TRef) :
    ∃ s', raB2 env a s t = .ok s' ∧ abs s' = MS.updT (abs s) t (MS.dropEntry a) := by
  have htie := get_entry_point_tuple_tie hE s t a
  unfold raB2
  cases hg : attachment_get_entry_point_tuple s env t a with
  | none =>
    refine ⟨s, rfl, ?_⟩
    rw [hg] at htie
    have hnone : ((abs s).tobj t).entry.find? (·.1 = a) = none := htie.symm
    rw [updT_id_of]
    unfold MS.dropEntry
    rw [hnone]
  | some r =>
    obtain ⟨hmem, _⟩ := get_entry_point_tuple_mem hE s t a r hg
    have hin : pyIn (eqEp env s) (s.t t).entry_points r = true := by
      unfold pyIn
      rw [List.any_eq_true]
      exact ⟨r, hmem, by unfold eqEp; simp⟩
    dsimp only
    unfold pyRemoveBy
    rw [if_pos hin]
    refine ⟨_, rfl, ?_⟩
    apply abs_setT_updT
    rw [hg] at htie
    have hsome : (absAtt s (s.t t)).entry.find? (·.1 = a) = some (epVal s r) := htie.symm
    unfold MS.dropEntry
    rw [hsome]
    have hf : (fun y => eqEp env s y r) = (fun y => epVal s y == epVal s r) := by
      funext y; exact eqEp_id hE s y r
    rw [hf]
    show ({ id := _, name := _, entry := _ } : MS.AttObj) = { id := _, name := _, entry := _ }
    congr 1
    exact map_eraseP_eq_erase (epVal s) _ r

end MalVerif.PyM.Tie
