import MalVerif.Py.AbsModel
import MalVerif.Py.GenModel.Assoc
namespace MalVerif.PyM.Tie
open MalVerif MalVerif.PyM MalVerif.PyM.Gen

/-! # Tie: translated `Model.remove_asset`  =  `MS.removeAsset`

The tie and the frame of `model_remove_asset_from_association` (proved elsewhere) are explicit hypotheses
`RafaTie env` / `RafaFrame env`. -/

def RafaTie (env : ModelEnv) : Prop := ∀ (s : H), MS.Inv (abs s) → ∀ (a : ARef) (l : LRef),
    absR (model_remove_asset_from_association s env a l) = MS.removeAssetFromAssociation (abs s) a l
def RafaFrame (env : ModelEnv) : Prop := ∀ (s s' : H) (a : ARef) (l : LRef),
    model_remove_asset_from_association s env a l = .ok s' → TFrame s s'

/-! ### (1) the lookup `AttackerAttachment.get_entry_point_tuple` -/

theorem get_entry_point_tuple_eq (s : H) (env : ModelEnv) (t : TRef) (a : ARef) :
    attachment_get_entry_point_tuple s env t a =
      (s.t t).entry_points.find? (fun r => eqAsset env s (s.e r).asset a) := rfl

theorem get_entry_point_tuple_tie {env : ModelEnv} (hE : EqId env) (s : H) (t : TRef) (a : ARef) :
    (attachment_get_entry_point_tuple s env t a).map (epVal s) = ((abs s).tobj t).entry.find? (·.1 = a) := by
  rw [get_entry_point_tuple_eq]
  show _ = ((s.t t).entry_points.map (epVal s)).find? _
  rw [List.find?_map]
  congr 2
  funext r
  rw [eqAsset_id hE]
  show ((s.e r).asset == a) = decide ((s.e r).asset = a)
  by_cases h : (s.e r).asset = a <;> simp [h]

theorem get_entry_point_tuple_mem {env : ModelEnv} (hE : EqId env) (s : H) (t : TRef) (a : ARef) (r : ERef)
    (h : attachment_get_entry_point_tuple s env t a = some r) :
    r ∈ (s.t t).entry_points ∧ (s.e r).asset = a := by
  rw [get_entry_point_tuple_eq] at h
  refine ⟨List.mem_of_find?_eq_some h, ?_⟩
  have := List.find?_some h
  rw [eqAsset_id hE] at this
  exact eq_of_beq this

/-! ### (2) `Model.remove_asset` as a composition of named pieces -/

/-- body of the loop over `list(asset.associations)` -/
def raB1 (env : ModelEnv) (a : ARef) (s : H) (l : LRef) : Except PyErr H :=
  if pyIn (eqAssoc env s) (s.a a).associations l then model_remove_asset_from_association s env a l else .ok s

/-- body of the loop over `self.attackers` -/
def raB2 (env : ModelEnv) (a : ARef) (s : H) (t : TRef) : Except PyErr H :=
  match attachment_get_entry_point_tuple s env t a with
  | some r => (pyRemoveBy (eqEp env s) (s.t t).entry_points r).bind fun l =>
      .ok (s.setT t { s.t t with entry_points := l })
  | none => .ok s

/-- the three removals at the end -/
def raFin (env : ModelEnv) (a : ARef) (s : H) : Except PyErr H :=
  (pyRemoveBy (eqAsset env s) s.assets a).bind fun l =>
    .ok { s with assets := l, asset_ids := pySetDiscard s.asset_ids (attrInt (s.a a).id),
                 asset_names := pySetDiscard s.asset_names (attrStr (s.a a).name) }

theorem forIn_eq_loopE {α σ : Type} (l : List α) (s : σ) (f : σ → α → Except PyErr σ)
    (b : α → σ → Except PyErr (ForInStep σ))
    (h : ∀ x s, b x s = (f s x).bind (fun s' => Except.pure (ForInStep.yield s'))) :
    forIn l s b = loopE f l s := by
  have hb : b = fun x s => (f s x).bind (fun s' => Except.pure (ForInStep.yield s')) := by
    funext x s; exact h x s
  subst hb; rfl

theorem ra_eq (s : H) (env : ModelEnv) (a : ARef) :
    model_remove_asset s env a =
      if pyIn (eqAsset env s) s.assets a then
        (loopE (raB1 env a) (s.a a).associations s).bind fun s1 =>
        (loopE (raB2 env a) s1.attackers s1).bind fun s2 => raFin env a s2
      else .error .lookupError := by
  unfold model_remove_asset
  simp only [bind, pure, Except.pure]
  cases h : pyIn (eqAsset env s) s.assets a
  · rfl
  · simp only [Bool.not_true, Bool.false_eq_true, if_false, if_true]
    congr 1
    · apply forIn_eq_loopE
      intro l s0
      unfold raB1
      split <;> rfl
    · funext s1
      congr 1
      apply forIn_eq_loopE
      intro t s0
      unfold raB2
      cases hg : attachment_get_entry_point_tuple s0 env t a with
      | none => rfl
      | some r =>
        dsimp only
        cases pyRemoveBy (eqEp env s0) (s0.t t).entry_points r <;> rfl

/-! ### the loop over the attackers -/

theorem map_eraseP_eq_erase {α β : Type} [BEq β] [LawfulBEq β] (f : α → β) (l : List α) (r : α) :
    (l.eraseP (fun y => f y == f r)).map f = (l.map f).erase (f r) := by
  induction l with
  | nil => rfl
  | cons x xs ih =>
    by_cases h : f x = f r
    · have hb : (f x == f r) = true := by simp [h]
      rw [List.eraseP_cons_of_pos (by simpa using hb), List.map_cons, h, List.erase_cons_head]
    · have hb : (f x == f r) = false := by simp [h]
      rw [List.eraseP_cons_of_neg (by simp [hb]), List.map_cons, List.map_cons, ih,
        List.erase_cons_tail (by simpa using hb)]

theorem updT_id_of (st : MS.St) (t : Nat) (F : MS.AttObj → MS.AttObj) (h : F (st.tobj t) = st.tobj t) :
    MS.updT st t F = st := by
  unfold MS.updT
  have : (fun x => if x = t then F (st.tobj x) else st.tobj x) = st.tobj := by
    funext x
    by_cases hx : x = t
    · subst hx; rw [if_pos rfl, h]
    · rw [if_neg hx]
  rw [this]

theorem raB2_tie {env : ModelEnv} (hE : EqId env) (a : ARef) (s : H) (t : TRef) :
    ∃ s', raB2 env a s t = .ok s' ∧ abs s' = MS.updT (abs s) t (MS.dropEntry a) := by
  have htie := get_entry_point_tuple_tie hE s t a
  unfold raB2
  cases hg : attachment_get_entry_point_tuple s env t a with
  | none =>
    refine ⟨s, rfl, ?_⟩
    rw [hg] at htie
    have hnone : ((abs s).tobj t).entry.find? (·.1 = a) = none := htie.symm
    rw [updT_id_of]
    unfold MS.dropEntry
    rw [hnone]
  | some r =>
    obtain ⟨hmem, _⟩ := get_entry_point_tuple_mem hE s t a r hg
    have hin : pyIn (eqEp env s) (s.t t).entry_points r = true := by
      unfold pyIn
      rw [List.any_eq_true]
      exact ⟨r, hmem, by unfold eqEp; simp⟩
    dsimp only
    unfold pyRemoveBy
    rw [if_pos hin]
    refine ⟨_, rfl, ?_⟩
    apply abs_setT_updT
    rw [hg] at htie
    have hsome : (absAtt s (s.t t)).entry.find? (·.1 = a) = some (epVal s r) := htie.symm
    unfold MS.dropEntry
    rw [hsome]
    have hf : (fun y => eqEp env s y r) = (fun y => epVal s y == epVal s r) := by
      funext y; exact eqEp_id hE s y r
    rw [hf]
    show ({ id := _, name := _, entry := _ } : MS.AttObj) = { id := _, name := _, entry := _ }
    congr 1
    exact map_eraseP_eq_erase (epVal s) _ r

/-- the second loop of `remove_asset`: it cannot raise, and it is the fold of `MS.finishRemove` -/
theorem raLoop2_tie {env : ModelEnv} (hE : EqId env) (a : ARef) (ts : List TRef) : ∀ s : H,
    ∃ s', loopE (raB2 env a) ts s = .ok s' ∧
      abs s' = ts.foldl (fun st t => MS.updT st t (MS.dropEntry a)) (abs s) := by
  induction ts with
  | nil => intro s; exact ⟨s, rfl, rfl⟩
  | cons t ts ih =>
    intro s
    obtain ⟨s1, h1, e1⟩ := raB2_tie hE a s t
    obtain ⟨s2, h2, e2⟩ := ih s1
    refine ⟨s2, ?_, ?_⟩
    · rw [loopE_cons, h1]; exact h2
    · rw [List.foldl_cons, ← e1]; exact e2

theorem forIn_attackers_tie {env : ModelEnv} (hE : EqId env) (a : ARef) (s : H) :
    ∃ s', (forIn s.attackers s (fun attacker (s : H) =>
        match attachment_get_entry_point_tuple s env attacker a with
        | some v_1 =>
          (pyRemoveBy (eqEp env s) (s.t attacker).entry_points v_1).bind fun l_2 =>
            Except.ok (ForInStep.yield (s.setT attacker { s.t attacker with entry_points := l_2 }))
        | none => Except.ok (ForInStep.yield s)) : Except PyErr H) = .ok s' ∧
      abs s' = (abs s).attackers.foldl (fun st t => MS.updT st t (MS.dropEntry a)) (abs s) := by
  obtain ⟨s', h, e⟩ := raLoop2_tie hE a s.attackers s
  refine ⟨s', ?_, e⟩
  rw [← h]
  apply forIn_eq_loopE
  intro t s0
  unfold raB2
  cases hg : attachment_get_entry_point_tuple s0 env t a with
  | none => rfl
  | some r =>
    dsimp only
    cases pyRemoveBy (eqEp env s0) (s0.t t).entry_points r <;> rfl

/-! ### the loop over `list(asset.associations)` -/

theorem raB1_tie {env : ModelEnv} (hE : EqId env) (hR : RafaTie env) (a : ARef) (s : H) (hI : MS.Inv (abs s))
    (l : LRef) : absR (raB1 env a s l) = MS.raStep a (abs s) l := by
  unfold raB1 MS.raStep
  rw [pyIn_assoc hE]
  show absR (if (s.a a).associations.contains l = true then _ else _) =
    if (s.a a).associations.contains l = true then _ else _
  by_cases h : (s.a a).associations.contains l = true
  · rw [if_pos h, if_pos h]; exact hR s hI a l
  · rw [if_neg h, if_neg h]; rfl

theorem absR_ok_inv {r : Except PyErr H} {st : MS.St} (h : absR r = .ok st) : ∃ s', r = .ok s' ∧ abs s' = st := by
  cases r with
  | error e => cases h
  | ok s' => exact ⟨s', rfl, by simpa using h⟩

theorem raLoop1_tie {env : ModelEnv} (hE : EqId env) (hR : RafaTie env) (a : ARef) (xs : List LRef) :
    ∀ s : H, MS.Inv (abs s) → a ∈ s.assets →
      absR (loopE (raB1 env a) xs s) = xs.foldlM (MS.raStep a) (abs s) := by
  induction xs with
  | nil => intro s _ _; rfl
  | cons x xs ih =>
    intro s hI ha
    obtain ⟨st', hs', hi', hf', _⟩ := MS.raStep_ok a (abs s) x hI ha
    have h1 := raB1_tie hE hR a s hI x
    rw [hs'] at h1
    obtain ⟨s', hb, he⟩ := absR_ok_inv h1
    rw [loopE_cons, hb, List.foldlM_cons, hs']
    subst he
    have ha' : a ∈ s'.assets := by
      have : s'.assets = s.assets := hf'.assets
      rw [this]; exact ha
    exact ih s' hi' ha'

/-! ### `Model.remove_asset` = `MS.removeAsset` -/

theorem foldl_dropEntry_assets (a : Nat) (ts : List Nat) (st : MS.St) :
    (ts.foldl (fun st t => MS.updT st t (MS.dropEntry a)) st).assets = st.assets := by
  rw [MS.foldl_updT]

theorem remove_asset_tie {env : ModelEnv} (hE : EqId env) (hR : RafaTie env) (s : H) (hI : MS.Inv (abs s))
    (a : ARef) : absR (model_remove_asset s env a) = MS.removeAsset (abs s) a := by
  rw [ra_eq, MS.removeAsset_eq, pyIn_asset hE]
  by_cases ha : a ∈ s.assets
  · have hc : s.assets.contains a = true := List.contains_iff_mem.2 ha
    rw [if_pos hc, if_pos (show a ∈ (abs s).assets from ha)]
    obtain ⟨st1, hs1, hi1, hf1, _⟩ := MS.raLoop_all a (abs s) hI ha
    have h1 := raLoop1_tie hE hR a (s.a a).associations s hI ha
    have hl : ((abs s).aobj a).assocs = (s.a a).associations := rfl
    rw [hl] at hs1 ⊢
    rw [hs1] at h1 ⊢
    obtain ⟨s1, hb1, he1⟩ := absR_ok_inv h1
    subst he1
    rw [hb1, ok_bind]
    obtain ⟨s2, hb2, e2⟩ := raLoop2_tie hE a s1.attackers s1
    rw [hb2, ok_bind]
    unfold raFin
    rw [pyRemoveBy_asset hE]
    have ha2 : s2.assets.contains a = true := by
      have h2 : s2.assets = s1.assets := by
        have := congrArg MS.St.assets e2
        rw [foldl_dropEntry_assets] at this
        exact this
      have h3 : s1.assets = s.assets := hf1.assets
      rw [h2, h3]; exact hc
    rw [if_pos ha2, ok_bind]
    show Except.ok (abs _) = Except.ok (MS.finishRemove (abs s1) a)
    congr 1
    unfold MS.finishRemove
    have e2' : List.foldl (fun st t => MS.updT st t (MS.dropEntry a)) (abs s1) (abs s1).attackers = abs s2 :=
      e2.symm
    dsimp only
    rw [e2']
    rfl
  · have hc : ¬ (s.assets.contains a = true) := fun h => ha (List.contains_iff_mem.1 h)
    rw [if_neg hc, if_neg (show ¬ a ∈ (abs s).assets from ha)]
    rfl

/-! ### (3) what `remove_asset` does to the attackers and the tuple objects -/

/-- tuple objects and counters untouched, the entry-point lists only shrink -/
structure RaShape (s s' : H) : Prop where
  e : s'.e = s.e
  efresh : s'.efresh = s.efresh
  attackers : s'.attackers = s.attackers
  afresh : s'.afresh = s.afresh
  lfresh : s'.lfresh = s.lfresh
  tfresh : s'.tfresh = s.tfresh
  ep_sub : ∀ t, (s'.t t).entry_points.Sublist (s.t t).entry_points

theorem RaShape.refl (s : H) : RaShape s s := ⟨rfl, rfl, rfl, rfl, rfl, rfl, fun _ => List.Sublist.refl _⟩
theorem RaShape.trans {s s' s'' : H} (h : RaShape s s') (h' : RaShape s' s'') : RaShape s s'' :=
  ⟨h'.e.trans h.e, h'.efresh.trans h.efresh, h'.attackers.trans h.attackers, h'.afresh.trans h.afresh,
   h'.lfresh.trans h.lfresh, h'.tfresh.trans h.tfresh, fun t => (h'.ep_sub t).trans (h.ep_sub t)⟩
theorem RaShape.of_tframe {s s' : H} (h : TFrame s s') : RaShape s s' :=
  ⟨h.e, h.efresh, h.attackers, h.afresh, h.lfresh, h.tfresh, fun t => by rw [h.t]; exact List.Sublist.refl _⟩

theorem loopE_rel {α σ : Type} (R : σ → σ → Prop) (hr : ∀ s, R s s)
    (ht : ∀ a b c, R a b → R b c → R a c) (f : σ → α → Except PyErr σ)
    (hf : ∀ s x s', f s x = .ok s' → R s s') :
    ∀ (l : List α) (s s' : σ), loopE f l s = .ok s' → R s s' := by
  intro l
  induction l with
  | nil => intro s s' h; cases h; exact hr s
  | cons x xs ih =>
    intro s s' h
    rw [loopE_cons] at h
    obtain ⟨s1, h1, h2⟩ := bind_ok h
    exact ht _ _ _ (hf s x s1 h1) (ih s1 s' h2)

theorem raB1_frame {env : ModelEnv} (hF : RafaFrame env) (a : ARef) (s : H) (l : LRef) (s' : H)
    (h : raB1 env a s l = .ok s') : TFrame s s' := by
  unfold raB1 at h
  split at h
  · exact hF s s' a l h
  · cases h; exact TFrame.refl s

theorem raB2_shape (env : ModelEnv) (a : ARef) (s : H) (t : TRef) (s' : H)
    (h : raB2 env a s t = .ok s') : RaShape s s' := by
  unfold raB2 at h
  cases hg : attachment_get_entry_point_tuple s env t a with
  | none => rw [hg] at h; cases h; exact RaShape.refl s
  | some r =>
    rw [hg] at h
    dsimp only at h
    obtain ⟨l, hl, h2⟩ := bind_ok h
    cases h2
    unfold pyRemoveBy at hl
    split at hl
    · cases hl
      refine ⟨rfl, rfl, rfl, rfl, rfl, rfl, ?_⟩
      intro u
      show (if u = t then _ else s.t u).entry_points.Sublist _
      by_cases hu : u = t
      · subst hu; rw [if_pos rfl]; exact List.eraseP_sublist
      · rw [if_neg hu]; exact List.Sublist.refl _
    · cases hl

theorem raFin_shape (env : ModelEnv) (a : ARef) (s s' : H) (h : raFin env a s = .ok s') : RaShape s s' := by
  unfold raFin at h
  obtain ⟨l, _, h2⟩ := bind_ok h
  cases h2
  exact ⟨rfl, rfl, rfl, rfl, rfl, rfl, fun _ => List.Sublist.refl _⟩

theorem remove_asset_raShape {env : ModelEnv} (hF : RafaFrame env) (s s' : H) (a : ARef)
    (h : model_remove_asset s env a = .ok s') : RaShape s s' := by
  rw [ra_eq] at h
  split at h
  · obtain ⟨s1, h1, h⟩ := bind_ok h
    obtain ⟨s2, h2, h3⟩ := bind_ok h
    have f1 : TFrame s s1 :=
      loopE_rel TFrame TFrame.refl (fun _ _ _ => TFrame.trans) (raB1 env a) (raB1_frame hF a) _ s s1 h1
    have f2 : RaShape s1 s2 :=
      loopE_rel RaShape RaShape.refl (fun _ _ _ => RaShape.trans) (raB2 env a) (raB2_shape env a) _ s1 s2 h2
    exact ((RaShape.of_tframe f1).trans f2).trans (raFin_shape env a s2 s' h3)
  · cases h

theorem remove_asset_shape {env : ModelEnv} (hF : RafaFrame env) (s s' : H) (a : ARef)
    (h : model_remove_asset s env a = .ok s') :
    s'.e = s.e ∧ s'.efresh = s.efresh ∧ s'.attackers = s.attackers ∧ s'.afresh = s.afresh ∧ s'.lfresh = s.lfresh ∧
    s'.tfresh = s.tfresh ∧ (∀ t, (s'.t t).entry_points.Sublist (s.t t).entry_points) :=
  have r := remove_asset_raShape hF s s' a h
  ⟨r.e, r.efresh, r.attackers, r.afresh, r.lfresh, r.tfresh, r.ep_sub⟩

theorem remove_asset_epOK {env : ModelEnv} (hF : RafaFrame env) (s s' : H) (a : ARef)
    (h : model_remove_asset s env a = .ok s') (hO : EpOK s) : EpOK s' := by
  have r := remove_asset_raShape hF s s' a h
  refine ⟨?_, ?_⟩
  · intro t ht x hx
    rw [r.attackers] at ht
    rw [r.efresh]
    exact hO.fresh t ht x ((r.ep_sub t).mem hx)
  · intro t ht u hu htu x hx hxu
    rw [r.attackers] at ht hu
    exact hO.disjoint t ht u hu htu x ((r.ep_sub t).mem hx) ((r.ep_sub u).mem hxu)

end MalVerif.PyM.Tie
