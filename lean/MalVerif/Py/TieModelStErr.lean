import MalVerif.Py.StLib
import MalVerif.Py.GenModelSt.Coh
/-
Where the exceptions of the state-keeping instance-model mutators (`MalVerif/Py/GenModelSt`) come from.  This file
depends on the generated code only (not on the first-mode ties): for each mutator `f`, `ErrIn Q (f_st s …)` with
`Q (e, s') := s' = s ∨ <the guards in front of the first write passed>`, proved by walking the `do` block
(`st_err`): every `raise` is either one of those guards, raised while the heap is still `s` (discharged by `rfl`),
or comes after them (the guard conditions are then among the path conditions).  A `raise` that is moved behind a
write, or a write moved in front of a guard, breaks these proofs.
Also here: the code before fix 4598cf1 hand-written in the same style.
-/
namespace MalVerif.PyM.TieSt
open MalVerif.PyM MalVerif.PyM.Gen MalVerif.PyM.GenSt MalVerif.PySt

/-- the three guards of `add_asset` in front of its first write, as the generated code tests them -/
def AddAssetGuardsPass (s : H) (a : ARef) (id : Option Int) (dup : Bool) : Prop :=
  ¬ ((s.assets.map (fun existing => (existing == a))).any _root_.id) = true ∧
  ¬ ((s.asset_ids).contains (match id with | some v => v | none => s.next_id)) = true ∧
  ¬ (((s.a a).name).isSome && ((s.asset_names).contains (attrStr (s.a a).name)) && !(dup)) = true

theorem add_asset_st_errIn (s : H) (env : ModelEnv) (a : ARef) (id : Option Int) (dup : Bool) :
    ErrIn (fun p => p.2 = s ∨ AddAssetGuardsPass s a id dup) (model_add_asset_st s env a id dup) := by
  unfold model_add_asset_st
  st_err []
  all_goals exact ⟨Or.inr ⟨by assumption, by assumption, by assumption⟩⟩

theorem remove_attacker_st_errIn (s : H) (env : ModelEnv) (t : TRef) :
    ErrIn (fun p => p.2 = s) (model_remove_attacker_st s env t) := by
  unfold model_remove_attacker_st
  st_err []
  all_goals exact ⟨rfl⟩

theorem add_association_st_errIn (s : H) (env : ModelEnv) (l : LRef) :
    ErrIn (fun p => p.2 = s ∨ model__validate_association s env l = .ok ()) (model_add_association_st s env l) := by
  unfold model_add_association_st
  st_err []
  all_goals
    first
    | exact ⟨Or.inl rfl⟩
    | (refine ⟨Or.inr ?_⟩
       exact liftE_ok_iff.1 ‹liftE s (model__validate_association s env l) = Except.ok _›)

/-! ### the removals: the guard in front of the first write passed, or the heap is unchanged -/

theorem remove_association_st_errIn (s : H) (env : ModelEnv) (l : LRef) :
    ErrIn (fun p => p.2 = s ∨ ¬ (!(pyIn (eqAssoc env s) s.associations l)) = true)
      (model_remove_association_st s env l) := by
  unfold model_remove_association_st
  st_err []
  all_goals first | exact ⟨Or.inr (by assumption)⟩ | exact ⟨fun _ _ => ⟨Or.inr (by assumption)⟩⟩

theorem remove_asset_st_errIn (s : H) (env : ModelEnv) (a : ARef) :
    ErrIn (fun p => p.2 = s ∨ ¬ (!(pyIn (eqAsset env s) s.assets a)) = true) (model_remove_asset_st s env a) := by
  unfold model_remove_asset_st
  st_err []
  all_goals first | exact ⟨Or.inr (by assumption)⟩ | exact ⟨fun _ _ => ⟨Or.inr (by assumption)⟩⟩ |
    exact ⟨fun _ _ => Or.inr (by assumption)⟩

theorem remove_asset_from_association_st_errIn (s : H) (env : ModelEnv) (a : ARef) (l : LRef) :
    ErrIn (fun p => p.2 = s ∨ (¬ (!(pyIn (eqAsset env s) s.assets a)) = true ∧
        ¬ (!(pyIn (eqAssoc env s) s.associations l)) = true))
      (model_remove_asset_from_association_st s env a l) := by
  unfold model_remove_asset_from_association_st
  st_err []
  all_goals first | exact ⟨Or.inr ⟨by assumption, by assumption⟩⟩ |
    exact ⟨fun _ _ => ⟨Or.inr ⟨by assumption, by assumption⟩⟩⟩ | exact ⟨fun _ _ => Or.inr ⟨by assumption, by assumption⟩⟩

/-! ### the code before fix 4598cf1, in the state-keeping style

Obtained by running `translators/py2lean_stmodel.py` on `model.py` as of the parent commit of 4598cf1 (the function
body below is that output, only renamed): `asset.id` is assigned before the id and the name are checked (and there
is no membership guard yet, 4598297). -/

def model_add_asset_prefix_st (s : H) (env : ModelEnv) (asset : ARef) (asset_id : (Option Int)) (allow_duplicate_names : Bool) : StM PyErr H H := do
  let mut s := s
  s := s.setA asset { s.a asset with id := (some (match asset_id with | some v => v | none => s.next_id)) }
  if ((s.asset_ids).contains (attrInt (s.a asset).id)) then
    throw (PyErr.valueError, s)
  if (((s.a asset).name).isSome && ((s.asset_names).contains (attrStr (s.a asset).name)) && !(allow_duplicate_names)) then
    throw (PyErr.valueError, s)
  s := { s with asset_ids := pySetAdd s.asset_ids (attrInt (s.a asset).id) }
  s := { s with next_id := (max ((attrInt (s.a asset).id) + (1 : Int)) s.next_id) }
  if !(((s.a asset).name).isSome) then
    s := s.setA asset { s.a asset with name := (some (((s.a asset).type ++ ":") ++ (toString (attrInt (s.a asset).id)))) }
    for _ in List.range env.whileFuel do
      if !(((s.asset_names).contains (attrStr (s.a asset).name))) then
        break
      s := s.setA asset { s.a asset with name := (some (((attrStr (s.a asset).name) ++ ":") ++ (toString (attrInt (s.a asset).id)))) }
    if ((s.asset_names).contains (attrStr (s.a asset).name)) then
      throw (PyErr.nonTermination, s)
  else
    if ((s.asset_names).contains (attrStr (s.a asset).name)) then
      if allow_duplicate_names then
        s := s.setA asset { s.a asset with name := (some (((attrStr (s.a asset).name) ++ ":") ++ (toString (attrInt (s.a asset).id)))) }
        for _ in List.range env.whileFuel do
          if !(((s.asset_names).contains (attrStr (s.a asset).name))) then
            break
          s := s.setA asset { s.a asset with name := (some (((attrStr (s.a asset).name) ++ ":") ++ (toString (attrInt (s.a asset).id)))) }
        if ((s.asset_names).contains (attrStr (s.a asset).name)) then
          throw (PyErr.nonTermination, s)
      else
        throw (PyErr.valueError, s)
  s := { s with asset_names := pySetAdd s.asset_names (attrStr (s.a asset).name) }
  s := s.setA asset { s.a asset with associations := [] }
  if !(((s.a asset).extras).isSome) then
    s := s.setA asset { s.a asset with extras := (some "{}") }
  s := { s with assets := (s.assets ++ [asset]) }
  return s

/-- a model with one asset (object 0: id 0, name "a", type "T"); `next_id = 1` -/
def demoModel : H :=
  { a := fun r => if r = 0 then { id := some 0, name := some "a", type := "T", extras := some "{}" } else {},
    afresh := 1, assets := [0], asset_ids := [0], asset_names := ["a"], next_id := 1 }

end MalVerif.PyM.TieSt
