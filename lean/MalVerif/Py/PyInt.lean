import MalVerif.Model.Serial
/-!
# `int(text)` — which texts CPython's `int` may read although `String.toInt?` does not

Shared by the preludes that translate `int(key)` on a dictionary key / document value (`PreludeLegacy.jInt`,
`PreludeMSerial.keyInt`, `PreludeAgSerial.keyInt` / `atomToInt`).  `String.toInt?` reads ASCII digits with single
underscores between them and an optional `-`, exactly as Python does; CPython's `int` ALSO strips white space on both
sides, accepts a leading `+` and any Unicode decimal digit (`int(" 1")`, `int("+1")`, `int("1\n")`, `int("٥")` succeed).
The translations answer **not modelled** on such a text (never `ValueError`): the hand-written models
(`Ser.Key.toInt?`) do not read it either, so nothing is claimed about it.
-/
namespace MalVerif
open MalVerif.Ser (Key)

/-- Python white space (`str.isspace`), which `int(text)` strips on both sides -/
def pyIsSpace (c : Char) : Bool :=
  let v := c.val
  (9 ≤ v && v ≤ 13) || (28 ≤ v && v ≤ 32) || v == 0x85 || v == 0xa0 || v == 0x1680 || (0x2000 ≤ v && v ≤ 0x200a) ||
  v == 0x2028 || v == 0x2029 || v == 0x202f || v == 0x205f || v == 0x3000

/-- a text that CPython's `int` MAY accept: after stripping white space on both sides and one sign (`+` / `-`), a
non-empty run of decimal digits — ASCII, or any character above 127 (a coarse stand-in for the Unicode class Nd) —
and underscores.  (Conservative: `1__0` is in the class although `int` refuses it; plain garbage such as `abc`,
`5.0`, `0x10`, `--5`, the empty text is not.) -/
def pyIntLenient (t : String) : Bool :=
  let cs := ((t.toList.dropWhile pyIsSpace).reverse.dropWhile pyIsSpace).reverse
  let cs := match cs with | '+' :: r => r | '-' :: r => r | r => r
  !cs.isEmpty && cs.all (fun c => c.isDigit || c == '_' || c.val > 127)

namespace PyInt

/-- a key on which the translated `int(key)` agrees with CPython: an `int`, a text `String.toInt?` reads, or a text
outside the lenient class (CPython raises `ValueError` too).  Decidable.  (Same predicate as `PyLeg.keyPlain`.) -/
def keyPlain : Key → Bool
  | .i _ => true
  | .s t => t.toInt?.isSome || !pyIntLenient t

example : keyPlain (Key.i (-3)) = true := rfl
-- (the kernel does not evaluate `String.toInt?`; on texts: `#eval keyPlain (.s "12")`, `(.s "abc")` = true, `(.s " 1")`, `(.s "+1")` = false)

theorem keyPlain_of_toInt {k : Key} {i : Int} (h : k.toInt? = some i) : keyPlain k = true := by
  cases k with
  | i n => rfl
  | s t => simp only [Key.toInt?] at h; simp [keyPlain, h]

end PyInt
end MalVerif
