import MalVerif.Py.StLib
import MalVerif.Py.GenModelSt.Coh
import MalVerif.Py.TieModelRemove
/-
What state do `Model.remove_association`, `Model.remove_asset_from_association`, `Model.remove_asset` leave when they
raise?  They raise HALF-WAY by design on inconsistent input (an association listed by an asset but not by the model, a
`_type_to_association` group without the association, ...).  The theorems are about the state-keeping emission
(`MalVerif/Py/GenModelSt`): `ErrIn Q (f_st ...)` — every exception of `f`, together with the heap at the moment it
propagates, satisfies `Q`.  No hypothesis on the heap or on the equality parameters of `env` is needed.

* `remove_association_st_partial_state` (strong form `remove_association_st_sp` / `RmPartial`)
* `remove_asset_from_association_st_partial_state` (strong form `remove_asset_from_association_st_sp` / `RafaPartial`)
* `remove_asset_st_partial_state` (strong form `remove_asset_st_sp` / `RaPartial`), `remove_asset_st_error_still_listed`
* two closed examples: a half-way state is reachable.

Method: a two-sided calculus `Sp Q R x` (exceptions satisfy `Q`, results satisfy `R`) over the pieces of the generated
functions; the decomposition into pieces is checked by `rfl` (`rm_st_eq`, `rafa_st_eq`, `ra_st_eq`).
-/
namespace MalVerif.PyM.TieSt
open MalVerif.PyM MalVerif.PyM.Gen MalVerif.PyM.GenSt MalVerif.PySt

/-! ### a two-sided specification calculus for `StM` -/

section Calculus
variable {ε σ α β γ : Type}

/-- every exception of `x` (with its heap) satisfies `Q`, every result satisfies `R` -/
structure Sp (Q : ε × σ → Prop) (R : α → Prop) (x : StM ε σ α) : Prop where
  err : ∀ p, x = .error p → Q p
  ok : ∀ a, x = .ok a → R a

theorem Sp.errIn {Q : ε × σ → Prop} {R : α → Prop} {x : StM ε σ α} (h : Sp Q R x) : ErrIn Q x := ⟨h.err⟩

theorem Sp.pure {Q : ε × σ → Prop} {R : α → Prop} {a : α} (h : R a) : Sp Q R (Pure.pure a : StM ε σ α) := by
  refine ⟨fun p hp => (by cases hp), fun b hb => ?_⟩
  have : b = a := by cases hb; rfl
  subst this; exact h

theorem Sp.throw {Q : ε × σ → Prop} {R : α → Prop} {p : ε × σ} (h : Q p) : Sp Q R (throw p : StM ε σ α) := by
  refine ⟨fun p' hp => ?_, fun b hb => (by cases hb)⟩
  have : p' = p := by cases hp; rfl
  subst this; exact h

theorem Sp.liftE {Q : ε × σ → Prop} {R : α → Prop} {s : σ} {x : Except ε α}
    (he : ∀ e, x = .error e → Q (e, s)) (ho : ∀ a, x = .ok a → R a) : Sp Q R (liftE s x) := by
  refine ⟨fun p hp => ?_, fun a ha => ho a (liftE_ok_iff.1 ha)⟩
  obtain ⟨e, s'⟩ := p
  obtain ⟨h1, h2⟩ := liftE_error_iff.1 hp
  subst h2; exact he e h1

theorem Sp.bind {Q : ε × σ → Prop} {R' : α → Prop} {R : β → Prop} {x : StM ε σ α} {f : α → StM ε σ β}
    (h1 : Sp Q R' x) (h2 : ∀ a, x = .ok a → R' a → Sp Q R (f a)) : Sp Q R (x >>= f) := by
  refine ⟨fun p hp => ?_, fun b hb => ?_⟩
  · rcases bind_error_iff.1 hp with h | ⟨a, ha, hf⟩
    · exact h1.err p h
    · exact (h2 a ha (h1.ok a ha)).err p hf
  · obtain ⟨a, ha, hf⟩ := bind_ok_iff.1 hb
    exact (h2 a ha (h1.ok a ha)).ok b hf

theorem Sp.ite {Q : ε × σ → Prop} {R : α → Prop} {c : Prop} [Decidable c] {x y : StM ε σ α}
    (h1 : c → Sp Q R x) (h2 : ¬ c → Sp Q R y) : Sp Q R (if c then x else y) := by
  split
  · exact h1 ‹_›
  · exact h2 ‹_›

theorem Sp.mono {Q Q' : ε × σ → Prop} {R R' : α → Prop} {x : StM ε σ α} (h : Sp Q R x)
    (hq : ∀ p, Q p → Q' p) (hr : ∀ a, R a → R' a) : Sp Q' R' x :=
  ⟨fun p hp => hq p (h.err p hp), fun a ha => hr a (h.ok a ha)⟩

/-- what one iteration of a `for` loop must establish: `P` of the loop state when it continues, `D` of the state a
`break` / `return` leaves -/
def stepPost (P D : β → Prop) : ForInStep β → Prop
  | .yield b => P b
  | .done b => D b

/-- a `for` loop: `P` holds of the loop state at the start of every iteration, `D` of the state a `break` /
`return` leaves -/
theorem Sp.forIn {Q : ε × σ → Prop} {l : List γ} {f : γ → β → StM ε σ (ForInStep β)} (P D : β → Prop)
    (hstep : ∀ a ∈ l, ∀ b, P b → Sp Q (stepPost P D) (f a b)) :
    ∀ init, P init → Sp Q (fun b => P b ∨ D b) (forIn l init f) := by
  induction l with
  | nil =>
    intro init hi
    exact Sp.pure (Or.inl hi)
  | cons a l ih =>
    intro init hi
    simp only [List.forIn_cons]
    refine Sp.bind (hstep a (List.mem_cons_self ..) init hi) (fun r _ hr => ?_)
    cases r with
    | done b => exact Sp.pure (Or.inr hr)
    | yield b => exact ih (fun a' ha' => hstep a' (List.mem_cons_of_mem _ ha')) b hr

end Calculus

/-! ### frames -/

/-- the model's own bookkeeping of assets, the attackers and the tuple objects are untouched -/
structure Fr (s s' : H) : Prop where
  assets : s'.assets = s.assets
  attackers : s'.attackers = s.attackers
  asset_ids : s'.asset_ids = s.asset_ids
  asset_names : s'.asset_names = s.asset_names
  next_id : s'.next_id = s.next_id
  t : s'.t = s.t
  e : s'.e = s.e

theorem Fr.refl (s : H) : Fr s s := ⟨rfl, rfl, rfl, rfl, rfl, rfl, rfl⟩
theorem Fr.trans {s s' s'' : H} (h : Fr s s') (h' : Fr s' s'') : Fr s s'' :=
  ⟨h'.assets.trans h.assets, h'.attackers.trans h.attackers, h'.asset_ids.trans h.asset_ids,
   h'.asset_names.trans h.asset_names, h'.next_id.trans h.next_id, h'.t.trans h.t, h'.e.trans h.e⟩
theorem Fr.setA (s : H) (r : ARef) (o : PyAsset) : Fr s (s.setA r o) := ⟨rfl, rfl, rfl, rfl, rfl, rfl, rfl⟩
theorem Fr.setL (s : H) (r : LRef) (o : PyAssoc) : Fr s (s.setL r o) := ⟨rfl, rfl, rfl, rfl, rfl, rfl, rfl⟩
theorem Fr.wr (s : H) (f : FieldLoc) (v : List ARef) : Fr s (s.wr f v) := by
  unfold H.wr; split <;> exact Fr.setL _ _ _

/-! ### the pieces of the generated `model_remove_association_st` -/

def rmStepY (env : ModelEnv) (l : LRef) (a : ARef) (p : H × List LRef) : StM PyErr H (ForInStep (H × List LRef)) :=
  liftE p.1 (pyRemoveBy (eqAssoc env p.1) (p.1.a a).associations l) >>= fun v =>
    pure (ForInStep.yield (p.1.setA a { p.1.a a with associations := v }, v))

def rmStepG (env : ModelEnv) (l : LRef) (a : ARef) (p : H × List LRef) : StM PyErr H (ForInStep (H × List LRef)) :=
  if pyIn (eqAssoc env p.1) (p.1.a a).associations l = true then rmStepY env l a p else pure (ForInStep.yield p)

/-- the heap after `self.associations.remove(association)` -/
def rmW (v : H) (v2 : List LRef) : H := { v with associations := v2 }
/-- the heap after the assignment to the type group -/
def rmW2 (v : H) (v2 : List LRef) (d : List (String × List LRef)) : H :=
  { v with associations := v2, _type_to_association := d }

def rmTail (env : ModelEnv) (l : LRef) (v : H) : StM PyErr H H :=
  liftE v (pyRemoveBy (eqAssoc env v) v.associations l) >>= fun v2 =>
  liftE (rmW v v2) (dictGetE v._type_to_association (v.l l).cls) >>= fun v3 =>
  liftE (rmW v v2) (pyRemoveBy (eqAssoc env (rmW v v2)) v3 l) >>= fun v4 =>
  liftE (rmW2 v v2 (dictSet v._type_to_association (v.l l).cls v4))
      (dictGetE (dictSet v._type_to_association (v.l l).cls v4) (v.l l).cls) >>= fun v5 =>
  if ((v5.length : Int) == (0 : Int)) = true then
    liftE (rmW2 v v2 (dictSet v._type_to_association (v.l l).cls v4))
        (dictDel (dictSet v._type_to_association (v.l l).cls v4) (v.l l).cls) >>= fun v6 =>
      pure (rmW2 v v2 v6)
  else pure (rmW2 v v2 (dictSet v._type_to_association (v.l l).cls v4))

def rmMain (env : ModelEnv) (l : LRef) (s : H) : StM PyErr H H :=
  liftE s (pyGetattr s l (model_get_association_field_names s env l).1) >>= fun lf =>
  liftE s (pyGetattr s l (model_get_association_field_names s env l).2) >>= fun rf =>
  forIn (s.rd lf) (s, ([] : List LRef)) (rmStepY env l) >>= fun p =>
  forIn (p.1.rd rf) (p.1, p.2) (rmStepG env l) >>= fun q =>
  rmTail env l q.1

theorem rm_st_eq (s : H) (env : ModelEnv) (l : LRef) :
    model_remove_association_st s env l =
      if (!pyIn (eqAssoc env s) s.associations l) = true then throw (PyErr.lookupError, s) else rmMain env l s := by
  unfold model_remove_association_st
  rfl

/-! ### small facts about the helpers -/

theorem pyRemoveBy_error {α : Type} {eq : α → α → Bool} {l : List α} {x : α} {e : PyErr}
    (h : pyRemoveBy eq l x = .error e) : e = .valueError ∧ pyIn eq l x = false := by
  unfold pyRemoveBy at h
  split at h
  · cases h
  · rename_i hn
    cases h
    exact ⟨rfl, by simpa using hn⟩

theorem pyRemoveBy_ok {α : Type} {eq : α → α → Bool} {l v : List α} {x : α}
    (h : pyRemoveBy eq l x = .ok v) : v = l.eraseP (fun y => eq y x) ∧ pyIn eq l x = true := by
  unfold pyRemoveBy at h
  split at h
  · rename_i hp
    cases h
    exact ⟨rfl, hp⟩
  · cases h

theorem pyRemoveBy_of_in {α : Type} {eq : α → α → Bool} {l : List α} {x : α} (h : pyIn eq l x = true) :
    pyRemoveBy eq l x = .ok (l.eraseP (fun y => eq y x)) := by
  unfold pyRemoveBy
  rw [if_pos h]

theorem dictGetE_error {κ ν : Type} [BEq κ] {d : List (κ × ν)} {k : κ} {e : PyErr}
    (h : dictGetE d k = .error e) : e = .keyError := by
  unfold dictGetE at h
  split at h
  · cases h
  · cases h; rfl

theorem dictSet_any {κ ν : Type} [BEq κ] [LawfulBEq κ] (d : List (κ × ν)) (k : κ) (v : ν) :
    (dictSet d k v).any (fun e => e.1 == k) = true := by
  unfold dictSet
  split
  · rename_i h
    rw [List.any_eq_true] at h ⊢
    obtain ⟨x, hx, hk⟩ := h
    refine ⟨(k, v), List.mem_map.2 ⟨x, hx, by rw [if_pos hk]⟩, beq_self_eq_true _⟩
  · rw [List.any_append]
    simp

theorem dictGetE_dictSet_ne {κ ν : Type} [BEq κ] [LawfulBEq κ] (d : List (κ × ν)) (k : κ) (v : ν) (e : PyErr) :
    dictGetE (dictSet d k v) k ≠ .error e := by
  intro h
  have ha := dictSet_any d k v
  rw [List.any_eq_true] at ha
  obtain ⟨x, hx, hk⟩ := ha
  unfold dictGetE dictGet at h
  cases hf : (dictSet d k v).find? (fun e => e.1 == k) with
  | none =>
    rw [List.find?_eq_none] at hf
    exact hf x hx hk
  | some y => rw [hf] at h; cases h

theorem dictDel_dictSet_ne {κ ν : Type} [BEq κ] [LawfulBEq κ] (d : List (κ × ν)) (k : κ) (v : ν) (e : PyErr) :
    dictDel (dictSet d k v) k ≠ .error e := by
  intro h
  unfold dictDel at h
  rw [if_pos (dictSet_any d k v)] at h
  cases h

/-! ### (1) `remove_association`: the states it leaves -/

/-- `s'` is `s` up to the asset objects -/
def OnlyA (s s' : H) : Prop := ∃ f, s' = { s with a := f }

theorem OnlyA.refl (s : H) : OnlyA s s := ⟨s.a, rfl⟩
theorem OnlyA.trans {s s' s'' : H} (h : OnlyA s s') (h' : OnlyA s' s'') : OnlyA s s'' := by
  obtain ⟨f, rfl⟩ := h
  obtain ⟨g, rfl⟩ := h'
  exact ⟨g, rfl⟩
theorem OnlyA.setA (s : H) (r : ARef) (o : PyAsset) : OnlyA s (s.setA r o) := ⟨_, rfl⟩
theorem OnlyA.fr {s s' : H} (h : OnlyA s s') : Fr s s' := by
  obtain ⟨f, rfl⟩ := h
  exact ⟨rfl, rfl, rfl, rfl, rfl, rfl, rfl⟩

/-- the exceptions of `remove_association` with the heap they leave (strong form):
* `LookupError` of the guard, nothing written;
* `ValueError` of `asset.associations.remove(association)` in the loop over the left field: only asset objects
  (the `associations` lists of the members handled so far) differ;
* `KeyError` of `self._type_to_association[type]` / `ValueError` of `.remove(association)` on that group: the asset
  objects differ, the association is gone from `self.associations`, `_type_to_association` still lists it. -/
def RmPartial (env : ModelEnv) (s : H) (l : LRef) (p : PyErr × H) : Prop :=
  (p.1 = .lookupError ∧ p.2 = s ∧ pyIn (eqAssoc env s) s.associations l = false) ∨
  (pyIn (eqAssoc env s) s.associations l = true ∧
    ((p.1 = .valueError ∧ ∃ f, p.2 = { s with a := f }) ∨
     ((p.1 = .keyError ∨ p.1 = .valueError) ∧
        ∃ f, p.2 = { s with a := f, associations := s.associations.eraseP (fun y => eqAssoc env s y l) })))

/-- what a successful `remove_association` leaves alone -/
def RmOk (s s' : H) : Prop := Fr s s' ∧ s'.l = s.l

theorem rmStepY_sp (env : ModelEnv) (l : LRef) (a : ARef) (p : H × List LRef) :
    Sp (fun q => q.1 = .valueError ∧ q.2 = p.1)
      (stepPost (fun b' => OnlyA p.1 b'.1) (fun _ => False)) (rmStepY env l a p) := by
  unfold rmStepY
  refine Sp.bind (R' := fun _ => True) (Sp.liftE ?_ (fun _ _ => trivial)) ?_
  · intro e he; exact ⟨(pyRemoveBy_error he).1, rfl⟩
  · intro v _ _
    exact Sp.pure (OnlyA.setA _ _ _)

theorem rmStepG_sp (env : ModelEnv) (l : LRef) (a : ARef) (p : H × List LRef) :
    Sp (fun _ => False)
      (stepPost (fun b' => OnlyA p.1 b'.1) (fun _ => False)) (rmStepG env l a p) := by
  unfold rmStepG
  refine Sp.ite (fun hc => ?_) (fun _ => Sp.pure (OnlyA.refl _))
  unfold rmStepY
  rw [pyRemoveBy_of_in hc]
  exact Sp.pure (OnlyA.setA _ _ _)

theorem rmTail_sp (env : ModelEnv) (s : H) (l : LRef) (v : H)
    (hin : pyIn (eqAssoc env s) s.associations l = true) (hv : OnlyA s v) :
    Sp (RmPartial env s l) (RmOk s) (rmTail env l v) := by
  obtain ⟨f, rfl⟩ := hv
  unfold rmTail
  refine Sp.bind (R' := fun v2 => v2 = s.associations.eraseP (fun y => eqAssoc env s y l)) (Sp.liftE ?_ ?_) ?_
  · intro e he
    exact Or.inr ⟨hin, Or.inl ⟨(pyRemoveBy_error he).1, f, rfl⟩⟩
  · intro v2 h2; exact (pyRemoveBy_ok h2).1
  intro v2 _ h2
  subst h2
  refine Sp.bind (R' := fun _ => True) (Sp.liftE ?_ (fun _ _ => trivial)) ?_
  · intro e he
    exact Or.inr ⟨hin, Or.inr ⟨Or.inl (dictGetE_error he), f, rfl⟩⟩
  intro v3 _ _
  refine Sp.bind (R' := fun _ => True) (Sp.liftE ?_ (fun _ _ => trivial)) ?_
  · intro e he
    exact Or.inr ⟨hin, Or.inr ⟨Or.inr (pyRemoveBy_error he).1, f, rfl⟩⟩
  intro v4 _ _
  refine Sp.bind (R' := fun _ => True) (Sp.liftE ?_ (fun _ _ => trivial)) ?_
  · intro e he
    exact absurd he (dictGetE_dictSet_ne _ _ _ _)
  intro v5 _ _
  refine Sp.ite (fun _ => ?_) (fun _ => ?_)
  · refine Sp.bind (R' := fun _ => True) (Sp.liftE ?_ (fun _ _ => trivial)) ?_
    · intro e he
      exact absurd he (dictDel_dictSet_ne _ _ _ _)
    · intro v6 _ _
      exact Sp.pure ⟨⟨rfl, rfl, rfl, rfl, rfl, rfl, rfl⟩, rfl⟩
  · exact Sp.pure ⟨⟨rfl, rfl, rfl, rfl, rfl, rfl, rfl⟩, rfl⟩

theorem rmMain_sp (env : ModelEnv) (s : H) (l : LRef) (hin : pyIn (eqAssoc env s) s.associations l = true) :
    Sp (RmPartial env s l) (RmOk s) (rmMain env l s) := by
  unfold rmMain
  rw [Tie.rm_field_names, Tie.rm_getattr_lf, Tie.rm_getattr_rf]
  show Sp _ _ (forIn (s.rd (l, false)) (s, ([] : List LRef)) (rmStepY env l) >>= _)
  refine Sp.bind (Sp.forIn (fun b => OnlyA s b.1) (fun _ => False) ?_ _ (OnlyA.refl s)) ?_
  · intro a _ b hb
    refine (rmStepY_sp env l a b).mono ?_ ?_
    · rintro ⟨e, s'⟩ ⟨h1, h2⟩
      obtain ⟨f, hf⟩ := hb
      exact Or.inr ⟨hin, Or.inl ⟨h1, f, h2.trans hf⟩⟩
    · intro r hr
      cases r with
      | yield b' => exact hb.trans hr
      | done b' => exact hr
  intro p _ hp
  have hp : OnlyA s p.1 := hp.elim id False.elim
  refine Sp.bind (Sp.forIn (fun b => OnlyA s b.1) (fun _ => False) ?_ _ hp) ?_
  · intro a _ b hb
    refine (rmStepG_sp env l a b).mono (fun _ h => h.elim) ?_
    intro r hr
    cases r with
    | yield b' => exact hb.trans hr
    | done b' => exact hr
  intro q _ hq
  exact rmTail_sp env s l q.1 hin (hq.elim id False.elim)

/-- strong form: every exception of `remove_association` and its heap; every result -/
theorem remove_association_st_sp (s : H) (env : ModelEnv) (l : LRef) :
    Sp (RmPartial env s l) (RmOk s) (model_remove_association_st s env l) := by
  rw [rm_st_eq]
  refine Sp.ite (fun hc => Sp.throw (Or.inl ⟨rfl, rfl, by simpa using hc⟩)) (fun hc => ?_)
  exact rmMain_sp env s l (by simpa using hc)

theorem RmPartial.fr {env : ModelEnv} {s : H} {l : LRef} {p : PyErr × H} (h : RmPartial env s l p) :
    Fr s p.2 ∧ p.2.l = s.l := by
  obtain ⟨e, s'⟩ := p
  rcases h with ⟨_, h, _⟩ | ⟨_, ⟨_, f, h⟩ | ⟨_, f, h⟩⟩
  · cases h; exact ⟨Fr.refl _, rfl⟩
  · cases h; exact ⟨⟨rfl, rfl, rfl, rfl, rfl, rfl, rfl⟩, rfl⟩
  · cases h; exact ⟨⟨rfl, rfl, rfl, rfl, rfl, rfl, rfl⟩, rfl⟩

theorem RmPartial.lookup {env : ModelEnv} {s : H} {l : LRef} {p : PyErr × H} (h : RmPartial env s l p)
    (he : p.1 = .lookupError) : p.2 = s := by
  rcases h with ⟨_, h, _⟩ | ⟨_, ⟨h, _⟩ | ⟨h | h, _⟩⟩
  · exact h
  · rw [he] at h; cases h
  · rw [he] at h; cases h
  · rw [he] at h; cases h

/-- **(1)** the state `remove_association` leaves when it raises: nothing written (the `LookupError` of the guard), or
the guard passed, the model's bookkeeping of assets, the attackers, the association and tuple objects are those of
`s`, and the model's two own fields are either both unchanged (the raise is in the loop over the left field), or the
association is gone from `self.associations` while `_type_to_association` still lists it (`KeyError` /
`ValueError` in the `_type_to_association` part).  `RmPartial` (above) is the strong form with the exceptions. -/
theorem remove_association_st_partial_state (s : H) (env : ModelEnv) (l : LRef) :
    ErrIn (fun p : PyErr × H => p.2 = s ∨
      (pyIn (eqAssoc env s) s.associations l = true ∧
        (p.2.assets = s.assets ∧ p.2.attackers = s.attackers ∧ p.2.asset_ids = s.asset_ids ∧
          p.2.asset_names = s.asset_names ∧ p.2.next_id = s.next_id ∧ p.2.l = s.l ∧ p.2.t = s.t ∧ p.2.e = s.e) ∧
        ((p.2.associations = s.associations ∧ p.2._type_to_association = s._type_to_association) ∨
         (p.2.associations = s.associations.eraseP (fun y => eqAssoc env s y l) ∧
           p.2._type_to_association = s._type_to_association))))
      (model_remove_association_st s env l) := by
  refine (remove_association_st_sp s env l).errIn.mono ?_
  rintro ⟨e, s'⟩ h
  have hf := h.fr
  rcases h with ⟨_, h, _⟩ | ⟨hin, h⟩
  · exact Or.inl h
  · refine Or.inr ⟨hin, ⟨hf.1.assets, hf.1.attackers, hf.1.asset_ids, hf.1.asset_names, hf.1.next_id, hf.2,
      hf.1.t, hf.1.e⟩, ?_⟩
    rcases h with ⟨_, f, h⟩ | ⟨_, f, h⟩
    · cases h; exact Or.inl ⟨rfl, rfl⟩
    · cases h; exact Or.inr ⟨rfl, rfl⟩

/-- the exception kinds: the half-way states of `remove_association` come with `ValueError` / `KeyError` only -/
theorem remove_association_st_lookupError (s : H) (env : ModelEnv) (l : LRef) :
    ErrIn (fun p : PyErr × H => p.1 = .lookupError → p.2 = s) (model_remove_association_st s env l) :=
  (remove_association_st_sp s env l).errIn.mono (fun _ h => h.lookup)

/-! ### the pieces of the generated `model_remove_asset_from_association_st` -/

def rafaStep1 (env : ModelEnv) (a : ARef) (l : LRef) (field : FieldLoc) (p : Option H × H) :
    StM PyErr H (ForInStep (Option H × H)) :=
  if (pyIn (eqAsset env p.2) (p.2.rd field) a && (((p.2.rd field).length : Int) == (1 : Int))) = true then
    model_remove_association_st p.2 env l >>= fun s' => pure (ForInStep.done (some s', s'))
  else pure (ForInStep.yield (none, p.2))

def rafaStep2 (env : ModelEnv) (a : ARef) (field : FieldLoc) (p : H × Bool) : StM PyErr H (ForInStep (H × Bool)) :=
  if pyIn (eqAsset env p.1) (p.1.rd field) a = true then
    liftE p.1 (pyRemoveBy (eqAsset env p.1) (p.1.rd field) a) >>= fun l_2 =>
      pure (ForInStep.yield (p.1.wr field l_2, true))
  else pure (ForInStep.yield (p.1, p.2))

def rafaFinish (env : ModelEnv) (a : ARef) (l : LRef) (lf rf : FieldLoc) (s : H) (found : Bool) : StM PyErr H H :=
  if (found && !pyIn (eqAsset env s) (s.rd lf) a && !pyIn (eqAsset env s) (s.rd rf) a) = true then
    (if (!found) = true then
      throw (PyErr.lookupError, s.setA a { s.a a with associations := pyRemoveAllBy (eqAssoc env s) (s.a a).associations l })
     else pure (s.setA a { s.a a with associations := pyRemoveAllBy (eqAssoc env s) (s.a a).associations l }))
  else (if (!found) = true then throw (PyErr.lookupError, s) else pure s)

def rafaRest (env : ModelEnv) (a : ARef) (l : LRef) (lf rf : FieldLoc) (p : Option H × H) : StM PyErr H H :=
  Break.runK.match_1 (fun _ => StM PyErr H H) p.1 (fun r => pure r) fun _ =>
    forIn [lf, rf] (p.2, false) (rafaStep2 env a) >>= fun q => rafaFinish env a l lf rf q.1 q.2

theorem rafaRest_some (env : ModelEnv) (a : ARef) (l : LRef) (lf rf : FieldLoc) (r s : H) :
    rafaRest env a l lf rf (some r, s) = pure r := rfl
theorem rafaRest_none (env : ModelEnv) (a : ARef) (l : LRef) (lf rf : FieldLoc) (s : H) :
    rafaRest env a l lf rf (none, s) =
      forIn [lf, rf] (s, false) (rafaStep2 env a) >>= fun q => rafaFinish env a l lf rf q.1 q.2 := rfl

def rafaMain (env : ModelEnv) (a : ARef) (l : LRef) (s : H) : StM PyErr H H :=
  liftE s (pyGetattr s l (model_get_association_field_names s env l).1) >>= fun lf =>
  liftE s (pyGetattr s l (model_get_association_field_names s env l).2) >>= fun rf =>
  forIn [lf, rf] ((none : Option H), s) (rafaStep1 env a l) >>= rafaRest env a l lf rf

theorem rafa_st_eq (s : H) (env : ModelEnv) (a : ARef) (l : LRef) :
    model_remove_asset_from_association_st s env a l =
      if (!pyIn (eqAsset env s) s.assets a) = true then throw (PyErr.lookupError, s) else
      if (!pyIn (eqAssoc env s) s.associations l) = true then throw (PyErr.lookupError, s) else rafaMain env a l s := by
  unfold model_remove_asset_from_association_st
  rfl

/-! ### (2) `remove_asset_from_association`: the states it leaves -/

/-- the exceptions of `remove_asset_from_association` with the heap they leave (strong form): a `LookupError` raised
while nothing has been written (the two guards, and the final `if not found`: `found` is false only when the second
loop wrote nothing), or the exception of the call `self.remove_association(association)` made on the heap `s` (the
loop that decides about this call writes nothing).  The second loop and the two `getattr` never raise. -/
def RafaPartial (env : ModelEnv) (s : H) (l : LRef) (p : PyErr × H) : Prop :=
  (p.1 = .lookupError ∧ p.2 = s) ∨ model_remove_association_st s env l = .error p

theorem rafaStep1_sp (env : ModelEnv) (a : ARef) (l : LRef) (field : FieldLoc) (s : H) :
    Sp (RafaPartial env s l)
      (stepPost (fun b' => b' = (none, s)) (fun b' => ∃ s', b' = (some s', s') ∧ RmOk s s'))
      (rafaStep1 env a l field (none, s)) := by
  unfold rafaStep1
  refine Sp.ite (fun _ => ?_) (fun _ => Sp.pure rfl)
  refine Sp.bind (R' := RmOk s) ⟨fun p hp => Or.inr hp, (remove_association_st_sp s env l).ok⟩ ?_
  intro s' _ hs'
  exact Sp.pure ⟨s', rfl, hs'⟩

theorem rafaStep2_sp (env : ModelEnv) (a : ARef) (field : FieldLoc) (s : H) (p : H × Bool)
    (hp : Fr s p.1 ∧ (p.2 = false → p.1 = s)) :
    Sp (fun _ => False)
      (stepPost (fun b' => Fr s b'.1 ∧ (b'.2 = false → b'.1 = s)) (fun _ => False)) (rafaStep2 env a field p) := by
  unfold rafaStep2
  refine Sp.ite (fun hc => ?_) (fun _ => Sp.pure hp)
  rw [pyRemoveBy_of_in hc]
  exact Sp.pure ⟨hp.1.trans (Fr.wr _ _ _), fun h => by cases h⟩

theorem rafaFinish_sp (env : ModelEnv) (a : ARef) (l : LRef) (lf rf : FieldLoc) (s v : H) (found : Bool)
    (hp : Fr s v ∧ (found = false → v = s)) :
    Sp (RafaPartial env s l) (Fr s) (rafaFinish env a l lf rf v found) := by
  unfold rafaFinish
  cases found with
  | false =>
    have hv := hp.2 rfl
    subst hv
    rw [if_neg (by simp), if_pos (by simp)]
    exact Sp.throw (Or.inl ⟨rfl, rfl⟩)
  | true =>
    refine Sp.ite (fun _ => ?_) (fun _ => ?_)
    · rw [if_neg (by simp)]
      exact Sp.pure (hp.1.trans (Fr.setA _ _ _))
    · rw [if_neg (by simp)]
      exact Sp.pure hp.1

theorem rafaMain_sp (env : ModelEnv) (a : ARef) (l : LRef) (s : H) :
    Sp (RafaPartial env s l) (Fr s) (rafaMain env a l s) := by
  unfold rafaMain
  rw [Tie.rm_field_names, Tie.rm_getattr_lf, Tie.rm_getattr_rf]
  show Sp _ _ (forIn [(l, false), (l, true)] ((none : Option H), s) (rafaStep1 env a l) >>= _)
  refine Sp.bind (Sp.forIn (fun b => b = (none, s)) (fun b => ∃ s', b = (some s', s') ∧ RmOk s s') ?_ _ rfl) ?_
  · intro field _ b hb
    subst hb
    exact rafaStep1_sp env a l field s
  intro p _ hp
  rcases hp with hp | ⟨s', hp, hs'⟩
  · subst hp
    rw [rafaRest_none]
    refine Sp.bind (Sp.forIn (fun b => Fr s b.1 ∧ (b.2 = false → b.1 = s)) (fun _ => False) ?_ _
      ⟨Fr.refl s, fun _ => rfl⟩) ?_
    · intro field _ b hb
      exact (rafaStep2_sp env a field s b hb).mono (fun _ h => h.elim) (fun _ h => h)
    · intro q _ hq
      exact rafaFinish_sp env a l _ _ s q.1 q.2 (hq.elim id False.elim)
  · subst hp
    rw [rafaRest_some]
    exact Sp.pure hs'.1

/-- strong form: every exception of `remove_asset_from_association` and its heap; every result -/
theorem remove_asset_from_association_st_sp (s : H) (env : ModelEnv) (a : ARef) (l : LRef) :
    Sp (RafaPartial env s l) (Fr s) (model_remove_asset_from_association_st s env a l) := by
  rw [rafa_st_eq]
  refine Sp.ite (fun _ => Sp.throw (Or.inl ⟨rfl, rfl⟩)) (fun _ => ?_)
  refine Sp.ite (fun _ => Sp.throw (Or.inl ⟨rfl, rfl⟩)) (fun _ => ?_)
  exact rafaMain_sp env a l s

theorem RafaPartial.fr {env : ModelEnv} {s : H} {l : LRef} {p : PyErr × H} (h : RafaPartial env s l p) :
    Fr s p.2 := by
  rcases h with ⟨_, h⟩ | h
  · rw [h]; exact Fr.refl s
  · exact ((remove_association_st_sp s env l).err p h).fr.1

theorem RafaPartial.lookup {env : ModelEnv} {s : H} {l : LRef} {p : PyErr × H} (h : RafaPartial env s l p)
    (he : p.1 = .lookupError) : p.2 = s := by
  rcases h with ⟨_, h⟩ | h
  · exact h
  · exact ((remove_association_st_sp s env l).err p h).lookup he

/-- **(2)** the state `remove_asset_from_association` leaves when it raises: the model's bookkeeping of assets, the
attackers and the tuple objects are those of `s`; a `LookupError` (either guard, the guard of the called
`remove_association`, the final `if not found`) is raised with nothing written; every other exception is the
exception of `remove_association` on `s`, with the state described by `remove_association_st_partial_state`. -/
theorem remove_asset_from_association_st_partial_state (s : H) (env : ModelEnv) (a : ARef) (l : LRef) :
    ErrIn (fun p : PyErr × H =>
      (p.2.assets = s.assets ∧ p.2.attackers = s.attackers ∧ p.2.asset_ids = s.asset_ids ∧
        p.2.asset_names = s.asset_names ∧ p.2.next_id = s.next_id ∧ p.2.t = s.t ∧ p.2.e = s.e) ∧
      (p.1 = .lookupError → p.2 = s) ∧
      (p.2 = s ∨ model_remove_association_st s env l = .error p))
      (model_remove_asset_from_association_st s env a l) := by
  refine (remove_asset_from_association_st_sp s env a l).errIn.mono ?_
  intro p h
  have hf := h.fr
  refine ⟨⟨hf.assets, hf.attackers, hf.asset_ids, hf.asset_names, hf.next_id, hf.t, hf.e⟩, h.lookup, ?_⟩
  rcases h with ⟨_, h⟩ | h
  · exact Or.inl h
  · exact Or.inr h

/-! ### the pieces of the generated `model_remove_asset_st` -/

def raB1 (env : ModelEnv) (a : ARef) (l : LRef) (s : H) : StM PyErr H (ForInStep H) :=
  if pyIn (eqAssoc env s) (s.a a).associations l = true then
    model_remove_asset_from_association_st s env a l >>= fun s' => pure (ForInStep.yield s')
  else pure (ForInStep.yield s)

def raB2 (env : ModelEnv) (a : ARef) (t : TRef) (s : H) : StM PyErr H (ForInStep H) :=
  match attachment_get_entry_point_tuple s env t a with
  | some v_1 =>
    liftE s (pyRemoveBy (eqEp env s) (s.t t).entry_points v_1) >>= fun l_2 =>
      pure (ForInStep.yield (s.setT t { s.t t with entry_points := l_2 }))
  | none => pure (ForInStep.yield s)

/-- the three removals at the end of `remove_asset` -/
def raDone (s : H) (a : ARef) (l_3 : List ARef) : H :=
  { s with assets := l_3, asset_ids := pySetDiscard s.asset_ids (attrInt (s.a a).id),
           asset_names := pySetDiscard s.asset_names (attrStr (s.a a).name) }

def raFin (env : ModelEnv) (a : ARef) (s : H) : StM PyErr H H :=
  liftE s (pyRemoveBy (eqAsset env s) s.assets a) >>= fun l_3 => pure (raDone s a l_3)

def raMain (env : ModelEnv) (a : ARef) (s : H) : StM PyErr H H :=
  forIn (s.a a).associations s (raB1 env a) >>= fun s1 =>
  forIn s1.attackers s1 (raB2 env a) >>= fun s2 =>
  raFin env a s2

theorem ra_st_eq (s : H) (env : ModelEnv) (a : ARef) :
    model_remove_asset_st s env a =
      if (!pyIn (eqAsset env s) s.assets a) = true then throw (PyErr.lookupError, s) else raMain env a s := by
  unfold model_remove_asset_st
  rfl

/-! ### (3) `remove_asset`: the states it leaves -/

/-- the frame of the loop over the attackers: everything of `Fr` but the attacker objects -/
structure FrA (s s' : H) : Prop where
  assets : s'.assets = s.assets
  attackers : s'.attackers = s.attackers
  asset_ids : s'.asset_ids = s.asset_ids
  asset_names : s'.asset_names = s.asset_names
  next_id : s'.next_id = s.next_id
  e : s'.e = s.e

theorem FrA.refl (s : H) : FrA s s := ⟨rfl, rfl, rfl, rfl, rfl, rfl⟩
theorem FrA.trans {s s' s'' : H} (h : FrA s s') (h' : FrA s' s'') : FrA s s'' :=
  ⟨h'.assets.trans h.assets, h'.attackers.trans h.attackers, h'.asset_ids.trans h.asset_ids,
   h'.asset_names.trans h.asset_names, h'.next_id.trans h.next_id, h'.e.trans h.e⟩
theorem Fr.frA {s s' : H} (h : Fr s s') : FrA s s' :=
  ⟨h.assets, h.attackers, h.asset_ids, h.asset_names, h.next_id, h.e⟩
theorem FrA.setT (s : H) (r : TRef) (o : PyAtt) : FrA s (s.setT r o) := ⟨rfl, rfl, rfl, rfl, rfl, rfl⟩

/-- the exceptions of `remove_asset` with the heap they leave (strong form): the `LookupError` of the guard with
nothing written, or — the guard passed — the exception of one of the calls
`self.remove_asset_from_association(asset, association)` of the first loop, made on a heap `b` that has the
bookkeeping of `s`.  The loop over the attackers and the three removals at the end never raise. -/
def RaPartial (env : ModelEnv) (s : H) (a : ARef) (p : PyErr × H) : Prop :=
  (p.1 = .lookupError ∧ p.2 = s ∧ pyIn (eqAsset env s) s.assets a = false) ∨
  (pyIn (eqAsset env s) s.assets a = true ∧
    ∃ b l, Fr s b ∧ l ∈ (s.a a).associations ∧ model_remove_asset_from_association_st b env a l = .error p)

theorem raB1_sp (env : ModelEnv) (a : ARef) (l : LRef) (s b : H) (hb : Fr s b) :
    Sp (fun p => model_remove_asset_from_association_st b env a l = .error p)
      (stepPost (Fr s) (fun _ => False)) (raB1 env a l b) := by
  unfold raB1
  refine Sp.ite (fun _ => ?_) (fun _ => Sp.pure hb)
  refine Sp.bind (R' := Fr b) ⟨fun p hp => hp, (remove_asset_from_association_st_sp b env a l).ok⟩ ?_
  intro s' _ hs'
  exact Sp.pure (hb.trans hs')

theorem find?_pyIn_eqEp (env : ModelEnv) (s : H) (xs : List ERef) (q : ERef → Bool) (v : ERef)
    (h : xs.find? q = some v) : pyIn (eqEp env s) xs v = true := by
  unfold pyIn
  rw [List.any_eq_true]
  refine ⟨v, List.mem_of_find?_eq_some h, ?_⟩
  unfold eqEp
  rw [beq_self_eq_true, Bool.true_or]

theorem raB2_sp (env : ModelEnv) (a : ARef) (t : TRef) (b : H) :
    Sp (fun _ => False) (stepPost (FrA b) (fun _ => False)) (raB2 env a t b) := by
  unfold raB2
  split
  · rename_i v hv
    rw [pyRemoveBy_of_in (find?_pyIn_eqEp env b _ _ v hv)]
    exact Sp.pure (FrA.setT _ _ _)
  · exact Sp.pure (FrA.refl b)

theorem raFin_sp (env : ModelEnv) (a : ARef) (s b : H) (hin : pyIn (eqAsset env s) s.assets a = true)
    (hb : FrA s b) : Sp (fun _ => False) (fun _ => True) (raFin env a b) := by
  unfold raFin
  have h : pyIn (eqAsset env b) b.assets a = true := by rw [hb.assets]; exact hin
  rw [pyRemoveBy_of_in h]
  exact Sp.pure trivial

theorem raMain_sp (env : ModelEnv) (a : ARef) (s : H) (hin : pyIn (eqAsset env s) s.assets a = true) :
    Sp (RaPartial env s a) (fun _ => True) (raMain env a s) := by
  unfold raMain
  refine Sp.bind (Sp.forIn (Fr s) (fun _ => False) ?_ _ (Fr.refl s)) ?_
  · intro l hl b hb
    refine (raB1_sp env a l s b hb).mono ?_ (fun _ h => h)
    intro p hp
    exact Or.inr ⟨hin, b, l, hb, hl, hp⟩
  intro s1 _ h1
  have h1 : Fr s s1 := h1.elim id False.elim
  refine Sp.bind (Sp.forIn (FrA s) (fun _ => False) ?_ _ h1.frA) ?_
  · intro t _ b hb
    refine (raB2_sp env a t b).mono (fun _ h => h.elim) ?_
    intro r hr
    cases r with
    | yield b' => exact hb.trans hr
    | done b' => exact hr
  intro s2 _ h2
  exact (raFin_sp env a s s2 hin (h2.elim id False.elim)).mono (fun _ h => h.elim) (fun _ h => h)

/-- strong form: every exception of `remove_asset` and its heap -/
theorem remove_asset_st_sp (s : H) (env : ModelEnv) (a : ARef) :
    Sp (RaPartial env s a) (fun _ => True) (model_remove_asset_st s env a) := by
  rw [ra_st_eq]
  refine Sp.ite (fun hc => Sp.throw (Or.inl ⟨rfl, rfl, by simpa using hc⟩)) (fun hc => ?_)
  exact raMain_sp env a s (by simpa using hc)

theorem RaPartial.fr {env : ModelEnv} {s : H} {a : ARef} {p : PyErr × H} (h : RaPartial env s a p) : Fr s p.2 := by
  rcases h with ⟨_, h, _⟩ | ⟨_, b, l, hb, _, h⟩
  · rw [h]; exact Fr.refl s
  · exact hb.trans ((remove_asset_from_association_st_sp b env a l).err p h).fr

/-- **(3)** the state `remove_asset` leaves when it raises: nothing written (the `LookupError` of the guard), or the
guard passed and the asset is STILL listed in the model, its id and its name still reserved, the attackers (and, more
than required: the attacker objects and the tuple objects) untouched — every exception comes from the first loop; the
loop over the attackers and `self.assets.remove(asset)` cannot raise once the guard has passed. -/
theorem remove_asset_st_partial_state (s : H) (env : ModelEnv) (a : ARef) :
    ErrIn (fun p : PyErr × H => p.2 = s ∨
      (pyIn (eqAsset env s) s.assets a = true ∧
        p.2.assets = s.assets ∧ p.2.asset_ids = s.asset_ids ∧ p.2.asset_names = s.asset_names ∧
        p.2.next_id = s.next_id ∧ p.2.attackers = s.attackers ∧ p.2.t = s.t ∧ p.2.e = s.e))
      (model_remove_asset_st s env a) := by
  refine (remove_asset_st_sp s env a).errIn.mono ?_
  intro p h
  have hf := h.fr
  rcases h with ⟨_, h, _⟩ | ⟨hin, _⟩
  · exact Or.inl h
  · exact Or.inr ⟨hin, hf.assets, hf.asset_ids, hf.asset_names, hf.next_id, hf.attackers, hf.t, hf.e⟩

/-- whenever `remove_asset` raises, the asset is still a member of `model.assets` exactly when it was before -/
theorem remove_asset_st_error_still_listed (s : H) (env : ModelEnv) (a : ARef) :
    ErrIn (fun p : PyErr × H => pyIn (eqAsset env p.2) p.2.assets a = pyIn (eqAsset env s) s.assets a)
      (model_remove_asset_st s env a) := by
  refine (remove_asset_st_sp s env a).errIn.mono ?_
  intro p h
  rw [h.fr.assets]
  rfl

/-- the observable form for the harness: if the run of `remove_asset` raised, the final heap has the asset
bookkeeping of the initial one -/
theorem remove_asset_st_run_error (s : H) (env : ModelEnv) (a : ARef) (e : PyErr)
    (he : (run (model_remove_asset_st s env a)).2 = .error e) :
    Fr s (run (model_remove_asset_st s env a)).1 :=
  ((remove_asset_st_sp s env a).errIn.run he).fr

/-! ### (4) a half-way state is reachable -/

def exEnv : ModelEnv := { eqA := fun _ _ => false, eqL := fun _ _ => false, whileFuel := 8 }

/-- an inconsistent model: association 0 (`left = [asset 0]`, `right = []`) is in `model.associations` and in
`asset 0 .associations`, but `_type_to_association` has no group for its type -/
def exHeap : H :=
  { a := fun x => if x = 0 then { associations := [0] } else {}
    l := fun x => if x = 0 then { left := [0] } else {}
    assets := [0]
    associations := [0]
    _type_to_association := [] }

/-- `remove_association` raises `KeyError` at `self._type_to_association[type]` AFTER the back-reference of asset 0
and the entry of `model.associations` were removed: the second alternative of `remove_association_st_partial_state`
is inhabited -/
example :
    (run (model_remove_association_st exHeap exEnv 0)).2 = .error .keyError ∧
    (run (model_remove_association_st exHeap exEnv 0)).1.associations = [] ∧
    ((run (model_remove_association_st exHeap exEnv 0)).1.a 0).associations = [] ∧
    (run (model_remove_association_st exHeap exEnv 0)).1._type_to_association = [] ∧
    (run (model_remove_association_st exHeap exEnv 0)).1.assets = [0] ∧
    exHeap.associations = [0] ∧ (exHeap.a 0).associations = [0] := by
  refine ⟨rfl, rfl, rfl, rfl, rfl, rfl, rfl⟩

example :
    match model_remove_association_st exHeap exEnv 0 with
    | .error (e, s') => e = .keyError ∧ s'.associations = [] ∧ (s'.a 0).associations = []
    | .ok _ => False := by
  have h : model_remove_association_st exHeap exEnv 0 =
      .error (.keyError, (run (model_remove_association_st exHeap exEnv 0)).1) := by
    apply run_error_iff.1
    rfl
  rw [h]
  exact ⟨rfl, rfl, rfl⟩

/-- the same inconsistency seen through `remove_asset`: it raises `KeyError` (from `remove_association`, called by
`remove_asset_from_association`), asset 0 is still listed, but its back-reference and the entry of
`model.associations` are gone -/
example :
    (run (model_remove_asset_st exHeap exEnv 0)).2 = .error .keyError ∧
    (run (model_remove_asset_st exHeap exEnv 0)).1.assets = [0] ∧
    (run (model_remove_asset_st exHeap exEnv 0)).1.associations = [] ∧
    ((run (model_remove_asset_st exHeap exEnv 0)).1.a 0).associations = [] := by
  refine ⟨rfl, rfl, rfl, rfl⟩

/-! ### the observable forms (what the harness sees: `run`) -/

theorem remove_association_st_run_error (s : H) (env : ModelEnv) (l : LRef) (e : PyErr)
    (he : (run (model_remove_association_st s env l)).2 = .error e) :
    RmPartial env s l (e, (run (model_remove_association_st s env l)).1) :=
  (remove_association_st_sp s env l).errIn.run he

theorem remove_asset_from_association_st_run_error (s : H) (env : ModelEnv) (a : ARef) (l : LRef) (e : PyErr)
    (he : (run (model_remove_asset_from_association_st s env a l)).2 = .error e) :
    RafaPartial env s l (e, (run (model_remove_asset_from_association_st s env a l)).1) :=
  (remove_asset_from_association_st_sp s env a l).errIn.run he

end MalVerif.PyM.TieSt
