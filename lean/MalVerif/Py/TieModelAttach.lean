import MalVerif.Py.AbsModel
import MalVerif.Py.GenModel.Attachment
namespace MalVerif.PyM.Tie
open MalVerif MalVerif.PyM MalVerif.PyM.Gen

theorem at_get_eq (s : H) (env : ModelEnv) (t : TRef) (a : ARef) :
    attachment_get_entry_point_tuple s env t a =
      (s.t t).entry_points.find? (fun r => eqAsset env s (s.e r).asset a) := rfl

theorem at_add_some {s : H} {env : ModelEnv} {t : TRef} {a : ARef} {r : ERef} (step : String)
    (h : attachment_get_entry_point_tuple s env t a = some r) :
    attachment_add_entry_point s env t a step =
      if (s.e r).steps.contains step then s else
          s.setE r { s.e r with steps := (s.e r).steps ++ [step] } := by
  unfold attachment_add_entry_point
  simp only [h, Id.run, pure]
  cases (s.e r).steps.contains step <;> rfl

theorem at_add_none {s : H} {env : ModelEnv} {t : TRef} {a : ARef} (step : String)
    (h : attachment_get_entry_point_tuple s env t a = none) :
    attachment_add_entry_point s env t a step =
      ((s.allocE { asset := a, steps := [step] }).1).setT t
        { s.t t with entry_points := (s.t t).entry_points ++ [s.efresh] } := by
  unfold attachment_add_entry_point
  simp only [h, Id.run, pure]
  rfl

theorem at_setE_t (s : H) (r : ERef) (o : PyEp) : (s.setE r o).t = s.t := rfl

/-- the first half of `remove_entry_point`: the step is removed from the list inside the tuple object -/
def at_rmE (s : H) (r : ERef) (step : String) : H :=
  if (s.e r).steps.contains step then s.setE r { s.e r with steps := (s.e r).steps.erase step } else s

theorem at_rm_some {s : H} {env : ModelEnv} {t : TRef} {a : ARef} {r : ERef} (step : String)
    (h : attachment_get_entry_point_tuple s env t a = some r) :
    attachment_remove_entry_point s env t a step =
      if ((at_rmE s r step).e r).steps.isEmpty then
        (pyRemoveBy (eqEp env (at_rmE s r step)) (s.t t).entry_points r).bind
          (fun v => .ok ((at_rmE s r step).setT t { s.t t with entry_points := v }))
      else .ok (at_rmE s r step) := by
  unfold attachment_remove_entry_point at_rmE
  simp only [h, bind, Except.bind, pure, Except.pure, Bool.not_not]
  by_cases hc : (s.e r).steps.contains step = true
  · simp only [hc, pyRemove, if_true, at_setE_t]
  · simp only [hc, Bool.false_eq_true, if_false]

theorem at_rm_none {s : H} {env : ModelEnv} {t : TRef} {a : ARef} (step : String)
    (h : attachment_get_entry_point_tuple s env t a = none) :
    attachment_remove_entry_point s env t a step = .ok s := by
  unfold attachment_remove_entry_point
  simp only [h, pure, Except.pure]

/-! ### (1) `get_entry_point_tuple` -/

theorem at_get_entry_point_tuple_tie {env : ModelEnv} (hE : EqId env) (s : H) (t : TRef) (a : ARef) :
    (attachment_get_entry_point_tuple s env t a).map (epVal s) = ((abs s).tobj t).entry.find? (·.1 = a) := by
  rw [at_get_eq]
  show _ = ((s.t t).entry_points.map (epVal s)).find? (·.1 = a)
  rw [List.find?_map]
  congr 2
  funext r
  simp only [eqAsset_id hE, epVal, Function.comp]
  by_cases h : (s.e r).asset = a <;> simp [h]

theorem at_get_entry_point_tuple_mem {env : ModelEnv} (hE : EqId env) {s : H} {t : TRef} {a : ARef} {r : ERef}
    (h : attachment_get_entry_point_tuple s env t a = some r) :
    r ∈ (s.t t).entry_points ∧ (s.e r).asset = a := by
  rw [at_get_eq] at h
  refine ⟨List.mem_of_find?_eq_some h, ?_⟩
  have := List.find?_some h
  rw [eqAsset_id hE] at this
  exact eq_of_beq this

theorem at_get_entry_point_tuple_none {env : ModelEnv} {s : H} {t : TRef} {a : ARef}
    (h : attachment_get_entry_point_tuple s env t a = none) :
    ∀ r ∈ (s.t t).entry_points, (s.e r).asset ≠ a := by
  rw [at_get_eq] at h
  intro r hr e
  have := List.find?_eq_none.1 h r hr
  apply this
  unfold eqAsset
  simp [e]

/-! ### list facts -/

theorem at_nodup_map_inj {α β : Type} {f : α → β} {l : List α} (h : (l.map f).Nodup) {x y : α}
    (hx : x ∈ l) (hy : y ∈ l) (e : f x = f y) : x = y := by
  induction l with
  | nil => cases hx
  | cons z zs ih =>
    rw [List.map_cons, List.nodup_cons] at h
    rcases List.mem_cons.1 hx with rfl | hx' <;> rcases List.mem_cons.1 hy with rfl | hy'
    · rfl
    · exact absurd (e ▸ List.mem_map_of_mem hy') h.1
    · exact absurd (e ▸ List.mem_map_of_mem hx') h.1
    · exact ih h.2 hx' hy'

theorem at_nodup_of_map {α β : Type} {f : α → β} {l : List α} (h : (l.map f).Nodup) : l.Nodup := by
  induction l with
  | nil => exact List.nodup_nil
  | cons z zs ih =>
    rw [List.map_cons, List.nodup_cons] at h
    exact List.nodup_cons.2 ⟨fun hm => h.1 (List.mem_map_of_mem hm), ih h.2⟩

theorem at_eraseP_congr {α : Type} {p q : α → Bool} {l : List α} (h : ∀ x ∈ l, p x = q x) :
    l.eraseP p = l.eraseP q := by
  induction l with
  | nil => rfl
  | cons z zs ih =>
    rw [List.eraseP_cons, List.eraseP_cons, h z (List.mem_cons_self), ih (fun x hx => h x (List.mem_cons_of_mem _ hx))]

/-! ### what the operations leave alone -/

/-- everything but the attacker store and the tuple store is unchanged -/
structure AtFrame (s s' : H) : Prop where
  a : s'.a = s.a
  afresh : s'.afresh = s.afresh
  l : s'.l = s.l
  lfresh : s'.lfresh = s.lfresh
  tfresh : s'.tfresh = s.tfresh
  assets : s'.assets = s.assets
  associations : s'.associations = s.associations
  tta : s'._type_to_association = s._type_to_association
  attackers : s'.attackers = s.attackers
  asset_ids : s'.asset_ids = s.asset_ids
  asset_names : s'.asset_names = s.asset_names
  next_id : s'.next_id = s.next_id

theorem AtFrame.refl (s : H) : AtFrame s s := ⟨rfl, rfl, rfl, rfl, rfl, rfl, rfl, rfl, rfl, rfl, rfl, rfl⟩
theorem AtFrame.setE (s : H) (r : ERef) (o : PyEp) : AtFrame s (s.setE r o) :=
  ⟨rfl, rfl, rfl, rfl, rfl, rfl, rfl, rfl, rfl, rfl, rfl, rfl⟩
theorem AtFrame.setT (s : H) (r : TRef) (o : PyAtt) : AtFrame s (s.setT r o) :=
  ⟨rfl, rfl, rfl, rfl, rfl, rfl, rfl, rfl, rfl, rfl, rfl, rfl⟩
theorem AtFrame.allocE (s : H) (o : PyEp) : AtFrame s (s.allocE o).1 :=
  ⟨rfl, rfl, rfl, rfl, rfl, rfl, rfl, rfl, rfl, rfl, rfl, rfl⟩
theorem AtFrame.trans {s s' s'' : H} (h : AtFrame s s') (h' : AtFrame s' s'') : AtFrame s s'' :=
  ⟨h'.a.trans h.a, h'.afresh.trans h.afresh, h'.l.trans h.l, h'.lfresh.trans h.lfresh, h'.tfresh.trans h.tfresh,
   h'.assets.trans h.assets, h'.associations.trans h.associations, h'.tta.trans h.tta,
   h'.attackers.trans h.attackers, h'.asset_ids.trans h.asset_ids, h'.asset_names.trans h.asset_names,
   h'.next_id.trans h.next_id⟩

theorem at_abs_of_frame {s s' : H} (hf : AtFrame s s') (t : TRef) (f : MS.AttObj → MS.AttObj)
    (h : ∀ u, absAtt s' (s'.t u) = if u = t then f (absAtt s (s.t u)) else absAtt s (s.t u)) :
    abs s' = MS.updT (abs s) t f := by
  unfold abs MS.updT
  simp only [hf.a, hf.afresh, hf.l, hf.lfresh, hf.tfresh, hf.assets, hf.associations, hf.tta, hf.attackers,
    hf.asset_ids, hf.asset_names, hf.next_id, MS.St.mk.injEq, true_and, and_true]
  funext u
  exact h u

/-! ### no tuple object is shared between ANY two attachment objects -/

/-- `EpOK` for all `AttackerAttachment` objects of the heap, also those that are not (or no longer) attackers of
the model: `abs` maps every attachment object, so a tuple shared with an attachment that `remove_attacker` has
taken out of the model would still make `abs` of the result differ from the hand model. -/
structure EpOKAll (s : H) : Prop where
  hS : ∀ t u, u ≠ t → ∀ r ∈ (s.t t).entry_points, r ∉ (s.t u).entry_points
  hF : ∀ u, ∀ r ∈ (s.t u).entry_points, r < s.efresh

theorem EpOKAll.epOK {s : H} (h : EpOKAll s) : EpOK s :=
  ⟨fun t _ r hr => h.hF t r hr, fun t _ u _ htu r hr => h.hS t u (Ne.symm htu) r hr⟩

/-! ### tuple values after an update of the tuple store -/

theorem at_epVal_setE_ne (s : H) (r : ERef) (o : PyEp) {x : ERef} (h : x ≠ r) : epVal (s.setE r o) x = epVal s x := by
  unfold epVal H.setE; simp only [if_neg h]
theorem at_epVal_setE_eq (s : H) (r : ERef) (o : PyEp) : epVal (s.setE r o) r = (o.asset, o.steps) := by
  unfold epVal H.setE; simp only [if_pos rfl]

theorem at_map_epVal_setE_notin (s : H) (r : ERef) (o : PyEp) {l : List ERef} (h : r ∉ l) :
    l.map (epVal (s.setE r o)) = l.map (epVal s) :=
  List.map_congr_left (fun x hx => at_epVal_setE_ne s r o (fun e => h (e ▸ hx)))

/-- assets are distinct inside one live attacker -/
theorem at_asset_inj {s : H} (hI : MS.Inv (abs s)) {t : TRef} (ht : t ∈ s.attackers) {x y : ERef}
    (hx : x ∈ (s.t t).entry_points) (hy : y ∈ (s.t t).entry_points) (e : (s.e x).asset = (s.e y).asset) : x = y := by
  have h := hI.att.entry_nodup t ht
  have h' : ((s.t t).entry_points.map (fun x => (s.e x).asset)).Nodup := by
    have : ((abs s).tobj t).entry.map (·.1) = (s.t t).entry_points.map (fun x => (s.e x).asset) := by
      show ((s.t t).entry_points.map (epVal s)).map (·.1) = _
      rw [List.map_map]; rfl
    rw [this] at h; exact h
  exact at_nodup_map_inj h' hx hy e

theorem at_find_absAtt {env : ModelEnv} (hE : EqId env) (s : H) (t : TRef) (a : ARef) :
    (absAtt s (s.t t)).entry.find? (·.1 = a) = (attachment_get_entry_point_tuple s env t a).map (epVal s) :=
  (at_get_entry_point_tuple_tie hE s t a).symm

/-! ### (2) `add_entry_point` -/

theorem add_entry_point_tie {env : ModelEnv} (hE : EqId env) (s : H) (hI : MS.Inv (abs s)) (hO : EpOKAll s)
    (t : TRef) (ht : t ∈ s.attackers) (a : ARef) (step : String) :
    abs (attachment_add_entry_point s env t a step) = MS.addEntryPoint (abs s) t a step := by
  unfold MS.addEntryPoint
  cases hg : attachment_get_entry_point_tuple s env t a with
  | none =>
    rw [at_add_none step hg]
    apply at_abs_of_frame ((AtFrame.allocE s _).trans (AtFrame.setT _ _ _))
    intro u
    by_cases hu : u = t
    · subst hu
      rw [if_pos rfl, at_find_absAtt hE, hg]
      trace_state
      sorry
    · sorry
  | some r => sorry

end MalVerif.PyM.Tie
