import MalVerif.Py.AbsModel
import MalVerif.Py.GenModel.Attachment
namespace MalVerif.PyM.Tie
open MalVerif MalVerif.PyM MalVerif.PyM.Gen

theorem at_get_eq (s : H) (env : ModelEnv) (t : TRef) (a : ARef) :
    attachment_get_entry_point_tuple s env t a =
      (s.t t).entry_points.find? (fun r => eqAsset env s (s.e r).asset a) := rfl

theorem at_add_some {s : H} {env : ModelEnv} {t : TRef} {a : ARef} {r : ERef} (step : String)
    (h : attachment_get_entry_point_tuple s env t a = some r) :
    attachment_add_entry_point s env t a step =
      if (s.e r).steps.contains step then s else
          s.setE r { s.e r with steps := (s.e r).steps ++ [step] } := by
  unfold attachment_add_entry_point
  simp only [h, Id.run, pure]
  cases (s.e r).steps.contains step <;> rfl

theorem at_add_none {s : H} {env : ModelEnv} {t : TRef} {a : ARef} (step : String)
    (h : attachment_get_entry_point_tuple s env t a = none) :
    attachment_add_entry_point s env t a step =
      ((s.allocE { asset := a, steps := [step] }).1).setT t
        { s.t t with entry_points := (s.t t).entry_points ++ [s.efresh] } := by
  unfold attachment_add_entry_point
  simp only [h, Id.run, pure]
  rfl

theorem at_setE_t (s : H) (r : ERef) (o : PyEp) : (s.setE r o).t = s.t := rfl

/-- the first half of `remove_entry_point`: the step is removed from the list inside the tuple object -/
def at_rmE (s : H) (r : ERef) (step : String) : H :=
  if (s.e r).steps.contains step then s.setE r { s.e r with steps := (s.e r).steps.erase step } else s

theorem at_rm_some {s : H} {env : ModelEnv} {t : TRef} {a : ARef} {r : ERef} (step : String)
    (h : attachment_get_entry_point_tuple s env t a = some r) :
    attachment_remove_entry_point s env t a step =
      if ((at_rmE s r step).e r).steps.isEmpty then
        (pyRemoveBy (eqEp env (at_rmE s r step)) (s.t t).entry_points r).bind
          (fun v => .ok ((at_rmE s r step).setT t { s.t t with entry_points := v }))
      else .ok (at_rmE s r step) := by
  unfold attachment_remove_entry_point at_rmE
  simp only [h, bind, Except.bind, pure, Except.pure, Bool.not_not]
  by_cases hc : (s.e r).steps.contains step = true
  · simp only [hc, pyRemove, if_true, at_setE_t]
  · simp only [hc, Bool.false_eq_true, if_false]

theorem at_rm_none {s : H} {env : ModelEnv} {t : TRef} {a : ARef} (step : String)
    (h : attachment_get_entry_point_tuple s env t a = none) :
    attachment_remove_entry_point s env t a step = .ok s := by
  unfold attachment_remove_entry_point
  simp only [h, pure, Except.pure]

/-! ### (1) `get_entry_point_tuple` -/

theorem at_get_entry_point_tuple_tie {env : ModelEnv} (hE : EqId env) (s : H) (t : TRef) (a : ARef) :
    (attachment_get_entry_point_tuple s env t a).map (epVal s) = ((abs s).tobj t).entry.find? (·.1 = a) := by
  rw [at_get_eq]
  show _ = ((s.t t).entry_points.map (epVal s)).find? (·.1 = a)
  rw [List.find?_map]
  congr 2
  funext r
  simp only [eqAsset_id hE, epVal, Function.comp]
  by_cases h : (s.e r).asset = a <;> simp [h]

theorem at_get_entry_point_tuple_mem {env : ModelEnv} (hE : EqId env) {s : H} {t : TRef} {a : ARef} {r : ERef}
    (h : attachment_get_entry_point_tuple s env t a = some r) :
    r ∈ (s.t t).entry_points ∧ (s.e r).asset = a := by
  rw [at_get_eq] at h
  refine ⟨List.mem_of_find?_eq_some h, ?_⟩
  have := List.find?_some h
  rw [eqAsset_id hE] at this
  exact eq_of_beq this

theorem at_get_entry_point_tuple_none {env : ModelEnv} {s : H} {t : TRef} {a : ARef}
    (h : attachment_get_entry_point_tuple s env t a = none) :
    ∀ r ∈ (s.t t).entry_points, (s.e r).asset ≠ a := by
  rw [at_get_eq] at h
  intro r hr e
  have := List.find?_eq_none.1 h r hr
  apply this
  unfold eqAsset
  simp [e]

/-! ### list facts -/

theorem at_nodup_map_inj {α β : Type} {f : α → β} {l : List α} (h : (l.map f).Nodup) {x y : α}
    (hx : x ∈ l) (hy : y ∈ l) (e : f x = f y) : x = y := by
  induction l with
  | nil => cases hx
  | cons z zs ih =>
    rw [List.map_cons, List.nodup_cons] at h
    rcases List.mem_cons.1 hx with rfl | hx' <;> rcases List.mem_cons.1 hy with rfl | hy'
    · rfl
    · exact absurd (e ▸ List.mem_map_of_mem hy') h.1
    · exact absurd (e ▸ List.mem_map_of_mem hx') h.1
    · exact ih h.2 hx' hy'

theorem at_nodup_of_map {α β : Type} {f : α → β} {l : List α} (h : (l.map f).Nodup) : l.Nodup := by
  induction l with
  | nil => exact List.nodup_nil
  | cons z zs ih =>
    rw [List.map_cons, List.nodup_cons] at h
    exact List.nodup_cons.2 ⟨fun hm => h.1 (List.mem_map_of_mem hm), ih h.2⟩

theorem at_map_map_congr {α β : Type} {l : List α} {f f' : α → β} {g : β → β} (h : ∀ x ∈ l, g (f x) = f' x) :
    (l.map f).map g = l.map f' := by
  rw [List.map_map]; exact List.map_congr_left h

theorem at_eraseP_congr {α : Type} {p q : α → Bool} {l : List α} (h : ∀ x ∈ l, p x = q x) :
    l.eraseP p = l.eraseP q := by
  induction l with
  | nil => rfl
  | cons z zs ih =>
    rw [List.eraseP_cons, List.eraseP_cons, h z (List.mem_cons_self), ih (fun x hx => h x (List.mem_cons_of_mem _ hx))]

/-! ### what the operations leave alone -/

/-- everything but the attacker store and the tuple store is unchanged -/
structure AtFrame (s s' : H) : Prop where
  a : s'.a = s.a
  afresh : s'.afresh = s.afresh
  l : s'.l = s.l
  lfresh : s'.lfresh = s.lfresh
  tfresh : s'.tfresh = s.tfresh
  assets : s'.assets = s.assets
  associations : s'.associations = s.associations
  tta : s'._type_to_association = s._type_to_association
  attackers : s'.attackers = s.attackers
  asset_ids : s'.asset_ids = s.asset_ids
  asset_names : s'.asset_names = s.asset_names
  next_id : s'.next_id = s.next_id

theorem AtFrame.refl (s : H) : AtFrame s s := ⟨rfl, rfl, rfl, rfl, rfl, rfl, rfl, rfl, rfl, rfl, rfl, rfl⟩
theorem AtFrame.setE (s : H) (r : ERef) (o : PyEp) : AtFrame s (s.setE r o) :=
  ⟨rfl, rfl, rfl, rfl, rfl, rfl, rfl, rfl, rfl, rfl, rfl, rfl⟩
theorem AtFrame.setT (s : H) (r : TRef) (o : PyAtt) : AtFrame s (s.setT r o) :=
  ⟨rfl, rfl, rfl, rfl, rfl, rfl, rfl, rfl, rfl, rfl, rfl, rfl⟩
theorem AtFrame.allocE (s : H) (o : PyEp) : AtFrame s (s.allocE o).1 :=
  ⟨rfl, rfl, rfl, rfl, rfl, rfl, rfl, rfl, rfl, rfl, rfl, rfl⟩
theorem AtFrame.trans {s s' s'' : H} (h : AtFrame s s') (h' : AtFrame s' s'') : AtFrame s s'' :=
  ⟨h'.a.trans h.a, h'.afresh.trans h.afresh, h'.l.trans h.l, h'.lfresh.trans h.lfresh, h'.tfresh.trans h.tfresh,
   h'.assets.trans h.assets, h'.associations.trans h.associations, h'.tta.trans h.tta,
   h'.attackers.trans h.attackers, h'.asset_ids.trans h.asset_ids, h'.asset_names.trans h.asset_names,
   h'.next_id.trans h.next_id⟩

theorem at_abs_of_frame {s s' : H} (hf : AtFrame s s') (t : TRef) (f : MS.AttObj → MS.AttObj)
    (h : ∀ u, absAtt s' (s'.t u) = if u = t then f (absAtt s (s.t u)) else absAtt s (s.t u)) :
    abs s' = MS.updT (abs s) t f := by
  unfold abs MS.updT
  simp only [hf.a, hf.afresh, hf.l, hf.lfresh, hf.tfresh, hf.assets, hf.associations, hf.tta, hf.attackers,
    hf.asset_ids, hf.asset_names, hf.next_id, MS.St.mk.injEq, true_and, and_true]
  funext u
  exact h u

/-! ### no tuple object is shared between ANY two attachment objects -/

/-- `EpOK` for all `AttackerAttachment` objects of the heap, also those that are not (or no longer) attackers of
the model: `abs` maps every attachment object, so a tuple shared with an attachment that `remove_attacker` has
taken out of the model would still make `abs` of the result differ from the hand model. -/
structure EpOKAll (s : H) : Prop where
  hS : ∀ t u, u ≠ t → ∀ r ∈ (s.t t).entry_points, r ∉ (s.t u).entry_points
  hF : ∀ u, ∀ r ∈ (s.t u).entry_points, r < s.efresh

theorem EpOKAll.epOK {s : H} (h : EpOKAll s) : EpOK s :=
  ⟨fun t _ r hr => h.hF t r hr, fun t _ u _ htu r hr => h.hS t u (Ne.symm htu) r hr⟩

/-! ### tuple values after an update of the tuple store -/

theorem at_epVal_setE_ne (s : H) (r : ERef) (o : PyEp) {x : ERef} (h : x ≠ r) : epVal (s.setE r o) x = epVal s x := by
  unfold epVal H.setE; simp only [if_neg h]
theorem at_epVal_setE_eq (s : H) (r : ERef) (o : PyEp) : epVal (s.setE r o) r = (o.asset, o.steps) := by
  unfold epVal H.setE; simp only [if_true]

theorem at_map_epVal_setE_notin (s : H) (r : ERef) (o : PyEp) {l : List ERef} (h : r ∉ l) :
    l.map (epVal (s.setE r o)) = l.map (epVal s) :=
  List.map_congr_left (fun _ hx => at_epVal_setE_ne s r o (fun e => h (e ▸ hx)))

/-- assets are distinct inside one live attacker -/
theorem at_asset_inj {s : H} (hI : MS.Inv (abs s)) {t : TRef} (ht : t ∈ s.attackers) {x y : ERef}
    (hx : x ∈ (s.t t).entry_points) (hy : y ∈ (s.t t).entry_points) (e : (s.e x).asset = (s.e y).asset) : x = y := by
  have h := hI.att.entry_nodup t ht
  have h' : ((s.t t).entry_points.map (fun x => (s.e x).asset)).Nodup := by
    have : ((abs s).tobj t).entry.map (·.1) = (s.t t).entry_points.map (fun x => (s.e x).asset) := by
      show ((s.t t).entry_points.map (epVal s)).map (·.1) = _
      rw [List.map_map]; rfl
    rw [this] at h; exact h
  exact at_nodup_map_inj h' hx hy e

theorem at_find_absAtt {env : ModelEnv} (hE : EqId env) (s : H) (t : TRef) (a : ARef) :
    (absAtt s (s.t t)).entry.find? (·.1 = a) = (attachment_get_entry_point_tuple s env t a).map (epVal s) :=
  (at_get_entry_point_tuple_tie hE s t a).symm

/-! ### (2) `add_entry_point` -/

theorem at_epVal_alloc_ne (s : H) (o : PyEp) (t : TRef) (p : PyAtt) {x : ERef} (h : x ≠ s.efresh) :
    epVal ((s.allocE o).1.setT t p) x = epVal s x := by
  unfold epVal H.setT H.allocE; simp only [if_neg h]
theorem at_epVal_alloc_eq (s : H) (o : PyEp) (t : TRef) (p : PyAtt) :
    epVal ((s.allocE o).1.setT t p) s.efresh = (o.asset, o.steps) := by
  unfold epVal H.setT H.allocE; simp only [if_true]
theorem at_map_epVal_alloc (s : H) (o : PyEp) (t : TRef) (p : PyAtt) {l : List ERef} (h : ∀ x ∈ l, x < s.efresh) :
    l.map (epVal ((s.allocE o).1.setT t p)) = l.map (epVal s) :=
  List.map_congr_left (fun x hx => at_epVal_alloc_ne s o t p (Nat.ne_of_lt (h x hx)))
theorem at_alloc_t (s : H) (o : PyEp) (t : TRef) (p : PyAtt) (u : TRef) :
    ((s.allocE o).1.setT t p).t u = if u = t then p else s.t u := rfl

theorem add_entry_point_tie {env : ModelEnv} (hE : EqId env) (s : H) (hI : MS.Inv (abs s)) (hO : EpOKAll s)
    (t : TRef) (ht : t ∈ s.attackers) (a : ARef) (step : String) :
    abs (attachment_add_entry_point s env t a step) = MS.addEntryPoint (abs s) t a step := by
  unfold MS.addEntryPoint
  cases hg : attachment_get_entry_point_tuple s env t a with
  | none =>
    rw [at_add_none step hg]
    apply at_abs_of_frame ((AtFrame.allocE s _).trans (AtFrame.setT _ _ _))
    intro u
    rw [at_alloc_t]
    by_cases hu : u = t
    · subst hu
      rw [if_pos rfl, if_pos rfl, at_find_absAtt hE, hg]
      unfold absAtt
      simp only [Option.map, List.map_append, List.map_cons, List.map_nil, at_epVal_alloc_eq,
        at_map_epVal_alloc s _ _ _ (hO.hF u)]
    · rw [if_neg hu, if_neg hu]
      unfold absAtt
      rw [at_map_epVal_alloc s _ _ _ (hO.hF u)]
  | some r =>
    obtain ⟨hr, hra⟩ := at_get_entry_point_tuple_mem hE hg
    rw [at_add_some step hg]
    have hne : ∀ x ∈ (s.t t).entry_points, x ≠ r → (s.e x).asset ≠ a :=
      fun x hx hxr e => hxr (at_asset_inj hI ht hx hr (e.trans hra.symm))
    by_cases hc : (s.e r).steps.contains step = true
    · rw [if_pos hc]
      apply at_abs_of_frame (AtFrame.refl s)
      intro u
      by_cases hu : u = t
      · subst hu
        rw [if_pos rfl, at_find_absAtt hE, hg]
        unfold absAtt
        simp only [Option.map]
        rw [at_map_map_congr (f' := epVal s)]
        intro x hx
        by_cases hxr : x = r
        · subst hxr
          simp only [epVal, hc, Bool.not_true, Bool.false_eq_true, and_false, if_false]
        · have := hne x hx hxr
          simp only [epVal, this, false_and, if_false]
      · rw [if_neg hu]
    · rw [if_neg hc]
      apply at_abs_of_frame (AtFrame.setE s _ _)
      intro u
      rw [at_setE_t]
      by_cases hu : u = t
      · subst hu
        rw [if_pos rfl, at_find_absAtt hE, hg]
        unfold absAtt
        simp only [Option.map]
        rw [at_map_map_congr]
        intro x hx
        by_cases hxr : x = r
        · subst hxr
          rw [at_epVal_setE_eq]
          simp only [epVal, hra, hc, Bool.not_false, and_self, if_true]
        · have := hne x hx hxr
          rw [at_epVal_setE_ne _ _ _ hxr]
          simp only [epVal, this, false_and, if_false]
      · rw [if_neg hu]
        unfold absAtt
        rw [at_map_epVal_setE_notin s r _ (hO.hS t u hu r hr)]

/-! ### (3) `remove_entry_point` -/

theorem at_rmE_t (s : H) (r : ERef) (step : String) : (at_rmE s r step).t = s.t := by
  unfold at_rmE; split <;> rfl
theorem at_rmE_efresh (s : H) (r : ERef) (step : String) : (at_rmE s r step).efresh = s.efresh := by
  unfold at_rmE; split <;> rfl
theorem at_rmE_frame (s : H) (r : ERef) (step : String) : AtFrame s (at_rmE s r step) := by
  unfold at_rmE; split
  · exact AtFrame.setE _ _ _
  · exact AtFrame.refl _
theorem at_rmE_epVal_ne (s : H) (r : ERef) (step : String) {x : ERef} (h : x ≠ r) :
    epVal (at_rmE s r step) x = epVal s x := by
  unfold at_rmE; split
  · exact at_epVal_setE_ne _ _ _ h
  · rfl
theorem at_rmE_epVal_eq (s : H) (r : ERef) (step : String) :
    epVal (at_rmE s r step) r = ((s.e r).asset, (s.e r).steps.erase step) := by
  unfold at_rmE; split
  · exact at_epVal_setE_eq _ _ _
  · next h =>
    have : step ∉ (s.e r).steps := fun hm => h (List.contains_iff_mem.2 hm)
    rw [List.erase_of_not_mem this]; rfl
theorem at_map_epVal_rmE_notin (s : H) (r : ERef) (step : String) {l : List ERef} (h : r ∉ l) :
    l.map (epVal (at_rmE s r step)) = l.map (epVal s) :=
  List.map_congr_left (fun _ hx => at_rmE_epVal_ne s r step (fun e => h (e ▸ hx)))
theorem at_epVal_setT (s : H) (t : TRef) (p : PyAtt) : epVal (s.setT t p) = epVal s := rfl
theorem at_setT_t (s : H) (t : TRef) (p : PyAtt) (u : TRef) : (s.setT t p).t u = if u = t then p else s.t u := rfl

/-- `entry_points.remove(entry_point_tuple)` removes the tuple object itself -/
theorem at_pyRemoveBy {env : ModelEnv} (hE : EqId env) (s : H) (r : ERef) (step : String) {l : List ERef}
    (hr : r ∈ l) (hne : ∀ x ∈ l, x ≠ r → (s.e x).asset ≠ (s.e r).asset) :
    pyRemoveBy (eqEp env (at_rmE s r step)) l r = .ok (l.erase r) := by
  unfold pyRemoveBy pyIn
  have h1 : l.any (fun y => eqEp env (at_rmE s r step) y r) = true :=
    List.any_eq_true.2 ⟨r, hr, by unfold eqEp; simp⟩
  rw [h1, if_pos rfl, List.erase_eq_eraseP]
  congr 1
  apply at_eraseP_congr
  intro x hx
  rw [eqEp_id hE]
  by_cases hxr : x = r
  · subst hxr; simp
  · have h2 : (r == x) = false := by simp [Ne.symm hxr]
    rw [h2, at_rmE_epVal_ne _ _ _ hxr, at_rmE_epVal_eq]
    have := hne x hx hxr
    simp [epVal, this]

theorem remove_entry_point_tie {env : ModelEnv} (hE : EqId env) (s : H) (hI : MS.Inv (abs s)) (hO : EpOKAll s)
    (t : TRef) (ht : t ∈ s.attackers) (a : ARef) (step : String) :
    absR (attachment_remove_entry_point s env t a step) = .ok (MS.removeEntryPoint (abs s) t a step) := by
  unfold MS.removeEntryPoint
  cases hg : attachment_get_entry_point_tuple s env t a with
  | none =>
    rw [at_rm_none step hg, absR_ok]
    congr 1
    apply at_abs_of_frame (AtFrame.refl s)
    intro u
    by_cases hu : u = t
    · subst hu
      rw [if_pos rfl, at_find_absAtt hE, hg]
      rfl
    · rw [if_neg hu]
  | some r =>
    obtain ⟨hr, hra⟩ := at_get_entry_point_tuple_mem hE hg
    have hne : ∀ x ∈ (s.t t).entry_points, x ≠ r → (s.e x).asset ≠ a :=
      fun x hx hxr e => hxr (at_asset_inj hI ht hx hr (e.trans hra.symm))
    rw [at_rm_some step hg, at_pyRemoveBy hE s r step hr (by rw [hra]; exact hne)]
    have hmap : ((s.t t).entry_points.map (epVal s)).map
          (fun ep => if ep.1 = a then (a, ep.2.erase step) else ep) =
        (s.t t).entry_points.map (epVal (at_rmE s r step)) := by
      apply at_map_map_congr
      intro x hx
      by_cases hxr : x = r
      · subst hxr
        rw [at_rmE_epVal_eq]
        simp only [epVal, hra, if_true]
      · have := hne x hx hxr
        rw [at_rmE_epVal_ne _ _ _ hxr]
        simp only [epVal, this, if_false]
    have hnd : (s.t t).entry_points.Nodup := by
      have h := hI.att.entry_nodup t ht
      have : ((abs s).tobj t).entry.map (·.1) = ((s.t t).entry_points.map (epVal s)).map (·.1) := rfl
      rw [this] at h
      exact at_nodup_of_map (at_nodup_of_map h)
    by_cases hemp : ((at_rmE s r step).e r).steps.isEmpty = true
    · rw [if_pos hemp, ok_bind, absR_ok]
      congr 1
      apply at_abs_of_frame ((at_rmE_frame s r step).trans (AtFrame.setT _ _ _))
      intro u
      rw [at_setT_t]
      by_cases hu : u = t
      · subst hu
        rw [if_pos rfl, if_pos rfl, at_find_absAtt hE, hg]
        unfold absAtt
        simp only [Option.map, at_epVal_setT]
        rw [hmap, List.filter_map, hnd.erase_eq_filter]
        congr 2
        apply List.filter_congr
        intro x hx
        by_cases hxr : x = r
        · subst hxr
          have h1 : (epVal (at_rmE s x step) x).2.isEmpty = true := hemp
          have h2 : (epVal (at_rmE s x step) x).1 = a := by rw [at_rmE_epVal_eq]; exact hra
          simp [Function.comp, h1, h2]
        · have h3 : (epVal (at_rmE s r step) x).1 ≠ a := by
            rw [at_rmE_epVal_ne _ _ _ hxr]; exact hne x hx hxr
          simp [Function.comp, h3, hxr]
      · rw [if_neg hu, if_neg hu, at_rmE_t]
        unfold absAtt
        rw [at_epVal_setT, at_map_epVal_rmE_notin s r step (hO.hS t u hu r hr)]
    · rw [if_neg hemp, absR_ok]
      congr 1
      apply at_abs_of_frame (at_rmE_frame s r step)
      intro u
      rw [at_rmE_t]
      by_cases hu : u = t
      · subst hu
        rw [if_pos rfl, at_find_absAtt hE, hg]
        unfold absAtt
        simp only [Option.map]
        rw [hmap, List.filter_eq_self.2]
        intro ep hep
        obtain ⟨x, hx, rfl⟩ := List.mem_map.1 hep
        by_cases hxr : x = r
        · subst hxr
          have h1 : (epVal (at_rmE s x step) x).2.isEmpty = false := by
            cases h : (epVal (at_rmE s x step) x).2.isEmpty with
            | false => rfl
            | true => exact absurd h hemp
          simp [h1]
        · have h3 : (epVal (at_rmE s r step) x).1 ≠ a := by
            rw [at_rmE_epVal_ne _ _ _ hxr]; exact hne x hx hxr
          simp [h3]
      · rw [if_neg hu]
        unfold absAtt
        rw [at_map_epVal_rmE_notin s r step (hO.hS t u hu r hr)]

/-! ### (4) frame, and preservation of `EpOK` / `EpOKAll` -/

/-- `EpOK` relative to a set `P` of attachment objects (`EpOK`: the attackers of the model, `EpOKAll`: all) -/
def EpOKOn (P : TRef → Prop) (s : H) : Prop :=
  (∀ t, P t → ∀ r ∈ (s.t t).entry_points, r < s.efresh) ∧
  (∀ t, P t → ∀ u, P u → t ≠ u → ∀ r ∈ (s.t t).entry_points, r ∉ (s.t u).entry_points)

theorem at_epOK_iff (s : H) : EpOK s ↔ EpOKOn (· ∈ s.attackers) s :=
  ⟨fun h => ⟨h.fresh, h.disjoint⟩, fun h => ⟨h.1, h.2⟩⟩
theorem at_epOKAll_iff (s : H) : EpOKAll s ↔ EpOKOn (fun _ => True) s :=
  ⟨fun h => ⟨fun t _ => h.hF t, fun t _ u _ htu => h.hS t u (Ne.symm htu)⟩,
   fun h => ⟨fun t u hut => h.2 t trivial u trivial (Ne.symm hut), fun u => h.1 u trivial⟩⟩

/-- only the list of `t` changes: it loses elements or gains the tuple allocated last -/
structure AtStep (t : TRef) (s s' : H) : Prop where
  efresh : s.efresh ≤ s'.efresh
  other : ∀ u, u ≠ t → s'.t u = s.t u
  mem : ∀ x ∈ (s'.t t).entry_points, x ∈ (s.t t).entry_points ∨ (x = s.efresh ∧ s.efresh < s'.efresh)

theorem AtStep.epOKOn {P : TRef → Prop} {t : TRef} {s s' : H} (hs : AtStep t s s') (h : EpOKOn P s) :
    EpOKOn P s' := by
  have hlt : ∀ u, P u → ∀ x ∈ (s'.t u).entry_points, x ∈ (s.t u).entry_points ∨ (x = s.efresh ∧ s.efresh < s'.efresh) := by
    intro u _ x hx
    by_cases hu : u = t
    · subst hu; exact hs.mem x hx
    · rw [hs.other u hu] at hx; exact Or.inl hx
  refine ⟨?_, ?_⟩
  · intro u hu x hx
    rcases hlt u hu x hx with h1 | ⟨h1, h2⟩
    · exact Nat.lt_of_lt_of_le (h.1 u hu x h1) hs.efresh
    · rw [h1]; exact h2
  · intro t1 ht1 u1 hu1 hne r hr hr'
    rcases hlt t1 ht1 r hr with h1 | ⟨h1, _⟩ <;> rcases hlt u1 hu1 r hr' with h2 | ⟨h2, _⟩
    · exact h.2 t1 ht1 u1 hu1 hne r h1 h2
    · have := h.1 t1 ht1 r h1; rw [h2] at this; exact Nat.lt_irrefl _ this
    · have := h.1 u1 hu1 r h2; rw [h1] at this; exact Nat.lt_irrefl _ this
    · -- the new tuple is in two lists: only the list of `t` can have got it
      by_cases e1 : t1 = t
      · have e2 : u1 ≠ t := fun e => hne (e1.trans e.symm)
        rw [hs.other u1 e2] at hr'
        have := h.1 u1 hu1 r hr'; rw [h2] at this; exact Nat.lt_irrefl _ this
      · rw [hs.other t1 e1] at hr
        have := h.1 t1 ht1 r hr; rw [h1] at this; exact Nat.lt_irrefl _ this

theorem AtStep.refl (t : TRef) (s : H) : AtStep t s s := ⟨Nat.le_refl _, fun _ _ => rfl, fun _ hx => Or.inl hx⟩
theorem AtStep.setE (t : TRef) (s : H) (r : ERef) (o : PyEp) : AtStep t s (s.setE r o) :=
  ⟨Nat.le_refl _, fun _ _ => rfl, fun _ hx => Or.inl hx⟩

theorem add_entry_point_atStep (s : H) (env : ModelEnv) (t : TRef) (a : ARef) (step : String) :
    AtStep t s (attachment_add_entry_point s env t a step) := by
  cases hg : attachment_get_entry_point_tuple s env t a with
  | none =>
    rw [at_add_none step hg]
    refine ⟨Nat.le_succ _, fun u hu => ?_, ?_⟩
    · rw [at_alloc_t, if_neg hu]
    · intro x hx
      rw [at_alloc_t, if_pos rfl] at hx
      rcases List.mem_append.1 hx with h | h
      · exact Or.inl h
      · exact Or.inr ⟨List.mem_singleton.1 h, Nat.lt_succ_self _⟩
  | some r =>
    rw [at_add_some step hg]
    split
    · exact AtStep.refl t s
    · exact AtStep.setE t s _ _

theorem add_entry_point_atFrame (s : H) (env : ModelEnv) (t : TRef) (a : ARef) (step : String) :
    AtFrame s (attachment_add_entry_point s env t a step) := by
  cases hg : attachment_get_entry_point_tuple s env t a with
  | none => rw [at_add_none step hg]; exact (AtFrame.allocE s _).trans (AtFrame.setT _ _ _)
  | some r =>
    rw [at_add_some step hg]
    split
    · exact AtFrame.refl s
    · exact AtFrame.setE s _ _

/-- `remove_entry_point` never raises; its result -/
theorem at_rm_ok {s s' : H} {env : ModelEnv} {t : TRef} {a : ARef} {step : String}
    (h : attachment_remove_entry_point s env t a step = .ok s') :
    s' = s ∨ ∃ r, s' = at_rmE s r step ∨
      ∃ v, (∀ x ∈ v, x ∈ (s.t t).entry_points) ∧ s' = (at_rmE s r step).setT t { s.t t with entry_points := v } := by
  cases hg : attachment_get_entry_point_tuple s env t a with
  | none => rw [at_rm_none step hg] at h; cases h; exact Or.inl rfl
  | some r =>
    rw [at_rm_some step hg] at h
    refine Or.inr ⟨r, ?_⟩
    split at h
    · obtain ⟨v, hv, h2⟩ := bind_ok h
      cases h2
      refine Or.inr ⟨v, ?_, rfl⟩
      unfold pyRemoveBy at hv
      split at hv
      · cases hv
        exact fun x hx => (List.eraseP_subset) hx
      · cases hv
    · cases h; exact Or.inl rfl

theorem remove_entry_point_ok (s : H) (env : ModelEnv) (t : TRef) (a : ARef) (step : String) :
    ∃ s', attachment_remove_entry_point s env t a step = .ok s' := by
  cases hg : attachment_get_entry_point_tuple s env t a with
  | none => exact ⟨s, at_rm_none step hg⟩
  | some r =>
    rw [at_rm_some step hg]
    have hr : r ∈ (s.t t).entry_points := by rw [at_get_eq] at hg; exact List.mem_of_find?_eq_some hg
    have : pyIn (eqEp env (at_rmE s r step)) (s.t t).entry_points r = true :=
      List.any_eq_true.2 ⟨r, hr, by unfold eqEp; simp⟩
    unfold pyRemoveBy
    rw [this, if_pos rfl, ok_bind]
    split <;> exact ⟨_, rfl⟩

theorem remove_entry_point_atStep {s s' : H} {env : ModelEnv} {t : TRef} {a : ARef} {step : String}
    (h : attachment_remove_entry_point s env t a step = .ok s') : AtStep t s s' := by
  rcases at_rm_ok h with rfl | ⟨r, rfl | ⟨v, hv, rfl⟩⟩
  · exact AtStep.refl t _
  · exact ⟨Nat.le_of_eq (at_rmE_efresh s r step).symm, fun u _ => by rw [at_rmE_t], fun x hx => by
      rw [at_rmE_t] at hx; exact Or.inl hx⟩
  · refine ⟨Nat.le_of_eq (at_rmE_efresh s r step).symm, fun u hu => ?_, fun x hx => ?_⟩
    · rw [at_setT_t, if_neg hu, at_rmE_t]
    · rw [at_setT_t, if_pos rfl] at hx; exact Or.inl (hv x hx)

theorem remove_entry_point_atFrame {s s' : H} {env : ModelEnv} {t : TRef} {a : ARef} {step : String}
    (h : attachment_remove_entry_point s env t a step = .ok s') : AtFrame s s' := by
  rcases at_rm_ok h with rfl | ⟨r, rfl | ⟨v, _, rfl⟩⟩
  · exact AtFrame.refl _
  · exact at_rmE_frame s r step
  · exact (at_rmE_frame s r step).trans (AtFrame.setT _ _ _)

/-! ### the requested statements -/

theorem add_entry_point_frame (s : H) (env : ModelEnv) (t : TRef) (a : ARef) (step : String) :
    (attachment_add_entry_point s env t a step).attackers = s.attackers ∧
    (attachment_add_entry_point s env t a step).afresh = s.afresh ∧
    (attachment_add_entry_point s env t a step).lfresh = s.lfresh ∧
    (attachment_add_entry_point s env t a step).tfresh = s.tfresh ∧
    (attachment_add_entry_point s env t a step).a = s.a ∧
    (attachment_add_entry_point s env t a step).l = s.l :=
  have h := add_entry_point_atFrame s env t a step
  ⟨h.attackers, h.afresh, h.lfresh, h.tfresh, h.a, h.l⟩

theorem remove_entry_point_frame {s s' : H} {env : ModelEnv} {t : TRef} {a : ARef} {step : String}
    (h : attachment_remove_entry_point s env t a step = .ok s') :
    s'.attackers = s.attackers ∧ s'.afresh = s.afresh ∧ s'.lfresh = s.lfresh ∧ s'.tfresh = s.tfresh ∧
    s'.a = s.a ∧ s'.l = s.l :=
  have h := remove_entry_point_atFrame h
  ⟨h.attackers, h.afresh, h.lfresh, h.tfresh, h.a, h.l⟩

theorem add_entry_point_epOKAll {s : H} (hO : EpOKAll s) (env : ModelEnv) (t : TRef) (a : ARef) (step : String) :
    EpOKAll (attachment_add_entry_point s env t a step) :=
  (at_epOKAll_iff _).2 ((add_entry_point_atStep s env t a step).epOKOn ((at_epOKAll_iff s).1 hO))

/-- the plain `EpOK` is preserved as well (no other hypothesis is needed) -/
theorem add_entry_point_epOK {s : H} (hO : EpOK s) (env : ModelEnv) (t : TRef) (a : ARef) (step : String) :
    EpOK (attachment_add_entry_point s env t a step) := by
  rw [at_epOK_iff, (add_entry_point_atFrame s env t a step).attackers]
  exact (add_entry_point_atStep s env t a step).epOKOn ((at_epOK_iff s).1 hO)

theorem remove_entry_point_epOKAll {s s' : H} (hO : EpOKAll s) {env : ModelEnv} {t : TRef} {a : ARef} {step : String}
    (h : attachment_remove_entry_point s env t a step = .ok s') : EpOKAll s' :=
  (at_epOKAll_iff _).2 ((remove_entry_point_atStep h).epOKOn ((at_epOKAll_iff s).1 hO))

theorem remove_entry_point_epOK {s s' : H} (hO : EpOK s) {env : ModelEnv} {t : TRef} {a : ARef} {step : String}
    (h : attachment_remove_entry_point s env t a step = .ok s') : EpOK s' := by
  rw [at_epOK_iff, (remove_entry_point_atFrame h).attackers]
  exact (remove_entry_point_atStep h).epOKOn ((at_epOK_iff s).1 hO)

/-! ### why `EpOKAll` and not `EpOK` in the two tie theorems

One asset, attacker `0` in the model, and a second attachment object `1` that is *not* (e.g. no longer, after
`remove_attacker`) in `model.attackers` but holds the same tuple object (`att1.entry_points = list(att0.entry_points)`).
`EpOK` and the invariant hold; `add_entry_point` on attacker `0` changes the list inside the shared tuple, so the
abstraction of object `1` changes, whereas `MS.addEntryPoint` touches object `0` only. -/

def at_cex : H :=
  { a := fun _ => { id := some 0, name := some "a" }, afresh := 1
    t := fun u => if u ≤ 1 then { id := some 0, name := some "x", entry_points := [0] } else {}
    tfresh := 2
    e := fun _ => { asset := 0, steps := [] }, efresh := 1
    assets := [0], attackers := [0], asset_ids := [0], asset_names := ["a"], next_id := 1 }

def at_cexEnv : ModelEnv := { eqA := fun _ _ => false, eqL := fun _ _ => false, whileFuel := 0 }

theorem at_cex_eqId : EqId at_cexEnv := ⟨fun _ _ h => (by cases h), fun _ _ h => (by cases h)⟩

theorem at_cex_epOK : EpOK at_cex := by
  refine ⟨?_, ?_⟩
  · intro t ht r hr
    simp [at_cex] at ht hr ⊢
    subst ht; simp at hr; omega
  · intro t ht u hu htu
    simp [at_cex] at ht hu
    exact absurd (ht.trans hu.symm) htu

theorem at_cex_differs :
    ((abs (attachment_add_entry_point at_cex at_cexEnv 0 0 "s")).tobj 1).entry = [(0, ["s"])] ∧
    ((MS.addEntryPoint (abs at_cex) 0 0 "s").tobj 1).entry = [(0, [])] := by
  refine ⟨?_, ?_⟩
  · have hg : attachment_get_entry_point_tuple at_cex at_cexEnv 0 0 = some 0 := by
      rw [at_get_eq]; simp [at_cex, eqAsset]
    rw [at_add_some "s" hg]
    simp [at_cex, abs, absAtt, epVal, H.setE]
  · simp [MS.addEntryPoint, MS.updT, abs, absAtt, epVal, at_cex]

theorem at_cex_inv : MS.Inv (abs at_cex) := by
  refine ⟨⟨?_, ?_, ?_, ?_, ?_, ?_, ?_, ?_, ?_⟩, ⟨?_, ?_, ?_, ?_, ?_, ?_, ?_⟩, ⟨?_, ?_, ?_, ?_⟩, ⟨?_, ?_, ?_, ?_⟩⟩ <;>
    simp [abs, at_cex, absAsset, absAtt, epVal, attrInt, attrStr, MS.ttaGet]
  · exact fun i => eq_comm
  · exact fun n => eq_comm

/-- the tie statement with the plain `EpOK` is false -/
theorem at_add_entry_point_tie_epOK_false :
    ¬ (∀ {env : ModelEnv} (_ : EqId env) (s : H) (_ : MS.Inv (abs s)) (_ : EpOK s) (t : TRef) (_ : t ∈ s.attackers)
        (a : ARef) (step : String),
        abs (attachment_add_entry_point s env t a step) = MS.addEntryPoint (abs s) t a step) := by
  intro h
  have e := h at_cex_eqId at_cex at_cex_inv at_cex_epOK 0 (by simp [at_cex]) 0 "s"
  have h1 := at_cex_differs.1
  rw [e, at_cex_differs.2] at h1
  simp at h1

end MalVerif.PyM.Tie
