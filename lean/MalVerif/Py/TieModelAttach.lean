import MalVerif.Py.AbsModel
import MalVerif.Py.GenModel.Attachment
namespace MalVerif.PyM.Tie
open MalVerif MalVerif.PyM MalVerif.PyM.Gen

theorem at_get_eq (s : H) (env : ModelEnv) (t : TRef) (a : ARef) :
    attachment_get_entry_point_tuple s env t a =
      (s.t t).entry_points.find? (fun r => eqAsset env s (s.e r).asset a) := rfl

theorem at_add_some {s : H} {env : ModelEnv} {t : TRef} {a : ARef} {r : ERef} (step : String)
    (h : attachment_get_entry_point_tuple s env t a = some r) :
    attachment_add_entry_point s env t a step =
      if (s.e r).steps.contains step then s else
          s.setE r { s.e r with steps := (s.e r).steps ++ [step] } := by
  unfold attachment_add_entry_point
  simp only [h, Id.run, pure]
  cases (s.e r).steps.contains step <;> rfl

theorem at_add_none {s : H} {env : ModelEnv} {t : TRef} {a : ARef} (step : String)
    (h : attachment_get_entry_point_tuple s env t a = none) :
    attachment_add_entry_point s env t a step =
      ((s.allocE { asset := a, steps := [step] }).1).setT t
        { s.t t with entry_points := (s.t t).entry_points ++ [s.efresh] } := by
  unfold attachment_add_entry_point
  simp only [h, Id.run, pure]
  rfl

/-- the first half of `remove_entry_point`: the step is removed from the list inside the tuple object -/
def at_rmE (s : H) (r : ERef) (step : String) : H :=
  if (s.e r).steps.contains step then s.setE r { s.e r with steps := (s.e r).steps.erase step } else s

theorem at_rm_some {s : H} {env : ModelEnv} {t : TRef} {a : ARef} {r : ERef} (step : String)
    (h : attachment_get_entry_point_tuple s env t a = some r) :
    attachment_remove_entry_point s env t a step =
      if ((at_rmE s r step).e r).steps.isEmpty then
        match pyRemoveBy (eqEp env (at_rmE s r step)) (s.t t).entry_points r with
        | .error err => .error err
        | .ok v => .ok ((at_rmE s r step).setT t { s.t t with entry_points := v })
      else .ok (at_rmE s r step) := by
  unfold attachment_remove_entry_point at_rmE
  simp only [h, bind, Except.bind, pure, Except.pure, Bool.not_not]
  by_cases hc : (s.e r).steps.contains step = true
  · simp only [hc, pyRemove, if_true]
    rfl
  · simp only [hc]
    rfl

theorem at_rm_none {s : H} {env : ModelEnv} {t : TRef} {a : ARef} (step : String)
    (h : attachment_get_entry_point_tuple s env t a = none) :
    attachment_remove_entry_point s env t a step = .ok s := by
  unfold attachment_remove_entry_point
  simp only [h, bind, Except.bind, pure, Except.pure]

end MalVerif.PyM.Tie
