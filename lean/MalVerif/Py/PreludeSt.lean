/-
Conventions of the *state-keeping* emission mode of the translators (`translators/py2lean_st.py`,
`translators/py2lean_stmodel.py`): the heap AFTER an exception.

The first emission mode turns a Python mutator into `H → Args → Except PyErr H`: when the Python raises, the heap
is dropped.  Here the same statements are emitted into the monad

    StM ε H α  =  Except (ε × H) α

i.e. an exception carries the heap *as it is at the moment the exception propagates*.  The rules (each applied to
the one statement in front of the translator, nothing else changes):

  * `raise E`                         ↦ `throw (E, s)`        -- `s` is the mutable heap variable of the `do` block:
                                                                 at this point it holds every write made so far
  * a raising helper / a raising call of a translated function that does not write the heap
    (`l.remove(x)`, `del d[k]`, `d[k]`, `getattr`, `_validate_association(..)` …)
                                      ↦ `liftE s (…)`         -- raises in the current heap `s`
  * a call of a translated mutator that may raise, `s ← f s args`
                                      ↦ `s ← f_st s args`     -- the heap of the callee's exception is the heap
                                                                 (one global heap; Python has no transactions)
  * everything else (heap writes `s := …`, `for`, `if`, `return`, calls of mutators that cannot raise) is emitted
    exactly as in the first mode.

A `for` loop that raises in iteration k therefore keeps the writes of the iterations < k: they are in `s`.
This file is generic in the error type `ε` and the heap type `σ` (the attack-graph core and the instance model
have their own `PyErr` / `H`).  It is part of the trusted base (it is 4 definitions).
-/
namespace MalVerif.PySt

/-- a computation that may raise; the exception carries the heap at the moment it propagates -/
abbrev StM (ε σ α : Type) := Except (ε × σ) α

/-- a raising computation that does not write the heap, run while the heap is `s` -/
def liftE {ε σ α : Type} (s : σ) (x : Except ε α) : StM ε σ α :=
  match x with
  | .ok a => .ok a
  | .error e => .error (e, s)

/-- forget the heap of the exception: what the first emission mode computes (see the coherence theorems) -/
def erase {ε σ α : Type} (x : StM ε σ α) : Except ε α :=
  match x with
  | .ok a => .ok a
  | .error (e, _) => .error e

/-- the observable outcome of a mutator: the heap afterwards (whether or not it raised) and `ok` / the exception -/
def run {ε σ : Type} (x : StM ε σ σ) : σ × Except ε Unit :=
  match x with
  | .ok s' => (s', .ok ())
  | .error (e, s') => (s', .error e)

end MalVerif.PySt
