import MalVerif.Py.TieLegacyOldCore
import MalVerif.Py.TieLegacyOldAssets
import MalVerif.Py.TieLegacyOldAssoc
import MalVerif.Py.TieLegacyOldAtt
/-!
# Tie of the translated 0.0.39 loader (`updater.py`)  =  `Legacy.loadOld`

`process_model_tie`: on the encoding (`AbsLegacy.encOld`) of a well-formed typed 0.0.39 document, the GENERATED
`updater_process_model` returns a heap whose abstraction is the state `Legacy.loadOld` computes — started from the
state the empty heap stands for (`loadOldFrom … (abs (emptyModel name))`) — and raises exactly when `loadOld` rejects.
`process_model_tie_class`: … and the exception it raises agrees with the error of `loadOld` — the same class
(`oldErrAbs`) or one of the eight disagreements listed in `OldErrAgree` (`TieLegacyBase.lean`), each of which is realised
by a witness at the end of this file (`old_class_…`).
The three loop simulations are in `TieLegacyOldAssets/Assoc/Att.lean`, the composition in `TieLegacyOldCore.lean`.
The other four generated functions (file layer, dispatch on extension and version) are characterised below.
-/
namespace MalVerif.PyLeg.Tie
open MalVerif MalVerif.PyM MalVerif.PyM.Gen MalVerif.PyM.Tie MalVerif.PyLeg MalVerif.PyLeg.Gen MalVerif.Legacy
open MalVerif.Ser (Key)

/-- the translated `_process_model` against the hand-written `loadOld` -/
theorem process_model_tie {env : ModelEnv} (hE : EqId env) (files : Files) (fac : Factory) (hL : FieldsDistinct fac.L)
    (defsOk : Key → Bool) (nested : Bool) (name : String) (d : OldDoc) (hwf : OldWf fac.L nested d)
    (hdefs : DefsOkOf fac d defsOk) (hfuel : d.assets.length ≤ env.whileFuel) :
    okSt (updater_process_model files env (encOld nested name d) fac) =
      optSt (loadOldFrom fac.L defsOk (abs (emptyModel name)) d) :=
  process_model_sim files env fac defsOk nested name d (asset_sim env fac defsOk) (assoc_sim hE fac hL nested)
    (attacker_sim env d.attackers hwf.attackers) hwf hdefs hfuel

/-- **… with the exception class.**  The translated `_process_model` returns a model whose abstraction is the state
`loadOld` computes; or it raises `e`, and `loadOld` rejects with an error `er` that agrees with `e`: the same class
(`oldErrAbs`), or one of the eight disagreements listed in `OldErrAgree` (each realised: the witnesses at the end of this
file).  Both sides stop at the same entry of the same loop. -/
theorem process_model_tie_class {env : ModelEnv} (hE : EqId env) (files : Files) (fac : Factory) (hL : FieldsDistinct fac.L)
    (defsOk : Key → Bool) (nested : Bool) (name : String) (d : OldDoc) (hwf : OldWf fac.L nested d)
    (hdefs : DefsOkOf fac d defsOk) (hfuel : d.assets.length ≤ env.whileFuel) :
    match updater_process_model files env (encOld nested name d) fac with
    | .ok s' => loadOldFrom fac.L defsOk (abs (emptyModel name)) d = .ok (abs s')
    | .error e => ∃ er, loadOldFrom fac.L defsOk (abs (emptyModel name)) d = .error er ∧ OldErrAgree e er :=
  process_model_sim_class files env fac defsOk nested name d (asset_sim env fac defsOk) (assoc_sim hE fac hL nested)
    (attacker_sim env d.attackers hwf.attackers) hwf hdefs hfuel

/-- the hand-written 0.0.39 loader on the old layout of a native document without extras = the hand-written native
loader on that document, from ANY start state (the statement of `C18.old_agrees` is the instance `s0 = {}`) -/
theorem loadOldFrom_emitOld (L : Lang) (defsOk : Key → Bool) (s0 : MS.St) (d : Ser.ModelDoc) (h : NoExtras d) :
    loadOldFrom L defsOk s0 (emitOld d) = fromDocFrom L defsOk s0 d := by
  unfold loadOldFrom fromDocFrom
  rw [emitOld_eq]
  dsimp only
  rw [foldlM_map', foldlM_congr_mem _ (Ser.loadAsset L defsOk) d.assets
    (fun e he s => loadOldAsset_emit L defsOk s e (h.1 e he))]
  cases d.assets.foldlM (Ser.loadAsset L defsOk) s0 with
  | error e => rfl
  | ok s1 =>
    show ((d.associations.map oldAssoc).foldlM (loadOldAssoc L) s1 >>= _) = (d.associations.foldlM (Ser.loadAssoc L) s1 >>= _)
    rw [foldlM_map', foldlM_congr_mem _ (Ser.loadAssoc L) d.associations
      (fun e he s => loadOldAssoc_emit L s e (h.2 e he))]

/-! ### the file layer and the dispatch on version / extension -/

theorem older_version_json (files : Files) (env : ModelEnv) (filename : String) (fac : Factory) (md : PyJ)
    (hy1 : filename.endsWith ".yml" = false) (hy2 : filename.endsWith ".yaml" = false)
    (hj : filename.endsWith ".json" = true) (hfile : files.json filename = .ok md) :
    updater_load_model_from_older_version files env filename fac "0.0.39" = updater_process_model files env md fac := by
  unfold updater_load_model_from_older_version updater_load_model_from_version_0_0_39 updater_load_from_json
  simp only [hy1, hy2, hj, hfile, bind, Except.bind, Bool.or_self, beq_self_eq_true, if_true]
  first | done | (cases updater_process_model files env md fac <;> rfl)

theorem older_version_yaml (files : Files) (env : ModelEnv) (filename : String) (fac : Factory) (md : PyJ)
    (hy : (filename.endsWith ".yml" || filename.endsWith ".yaml") = true) (hfile : files.yaml filename = .ok md) :
    updater_load_model_from_older_version files env filename fac "0.0.39" = updater_process_model files env md fac := by
  unfold updater_load_model_from_older_version updater_load_model_from_version_0_0_39 updater_load_from_yaml
  simp only [hy, hfile, bind, Except.bind, beq_self_eq_true, if_true]
  first | done | (cases updater_process_model files env md fac <;> rfl)

theorem older_version_unknown (files : Files) (env : ModelEnv) (filename : String) (fac : Factory) (version : String)
    (hv : version ≠ "0.0.39") :
    updater_load_model_from_older_version files env filename fac version = .error (.py .valueError) := by
  unfold updater_load_model_from_older_version
  have : (version == "0.0.39") = false := by simpa using hv
  simp only [this]
  rfl

theorem older_version_unknown_extension (files : Files) (env : ModelEnv) (filename : String) (fac : Factory)
    (hy1 : filename.endsWith ".yml" = false) (hy2 : filename.endsWith ".yaml" = false)
    (hj : filename.endsWith ".json" = false) :
    updater_load_model_from_older_version files env filename fac "0.0.39" = .error (.py .valueError) := by
  unfold updater_load_model_from_older_version updater_load_model_from_version_0_0_39
  simp only [hy1, hy2, hj, Bool.or_self, beq_self_eq_true, if_true]
  rfl

/-! ### Boolean observations of results (for kernel-evaluated examples) -/

/-- the loader returned a model that satisfies `p` -/
def loadsWith (r : Except LErr H) (p : H → Bool) : Bool :=
  match r with | .ok s => p s | .error _ => false
/-- the loader raised `e` -/
def raisesL (r : Except LErr H) (e : LErr) : Bool :=
  match r with | .ok _ => false | .error e' => e' == e
/-- the hand-written loader rejected with `e` -/
def rejects (r : Except MS.Err MS.St) (e : MS.Err) : Bool :=
  match r with | .ok _ => false | .error e' => e' == e

/-- the securiCAD loader returned a model (not `None`) that satisfies `p` -/
def loadsWithO (r : Except LErr (Option H)) (p : H → Bool) : Bool :=
  match r with | .ok (some s) => p s | _ => false

theorem raisesL_eq {r : Except LErr H} {e : LErr} (h : raisesL r e = true) : r = .error e := by
  cases r with
  | ok s => cases h
  | error e' => have := eq_of_beq (show (e' == e) = true from h); subst this; rfl
theorem rejects_eq {r : Except MS.Err MS.St} {e : MS.Err} (h : rejects r e = true) : r = .error e := by
  cases r with
  | ok s => cases h
  | error e' => have := eq_of_beq (show (e' == e) = true from h); subst this; rfl
theorem loadsWith_iff {r : Except LErr H} {p : H → Bool} : loadsWith r p = true ↔ ∃ s, r = .ok s ∧ p s = true := by
  cases r with
  | ok s => exact ⟨fun h => ⟨s, rfl, h⟩, fun ⟨s', e, h⟩ => by injection e with e; subst e; exact h⟩
  | error e => exact ⟨fun h => (by cases h), fun ⟨s', e', _⟩ => (by cases e')⟩

/-! ### the exception class: every disagreement listed in `OldErrAgree` occurs

On `Legacy.Sample.lang` (classes `Host` with the defense `patched`, `Net`; associations `NetCon` (`hosts`, `nets`), `Peer`).
Integer keys are evaluated by the kernel; a key that is not a number has to be a string, whose `String.toInt?` the kernel
cannot evaluate: those witnesses are stated for any key `k` with `k.toInt? = none`; the two whose Python side is the
`ValueError` of `int(key)` itself also ask `keyPlain k` (a text such as `" 5"` / `"+5"`, which CPython's `int` accepts, is `unmodelled`). -/

def clsEnv : ModelEnv := { eqA := fun _ _ => false, eqL := fun _ _ => false, whileFuel := 8 }
def clsFac : Factory := { L := Legacy.Sample.lang, floatOk := fun t => t == "0.0" || t == "1.0" || t == "0.5" }
def clsFiles : Files :=
  { json := fun _ => .error .unmodelled, yaml := fun _ => .error .unmodelled, eom := fun _ => .error .unmodelled }

theorem jItems_nil : jItems (PyJ.dict []) = .ok [] := rfl

/-- the first association entry of a document without assets raises: so does the loader -/
theorem process_model_first_assoc_err (files : Files) (env : ModelEnv) (fac : Factory) (nested : Bool) (name : String)
    (d : OldDoc) (a : OldAssoc) (rest : List OldAssoc) (hd : d.assets = []) (hl : d.associations = a :: rest) (e : LErr)
    (h : assocBody env fac (encAssoc nested a) (emptyModel name) = .error e) :
    updater_process_model files env (encOld nested name d) fac = .error e := by
  rw [process_model_eq]
  simp only [enc_metadata, enc_name, enc_assets, enc_assocs, enc_has_attackers, enc_attackers,
    enc_attackers_keys, jIter_list, bind, Except.bind, newModel, if_true, hd, hl, List.map_nil, List.map_cons,
    jItems_nil]
  rw [show (forIn ([] : List (PyJ × PyJ)) ({ name := name } : H) (assetBody env fac)) = .ok { name := name } from rfl]
  simp only []
  have h' : assocBody env fac (encAssoc nested a) ({ name := name } : H) = .error e := h
  rw [forIn_cons_err _ _ _ _ _ h']

/-- the first attacker of a document without assets and associations raises: so does the loader -/
theorem process_model_first_attacker_err (files : Files) (env : ModelEnv) (fac : Factory) (nested : Bool) (name : String)
    (d : OldDoc) (a : Key × Ser.AttackerEntry) (rest : List (Key × Ser.AttackerEntry)) (hd : d.assets = [])
    (hl : d.associations = []) (ht : d.attackers = a :: rest) (e : LErr)
    (h : attackerBody env (infoOf d.attackers) (keyJ a.1) (emptyModel name) = .error e) :
    updater_process_model files env (encOld nested name d) fac = .error e := by
  rw [process_model_eq]
  simp only [enc_metadata, enc_name, enc_assets, enc_assocs, enc_has_attackers, enc_attackers,
    enc_attackers_keys, jIter_list, bind, Except.bind, newModel, if_true, hd, hl, List.map_nil, jItems_nil]
  rw [show (forIn ([] : List (PyJ × PyJ)) ({ name := name } : H) (assetBody env fac)) = .ok { name := name } from rfl]
  simp only []
  rw [show (forIn ([] : List PyJ) ({ name := name } : H) (assocBody env fac)) = .ok { name := name } from rfl]
  simp only []
  have h' : forIn (d.attackers.map (fun e => keyJ e.1)) ({ name := name } : H) (attackerBody env (infoOf d.attackers)) =
      .error e := by
    conv => lhs; arg 1; rw [ht, List.map_cons]
    exact forIn_cons_err _ _ _ ({ name := name } : H) _ h
  rw [h']

theorem clsEnv_eqId : EqId clsEnv := ⟨fun _ _ h => (by cases h), fun _ _ h => (by cases h)⟩
theorem cls_fieldsDistinct : FieldsDistinct clsFac.L := by
  intro c hc
  have : c ∈ MS.assocClasses Legacy.Sample.lang := hc
  revert c
  decide

theorem nodup_one {α : Type} (x : α) : [x].Nodup := List.nodup_cons.2 ⟨List.not_mem_nil, List.nodup_nil⟩

/-- a document that is one asset entry satisfies the hypotheses of `process_model_tie_class` (whatever its key) -/
theorem wf_one_asset (fac : Factory) (nested : Bool) (k : Key) (en : OldAssetEntry) (ok : Key → Bool)
    (h1 : ((assetDefs en).map (·.1)).Nodup) (h2 : ok k = (assetDefs en).all (fun p => fac.floatOk p.2)) :
    OldWf fac.L nested { assets := [(k, en)] } ∧ DefsOkOf fac { assets := [(k, en)] } ok := by
  refine ⟨⟨fun e he => ?_, (fun a ha => nomatch ha), List.nodup_nil, (fun e he => nomatch he)⟩, fun e he => ?_⟩
  · rw [List.mem_singleton.1 he]; exact h1
  · rw [List.mem_singleton.1 he]; exact h2

/-- … one association entry of the class `NetCon` with its fields in the declared order -/
theorem wf_one_netcon (nested : Bool) (l r : List Key) (ok : Key → Bool) :
    OldWf clsFac.L nested { associations := [{ metaconcept := "NetCon", lf := "hosts", left := l, rf := "nets", right := r }] } ∧
    DefsOkOf clsFac { associations := [{ metaconcept := "NetCon", lf := "hosts", left := l, rf := "nets", right := r }] } ok := by
  refine ⟨⟨(fun e he => nomatch he), fun a ha => ?_, List.nodup_nil, (fun e he => nomatch he)⟩, (fun e he => nomatch he)⟩
  rw [List.mem_singleton.1 ha]
  refine ⟨?_, fun _ => ?_, ?_⟩
  · show "hosts" ≠ "nets"; decide
  · show "hosts" ≠ "metaconcept" ∧ "nets" ≠ "metaconcept" ∧ "hosts" ≠ "association" ∧ "nets" ≠ "association"; decide
  intro c hc
  have h : (MS.assocClasses Legacy.Sample.lang).find? (·.cls = "NetCon") =
      some ⟨"NetCon", "hosts", "Host", none, "nets", "Net", none⟩ := by decide
  have hc' : (MS.assocClasses Legacy.Sample.lang).find? (·.cls = "NetCon") = some c := hc
  rw [h] at hc'
  injection hc' with hc'
  subst hc'
  show ¬ ("hosts" = "nets" ∧ "nets" = "hosts"); decide

/-- … one attacker (assets, if any, as given) -/
theorem wf_attackers (fac : Factory) (nested : Bool) (assets : List (Key × OldAssetEntry)) (k : Key)
    (t : Ser.AttackerEntry) (ok : Key → Bool)
    (h1 : ∀ e ∈ assets, ((assetDefs e.2).map (·.1)).Nodup)
    (h2 : ∀ e ∈ assets, ok e.1 = (assetDefs e.2).all (fun p => fac.floatOk p.2)) (h3 : (t.entry.map (·.1)).Nodup) :
    OldWf fac.L nested { assets := assets, attackers := [(k, t)] } ∧
    DefsOkOf fac { assets := assets, attackers := [(k, t)] } ok := by
  refine ⟨⟨h1, (fun a ha => nomatch ha), nodup_one _, fun e he => ?_⟩, h2⟩
  rw [List.mem_singleton.1 he]; exact h3

/-! #### one fault, two names -/

/-- **(`AttributeError`, `lookupError`)**, asset loop: an entry of a class the language does not have -/
theorem old_class_unknown_asset_class :
    let d : OldDoc := { assets := [(.i 1, .full "h" "Nosuch" [])] }
    (OldWf clsFac.L true d ∧ DefsOkOf clsFac d (fun _ => true)) ∧
    updater_process_model clsFiles clsEnv (encOld true "m" d) clsFac = .error (.py .attributeError) ∧
    loadOld Legacy.Sample.lang (fun _ => true) d = .error .lookupError :=
  ⟨wf_one_asset clsFac true _ _ _ (by decide) (by decide), raisesL_eq (by decide +kernel), rejects_eq (by decide +kernel)⟩

/-- **(`AttributeError`, `lookupError`)**, association loop: an entry of a class the language does not have -/
theorem old_class_unknown_assoc_class :
    let d : OldDoc := { associations := [{ metaconcept := "Nosuch", lf := "hosts", left := [], rf := "nets", right := [] }] }
    updater_process_model clsFiles clsEnv (encOld true "m" d) clsFac = .error (.py .attributeError) ∧
    loadOld Legacy.Sample.lang (fun _ => true) d = .error .lookupError :=
  ⟨raisesL_eq (by decide +kernel), rejects_eq (by decide +kernel)⟩

/-- **(`ValueError`, `validation`)**: a member id of an association that is not a number — Python `int(id)`, the hand
model's `Ser.resolveIds` does not tell it from an unknown id -/
theorem old_class_member_not_int (k : Key) (hk : k.toInt? = none) (hp : keyPlain k = true) :
    let d : OldDoc := { associations := [{ metaconcept := "NetCon", lf := "hosts", left := [k], rf := "nets", right := [] }] }
    (OldWf clsFac.L true d ∧ DefsOkOf clsFac d (fun _ => true)) ∧
    updater_process_model clsFiles clsEnv (encOld true "m" d) clsFac = .error (.py .valueError) ∧
    loadOld Legacy.Sample.lang (fun _ => true) d = .error .validation := by
  intro d
  have hm : [k].mapM Key.toInt? = none := by rw [List.mapM_cons, hk]; rfl
  have hwf := wf_one_netcon true [k] [] (fun _ => true)
  refine ⟨hwf, ?_, ?_⟩
  · refine process_model_first_assoc_err clsFiles clsEnv clsFac true "m" d _ [] rfl rfl _ ?_
    exact assocBody_left_not_int clsEnv clsFac true _ (hwf.1.assocs _ List.mem_cons_self) _
      ⟨"NetCon", "hosts", "Host", none, "nets", "Net", none⟩
      (show (MS.assocClasses Legacy.Sample.lang).find? (·.cls = "NetCon") = some _ from by decide) (by decide) hm
      (fun k' hk' => by rw [List.mem_singleton.1 hk']; exact hp)
  · show (loadOldAssoc Legacy.Sample.lang {} _ >>= _) >>= _ = _
    rw [loadOld_left_not_int _ _ _ hm]; rfl

/-- **(`ValueError`, `lookupError`)**: the asset id of an entry point that is not a number — Python `int(asset_id)`,
`Ser.loadAttacker` does not tell it from an unknown id -/
theorem old_class_entry_point_not_int (k : Key) (hk : k.toInt? = none) (hp : keyPlain k = true) :
    let d : OldDoc := { attackers := [(.i 3, { name := "eve", entry := [(k, ["access"])] })] }
    (OldWf clsFac.L true d ∧ DefsOkOf clsFac d (fun _ => true)) ∧
    updater_process_model clsFiles clsEnv (encOld true "m" d) clsFac = .error (.py .valueError) ∧
    loadOld Legacy.Sample.lang (fun _ => true) d = .error .lookupError := by
  intro d
  have hwf := wf_attackers clsFac true [] (.i 3) { name := "eve", entry := [(k, ["access"])] } (fun _ => true)
    (fun e he => nomatch he) (fun e he => nomatch he) (nodup_one _)
  refine ⟨hwf, ?_, ?_⟩
  · refine process_model_first_attacker_err clsFiles clsEnv clsFac true "m" d _ [] rfl rfl rfl _ ?_
    exact attackerBody_ep_not_int clsEnv d.attackers hwf.1.attackers _ List.mem_cons_self
      (nodup_one _) (k, ["access"]) [] rfl hk hp _
  · simp only [loadOld, Ser.loadAttacker, show (Key.i 3).toInt? = some 3 from rfl, hk, List.foldlM_cons,
      List.foldlM_nil, List.mapM_cons, bind, Except.bind, pure, Except.pure, Option.bind_none, Option.map_none, d]

/-! #### Python does not raise (`unmodelled`), the hand model rejects -/

/-- **(`unmodelled`, `validation`)**: a `defenses` key that is not a defense of the class (pjs accepts the assignment) -/
theorem old_class_unknown_defense :
    let d : OldDoc := { assets := [(.i 1, .full "h" "Host" [("nosuch", "0.5")])] }
    (OldWf clsFac.L true d ∧ DefsOkOf clsFac d (fun _ => true)) ∧
    updater_process_model clsFiles clsEnv (encOld true "m" d) clsFac = .error .unmodelled ∧
    loadOld Legacy.Sample.lang (fun _ => true) d = .error .validation :=
  ⟨wf_one_asset clsFac true _ _ _ (by decide) (by decide), raisesL_eq (by decide +kernel), rejects_eq (by decide +kernel)⟩

/-- **(`unmodelled`, `lookupError`)**: an entry point for an asset id that is not in the file (Python stores `(None, steps)`) -/
theorem old_class_unknown_entry_point :
    let d : OldDoc := { assets := [(.i 1, .full "h" "Host" [])],
                        attackers := [(.i 3, { name := "eve", entry := [(.i 7, ["access"])] })] }
    (OldWf clsFac.L true d ∧ DefsOkOf clsFac d (fun _ => true)) ∧
    updater_process_model clsFiles clsEnv (encOld true "m" d) clsFac = .error .unmodelled ∧
    loadOld Legacy.Sample.lang (fun _ => true) d = .error .lookupError :=
  ⟨wf_attackers clsFac true _ _ _ _ (by decide) (by decide) (by decide),
   raisesL_eq (by decide +kernel), rejects_eq (by decide +kernel)⟩

/-! #### two faults in one entry: the hand model converts the key of the entry first, the Python last -/

theorem loadOld_key_not_int (L : Lang) (ok : Key → Bool) (k : Key) (hk : k.toInt? = none) (en : OldAssetEntry) :
    loadOld L ok { assets := [(k, en)] } = .error .valueError := by
  show (loadOldAsset L ok {} (k, en) >>= _) >>= _ = _
  unfold loadOldAsset
  simp only [hk]
  rfl

/-- **(`AttributeError`, `valueError`)**: an asset entry of an unknown class whose key is not a number -/
theorem old_class_unknown_asset_class_bad_key (k : Key) (hk : k.toInt? = none) :
    let d : OldDoc := { assets := [(k, .full "h" "Nosuch" [])] }
    (OldWf clsFac.L true d ∧ DefsOkOf clsFac d (fun _ => true)) ∧
    updater_process_model clsFiles clsEnv (encOld true "m" d) clsFac = .error (.py .attributeError) ∧
    loadOld Legacy.Sample.lang (fun _ => true) d = .error .valueError :=
  ⟨wf_one_asset clsFac true _ _ _ (by decide) (by decide), rfl, loadOld_key_not_int _ _ k hk _⟩

/-- **(`ValidationError`, `valueError`)**: a defense value out of range in an entry whose key is not a number -/
theorem old_class_bad_defense_value_bad_key (k : Key) (hk : k.toInt? = none) :
    let d : OldDoc := { assets := [(k, .full "h" "Host" [("patched", "2.0")])] }
    (OldWf clsFac.L true d ∧ DefsOkOf clsFac d (fun _ => false)) ∧
    updater_process_model clsFiles clsEnv (encOld true "m" d) clsFac = .error .validation ∧
    loadOld Legacy.Sample.lang (fun _ => false) d = .error .valueError :=
  ⟨wf_one_asset clsFac true _ _ _ (by decide) (by decide), rfl, loadOld_key_not_int _ _ k hk _⟩

/-- **(`unmodelled`, `valueError`)**: a `defenses` key that is not a defense of the class, in an entry whose key is
not a number (likewise: an attacker whose key is not a number with an entry point for an unknown asset id) -/
theorem old_class_unknown_defense_bad_key (k : Key) (hk : k.toInt? = none) :
    let d : OldDoc := { assets := [(k, .full "h" "Host" [("nosuch", "0.5")])] }
    (OldWf clsFac.L true d ∧ DefsOkOf clsFac d (fun _ => true)) ∧
    updater_process_model clsFiles clsEnv (encOld true "m" d) clsFac = .error .unmodelled ∧
    loadOld Legacy.Sample.lang (fun _ => true) d = .error .valueError :=
  ⟨wf_one_asset clsFac true _ _ _ (by decide) (by decide), rfl, loadOld_key_not_int _ _ k hk _⟩

/-- the eight pairs are exactly what `OldErrAgree` adds to `oldErrAbs` -/
theorem oldErrAgree_iff (e : LErr) (er : MS.Err) :
    OldErrAgree e er ↔ oldErrAbs e = some er ∨
      (e, er) ∈ [(.unmodelled, .validation), (.unmodelled, .lookupError), (.unmodelled, .valueError),
                 (.py .attributeError, .lookupError), (.py .attributeError, .valueError), (.validation, .valueError),
                 (.py .valueError, .validation), (.py .valueError, .lookupError)] := by
  cases e with
  | py p => cases p <;> cases er <;> decide
  | _ => cases er <;> decide

/-- … and none of them is an agreement of classes -/
theorem oldErr_disagreements_genuine :
    ∀ p ∈ [((.unmodelled : LErr), (.validation : MS.Err)), (.unmodelled, .lookupError), (.unmodelled, .valueError),
           (.py .attributeError, .lookupError), (.py .attributeError, .valueError), (.validation, .valueError),
           (.py .valueError, .validation), (.py .valueError, .lookupError)], oldErrAbs p.1 ≠ some p.2 := by
  decide

end MalVerif.PyLeg.Tie



