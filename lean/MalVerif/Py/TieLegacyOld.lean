import MalVerif.Py.TieLegacyOldCore
import MalVerif.Py.TieLegacyOldAssets
import MalVerif.Py.TieLegacyOldAssoc
import MalVerif.Py.TieLegacyOldAtt
/-!
# Tie of the translated 0.0.39 loader (`updater.py`)  =  `Legacy.loadOld`

`process_model_tie`: on the encoding (`AbsLegacy.encOld`) of a well-formed typed 0.0.39 document, the GENERATED
`updater_process_model` returns a heap whose abstraction is the state `Legacy.loadOld` computes — started from the
state the empty heap stands for (`loadOldFrom … (abs (emptyModel name))`) — and raises exactly when `loadOld` rejects.
The three loop simulations are in `TieLegacyOldAssets/Assoc/Att.lean`, the composition in `TieLegacyOldCore.lean`.
The other four generated functions (file layer, dispatch on extension and version) are characterised below.
-/
namespace MalVerif.PyLeg.Tie
open MalVerif MalVerif.PyM MalVerif.PyM.Gen MalVerif.PyM.Tie MalVerif.PyLeg MalVerif.PyLeg.Gen MalVerif.Legacy
open MalVerif.Ser (Key)

/-- the translated `_process_model` against the hand-written `loadOld` -/
theorem process_model_tie {env : ModelEnv} (hE : EqId env) (files : Files) (fac : Factory) (hL : FieldsDistinct fac.L)
    (defsOk : Key → Bool) (nested : Bool) (name : String) (d : OldDoc) (hwf : OldWf fac.L nested d)
    (hdefs : DefsOkOf fac d defsOk) (hfuel : d.assets.length ≤ env.whileFuel) :
    okSt (updater_process_model files env (encOld nested name d) fac) =
      optSt (loadOldFrom fac.L defsOk (abs (emptyModel name)) d) :=
  process_model_sim files env fac defsOk nested name d (asset_sim env fac defsOk) (assoc_sim hE fac hL nested)
    (attacker_sim env d.attackers hwf.attackers) hwf hdefs hfuel

/-- the hand-written 0.0.39 loader on the old layout of a native document without extras = the hand-written native
loader on that document, from ANY start state (the statement of `C18.old_agrees` is the instance `s0 = {}`) -/
theorem loadOldFrom_emitOld (L : Lang) (defsOk : Key → Bool) (s0 : MS.St) (d : Ser.ModelDoc) (h : NoExtras d) :
    loadOldFrom L defsOk s0 (emitOld d) = fromDocFrom L defsOk s0 d := by
  unfold loadOldFrom fromDocFrom
  rw [emitOld_eq]
  dsimp only
  rw [foldlM_map', foldlM_congr_mem _ (Ser.loadAsset L defsOk) d.assets
    (fun e he s => loadOldAsset_emit L defsOk s e (h.1 e he))]
  cases d.assets.foldlM (Ser.loadAsset L defsOk) s0 with
  | error e => rfl
  | ok s1 =>
    show ((d.associations.map oldAssoc).foldlM (loadOldAssoc L) s1 >>= _) = (d.associations.foldlM (Ser.loadAssoc L) s1 >>= _)
    rw [foldlM_map', foldlM_congr_mem _ (Ser.loadAssoc L) d.associations
      (fun e he s => loadOldAssoc_emit L s e (h.2 e he))]

/-! ### the file layer and the dispatch on version / extension -/

theorem older_version_json (files : Files) (env : ModelEnv) (filename : String) (fac : Factory) (md : PyJ)
    (hy1 : filename.endsWith ".yml" = false) (hy2 : filename.endsWith ".yaml" = false)
    (hj : filename.endsWith ".json" = true) (hfile : files.json filename = .ok md) :
    updater_load_model_from_older_version files env filename fac "0.0.39" = updater_process_model files env md fac := by
  unfold updater_load_model_from_older_version updater_load_model_from_version_0_0_39 updater_load_from_json
  simp only [hy1, hy2, hj, hfile, bind, Except.bind, Bool.or_self, beq_self_eq_true, if_true]
  first | done | (cases updater_process_model files env md fac <;> rfl)

theorem older_version_yaml (files : Files) (env : ModelEnv) (filename : String) (fac : Factory) (md : PyJ)
    (hy : (filename.endsWith ".yml" || filename.endsWith ".yaml") = true) (hfile : files.yaml filename = .ok md) :
    updater_load_model_from_older_version files env filename fac "0.0.39" = updater_process_model files env md fac := by
  unfold updater_load_model_from_older_version updater_load_model_from_version_0_0_39 updater_load_from_yaml
  simp only [hy, hfile, bind, Except.bind, beq_self_eq_true, if_true]
  first | done | (cases updater_process_model files env md fac <;> rfl)

theorem older_version_unknown (files : Files) (env : ModelEnv) (filename : String) (fac : Factory) (version : String)
    (hv : version ≠ "0.0.39") :
    updater_load_model_from_older_version files env filename fac version = .error (.py .valueError) := by
  unfold updater_load_model_from_older_version
  have : (version == "0.0.39") = false := by simpa using hv
  simp only [this]
  rfl

theorem older_version_unknown_extension (files : Files) (env : ModelEnv) (filename : String) (fac : Factory)
    (hy1 : filename.endsWith ".yml" = false) (hy2 : filename.endsWith ".yaml" = false)
    (hj : filename.endsWith ".json" = false) :
    updater_load_model_from_older_version files env filename fac "0.0.39" = .error (.py .valueError) := by
  unfold updater_load_model_from_older_version updater_load_model_from_version_0_0_39
  simp only [hy1, hy2, hj, Bool.or_self, beq_self_eq_true, if_true]
  rfl

/-! ### Boolean observations of results (for kernel-evaluated examples) -/

/-- the loader returned a model that satisfies `p` -/
def loadsWith (r : Except LErr H) (p : H → Bool) : Bool :=
  match r with | .ok s => p s | .error _ => false
/-- the loader raised `e` -/
def raisesL (r : Except LErr H) (e : LErr) : Bool :=
  match r with | .ok _ => false | .error e' => e' == e
/-- the hand-written loader rejected with `e` -/
def rejects (r : Except MS.Err MS.St) (e : MS.Err) : Bool :=
  match r with | .ok _ => false | .error e' => e' == e

/-- the securiCAD loader returned a model (not `None`) that satisfies `p` -/
def loadsWithO (r : Except LErr (Option H)) (p : H → Bool) : Bool :=
  match r with | .ok (some s) => p s | _ => false

theorem raisesL_eq {r : Except LErr H} {e : LErr} (h : raisesL r e = true) : r = .error e := by
  cases r with
  | ok s => cases h
  | error e' => have := eq_of_beq (show (e' == e) = true from h); subst this; rfl
theorem rejects_eq {r : Except MS.Err MS.St} {e : MS.Err} (h : rejects r e = true) : r = .error e := by
  cases r with
  | ok s => cases h
  | error e' => have := eq_of_beq (show (e' == e) = true from h); subst this; rfl
theorem loadsWith_iff {r : Except LErr H} {p : H → Bool} : loadsWith r p = true ↔ ∃ s, r = .ok s ∧ p s = true := by
  cases r with
  | ok s => exact ⟨fun h => ⟨s, rfl, h⟩, fun ⟨s', e, h⟩ => by injection e with e; subst e; exact h⟩
  | error e => exact ⟨fun h => (by cases h), fun ⟨s', e', _⟩ => (by cases e')⟩

end MalVerif.PyLeg.Tie
