import MalVerif.Py.TieVisitorPos
import MalVerif.Proofs.LexRender
namespace MalVerif.Py.Visitor
open MalVerif MalVerif.Mal
theorem lex_tokOK (src : String) (ts : List Tok) (h : lex src = some ts) : ∀ t ∈ ts, tokOK t = true := by
  sorry
end MalVerif.Py.Visitor
