import MalVerif.Py.TieVisitorPos
import MalVerif.Proofs.LexRender
import MalVerif.Proofs.LexPrefix
/-!
# The tokens of the model lexer are well-formed numbers

`tokOK` (the hypothesis of the visitor ties on the numeric tokens) holds for every token `lex` produces.
-/
namespace MalVerif.Py.Visitor
open MalVerif MalVerif.Mal

theorem spanChars_fst_all (p : Char → Bool) (l : List Char) : (spanChars p l).1.all p = true :=
  (spanChars_spec p l).2

theorem spanChars_fst_cons (p : Char → Bool) (c : Char) (l : List Char) (h : p c = true) :
    (spanChars p (c :: l)).1 = c :: (spanChars p l).1 := by
  simp [spanChars, h]

theorem dot_not_digit : Char.isDigit '.' = false := by decide

theorem filter_dot_digits (w : List Char) (h : w.all isDigit = true) : w.filter (· == '.') = [] := by
  rw [List.filter_eq_nil_iff]
  intro a ha
  rw [List.all_eq_true] at h
  have := h a ha
  intro hd
  have : a = '.' := by simpa using hd
  subst this
  exact absurd (h _ ha) (by decide)

theorem any_digit_of (w : List Char) (hne : w ≠ []) (h : w.all isDigit = true) : w.any Char.isDigit = true := by
  cases w with
  | nil => exact absurd rfl hne
  | cons c w =>
    simp only [List.all_cons, Bool.and_eq_true, isDigit] at h
    simp [h.1]

theorem all_digit_or_dot (w : List Char) (h : w.all isDigit = true) :
    w.all (fun c => c.isDigit || c == '.') = true := by
  rw [List.all_eq_true] at h ⊢
  intro x hx
  have := h x hx
  simp only [isDigit] at this
  simp [this]

theorem floatOK_digits (w : List Char) (hne : w ≠ []) (h : w.all isDigit = true) :
    floatOK (String.ofList w) = true := by
  simp only [floatOK, String.toList_ofList, any_digit_of w hne h, all_digit_or_dot w h, filter_dot_digits w h,
    List.length_nil, Nat.zero_le, decide_true, Bool.and_self]

theorem tokOK_int_of (w : List Char) (hne : w ≠ []) (h : w.all isDigit = true) :
    tokOK (.int (String.ofList w)) = true := by
  have h' : w.all Char.isDigit = true := h
  have hs : String.ofList w ≠ "" := by
    intro he
    have := congrArg String.toList he
    simp only [String.toList_ofList] at this
    exact hne (by simpa using this)
  simp only [tokOK, numOK, intOK, floatOK_digits w hne h, String.toList_ofList, h', Bool.and_true, Bool.true_and,
    bne_iff_ne, ne_eq]
  exact hs

theorem floatOK_frac (w frac : List Char) (hw : w.all isDigit = true) (hne : frac ≠ [])
    (hf : frac.all isDigit = true) : floatOK (String.ofList (w ++ '.' :: frac)) = true := by
  have h1 : (w ++ '.' :: frac).any Char.isDigit = true := by
    simp only [List.any_append, List.any_cons, any_digit_of frac hne hf, Bool.or_true]
  have h2 : (w ++ '.' :: frac).all (fun c => c.isDigit || c == '.') = true := by
    simp [List.all_append, all_digit_or_dot w hw, all_digit_or_dot frac hf]
  have h3 : ((w ++ '.' :: frac).filter (· == '.')).length ≤ 1 := by
    simp [List.filter_append, filter_dot_digits w hw, filter_dot_digits frac hf]
  simp only [floatOK, String.toList_ofList, h1, h2, h3, decide_true, Bool.and_self]

theorem tokOK_float_a (w frac : List Char) (hw : w.all isDigit = true) (hne : frac ≠ [])
    (hf : frac.all isDigit = true) : tokOK (.float (String.ofList (w ++ '.' :: frac))) = true := by
  simp only [tokOK, numOK, intOK, floatOK_frac w frac hw hne hf, Bool.and_self]

theorem tokOK_float_b (frac : List Char) (hne : frac ≠ []) (hf : frac.all isDigit = true) :
    tokOK (.float (String.ofList ('.' :: frac))) = true :=
  tokOK_float_a [] frac rfl hne hf

theorem tokOK_wordTok (s : String) (h : s.toList.all isDigit = false) : tokOK (wordTok s) = true := by
  unfold wordTok
  split <;> first | rfl | simp [h, tokOK, numOK, intOK]

theorem tokOK_cons {t : Tok} {a : List Tok} (ht : tokOK t = true) (ha : ∀ t ∈ a, tokOK t = true) :
    ∀ x ∈ t :: a, tokOK x = true := by
  intro x hx
  rcases List.mem_cons.mp hx with rfl | hx
  · exact ht
  · exact ha x hx

theorem spanChars_cons_eq {p : Char → Bool} {c : Char} {l w r : List Char} (h : spanChars p (c :: l) = (w, r))
    (hc : p c = true) : w ≠ [] ∧ w.all p = true := by
  have h1 := spanChars_fst_all p (c :: l)
  have h2 := spanChars_fst_cons p c l hc
  rw [h] at h1 h2
  simp only at h1 h2
  exact ⟨by rw [h2]; exact List.cons_ne_nil _ _, h1⟩

/-- every token the model lexer produces carries a text Python's `float` accepts (INT, FLOAT) and, for INT, a
non-empty string of ASCII digits -/
theorem lexAux_tokOK (f : Nat) (cs : List Char) (ts : List Tok) (h : lexAux f cs = some ts) :
    ∀ t ∈ ts, tokOK t = true := by
  fun_induction lexAux f cs generalizing ts <;>
    (try simp +zetaDelta only [Option.map_eq_some_iff, Option.some.injEq, reduceCtorEq] at h) <;>
    (try (obtain ⟨a, ha, rfl⟩ := h)) <;>
    (try (first | (simp; done) | (apply tokOK_cons rfl; solve_by_elim) | solve_by_elim))
  case case6 =>
    have hf := spanChars_cons_eq ‹spanChars isDigit _ = _› ‹isDigit _ = true›
    exact tokOK_cons (tokOK_float_a _ _ ‹List.all _ isDigit = true› hf.1 hf.2) (by solve_by_elim)
  case case7 =>
    have hw := spanChars_cons_eq ‹spanChars isIdChar _ = _› ‹isIdChar _ = true›
    exact tokOK_cons (tokOK_int_of _ hw.1 ‹List.all _ isDigit = true›) (by solve_by_elim)
  case case8 =>
    have hw := spanChars_cons_eq ‹spanChars isIdChar _ = _› ‹isIdChar _ = true›
    exact tokOK_cons (tokOK_int_of _ hw.1 ‹List.all _ isDigit = true›) (by solve_by_elim)
  case case9 =>
    refine tokOK_cons (tokOK_wordTok _ ?_) (by solve_by_elim)
    rw [String.toList_ofList]
    exact Bool.eq_false_iff.mpr ‹¬ List.all _ isDigit = true›
  case case10 =>
    have hf := spanChars_cons_eq ‹spanChars isDigit _ = _› ‹isDigit _ = true›
    exact tokOK_cons (tokOK_float_b _ hf.1 hf.2) (by solve_by_elim)

theorem lex_tokOK (src : String) (ts : List Tok) (h : lex src = some ts) : ∀ t ∈ ts, tokOK t = true :=
  lexAux_tokOK _ _ ts h

end MalVerif.Py.Visitor
