import MalVerif.Py.GenNeo4j.GetModel
import MalVerif.Py.AbsNeo4j
import MalVerif.Py.TieModelAssets
import MalVerif.Py.TieModelAssoc
/-!
# Tie: translated `get_model` of the Neo4j ingestor (`MalVerif/Py/GenNeo4j/GetModel.lean`)  vs  `Neo.getModel`

* `envOf`: the parameters of the translation (`NeoEnv`) instantiated from a language of the hand model;
* `get_model_eq`: the generated function as two named loops (`gmAssetStep`, `gmPairStep`);
* `asset_round_tie` / `asset_loop_tie`: the first loop is the first fold of `Neo.getModel` (`Neo.assetStepN`).
-/
namespace MalVerif.PyN.TieGet
open MalVerif MalVerif.PyM MalVerif.PyM.Gen MalVerif.PyN

/-! ### (1) the parameters, from a language of the hand model -/

def envOf (L : Lang) (nodes : List AssocDecl) (menv : PyM.ModelEnv) : NeoEnv where
  menv := menv
  get_association_by_fields_and_assets f1 f2 t1 t2 :=
    match LG.lookupAssoc L nodes f1 f2 t1 t2 with
    | .error _ => .error .lookupError
    | .ok none => .ok none
    | .ok (some d) =>
      .ok (some { name := d.name, left_field := ⟨⟨d.leftAsset⟩, d.leftField⟩,
                  right_field := ⟨⟨d.rightAsset⟩, d.rightField⟩ })
  get_association_by_signature name l r :=
    .ok (some (if (L.assocs.filter (·.name = name)).length > 1 then name ++ "_" ++ l ++ "_" ++ r else name))
  ns_has t := (L.findAsset t).isSome || (MS.assocClasses L).any (·.cls = t)
  ns_new_asset t n := if (L.findAsset t).isSome then .ok { type := t, name := some n } else .error .lookupError
  ns_new_assoc c :=
    match (MS.assocClasses L).find? (·.cls = c) with
    | some k => if h : k.lf ≠ k.rf then .ok { cls := c, lf := k.lf, rf := k.rf, distinct := h } else .error .other
    | none => .error .lookupError

/-! ### (2) the generated function as two named loops -/

/-- one round of the first loop (`for asset in assets_results`) -/
def gmAssetStep (env : NeoEnv) (asset : Row) (s : H) : Except PyErr (ForInStep H) :=
  (rowGet asset "a").bind fun c =>
  (PyM.dictGetE (cellDict c) "type").bind fun ty =>
  if (ty == "Attacker") = true then
    (PyM.dictGetE (cellDict c) "asset_id").bind fun t =>
    (pyIntOfStr t).bind fun id =>
    .ok (ForInStep.yield (model_add_attacker
      ((allocT s {}).1.setT (allocT s {}).2 { (allocT s {}).1.t (allocT s {}).2 with entry_points := [] })
      env.menv (allocT s {}).2 (some id)))
  else
    (PyM.dictGetE (cellDict c) "type").bind fun ty2 =>
    if (!env.ns_has ty2) = true then .error .lookupError else
    (PyM.dictGetE (cellDict c) "type").bind fun ty3 =>
    (PyM.dictGetE (cellDict c) "name").bind fun nm =>
    (env.ns_new_asset ty3 nm).bind fun o =>
    (PyM.dictGetE (cellDict c) "asset_id").bind fun t =>
    (pyIntOfStr t).bind fun id =>
    (model_add_asset (allocA s o).1 env.menv (allocA s o).2 (some id) true).bind fun s' =>
    .ok (ForInStep.yield s')

/-- the last part of a round of the second loop: the association object is built, assigned and added unless the
link exists -/
def gmLink (env : NeoEnv) (s : H) (lf rf : String) (la ra : ARef) (cls : String) (first second : ARef) :
    Except PyErr (ForInStep H) :=
  (env.ns_new_assoc cls).bind fun o =>
  (pySetattr (allocL s o).1 (allocL s o).2 lf [la]).bind fun s1 =>
  (pySetattr s1 (allocL s o).2 rf [ra]).bind fun s2 =>
  (model_association_exists_between_assets s2 env.menv cls first second).bind fun ex =>
  if (!ex) = true then
    (model_add_association s2 env.menv (allocL s o).2).bind fun s3 => .ok (ForInStep.yield s3)
  else .ok (ForInStep.yield s2)

/-- a round of the second loop for a row that is no entry point -/
def gmPairAssoc (env : NeoEnv) (s : H) (lf rf : String) (lid rid : Int) : Except PyErr (ForInStep H) :=
  match model_get_asset_by_id s env.menv lid with
  | some la =>
    match model_get_asset_by_id s env.menv rid with
    | some ra =>
      (env.get_association_by_fields_and_assets lf rf (s.a la).type (s.a ra).type).bind fun a2 =>
      match a2 with
      | some a3 =>
        (env.get_association_by_signature a3.name a3.left_field.asset.name a3.right_field.asset.name).bind fun an =>
        match truthyStr? an with
        | some cls =>
          if (a3.left_field.fieldname == lf) = true then gmLink env s lf rf la ra cls la ra
          else gmLink env s lf rf la ra cls ra la
        | _ => .error .lookupError
      | _ => .ok (ForInStep.yield s)
    | _ => .error .lookupError
  | _ => .error .lookupError

/-- a round of the second loop after the two field names and ids are read -/
def gmPairMain (env : NeoEnv) (s : H) (lf rf : String) (lid rid : Int) (att : Option Int) (tid : Int)
    (prop : String) : Except PyErr (ForInStep H) :=
  match att with
  | some v =>
    match model_get_attacker_by_id s env.menv v with
    | some t =>
      match model_get_asset_by_id s env.menv tid with
      | some x =>
        .ok (ForInStep.yield ((s.allocE { asset := x, steps := [prop] }).1.setT t
          { (s.allocE { asset := x, steps := [prop] }).1.t t with
            entry_points := ((s.allocE { asset := x, steps := [prop] }).1.t t).entry_points ++
              [(s.allocE { asset := x, steps := [prop] }).2] }))
      | _ => .error .lookupError
    | _ => .error .lookupError
  | none => gmPairAssoc env s lf rf lid rid

/-- one round of the second loop (`for assoc in assocs_results`) -/
def gmPairStep (env : NeoEnv) (assoc : Row) (s : H) : Except PyErr (ForInStep H) :=
  (rowGet assoc "r1").bind fun c1 =>
  (pyIndex (cellTypes c1) 0).bind fun lf =>
  (rowGet assoc "r2").bind fun c2 =>
  (pyIndex (cellTypes c2) 0).bind fun rf =>
  (rowGet assoc "a").bind fun ca =>
  (rowGet assoc "b").bind fun cb =>
  (PyM.dictGetE (cellDict ca) "asset_id").bind fun tl =>
  (pyIntOfStr tl).bind fun lid =>
  (PyM.dictGetE (cellDict cb) "asset_id").bind fun tr =>
  (pyIntOfStr tr).bind fun rid =>
  if (lf == "firstSteps") = true then gmPairMain env s lf rf lid rid (some rid) lid rf
  else if (rf == "firstSteps") = true then gmPairMain env s lf rf lid rid (some lid) rid lf
  else gmPairMain env s lf rf lid rid none default default

theorem get_model_eq (w : W) (env : NeoEnv) (uri user pw db : String) :
    Gen.get_model w env uri user pw db =
      (w.runData { uri := uri, user := user, password := pw, name := db } qAssets).bind fun rows1 =>
      (forIn rows1 (modelInit "Neo4j imported model") (gmAssetStep env)).bind fun s1 =>
      (w.runData { uri := uri, user := user, password := pw, name := db } qPairs).bind fun rows2 =>
      (forIn rows2 s1 (gmPairStep env)).bind fun s2 => .ok s2 := by
  unfold Gen.get_model
  rfl

theorem runData_assets (w : W) (g : NeoGraph) : w.runData g qAssets = .ok (queryAssets w.db) := by
  unfold W.runData; simp

theorem runData_pairs (w : W) (g : NeoGraph) : w.runData g qPairs = .ok (queryPairs w.db) := by
  unfold W.runData
  have h : (qPairs == qAssets) = false := by decide
  simp [h]

/-- `get_model` on a world: the two loops over the two query results -/
theorem get_model_run (w : W) (env : NeoEnv) (uri user pw db : String) :
    Gen.get_model w env uri user pw db =
      (forIn (queryAssets w.db) (modelInit "Neo4j imported model") (gmAssetStep env)).bind fun s1 =>
      (forIn (queryPairs w.db) s1 (gmPairStep env)).bind fun s2 => .ok s2 := by
  rw [get_model_eq, runData_assets, runData_pairs]
  rfl

/-! ### (3) the first loop -/

/-- the state a round of a loop hands on (`continue` and falling through are both `yield`) -/
def stepState {σ : Type} : ForInStep σ → σ
  | .yield s => s
  | .done s => s

/-- a database node `get_model` can read: the three properties are there and `asset_id` is a decimal integer -/
structure NodeWF (n : NeoNode) : Prop where
  type : hasProp n "type" = true
  name : hasProp n "name" = true
  asset_id : hasProp n "asset_id" = true
  num : ∃ id : Int, (propOf n "asset_id").toInt? = some id

def DbWF (db : Db) : Prop := ∀ n ∈ db.nodes, NodeWF n

theorem dictGetE_prop (n : NeoNode) (k : String) (h : hasProp n k = true) :
    PyM.dictGetE n.props k = .ok (propOf n k) := by
  unfold PyM.dictGetE PyM.dictGet propOf
  cases hf : n.props.find? (fun e => e.1 == k) with
  | none =>
    rw [List.find?_eq_none] at hf
    unfold hasProp at h
    rw [List.any_eq_true] at h
    obtain ⟨e, he, hk⟩ := h
    exact absurd hk (hf e he)
  | some e => rfl

theorem rowGet_a (c : Cell) : rowGet [("a", c)] "a" = .ok c := by
  simp [rowGet, PyM.dictGetE, PyM.dictGet]

theorem allocT_setT (s : H) :
    (allocT s {}).1.setT (allocT s {}).2 { (allocT s {}).1.t (allocT s {}).2 with entry_points := [] } =
      newAttObj s {} := by
  unfold allocT H.setT newAttObj
  simp only [H.mk.injEq, true_and, and_true]
  funext x
  by_cases hx : x = s.tfresh <;> simp [hx]

theorem allocA_eq (s : H) (o : PyAsset) : allocA s o = (newAssetObj s o, s.afresh) := rfl

theorem map_bind_yield (r : Except PyErr H) :
    Except.map stepState (r.bind fun s' => (.ok (ForInStep.yield s') : Except PyErr (ForInStep H))) = r := by
  cases r <;> rfl

/-- one round of the first loop is `Neo.assetStepN` -/
theorem asset_round_tie (L : Lang) (nodes : List AssocDecl) (menv : PyM.ModelEnv) (s : H) (i : Nat) (n : NeoNode)
    (hn : NodeWF n) (hfresh : ∀ a ∈ s.assets, a < s.afresh) (hfuel : s.asset_names.length + 1 ≤ menv.whileFuel) :
    absR (Except.map stepState (gmAssetStep (envOf L nodes menv) [("a", Cell.node i n)] s)) =
      Neo.assetStepN L (PyM.abs s) (absNode n) := by
  obtain ⟨id, hid⟩ := hn.num
  have hnot : s.afresh ∉ s.assets := fun h => Nat.lt_irrefl _ (hfresh _ h)
  unfold gmAssetStep Neo.assetStepN
  have hcd : cellDict (Cell.node i n) = n.props := rfl
  have hA : (absNode n).assetId = propOf n "asset_id" := rfl
  have hTy : (absNode n).type = propOf n "type" := rfl
  have hNm : (absNode n).name = propOf n "name" := rfl
  have hint : pyIntOfStr (propOf n "asset_id") = .ok id := by unfold pyIntOfStr; rw [hid]
  simp only [rowGet_a, ok_bind, hcd, dictGetE_prop n _ hn.type, dictGetE_prop n _ hn.name,
    dictGetE_prop n _ hn.asset_id, hint, hA, hTy, hNm, hid]
  by_cases hat : propOf n "type" = "Attacker"
  · have hb : (propOf n "type" == "Attacker") = true := by simp [hat]
    rw [if_pos hb, if_pos hat, allocT_setT]
    show Except.ok (PyM.abs _) = _
    have := Tie.add_attacker_tie s menv {} rfl (some id)
    exact congrArg Except.ok this
  · have hb : ¬ (propOf n "type" == "Attacker") = true := by simp [hat]
    rw [if_neg hb, if_neg hat, addAsset_eq_core]
    show absR (Except.map stepState (if (!((L.findAsset (propOf n "type")).isSome ||
        (MS.assocClasses L).any (·.cls = propOf n "type"))) = true then _ else
        (Except.bind (if (L.findAsset (propOf n "type")).isSome = true then _ else _) _))) = _
    cases hf : L.findAsset (propOf n "type") with
    | none =>
      simp only [Option.isSome, Option.isNone, Bool.false_or, if_true, Bool.false_eq_true, if_false]
      split <;> rfl
    | some d =>
      simp only [Option.isSome, Option.isNone, Bool.true_or, Bool.not_true, Bool.false_eq_true, if_false, if_true,
        ok_bind, allocA_eq]
      have h2 : (false || !(([] : List (String × String)).all fun d =>
          (MS.defensesOf L (propOf n "type")).any (·.1 = d.1))) = false := by simp
      rw [h2, if_neg (by simp), map_bind_yield]
      exact Tie.add_asset_tie s menv hnot hfuel { type := propOf n "type", name := some (propOf n "name") } (some id) true

/-! ### the whole first loop -/

/-- the first loop never leaves early: every successful round is a `yield` -/
theorem gmAssetStep_yield {env : NeoEnv} {row : Row} {s : H} {r : ForInStep H}
    (h : gmAssetStep env row s = .ok r) : r = .yield (stepState r) := by
  unfold gmAssetStep at h
  obtain ⟨c, _, h⟩ := bind_ok h
  obtain ⟨ty, _, h⟩ := bind_ok h
  split at h
  · obtain ⟨t, _, h⟩ := bind_ok h
    obtain ⟨id, _, h⟩ := bind_ok h
    cases h; rfl
  · obtain ⟨ty2, _, h⟩ := bind_ok h
    split at h
    · cases h
    · obtain ⟨ty3, _, h⟩ := bind_ok h
      obtain ⟨nm, _, h⟩ := bind_ok h
      obtain ⟨o, _, h⟩ := bind_ok h
      obtain ⟨t, _, h⟩ := bind_ok h
      obtain ⟨id, _, h⟩ := bind_ok h
      obtain ⟨s', _, h⟩ := bind_ok h
      cases h; rfl

theorem setAdd_length {α : Type} [DecidableEq α] (l : List α) (x : α) : (MS.setAdd l x).length ≤ l.length + 1 := by
  unfold MS.setAdd
  split
  · omega
  · simp

/-- what a successful round of the hand model keeps: the asset references stay below the counter, at most one
name is added -/
theorem assetStepN_inv {L : Lang} {S S' : MS.St} {n : Neo.DbNode} (h : Neo.assetStepN L S n = .ok S')
    (hf : ∀ a ∈ S.assets, a < S.afresh) :
    (∀ a ∈ S'.assets, a < S'.afresh) ∧ S'.assetNames.length ≤ S.assetNames.length + 1 := by
  unfold Neo.assetStepN at h
  split at h
  · cases h
  · split at h
    · injection h with h
      subst h
      exact ⟨hf, Nat.le_succ _⟩
    · obtain ⟨rfl, _⟩ := MS.addAsset_ok h
      refine ⟨?_, setAdd_length _ _⟩
      intro a ha
      have ha' : a ∈ S.assets ++ [S.afresh] := ha
      show a < S.afresh + 1
      rcases List.mem_append.1 ha' with h1 | h1
      · exact Nat.lt_succ_of_lt (hf a h1)
      · rw [List.mem_singleton.1 h1]; exact Nat.lt_succ_self _

/-- the row the first query returns for a stored node -/
def assetRow (e : Nat × NeoNode) : Row := [("a", Cell.node e.1 e.2)]

/-- the first loop over the rows of well-formed nodes is the fold of `Neo.assetStepN` -/
theorem asset_loop_gen (L : Lang) (nodes : List AssocDecl) (menv : PyM.ModelEnv) :
    ∀ (l : List (Nat × NeoNode)) (s : H), (∀ e ∈ l, NodeWF e.2) → (∀ a ∈ s.assets, a < s.afresh) →
      s.asset_names.length + l.length ≤ menv.whileFuel →
      absR (forIn (l.map assetRow) s (gmAssetStep (envOf L nodes menv))) =
        (l.map fun e => absNode e.2).foldlM (Neo.assetStepN L) (PyM.abs s) := by
  intro l
  induction l with
  | nil => intro s _ _ _; rfl
  | cons e l ih =>
    intro s hl hfresh hfuel
    have hfuel1 : s.asset_names.length + 1 ≤ menv.whileFuel := by
      rw [List.length_cons] at hfuel; omega
    have hr := asset_round_tie L nodes menv s e.1 e.2 (hl e (List.mem_cons_self ..)) hfresh hfuel1
    rw [List.map_cons, List.map_cons, List.forIn_cons, List.foldlM_cons, ← hr]
    show absR (Except.bind (gmAssetStep (envOf L nodes menv) [("a", Cell.node e.1 e.2)] s) _) = Except.bind _ _
    cases hg : gmAssetStep (envOf L nodes menv) [("a", Cell.node e.1 e.2)] s with
    | error err => rfl
    | ok r =>
      rw [gmAssetStep_yield hg]
      rw [hg] at hr
      have hr' : Neo.assetStepN L (PyM.abs s) (absNode e.2) = .ok (PyM.abs (stepState r)) := hr.symm
      obtain ⟨i1, i2⟩ := assetStepN_inv hr' hfresh
      show absR (forIn (l.map assetRow) (stepState r) _) = List.foldlM _ (PyM.abs (stepState r)) _
      apply ih _ (fun x hx => hl x (List.mem_cons_of_mem _ hx)) i1
      have i2' : (stepState r).asset_names.length ≤ s.asset_names.length + 1 := i2
      rw [List.length_cons] at hfuel
      omega

theorem filterMap_rows (l : List (Nat × NeoNode)) (h : ∀ e ∈ l, hasProp e.2 "type" = true) :
    l.filterMap (fun e => if hasProp e.2 "type" then some [("a", Cell.node e.1 e.2)] else none) = l.map assetRow := by
  induction l with
  | nil => rfl
  | cons e l ih =>
    rw [List.filterMap_cons, if_pos (h e (List.mem_cons_self ..)), List.map_cons,
      ih (fun x hx => h x (List.mem_cons_of_mem _ hx))]
    rfl

/-- the first loop of the translated `get_model` on a recorded database of well-formed nodes is the first fold of
`Neo.getModel` on its abstraction (from the abstraction of the empty model of the translated code) -/
theorem asset_loop_tie (L : Lang) (nodes : List AssocDecl) (menv : PyM.ModelEnv) (db : Db) (hdb : DbWF db)
    (hfuel : db.nodes.length + 1 ≤ menv.whileFuel) (nm : String) :
    absR (forIn (queryAssets db) (modelInit nm) (gmAssetStep (envOf L nodes menv))) =
      (Neo.queryAssets (absDb db)).foldlM (fun s e => Neo.assetStepN L s e.2) (PyM.abs (modelInit nm)) := by
  have hmem : ∀ e ∈ (List.range db.nodes.length).zip db.nodes, NodeWF e.2 := by
    intro e he
    exact hdb e.2 (List.of_mem_zip (a := e.1) (b := e.2) he).2
  rw [Neo.assetLoop_eq]
  unfold queryAssets
  rw [filterMap_rows _ (fun e he => (hmem e he).type)]
  rw [asset_loop_gen L nodes menv _ (modelInit nm) hmem (fun a ha => by cases ha)]
  · have : ((List.range db.nodes.length).zip db.nodes).map (fun e => absNode e.2) = (absDb db).nodes := by
      have h := List.map_snd_zip (l₁ := List.range db.nodes.length) (l₂ := db.nodes) (by simp)
      show _ = db.nodes.map absNode
      rw [← h, List.map_map, h]
      rfl
    rw [this]
  · show 0 + _ ≤ _
    rw [List.length_zip, List.length_range, Nat.min_self]
    omega

/-! ### (4) a concrete run of the translated `get_model`, checked by the kernel

The kernel does not evaluate `String.toInt?` (`int(text)`, `pyIntOfStr`).  The two loop bodies are therefore also given
with the parser as a parameter (`gmAssetStepP`, `gmPairStepP`; for `pyIntOfStr` they are the bodies above, by `rfl`);
a loop only depends on the parser through the `asset_id` texts of its rows (`loop_congr`), and on the two texts of
the example the parser is known (`Ser.toInt_toString`). -/

def gmAssetStepP (p : String → Except PyErr Int) (env : NeoEnv) (asset : Row) (s : H) : Except PyErr (ForInStep H) :=
  (rowGet asset "a").bind fun c =>
  (PyM.dictGetE (cellDict c) "type").bind fun ty =>
  if (ty == "Attacker") = true then
    (PyM.dictGetE (cellDict c) "asset_id").bind fun t =>
    (p t).bind fun id =>
    .ok (ForInStep.yield (model_add_attacker
      ((allocT s {}).1.setT (allocT s {}).2 { (allocT s {}).1.t (allocT s {}).2 with entry_points := [] })
      env.menv (allocT s {}).2 (some id)))
  else
    (PyM.dictGetE (cellDict c) "type").bind fun ty2 =>
    if (!env.ns_has ty2) = true then .error .lookupError else
    (PyM.dictGetE (cellDict c) "type").bind fun ty3 =>
    (PyM.dictGetE (cellDict c) "name").bind fun nm =>
    (env.ns_new_asset ty3 nm).bind fun o =>
    (PyM.dictGetE (cellDict c) "asset_id").bind fun t =>
    (p t).bind fun id =>
    (model_add_asset (allocA s o).1 env.menv (allocA s o).2 (some id) true).bind fun s' =>
    .ok (ForInStep.yield s')

def gmPairStepP (p : String → Except PyErr Int) (env : NeoEnv) (assoc : Row) (s : H) : Except PyErr (ForInStep H) :=
  (rowGet assoc "r1").bind fun c1 =>
  (pyIndex (cellTypes c1) 0).bind fun lf =>
  (rowGet assoc "r2").bind fun c2 =>
  (pyIndex (cellTypes c2) 0).bind fun rf =>
  (rowGet assoc "a").bind fun ca =>
  (rowGet assoc "b").bind fun cb =>
  (PyM.dictGetE (cellDict ca) "asset_id").bind fun tl =>
  (p tl).bind fun lid =>
  (PyM.dictGetE (cellDict cb) "asset_id").bind fun tr =>
  (p tr).bind fun rid =>
  if (lf == "firstSteps") = true then gmPairMain env s lf rf lid rid (some rid) lid rf
  else if (rf == "firstSteps") = true then gmPairMain env s lf rf lid rid (some lid) rid lf
  else gmPairMain env s lf rf lid rid none default default

theorem gmAssetStep_eq_P (env : NeoEnv) : gmAssetStep env = gmAssetStepP pyIntOfStr env := rfl
theorem gmPairStep_eq_P (env : NeoEnv) : gmPairStep env = gmPairStepP pyIntOfStr env := rfl

/-- the two loops with a given parser -/
def getModelP (p : String → Except PyErr Int) (w : W) (env : NeoEnv) : Except PyErr H :=
  (forIn (queryAssets w.db) (modelInit "Neo4j imported model") (gmAssetStepP p env)).bind fun s1 =>
  (forIn (queryPairs w.db) s1 (gmPairStepP p env)).bind fun s2 => .ok s2

/-- the `asset_id` texts of the cells of a row: all a round of either loop hands to the parser -/
def rowIds (row : Row) : List String :=
  row.flatMap fun kc => ((cellDict kc.2).filter (fun e => e.1 == "asset_id")).map (·.2)

theorem dictGetE_ok {ν : Type} {d : List (String × ν)} {k : String} {v : ν} (h : PyM.dictGetE d k = .ok v) :
    ∃ e ∈ d, (e.1 == k) = true ∧ e.2 = v := by
  unfold PyM.dictGetE PyM.dictGet at h
  cases hf : d.find? (fun e => e.1 == k) with
  | none => rw [hf] at h; cases h
  | some e =>
    rw [hf] at h
    injection h with h
    exact ⟨e, List.mem_of_find?_eq_some hf, List.find?_some (p := fun e : String × ν => e.1 == k) hf, h⟩

theorem mem_rowIds {row : Row} {k : String} {c : Cell} {t : String} (hc : rowGet row k = .ok c)
    (ht : PyM.dictGetE (cellDict c) "asset_id" = .ok t) : t ∈ rowIds row := by
  obtain ⟨e, he, _, rfl⟩ := dictGetE_ok hc
  obtain ⟨f, hf, hk, rfl⟩ := dictGetE_ok ht
  unfold rowIds
  rw [List.mem_flatMap]
  exact ⟨e, he, List.mem_map.2 ⟨f, List.mem_filter.2 ⟨hf, hk⟩, rfl⟩⟩

theorem bind_congr' {ε α β : Type} {x : Except ε α} {f g : α → Except ε β} (h : ∀ a, x = .ok a → f a = g a) :
    x.bind f = x.bind g := by
  cases x with
  | error e => rfl
  | ok a => exact h a rfl

theorem gmAssetStepP_congr {p q : String → Except PyErr Int} (env : NeoEnv) (row : Row) (s : H)
    (h : ∀ t ∈ rowIds row, p t = q t) : gmAssetStepP p env row s = gmAssetStepP q env row s := by
  unfold gmAssetStepP
  refine bind_congr' fun c hc => bind_congr' fun ty _ => ?_
  by_cases hb : (ty == "Attacker") = true
  · simp only [if_pos hb]
    refine bind_congr' fun t ht => ?_
    rw [h t (mem_rowIds hc ht)]
  · simp only [if_neg hb]
    refine bind_congr' fun ty2 _ => ?_
    by_cases hn : (!env.ns_has ty2) = true
    · simp only [if_pos hn]
    · simp only [if_neg hn]
      refine bind_congr' fun ty3 _ => bind_congr' fun nm _ => bind_congr' fun o _ => bind_congr' fun t ht => ?_
      rw [h t (mem_rowIds hc ht)]

theorem gmPairStepP_congr {p q : String → Except PyErr Int} (env : NeoEnv) (row : Row) (s : H)
    (h : ∀ t ∈ rowIds row, p t = q t) : gmPairStepP p env row s = gmPairStepP q env row s := by
  unfold gmPairStepP
  refine bind_congr' fun c1 _ => bind_congr' fun lf _ => bind_congr' fun c2 _ => bind_congr' fun rf _ =>
    bind_congr' fun ca hca => bind_congr' fun cb hcb => bind_congr' fun tl htl => ?_
  rw [h tl (mem_rowIds hca htl)]
  refine bind_congr' fun lid _ => bind_congr' fun tr htr => ?_
  rw [h tr (mem_rowIds hcb htr)]

theorem forIn_congr' {α σ : Type} (l : List α) (f g : α → σ → Except PyErr (ForInStep σ))
    (h : ∀ x ∈ l, ∀ s, f x s = g x s) (s : σ) : forIn l s f = forIn l s g := by
  induction l generalizing s with
  | nil => rfl
  | cons x xs ih =>
    rw [List.forIn_cons, List.forIn_cons, h x (List.mem_cons_self ..) s]
    show Except.bind _ _ = Except.bind _ _
    refine bind_congr' fun r _ => ?_
    cases r with
    | done b => rfl
    | yield b => exact ih (fun y hy => h y (List.mem_cons_of_mem _ hy)) b

/-- the run depends on the parser only through the `asset_id` texts of the query results -/
theorem getModelP_congr (p q : String → Except PyErr Int) (w : W) (env : NeoEnv)
    (h : ∀ t ∈ (queryAssets w.db ++ queryPairs w.db).flatMap rowIds, p t = q t) :
    getModelP p w env = getModelP q w env := by
  unfold getModelP
  rw [forIn_congr' _ _ _ (fun row hr s => gmAssetStepP_congr env row s (fun t ht =>
    h t (List.mem_flatMap.2 ⟨row, List.mem_append_left _ hr, ht⟩)))]
  refine bind_congr' fun s1 _ => ?_
  rw [forIn_congr' _ _ _ (fun row hr s => gmPairStepP_congr env row s (fun t ht =>
    h t (List.mem_flatMap.2 ⟨row, List.mem_append_right _ hr, ht⟩)))]

theorem get_model_eq_P (w : W) (env : NeoEnv) (uri user pw db : String) :
    Gen.get_model w env uri user pw db = getModelP pyIntOfStr w env := get_model_run w env uri user pw db

namespace Sample

def lang : Lang :=
  { assets := [{ name := "Host" }, { name := "Net" }],
    assocs := [{ name := "NetCon", leftAsset := "Host", leftField := "hosts", rightAsset := "Net", rightField := "nets" }] }

def menv : PyM.ModelEnv := { eqA := fun _ _ => false, eqL := fun _ _ => false, whileFuel := 5 }

/-- two stored assets and the two relationships `ingest_model` stores for one `NetCon` link between them -/
def world : W :=
  { db := { nodes := [{ labels := ["Host"], props := [("name", "h"), ("asset_id", "5"), ("type", "Host")] },
                      { labels := ["Net"], props := [("name", "n"), ("asset_id", "7"), ("type", "Net")] }]
            rels := [⟨0, "hosts", 1⟩, ⟨1, "nets", 0⟩] } }

/-- a parser the kernel can run: the two texts of the example -/
def parse0 (t : String) : Except PyErr Int :=
  if t = "5" then .ok 5 else if t = "7" then .ok 7 else .error .valueError

/-- what is observed of the resulting model: assets (id, name, type) and associations (class, left, right) -/
def obsH (s : H) : List (Option Int × Option String × String) × List (String × List ARef × List ARef) :=
  (s.assets.map fun a => ((s.a a).id, (s.a a).name, (s.a a).type),
   s.associations.map fun l => ((s.l l).cls, (s.l l).left, (s.l l).right))

def obs : Except PyErr H → Option (List (Option Int × Option String × String) × List (String × List ARef × List ARef))
  | .ok s => some (obsH s)
  | .error _ => none

set_option synthInstance.maxSize 1024 in
theorem run_parse0 :
    obs (getModelP parse0 world (envOf lang lang.assocs menv)) =
      some ([(some 5, some "h", "Host"), (some 7, some "n", "Net")], [("NetCon", [0], [1])]) := by
  decide +kernel

theorem parse_5 : pyIntOfStr "5" = .ok 5 := by
  have h := Ser.toInt_toString 5
  have e : toString (5 : Int) = "5" := by decide +kernel
  rw [e] at h
  unfold pyIntOfStr
  rw [h]

theorem parse_7 : pyIntOfStr "7" = .ok 7 := by
  have h := Ser.toInt_toString 7
  have e : toString (7 : Int) = "7" := by decide +kernel
  rw [e] at h
  unfold pyIntOfStr
  rw [h]

theorem world_ids : ∀ t ∈ (queryAssets world.db ++ queryPairs world.db).flatMap rowIds, t = "5" ∨ t = "7" := by
  decide +kernel

/-- the translated `get_model` on the recorded database `world` rebuilds the two assets and the link -/
theorem run_get_model (uri user pw db : String) :
    obs (Gen.get_model world (envOf lang lang.assocs menv) uri user pw db) =
      some ([(some 5, some "h", "Host"), (some 7, some "n", "Net")], [("NetCon", [0], [1])]) := by
  rw [get_model_eq_P, getModelP_congr pyIntOfStr parse0]
  · exact run_parse0
  · intro t ht
    rcases world_ids t ht with rfl | rfl
    · exact parse_5
    · exact parse_7

/-! a second database: the same two assets and link, and an attacker (id 9) with the entry point `h.access` as
`ingest_model` stores it (`h -[firstSteps]-> attacker`, `attacker -[access]-> h`).  Both orientations of the pair
come back from the second query and both are turned into an entry point: the attacker ends with the entry point
twice (two tuple objects). -/

def world2 : W :=
  { db := { nodes := world.db.nodes ++
              [{ labels := ["Attacker"], props := [("name", "Attacker:9"), ("asset_id", "9"), ("type", "Attacker")] }]
            rels := world.db.rels ++ [⟨0, "firstSteps", 2⟩, ⟨2, "access", 0⟩] } }

def parse2 (t : String) : Except PyErr Int :=
  if t = "9" then .ok 9 else parse0 t

/-- attackers: id, name, entry points (asset reference, step names) -/
def obsT (s : H) : List (Option Int × Option String × List (ARef × List String)) :=
  s.attackers.map fun t => ((s.t t).id, (s.t t).name, (s.t t).entry_points.map fun r => ((s.e r).asset, (s.e r).steps))

def obs2 : Except PyErr H → Option ((List (Option Int × Option String × String) × List (String × List ARef × List ARef)) ×
    List (Option Int × Option String × List (ARef × List String)))
  | .ok s => some (obsH s, obsT s)
  | .error _ => none

set_option synthInstance.maxSize 2048 in
theorem run2_parse2 :
    obs2 (getModelP parse2 world2 (envOf lang lang.assocs menv)) =
      some (([(some 5, some "h", "Host"), (some 7, some "n", "Net")], [("NetCon", [0], [1])]),
            [(some 9, some "Attacker:9", [(0, ["access"]), (0, ["access"])])]) := by
  decide +kernel

theorem parse_9 : pyIntOfStr "9" = .ok 9 := by
  have h := Ser.toInt_toString 9
  have e : toString (9 : Int) = "9" := by decide +kernel
  rw [e] at h
  unfold pyIntOfStr
  rw [h]

theorem world2_ids :
    ∀ t ∈ (queryAssets world2.db ++ queryPairs world2.db).flatMap rowIds, t = "5" ∨ t = "7" ∨ t = "9" := by
  decide +kernel

/-- with an attacker: the entry point is rebuilt once per orientation of the pair of relationships -/
theorem run2_get_model (uri user pw db : String) :
    obs2 (Gen.get_model world2 (envOf lang lang.assocs menv) uri user pw db) =
      some (([(some 5, some "h", "Host"), (some 7, some "n", "Net")], [("NetCon", [0], [1])]),
            [(some 9, some "Attacker:9", [(0, ["access"]), (0, ["access"])])]) := by
  rw [get_model_eq_P, getModelP_congr pyIntOfStr parse2]
  · exact run2_parse2
  · intro t ht
    rcases world2_ids t ht with rfl | rfl | rfl
    · exact parse_5
    · exact parse_7
    · exact parse_9

end Sample

end MalVerif.PyN.TieGet
