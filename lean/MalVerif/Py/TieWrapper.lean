import MalVerif.Py.AbsWrapper
import MalVerif.Py.GenWrapper.Wrapper
import MalVerif.Py.TieRegenFull
import MalVerif.Py.TieAttach
import MalVerif.Py.TieApriori
import MalVerif.Props.C16
/-!
# Tie of the translated wrapper: `create_attack_graph` = load ∘ generate ∘ attach ∘ analyse

`load_from_file_eq`, `create_attack_graph_eq`: the generated functions are (unconditionally) the composition of the
stages below.  `generate_stage_tie`: with the environment of the two heaps equal to the hand model's `genEnvOf`
(`Py/TieWrapperGen.lean` proves that equation from the ties of the `model` and `lang` domains), the constructor
call returns the hand model's `genGraph`, as the heap `genHeap`; `create_attack_graph_tie` composes.
-/
namespace MalVerif.PyW.Tie
open MalVerif MalVerif.PyW MalVerif.PyW.Gen

/-! ### closed forms of the two generated functions -/

/-- the dispatch of `Model.load_from_file` on the file name -/
def loadDoc (w : WEnv) (filename : String) : Except WErr PyM.PyDoc :=
  if pyEndsWithAny filename [".yml", ".yaml"] then w.load_yaml filename
  else if pyEndsWith filename ".json" then w.load_json filename
  else .error .valueError

theorem load_from_file_eq (w : WEnv) (filename : String) (f : PyFactory) :
    model_load_from_file w filename f = (loadDoc w filename).bind (fun d => modelFromDict w d f) := by
  unfold model_load_from_file loadDoc
  by_cases h1 : pyEndsWithAny filename [".yml", ".yaml"] = true
  · simp only [h1, if_true, bind, Except.bind, pyNotNone]
  · by_cases h2 : pyEndsWith filename ".json" = true
    · simp only [h1, h2, if_true, bind, Except.bind, pyNotNone]
      cases w.load_json filename <;> rfl
    · simp only [h1, h2, bind, Except.bind, throw, throwThe, MonadExceptOf.throw]
      rfl

/-- first statement of the wrapper: a `.mar` archive, or — when the file is not a zip archive — a `.mal` source -/
def loadLang (w : WEnv) (lang_file : String) : Except WErr Py.LType.TH :=
  match lgFromMarArchive w lang_file with
  | .error .badZipFile => lgFromMalSpec w lang_file
  | r => r

/-- the constructor call inside `try … except AttackGraphStepExpressionError: sys.exit(1)` -/
def genStage (w : WEnv) (lg : Py.LType.TH) (m : PyM.H) : Except WErr WGraph :=
  match newAttackGraph w lg m with
  | .error (.graph .attackGraphStepExpressionError) => .error (.systemExit 1)
  | r => r

/-- the optional stages -/
def postStages (w : WEnv) (attach ana : Bool) (g : WGraph) : Except WErr WGraph :=
  (if attach then agAttachAttackers w g else .ok g).bind (fun g => if ana then agCalculate w g else .ok g)

/-- `log_configs` as the toolbox sets it by default: no copies of the inputs are written -/
structure QuietLogs (w : WEnv) : Prop where
  lang : w.log_configs "langspec_file" = some ""
  model : w.log_configs "model_file" = some ""

theorem tryCatch_eq {α} (x : Except WErr α) (h : WErr → Except WErr α) : tryCatch x h = (match x with | .ok a => .ok a | .error e => h e) := by
  cases x <;> rfl

theorem loadLang_inner (w : WEnv) (lf : String) :
    tryCatch (lgFromMarArchive w lf)
      (fun e_1 => if e_1.isInstance "zipfile.BadZipFile" = true then lgFromMalSpec w lf else throw e_1) =
    loadLang w lf := by
  unfold loadLang
  rw [tryCatch_eq]
  cases lgFromMarArchive w lf with
  | ok a => rfl
  | error e =>
    cases e with
    | graph x => cases x <;> rfl
    | _ => rfl

theorem genStage_inner (w : WEnv) (lg : Py.LType.TH) (m : PyM.H) :
    tryCatch (newAttackGraph w lg m)
      (fun e_2 => if e_2.isInstance "AttackGraphStepExpressionError" = true then throw (WErr.systemExit 1) else throw e_2) =
    genStage w lg m := by
  unfold genStage
  rw [tryCatch_eq]
  cases newAttackGraph w lg m with
  | ok a => rfl
  | error e =>
    cases e with
    | graph x => cases x <;> rfl
    | _ => rfl

theorem create_attack_graph_eq (w : WEnv) (hq : QuietLogs w) (lf mf : String) (attach ana : Bool) :
    create_attack_graph w lf mf attach ana =
      (loadLang w lf).bind (fun lg => (newFactory w lg).bind (fun f => (model_load_from_file w mf f).bind (fun m =>
        (genStage w lg m).bind (postStages w attach ana)))) := by
  have he : (!"".isEmpty) = false := by decide
  unfold create_attack_graph postStages
  simp only [bind_pure, loadLang_inner, genStage_inner]
  simp only [pyCfg, hq.lang, hq.model, pyTruthy, bind, Except.bind, pure, Except.pure, he,
    Bool.false_eq_true, if_false]
  cases attach <;> rfl

/-! ### the generation stage -/

/-- the language graph the new attack graph keeps: the specification heap after one lookup per asset of the model -/
def lgAfter (lg : Py.LType.TH) (m : PyM.H) : Py.LType.TH :=
  { lg with spec := specAfterLookups lg.spec (m.assets.map (fun r => (m.a r).type)) }

/-- `AttackGraph(lang_graph, model)` is `_generate_graph` on the reset graph object, in the environment of the two
heaps -/
theorem newAttackGraph_eq (w : WEnv) (lg : Py.LType.TH) (m : PyM.H) :
    newAttackGraph w lg m =
      (liftGraph (Py.Gen.graph__generate_graph (Py.Tie.resetG w.gstore) (evalEnvOf w lg m))).bind
        (fun h => .ok { h := h, lang_graph := lgAfter lg m, model := m }) := by
  unfold newAttackGraph
  rw [Py.Tie.init_eq, if_pos (by rfl)]
  rfl

/-- **generation stage = the hand model's `genGraph`**: when the environment built from the two heaps is the hand
model's environment of `(L, M)` and `genGraph L M` returns `(ns, es)`, the constructor call (for every sufficiently
large recursion budget of the evaluator) returns the graph object whose heap is `genHeap L M ns es` over the store
of the process; it keeps the model heap as it was given. -/
theorem generate_stage_tie (L : Lang) (M : Inst) (atts : List Py.PyAttackerInfo) (hid : (M.assets.map (·.id)).Nodup)
    (ns : List GNode) (es : List (Nat × Nat)) (hn : genNodes L M = .ok ns) (he : genEdges L M ns = .ok es)
    (s : Py.H) :
    ∃ F, ∀ (w : WEnv) (lg : Py.LType.TH) (m : PyM.H), w.gstore = s → F ≤ w.evalFuel →
      evalEnvOf w lg m = Py.genEnvOf L M atts w.evalFuel →
      newAttackGraph w lg m =
        .ok { h := Py.Tie.genHeap L M ns es (Py.Tie.resetG s), lang_graph := lgAfter lg m, model := m } := by
  obtain ⟨F, hF⟩ := Py.Tie.generate_graph_at L M atts hid ns es hn he (Py.Tie.resetG s) (Py.Tie.resetG_reset s).fresh
  refine ⟨F, fun w lg m hs hf hEnv => ?_⟩
  rw [newAttackGraph_eq, hs, hEnv, hF _ hf]
  rfl

/-- … and the `try … except AttackGraphStepExpressionError: sys.exit(1)` around it is not taken -/
theorem genStage_ok (w : WEnv) (lg : Py.LType.TH) (m : PyM.H) (g : WGraph) (h : newAttackGraph w lg m = .ok g) :
    genStage w lg m = .ok g := by
  unfold genStage; rw [h]

/-- when the constructor raises `AttackGraphStepExpressionError` the wrapper leaves the process with status 1 -/
theorem genStage_exit (w : WEnv) (lg : Py.LType.TH) (m : PyM.H)
    (h : newAttackGraph w lg m = .error (.graph .attackGraphStepExpressionError)) :
    genStage w lg m = .error (.systemExit 1) := by
  unfold genStage; rw [h]

/-! ### the optional stages -/

/-- **attachment stage = the hand model's `AGS.attach`** (through `attach_tie` of the core domain); language graph
and model are not touched -/
theorem attach_stage_tie (w : WEnv) (g g' : WGraph)
    (hn : Py.Tie.NamesOK (evalEnvOf w g.lang_graph g.model)) (h : agAttachAttackers w g = .ok g') :
    AGS.attach (Py.Tie.absH g.h) (Py.Tie.attsOf (evalEnvOf w g.lang_graph g.model)) = .ok (Py.Tie.absH g'.h) ∧
    g'.lang_graph = g.lang_graph ∧ g'.model = g.model := by
  unfold agAttachAttackers at h
  cases hh : Py.Gen.graph_attach_attackers g.h (evalEnvOf w g.lang_graph g.model) with
  | error e => rw [hh] at h; cases h
  | ok h' =>
    rw [hh] at h
    cases h
    exact ⟨Py.Tie.attach_tie g.h h' _ rfl hn hh, rfl, rfl⟩

/-- the attachment stage raises exactly when the hand model rejects (an attacker id in use), with `ValueError` -/
theorem attach_stage_error (w : WEnv) (g : WGraph) (hn : Py.Tie.NamesOK (evalEnvOf w g.lang_graph g.model)) (e : WErr) :
    agAttachAttackers w g = .error e ↔
      e = .graph .valueError ∧
      AGS.attach (Py.Tie.absH g.h) (Py.Tie.attsOf (evalEnvOf w g.lang_graph g.model)) = .error .valueError := by
  unfold agAttachAttackers
  have := Py.Tie.attach_error_iff g.h (evalEnvOf w g.lang_graph g.model) rfl hn
  cases hh : Py.Gen.graph_attach_attackers g.h (evalEnvOf w g.lang_graph g.model) with
  | ok h' =>
    constructor
    · intro h; cases h
    · intro ⟨_, h2⟩
      have := (Py.Tie.attach_tie g.h h' _ rfl hn hh)
      rw [this] at h2; cases h2
  | error e' =>
    have h1 := (this e').1 hh
    constructor
    · intro h
      have : e = .graph e' := by
        simp only [liftGraph, bind, Except.bind] at h
        exact (Except.error.inj h).symm
      rw [this, h1.1]; exact ⟨rfl, h1.2⟩
    · intro ⟨he, _⟩
      rw [he, h1.1]; rfl

/-- **analysis stage = the hand model's `calcAll`** (through `calculate_tie` of the core domain) -/
theorem analysis_stage_tie (w : WEnv) (g : WGraph)
    (hk : ∀ r ∈ g.h.nodes, Py.KnownType (g.h.n r).type) (hs : ∀ r ∈ g.h.nodes, Py.StatusOK (g.h.n r)) :
    agCalculate w g = .ok { g with h := (Py.setNec (Py.setViab g.h (Apriori.calcAll (Py.viabGH g.h)
      (Py.viabConstH g.h) (Py.pyFuel g.h) g.h.nodes (Py.labV g.h))) (Apriori.calcAll (Py.necGH g.h)
      (Py.necConstH g.h) (Py.pyFuel g.h) g.h.nodes (Py.labN g.h))) } := by
  unfold agCalculate
  rw [Py.Tie.calculate_tie g.h hk hs]
  rfl

/-- no stage after the constructor touches the language graph or the model the graph keeps -/
theorem postStages_keeps (w : WEnv) (attach ana : Bool) (g g' : WGraph) (h : postStages w attach ana g = .ok g') :
    g'.lang_graph = g.lang_graph ∧ g'.model = g.model := by
  have ha : ∀ g g', agAttachAttackers w g = .ok g' → g'.lang_graph = g.lang_graph ∧ g'.model = g.model := by
    intro g g' h
    unfold agAttachAttackers at h
    cases hh : Py.Gen.graph_attach_attackers g.h (evalEnvOf w g.lang_graph g.model) with
    | error e => rw [hh] at h; cases h
    | ok h' => rw [hh] at h; cases h; exact ⟨rfl, rfl⟩
  have hc : ∀ g g', agCalculate w g = .ok g' → g'.lang_graph = g.lang_graph ∧ g'.model = g.model := by
    intro g g' h
    unfold agCalculate at h
    cases hh : Py.Gen.calculate_viability_and_necessity g.h with
    | error e => rw [hh] at h; cases h
    | ok h' => rw [hh] at h; cases h; exact ⟨rfl, rfl⟩
  unfold postStages at h
  cases attach <;> cases ana
  · cases h; exact ⟨rfl, rfl⟩
  · exact hc _ _ h
  · simp only [if_true, Bool.false_eq_true, if_false] at h
    cases h1 : agAttachAttackers w g with
    | error e => rw [h1] at h; cases h
    | ok g1 => rw [h1] at h; cases h; exact ha _ _ h1
  · simp only [if_true] at h
    cases h1 : agAttachAttackers w g with
    | error e => rw [h1] at h; cases h
    | ok g1 =>
      rw [h1] at h
      have := hc _ _ h
      have := ha _ _ h1
      grind

/-! ### the whole wrapper -/

/-- **(i) the translated wrapper on files = the hand model's `genGraph` of the loaded language and model, followed by
the optional stages**: with quiet logs, a language file that loads to `lg`, a model file that loads (with the classes
of *that* language graph) to `m`, and the environment of `(lg, m)` equal to the hand model's environment of `(L, M)`,
the wrapper is `postStages` on the graph object `genHeap L M ns es` in the store of the process. -/
theorem create_attack_graph_tie (L : Lang) (M : Inst) (atts : List Py.PyAttackerInfo)
    (hid : (M.assets.map (·.id)).Nodup) (ns : List GNode) (es : List (Nat × Nat))
    (hg : genGraph L M = .ok (ns, es)) (s : Py.H) :
    ∃ F, ∀ (w : WEnv) (lf mf : String) (attach ana : Bool) (lg : Py.LType.TH) (m : PyM.H),
      QuietLogs w → w.gstore = s → F ≤ w.evalFuel →
      loadLang w lf = .ok lg → model_load_from_file w mf ⟨lg⟩ = .ok m →
      evalEnvOf w lg m = Py.genEnvOf L M atts w.evalFuel →
      create_attack_graph w lf mf attach ana =
        postStages w attach ana
          { h := Py.Tie.genHeap L M ns es (Py.Tie.resetG s), lang_graph := lgAfter lg m, model := m } := by
  obtain ⟨hn, he⟩ := C16.gen_reads_model L M (ns, es) hg
  obtain ⟨F, hF⟩ := generate_stage_tie L M atts hid ns es hn he s
  refine ⟨F, fun w lf mf attach ana lg m hq hs hf hl hm hEnv => ?_⟩
  rw [create_attack_graph_eq w hq, hl]
  simp only [Except.bind, newFactory, hm, genStage_ok w lg m _ (hF w lg m hs hf hEnv)]

end MalVerif.PyW.Tie
