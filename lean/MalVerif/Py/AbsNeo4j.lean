import MalVerif.Py.PreludeNeo4j
import MalVerif.Py.AbsModel
import MalVerif.Py.Abs
import MalVerif.Proofs.NeoLemmas
/-!
# Abstraction: the recording database of the translated Neo4j ingestor  →  `Model/Neo4j.lean`

`absDb` reads a recorded database (`PyN.Db`: nodes with labels and string properties, relationships between
positions) as the subgraph `Neo.Sub` of the hand-written model: the first label, and the properties `name`,
`asset_id`, `type`.  For attack graphs the hand model keeps typed attributes (`Neo.StepNode`) where Python stores
their `str(…)`: `renderStep` is the record that `ingest_attack_graph` stores for a step of the hand model.

Also here: the generic facts about the py2neo boundary of the prelude that both ingest functions use
(`toSet`, `Db.store` of a block of freshly made nodes).
-/
namespace MalVerif.PyN
open MalVerif

/-! ### the abstraction -/

/-- the value of a property (`""` when absent) -/
def propOf (n : NeoNode) (k : String) : String := ((n.props.find? (fun e => e.1 == k)).map (·.2)).getD ""

def absNode (n : NeoNode) : Neo.DbNode :=
  { label := n.labels.headD "", name := propOf n "name", assetId := propOf n "asset_id", type := propOf n "type" }

def absRel (r : DbRel) : Neo.DbRel := ⟨r.src, r.type, r.dst⟩

def absDb (db : Db) : Neo.Sub := { nodes := db.nodes.map absNode, rels := db.rels.map absRel }

/-- the canonical names of the five node types -/
def tnCanon : AGraph.NType → String
  | .or => "or" | .and => "and" | .defense => "defense" | .exist => "exist" | .notExist => "notExist"

theorem tnCanon_ntypeOf {t : String} (h : Py.KnownType t) : tnCanon (Py.ntypeOf t) = t := by
  rcases h with h | h | h | h | h <;> subst h <;> rfl

/-- the node `ingest_attack_graph` stores for a step of the hand model; `ttc` is the text `str(ttc)` (the hand
model keeps another rendering of the same value) -/
def renderStep (n : Neo.StepNode) (ttc : String) : NeoNode :=
  { labels := [n.label]
    props := [("name", n.name), ("full_name", n.fullName), ("type", n.type), ("ttc", ttc),
              ("is_necessary", strOfBool n.necessary), ("is_viable", strOfBool n.viable),
              ("compromised_by", pyStrAtom (.strs n.compBy)), ("defense_status", n.defense.getD "N/A")] }

/-- the relationships of a recorded attack graph as pairs of positions -/
def absGRels (db : Db) : List (Nat × Nat) := db.rels.map (fun r => (r.src, r.dst))

end MalVerif.PyN
