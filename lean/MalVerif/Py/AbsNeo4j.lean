import MalVerif.Py.PreludeNeo4j
import MalVerif.Py.AbsModel
import MalVerif.Py.Abs
import MalVerif.Proofs.NeoLemmas
/-!
# Abstraction: the recording database of the translated Neo4j ingestor  →  `Model/Neo4j.lean`

`absDb` reads a recorded database (`PyN.Db`: nodes with labels and string properties, relationships between
positions) as the subgraph `Neo.Sub` of the hand-written model: the first label, and the properties `name`,
`asset_id`, `type`.  For attack graphs the hand model keeps typed attributes (`Neo.StepNode`) where Python stores
their `str(…)`: `renderStep` is the record that `ingest_attack_graph` stores for a step of the hand model.

Also here: the generic facts about the py2neo boundary of the prelude that both ingest functions use
(`toSet`, `Db.store` of a block of freshly made nodes).
-/
namespace MalVerif.PyN
open MalVerif

/-! ### the abstraction -/

/-- the value of a property (`""` when absent) -/
def propOf (n : NeoNode) (k : String) : String := ((n.props.find? (fun e => e.1 == k)).map (·.2)).getD ""

def absNode (n : NeoNode) : Neo.DbNode :=
  { label := n.labels.headD "", name := propOf n "name", assetId := propOf n "asset_id", type := propOf n "type" }

def absRel (r : DbRel) : Neo.DbRel := ⟨r.src, r.type, r.dst⟩

def absDb (db : Db) : Neo.Sub := { nodes := db.nodes.map absNode, rels := db.rels.map absRel }

/-- the canonical names of the five node types -/
def tnCanon : AGraph.NType → String
  | .or => "or" | .and => "and" | .defense => "defense" | .exist => "exist" | .notExist => "notExist"

theorem tnCanon_ntypeOf {t : String} (h : Py.KnownType t) : tnCanon (Py.ntypeOf t) = t := by
  rcases h with h | h | h | h | h <;> subst h <;> rfl

/-- the node `ingest_attack_graph` stores for a step of the hand model; `ttc` is the text `str(ttc)` (the hand
model keeps another rendering of the same value) -/
def renderStep (n : Neo.StepNode) (ttc : String) : NeoNode :=
  { labels := [n.label]
    props := [("name", n.name), ("full_name", n.fullName), ("type", n.type), ("ttc", ttc),
              ("is_necessary", strOfBool n.necessary), ("is_viable", strOfBool n.viable),
              ("compromised_by", pyStrAtom (.strs n.compBy)), ("defense_status", n.defense.getD "N/A")] }

/-- the relationships of a recorded attack graph as pairs of positions -/
def absGRels (db : Db) : List (Nat × Nat) := db.rels.map (fun r => (r.src, r.dst))


/-! ### sets -/

theorem toSet_eq_foldl_setIns {α : Type} [BEq α] (l : List α) : toSet l = l.foldl Neo.setIns [] := rfl

theorem mem_toSet {α : Type} [BEq α] [LawfulBEq α] (l : List α) (x : α) : x ∈ toSet l ↔ x ∈ l := by
  rw [toSet_eq_foldl_setIns, Neo.mem_foldl_setIns]; simp

theorem setIns_map {α β : Type} [BEq α] [LawfulBEq α] [BEq β] [LawfulBEq β] (f : α → β) (acc : List α) (x : α)
    (hinj : ∀ y ∈ acc, f y = f x → y = x) : (Neo.setIns acc x).map f = Neo.setIns (acc.map f) (f x) := by
  unfold Neo.setIns
  have hc : (acc.map f).contains (f x) = acc.contains x := by
    apply Bool.eq_iff_iff.2
    rw [List.contains_iff_mem, List.contains_iff_mem, List.mem_map]
    constructor
    · rintro ⟨y, hy, e⟩; rw [← hinj y hy e]; exact hy
    · intro h; exact ⟨x, h, rfl⟩
  rw [hc]
  split
  · rfl
  · rw [List.map_append]; rfl

theorem foldl_setIns_map {α β : Type} [BEq α] [LawfulBEq α] [BEq β] [LawfulBEq β] (f : α → β) :
    ∀ (l acc : List α), (∀ x ∈ acc ++ l, ∀ y ∈ acc ++ l, f x = f y → x = y) →
      (l.foldl Neo.setIns acc).map f = (l.map f).foldl Neo.setIns (acc.map f) := by
  intro l
  induction l with
  | nil => intro acc _; rfl
  | cons x l ih =>
    intro acc hinj
    rw [List.foldl_cons, List.map_cons, List.foldl_cons]
    rw [ih (Neo.setIns acc x)]
    · rw [setIns_map f acc x]
      intro y hy e
      exact hinj y (List.mem_append_left _ hy) x (List.mem_append_right _ (List.mem_cons_self)) e
    · intro a ha b hb e
      have sub : ∀ z, z ∈ Neo.setIns acc x ++ l → z ∈ acc ++ x :: l := by
        intro z hz
        rcases List.mem_append.1 hz with h | h
        · rcases (Neo.mem_setIns acc x z).1 h with h | h
          · exact List.mem_append_left _ h
          · rw [h]; exact List.mem_append_right _ List.mem_cons_self
        · exact List.mem_append_right _ (List.mem_cons_of_mem _ h)
      exact hinj a (sub a ha) b (sub b hb) e

/-- a set of values mapped by a function that is injective on them is the set of the mapped values -/
theorem toSet_map {α β : Type} [BEq α] [LawfulBEq α] [BEq β] [LawfulBEq β] (f : α → β) (l : List α)
    (hinj : ∀ x ∈ l, ∀ y ∈ l, f x = f y → x = y) : (toSet l).map f = toSet (l.map f) := by
  rw [toSet_eq_foldl_setIns, toSet_eq_foldl_setIns]
  exact foldl_setIns_map f l [] (by simpa using hinj)

/-! ### storing a block of freshly made nodes -/

theorem filter_range_block (k n : Nat) (p : Nat → Bool) (hp : ∀ r, r < k + n → (p r = true ↔ k ≤ r)) :
    (List.range (k + n)).filter p = List.range' k n := by
  rw [List.range_add, List.filter_append]
  have h1 : (List.range k).filter p = [] := by
    rw [List.filter_eq_nil_iff]
    intro r hr
    have hr' := List.mem_range.1 hr
    intro hpr
    have := (hp r (by omega)).1 hpr
    omega
  have h2 : ((List.range n).map (k + ·)).filter p = (List.range n).map (k + ·) := by
    rw [List.filter_eq_self]
    intro r hr
    obtain ⟨i, hi, rfl⟩ := List.mem_map.1 hr
    have hi' := List.mem_range.1 hi
    exact (hp (k + i) (by omega)).2 (by omega)
  rw [h1, h2, List.nil_append, List.range'_eq_map_range]

theorem idxOf?_range' (k n r : Nat) (h1 : k ≤ r) (h2 : r < k + n) : (List.range' k n).idxOf? r = some (r - k) := by
  rw [List.idxOf?_eq_some_iff]
  refine ⟨by rw [List.length_range']; omega, ?_, ?_⟩
  · rw [List.getElem_range']; omega
  · intro j hj
    rw [List.getElem_range']; omega

theorem map_getElem?_block {α : Type} [Inhabited α] (pre l : List α) :
    (List.range' pre.length l.length).map (fun r => (pre ++ l)[r]?.getD default) = l := by
  apply List.ext_getElem
  · rw [List.length_map, List.length_range']
  · intro i h1 h2
    rw [List.getElem_map, List.getElem_range', List.getElem?_append_right (by omega)]
    have : pre.length + 1 * i - pre.length = i := by omega
    rw [this, List.getElem?_eq_getElem h2]; rfl

/-- the values of a dictionary built from a list with consecutive references -/
theorem map_snd_zipIdx {α β : Type} (f : α → β) (l : List α) (k : Nat) :
    ((l.zipIdx k).map (fun p => (f p.1, p.2))).map (·.2) = List.range' k l.length := by
  induction l generalizing k with
  | nil => rfl
  | cons x l ih =>
    rw [List.zipIdx_cons, List.map_cons, List.map_cons, ih, List.length_cons, List.range'_succ]


/-- storing, into the empty database, a subgraph whose nodes are a block of consecutively made `Node` objects and
whose relationships join nodes of that block: the stored nodes are the records of the block, a relationship is
stored between the offsets of its ends in the block -/
theorem store_block (pre recs : List NeoNode) (rels : List NeoRel)
    (hr : ∀ e ∈ rels, (pre.length ≤ e.start ∧ e.start < pre.length + recs.length) ∧
                      (pre.length ≤ e.stop ∧ e.stop < pre.length + recs.length)) :
    Db.store (pre ++ recs) {} (neoSubgraph (List.range' pre.length recs.length) rels) =
      { nodes := recs
        rels := (toSet rels).map (fun e => ⟨e.start - pre.length, e.type, e.stop - pre.length⟩) } := by
  have hns : (List.range (pre ++ recs).length).filter
      (fun r => (neoSubgraph (List.range' pre.length recs.length) rels).nodes.contains r) =
      List.range' pre.length recs.length := by
    rw [List.length_append]
    apply filter_range_block
    intro r hlt
    unfold neoSubgraph
    dsimp only
    rw [List.contains_iff_mem, mem_toSet, List.mem_append, List.mem_range'_1, List.mem_flatMap]
    constructor
    · rintro (h | ⟨e, he, hm⟩)
      · exact h.1
      · have := hr e he
        simp only [List.mem_cons, List.not_mem_nil, or_false] at hm
        rcases hm with rfl | rfl
        · exact this.1.1
        · exact this.2.1
    · intro h; exact Or.inl ⟨h, hlt⟩
  unfold Db.store
  simp only [hns]
  rw [List.nil_append, List.nil_append, map_getElem?_block]
  congr 1
  show List.map _ (toSet rels) = _
  apply List.map_congr_left
  intro e he
  have he' : e ∈ rels := (mem_toSet rels e).1 he
  obtain ⟨⟨a1, a2⟩, ⟨b1, b2⟩⟩ := hr e he'
  rw [idxOf?_range' _ _ _ a1 a2, idxOf?_range' _ _ _ b1 b2]
  simp

end MalVerif.PyN
