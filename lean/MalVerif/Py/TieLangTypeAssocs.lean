import MalVerif.Py.TieLangTypeSpec
/-!
# Tie of the fourth loop of the translated `_generate_graph` (`phaseAssocs`): the association objects

`phaseAssocs` (`Py/TieLangTypePhases.lean`) against the hand model's `LG.assocNodes`.

* `wlBody`, `createStep`, `innerBody`, `outerBody`: the loop bodies as functions; `phaseAssocs_eq`.
* `attach s c V`: the heap during the work-list walk (`c` appended to `associations` of the assets in `V`).
* M1 `lgAssocEq_new_false` / `pyInAssocs_attach`: `in` on the `associations` lists is membership of the reference.
* M2 `wl_walk` / `wl_total`: the work-list loop ends within the unrolling bound and attaches the new object to
  exactly the descendants-or-self of the two ends (reuses `WInv` / `Forest` / `winv_step` of `Py/TieLangGraph.lean`).
* M3 `createStep_spec` / `innerBody_spec`: one inner iteration is one `nodeStep`, under the invariant `AInv`.
* M4 `inner_loop` / `outer_loop`; M5 `afterAssocs_of_inv`, `phaseAssocs_spec`.
-/
namespace MalVerif.Py.TieLangType
open MalVerif MalVerif.Py MalVerif.Py.LSpec MalVerif.Py.LType MalVerif.Py.GenLangType MalVerif.LG

/- the auxiliary definitions and lemmas live in the sub-namespace `Assocs` (no clash with the sibling files) -/
namespace Assocs

abbrev WSt := TH × GARef × List GARef

/-- the body of `while associated_assets != []` -/
def wlBody (c : GCRef) (_x : Nat) (st : WSt) : Except PyErr (ForInStep WSt) :=
  if (!!st.2.2.isEmpty) = true then pure (ForInStep.done (st.1, st.2.1, st.2.2))
  else do
    let p_8 ← pyPop st.2.2
    if (!pyInAssocs st.1 c (st.1.g.asset p_8.1).associations) = true then
      pure (ForInStep.yield (st.1.appendAssoc p_8.1 c, p_8.1, p_8.2 ++ (st.1.g.asset p_8.1).sub_assets))
    else pure (ForInStep.yield (st.1, p_8.1, p_8.2 ++ (st.1.g.asset p_8.1).sub_assets))

/-- the dedupe test -/
def dupTest (s : TH) (d : PyAssocD) (l r : GARef) (c : GCRef) : Bool :=
  ((s.g.assoc c).name == d.name) && ((lgAssetEq s.g (s.g.assoc c).left_field.asset l) && (lgAssetEq s.g (s.g.assoc c).right_field.asset r))

def mkAssoc (s : TH) (d : PyAssocD) (l r : GARef) : TH × GCRef :=
  s.newAssoc d.name ({ asset := l, fieldname := d.leftField, minimum := Int.ofNat d.leftMin, maximum := pyOptNatInt d.leftMax } : PyLGField) ({ asset := r, fieldname := d.rightField, minimum := Int.ofNat d.rightMin, maximum := pyOptNatInt d.rightMax } : PyLGField) d.metaTxt

/-- creation of one association object and its attachment -/
def createStep (s : TH) (j : GARef) (d : PyAssocD) (l r : GARef) : Except PyErr (ForInStep (TH × GARef)) := do
  let w ← forIn (List.range (pyWhileFuelT (mkAssoc s d l r).1)) (((mkAssoc s d l r).1, j, [l, r]) : WSt) (wlBody (mkAssoc s d l r).2)
  if (!w.2.2.isEmpty) = true then throw PyErr.nonTermination
  else pure (ForInStep.yield (w.1.appendAssociations (mkAssoc s d l r).2, w.2.1))

/-- the body of `for association in associations` -/
def innerBody (d : PyAssocD) (st : TH × GARef) : Except PyErr (ForInStep (TH × GARef)) :=
  match st.1.g.assets.find? (fun asset => ((st.1.g.asset asset).name == some d.leftAsset)) with
  | some l =>
    match st.1.g.assets.find? (fun asset => ((st.1.g.asset asset).name == some d.rightAsset)) with
    | some r =>
      match st.1.g.associations.find? (dupTest st.1 d l r) with
      | some _ => pure (ForInStep.yield (st.1, st.2))
      | none => createStep st.1 st.2 d l r
    | none => throw errAssociation
  | none => throw errAssociation

def outerBody (asset : GARef) (s : TH) : Except PyErr (ForInStep TH) := do
  let n ← pyStr (s.g.asset asset).name
  let ds ← lg__get_associations_for_asset_type (pyFuelL s.spec) s n
  let r ← forIn ds (s, asset) innerBody
  pure (ForInStep.yield r.1)

theorem phaseAssocs_eq (s : TH) : phaseAssocs s = forIn s.g.assets s outerBody := by
  unfold phaseAssocs
  simp only [bind_pure]
  congr 1
  funext asset s
  unfold outerBody
  congr 1; funext n
  congr 1; funext ds
  congr 1
  congr 1
  funext d st
  unfold innerBody
  cases List.find? (fun asset => (st.fst.g.asset asset).name == some d.leftAsset) st.fst.g.assets with
  | none => rfl
  | some l =>
    cases List.find? (fun asset => (st.fst.g.asset asset).name == some d.rightAsset) st.fst.g.assets with
    | none => rfl
    | some r =>
      show (match List.find? (dupTest st.1 d l r) st.1.g.associations with | some _ => _ | none => _) =
        (match List.find? (dupTest st.1 d l r) st.1.g.associations with
          | some _ => pure (ForInStep.yield (st.1, st.2)) | none => createStep st.1 st.2 d l r)
      cases List.find? (dupTest st.1 d l r) st.1.g.associations with
      | some _ => rfl
      | none =>
        show _ = createStep st.1 st.2 d l r
        rfl

/-! ## the heap during the work-list walk -/

/-- the heap `s` with the association object `c` appended to `associations` of the asset objects in `V` -/
def attach (s : TH) (c : GCRef) (V : List GARef) : TH :=
  { s with g := { s.g with asset := fun x =>
      if x ∈ V then { s.g.asset x with associations := (s.g.asset x).associations ++ [c] } else s.g.asset x } }

theorem attach_nil (s : TH) (c : GCRef) : attach s c [] = s := by
  simp [attach]

theorem attach_asset (s : TH) (c : GCRef) (V : List GARef) (x : GARef) :
    (attach s c V).g.asset x =
      if x ∈ V then { s.g.asset x with associations := (s.g.asset x).associations ++ [c] } else s.g.asset x := rfl

theorem attach_name (s : TH) (c : GCRef) (V : List GARef) (x : GARef) :
    ((attach s c V).g.asset x).name = (s.g.asset x).name := by
  rw [attach_asset]; split <;> rfl

theorem attach_subs (s : TH) (c : GCRef) (V : List GARef) (x : GARef) :
    ((attach s c V).g.asset x).sub_assets = (s.g.asset x).sub_assets := by
  rw [attach_asset]; split <;> rfl

theorem attach_supers (s : TH) (c : GCRef) (V : List GARef) (x : GARef) :
    ((attach s c V).g.asset x).super_assets = (s.g.asset x).super_assets := by
  rw [attach_asset]; split <;> rfl

theorem attach_associations (s : TH) (c : GCRef) (V : List GARef) (x : GARef) :
    ((attach s c V).g.asset x).associations =
      if x ∈ V then (s.g.asset x).associations ++ [c] else (s.g.asset x).associations := by
  rw [attach_asset]; split <;> rfl

theorem th_ext_asset (s : TH) (f f' : GARef → PyLGAsset) (h : ∀ x, f x = f' x) :
    ({ s with g := { s.g with asset := f } } : TH) = { s with g := { s.g with asset := f' } } := by
  have : f = f' := funext h
  rw [this]

theorem attach_appendAssoc (s : TH) (c : GCRef) (V : List GARef) (x : GARef) (h : x ∉ V) :
    (attach s c V).appendAssoc x c = attach s c (x :: V) := by
  show ({ s with g := { s.g with asset := fun y => if y = x then
      { (attach s c V).g.asset x with associations := ((attach s c V).g.asset x).associations ++ [c] }
      else (attach s c V).g.asset y } } : TH) = _
  unfold attach
  apply th_ext_asset
  intro y
  by_cases hy : y = x
  · subst hy; simp [h]
  · by_cases hv : y ∈ V <;> simp [hy, hv]

theorem attach_cons_mem (s : TH) (c : GCRef) (V : List GARef) (x : GARef) (h : x ∈ V) :
    attach s c (x :: V) = attach s c V := by
  unfold attach
  apply th_ext_asset
  intro y
  by_cases hy : y = x
  · subst hy; simp [h]
  · simp [hy]

theorem lgAssetEq_attach (s : TH) (c : GCRef) (V : List GARef) (a b : GARef) :
    lgAssetEq (attach s c V).g a b = lgAssetEq s.g a b := by
  unfold lgAssetEq
  rw [attach_name, attach_name]
  rfl

theorem lgAssocEq_attach (s : TH) (c : GCRef) (V : List GARef) (y z : GCRef) :
    lgAssocEq (attach s c V) y z = lgAssocEq s y z := by
  unfold lgAssocEq lgFieldEq
  simp only [lgAssetEq_attach]
  rfl

theorem lgAssocEq_self (s : TH) (c : GCRef) : lgAssocEq s c c = true := by
  simp [lgAssocEq]

/-- M1: membership of the new association object `c` in an `associations` list during the walk, when no older
object of the list compares equal to it -/
theorem pyInAssocs_attach (s1 : TH) (c : GCRef) (V : List GARef) (x : GARef)
    (hold : ∀ y ∈ (s1.g.asset x).associations, lgAssocEq s1 y c = false) :
    pyInAssocs (attach s1 c V) c ((attach s1 c V).g.asset x).associations = decide (x ∈ V) := by
  unfold pyInAssocs
  rw [attach_associations]
  by_cases hv : x ∈ V
  · simp [hv, lgAssocEq_attach, lgAssocEq_self]
  · simp only [hv, if_false, decide_false]
    rw [List.any_eq_false]
    intro y hy
    rw [lgAssocEq_attach, hold y hy]; simp

/-- one iteration of the work-list loop on a non-empty work list -/
theorem wlBody_step (s1 : TH) (c : GCRef) (V W : List GARef) (x j : GARef) (i : Nat)
    (hold : ∀ y ∈ (s1.g.asset x).associations, lgAssocEq s1 y c = false) :
    wlBody c i (attach s1 c V, j, W ++ [x]) =
      .ok (ForInStep.yield (attach s1 c (x :: V), x, W ++ (s1.g.asset x).sub_assets)) := by
  unfold wlBody
  have he : (W ++ [x]).isEmpty = false := by simp
  simp only [he, Bool.not_false, Bool.not_true, Bool.false_eq_true, if_false, TieLangGraph.pyPop_snoc, bind,
    Except.bind, pyInAssocs_attach s1 c V x hold, attach_subs]
  by_cases hv : x ∈ V
  · simp [hv, attach_cons_mem, pure, Except.pure]
  · simp [hv, attach_appendAssoc, pure, Except.pure]

theorem wlBody_nil (c : GCRef) (s : TH) (j : GARef) (i : Nat) :
    wlBody c i (s, j, []) = .ok (ForInStep.done (s, j, [])) := rfl

theorem wl_loop_nil (c : GCRef) (s : TH) (j : GARef) (l : List Nat) :
    forIn l ((s, j, []) : WSt) (wlBody c) = .ok (s, j, []) := by
  cases l with
  | nil => rfl
  | cons x l => rfl

/-! ## M2: the work-list walk -/

open TieLangGraph in
/-- the walk below one root `a`, with the rest `P` of the work list waiting underneath: it ends with the work list
`P`, having visited (`V'`) what had been visited before plus the whole forest below `a` -/
theorem wl_walk {kids : GARef → List GARef} {U : List GARef} {a : GARef} {D : GARef → Prop}
    (hf : Forest kids U a D) (s1 : TH) (c : GCRef) (hk : ∀ x, (s1.g.asset x).sub_assets = kids x)
    (hold : ∀ x ∈ U, ∀ y ∈ (s1.g.asset x).associations, lgAssocEq s1 y c = false)
    (P V0 : List GARef) :
    ∀ (l : List Nat) (W S V : List GARef) (j : GARef), WInv kids U a D W S →
      U.length + W.length ≤ l.length + S.length →
      (∀ y, y ∈ V ↔ y ∈ V0 ∨ (y ∈ S ∧ y ∉ W)) →
      ∃ (l' : List Nat) (S' V' : List GARef) (j' : GARef),
        forIn l ((attach s1 c V, j, P ++ W) : WSt) (wlBody c) =
          forIn l' ((attach s1 c V', j', P) : WSt) (wlBody c) ∧
        l'.length + S'.length + W.length = l.length + S.length ∧ WInv kids U a D [] S' ∧
        (∀ y, y ∈ V' ↔ y ∈ V0 ∨ y ∈ S') := by
  intro l
  induction l with
  | nil =>
    intro W S V j h hlen hV
    have : S.length ≤ U.length := List.Nodup.length_le_of_subset h.snd (fun y hy => h.sU y hy)
    have hW : W = [] := by
      cases W with
      | nil => rfl
      | cons w W => simp at hlen; omega
    subst hW
    exact ⟨[], S, V, j, by simp, by simp, h, fun y => by rw [hV y]; simp⟩
  | cons i l ih =>
    intro W S V j h hlen hV
    rcases List.eq_nil_or_concat W with rfl | ⟨W', x, rfl⟩
    · exact ⟨i :: l, S, V, j, by simp, by simp, h, fun y => by rw [hV y]; simp⟩
    · rw [List.concat_eq_append] at h hlen hV ⊢
      have hxS : x ∈ S := h.wS x (by simp)
      have hxU : x ∈ U := h.sU x hxS
      have hxW : x ∉ W' := by
        have := h.wnd
        rw [List.nodup_append] at this
        intro hx; exact this.2.2 x hx x (by simp) rfl
      have hkx : ∀ z ∈ kids x, z ∉ S := h.todo x (by simp)
      rw [List.forIn_cons, ← List.append_assoc, wlBody_step s1 c V (P ++ W') x j i (hold x hxU)]
      simp only [bind, Except.bind]
      rw [hk x, List.append_assoc]
      obtain ⟨l', S', V', j', h1, h2, h3, h4⟩ := ih (W' ++ kids x) (S ++ kids x) (x :: V) x (winv_step hf h)
        (by simp only [List.length_append, List.length_cons, List.length_nil] at hlen ⊢; omega)
        (by
          intro y
          rw [List.mem_cons, hV y]
          simp only [List.mem_append, List.mem_singleton, not_or]
          constructor
          · rintro (rfl | h0 | ⟨hyS, hyW, hyx⟩)
            · exact .inr ⟨.inl hxS, hxW, fun hz => hkx _ hz hxS⟩
            · exact .inl h0
            · exact .inr ⟨.inl hyS, hyW, fun hz => hkx _ hz hyS⟩
          · rintro (h0 | ⟨hyS | hyk, hyW, hyk'⟩)
            · exact .inr (.inl h0)
            · by_cases hyx : y = x
              · exact .inl hyx
              · exact .inr (.inr ⟨hyS, hyW, hyx⟩)
            · exact absurd hyk hyk')
      refine ⟨l', S', V', j', h1, ?_, h3, h4⟩
      simp only [List.length_append, List.length_cons, List.length_nil] at h2 ⊢
      omega

section total
open TieLangGraph
variable {g : GH} {L : Lang}

/-- the start of the walk below `a` -/
theorem winv_init (h : RepG g L) (hac : Acyclic L) {a : GARef} (ha : a ∈ g.assets) :
    WInv (fun x => (g.asset x).sub_assets) g.assets a (fun y => L.isSub (gname g y) (gname g a) = true) [a] [a] := by
  have hf := forest_sub_assets h hac a
  obtain ⟨da, hda, _⟩ := repG_decl_of_mem h ha
  have hDa : L.isSub (gname g a) (gname g a) = true := isSub_refl L _ (by rw [hda]; rfl)
  refine ⟨fun y hy => hy, by simp, by simp, ?_, ?_, ?_, ?_, ?_, by simp⟩
  · intro y hy; rw [List.mem_singleton.1 hy]; exact ha
  · intro y hy; rw [List.mem_singleton.1 hy]; exact hDa
  · intro y hy hn; exact absurd hy hn
  · intro y hy z hz hzS
    rw [List.mem_singleton.1 hy] at hz
    rw [List.mem_singleton.1 hzS] at hz
    exact hf.root a ha hDa hz
  · intro z hz; exact .inl (List.mem_singleton.1 hz)

/-- the end of the walk below `a`: exactly the descendants-or-self -/
theorem winv_done_mem (h : RepG g L) {a : GARef} {S : List GARef}
    (hinv : WInv (fun x => (g.asset x).sub_assets) g.assets a (fun y => L.isSub (gname g y) (gname g a) = true) [] S) :
    ∀ y, y ∈ S ↔ y ∈ g.assets ∧ L.isSub (gname g y) (gname g a) = true := by
  intro y
  constructor
  · intro hy; exact ⟨hinv.sU y hy, hinv.sD y hy⟩
  · rintro ⟨hy, hD⟩
    exact closed_contains_desc h hinv.aS hinv.sU (fun y hy => hinv.done y hy (by simp)) _ _ (isSub_rtc hD).2 rfl y hy rfl

theorem winv_length_le {kids : GARef → List GARef} {U : List GARef} {a : GARef} {D : GARef → Prop} {W S : List GARef}
    (h : WInv kids U a D W S) : S.length ≤ U.length :=
  List.Nodup.length_le_of_subset h.snd (fun y hy => h.sU y hy)

end total

open TieLangGraph in
/-- **M2**: the work-list loop started on `[lft, rgt]`, on a heap whose asset objects represent an acyclic
language and in which no association object listed by an asset compares equal to the new one: it ends (no
`nonTermination`) with the new object appended to `associations` of exactly the asset objects whose type is a
descendant-or-self of the type of `lft` or of `rgt`; nothing else is changed -/
theorem wl_total {L : Lang} (s1 : TH) (c : GCRef) (hG : RepG s1.g L) (hac : Acyclic L)
    (hold : ∀ x ∈ s1.g.assets, ∀ y ∈ (s1.g.asset x).associations, lgAssocEq s1 y c = false)
    (lft rgt j : GARef) (hl : lft ∈ s1.g.assets) (hr : rgt ∈ s1.g.assets) (l : List Nat)
    (hn : 2 * s1.g.assets.length ≤ l.length) :
    ∃ V j', forIn l ((s1, j, [lft, rgt]) : WSt) (wlBody c) = .ok (attach s1 c V, j', []) ∧
      ∀ y, y ∈ V ↔ y ∈ s1.g.assets ∧ (L.isSub (gname s1.g y) (gname s1.g lft) = true ∨
        L.isSub (gname s1.g y) (gname s1.g rgt) = true) := by
  obtain ⟨l1, S1, V1, j1, e1, n1, w1, m1⟩ :=
    wl_walk (forest_sub_assets hG hac rgt) s1 c (fun _ => rfl) hold [lft] [] l [rgt] [rgt] [] j
      (winv_init hG hac hr) (by simp; omega) (by simp)
  have hS1 := winv_length_le w1
  obtain ⟨l2, S2, V2, j2, e2, n2, w2, m2⟩ :=
    wl_walk (forest_sub_assets hG hac lft) s1 c (fun _ => rfl) hold [] V1 l1 [lft] [lft] V1 j1
      (winv_init hG hac hl) (by simp at n1 ⊢; omega) (by simp)
  refine ⟨V2, j2, ?_, ?_⟩
  · have e0 : ((s1, j, [lft, rgt]) : WSt) = (attach s1 c [], j, [lft] ++ [rgt]) := by rw [attach_nil]; rfl
    rw [e0, e1]
    have e3 : ((attach s1 c V1, j1, [lft]) : WSt) = (attach s1 c V1, j1, [] ++ [lft]) := rfl
    rw [e3, e2]
    exact wl_loop_nil _ _ _ _
  · intro y
    rw [m2 y, m1 y, winv_done_mem hG w1, winv_done_mem hG w2]
    simp only [List.not_mem_nil, false_or]
    constructor
    · rintro (⟨h1, h2⟩ | ⟨h1, h2⟩)
      · exact ⟨h1, .inr h2⟩
      · exact ⟨h1, .inl h2⟩
    · rintro ⟨h1, h2 | h2⟩
      · exact .inr ⟨h1, h2⟩
      · exact .inl ⟨h1, h2⟩

/-! ## M3: one iteration of the inner loop is `nodeStep` -/

/-- `RepG` reads only `assets` and the `name`, `super_assets`, `sub_assets` of the asset objects -/
theorem repG_frame {g g' : GH} {L : Lang} (h : RepG g L) (ha : g'.assets = g.assets)
    (hn : ∀ x, (g'.asset x).name = (g.asset x).name)
    (hsup : ∀ x, (g'.asset x).super_assets = (g.asset x).super_assets)
    (hsub : ∀ x, (g'.asset x).sub_assets = (g.asset x).sub_assets) : RepG g' L := by
  have hg : ∀ x, gname g' x = gname g x := fun x => by simp [gname, hn]
  have hr : ∀ n, refOf g' n = refOf g n := fun n => by simp [refOf, ha, hn]
  refine ⟨?_, ?_, h.names_nodup, h.supers_ok, ?_, ?_⟩
  · rw [ha]; simp only [hn]; exact h.names
  · rw [ha]; exact h.refs_nodup
  · intro r hr'
    rw [ha] at hr'
    have hr2 : refOf g' = refOf g := funext hr
    rw [hsup, hg, h.supers r hr', hr2]
  · intro r hr'
    rw [ha] at hr'
    rw [hsub, ha, h.subs r hr']
    congr 1; funext c; rw [hsup]

/-- the invariant of the two loops of `phaseAssocs`; `acc` is the hand model's accumulator -/
structure AInv (s : TH) (spec : LS) (R : Nat) (acc : List AssocDecl) : Prop where
  frame : NoSteps s spec R
  repG : RepG s.g (absLang spec)
  assets : s.g.assets = List.range spec.assets.length
  refs : s.g.associations = List.range s.nextC
  full : s.g.associations.map (fullDeclOf s) = acc
  ends : ∀ c ∈ s.g.associations,
    (s.g.assoc c).left_field.asset ∈ s.g.assets ∧ (s.g.assoc c).right_field.asset ∈ s.g.assets
  assocs : RepAssocs s (absLang spec)

/-- the heap after the creation and attachment of one association object -/
def finish (s : TH) (d : PyAssocD) (l r : GARef) (V : List GARef) : TH :=
  (attach (mkAssoc s d l r).1 s.nextC V).appendAssociations s.nextC

theorem finish_gname (s : TH) (d : PyAssocD) (l r : GARef) (V : List GARef) (x : GARef) :
    gname (finish s d l r V).g x = gname s.g x := by
  unfold gname
  show (((attach (mkAssoc s d l r).1 s.nextC V).g.asset x).name).getD "" = _
  rw [attach_name]; rfl

theorem finish_assoc (s : TH) (d : PyAssocD) (l r : GARef) (V : List GARef) (y : GCRef) :
    (finish s d l r V).g.assoc y =
      if y = s.nextC then
        ({ name := d.name,
           left_field := { asset := l, fieldname := d.leftField, minimum := Int.ofNat d.leftMin,
                           maximum := pyOptNatInt d.leftMax },
           right_field := { asset := r, fieldname := d.rightField, minimum := Int.ofNat d.rightMin,
                            maximum := pyOptNatInt d.rightMax } } : PyLGAssoc)
      else s.g.assoc y := rfl

theorem finish_cdesc (s : TH) (d : PyAssocD) (l r : GARef) (V : List GARef) (y : GCRef) :
    (finish s d l r V).cdesc y = if y = s.nextC then d.metaTxt else s.cdesc y := rfl

theorem finish_declOf_old (s : TH) (d : PyAssocD) (l r : GARef) (V : List GARef) {y : GCRef} (hy : y ≠ s.nextC) :
    declOf (finish s d l r V).g y = declOf s.g y := by
  simp only [declOf, finish_gname, finish_assoc, if_neg hy]

theorem finish_fullDeclOf_old (s : TH) (d : PyAssocD) (l r : GARef) (V : List GARef) {y : GCRef} (hy : y ≠ s.nextC) :
    fullDeclOf (finish s d l r V) y = fullDeclOf s y := by
  simp only [fullDeclOf, finish_declOf_old s d l r V hy, finish_assoc, finish_cdesc, if_neg hy]

theorem pyOptNatInt_decode (x : Option Nat) :
    (if pyOptNatInt x < 0 then none else some (pyOptNatInt x).toNat) = x := by
  cases x with
  | none => simp [pyOptNatInt]
  | some n =>
    have : ¬ ((n : Int) < 0) := by omega
    simp [pyOptNatInt, this]

theorem finish_fullDeclOf_new (s : TH) (d : PyAssocD) (l r : GARef) (V : List GARef)
    (hl : gname s.g l = d.leftAsset) (hr : gname s.g r = d.rightAsset) :
    fullDeclOf (finish s d l r V) s.nextC = absAssoc d := by
  simp only [fullDeclOf, declOf, finish_gname, finish_assoc, finish_cdesc, if_true, hl, hr, pyOptNatInt_decode, absAssoc,
    Int.toNat_natCast, Int.ofNat_eq_natCast]

theorem finish_declOf_new (s : TH) (d : PyAssocD) (l r : GARef) (V : List GARef) :
    (declOf (finish s d l r V).g s.nextC).leftAsset = gname s.g l ∧
    (declOf (finish s d l r V).g s.nextC).rightAsset = gname s.g r := by
  simp only [declOf, finish_gname, finish_assoc, if_true, and_self]

/-- **M1**: an older association object that fails the dedupe test does not compare equal (dataclass `==`) to the
new object; so `in` on the `associations` lists is membership of the reference -/
theorem lgAssocEq_new_false (s : TH) (d : PyAssocD) (l r : GARef) {y : GCRef} (hy : y ≠ s.nextC)
    (ht : dupTest s d l r y = false) : lgAssocEq (mkAssoc s d l r).1 y s.nextC = false := by
  have e1 : (mkAssoc s d l r).1.g.assoc y = s.g.assoc y := by simp [mkAssoc, TH.newAssoc, hy]
  have e2 : (mkAssoc s d l r).1.g.assoc s.nextC =
      ({ name := d.name,
         left_field := { asset := l, fieldname := d.leftField, minimum := Int.ofNat d.leftMin,
                         maximum := pyOptNatInt d.leftMax },
         right_field := { asset := r, fieldname := d.rightField, minimum := Int.ofNat d.rightMin,
                          maximum := pyOptNatInt d.rightMax } } : PyLGAssoc) := by
    simp [mkAssoc, TH.newAssoc]
  have e3 : ∀ a b, lgAssetEq (mkAssoc s d l r).1.g a b = lgAssetEq s.g a b := fun _ _ => rfl
  unfold lgAssocEq lgFieldEq
  rw [e1, e2]
  simp only [e3]
  unfold dupTest at ht
  have hb : (y == s.nextC) = false := by simp [hy]
  rw [hb]
  cases hA : lgAssetEq s.g (s.g.assoc y).left_field.asset l <;>
    cases hB : lgAssetEq s.g (s.g.assoc y).right_field.asset r <;>
    cases hN : ((s.g.assoc y).name == d.name) <;> simp_all

/-- the association objects listed by the assets are older than the new one and differ from it -/
theorem hold_of_inv {spec : LS} {R : Nat} {acc : List AssocDecl} {s : TH} (h : AInv s spec R acc)
    (d : PyAssocD) (l r : GARef) (hnone : s.g.associations.find? (dupTest s d l r) = none) :
    ∀ x ∈ (mkAssoc s d l r).1.g.assets, ∀ y ∈ ((mkAssoc s d l r).1.g.asset x).associations,
      lgAssocEq (mkAssoc s d l r).1 y s.nextC = false := by
  intro x hx y hy
  have hx' : x ∈ s.g.assets := hx
  have hy' : y ∈ (s.g.asset x).associations := hy
  rw [h.assocs x hx'] at hy'
  have hym : y ∈ s.g.associations := (List.mem_filter.1 hy').1
  have hlt : y < s.nextC := by rw [h.refs] at hym; exact List.mem_range.1 hym
  have ht := List.find?_eq_none.1 hnone y hym
  exact lgAssocEq_new_false s d l r (Nat.ne_of_lt hlt) (by simpa using ht)

/-- the creation branch of one inner iteration: it does not raise and re-establishes the invariant for the
accumulator extended by the declaration -/
theorem createStep_spec {spec : LS} {R : Nat} {acc : List AssocDecl} {s : TH} (hac : Acyclic (absLang spec))
    (h : AInv s spec R acc) (d : PyAssocD) (l r j : GARef)
    (hl : l ∈ s.g.assets) (hln : gname s.g l = d.leftAsset) (hr : r ∈ s.g.assets) (hrn : gname s.g r = d.rightAsset)
    (hnone : s.g.associations.find? (dupTest s d l r) = none) :
    ∃ s' j', createStep s j d l r = .ok (ForInStep.yield (s', j')) ∧ AInv s' spec R (acc ++ [absAssoc d]) := by
  have hG1 : RepG (mkAssoc s d l r).1.g (absLang spec) :=
    repG_frame h.repG rfl (fun _ => rfl) (fun _ => rfl) (fun _ => rfl)
  obtain ⟨V, j', hloop, hV⟩ := wl_total (mkAssoc s d l r).1 s.nextC hG1 hac (hold_of_inv h d l r hnone) l r j hl hr
    (List.range (pyWhileFuelT (mkAssoc s d l r).1)) (by simp [pyWhileFuelT]; omega)
  have hV' : ∀ y, y ∈ V ↔ y ∈ s.g.assets ∧ ((absLang spec).isSub (gname s.g y) (gname s.g l) = true ∨
      (absLang spec).isSub (gname s.g y) (gname s.g r) = true) := hV
  refine ⟨finish s d l r V, j', ?_, ?_⟩
  · unfold createStep
    have e : (mkAssoc s d l r).2 = s.nextC := rfl
    rw [e, hloop]
    rfl
  · have hlt : ∀ y ∈ s.g.associations, y ≠ s.nextC := by
      intro y hy
      rw [h.refs] at hy
      exact Nat.ne_of_lt (List.mem_range.1 hy)
    refine ⟨⟨h.frame.spec_eq, h.frame.rec_eq, h.frame.steps, h.frame.attack_steps, h.frame.asteps⟩, ?_, h.assets,
      ?_, ?_, ?_, ?_⟩
    · exact repG_frame h.repG rfl (fun x => attach_name (mkAssoc s d l r).1 s.nextC V x)
        (fun x => attach_supers (mkAssoc s d l r).1 s.nextC V x) (fun x => attach_subs (mkAssoc s d l r).1 s.nextC V x)
    · show s.g.associations ++ [s.nextC] = List.range (s.nextC + 1)
      rw [h.refs, List.range_succ]
    · show (s.g.associations ++ [s.nextC]).map (fullDeclOf (finish s d l r V)) = acc ++ [absAssoc d]
      rw [List.map_append, List.map_singleton, finish_fullDeclOf_new s d l r V hln hrn, ← h.full]
      congr 1
      apply List.map_congr_left
      intro y hy
      exact finish_fullDeclOf_old s d l r V (hlt y hy)
    · intro y hy
      have hy' : y ∈ s.g.associations ++ [s.nextC] := hy
      show ((finish s d l r V).g.assoc y).left_field.asset ∈ s.g.assets ∧
        ((finish s d l r V).g.assoc y).right_field.asset ∈ s.g.assets
      rw [finish_assoc]
      rcases List.mem_append.1 hy' with hy' | hy'
      · rw [if_neg (hlt y hy')]; exact h.ends y hy'
      · rw [if_pos (List.mem_singleton.1 hy')]; exact ⟨hl, hr⟩
    · intro x hx
      have hx' : x ∈ s.g.assets := hx
      show ((attach (mkAssoc s d l r).1 s.nextC V).g.asset x).associations =
        (s.g.associations ++ [s.nextC]).filter (fun c =>
          (absLang spec).isSub (gname (finish s d l r V).g x) (declOf (finish s d l r V).g c).leftAsset ||
          (absLang spec).isSub (gname (finish s d l r V).g x) (declOf (finish s d l r V).g c).rightAsset)
      rw [attach_associations, List.filter_append]
      have e1 : s.g.associations.filter (fun c =>
          (absLang spec).isSub (gname (finish s d l r V).g x) (declOf (finish s d l r V).g c).leftAsset ||
          (absLang spec).isSub (gname (finish s d l r V).g x) (declOf (finish s d l r V).g c).rightAsset) =
          (s.g.asset x).associations := by
        rw [h.assocs x hx']
        apply List.filter_congr
        intro y hy
        rw [finish_declOf_old s d l r V (hlt y hy), finish_gname]
      rw [e1]
      have e2 := finish_declOf_new s d l r V
      simp only [List.filter_cons, List.filter_nil, e2.1, e2.2, finish_gname]
      have e3 : ((mkAssoc s d l r).1.g.asset x).associations = (s.g.asset x).associations := rfl
      rw [e3]
      by_cases hv : x ∈ V
      · have := (hV' x).1 hv
        rcases this.2 with q | q <;> simp [hv, q]
      · have : ¬ ((absLang spec).isSub (gname s.g x) (gname s.g l) = true ∨
            (absLang spec).isSub (gname s.g x) (gname s.g r) = true) := fun q => hv ((hV' x).2 ⟨hx', q⟩)
        simp only [not_or, Bool.not_eq_true] at this
        simp [hv, this.1, this.2]

theorem absLang_assocs (spec : LS) : (absLang spec).assocs = spec.associations.map absAssoc := rfl

/-- on the association objects of the graph, the dedupe test of the translated code is the hand model's -/
theorem dupTest_eq {spec : LS} {R : Nat} {acc : List AssocDecl} {s : TH} (h : AInv s spec R acc) (d : PyAssocD)
    {l r : GARef} (hl : l ∈ s.g.assets) (hln : gname s.g l = d.leftAsset) (hr : r ∈ s.g.assets)
    (hrn : gname s.g r = d.rightAsset) {y : GCRef} (hy : y ∈ s.g.associations) :
    dupTest s d l r y = (decide ((fullDeclOf s y).name = (absAssoc d).name) &&
      decide ((fullDeclOf s y).leftAsset = (absAssoc d).leftAsset) &&
      decide ((fullDeclOf s y).rightAsset = (absAssoc d).rightAsset)) := by
  unfold dupTest
  rw [TieLangGraph.repG_lgAssetEq_iff h.repG (h.ends y hy).1 hl,
    TieLangGraph.repG_lgAssetEq_iff h.repG (h.ends y hy).2 hr, hln, hrn]
  simp only [fullDeclOf, declOf, absAssoc, Bool.and_assoc]
  congr 1

theorem any_dup {spec : LS} {R : Nat} {acc : List AssocDecl} {s : TH} (h : AInv s spec R acc) (d : PyAssocD)
    {l r : GARef} (hl : l ∈ s.g.assets) (hln : gname s.g l = d.leftAsset) (hr : r ∈ s.g.assets)
    (hrn : gname s.g r = d.rightAsset) :
    acc.any (fun x => decide (x.name = (absAssoc d).name) && decide (x.leftAsset = (absAssoc d).leftAsset) &&
      decide (x.rightAsset = (absAssoc d).rightAsset)) = (s.g.associations.find? (dupTest s d l r)).isSome := by
  rw [← h.full, List.any_map, Bool.eq_iff_iff, List.any_eq_true, List.find?_isSome]
  constructor
  · rintro ⟨y, hy, hp⟩
    exact ⟨y, hy, by rw [dupTest_eq h d hl hln hr hrn hy]; exact hp⟩
  · rintro ⟨y, hy, hp⟩
    exact ⟨y, hy, by rw [dupTest_eq h d hl hln hr hrn hy] at hp; exact hp⟩

/-- **M3**: one iteration of `for association in associations` is one `nodeStep` of the hand model -/
theorem innerBody_spec {spec : LS} {R : Nat} {acc : List AssocDecl} {s : TH} (hac : Acyclic (absLang spec))
    (hends : ((absLang spec).assocs.all fun d => ((absLang spec).findAsset d.leftAsset).isSome &&
      ((absLang spec).findAsset d.rightAsset).isSome) = true)
    (h : AInv s spec R acc) (d : PyAssocD) (hd : d ∈ spec.associations) (j : GARef) :
    ∃ acc' s' j', nodeStep (absLang spec) acc (absAssoc d) = .ok acc' ∧
      innerBody d (s, j) = .ok (ForInStep.yield (s', j')) ∧ AInv s' spec R acc' := by
  have hdm : absAssoc d ∈ (absLang spec).assocs := by
    rw [absLang_assocs]; exact List.mem_map.2 ⟨d, hd, rfl⟩
  have he := List.all_eq_true.1 hends _ hdm
  simp only [Bool.and_eq_true] at he
  have hel : ((absLang spec).findAsset d.leftAsset).isSome = true := he.1
  have her : ((absLang spec).findAsset d.rightAsset).isSome = true := he.2
  have hsl := (TieLangGraph.repG_refOf_isSome_iff h.repG d.leftAsset).2 hel
  have hsr := (TieLangGraph.repG_refOf_isSome_iff h.repG d.rightAsset).2 her
  cases hfl : refOf s.g d.leftAsset with
  | none => rw [hfl] at hsl; cases hsl
  | some l =>
    cases hfr : refOf s.g d.rightAsset with
    | none => rw [hfr] at hsr; cases hsr
    | some r =>
      obtain ⟨hl, hln⟩ := (TieLangGraph.repG_refOf_eq_some_iff h.repG _ l).1 hfl
      obtain ⟨hr, hrn⟩ := (TieLangGraph.repG_refOf_eq_some_iff h.repG _ r).1 hfr
      have hfl' : s.g.assets.find? (fun asset => (s.g.asset asset).name == some d.leftAsset) = some l := hfl
      have hfr' : s.g.assets.find? (fun asset => (s.g.asset asset).name == some d.rightAsset) = some r := hfr
      have hns : nodeStep (absLang spec) acc (absAssoc d) =
          if (s.g.associations.find? (dupTest s d l r)).isSome = true then .ok acc else .ok (acc ++ [absAssoc d]) := by
        unfold nodeStep
        have e1 : ((absLang spec).findAsset (absAssoc d).leftAsset).isNone = false := by
          show ((absLang spec).findAsset d.leftAsset).isNone = false
          cases hq : (absLang spec).findAsset d.leftAsset with
          | none => rw [hq] at hel; cases hel
          | some _ => rfl
        have e2 : ((absLang spec).findAsset (absAssoc d).rightAsset).isNone = false := by
          show ((absLang spec).findAsset d.rightAsset).isNone = false
          cases hq : (absLang spec).findAsset d.rightAsset with
          | none => rw [hq] at her; cases her
          | some _ => rfl
        rw [e1, e2, any_dup h d hl hln hr hrn]
        rfl
      have hib : innerBody d (s, j) =
          match s.g.associations.find? (dupTest s d l r) with
          | some _ => pure (ForInStep.yield (s, j))
          | none => createStep s j d l r := by
        unfold innerBody
        simp only [hfl', hfr']
      rw [hns, hib]
      cases hfind : s.g.associations.find? (dupTest s d l r) with
      | some v => exact ⟨acc, s, j, rfl, rfl, h⟩
      | none =>
        obtain ⟨s', j', h1, h2⟩ := createStep_spec hac h d l r j hl hln hr hrn hfind
        exact ⟨acc ++ [absAssoc d], s', j', rfl, h1, h2⟩

/-! ## M4: the inner and the outer loop are `assocNodes` -/

theorem inner_loop {spec : LS} {R : Nat} (hac : Acyclic (absLang spec))
    (hends : ((absLang spec).assocs.all fun d => ((absLang spec).findAsset d.leftAsset).isSome &&
      ((absLang spec).findAsset d.rightAsset).isSome) = true) :
    ∀ (ds : List PyAssocD), (∀ d ∈ ds, d ∈ spec.associations) → ∀ (s : TH) (j : GARef) (acc : List AssocDecl),
      AInv s spec R acc →
      ∃ acc' s' j', (ds.map absAssoc).foldlM (nodeStep (absLang spec)) acc = .ok acc' ∧
        forIn ds (s, j) innerBody = .ok (s', j') ∧ AInv s' spec R acc' := by
  intro ds
  induction ds with
  | nil => intro _ s j acc h; exact ⟨acc, s, j, rfl, rfl, h⟩
  | cons d ds ih =>
    intro hds s j acc h
    obtain ⟨acc1, s1, j1, h1, h2, h3⟩ := innerBody_spec hac hends h d (hds d List.mem_cons_self) j
    obtain ⟨acc2, s2, j2, k1, k2, k3⟩ := ih (fun d' hd' => hds d' (List.mem_cons_of_mem _ hd')) s1 j1 acc1 h3
    refine ⟨acc2, s2, j2, ?_, ?_, k3⟩
    · rw [List.map_cons, List.foldlM_cons, h1]
      exact k1
    · rw [List.forIn_cons, h2]
      exact k2

/-- the form in which the tie of `_get_associations_for_asset_type` is used -/
def DeclTie (spec : LS) : Prop :=
  ∀ (s' : TH) (t : String), s'.spec = spec →
    ∃ l : List PyAssocD, lg__get_associations_for_asset_type (pyFuelL s'.spec) s' t = .ok l ∧
      l.map absAssoc = declaredFor (absLang spec) t ∧ ∀ d ∈ l, d ∈ spec.associations

theorem outerBody_spec {spec : LS} {R : Nat} (hac : Acyclic (absLang spec))
    (hends : ((absLang spec).assocs.all fun d => ((absLang spec).findAsset d.leftAsset).isSome &&
      ((absLang spec).findAsset d.rightAsset).isSome) = true)
    (hdecl : DeclTie spec) {s : TH} {acc : List AssocDecl} (h : AInv s spec R acc) (a : GARef) (ha : a ∈ s.g.assets) :
    ∃ acc' s', (declaredFor (absLang spec) (gname s.g a)).foldlM (nodeStep (absLang spec)) acc = .ok acc' ∧
      outerBody a s = .ok (ForInStep.yield s') ∧ AInv s' spec R acc' := by
  obtain ⟨l, hl1, hl2, hl3⟩ := hdecl s (gname s.g a) h.frame.spec_eq
  obtain ⟨acc', s', j', k1, k2, k3⟩ := inner_loop hac hends l hl3 s a acc h
  refine ⟨acc', s', ?_, ?_, k3⟩
  · rw [← hl2]; exact k1
  · unfold outerBody
    rw [TieLangGraph.repG_name_eq h.repG ha]
    simp only [pyStr, bind, Except.bind]
    rw [hl1]
    simp only [k2]
    rfl

/-- the name of asset object `r`, in any state of the loop -/
theorem ainv_gname {spec : LS} {R : Nat} {s : TH} {acc : List AssocDecl} (h : AInv s spec R acc) {r : Nat}
    (hr : r < (absLang spec).assets.length) : gname s.g r = (absLang spec).assets[r].name := by
  have hn := h.repG.names
  rw [h.assets] at hn
  have hlen : spec.assets.length = (absLang spec).assets.length := (TieLang.absLang_assets_length spec).symm
  have h1 : r < ((List.range spec.assets.length).map (fun r => (s.g.asset r).name)).length := by
    simp; omega
  have := List.getElem_of_eq hn h1
  simp only [List.getElem_map, List.getElem_range] at this
  simp [gname, this]

theorem outer_loop {spec : LS} {R : Nat} (hac : Acyclic (absLang spec))
    (hends : ((absLang spec).assocs.all fun d => ((absLang spec).findAsset d.leftAsset).isSome &&
      ((absLang spec).findAsset d.rightAsset).isSome) = true)
    (hdecl : DeclTie spec) :
    ∀ (rs : List GARef) (as : List AssetDecl) (s : TH) (acc : List AssocDecl), AInv s spec R acc →
      (∀ r ∈ rs, r < (absLang spec).assets.length) →
      rs.map (fun r => ((absLang spec).assets[r]?).map (·.name)) = as.map (fun a => some a.name) →
      ∃ acc' s', as.foldlM (fun acc a => (declaredFor (absLang spec) a.name).foldlM (nodeStep (absLang spec)) acc) acc
          = .ok acc' ∧
        forIn rs s outerBody = .ok s' ∧ AInv s' spec R acc' := by
  intro rs
  induction rs with
  | nil =>
    intro as s acc h _ hm
    cases as with
    | nil => exact ⟨acc, s, rfl, rfl, h⟩
    | cons a as => cases hm
  | cons r rs ih =>
    intro as s acc h hlt hm
    cases as with
    | nil => cases hm
    | cons a as =>
      simp only [List.map_cons, List.cons.injEq] at hm
      have hr := hlt r List.mem_cons_self
      have hra : gname s.g r = a.name := by
        rw [ainv_gname h hr]
        have := hm.1
        rw [List.getElem?_eq_getElem hr] at this
        simpa using this
      have hmem : r ∈ s.g.assets := by
        rw [h.assets, List.mem_range, ← TieLang.absLang_assets_length spec]; exact hr
      obtain ⟨acc1, s1, h1, h2, h3⟩ := outerBody_spec hac hends hdecl h r hmem
      obtain ⟨acc2, s2, k1, k2, k3⟩ := ih as s1 acc1 h3 (fun r' hr' => hlt r' (List.mem_cons_of_mem _ hr')) hm.2
      refine ⟨acc2, s2, ?_, ?_, k3⟩
      · rw [List.foldlM_cons, ← hra, h1]; exact k1
      · rw [List.forIn_cons, h2]; exact k2

/-! ## M5: `AfterAssocs` -/

theorem mem_zip_map {α β : Type} (f : α → β) : ∀ (l : List α) (p : α × β), p ∈ l.zip (l.map f) → p.1 ∈ l ∧ p.2 = f p.1 := by
  intro l
  induction l with
  | nil => intro p hp; cases hp
  | cons x l ih =>
    intro p hp
    simp only [List.map_cons, List.zip_cons_cons, List.mem_cons] at hp
    rcases hp with rfl | hp
    · exact ⟨List.mem_cons_self, rfl⟩
    · exact ⟨List.mem_cons_of_mem _ (ih p hp).1, (ih p hp).2⟩

/-- the invariant at the end of the loops gives what `phaseAssocs` is to leave -/
theorem afterAssocs_of_inv {spec : LS} {R : Nat} {s : TH} {nodes : List AssocDecl} (h : AInv s spec R nodes) :
    AfterAssocs s spec R nodes := by
  refine ⟨h.frame, h.repG, ⟨?_, ?_, ?_⟩, h.assocs, h.full⟩
  · rw [h.refs]; exact List.nodup_range
  · rw [← h.full, List.length_map]
  · intro p hp
    rw [← h.full] at hp
    obtain ⟨hm, he⟩ := mem_zip_map (fullDeclOf s) _ p hp
    rw [he]
    exact ⟨rfl, rfl, rfl, (h.ends p.1 hm).1, rfl, (h.ends p.1 hm).2, rfl⟩

/-- the state `phaseInherit` leaves satisfies the invariant, for the empty accumulator -/
theorem inv_of_afterInherit {spec : LS} {R : Nat} {s : TH} (h : AfterInherit s spec R) : AInv s spec R [] := by
  refine ⟨h.frame, h.repG, h.assets, ?_, ?_, ?_, ?_⟩
  · rw [h.associations, h.nextC]; rfl
  · rw [h.associations]; rfl
  · intro c hc; rw [h.associations] at hc; cases hc
  · intro r hr
    rw [h.no_assocs r hr, h.associations]; rfl

end Assocs

set_option linter.unusedVariables false in
/-- **the fourth loop of the translated `_generate_graph` computes the hand model's `assocNodes`**: on the heap
`phaseInherit` leaves, for an acyclic specification whose association ends are all declared (`phaseCheckEnds`), it
does not raise (in particular no `nonTermination` of the unrolled work-list loop), and leaves a heap whose
association objects are the hand model's nodes, attached to exactly the assets the hand model says -/
theorem phaseAssocs_spec (spec : LS) (R : Nat) (hok : SpecOK spec) (hac : Acyclic (absLang spec)) (s2 : TH)
    (h2 : AfterInherit s2 spec R)
    (hends : ((absLang spec).assocs.all fun d => ((absLang spec).findAsset d.leftAsset).isSome &&
      ((absLang spec).findAsset d.rightAsset).isSome) = true)
    (hdecl : ∀ (s' : TH) (t : String), s'.spec = spec →
      ∃ l : List PyAssocD, lg__get_associations_for_asset_type (pyFuelL s'.spec) s' t = .ok l ∧
        l.map absAssoc = declaredFor (absLang spec) t ∧ ∀ d ∈ l, d ∈ spec.associations) :
    ∃ nodes s4, assocNodes (absLang spec) = .ok nodes ∧ phaseAssocs s2 = .ok s4 ∧ AfterAssocs s4 spec R nodes := by
  have hlen : (absLang spec).assets.length = spec.assets.length := TieLang.absLang_assets_length spec
  obtain ⟨nodes, s4, k1, k2, k3⟩ := Assocs.outer_loop (R := R) hac hends hdecl s2.g.assets (absLang spec).assets s2 []
    (Assocs.inv_of_afterInherit h2)
    (by intro r hr; rw [h2.assets, List.mem_range] at hr; rw [hlen]; exact hr)
    (by
      rw [h2.assets, ← hlen]
      apply List.ext_getElem
      · simp
      · intro i h1 h2
        have hi : i < (absLang spec).assets.length := by simpa using h2
        simp [hi])
  exact ⟨nodes, s4, by rw [assocNodes_eq]; exact k1, by rw [Assocs.phaseAssocs_eq]; exact k2, Assocs.afterAssocs_of_inv k3⟩

end MalVerif.Py.TieLangType
