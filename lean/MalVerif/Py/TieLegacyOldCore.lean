import MalVerif.Py.TieLegacyBase
/-!
# Tie of the translated 0.0.39 loader, from the three loop simulations

`process_model_sim`: on the encoding of a well-formed typed document the GENERATED `updater_process_model` returns a
model whose abstraction is the state the hand-written `Legacy.loadOld` computes (from the state the empty heap stands
for), and it raises exactly when `loadOld` rejects the document.  `process_model_sim_class`: … and the exception it
raises agrees with the error of `loadOld` (`OldErrAgree`).
-/
namespace MalVerif.PyLeg.Tie
open MalVerif MalVerif.PyM MalVerif.PyM.Gen MalVerif.PyM.Tie MalVerif.PyLeg MalVerif.PyLeg.Gen MalVerif.Legacy
open MalVerif.Ser (Key)

theorem epFresh_empty (name : String) : EpFresh (emptyModel name) :=
  fun _ _ hr => absurd hr List.not_mem_nil

theorem inv_empty (name : String) : MS.Inv (abs (emptyModel name)) := init_inv

/-! reading the top level of the encoded document -/
theorem enc_metadata (nested : Bool) (name : String) (d : OldDoc) :
    jIndex (encOld nested name d) (PyJ.str "metadata") = .ok (.dict [(.s "name", .str name)]) := rfl
theorem enc_name (name : String) : jIndex (PyJ.dict [(.s "name", .str name)]) (PyJ.str "name") = .ok (.str name) := rfl
theorem enc_assets (nested : Bool) (name : String) (d : OldDoc) :
    jIndex (encOld nested name d) (PyJ.str "assets") = .ok (.dict (d.assets.map (fun e => (e.1, encAsset e.2)))) := rfl
theorem enc_assets_items (d : OldDoc) :
    jItems (.dict (d.assets.map (fun e => (e.1, encAsset e.2)))) = .ok (d.assets.map encA) := by
  unfold jItems; simp only [List.map_map]; rfl
theorem enc_assocs (nested : Bool) (name : String) (d : OldDoc) :
    jGetD (encOld nested name d) (PyJ.str "associations") (PyJ.list []) =
      .ok (.list (d.associations.map (encAssoc nested))) := rfl
theorem enc_has_attackers (nested : Bool) (name : String) (d : OldDoc) :
    jContains (PyJ.str "attackers") (encOld nested name d) = .ok true := rfl
theorem enc_attackers (nested : Bool) (name : String) (d : OldDoc) :
    jIndex (encOld nested name d) (PyJ.str "attackers") = .ok (infoOf d.attackers) := rfl
theorem enc_attackers_keys (atts : List (Key × Ser.AttackerEntry)) :
    jIter (infoOf atts) = .ok (atts.map (fun e => keyJ e.1)) := by
  unfold jIter infoOf; simp only [List.map_map]; rfl

theorem jIter_list (l : List PyJ) : jIter (.list l) = .ok l := rfl

/-- the composition of the three loops, with the exception class: the translated loader returns a model whose abstraction
is the state the hand model computes, or it raises `e` and the hand model rejects with an error that agrees with `e`
(`OldErrAgree`: the same class, or one of the listed disagreements) -/
theorem process_model_sim_class (files : Files) (env : ModelEnv) (fac : Factory) (defsOk : Key → Bool) (nested : Bool)
    (name : String) (d : OldDoc)
    (hA : StepSim (PA env) (QA fac defsOk) (assetBody env fac) encA (loadOldAsset fac.L defsOk))
    (hLs : StepSim PL (AssocWf fac.L nested) (assocBody env fac) (encAssoc nested) (loadOldAssoc fac.L))
    (hT : StepSim PT (QT d.attackers) (attackerBody env (infoOf d.attackers)) (fun e => keyJ e.1) Ser.loadAttacker)
    (hwf : OldWf fac.L nested d) (hdefs : DefsOkOf fac d defsOk) (hfuel : d.assets.length ≤ env.whileFuel) :
    match updater_process_model files env (encOld nested name d) fac with
    | .ok s' => loadOldFrom fac.L defsOk (abs (emptyModel name)) d = .ok (abs s')
    | .error e => ∃ er, loadOldFrom fac.L defsOk (abs (emptyModel name)) d = .error er ∧ OldErrAgree e er := by
  rw [process_model_eq]
  simp only [enc_metadata, enc_name, enc_assets, enc_assets_items, enc_assocs, enc_has_attackers, enc_attackers,
    enc_attackers_keys, jIter_list, bind, Except.bind, newModel, if_true]
  have hqa : ∀ e ∈ d.assets, QA fac defsOk e := fun e he => ⟨hwf.defs e he, hdefs e he⟩
  have hp0 : PA env d.assets.length ({ name := name } : H) :=
    ⟨inv_empty name, by show 0 + d.assets.length ≤ env.whileFuel; omega, epFresh_empty name⟩
  obtain ⟨a1, a2⟩ := loop_sim hA d.assets hqa _ hp0
  unfold loadOldFrom
  simp only [bind, Except.bind]
  cases h1 : forIn (d.assets.map encA) ({ name := name } : H) (assetBody env fac) with
  | error e =>
    obtain ⟨er, her, hag⟩ := a2 e h1
    show ∃ er', _ = Except.error er' ∧ OldErrAgree e er'
    rw [show abs (emptyModel name) = abs ({ name := name } : H) from rfl, her]
    exact ⟨er, rfl, hag⟩
  | ok s1 =>
    obtain ⟨hs1, hI1, _, hF1⟩ := a1 s1 h1
    rw [show abs (emptyModel name) = abs ({ name := name } : H) from rfl, hs1]
    simp only []
    obtain ⟨b1, b2⟩ := loop_sim hLs d.associations hwf.assocs s1 ⟨hI1, hF1⟩
    cases h2 : forIn (d.associations.map (encAssoc nested)) s1 (assocBody env fac) with
    | error e =>
      obtain ⟨er, her, hag⟩ := b2 e h2
      show ∃ er', _ = Except.error er' ∧ OldErrAgree e er'
      rw [her]
      exact ⟨er, rfl, hag⟩
    | ok s2 =>
      obtain ⟨hs2, _, hF2⟩ := b1 s2 h2
      rw [hs2]
      simp only []
      have hqt : ∀ e ∈ d.attackers, QT d.attackers e := fun e he => ⟨he, hwf.entries e he⟩
      obtain ⟨c1, c2⟩ := loop_sim hT d.attackers hqt s2 hF2
      cases h3 : forIn (d.attackers.map (fun e => keyJ e.1)) s2 (attackerBody env (infoOf d.attackers)) with
      | error e =>
        obtain ⟨er, her, hag⟩ := c2 e h3
        simp only []
        show ∃ er', _ = Except.error er' ∧ OldErrAgree e er'
        rw [her]
        exact ⟨er, rfl, hag⟩
      | ok s3 =>
        obtain ⟨hs3, _⟩ := c1 s3 h3
        simp only []
        show _ = Except.ok (abs s3)
        rw [hs3]

/-- … without the class: the loader returns the model of the hand model, and raises exactly when that rejects -/
theorem process_model_sim (files : Files) (env : ModelEnv) (fac : Factory) (defsOk : Key → Bool) (nested : Bool)
    (name : String) (d : OldDoc)
    (hA : StepSim (PA env) (QA fac defsOk) (assetBody env fac) encA (loadOldAsset fac.L defsOk))
    (hLs : StepSim PL (AssocWf fac.L nested) (assocBody env fac) (encAssoc nested) (loadOldAssoc fac.L))
    (hT : StepSim PT (QT d.attackers) (attackerBody env (infoOf d.attackers)) (fun e => keyJ e.1) Ser.loadAttacker)
    (hwf : OldWf fac.L nested d) (hdefs : DefsOkOf fac d defsOk) (hfuel : d.assets.length ≤ env.whileFuel) :
    okSt (updater_process_model files env (encOld nested name d) fac) =
      optSt (loadOldFrom fac.L defsOk (abs (emptyModel name)) d) := by
  have h := process_model_sim_class files env fac defsOk nested name d hA hLs hT hwf hdefs hfuel
  cases hr : updater_process_model files env (encOld nested name d) fac with
  | ok s' =>
    rw [hr] at h
    have h' : loadOldFrom fac.L defsOk (abs (emptyModel name)) d = .ok (abs s') := h
    rw [h']; rfl
  | error e =>
    rw [hr] at h
    obtain ⟨er, her, _⟩ : ∃ er, loadOldFrom fac.L defsOk (abs (emptyModel name)) d = .error er ∧ OldErrAgree e er := h
    rw [her]; rfl

end MalVerif.PyLeg.Tie
